/-
  Line-protocol driver for the name functions (C20) and the interval / timer model (C17).
  One reply line per request line; `bad-op` for anything the protocol does not define.

    name state <int> | name mgr <int>                      -> str <NAME> | null | oob | unknown
    range <x> <lo> <hi>                                    -> -1 | 0 | 1
    opt <mode> <type> <x> <r> <e> <y>                      -> <rc> <r> <e> <y>
    init <r> <e> <y> <mode>                                -> <rc> [<r> <e> <y> <mode> <version>]
    mgrinit <n1,n2,..> <r> <e> <y>                         -> <rc> <nsockets> [<r> <e> <y> <mode>]
    eod <mode> <sockver> <pduver> <r> <e> <y> <pr> <py> <pe> <now>
                                                           -> <rc> <r> <e> <y> <version> <last_update>
    setmode <cur> <option>                                 -> <mode afterwards>
    wait <last_update> <refresh> <now> <notify|other|timeout|intr|error>
                                                           -> <rc> <timeout>
    waitf <last_update> <refresh> <now> <notify|reset|pfx4> [<dt>.<n>]*
                                                           -> <rc> <clock at return> R<len>:<timeout>@t ...
          (the PDU arrives in fragments: n bytes dt seconds after the previous one, then silence; one R item for
           EVERY call of the transport receive function)
    fsm <mode> <ver> <now> <ri> <ei> <yi> <e0> <r0> <y0> [N:dt:e:r:y | T:0:e:r:y | X:dt | I:dt | F:dt.n,dt.n,..:e:r:y]*
                                                           -> S2@t W<timeout>@t [R<len>:<timeout>@t ...] S1@t ...
-/
import RtrModel.Names
import RtrModel.Intervals
import RtrModel.Proto

open Rtr Rtr.Proto Rtr.Intervals

def u32? (s : String) : Option UInt32 := do
  let n ← s.toNat?
  if n < 4294967296 then pure (UInt32.ofNat n) else none

def int32? (s : String) : Option Int := do
  let n ← s.toInt?
  if -2147483648 ≤ n ∧ n < 4294967296 then pure n else none

def time? (s : String) : Option Int := do
  let n ← s.toInt?
  if 0 ≤ n ∧ n < 4611686018427387904 then pure n else none

def ver? (s : String) : Option Nat := do
  let n ← s.toNat?
  if n ≤ 1 then pure n else none

def event? (s : String) : Option WaitEvent :=
  match s with
  | "notify" => some .serialNotify | "other" => some .otherPdu | "timeout" => some .timeout
  | "intr" => some .intr | "error" => some .error | _ => none

/-- `<dt>.<n>`: 1 ≤ n ≤ 64 bytes, dt < 10^6 seconds -/
def frag? (w : String) : Option Frag :=
  match w.splitOn "." with
  | [dt, n] => do
    let dt ← dt.toNat?; let n ← n.toNat?
    if dt < 1000000 ∧ 1 ≤ n ∧ n ≤ 64 then pure ⟨dt, n⟩ else none
  | _ => none

def frags? (ws : List String) : Option (List Frag) :=
  if ws.length > 24 then none else ws.mapM frag?

def parseEv (w : String) : Option Ev :=
  match w.splitOn ":" with
  | ["N", dt, e, r, y] => do
    let dt ← dt.toNat?; let e ← u32? e; let r ← u32? r; let y ← u32? y
    if dt < 1000000 then pure ⟨.serialNotify, dt, e, r, y, []⟩ else none
  | ["T", "0", e, r, y] => do
    let e ← u32? e; let r ← u32? r; let y ← u32? y
    pure ⟨.timeout, 0, e, r, y, []⟩
  | ["X", dt] => do
    let dt ← dt.toNat?
    if dt < 1000000 then pure ⟨.otherPdu, dt, 0, 0, 0, []⟩ else none
  | ["I", dt] => do
    let dt ← dt.toNat?
    if dt < 1000000 then pure ⟨.intr, dt, 0, 0, 0, []⟩ else none
  | ["F", fs, e, r, y] => do
    let fr ← frags? (fs.splitOn ","); let e ← u32? e; let r ← u32? r; let y ← u32? y
    if fr = [] then none else pure ⟨.serialNotify, 0, e, r, y, fr⟩
  | _ => none

/-- PDU kinds of `waitf`: bytes behind the header, and whether it is a Serial Notify -/
def pduKind? (s : String) : Option (Nat × Bool) :=
  match s with
  | "notify" => some (notifyBody, true)
  | "reset" => some (0, false)
  | "pfx4" => some (Gen.sizeof_pdu_ipv4 - Gen.sizeof_pdu_header, false)
  | _ => none

def callStr (c : RecvCall) : String := s!"R{c.len}:{c.timeout}@{c.now}"

def itemStr : TraceItem → String
  | .send t now => s!"S{t}@{now}"
  | .wait t now => s!"W{t}@{now}"
  | .recv len t now => s!"R{len}:{t}@{now}"

def sockStr (s : Sock) : String := s!"{s.refresh} {s.expire} {s.retry}"

def step (_ : Unit) (line : String) : Unit × String :=
  let bad := ((), "bad-op")
  match words line with
  | ["name", "state", i] => match int32? i with
    | some i => ((), (Names.stateToStr i).render)
    | none => bad
  | ["name", "mgr", i] => match int32? i with
    | some i => ((), (Names.mgrStatusToStr i).render)
    | none => bad
  | ["range", x, lo, hi] => match u32? x, u32? lo, u32? hi with
    | some x, some lo, some hi => ((), s!"{(checkIntervalRange x lo hi).code}")
    | _, _, _ => bad
  | ["opt", mode, ty, x, r, e, y] => match int32? mode, int32? ty, u32? x, u32? r, u32? e, u32? y with
    | some mode, some ty, some x, some r, some e, some y =>
      let (s, rc) := checkIntervalOption { refresh := r, expire := e, retry := y, ivMode := mode } mode x (IvType.ofCode ty)
      ((), s!"{rc} {sockStr s}")
    | _, _, _, _, _, _ => bad
  | ["init", r, e, y, mode] => match u32? r, u32? e, u32? y, int32? mode with
    | some r, some e, some y, some mode =>
      match rtrInit r e y mode with
      | (rc, some s) => ((), s!"{rc} {sockStr s} {s.ivMode} {s.version}")
      | (rc, none) => ((), s!"{rc}")
    | _, _, _, _ => bad
  | ["mgrinit", sizes, r, e, y] =>
    match (sizes.splitOn ",").mapM (·.toNat?), u32? r, u32? e, u32? y with
    | some sizes, some r, some e, some y =>
      if sizes.length > 8 ∨ sizes.any (· > 8) ∨ sizes.any (· = 0) then bad else
      match mgrInit sizes r e y with
      | (rc, s :: rest) => ((), s!"{rc} {rest.length + 1} {sockStr s} {s.ivMode}")
      | (rc, []) => ((), s!"{rc} 0")
    | _, _, _, _ => bad
  | ["eod", mode, sv, pv, r, e, y, pr, py, pe, now] =>
    match int32? mode, ver? sv, ver? pv, u32? r, u32? e, u32? y, u32? pr, u32? py, u32? pe, time? now with
    | some mode, some sv, some pv, some r, some e, some y, some pr, some py, some pe, some now =>
      let s0 : Sock := { refresh := r, expire := e, retry := y, ivMode := mode, version := sv }
      let (s, rc) := syncCrEod s0 pv pe pr py now
      ((), s!"{rc} {sockStr s} {s.version} {s.lastUpdate}")
    | _, _, _, _, _, _, _, _, _, _ => bad
  | ["eodm", mode, mode2, sv, pv, r, e, y, pr, py, pe, now] =>
    -- the application sets the interval mode between the Cache Response and the End of Data: the mode in effect when the
    -- End of Data is processed decides
    match int32? mode, int32? mode2, ver? sv, ver? pv, u32? r, u32? e, u32? y, u32? pr, u32? py, u32? pe, time? now with
    | some mode, some mode2, some sv, some pv, some r, some e, some y, some pr, some py, some pe, some now =>
      let s0 : Sock := setIntervalMode { refresh := r, expire := e, retry := y, ivMode := mode, version := sv } mode2
      let (s, rc) := syncCrEod s0 pv pe pr py now
      ((), s!"{rc} {sockStr s} {s.version} {s.lastUpdate}")
    | _, _, _, _, _, _, _, _, _, _, _ => bad
  | ["setmode", cur, o] => match int32? cur, int32? o with
    | some cur, some o =>
      ((), s!"{(setIntervalMode { refresh := 3600, expire := 7200, retry := 600, ivMode := cur } o).ivMode}")
    | _, _ => bad
  | ["wait", last, refresh, now, ev] => match time? last, u32? refresh, time? now, event? ev with
    | some last, some refresh, some now, some ev =>
      let s : Sock := { refresh := refresh, expire := 7200, retry := 600, ivMode := 0, lastUpdate := last }
      ((), s!"{waitForSync ev} {waitTimeout s now}")
    | _, _, _, _ => bad
  | "waitf" :: last :: refresh :: now :: kind :: fr =>
    match time? last, u32? refresh, time? now, pduKind? kind, frags? fr with
    | some last, some refresh, some now, some (body, isNotify), some fr =>
      let s : Sock := { refresh := refresh, expire := 7200, retry := 600, ivMode := 0, lastUpdate := last }
      let p := waitPdu s now body fr
      ((), " ".intercalate (s!"{waitPduRc isNotify p}" :: s!"{p.now}" :: (p.hcalls ++ p.bcalls).map callStr))
    | _, _, _, _, _ => bad
  | "fsm" :: mode :: ver :: now :: ri :: ei :: yi :: e0 :: r0 :: y0 :: evs =>
    match int32? mode, ver? ver, time? now, u32? ri, u32? ei, u32? yi, u32? e0, u32? r0, u32? y0, evs.mapM parseEv with
    | some mode, some ver, some now, some ri, some ei, some yi, some e0, some r0, some y0, some evs =>
      if evs.length > 64 then bad else
      match rtrInit ri ei yi mode with
      | (_, some s) => ((), " ".intercalate ((fsmTrace s ver now e0 r0 y0 evs).map itemStr))
      | (rc, none) => ((), s!"init {rc}")
    | _, _, _, _, _, _, _, _, _, _ => bad
  | _ => bad

def main : IO Unit := do
  loop (← IO.getStdin) (← IO.getStdout) step ()
