/-
  Line-protocol driver for the translated C functions (RtrModel/Generated/CFuns.lean) next to the hand-written
  models they are proved equal to (RtrProofs/CLink*.lean).  For every request line the reply carries both values,

      gen=<value the translated C text computes, or UNDEF>  model=<value the model computes, or UNDEF>

  so that, when a link theorem no longer checks, tools/cfuncheck.py can search for a concrete input on which the C
  text as translated and the model differ (and run the same input through the real function in the C harness).
  All numbers are decimal unless stated; byte strings are hex.
-/
import RtrModel.Generated.CFuns
import RtrModel.Bits
import RtrModel.Intervals
import RtrModel.Rtr
import RtrModel.Hashlin
import RtrModel.PduConv
import RtrModel.Spki
import RtrModel.Proto
import RtrSpec.CLinkIo
import RtrSpec.CLinkFsm
import RtrSpec.CLinkSync
import RtrSpec.CLinkRecv
import RtrSpec.CLinkErr

open Rtr Rtr.Gen Rtr.Proto Rtr.P

namespace Rtr.CFunDriver

def showOpt {α : Type} (f : α → String) : Option α → String
  | none => "UNDEF"
  | some a => f a

def bv {n : Nat} (x : BitVec n) : String := toString x.toNat
def bl (b : Bool) : String := if b then "1" else "0"

def v6s (a : C.S_lrtr_ipv6_addr) : String := s!"{a.addr_0.toNat},{a.addr_1.toNat},{a.addr_2.toNat},{a.addr_3.toNat}"
def v6m (a : V6) : String := s!"{a.w0.toNat},{a.w1.toNat},{a.w2.toNat},{a.w3.toNat}"

def mkV6 (a b c d : Nat) : C.S_lrtr_ipv6_addr := { addr_0 := BitVec.ofNat 32 a, addr_1 := BitVec.ofNat 32 b, addr_2 := BitVec.ofNat 32 c, addr_3 := BitVec.ofNat 32 d }
def mkV6m (a b c d : Nat) : V6 := { w0 := BitVec.ofNat 32 a, w1 := BitVec.ofNat 32 b, w2 := BitVec.ofNat 32 c, w3 := BitVec.ofNat 32 d }

def sockOf (r e y : Nat) (mode : Int) : C.S_rtr_socket :=
  { C.S_rtr_socket.zero with refresh_interval := BitVec.ofNat 32 r, expire_interval := BitVec.ofNat 32 e,
                              retry_interval := BitVec.ofNat 32 y, iv_mode := BitVec.ofInt 32 mode }

def sockS (s : C.S_rtr_socket) : String :=
  s!"{s.refresh_interval.toNat},{s.expire_interval.toNat},{s.retry_interval.toNat},{s.iv_mode.toInt}"

def sockM (s : Intervals.Sock) : String := s!"{s.refresh.toNat},{s.expire.toNat},{s.retry.toNat},{s.ivMode}"

/-- the receive buffer at the time `rtr_pdu_check_size` runs: header in host byte order, rest as received -/
def hostHeader (raw : List Nat) : List Nat :=
  if raw.length < 8 then raw else
  [raw.getD 0 0, raw.getD 1 0, raw.getD 3 0, raw.getD 2 0, raw.getD 7 0, raw.getD 6 0, raw.getD 5 0, raw.getD 4 0] ++ raw.drop 8

def memBytes (mem : Nat → BitVec 8) (n : Nat) : List Nat := (List.range n).map fun i => (mem i).toNat

def reply (g m : String) : String := s!"gen={g} model={m}"

def step (line : String) : String :=
  match words line with
  | ["get_bits", v, f, n] =>
    match v.toNat?, f.toNat?, n.toNat? with
    | some v, some f, some n =>
      if f < 256 ∧ n < 256 then
        reply (showOpt bv (C.lrtr_get_bits (BitVec.ofNat 32 v) (BitVec.ofNat 8 f) (BitVec.ofNat 8 n)))
              (if n ≤ 32 then bv (getBits32 (BitVec.ofNat 32 v) f n) else "UNDEF")
      else "bad-op"
    | _, _, _ => "bad-op"
  | ["ipv6_get_bits", a, b, c, d, f, n] =>
    match a.toNat?, b.toNat?, c.toNat?, d.toNat?, f.toNat?, n.toNat? with
    | some a, some b, some c, some d, some f, some n =>
      if f < 256 ∧ n < 256 then
        reply (showOpt v6s (C.lrtr_ipv6_get_bits (mkV6 a b c d) (BitVec.ofNat 8 f) (BitVec.ofNat 8 n)))
              (if f > 127 ∨ decide (DefinedV6 f n) then v6m (ipv6GetBits (mkV6m a b c d) f n) else "UNDEF")
      else "bad-op"
    | _, _, _, _, _, _ => "bad-op"
  | ["is_left_child4", a, lvl] =>
    match a.toNat?, lvl.toNat? with
    | some a, some lvl =>
      let x : C.S_lrtr_ip_addr := { C.S_lrtr_ip_addr.zero with ver := 0#32, u := { C.S_U_lrtr_ip_addr__u.zero with addr4 := { addr := BitVec.ofNat 32 a } } }
      reply (showOpt bl (C.is_left_child x (BitVec.ofNat 32 lvl)))
            (if lvl < 256 then bl (isLeftChildC4 (BitVec.ofNat 32 a) lvl) else "-")
    | _, _ => "bad-op"
  | ["is_left_child6", a, b, c, d, lvl] =>
    match a.toNat?, b.toNat?, c.toNat?, d.toNat?, lvl.toNat? with
    | some a, some b, some c, some d, some lvl =>
      let x : C.S_lrtr_ip_addr := { C.S_lrtr_ip_addr.zero with ver := 1#32, u := { C.S_U_lrtr_ip_addr__u.zero with addr6 := mkV6 a b c d } }
      reply (showOpt bl (C.is_left_child x (BitVec.ofNat 32 lvl)))
            (if lvl < 256 then bl (isLeftChildC6 (mkV6m a b c d) lvl) else "-")
    | _, _, _, _, _ => "bad-op"
  | ["interval_range", i, lo, hi] =>
    match i.toNat?, lo.toNat?, hi.toNat? with
    | some i, some lo, some hi =>
      reply (showOpt (fun x => toString x.toInt) (C.rtr_check_interval_range (BitVec.ofNat 32 i) (BitVec.ofNat 32 lo) (BitVec.ofNat 32 hi)))
            (toString (Intervals.checkIntervalRange (UInt32.ofNat i) (UInt32.ofNat lo) (UInt32.ofNat hi)).code)
    | _, _, _ => "bad-op"
  | ["rtr_init", r0, e0, y0, smode, tr, r, e, y, mode] =>
    -- a socket with earlier contents (r0 e0 y0 smode, a session in progress) is initialised again
    match r0.toNat?, e0.toNat?, y0.toNat?, smode.toInt?, tr.toNat?, r.toNat?, e.toNat?, y.toNat?, mode.toInt? with
    | some r0, some e0, some y0, some smode, some tr, some r, some e, some y, some mode =>
      let b0 : C.S_rtr_socket := sockOf r0 e0 y0 smode
      let s0 : C.S_rtr_socket := { b0 with session_id := 77#32, serial_number := 5#32, last_update := 900#64, version := 0#32, has_received_pdus := true, is_resetting := true, state := 3#32 }
      let g := C.rtr_init s0 (BitVec.ofNat 64 tr) 1#64 2#64 (BitVec.ofNat 32 r) (BitVec.ofNat 32 e) (BitVec.ofNat 32 y) (BitVec.ofInt 32 mode) 3#64 4#64 5#64
      let m := Intervals.rtrInit (UInt32.ofNat r) (UInt32.ofNat e) (UInt32.ofNat y) mode
      reply (showOpt (fun x => if x.1 == 0#32 then s!"0:{sockS x.2}:v{x.2.version.toNat}:lu{x.2.last_update.toNat}:rcv{x.2.has_received_pdus}:req{x.2.request_session_id}:sn{x.2.serial_number.toNat}:sess{x.2.session_id.toNat}:rst{x.2.is_resetting}"
                               else s!"{x.1.toInt}:{sockS x.2}") g)
            (match m with
             | (rc, some ms) => s!"{rc}:{sockM ms}:v{ms.version}:lu{ms.lastUpdate}:rcv{ms.hasReceivedPdus}:reqtrue:sn0:sess77:rstfalse"
             | (rc, none) => s!"{rc}:{sockS s0}")
    | _, _, _, _, _, _, _, _, _ => "bad-op"
  | ["interval_option", r, e, y, smode, mode, iv, ty] =>
    match r.toNat?, e.toNat?, y.toNat?, smode.toInt?, mode.toInt?, iv.toNat?, ty.toNat? with
    | some r, some e, some y, some smode, some mode, some iv, some ty =>
      let g := C.rtr_check_interval_option (sockOf r e y smode) (BitVec.ofInt 32 mode) (BitVec.ofNat 32 iv) (BitVec.ofNat 32 ty)
      let ms : Intervals.Sock := { refresh := UInt32.ofNat r, expire := UInt32.ofNat e, retry := UInt32.ofNat y, ivMode := smode }
      let m := Intervals.checkIntervalOption ms mode (UInt32.ofNat iv) (Intervals.IvType.ofCode ty)
      reply (showOpt (fun x => s!"{x.1.toInt}:{sockS x.2}") g) s!"{m.2}:{sockM m.1}"
    | _, _, _, _, _, _, _ => "bad-op"
  | ["set_interval_mode", smode, opt] =>
    match smode.toInt?, opt.toInt? with
    | some smode, some opt =>
      let g := C.rtr_set_interval_mode (sockOf 1 1 1 smode) (BitVec.ofInt 32 opt)
      let ms : Intervals.Sock := { refresh := 1, expire := 1, retry := 1, ivMode := smode }
      reply (showOpt (fun x => toString x.iv_mode.toInt) g) (toString (Intervals.setIntervalMode ms opt).ivMode)
    | _, _ => "bad-op"
  | ["inthash", k] =>
    match k.toNat? with
    | some k => reply (showOpt bv (C.tommy_inthash_u32 (BitVec.ofNat 32 k))) (toString (inthash k))
    | none => "bad-op"
  | ["key_cmp", a1, k1, p1, s1, a2, k2, p2, s2] =>
    -- two key entries: asn (decimal), ski (hex, 20 bytes), spki (hex, 91 bytes), source (decimal)
    match a1.toNat?, hexToBytes? k1, hexToBytes? p1, s1.toNat?, a2.toNat?, hexToBytes? k2, hexToBytes? p2, s2.toNat? with
    | some a1, some k1, some p1, some s1, some a2, some k2, some p2, some s2 =>
      if k1.length ≠ 20 ∨ k2.length ≠ 20 ∨ p1.length ≠ 91 ∨ p2.length ≠ 91 then "bad-op" else
      let mk (a : Nat) (k p : List Nat) (s : Nat) : C.S_key_entry :=
        { C.S_key_entry.zero with asn := BitVec.ofNat 32 a, ski := k.map (BitVec.ofNat 8), spki := p.map (BitVec.ofNat 8), socket := s }
      let num (l : List Nat) : Nat := l.foldl (fun acc b => acc * 256 + b % 256) 0
      let mr (a : Nat) (k p : List Nat) (s : Nat) : SpkiRec := { asn := a % 4294967296, ski := num k, spki := num p, src := s }
      reply (showOpt (fun x => toString x.toNat) (C.key_entry_cmp (mk a1 k1 p1 s1) (mk a2 k2 p2 s2)))
            (if SpkiTable.cmp (mr a1 k1 p1 s1) (mr a2 k2 p2 s2) then "0" else "1")
    | _, _, _, _, _, _, _, _ => "bad-op"
  | "proto_fn" :: fn :: rest =>
    -- proto_fn <function> <socket: 13 numbers> ; <hex bytes of the buffer / PDU> ; <answer: rc aux hexbuf + 13 numbers> ; ...
    -- the translated protocol function next to its specification (RtrProofs/CLinkSync.lean) in the world made of the answers
    let groups := (" ".intercalate rest).splitOn ";" |>.map (fun g => (g.splitOn " ").filter (· ≠ ""))
    let toSock (l : List String) : Option C.S_rtr_socket := do
      match l.mapM String.toInt? with
      | some [r, lu, e, y, iv, st, sid, rq, sn, th, v, hp, ir] =>
        pure { refresh_interval := BitVec.ofInt 32 r, last_update := BitVec.ofInt 64 lu, expire_interval := BitVec.ofInt 32 e,
               retry_interval := BitVec.ofInt 32 y, iv_mode := BitVec.ofInt 32 iv, state := BitVec.ofInt 32 st,
               session_id := BitVec.ofInt 32 sid, request_session_id := rq != 0, serial_number := BitVec.ofInt 32 sn,
               thread_id := BitVec.ofInt 64 th, version := BitVec.ofInt 32 v, has_received_pdus := hp != 0, is_resetting := ir != 0 }
      | _ => none
    let showSock (s : C.S_rtr_socket) : String :=
      s!"{s.refresh_interval.toNat} {s.last_update.toInt} {s.expire_interval.toNat} {s.retry_interval.toNat} {s.iv_mode.toInt} {s.state.toNat} {s.session_id.toNat} {if s.request_session_id then 1 else 0} {s.serial_number.toNat} {s.thread_id.toNat} {s.version.toNat} {if s.has_received_pdus then 1 else 0} {if s.is_resetting then 1 else 0}"
    let showTrace (t : List (String × List (BitVec 64) × C.S_rtr_socket)) : String :=
      "/".intercalate (t.map fun c => s!"{c.1} {" ".intercalate (c.2.1.map fun a => toString a.toInt)} | {showSock c.2.2}")
    let sh (r : Option (BitVec 32 × C.S_rtr_socket × C.XWorld C.S_rtr_socket)) : String :=
      showOpt (fun x => s!"{x.1.toInt} {showSock x.2.1} # {showTrace x.2.2.trace}") r
    match groups with
    | s0 :: [hex] :: answers =>
      match toSock s0, hexToBytes? (if hex = "-" then "" else hex), answers.mapM (fun a => match a with
                                       | rc :: aux :: hb :: st => (do let rc ← rc.toInt?; let aux ← aux.toInt?; let st ← toSock st
                                                                      let b ← hexToBytes? (if hb = "-" then "" else hb)
                                                                      pure ({ rc := BitVec.ofInt 64 rc, aux := BitVec.ofInt 64 aux, st := st, buf := b.map (BitVec.ofNat 8) } : C.ExtAns C.S_rtr_socket))
                                       | _ => none) with
      | some s0, some bytes, some answers =>
        let stop : C.ExtAns C.S_rtr_socket := { rc := BitVec.ofInt 64 (-1), aux := 0, st := { s0 with state := 9#32 } }
        let w : C.XWorld C.S_rtr_socket := { ext := fun i => answers.getD i stop }
        let mem := C.memOfList bytes
        match fn with
        | "wait_for_sync" => reply (sh (C.rtr_wait_for_sync w s0)) (sh (CLink.waitForSyncSpec w s0))
        | "sync" => reply (sh (C.rtr_sync.loop1 (answers.length + 2) w (fun _ => 0#8) 3248 0 s0)) (sh (CLink.syncSpec (answers.length + 2) w s0))
        | "serial_query" => reply (sh (C.rtr_send_serial_query w s0)) (sh (CLink.serialQuerySpec w s0))
        | "reset_query" => reply (sh (C.rtr_send_reset_query w s0)) (sh (CLink.resetQuerySpec w s0))
        | "set_last_update" => reply (sh (C.rtr_set_last_update w s0)) (sh (CLink.setLastUpdateSpec w s0))
        | "cache_response" => reply (sh (C.rtr_handle_cache_response_pdu w mem bytes.length s0 0)) (sh (CLink.cacheResponseSpec w mem bytes.length s0 0))
        | "error_pdu" => reply (sh (C.rtr_handle_error_pdu w mem bytes.length s0 0)) (sh (CLink.errorPduSpec w mem bytes.length s0 0))
        | "send_pdu" =>
          -- rtr_send_pdu(socket, the given bytes, their number): return code, socket and the calls made (the converted copy and what is
          -- handed to tr_send_all are recorded arguments)
          let sh3 (r : Option (BitVec 32 × (Nat → BitVec 8) × C.XWorld C.S_rtr_socket)) : String :=
            showOpt (fun x => s!"{x.1.toInt} # {showTrace x.2.2.trace}") r
          reply (sh3 (C.rtr_send_pdu w mem bytes.length s0 0 (BitVec.ofNat 32 bytes.length)))
                (sh3 (CLink.Err.sendPduSpec w mem s0 (BitVec.ofNat 32 bytes.length)))
        | "receive_pdu" =>
          -- the buffer: 3248 bytes at address 0 (initial contents: the given bytes, then zeros); timeout 7
          let msz := 3248
          let showBuf (m : Nat → BitVec 8) : String := bytesToHex ((List.range 40).map fun i => (m i).toNat)
          let g := (C.rtr_receive_pdu w mem msz s0 0 (BitVec.ofNat 64 3248) 7#64).map fun x => (x.1, x.2.1, x.2.2.2, showBuf x.2.2.1)
          let o := CLink.Recv.recvModel w mem msz s0 0 7#64
          let sh2 (r : Option (BitVec 32 × C.S_rtr_socket × C.XWorld C.S_rtr_socket × String)) : String :=
            showOpt (fun x => s!"{x.1.toInt} {showSock x.2.1} {x.2.2.2} # {showTrace x.2.2.1.trace}") r
          reply (sh2 g) (sh2 (some (o.rc, o.sock, o.w, showBuf o.mem)))
        | _ => "bad-op"
      | _, _, _ => "bad-op"
    | _ => "bad-op"
  | "fsm_replay" :: iters :: rest =>
    -- fsm_replay <max iterations> <socket: 13 numbers> ; <answer: rc aux + 13 numbers> ; ...
    -- runs the TRANSLATED state machine (rtr_fsm_start.loop1.step, iterated) and the SPECIFICATION skeleton in the world made of
    -- the answers (beyond them: rc -1 and a socket in state SHUTDOWN, so that the machine stops); prints the calls made with
    -- their recorded arguments and the socket at the time of each call
    let groups := (" ".intercalate rest).splitOn ";" |>.map (fun g => (g.splitOn " ").filter (· ≠ ""))
    let toSock (l : List String) : Option C.S_rtr_socket := do
      match l.mapM String.toInt? with
      | some [r, lu, e, y, iv, st, sid, rq, sn, th, v, hp, ir] =>
        pure { refresh_interval := BitVec.ofInt 32 r, last_update := BitVec.ofInt 64 lu, expire_interval := BitVec.ofInt 32 e,
               retry_interval := BitVec.ofInt 32 y, iv_mode := BitVec.ofInt 32 iv, state := BitVec.ofInt 32 st,
               session_id := BitVec.ofInt 32 sid, request_session_id := rq != 0, serial_number := BitVec.ofInt 32 sn,
               thread_id := BitVec.ofInt 64 th, version := BitVec.ofInt 32 v, has_received_pdus := hp != 0, is_resetting := ir != 0 }
      | _ => none
    let showSock (s : C.S_rtr_socket) : String :=
      s!"{s.refresh_interval.toNat} {s.last_update.toInt} {s.expire_interval.toNat} {s.retry_interval.toNat} {s.iv_mode.toInt} {s.state.toNat} {s.session_id.toNat} {if s.request_session_id then 1 else 0} {s.serial_number.toNat} {s.thread_id.toNat} {s.version.toNat} {if s.has_received_pdus then 1 else 0} {if s.is_resetting then 1 else 0}"
    let showTrace (t : List (String × List (BitVec 64) × C.S_rtr_socket)) : String :=
      "/".intercalate (t.map fun c => s!"{c.1} {" ".intercalate (c.2.1.map fun a => toString a.toInt)} | {showSock c.2.2}")
    match iters.toNat?, groups with
    | some iters, s0 :: answers =>
      match toSock s0, answers.mapM (fun a => match a with
                                       | rc :: aux :: st => (do let rc ← rc.toInt?; let aux ← aux.toInt?; let st ← toSock st
                                                                pure ({ rc := BitVec.ofInt 64 rc, aux := BitVec.ofInt 64 aux, st := st } : C.ExtAns C.S_rtr_socket))
                                       | _ => none) with
      | some s0, some answers =>
        let stop : C.ExtAns C.S_rtr_socket := { rc := BitVec.ofInt 64 (-1), aux := 0, st := { s0 with state := 9#32 } }
        let w : C.XWorld C.S_rtr_socket := { ext := fun i => answers.getD i stop }
        -- translated: iterate the step function
        let rec goGen (fuel : Nat) (w : C.XWorld C.S_rtr_socket) (s : C.S_rtr_socket) : Option (C.XWorld C.S_rtr_socket × C.S_rtr_socket × Bool) :=
          match fuel with
          | 0 => some (w, s, false)
          | fuel + 1 =>
            if w.n ≥ answers.length then some (w, s, false) else
            match C.rtr_fsm_start.loop1.step w s with
            | none => none
            | some (.done r) => some (r.2.2, r.2.1, true)
            | some (.next (w', s')) => goGen fuel w' s'
        let rec goSpec (fuel : Nat) (w : C.XWorld C.S_rtr_socket) (s : C.S_rtr_socket) : Option (C.XWorld C.S_rtr_socket × C.S_rtr_socket × Bool) :=
          match fuel with
          | 0 => some (w, s, false)
          | fuel + 1 =>
            if w.n ≥ answers.length then some (w, s, false) else
            match CLink.Script.run CLink.fsmIterScript w s with
            | none => none
            | some o => match o.val with
              | .exit => some (o.world w, o.sock, true)
              | .again => goSpec fuel (o.world w) o.sock
        let sh (r : Option (C.XWorld C.S_rtr_socket × C.S_rtr_socket × Bool)) : String :=
          showOpt (fun x => s!"{if x.2.2 then "exit" else "run"} {showSock x.2.1} # {showTrace x.1.trace}") r
        reply (sh (goGen iters w s0)) (sh (goSpec iters w s0))
      | _, _ => "bad-op"
    | _, _ => "bad-op"
  | [fn, len, timeout, script] =>
    -- send_all / recv_all <len> <timeout> <c0,c1:a1,c2:a2,...>: first clock reading, then (reading:answer) per round;
    -- beyond the script the clock stands still and the transport answers -1
    if fn ≠ "send_all" ∧ fn ≠ "recv_all" then "bad-op" else
    match len.toNat?, timeout.toInt?, script.splitOn "," with
    | some len, some timeout, c0 :: rounds =>
      match c0.toNat?, rounds.mapM (fun r => match r.splitOn ":" with
                                        | [c, a] => (do let c ← c.toNat?; let a ← a.toInt?; pure (c, a))
                                        | _ => none) with
      | some c0, some rs =>
        let clocks : List Nat := c0 :: rs.map (·.1)
        let answers : List Int := rs.map (·.2)
        let w : C.World := { clock := fun i => BitVec.ofNat 64 (clocks.getD i (clocks.getLastD 0)),
                             io := fun i => BitVec.ofInt 32 (answers.getD i (-1)) }
        let pdu := 1000
        let r := if fn = "send_all" then C.tr_send_all w (fun _ => 0) (pdu + len) { } pdu (BitVec.ofNat 64 len) (BitVec.ofInt 64 timeout)
                 else C.tr_recv_all w (fun _ => 0) (pdu + len) { } pdu (BitVec.ofNat 64 len) (BitVec.ofInt 64 timeout)
        let showCalls (cs : List (Nat × Int × Int)) : String := ";".intercalate (cs.map fun c => s!"{c.1}/{c.2.1}/{c.2.2}")
        let g := showOpt (fun x : BitVec 32 × C.World => s!"{x.1.toInt}|" ++ showCalls (x.2.calls.map fun c => (c.1, (c.2.1.toNat : Int), c.2.2.toInt))) r
        let steps : List (Int × Int) := (rs.map fun p => ((p.1 : Int), p.2)) ++ List.replicate (len + 2) ((clocks.getLastD 0 : Int), (-1 : Int))
        let m := showOpt (fun x : Int × List CLink.IoCall => s!"{x.1}|" ++ showCalls (x.2.map fun c => (c.buf, (c.len : Int), c.tmo)))
                   (CLink.ioAll pdu len (c0 : Int) timeout steps)
        reply g m
      | _, _ => "bad-op"
    | _, _, _ => "bad-op"
  | ["pdu_type", hex] =>
    match hexToBytes? hex with
    | some raw =>
      reply (showOpt (fun x => toString x.toInt) (C.rtr_get_pdu_type (C.memOfList raw) raw.length 0))
            (if raw.length < 2 then "UNDEF" else toString (if typeOf raw < 128 then (typeOf raw : Int) else (typeOf raw : Int) - 256))
    | none => "bad-op"
  | ["pdu_check_size", hex] =>
    -- `hex` = the PDU as received (network byte order), complete: length field = number of bytes given
    match hexToBytes? hex with
    | some raw =>
      if raw.length < 8 ∨ lenOf raw ≠ raw.length then "bad-op" else
      reply (showOpt bl (C.rtr_pdu_check_size (C.memOfList (hostHeader raw)) raw.length 0)) (bl (checkSize raw))
    | none => "bad-op"
  | ["header_to_host", hex] =>
    match hexToBytes? hex with
    | some raw =>
      if raw.length < 8 then "bad-op" else
      reply (showOpt (fun m => bytesToHex (memBytes m raw.length)) (C.rtr_pdu_header_to_host_byte_order (C.memOfList raw) raw.length 0))
            (bytesToHex (Conv.convHeader raw))
    | none => "bad-op"
  | ["footer", dir, hex] =>
    -- the translated `rtr_pdu_convert_footer_byte_order` next to the statement-by-statement model `Conv.convFooter`
    match dir.toNat?, hexToBytes? hex with
    | some d, some raw =>
      if d > 1 ∨ raw.length < 2 then "bad-op" else
      let cd : Conv.Dir := if d = 0 then .toNetwork else .toHost
      reply (showOpt (fun m => bytesToHex (memBytes m raw.length))
              (C.rtr_pdu_convert_footer_byte_order (C.memOfList raw) raw.length 0 (BitVec.ofNat 32 d)))
            (if Conv.footerNeed cd raw ≤ raw.length then bytesToHex (Conv.convFooter cd raw) else "UNDEF")
    | _, _ => "bad-op"
  | ["tonet", hex] =>
    -- the translated `rtr_pdu_to_network_byte_order` (body, then header) next to `Conv.toNetwork`
    match hexToBytes? hex with
    | some raw =>
      if raw.length < 8 then "bad-op" else
      reply (showOpt (fun m => bytesToHex (memBytes m raw.length)) (C.rtr_pdu_to_network_byte_order (C.memOfList raw) raw.length 0))
            (if Conv.footerNeed .toNetwork raw ≤ raw.length then bytesToHex (Conv.toNetwork raw) else "UNDEF")
    | none => "bad-op"
  | _ => "bad-op"

end Rtr.CFunDriver

def main : IO Unit := do
  Rtr.Proto.loop (← IO.getStdin) (← IO.getStdout) (fun (_ : Unit) line => ((), Rtr.CFunDriver.step line)) ()
