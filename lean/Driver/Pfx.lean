/-
  Line-protocol driver for the prefix-table model (C01, C02, C09 and the bit functions).
  One reply line per request line; `bad-op` for anything the protocol does not define.
-/
import RtrModel.PfxTable
import RtrModel.Proto

open Rtr Rtr.Proto

structure St where
  tabs : Array PfxTable := #[{}, {}, {}, {}]

def rcStr : PfxRc → String
  | .success => "0" | .error => "-1" | .duplicate => "-2" | .notFound => "-3"

def stStr : PfxvState → String
  | .valid => "VALID" | .notFound => "NOTFOUND" | .invalid => "INVALID"

def addrHex (v6 : Bool) (a : Nat) : String := if v6 then toHex 32 a else toHex 8 a

def recStr (r : Rec) : String :=
  s!"{if r.v6 then 6 else 4}:{addrHex r.v6 r.addr}/{r.len}-{r.maxLen}:{r.asn}:{r.src}"

def elemStr (e : Elem) : String := s!"{e.asn}.{e.maxLen}.{e.src}"

partial def shapeStr (v6 : Bool) : Trie → Nat → List String
  | .nil, _ => []
  | .node c l r, d =>
    let kids := (if l.isNil then "-" else "L") ++ (if r.isNil then "-" else "R")
    s!"({d} {addrHex v6 c.addr}/{c.len} {kids} [{",".intercalate (c.data.map elemStr)}])"
      :: (shapeStr v6 l (d+1) ++ shapeStr v6 r (d+1))

def parseRec (ws : List String) : Option Rec :=
  match ws with
  | [v, a, len, ml, asn, src] => do
    let v6 ← (if v = "6" then some true else if v = "4" then some false else none)
    let a ← hexToNat? a
    let len ← len.toNat?
    let ml ← ml.toNat?
    let asn ← asn.toNat?
    let src ← src.toNat?
    if a < 2 ^ (if v6 then 128 else 32) ∧ len < 256 ∧ ml < 256 ∧ asn < 2^32 then
      pure ⟨v6, a, len, ml, asn, src⟩
    else none
  | _ => none

def tabIdx (s : String) : Option Nat := do
  let n ← s.toNat?
  if n < 4 then pure n else none

def step (s : St) (line : String) : St × String :=
  let bad := (s, "bad-op")
  match words line with
  | ["new", t] => match tabIdx t with
    | some i => ({ s with tabs := s.tabs.set! i {} }, "ok")
    | none => bad
  | ["newnocb", t] => match tabIdx t with
    | some i => ({ s with tabs := s.tabs.set! i { hasCb := false } }, "ok")
    | none => bad
  | "add" :: t :: rest => match tabIdx t, parseRec rest with
    | some i, some r =>
      let (T, rc) := (s.tabs[i]!).add r
      ({ s with tabs := s.tabs.set! i T }, rcStr rc)
    | _, _ => bad
  | "rm" :: t :: rest => match tabIdx t, parseRec rest with
    | some i, some r =>
      let (T, rc) := (s.tabs[i]!).remove r
      ({ s with tabs := s.tabs.set! i T }, rcStr rc)
    | _, _ => bad
  | ["srcrm", t, src] => match tabIdx t, src.toNat? with
    | some i, some src => ({ s with tabs := s.tabs.set! i ((s.tabs[i]!).srcRemove src) }, "0")
    | _, _ => bad
  | ["val", t, v, a, len, asn] => match tabIdx t, hexToNat? a, len.toNat?, asn.toNat? with
    | some i, some a, some len, some asn =>
      if v ≠ "4" ∧ v ≠ "6" then bad else
      let v6 := v = "6"
      if ¬ (a < 2 ^ (if v6 then 128 else 32) ∧ len < 256) then bad else
      let (st, rs) := (s.tabs[i]!).validate v6 asn a len
      (s, s!"{stStr st} {" ".intercalate (rs.map recStr)}".trimAscii.toString)
    | _, _, _, _ => bad
  | ["dump", t] => match tabIdx t with
    | some i => (s, ("recs " ++ " ".intercalate ((s.tabs[i]!).recs.map recStr)).trimAscii.toString)
    | none => bad
  | ["shape", t] => match tabIdx t with
    | some i =>
      let T := s.tabs[i]!
      (s, " ".intercalate (("shape4" :: shapeStr false T.v4 0) ++ ("shape6" :: shapeStr true T.t6 0)))
    | none => bad
  | ["log", t] => match tabIdx t with
    | some i =>
      let T := s.tabs[i]!
      let o := " ".intercalate (T.log.map fun (a, r) => (if a then "+" else "-") ++ recStr r)
      ({ s with tabs := s.tabs.set! i { T with log := [] } }, ("log " ++ o).trimAscii.toString)
    | none => bad
  | ["copyx", a, b, src] => match tabIdx a, tabIdx b, src.toNat? with
    | some i, some j, some src =>
      if i = j then bad else
      let (D, rc) := PfxTable.copyExcept (s.tabs[i]!) (s.tabs[j]!) src
      ({ s with tabs := s.tabs.set! j D }, rcStr rc)
    | _, _, _ => bad
  | ["swap", a, b] => match tabIdx a, tabIdx b with
    | some i, some j =>
      if i = j then bad else
      let (A, B) := PfxTable.swap (s.tabs[i]!) (s.tabs[j]!)
      ({ s with tabs := (s.tabs.set! i A).set! j B }, "ok")
    | _, _ => bad
  | ["diff", a, b, src] => match tabIdx a, tabIdx b, src.toNat? with
    | some i, some j, some src =>
      if i = j then bad else
      let (N, O) := PfxTable.notifyDiff (s.tabs[i]!) (s.tabs[j]!) src
      ({ s with tabs := (s.tabs.set! i N).set! j O }, "ok")
    | _, _, _ => bad
  | ["free", t] => match tabIdx t with
    | some i => ({ s with tabs := s.tabs.set! i ((s.tabs[i]!).free) }, "ok")
    | none => bad
  -- failing-allocator mode of the harness: arming and the report are no-ops here; `failed <op>` is the
  -- model's reading of "this operation could not get memory": an error code, every table as it was
  | ["fail", k] => match k.toNat? with
    | some k => if k = 0 ∨ k > 1000000 then bad else (s, "ok")
    | none => bad
  | ["failinfo"] => (s, "failinfo")
  | "failed" :: "val" :: _ => (s, "rc=-1")
  | "failed" :: _ :: _ => (s, rcStr .error)
  | ["bits4", v, f, n] => match hexToNat? v, f.toNat?, n.toNat? with
    | some v, some f, some n =>
      if v < 2^32 ∧ f < 256 ∧ n ≤ 32 then (s, toHex 8 (getBits32 (BitVec.ofNat 32 v) f n).toNat) else bad
    | _, _, _ => bad
  | ["bits6", v, f, n] => match hexToNat? v, f.toNat?, n.toNat? with
    | some v, some f, some n =>
      if v < 2^128 ∧ f < 256 ∧ n ≤ 128 ∧ (f ≤ 127 → f + n ≤ 128) then (s, toHex 32 (ipv6GetBits (V6.ofNat v) f n).toNat) else bad
    | _, _, _ => bad
  | ["left", v, a, lvl] => match hexToNat? a, lvl.toNat? with
    | some a, some lvl =>
      if v = "4" ∧ a < 2^32 ∧ lvl < 256 then
        (s, s!"{isLeftChildC4 (BitVec.ofNat 32 a) lvl} {isLeft 32 a lvl}")
      else if v = "6" ∧ a < 2^128 ∧ lvl < 256 then
        (s, s!"{isLeftChildC6 (V6.ofNat a) lvl} {isLeft 128 a lvl}")
      else bad
    | _, _ => bad
  | ["cov", v, p, len, q] => match hexToNat? p, len.toNat?, hexToNat? q with
    | some p, some len, some q =>
      if v = "4" ∧ p < 2^32 ∧ q < 2^32 ∧ len ≤ 32 then
        (s, s!"{coversC4 (BitVec.ofNat 32 p) len (BitVec.ofNat 32 q)} {prefixEq 32 p q len}")
      else if v = "6" ∧ p < 2^128 ∧ q < 2^128 ∧ len ≤ 128 then
        (s, s!"{coversC6 (V6.ofNat p) len (V6.ofNat q)} {prefixEq 128 p q len}")
      else bad
    | _, _, _ => bad
  | _ => bad

def main : IO Unit := do
  loop (← IO.getStdin) (← IO.getStdout) step ({} : St)
