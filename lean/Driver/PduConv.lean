/-
  Line-protocol driver for the byte-order conversion model (RtrModel.PduConv): the same op lines
  as harness/pduconv_harness.c, the same reply lines.  There is no lean_exe target for it; the
  check runs it with `lake env lean --run Driver/PduConv.lean` (tools/pduconvcheck.py).
-/
import RtrModel.PduConv
import RtrModel.Proto

def main : IO Unit := do
  Rtr.Proto.loop (← IO.getStdin) (← IO.getStdout) (fun (_ : Unit) line => ((), Rtr.Conv.runLine line)) ()
