/-
  Line-protocol driver for the group-manager model (C15).  Same request lines and reply format as
  harness/mgr_harness.c; `bad-op` for anything the protocol does not define.
-/
import RtrModel.Mgr
import RtrModel.Proto

open Rtr Rtr.Mgr Rtr.Proto

/-- decimal numeral of at most 9 digits, bounded -/
def num? (s : String) (max : Nat) : Option Nat :=
  let cs := s.toList
  if cs.isEmpty ∨ cs.length > 9 ∨ ¬ cs.all Char.isDigit then none
  else
    let n := cs.foldl (fun a c => a * 10 + (c.toNat - '0'.toNat)) 0
    if n ≤ max then some n else none

def statusName : Status → String
  | .closed => "CLOSED" | .connecting => "CONNECTING" | .established => "ESTABLISHED" | .error => "ERROR"

def b01 (b : Bool) : String := if b then "1" else "0"

def evStr : Ev → String
  | .status p st (some (gp, i)) => s!"S{p}:{statusName st}@{gp}.{i}"
  | .status p st none => s!"S{p}:{statusName st}@-"
  | .start p i ok => s!"start{p}.{i}:{if ok then "ok" else "fail"}"
  | .stop p i => s!"stop{p}.{i}"

def sockStr (s : Sock) : String := s!"{s.state.toNat}.{b01 s.synced}.{b01 s.thread}"

def groupStr (g : Group) : String :=
  s!"{g.pref}:{statusName g.status}:{",".intercalate (g.socks.map sockStr)}"

def observe (gs : List Group) (log : List Ev) : String :=
  let l := if log.isEmpty then "-" else ";".intercalate (log.map evStr)
  let first := match firstGroup gs with
    | some g => toString g.pref
    | none => "?"
  s!" log={l} first={first} groups={"|".intercalate ((forEachGroup gs).map groupStr)}"

def parseSpec (w : String) : Option (Nat × Nat) :=
  match w.splitOn ":" with
  | [p, k] => do
    let p ← num? p 255
    let k ← num? k 4
    pure (p, k)
  | _ => none

def parseSpecs : List String → Option (List (Nat × Nat))
  | [] => some []
  | w :: ws => do
    let s ← parseSpec w
    let r ← parseSpecs ws
    pure (s :: r)

abbrev St := Option (List Group)

def step' (s : St) (line : String) : St × String :=
  let bad := (s, "bad-op")
  match words line, s with
  | "init" :: ws, none =>
    if ws.length > 8 then bad else
    match parseSpecs ws with
    | none => bad
    | some specs =>
      match init specs with
      | some gs => (some gs, "rc=0" ++ observe gs [])
      | none => (none, "rc=-1")
  | ["ev", p, i, st, sy], some gs =>
    match num? p 255, num? i 4, num? st 10, num? sy 1 with
    | some p, some i, some st, some sy =>
      match SockState.ofNat? st with
      | none => bad
      | some st =>
        match event gs p i st (sy == 1) with
        | none => bad
        | some r => (some r.1, "rc=0" ++ observe r.1 r.2)
    | _, _, _, _ => bad
  | ["add", p, k], some gs =>
    match num? p 255, num? k 4 with
    | some p, some k =>
      if k = 0 then bad else
      let r := add gs p k
      (some r.1, s!"rc={r.2.2}" ++ observe r.1 r.2.1)
    | _, _ => bad
  | ["addf", p, k, f], some gs =>
    -- rtr_mgr_add_group while the f-th allocation of the call is refused
    match num? p 255, num? k 4, num? f 9 with
    | some p, some k, some f =>
      if k = 0 ∨ f = 0 then bad else
      let r := add gs p k f
      (some r.1, s!"rc={r.2.2}" ++ observe r.1 r.2.1)
    | _, _, _ => bad
  | ["setiv", p, a, b, c], some gs =>
    -- refresh / expire / retry of sockets[0] of group p := a / b / c (End of Data in ACCEPT_ANY mode)
    match num? p 255, num? a 999999999, num? b 999999999, num? c 999999999 with
    | some p, some a, some b, some c =>
      match findG gs p with
      | none => bad
      | some _ =>
        let gs' := setIvs gs p (a, b, c)
        (some gs', "rc=0" ++ observe gs' [])
    | _, _, _, _ => bad
  | ["remove", p], some gs =>
    match num? p 100000 with
    | some p =>
      let r := remove gs p
      (some r.1, s!"rc={r.2.2}" ++ observe r.1 r.2.1)
    | none => bad
  | ["start"], some gs =>
    let r := start gs
    (some r.1, s!"rc={r.2.2}" ++ observe r.1 r.2.1)
  | ["stop"], some gs =>
    let r := stop gs
    (some r.1, "rc=0" ++ observe r.1 r.2)
  | ["free"], _ => (none, "ok")
  | _, _ => bad

def main : IO Unit := do
  loop (← IO.getStdin) (← IO.getStdout) step' (none : St)
