/-
  Line-protocol driver for the BGPsec model (C11, C12).  One reply line per request line;
  `bad-op` for anything the protocol does not define.  Request syntax: see harness/bgpsec_harness.c.

    size V|S D                  reqStreamSize
    align V|S D                 "SUCCESS <reqStreamSize> <bytes written> <hex of the stream: alignBytes, zero padded>"
    digest D <i>                hex of the SPEC Rfc8205.digest d i
    sdigest D                   hex of the SPEC Rfc8205.signDigest d
    offsets D                   offsetAt for i = 0 … n-1
    queries D K…                per hop i: "<i>/<hex spec digest>/<hex sig>/<spki>,<spki>…" for the keys
                                found by searchBySki in table order (what the verify oracle must answer)
    validate D K… O <mode> <o_0> … <o_{n-1}>
                                mode = ski | skias | ski+stop | skias+stop (key selection, loop bound); o_i = one letter v/n/e per key of hop i ("-" = none):
                                the result of the uninterpreted `verify` for (key, spec digest i, sig i);
                                the model hashes with `hash := id`, so a query on any other byte
                                string than the spec digest is answered `e`.  A leading `!` on o_i says that
                                the signature field of hop i is NOT a strict DER ECDSA-Sig-Value (`wf = false`).
    validate-sched D K… E <ne> {<L|A><idx> <nops> {+|-}asn:ski:spki…}*ne AT <j_1> … <j_ne> O <mode> <o_0> …
                                the key table changes during the call: event e (the listed additions /
                                removals, applied in order) happened after exactly j_e table lookups of the call
                                had been completed (`-`: never); lookup number k of the call sees the table after
                                all events with j_e ≤ k (`View`).  `L<idx>`/`A<idx>` is how the harness placed the
                                event (before lookup idx / at the idx-th allocation); the model only uses AT.
                                The letters o_i are for the keys the lookup of hop i (number n + i) returns.
                                Reply: "<code> <j_1> … <j_ne>".
    queries-sched D K… E … AT … like `queries`, for the keys each hop's own lookup returns
    validate-nonlri D K… / gensig-nonlri D <keyhex>
                                the entry points with data->nlri == NULL (validateEntry / generateEntry)
    gensig D <keyhex> O <keyok 0|1> <siglen>
                                return code of generateSignature when load_private_key succeeds (1) or
                                fails (0) and ECDSA_sign yields <siglen> bytes
-/
import RtrModel.Bgpsec
import RtrModel.Proto

open Rtr Rtr.Proto Rtr.Bgpsec

def splitColon (s : String) : List String := s.splitOn ":"

def natLt (s : String) (bound : Nat) : Option Nat := do
  if s.isEmpty ∨ ¬ s.toList.all Char.isDigit then none
  let n ← s.toNat?
  if n < bound then some n else none

/-- tail-recursive hex decoder (signatures of up to 65535 octets occur in the corruption runs) -/
def hexBytes? (s : String) : Option (List Nat) :=
  let rec go : List Char → List Nat → Option (List Nat)
    | a :: b :: rest, acc =>
      match hexDigit? a, hexDigit? b with
      | some x, some y => go rest ((x * 16 + y) :: acc)
      | _, _ => none
    | [], acc => some acc.reverse
    | [_], _ => none
  go s.toList []

def hexOrDash (s : String) : Option (List Nat) :=
  if s = "-" ∨ s = "" then some [] else hexBytes? s

def parsePathSeg (s : String) : Option PathSeg :=
  match splitColon s with
  | [a, b, c] => do
    let a ← natLt a 256
    let b ← natLt b 256
    let c ← natLt c (2^32)
    pure ⟨a, b, c⟩
  | _ => none

def parseSigSeg (s : String) : Option SigSeg :=
  match splitColon s with
  | [ski, len, sig] => do
    let ski ← hexBytes? ski
    let len ← natLt len 65536
    let sig ← hexOrDash sig
    if ski.length = 20 ∧ sig.length = len then pure ⟨ski, sig⟩ else none
  | _ => none

def parseKey (s : String) : Option Key :=
  match splitColon s with
  | [asn, ski, spki] => do
    let asn ← natLt asn (2^32)
    let ski ← hexBytes? ski
    let spki ← hexBytes? spki
    if ski.length = 20 ∧ spki.length = 91 then pure ⟨asn, ski, spki⟩ else none
  | _ => none

def takeN {α} (f : String → Option α) : Nat → List String → Option (List α × List String)
  | 0, ws => some ([], ws)
  | n + 1, w :: ws => do
    let x ← f w
    let (xs, rest) ← takeN f n ws
    pure (x :: xs, rest)
  | _ + 1, [] => none

/-- parse D; returns the data and the remaining words -/
def parseData (ws : List String) : Option (Data × List String) :=
  match ws with
  | alg :: afi :: safi :: nafi :: nlen :: nhex :: target :: np :: rest => do
    let alg ← natLt alg 256
    let afi ← natLt afi 65536
    let safi ← natLt safi 256
    let nafi ← natLt nafi 65536
    let nlen ← natLt nlen 256
    let nb ← hexOrDash nhex
    let target ← natLt target (2^32)
    let np ← natLt np 70001
    if nb.length ≠ nlriB nlen then none
    let (path, rest) ← takeN parsePathSeg np rest
    match rest with
    | ns :: rest => do
      let ns ← natLt ns 70001
      let (sigs, rest) ← takeN parseSigSeg ns rest
      pure (⟨alg, afi, safi, target, ⟨nafi, nlen, nb⟩, path, sigs⟩, rest)
    | [] => none
  | _ => none

def parseTable (ws : List String) : Option (Table × List String) :=
  match ws with
  | "K" :: k :: rest => do
    let k ← natLt k 100001
    let (keys, rest) ← takeN parseKey k rest
    -- spki_table_add_entry refuses an exact duplicate (same AS, SKI and SPKI)
    let T := keys.foldl (fun (acc : List Key) k => if acc.contains k then acc else acc ++ [k]) []
    pure (T, rest)
  | _ => none

def parseTy (s : String) : Option AlignType :=
  if s = "V" then some .validation else if s = "S" then some .signing else none

def parseVRes (c : Char) : Option VRes :=
  if c = 'v' then some .valid else if c = 'n' then some .notValid else if c = 'e' then some .error else none

/-- the verify queries of hop i: spec digest, signature, keys by SKI in table order -/
def hopQueriesV (d : Data) (V : View) : List (Nat × List Nat × List Nat × List Key) :=
  (List.range d.sigs.length).map fun i =>
    let s := d.sigs[i]!
    (i, Rfc8205.digest d i, s.sig, searchBySki (V (d.sigs.length + i)) s.ski)

def hopQueries (d : Data) (T : Table) : List (Nat × List Nat × List Nat × List Key) := hopQueriesV d (fun _ => T)

abbrev Oracle := List ((List Nat × List Nat × List Nat) × VRes)

def oracleVerify (o : Oracle) (spki : List Nat) (h : List Nat) (sig : List Nat) : VRes :=
  match o.find? (fun e => e.1 = (spki, h, sig)) with
  | some e => e.2
  | none => .error

/-- the oracle part of a request: verify results per (key, digest, signature), and the signature fields
    declared not to be strict DER (`!`) -/
def buildOracle (d : Data) (V : View) (outs : List String) : Option (Oracle × List (List Nat)) := do
  let qs := hopQueriesV d V
  if qs.length ≠ outs.length then none
  let mut acc : Oracle := []
  let mut bad : List (List Nat) := []
  for (q, o) in qs.zip outs do
    let (_, dg, sig, keys) := q
    let (o, isBad) := if o.startsWith "!" then ((o.drop 1).toString, true) else (o, false)
    if isBad then bad := sig :: bad
    let cs := if o = "-" then [] else o.toList
    if cs.length ≠ keys.length then none
    for (k, c) in keys.zip cs do
      let r ← parseVRes c
      acc := acc ++ [((k.spki, dg, sig), r)]
  pure (acc, bad)

/-- `spki_table_add_entry` (an exact duplicate is refused) / `spki_table_remove_entry` on the insertion-ordered list -/
def tableAdd (T : Table) (k : Key) : Table := if T.contains k then T else T ++ [k]
def tableRemove (T : Table) (k : Key) : Table := T.erase k

def parseOp (T : Table) (w : String) : Option Table :=
  if w.startsWith "+" then (parseKey (w.drop 1).toString).map (tableAdd T)
  else if w.startsWith "-" then (parseKey (w.drop 1).toString).map (tableRemove T)
  else none

def applyOps : Nat → Table → List String → Option (Table × List String)
  | 0, T, ws => some (T, ws)
  | n + 1, T, w :: ws => do
    let T' ← parseOp T w
    applyOps n T' ws
  | _ + 1, _, [] => none

/-- `E <ne> {trigger nops ops…}*ne`: the tables after each event -/
def parseEvents (T0 : Table) (ws : List String) : Option (List Table × List String) :=
  match ws with
  | "E" :: ne :: rest => do
    let ne ← natLt ne 9
    let rec go : Nat → Table → List String → List Table → Option (List Table × List String)
      | 0, _, ws, acc => some (acc.reverse, ws)
      | n + 1, T, trig :: nops :: ws, acc => do
        if ¬ (trig.startsWith "L" ∨ trig.startsWith "A") then none
        let _ ← natLt (trig.drop 1).toString 100000
        let nops ← natLt nops 17
        let (T', ws') ← applyOps nops T ws
        go n T' ws' (T' :: acc)
      | _ + 1, _, _, _ => none
    go ne T0 rest []
  | _ => none

/-- `AT j_1 … j_ne` (a number or `-`) -/
def parseAt (ne : Nat) (ws : List String) : Option (List (Option Nat) × List String) :=
  match ws with
  | "AT" :: rest =>
    takeN (fun w => if w = "-" then some none else (natLt w 100000).map some) ne rest
  | _ => none

/-- lookup number k sees the table after all events that happened before it -/
def mkView (T0 : Table) (evs : List (Option Nat × Table)) : View := fun k =>
  evs.foldl (fun acc e => match e.1 with
    | some j => if j ≤ k then e.2 else acc
    | none => acc) T0

def parseSched (ws : List String) : Option (Data × View × List (Option Nat) × List String) := do
  let (d, rest) ← parseData ws
  let (T0, rest) ← parseTable rest
  let (tabs, rest) ← parseEvents T0 rest
  let (js, rest) ← parseAt tabs.length rest
  pure (d, mkView T0 (js.zip tabs), js, rest)

def parseMode (mode : String) : Option (KeyMode × Bool) :=
  if mode = "ski" then some (.skiOnly, false) else if mode = "skias" then some (.skiAndAs, false)
  else if mode = "ski+stop" then some (.skiOnly, true) else if mode = "skias+stop" then some (.skiAndAs, true)
  else none

/-- the decision of the model for a view and the oracle part `outs` of the request -/
def modelAnswer? (m : KeyMode) (stop : Bool) (d : Data) (V : View) (outs : List String) : Option String :=
  -- shapes the oracle cannot be laid out for are decided before any verification anyway
  if d.sigs.length ≠ d.path.length ∨ d.sigs = [] ∨ d.alg ≠ 1 ∨ (d.nlri.afi ≠ 1 ∧ d.nlri.afi ≠ 2) then
    some (validateFull (H := List Nat) id (fun _ _ _ => VRes.error) (fun _ => true) m stop d V).name
  else match buildOracle d V outs with
    | some (o, bad) => some (validateFull (H := List Nat) id (oracleVerify o) (fun sig => ! bad.contains sig) m stop d V).name
    | none => none

def step (_ : Unit) (line : String) : Unit × String :=
  let bad := ((), "bad-op")
  match words line with
  | "size" :: ty :: rest =>
    match parseTy ty, parseData rest with
    | some ty, some (d, []) =>
      if ty = .validation ∧ d.sigs = [] then bad else ((), toString (reqStreamSize ty d))
    | _, _ => bad
  | "align" :: ty :: rest =>
    match parseTy ty, parseData rest with
    | some ty, some (d, []) =>
      if ty = .validation ∧ d.sigs = [] then bad else
      let bs := alignBytes ty d
      let sz := reqStreamSize ty d
      -- the stream is calloc'ed with `sz` bytes; more bytes than that would be a buffer overflow in C
      if sz < bs.length then ((), s!"OVERFLOW {sz} {bs.length}") else
      ((), s!"SUCCESS {sz} {bs.length} {bytesToHex (bs ++ List.replicate (sz - bs.length) 0)}")
    | _, _ => bad
  | "digest" :: rest =>
    match parseData rest with
    | some (d, [i]) => match natLt i 70001 with
      | some i => if i < d.sigs.length ∧ d.sigs.length = d.path.length then ((), bytesToHex (Rfc8205.digest d i)) else bad
      | none => bad
    | _ => bad
  | "sdigest" :: rest =>
    match parseData rest with
    | some (d, []) => if d.path.length = d.sigs.length + 1 then ((), bytesToHex (Rfc8205.signDigest d)) else bad
    | _ => bad
  | "offsets" :: rest =>
    match parseData rest with
    | some (d, []) => ((), " ".intercalate ((List.range d.sigs.length).map fun i => toString (offsetAt d.sigs i)))
    | _ => bad
  | "queries" :: rest =>
    match parseData rest with
    | some (d, rest) => match parseTable rest with
      | some (T, _) =>
        if d.sigs.length ≠ d.path.length then bad else
        ((), " ".intercalate ((hopQueries d T).map fun (i, dg, sig, keys) =>
          s!"{i}/{bytesToHex dg}/{bytesToHex sig}/{",".intercalate (keys.map fun k => bytesToHex k.spki)}"))
      | none => bad
    | none => bad
  | "validate" :: rest =>
    match parseData rest with
    | some (d, rest) => match parseTable rest with
      | some (T, "O" :: mode :: outs) =>
        match parseMode mode with
        | none => bad
        | some (m, stop) =>
          match modelAnswer? m stop d (fun _ => T) outs with
          | some r => ((), r)
          | none => bad
      | _ => bad
    | none => bad
  | "validate-sched" :: rest =>
    match parseSched rest with
    | some (d, V, js, "O" :: mode :: outs) =>
      match parseMode mode with
      | none => bad
      | some (m, stop) =>
        match modelAnswer? m stop d V outs with
        | some r => ((), r ++ " " ++ " ".intercalate (js.map fun j => match j with | some j => toString j | none => "-"))
        | none => bad
    | _ => bad
  | "queries-sched" :: rest =>
    match parseSched rest with
    | some (d, V, _, _) =>
      if d.sigs.length ≠ d.path.length then bad else
      ((), " ".intercalate ((hopQueriesV d V).map fun (i, dg, sig, keys) =>
        s!"{i}/{bytesToHex dg}/{bytesToHex sig}/{",".intercalate (keys.map fun k => bytesToHex k.spki)}"))
    | none => bad
  | "validate-nonlri" :: rest =>
    match parseData rest with
    | some (d, rest) => match parseTable rest with
      | some (T, _) => ((), (validateEntry (H := List Nat) id (fun _ _ _ => VRes.error) .skiAndAs true (some d) true (some T)).name)
      | none => bad
    | none => bad
  | "gensig-nonlri" :: rest =>
    match parseData rest with
    | some (d, [key]) => match hexBytes? key with
      | some key =>
        ((), (generateEntry (H := List Nat) (SK := Unit) id (fun _ => some ()) (fun _ _ => [0]) (some d) true (some key) true).1.name ++ " - - -")
      | none => bad
    | _ => bad
  | "gensig" :: rest =>
    match parseData rest with
    | some (d, [key, "O", ok, sl]) => match hexBytes? key, natLt ok 2, natLt sl 1000 with
      | some key, some ok, some sl =>
        let r := generateSignature (H := List Nat) (SK := Unit) id (fun _ => if ok = 1 then some () else none)
          (fun _ _ => List.replicate sl 0) (some d) (some key) true
        ((), r.1.name)
      | _, _, _ => bad
    | _ => bad
  | _ => bad

def main : IO Unit := do
  loop (← IO.getStdin) (← IO.getStdout) step ()
