/-
  Line-protocol driver for the router-key table model (C10; reusable by C18).
  One reply line per request line; `bad-op` for anything the protocol does not define.

    new K | newnocb K                      -> ok             (K in 0..3; (re)initialise table K)
    add K <asn> <ski-hex> <spki-hex> <src> -> <rc>           (rc as enum spki_rtvals: 0 -1 -2 -3)
    rm  K <asn> <ski-hex> <spki-hex> <src> -> <rc>
    srcrm K <src>                          -> <rc>
    get K <asn> <ski-hex>                  -> <rc> <n> rec…  (bucket order, literal)
    byski K <ski-hex>                      -> <rc> <n> rec…  (list order, literal)
    copyx A B <src>                        -> <rc>           (copy A into B except src)
    swap A B | diff A B <src>              -> ok             (diff: A = new, B = old)
    free K | freenn K                      -> ok             (table K is re-initialised afterwards)
    hl K                                   -> hl count=… bit=… max=… mask=… lowmax=… lowmask=… split=… state=…
    buckets K                              -> buckets i:[rec,rec] …   (valid, non-empty buckets)
    list K                                 -> list rec…      (insertion order)
    log K                                  -> log +rec -rec… (callback stream since the last `log`)
    hash <asn>                             -> 8 hex digits   (tommy_inthash_u32)
    cmp <rec-words> <rec-words>            -> 0 | 1          (key_entry_cmp on two entries: 0 = equal)
    fnew                                   -> ok             (a tommy_hashlin of its own, filed under CHOSEN hashes)
    fadd H <rec-words>                     -> 0 | -2         (search with key_entry_cmp under hash H, insert if absent)
    fget H <rec-words> | frm H <rec-words> -> 1 rec | 0      (tommy_hashlin_search / _remove under hash H; H = 8 hex digits)
    fhl | fbuckets                         -> as hl / buckets
  rec = asn:ski:spki:src with ski/spki as minimal lowercase hex.
-/
import RtrModel.Spki
import RtrModel.Proto

open Rtr Rtr.Proto

structure St where
  tabs : Array SpkiTable := #[{}, {}, {}, {}]
  fh : Hashlin SpkiRec := Hashlin.init

def parseHash (s : String) : Option Nat :=
  if s.length = 8 then hexToNat? s else none

def rcStr (rc : SpkiRc) : String := toString rc.toInt

/-- minimal lowercase hex ("0" for zero) -/
def minHex (n : Nat) : String :=
  if n = 0 then "0" else String.ofList ((Nat.toDigits 16 n))

def recStr (r : SpkiRec) : String := s!"{r.asn}:{minHex r.ski}:{minHex r.spki}:{r.src}"

def tabIdx (s : String) : Option Nat := do
  let n ← s.toNat?
  if n < 4 then pure n else none

def parseHexMax (s : String) (bytes : Nat) : Option Nat := do
  if s.length > 2 * bytes then none
  let v ← hexToNat? s
  pure v

def parseSrc (s : String) : Option Nat := do
  let n ← s.toNat?
  if n < 16 then pure n else none

def parseAsn (s : String) : Option Nat := do
  let n ← s.toNat?
  if n < 2 ^ 32 then pure n else none

def parseRec (ws : List String) : Option SpkiRec :=
  match ws with
  | [asn, ski, spki, src] => do
    let asn ← parseAsn asn
    let ski ← parseHexMax ski 20
    let spki ← parseHexMax spki 91
    let src ← parseSrc src
    pure ⟨asn, ski, spki, src⟩
  | _ => none

def hlStr (h : Hashlin SpkiRec) : String :=
  s!"hl count={h.count} bit={h.bucketBit} max={h.bucketMax} mask={h.bucketMask} lowmax={h.lowMax} lowmask={h.lowMask} split={h.split} state={h.state.toNat}"

def bucketsStr (h : Hashlin SpkiRec) : String :=
  let parts := (List.range h.valid).filterMap fun i =>
    let b := h.bucket i
    if b.isEmpty then none
    else some s!"{i}:[{",".intercalate (b.map fun n => recStr n.data)}]"
  ("buckets " ++ " ".intercalate parts).trimAscii.toString

def resStr (rs : List SpkiRec) : String :=
  (s!"0 {rs.length} " ++ " ".intercalate (rs.map recStr)).trimAscii.toString

def step (s : St) (line : String) : St × String :=
  let bad := (s, "bad-op")
  match words line with
  | ["new", t] => match tabIdx t with
    | some i => ({ s with tabs := s.tabs.set! i (SpkiTable.init true) }, "ok")
    | none => bad
  | ["newnocb", t] => match tabIdx t with
    | some i => ({ s with tabs := s.tabs.set! i (SpkiTable.init false) }, "ok")
    | none => bad
  | "add" :: t :: rest => match tabIdx t, parseRec rest with
    | some i, some r =>
      let (T, rc) := (s.tabs[i]!).add r
      ({ s with tabs := s.tabs.set! i T }, rcStr rc)
    | _, _ => bad
  | "rm" :: t :: rest => match tabIdx t, parseRec rest with
    | some i, some r =>
      let (T, rc) := (s.tabs[i]!).remove r
      ({ s with tabs := s.tabs.set! i T }, rcStr rc)
    | _, _ => bad
  | ["srcrm", t, src] => match tabIdx t, parseSrc src with
    | some i, some src =>
      let (T, rc) := (s.tabs[i]!).srcRemove src
      ({ s with tabs := s.tabs.set! i T }, rcStr rc)
    | _, _ => bad
  | ["get", t, asn, ski] => match tabIdx t, parseAsn asn, parseHexMax ski 20 with
    | some i, some asn, some ski => (s, resStr ((s.tabs[i]!).getAll asn ski))
    | _, _, _ => bad
  | ["byski", t, ski] => match tabIdx t, parseHexMax ski 20 with
    | some i, some ski => (s, resStr ((s.tabs[i]!).searchBySki ski))
    | _, _ => bad
  | ["copyx", a, b, src] => match tabIdx a, tabIdx b, parseSrc src with
    | some i, some j, some src =>
      if i = j then bad else
      let (D, rc) := SpkiTable.copyExcept (s.tabs[i]!) (s.tabs[j]!) src
      ({ s with tabs := s.tabs.set! j D }, rcStr rc)
    | _, _, _ => bad
  | ["swap", a, b] => match tabIdx a, tabIdx b with
    | some i, some j =>
      if i = j then bad else
      let (A, B) := SpkiTable.swap (s.tabs[i]!) (s.tabs[j]!)
      ({ s with tabs := (s.tabs.set! i A).set! j B }, "ok")
    | _, _ => bad
  | ["diff", a, b, src] => match tabIdx a, tabIdx b, parseSrc src with
    | some i, some j, some src =>
      if i = j then bad else
      let (N, O) := SpkiTable.notifyDiff (s.tabs[i]!) (s.tabs[j]!) src
      ({ s with tabs := (s.tabs.set! i N).set! j O }, "ok")
    | _, _, _ => bad
  | ["free", t] => match tabIdx t with
    | some i => ({ s with tabs := s.tabs.set! i ((s.tabs[i]!).free) }, "ok")
    | none => bad
  | ["freenn", t] => match tabIdx t with
    | some i =>
      -- the harness re-initialises the slot with the callback it had before
      let T := s.tabs[i]!
      ({ s with tabs := s.tabs.set! i { (T.freeWithoutNotify) with hasCb := T.hasCb } }, "ok")
    | none => bad
  | ["hl", t] => match tabIdx t with
    | some i => (s, hlStr (s.tabs[i]!).ht)
    | none => bad
  | ["buckets", t] => match tabIdx t with
    | some i => (s, bucketsStr (s.tabs[i]!).ht)
    | none => bad
  | ["list", t] => match tabIdx t with
    | some i => (s, ("list " ++ " ".intercalate ((s.tabs[i]!).list.map recStr)).trimAscii.toString)
    | none => bad
  | ["log", t] => match tabIdx t with
    | some i =>
      let T := s.tabs[i]!
      let o := " ".intercalate (T.log.map fun (a, r) => (if a then "+" else "-") ++ recStr r)
      ({ s with tabs := s.tabs.set! i { T with log := [] } }, ("log " ++ o).trimAscii.toString)
    | none => bad
  | ["cmp", a1, a2, a3, a4, b1, b2, b3, b4] => match parseRec [a1, a2, a3, a4], parseRec [b1, b2, b3, b4] with
    | some a, some b => (s, if SpkiTable.cmp a b then "0" else "1")
    | _, _ => bad
  | ["fnew"] => ({ s with fh := Hashlin.init }, "ok")
  | ["fadd", h, r1, r2, r3, r4] => match parseHash h, parseRec [r1, r2, r3, r4] with
    | some h, some r =>
      if (s.fh.search (SpkiTable.cmp r) h).isSome then (s, rcStr .duplicate)
      else ({ s with fh := s.fh.insert r h }, rcStr .success)
    | _, _ => bad
  | ["fget", h, r1, r2, r3, r4] => match parseHash h, parseRec [r1, r2, r3, r4] with
    | some h, some r =>
      match s.fh.search (SpkiTable.cmp r) h with
      | some e => (s, "1 " ++ recStr e)
      | none => (s, "0")
    | _, _ => bad
  | ["frm", h, r1, r2, r3, r4] => match parseHash h, parseRec [r1, r2, r3, r4] with
    | some h, some r =>
      match s.fh.remove (SpkiTable.cmp r) h with
      | (fh', some e) => ({ s with fh := fh' }, "1 " ++ recStr e)
      | (_, none) => (s, "0")
    | _, _ => bad
  | ["fhl"] => (s, hlStr s.fh)
  | ["fbuckets"] => (s, bucketsStr s.fh)
  | ["hash", asn] => match parseAsn asn with
    | some a => (s, toHex 8 (inthash a))
    | none => bad
  | _ => bad

def main : IO Unit := do
  loop (← IO.getStdin) (← IO.getStdout) step ({} : St)
