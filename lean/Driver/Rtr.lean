/-
  Line-protocol driver for the RTR protocol model (RtrModel.Rtr): the same op files as
  harness/rtr_harness.c, the same reply lines.
-/
import RtrModel.Rtr
import RtrModel.Proto

open Rtr Rtr.P Rtr.Proto

structure D where
  st : St := {}
  fsmRan : Bool := false

def flush (st : St) : St × List String := ({ st with n := { st.n with trace := [] } }, st.n.trace.reverse)

def parseTape (ws0 : List String) : Option (List TapeEv) :=
  -- `hang`: the cache goes silent and the script ends (the harness keeps the thread alive inside recv so that the
  -- following `run stop` exercises rtr_stop on a running thread); for the model the tape simply ends there
  let ws := ws0.takeWhile (· ≠ "hang")
  ws.mapM fun w =>
    if w.startsWith "rx:" then
      match hexToBytes? (w.drop 3).toString with
      | some b => if b.isEmpty then none else some (.rx b)
      | none => none
    else if w = "err" then some .err
    else if w = "block" then some .block
    else if w = "intr" then some .intr
    else if w = "closed" then some .closed
    else if w.startsWith "dt:" then (w.drop 3).toString.toNat?.map .dt
    else none

def parseSendq (ws : List String) : Option (List SendEv) :=
  ws.mapM fun w =>
    if w = "all" then some .all
    else if w = "err" then some .err
    else if w = "block" then some .block
    else if w.startsWith "part:" then
      match (w.drop 5).toString.toNat? with
      | some n => if n ≥ 1 then some (.part n) else none
      | none => none
    else none

/-- write outcomes for `sendall`: `dt:N` entries add up to the time that passes inside the next write call -/
def parseSendSteps : List String → Nat → Option (List SendStep)
  | [], acc => some (if acc = 0 then [] else [⟨acc, .all⟩])
  | w :: ws, acc =>
    if w.startsWith "dt:" then
      match (w.drop 3).toString.toNat? with
      | some n => parseSendSteps ws (acc + n)
      | none => none
    else
      match parseSendq [w] with
      | some [e] => (parseSendSteps ws 0).map (⟨acc, e⟩ :: ·)
      | _ => none

def parseOpenq (ws : List String) : Option (List Int) :=
  ws.mapM fun w => if w = "ok" then some 0 else if w = "err" then some (-1) else none

def inRange (v lo hi : Nat) : Bool := lo ≤ v && v ≤ hi

def showSock (st : St) : String :=
  let b := fun (x : Bool) => if x then "1" else "0"
  s!"sock state={st.c.state.name} ver={st.c.version} sess={st.ss.session} serial={st.ss.serial} req={b st.ss.reqSession} lu={st.ss.lastUpdate} reset={b st.ss.isResetting} hasrecv={b st.c.hasReceived} refresh={st.tm.refresh} retry={st.tm.retry} expire={st.tm.expire} now={st.n.now}"

def rcStr : PfxRc → String
  | .success => "0" | .error => "-1" | .duplicate => "-2" | .notFound => "-3"

def step (d : D) (line : String) : D × String :=
  let bad := (d, "bad-op")
  let st := d.st
  match words line with
  | ["sock", a, b, c, m] =>
    match a.toNat?, b.toNat?, c.toNat?, m.toNat? with
    | some a, some b, some c, some m =>
      if st.n.threaded || a > 4294967295 || b > 4294967295 || c > 4294967295 then bad else
      match IvMode.ofCode m with
      | none => bad
      | some mode =>
        if inRange a Gen.RTR_REFRESH_MIN Gen.RTR_REFRESH_MAX && inRange b Gen.RTR_EXPIRATION_MIN Gen.RTR_EXPIRATION_MAX &&
           inRange c Gen.RTR_RETRY_MIN Gen.RTR_RETRY_MAX then
          ({ st := { tm := { refresh := a, expire := b, retry := c, ivMode := mode } }, fsmRan := false }, "0")
        else
          -- rtr_init refuses and leaves the (zeroed) socket untouched
          ({ st := { tm := { refresh := 0, expire := 0, retry := 0, ivMode := .ignoreAny },
                     c := { state := .connecting, version := 0 }, ss := { reqSession := false } }, fsmRan := false }, "-2")
    | _, _, _, _ => bad
  | ["pre", "pfx", v, a, len, ml, asn, src] =>
    match hexToBytes? a, len.toNat?, ml.toNat?, asn.toNat?, src.toNat? with
    | some ab, some len, some ml, some asn, some src =>
      if (v ≠ "4" ∧ v ≠ "6") || src > 4 || len > 255 || ml > 255 || asn > 4294967295 ||
         ab.length ≠ (if v = "4" then 4 else 16) then bad else
      let addr := ab.foldl (fun acc x => acc * 256 + x) 0
      let (pt, rc) := ptAdd st.t.pt ⟨v = "6", addr, len, ml, asn, src⟩
      ({ d with st := { st with t := { st.t with pt := pt } } }, rcStr rc)
    | _, _, _, _, _ => bad
  | ["pre", "key", asn, ski, spki, src] =>
    match asn.toNat?, hexToBytes? ski, hexToBytes? spki, src.toNat? with
    | some asn, some ski, some spki, some src =>
      if src > 4 || asn > 4294967295 || ski.length ≠ 20 || spki.length ≠ 91 then bad else
      let (kt, rc) := ktAdd st.t.kt ⟨asn, ski, spki, src⟩
      ({ d with st := { st with t := { st.t with kt := kt } } }, rcStr rc)
    | _, _, _, _ => bad
  | ["set", f, v] =>
    match v.toNat? with
    | none => bad
    | some v =>
      let okc := fun (c : Conn) => ({ d with st := { st with c := c } }, "ok")
      let oks := fun (ss : Sess) => ({ d with st := { st with ss := ss } }, "ok")
      if f = "state" then
        match SState.ofCode v with | some x => okc { st.c with state := x } | none => bad
      else if f = "version" ∧ v ≤ 1 then okc { st.c with version := v }
      else if f = "session" ∧ v ≤ 65535 then oks { st.ss with session := v }
      else if f = "serial" ∧ v ≤ 4294967295 then oks { st.ss with serial := v }
      else if f = "reqsess" ∧ v ≤ 1 then oks { st.ss with reqSession := v = 1 }
      else if f = "lastupdate" then oks { st.ss with lastUpdate := v }
      else if f = "resetting" ∧ v ≤ 1 then oks { st.ss with isResetting := v = 1 }
      else if f = "hasrecv" ∧ v ≤ 1 then okc { st.c with hasReceived := v = 1 }
      else if f = "now" then ({ d with st := { st with n := { st.n with now := v } } }, "ok")
      else bad
  | "tape" :: ws =>
    match parseTape ws with
    | some evs => ({ d with st := { st with n := { st.n with tape := st.n.tape ++ evs } } }, "ok")
    | none => bad
  | "sendq" :: ws =>
    match parseSendq ws with
    | some evs => ({ d with st := { st with n := { st.n with sendQ := st.n.sendQ ++ evs } } }, "ok")
    | none => bad
  | "openq" :: ws =>
    match parseOpenq ws with
    | some evs => ({ d with st := { st with n := { st.n with openQ := st.n.openQ ++ evs } } }, "ok")
    | none => bad
  | ["run", "sync"] =>
    if st.n.threaded then bad else
    let (ok, st) := sync (tapeFuel st.n) st
    let (st, tr) := flush { st with n := st.n.emit s!"ret {if ok then 0 else -1}" }
    ({ d with st := st }, "\n".intercalate (tr ++ ["end"]))
  | ["run", "wait"] =>
    if st.n.threaded then bad else
    let (ok, st) := waitForSync st
    let (st, tr) := flush { st with n := st.n.emit s!"ret {if ok then 0 else -1}" }
    ({ d with st := st }, "\n".intercalate (tr ++ ["end"]))
  | ["run", "fsm"] =>
    if st.n.threaded || d.fsmRan || st.c.state = .shutdown then bad else
    let budget := (tapeFuel st.n + st.n.sendQ.length + st.n.openQ.length) * 8 + 64
    let st := fsmStart budget (tapeFuel st.n) st
    let (st, tr) := flush st
    ({ st := st, fsmRan := true }, "\n".intercalate (tr ++ ["end"]))
  | ["run", "stop"] =>
    if !st.n.threaded then bad else
    let st := stop st
    let (st, tr) := flush st
    ({ st := { st with n := { st.n with tape := [] } }, fsmRan := false }, "\n".intercalate (tr ++ ["end"]))
  | ["val", v, a, len, asn] =>
    match hexToNat? a, len.toNat?, asn.toNat? with
    | some a, some len, some asn =>
      if (v ≠ "4" ∧ v ≠ "6") || len > 255 || asn > 4294967295 || a ≥ 2 ^ (if v = "6" then 128 else 32) then bad
      else (d, validate st.t (v = "6") asn a len)
    | _, _, _ => bad
  | ["checksize", h] =>
    -- the model's rtr_pdu_check_size on the bytes of one PDU (tie of the C specification used by the CBMC obligation)
    match hexToBytes? h with
    | some b => (d, if checkSize b then "1" else "0")
    | none => bad
  | "sendall" :: now :: tmo :: h :: evs =>
    -- the loop of tr_send_all on a transport whose write calls take time (RtrModel.Rtr.sendAllT)
    match now.toNat?, tmo.toInt?, hexToBytes? h, parseSendSteps evs 0 with
    | some now, some tmo, some b, some q =>
      if b.isEmpty || st.n.threaded then bad else
      let r := sendAllT q now b tmo
      (d, "\n".intercalate (r.lines ++ [s!"ret {r.rc} {r.now}", "end"]))
    | _, _, _, _ => bad
  | ["show"] => (d, showSock st)
  | ["dump"] => (d, "\n".intercalate (dumpLines "D" st.t))
  | _ => bad

def main : IO Unit := do
  loop (← IO.getStdin) (← IO.getStdout) step ({} : D)
