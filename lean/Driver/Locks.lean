/-
  Line-protocol driver for the lock IR (C16, C06): evaluates the checker per function so that a
  failing generated theorem can be traced to a function and an access.
    count            -> number of IR functions
    name <i>         -> C name of function i
    kind <i>         -> public | lifecycle | callback
    strict <i>       -> ok | <first violation>        (all accesses guarded, balanced)
    write <i>        -> ok | <first violation>        (writes guarded, balanced)
    bound <sel> <i>  -> <n> | unbounded               (sel = anyW | any : acquisitions per call)
-/
import RtrModel.Generated.Locks
import RtrModel.Proto

open Rtr Rtr.Proto Rtr.Locks Rtr.Generated.Locks

def kindOf (i : Nat) : String :=
  if publicFns.contains i then "public"
  else if lifecycleFns.contains i then "lifecycle"
  else if callbackFns.contains i then "callback" else "other"

def oneLine (s : String) : String := s.map fun c => if c = '\n' then ' ' else c

def step (_ : Unit) (line : String) : Unit × String :=
  let idx (s : String) : Option Nat := do
    let n ← s.toNat?
    if n < fns.length then pure n else none
  match words line with
  | ["count"] => ((), toString fns.length)
  | ["name", i] => match idx i with
    | some n => ((), (fns[n]?.map (·.name)).getD "?")
    | none => ((), "bad-op")
  | ["kind", i] => match idx i with
    | some n => ((), kindOf n)
    | none => ((), "bad-op")
  | ["strict", i] => match idx i with
    | some n => ((), match diagnose true fns n with | none => "ok" | some m => oneLine m)
    | none => ((), "bad-op")
  | ["write", i] => match idx i with
    | some n => ((), match diagnose false fns n with | none => "ok" | some m => oneLine m)
    | none => ((), "bad-op")
  | ["bound", sel, i] => match idx i, (if sel = "anyW" then some anyW else if sel = "any" then some anyAcq else none) with
    | some n, some f => ((), match acqBound f fns fuel ((fns[n]?.map (·.body)).getD .skip) with
        | some b => toString b | none => "unbounded")
    | _, _ => ((), "bad-op")
  | _ => ((), "bad-op")

def main : IO Unit := do
  let stdin ← IO.getStdin
  let stdout ← IO.getStdout
  loop stdin stdout step ()
