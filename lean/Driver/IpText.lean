/-
  Line-protocol driver for the address-text model (C19).  One reply line per request line;
  `bad-op` for anything the protocol does not define.

    f4  <8hex> <len>          lrtr_ip_addr_to_str (IPv4), buffer of <len> bytes -> "<rc> x<bytes written>"
    f6  <32hex> <len>         lrtr_ip_addr_to_str (IPv6)
    p   x<hexbytes>           lrtr_ip_str_to_addr            -> "lib=<R> p4=<R> p6=<R>"  (p4/p6: inet_pton)
    p4  x<hexbytes>           lrtr_ipv4_str_to_addr directly -> "<R>"
    p6  x<hexbytes>           lrtr_ipv6_str_to_addr directly -> "<R>"
    cmp <4|6> <hex> x<hexbytes>   lrtr_ip_str_cmp            -> "true" | "false"
    rt4 <8hex> / rt6 <32hex>  format with a full-size buffer, parse the text back with the library
                              and with inet_pton             -> "s=x<text> lib=<R> pton=<R>"
  <R> = "-" (rejected) | "4:<8hex>" | "6:<32hex>" | "uninit"
-/
import RtrModel.IpText
import RtrModel.Proto

open Rtr Rtr.Proto Rtr.IpText

def strOfBytes (bs : List Nat) : Str := (bs.takeWhile (· ≠ 0)).map Char.ofNat

def hexOfStr (s : Str) : String := "x" ++ bytesToHex (s.map Char.toNat)

def parseX (w : String) : Option Str :=
  match w.toList with
  | 'x' :: rest => (hexToBytes? (String.ofList rest)).map strOfBytes
  | _ => none

def wordsOf (a : Nat) : List Nat := (List.range 8).map fun i => a / 2 ^ (16 * (7 - i)) % 65536
def ofWords (ws : List Nat) : Nat := ws.foldl (fun acc w => acc * 65536 + w) 0

def ipStr : Ip → String
  | .v4 a => "4:" ++ toHex 8 a
  | .v6 ws => "6:" ++ toHex 32 (ofWords ws)

def resStr : IpRes → String
  | .ok a => ipStr a
  | .reject => "-"
  | .uninit => "uninit"

def pres6 : PRes → String
  | .ok ws => ipStr (.v6 ws)
  | .reject => "-"
  | .uninit => "uninit"

def opt4 : Option Nat → String
  | some a => ipStr (.v4 a)
  | none => "-"

def opt6 : Option (List Nat) → String
  | some ws => ipStr (.v6 ws)
  | none => "-"

def fmtOutStr (o : FmtOut) : String := s!"{o.rc} {hexOfStr o.written}"

def addr4? (h : String) : Option Nat := do
  let a ← hexToNat? h
  if h.length = 8 ∧ a < 2 ^ 32 then pure a else none

def addr6? (h : String) : Option (List Nat) := do
  let a ← hexToNat? h
  if h.length = 32 ∧ a < 2 ^ 128 then pure (wordsOf a) else none

def step (s : Unit) (line : String) : Unit × String :=
  let bad := (s, "bad-op")
  match words line with
  | ["f4", a, len] => match addr4? a, len.toNat? with
    | some a, some len => if len ≤ 4096 then (s, fmtOutStr (ipToStr (.v4 a) len)) else bad
    | _, _ => bad
  | ["f6", a, len] => match addr6? a, len.toNat? with
    | some ws, some len => if len ≤ 4096 then (s, fmtOutStr (ipToStr (.v6 ws) len)) else bad
    | _, _ => bad
  | ["p", x] => match parseX x with
    | some t => (s, s!"lib={resStr (ipStrToAddr t)} p4={opt4 (pton4 t)} p6={opt6 (pton6 t)}")
    | none => bad
  | ["p4", x] => match parseX x with
    | some t => (s, opt4 (parse4 t))
    | none => bad
  | ["p6", x] => match parseX x with
    | some t => (s, pres6 (parse6 t))
    | none => bad
  | ["cmp", v, a, x] => match parseX x with
    | some t =>
      let ip : Option Ip := if v = "4" then (addr4? a).map Ip.v4 else if v = "6" then (addr6? a).map Ip.v6 else none
      match ip with
      | some ip => (s, match ipStrCmp ip t with | some b => toString b | none => "uninit")
      | none => bad
    | none => bad
  | ["rt4", a] => match addr4? a with
    | some a =>
      let t := fmt4Str a
      (s, s!"s={hexOfStr t} lib={resStr (ipStrToAddr t)} pton={opt4 (pton4 t)}")
    | none => bad
  | ["rt6", a] => match addr6? a with
    | some ws =>
      let t := fmt6Str ws
      (s, s!"s={hexOfStr t} lib={resStr (ipStrToAddr t)} pton={opt6 (pton6 t)}")
    | none => bad
  | _ => bad

def main : IO Unit := do
  loop (← IO.getStdin) (← IO.getStdout) step ()
