/-
  Line-protocol driver for the allocation model (C18).  One reply line per request line; `bad-op`
  for anything the protocol does not define.  F = `-` (no refusal) or k (the k-th allocation
  request of this operation, 0-based, is refused).  P = prefix table 0..3, K = router-key table 0..3
  (a router-key table exists between a successful `knew` and `kfree`).

    setsizes node=.. ndata=.. elem=.. rec=.. entry=.. srec=.. ptr=.. ptab=.. ktab=.. pdu4=.. pdu6=.. pduk=..  -> ok
    pnew F P cb | padd F P v addr len maxlen asn src | prm F P … | psrcrm F P src
    pval F P v addr len asn | pcopyx F A B src | pfree F P
    knew F K cb | kadd F K asn ski spki src | krm F K … | ksrcrm F K src | kget F K asn ski
    kbyski F K ski | kcopyx F A B src | kfree F K | kfreenn F K
    sync F reset <hex>           (socket 0 with tables P0 / K0; see RtrModel.Alloc.syncF)
    pair - T <op> <record> | <op> <record>     (op = padd | prm | kadd | krm, both on table T: the harness runs
                                                the two calls in two threads; the model runs them one after the other)
         -> <result> ; <trace> ; live=<n>
    pdump P | plog P | pstat P | kdump K | klog K | kstat K | live

  trace tokens: M<bytes>[!]  R<old>><new>[!]  F<bytes>  X<bytes> (! = refused; X = released through
  libc free, never produced by the model of the fixed code).
-/
import RtrModel.Alloc
import RtrModel.Proto

open Rtr Rtr.Proto Rtr.Alloc

structure Sizes where
  node : Nat := 64
  ndata : Nat := 16
  elem : Nat := 16
  prec : Nat := 40
  entry : Nat := 192
  srec : Nat := 128
  ptr : Nat := 8
  ptab : Nat := 80
  ktab : Nat := 368
  pdu4 : Nat := 20
  pdu6 : Nat := 32
  pduk : Nat := 123

structure St where
  ptabs : Array PfxTable := #[{}, {}, {}, {}]
  ktabs : Array (Option SpkiTable) := #[none, none, none, none]
  sz : Sizes := {}
  live : Int := 0
  foreign : Nat := 0

def bytes (z : Sizes) : Blk → Nat → Nat
  | .node, n => n * z.node
  | .ndata, n => n * z.ndata
  | .ary, n => n * z.elem
  | .reason, n => n * z.prec
  | .entry, n => n * z.entry
  | .segment, n => n * z.ptr
  | .result, n => n * z.srec
  | .ptab, n => n * z.ptab
  | .ktab, n => n * z.ktab
  | .pdu4, n => n * z.pdu4
  | .pdu6, n => n * z.pdu6
  | .pduk, n => n * z.pduk

def evStr (z : Sizes) : Ev → String
  | .malloc b n ok => s!"M{bytes z b n}" ++ (if ok then "" else "!")
  | .realloc b o n ok => s!"R{bytes z b o}>{bytes z b n}" ++ (if ok then "" else "!")
  | .free b n => s!"F{bytes z b n}"
  | .libcFree b n => s!"X{bytes z b n}"

def prcStr : PfxRc → String
  | .success => "0" | .error => "-1" | .duplicate => "-2" | .notFound => "-3"

def krcStr (rc : SpkiRc) : String := toString rc.toInt

def stStr : PfxvState → String
  | .valid => "VALID" | .notFound => "NOTFOUND" | .invalid => "INVALID"

def addrHex (v6 : Bool) (a : Nat) : String := if v6 then toHex 32 a else toHex 8 a

def recStr (r : Rec) : String :=
  s!"{if r.v6 then 6 else 4}:{addrHex r.v6 r.addr}/{r.len}-{r.maxLen}:{r.asn}:{r.src}"

def minHex (n : Nat) : String :=
  if n = 0 then "0" else String.ofList ((Nat.toDigits 16 n))

def krecStr (r : SpkiRec) : String := s!"{r.asn}:{minHex r.ski}:{minHex r.spki}:{r.src}"

def parseSrc (s : String) : Option Nat := do
  let n ← s.toNat?
  if n < 16 then pure n else none

def parseRec (ws : List String) : Option Rec :=
  match ws with
  | [v, a, len, ml, asn, src] => do
    let v6 ← (if v = "6" then some true else if v = "4" then some false else none)
    let a ← hexToNat? a
    let len ← len.toNat?
    let ml ← ml.toNat?
    let asn ← asn.toNat?
    let src ← parseSrc src
    if a < 2 ^ (if v6 then 128 else 32) ∧ len < 256 ∧ ml < 256 ∧ asn < 2^32 then
      pure ⟨v6, a, len, ml, asn, src⟩
    else none
  | _ => none

def parseHexMax (s : String) (bytes : Nat) : Option Nat := do
  if s.length > 2 * bytes then none
  let v ← hexToNat? s
  pure v

def parseAsn (s : String) : Option Nat := do
  let n ← s.toNat?
  if n < 2 ^ 32 then pure n else none

def parseKRec (ws : List String) : Option SpkiRec :=
  match ws with
  | [asn, ski, spki, src] => do
    let asn ← parseAsn asn
    let ski ← parseHexMax ski 20
    let spki ← parseHexMax spki 91
    let src ← parseSrc src
    pure ⟨asn, ski, spki, src⟩
  | _ => none

def tabIdx (s : String) : Option Nat := do
  let n ← s.toNat?
  if n < 4 then pure n else none

/-- `-` → no refusal; `k` → the k-th request is refused -/
def parseFail (s : String) : Option (Option Nat) :=
  if s = "-" then some none else
  match s.toNat? with
  | some k => if k ≤ 1000000 ∧ s.length ≤ 10 then some (some k) else none
  | none => none

def parseCb (s : String) : Option Bool :=
  if s = "1" then some true else if s = "0" then some false else none

/-- finish an operation: account for the trace, print `result ; trace ; live=n` -/
def fin (s : St) (a : A) (res : String) : St × String :=
  let live := s.live + net a.trace
  let foreign := s.foreign + (a.trace.filter fun e => match e with | .libcFree .. => true | _ => false).length
  ({ s with live := live, foreign := foreign },
   s!"{res} ; {" ".intercalate (a.trace.map (evStr s.sz))} ; live={live}")

def parseKV (w : String) : Option (String × Nat) :=
  match w.splitOn "=" with
  | [k, v] => v.toNat?.map fun n => (k, n)
  | _ => none

def setSizes (ws : List String) : Option Sizes :=
  ws.foldl (fun acc w => do
    let z ← acc
    let (k, v) ← parseKV w
    match k with
    | "node" => pure { z with node := v }
    | "ndata" => pure { z with ndata := v }
    | "elem" => pure { z with elem := v }
    | "rec" => pure { z with prec := v }
    | "entry" => pure { z with entry := v }
    | "srec" => pure { z with srec := v }
    | "ptr" => pure { z with ptr := v }
    | "ptab" => pure { z with ptab := v }
    | "ktab" => pure { z with ktab := v }
    | "pdu4" => pure { z with pdu4 := v }
    | "pdu6" => pure { z with pdu6 := v }
    | "pduk" => pure { z with pduk := v }
    | _ => none) (some {})

def kresStr (rc : SpkiRc) (rs : List SpkiRec) : String :=
  if rc = .success then (s!"0 {rs.length} " ++ " ".intercalate (rs.map krecStr)).trimAscii.toString
  else krcStr rc

/-- one half of a `pair` line on table `i` -/
def pairOp (s : St) (a : A) (i : Nat) (ws : List String) : Option (St × A × String) :=
  match ws with
  | "padd" :: r => (parseRec r).map fun r =>
      let q := addF a (s.ptabs[i]!) r
      ({ s with ptabs := s.ptabs.set! i q.2.1 }, q.1, prcStr q.2.2)
  | "prm" :: r => (parseRec r).map fun r =>
      let q := removeF a (s.ptabs[i]!) r
      ({ s with ptabs := s.ptabs.set! i q.2.1 }, q.1, prcStr q.2.2)
  | "kadd" :: r => match parseKRec r, s.ktabs[i]! with
    | some r, some T =>
      let q := kaddF a T r
      some ({ s with ktabs := s.ktabs.set! i (some q.2.1) }, q.1, krcStr q.2.2)
    | _, _ => none
  | "krm" :: r => match parseKRec r, s.ktabs[i]! with
    | some r, some T =>
      let q := kremoveF a T r
      some ({ s with ktabs := s.ktabs.set! i (some q.2.1) }, q.1, krcStr q.2.2)
    | _, _ => none
  | _ => none

def step (s : St) (line : String) : St × String :=
  let bad := (s, "bad-op")
  match words line with
  | "setsizes" :: rest => match setSizes rest with
    | some z => ({ s with sz := z }, "ok")
    | none => bad
  | ["live"] => (s, s!"live={s.live} foreign={s.foreign} alien=0 double=0")
  | ["pdump", t] => match tabIdx t with
    | some i => (s, ("recs " ++ " ".intercalate ((s.ptabs[i]!).recs.map recStr)).trimAscii.toString)
    | none => bad
  | ["plog", t] => match tabIdx t with
    | some i =>
      let T := s.ptabs[i]!
      let o := " ".intercalate (T.log.map fun (a, r) => (if a then "+" else "-") ++ recStr r)
      ({ s with ptabs := s.ptabs.set! i { T with log := [] } }, ("log " ++ o).trimAscii.toString)
    | none => bad
  | ["pstat", t] => match tabIdx t with
    | some i =>
      let T := s.ptabs[i]!
      let ns := T.v4.nodes ++ T.t6.nodes
      (s, s!"pstat nodes={ns.length} elems={(ns.map fun c => c.data.length).sum} empty={(ns.filter fun c => c.data.isEmpty).length}")
    | none => bad
  | ["kdump", t] => match tabIdx t with
    | some i => match s.ktabs[i]! with
      | some T => (s, ("list " ++ " ".intercalate (T.list.map krecStr)).trimAscii.toString)
      | none => bad
    | none => bad
  | ["klog", t] => match tabIdx t with
    | some i => match s.ktabs[i]! with
      | some T =>
        let o := " ".intercalate (T.log.map fun (a, r) => (if a then "+" else "-") ++ krecStr r)
        ({ s with ktabs := s.ktabs.set! i (some { T with log := [] }) }, ("log " ++ o).trimAscii.toString)
      | none => (s, "log")
    | none => bad
  | ["kstat", t] => match tabIdx t with
    | some i => match s.ktabs[i]! with
      | some T =>
        let h := T.ht
        (s, s!"kstat entries={T.list.length} count={h.count} bit={h.bucketBit} max={h.bucketMax} lowmax={h.lowMax} split={h.split} state={h.state.toNat}")
      | none => bad
    | none => bad
  | op :: f :: rest =>
    match parseFail f with
    | none => bad
    | some k =>
    let a : A := { budget := k, trace := [] }
    match op, rest with
    | "pair", t :: ws => match tabIdx t, k with
      | some i, none =>
        let l := ws.takeWhile (· ≠ "|")
        let r := (ws.dropWhile (· ≠ "|")).drop 1
        match pairOp s a i l with
        | some (s1, a1, r1) => match pairOp s1 a1 i r with
          | some (s2, a2, r2) => fin s2 a2 s!"{r1} {r2} sched=serial"
          | none => bad
        | none => bad
      | _, _ => bad
    | "pnew", [t, cb] => match tabIdx t, parseCb cb with
      | some i, some cb =>
        let T := s.ptabs[i]!
        if ¬ (T.v4.isNil ∧ T.t6.isNil) then bad else
        fin { s with ptabs := s.ptabs.set! i { hasCb := cb } } a "0"
      | _, _ => bad
    | "padd", t :: r => match tabIdx t, parseRec r with
      | some i, some r =>
        let q := addF a (s.ptabs[i]!) r
        fin { s with ptabs := s.ptabs.set! i q.2.1 } q.1 (prcStr q.2.2)
      | _, _ => bad
    | "prm", t :: r => match tabIdx t, parseRec r with
      | some i, some r =>
        let q := removeF a (s.ptabs[i]!) r
        fin { s with ptabs := s.ptabs.set! i q.2.1 } q.1 (prcStr q.2.2)
      | _, _ => bad
    | "psrcrm", [t, src] => match tabIdx t, parseSrc src with
      | some i, some src =>
        let q := srcRemoveF a (s.ptabs[i]!) src
        fin { s with ptabs := s.ptabs.set! i q.2.1 } q.1 (prcStr q.2.2)
      | _, _ => bad
    | "pval", [t, v, ad, len, asn] => match tabIdx t, hexToNat? ad, len.toNat?, parseAsn asn with
      | some i, some ad, some len, some asn =>
        if v ≠ "4" ∧ v ≠ "6" then bad else
        let v6 := v = "6"
        if ¬ (ad < 2 ^ (if v6 then 128 else 32) ∧ len < 256) then bad else
        let q := validateF a (s.ptabs[i]!) v6 asn ad len
        -- the caller returns the reason array to the configured allocator
        let a' := q.1.freeIf .reason q.2.2.2.length
        if q.2.1 = .success then
          fin s a' (s!"0 {stStr q.2.2.1} " ++ " ".intercalate (q.2.2.2.map recStr)).trimAscii.toString
        else fin s a' (prcStr q.2.1)
      | _, _, _, _ => bad
    | "pcopyx", [ta, tb, src] => match tabIdx ta, tabIdx tb, parseSrc src with
      | some i, some j, some src =>
        if i = j then bad else
        let q := copyExceptF a (s.ptabs[i]!) (s.ptabs[j]!) src
        fin { s with ptabs := s.ptabs.set! j q.2.1 } q.1 (prcStr q.2.2)
      | _, _, _ => bad
    | "pfree", [t] => match tabIdx t with
      | some i =>
        let q := freeF a (s.ptabs[i]!)
        fin { s with ptabs := s.ptabs.set! i q.2 } q.1 "0"
      | none => bad
    | "knew", [t, cb] => match tabIdx t, parseCb cb with
      | some i, some cb =>
        if (s.ktabs[i]!).isSome then bad else
        let q := kinitF a cb
        fin { s with ktabs := s.ktabs.set! i q.2 } q.1 (if q.2.isSome then "0" else "-1")
      | _, _ => bad
    | "kadd", t :: r => match tabIdx t, parseKRec r with
      | some i, some r => match s.ktabs[i]! with
        | some T =>
          let q := kaddF a T r
          fin { s with ktabs := s.ktabs.set! i (some q.2.1) } q.1 (krcStr q.2.2)
        | none => bad
      | _, _ => bad
    | "krm", t :: r => match tabIdx t, parseKRec r with
      | some i, some r => match s.ktabs[i]! with
        | some T =>
          let q := kremoveF a T r
          fin { s with ktabs := s.ktabs.set! i (some q.2.1) } q.1 (krcStr q.2.2)
        | none => bad
      | _, _ => bad
    | "ksrcrm", [t, src] => match tabIdx t, parseSrc src with
      | some i, some src => match s.ktabs[i]! with
        | some T =>
          let q := ksrcRemoveF a T src
          fin { s with ktabs := s.ktabs.set! i (some q.2.1) } q.1 (krcStr q.2.2)
        | none => bad
      | _, _ => bad
    | "kget", [t, asn, ski] => match tabIdx t, parseAsn asn, parseHexMax ski 20 with
      | some i, some asn, some ski => match s.ktabs[i]! with
        | some T =>
          let q := kgetAllF a T asn ski
          fin s (q.1.freeIf .result q.2.2.length) (kresStr q.2.1 q.2.2)
        | none => bad
      | _, _, _ => bad
    | "kbyski", [t, ski] => match tabIdx t, parseHexMax ski 20 with
      | some i, some ski => match s.ktabs[i]! with
        | some T =>
          let q := ksearchBySkiF a T ski
          fin s (q.1.freeIf .result q.2.2.length) (kresStr q.2.1 q.2.2)
        | none => bad
      | _, _ => bad
    | "kcopyx", [ta, tb, src] => match tabIdx ta, tabIdx tb, parseSrc src with
      | some i, some j, some src =>
        if i = j then bad else
        match s.ktabs[i]!, s.ktabs[j]! with
        | some S, some D =>
          let q := kcopyExceptF a S D src
          fin { s with ktabs := s.ktabs.set! j (some q.2.1) } q.1 (krcStr q.2.2)
        | _, _ => bad
      | _, _, _ => bad
    | "kfree", [t] => match tabIdx t with
      | some i => match s.ktabs[i]! with
        | some T => fin { s with ktabs := s.ktabs.set! i none } (kfreeF a T) "0"
        | none => bad
      | none => bad
    | "kfreenn", [t] => match tabIdx t with
      | some i => match s.ktabs[i]! with
        | some T => fin { s with ktabs := s.ktabs.set! i none } (kfreeF a T) "0"
        | none => bad
      | none => bad
    | "sync", [reset, hex] => match parseCb reset, hexToBytes? hex, s.ktabs[0]! with
      | some reset, some bs, some K =>
        match parseStream bs with
        | some (items, sn) =>
          let q := syncF a (s.ptabs[0]!) K reset items
          let res := q.2.2.2
          let rc := if res.ok then "0" else "-1"
          let req := if res.ok then 0 else if res.purged then 1 else (if reset then 1 else 0)
          let serial := if res.ok then sn else 5
          fin { s with ptabs := s.ptabs.set! 0 q.2.1, ktabs := s.ktabs.set! 0 (some q.2.2.1) } q.1
            s!"{rc} req={req} serial={serial} resetting=0"
        | none => bad
      | _, _, _ => bad
    | _, _ => bad
  | _ => bad

def main : IO Unit := do
  loop (← IO.getStdin) (← IO.getStdout) step ({} : St)
