/-
  CLinkBits: link theorems for the address-bit functions of rtrlib/lib/{ipv4,ipv6,ip}.c.

  The functions as translated from the C text by tools/gen_cfuns.py (`Rtr.Gen.C.*`, RtrModel/Generated/CFuns.lean)
  equal the hand-written literal models of RtrModel/Bits.lean (`getBits32`, `ipv6GetBits`, `V6.isZero`, ...) for
  ALL inputs, `none` (no defined result) exactly where stated.  The composite corollaries at the end
  (`c_is_left_child4/6`, `c_covers4/6`) are the C expressions of trie.c's `is_left_child` and of the covering test of
  `trie_lookup`; through `isLeftChildC4_eq`, `isLeftChildC6_eq`, `coversC4_eq`, `coversC6_eq` (RtrProofs/BitsLink*.lean)
  they reach the abstract `isLeft` / `prefixEq` the trie theorems are written against.

  Proof technique (meant to survive harmless refactorings of the C text): no navigation of the generated term.
  1. `simp only` with the unconditional normalisation lemmas of `Rtr.CLink.U8` below turns every `uint8_t`/`int`
     expression of the generated term into a `Nat` expression over `x.toNat` (conditions) — the always-true assertions
     and overflow guards disappear here;
  2. case split on the conditions *of the model*, rewrite with them, then generic `split` + `omega`.
-/
import RtrProofs.CLink
import RtrProofs.BitsLink6

set_option linter.unusedSimpArgs false  -- the simp sets are deliberately wider than what today's C text needs

namespace Rtr.CLink
open Rtr Rtr.Gen

/-! ## normalisation lemmas: `uint8_t` values promoted to `int` (zero-extension to 32 bits) and truncated back -/
namespace U8

theorem add_zext8_toInt (a b : BitVec 8) :
    (BitVec.setWidth 32 a + BitVec.setWidth 32 b).toInt = ((a.toNat + b.toNat : Nat) : Int) := by
  rw [BitVec.toInt_eq_toNat_cond, BitVec.toNat_add, zext8_toNat, zext8_toNat]
  have := a.isLt; have := b.isLt
  split <;> omega

theorem sle_add_zext8_lit (a b : BitVec 8) (k : Nat) (hk : k < 2147483648) :
    BitVec.sle (BitVec.setWidth 32 a + BitVec.setWidth 32 b) (BitVec.ofNat 32 k) = decide (a.toNat + b.toNat ≤ k) := by
  simp only [BitVec.sle, add_zext8_toInt, lit32_toInt k hk]; simp; omega
theorem slt_add_zext8_lit (a b : BitVec 8) (k : Nat) (hk : k < 2147483648) :
    BitVec.slt (BitVec.setWidth 32 a + BitVec.setWidth 32 b) (BitVec.ofNat 32 k) = decide (a.toNat + b.toNat < k) := by
  simp only [BitVec.slt, add_zext8_toInt, lit32_toInt k hk]; simp; omega
theorem sle_lit_add_zext8 (a b : BitVec 8) (k : Nat) (hk : k < 2147483648) :
    BitVec.sle (BitVec.ofNat 32 k) (BitVec.setWidth 32 a + BitVec.setWidth 32 b) = decide (k ≤ a.toNat + b.toNat) := by
  simp only [BitVec.sle, add_zext8_toInt, lit32_toInt k hk]; simp; omega
theorem slt_lit_add_zext8 (a b : BitVec 8) (k : Nat) (hk : k < 2147483648) :
    BitVec.slt (BitVec.ofNat 32 k) (BitVec.setWidth 32 a + BitVec.setWidth 32 b) = decide (k < a.toNat + b.toNat) := by
  simp only [BitVec.slt, add_zext8_toInt, lit32_toInt k hk]; simp; omega

/-- `int` addition of two promoted bytes never overflows -/
theorem saddOverflow_zext8 (a b : BitVec 8) :
    BitVec.saddOverflow (BitVec.setWidth 32 a) (BitVec.setWidth 32 b) = false := by
  simp only [BitVec.saddOverflow, zext8_toInt]
  have := a.isLt; have := b.isLt
  simp; omega
/-- `int` subtraction of two promoted bytes never overflows -/
theorem ssubOverflow_zext8 (a b : BitVec 8) :
    BitVec.ssubOverflow (BitVec.setWidth 32 a) (BitVec.setWidth 32 b) = false := by
  simp only [BitVec.ssubOverflow, zext8_toInt]
  have := a.isLt; have := b.isLt
  simp; omega
theorem ssubOverflow_zext8_lit (a : BitVec 8) (k : Nat) (hk : k < 2147483648) :
    BitVec.ssubOverflow (BitVec.setWidth 32 a) (BitVec.ofNat 32 k) = false := by
  simp only [BitVec.ssubOverflow, zext8_toInt, lit32_toInt k hk]
  have := a.isLt
  simp; omega
theorem saddOverflow_zext8_lit (a : BitVec 8) (k : Nat) (hk : k < 2147483648 - 256) :
    BitVec.saddOverflow (BitVec.setWidth 32 a) (BitVec.ofNat 32 k) = false := by
  simp only [BitVec.saddOverflow, zext8_toInt, lit32_toInt k (by omega)]
  have := a.isLt
  simp; omega

/-! conversion back to `uint8_t` -/
theorem trunc8_zext8 (a : BitVec 8) : BitVec.setWidth 8 (BitVec.setWidth 32 a) = a := by
  apply BitVec.eq_of_toNat_eq; simp
theorem trunc8_sub (x y : BitVec 32) : BitVec.setWidth 8 (x - y) = BitVec.setWidth 8 x - BitVec.setWidth 8 y := by
  apply BitVec.eq_of_toNat_eq
  simp only [BitVec.toNat_setWidth, BitVec.toNat_sub]
  omega
theorem trunc8_add (x y : BitVec 32) : BitVec.setWidth 8 (x + y) = BitVec.setWidth 8 x + BitVec.setWidth 8 y := by
  apply BitVec.eq_of_toNat_eq
  simp only [BitVec.toNat_setWidth, BitVec.toNat_add]
  omega
theorem trunc8_lit (k : Nat) : BitVec.setWidth 8 (BitVec.ofNat 32 k) = BitVec.ofNat 8 k :=
  BitVec.setWidth_ofNat_of_le (by decide) k
theorem trunc8_ite (c : Prop) [Decidable c] (x y : BitVec 32) :
    BitVec.setWidth 8 (if c then x else y) = if c then BitVec.setWidth 8 x else BitVec.setWidth 8 y := by
  split <;> rfl

/-! values of `uint8_t` expressions as natural numbers -/
theorem toNat_ite8 (c : Prop) [Decidable c] (x y : BitVec 8) :
    (if c then x else y).toNat = if c then x.toNat else y.toNat := by
  split <;> rfl
theorem toNat_sub8_of_le (a b : BitVec 8) (h : b.toNat ≤ a.toNat) : (a - b).toNat = a.toNat - b.toNat := by
  rw [BitVec.toNat_sub]; have := a.isLt; omega
theorem toNat_lit8 (k : Nat) (h : k < 256) : (BitVec.ofNat 8 k).toNat = k := by
  simp only [BitVec.toNat_ofNat]; omega
theorem toNat_sub8_lit_of_not_lt (a : BitVec 8) (k : Nat) (hk : k < 256) (h : ¬ a.toNat < k) :
    (a - BitVec.ofNat 8 k).toNat = a.toNat - k := by
  rw [toNat_sub8_of_le]
  · rw [toNat_lit8 k hk]
  · rw [toNat_lit8 k hk]; omega
/-- `x > k ? k : x` -/
theorem ite_gt_min (a k : Nat) : (if k < a then k else a) = min a k := by
  split <;> omega
theorem ite_ge_min (a k : Nat) : (if k ≤ a then k else a) = min a k := by
  split <;> omega
theorem ite_lt_min (a k : Nat) : (if a < k then a else k) = min a k := by
  split <;> omega
theorem ite_le_min (a k : Nat) : (if a ≤ k then a else k) = min a k := by
  split <;> omega
/-- `x < k ? 0 : x - k` on natural numbers (truncated subtraction) -/
theorem ite_lt_zero_sub (a k : Nat) : (if a < k then 0 else a - k) = a - k := by
  split <;> omega
/-- `x < k ? 0 : x - k` computed in `uint8_t` -/
theorem ite_lt_sub8 (a : BitVec 8) (k : Nat) (hk : k < 256) :
    (if a.toNat < k then 0 else (a - BitVec.ofNat 8 k).toNat) = a.toNat - k := by
  split
  · omega
  · exact toNat_sub8_lit_of_not_lt a k hk ‹_›

/-- `x >= k ? x - k : 0` computed in `uint8_t` -/
theorem ite_ge_sub8 (a : BitVec 8) (k : Nat) (hk : k < 256) :
    (if k ≤ a.toNat then (a - BitVec.ofNat 8 k).toNat else 0) = a.toNat - k := by
  split
  · exact toNat_sub8_lit_of_not_lt a k hk (by omega)
  · omega
theorem ite_ge_sub_zero (a k : Nat) : (if k ≤ a then a - k else 0) = a - k := by
  split <;> omega

/-! deciding a comparison by arithmetic from the conditions of the enclosing `if`s: `simp (disch := omega)` -/
theorem nat_lt_true (a b : Nat) (h : a < b) : (a < b) = True := eq_true h
theorem nat_lt_false (a b : Nat) (h : ¬ a < b) : (a < b) = False := eq_false h
theorem nat_le_true (a b : Nat) (h : a ≤ b) : (a ≤ b) = True := eq_true h
theorem nat_le_false (a b : Nat) (h : ¬ a ≤ b) : (a ≤ b) = False := eq_false h
theorem nat_eq_true (a b : Nat) (h : a = b) : (a = b) = True := eq_true h
theorem nat_eq_false (a b : Nat) (h : ¬ a = b) : (a = b) = False := eq_false h

/-! pairs threaded through `if` (the model's `let (r, left) := if … then (…, …) else (…, …)`) -/
theorem ite_fst {α β : Type} (c : Prop) [Decidable c] (p q : α × β) :
    (if c then p else q).fst = if c then p.fst else q.fst := by
  split <;> rfl
theorem ite_snd {α β : Type} (c : Prop) [Decidable c] (p q : α × β) :
    (if c then p else q).snd = if c then p.snd else q.snd := by
  split <;> rfl

theorem getBits32_congr (v : BitVec 32) {a a' b b' : Nat} (h1 : a = a') (h2 : b = b') :
    getBits32 v a b = getBits32 v a' b' := by
  rw [h1, h2]

end U8
open U8

/-- closes the goals of the small functions: all paths through the `if`s, each by simplification -/
local macro "c_close" : tactic => `(tactic| ((repeat' split) <;> first | rfl | simp_all))

/-! ## IPv4 -/

/-- `lrtr_ipv4_get_bits` is `lrtr_get_bits` on the single word -/
theorem lrtr_ipv4_get_bits_eq (val : C.S_lrtr_ipv4_addr) (f n : BitVec 8) :
    C.lrtr_ipv4_get_bits val f n =
      if Defined32 f.toNat n.toNat then some { addr := getBits32 val.addr f.toNat n.toNat } else none := by
  unfold C.lrtr_ipv4_get_bits Defined32
  simp only [lrtr_get_bits_eq]
  by_cases h : n.toNat ≤ 32 <;> simp [h, C.S_lrtr_ipv4_addr.zero]

/-- `lrtr_ipv4_addr_equal` is equality of the word (always defined) -/
theorem lrtr_ipv4_addr_equal_eq (a b : C.S_lrtr_ipv4_addr) :
    C.lrtr_ipv4_addr_equal a b = some (a.addr == b.addr) := by
  unfold C.lrtr_ipv4_addr_equal
  by_cases h : a.addr = b.addr <;> simp [h, bne]

/-! ## IPv6 -/

/-- the generated record for `struct lrtr_ipv6_addr` and the model's `V6` are the same four words -/
def toV6 (a : C.S_lrtr_ipv6_addr) : V6 := ⟨a.addr_0, a.addr_1, a.addr_2, a.addr_3⟩
def ofV6 (a : V6) : C.S_lrtr_ipv6_addr := ⟨a.w0, a.w1, a.w2, a.w3⟩

@[simp] theorem toV6_ofV6 (a : V6) : toV6 (ofV6 a) = a := rfl
@[simp] theorem ofV6_toV6 (a : C.S_lrtr_ipv6_addr) : ofV6 (toV6 a) = a := rfl
theorem toV6_inj {a b : C.S_lrtr_ipv6_addr} : toV6 a = toV6 b ↔ a = b :=
  ⟨fun h => by simpa using congrArg ofV6 h, fun h => h ▸ rfl⟩
theorem toV6_zero : toV6 C.S_lrtr_ipv6_addr.zero = ⟨0, 0, 0, 0⟩ := rfl

/-- `==` on `V6` (derived `DecidableEq`) is word-wise -/
theorem V6_beq_eq (a b : V6) : (a == b) = (a.w0 == b.w0 && a.w1 == b.w1 && a.w2 == b.w2 && a.w3 == b.w3) := by
  cases a; cases b
  rw [Bool.eq_iff_iff]
  simp only [beq_iff_eq, Bool.and_eq_true, V6.mk.injEq, and_assoc]

/-- `lrtr_ipv6_addr_equal` is equality of the four words (always defined) -/
theorem lrtr_ipv6_addr_equal_eq (a b : C.S_lrtr_ipv6_addr) :
    C.lrtr_ipv6_addr_equal a b = some (toV6 a == toV6 b) := by
  unfold C.lrtr_ipv6_addr_equal
  rw [V6_beq_eq]
  simp only [toV6]
  -- decide the four word equalities and let simp evaluate both sides (independent of the form of the C text: one
  -- conjunction, a negated memcmp, an unrolled loop with early returns)
  by_cases h0 : a.addr_0 = b.addr_0 <;> by_cases h1 : a.addr_1 = b.addr_1 <;> by_cases h2 : a.addr_2 = b.addr_2 <;>
    by_cases h3 : a.addr_3 = b.addr_3 <;> simp [h0, h1, h2, h3, bne]

/-- `lrtr_ipv6_get_bits` as translated from the C text is the literal model `ipv6GetBits`.
    It has a defined result exactly if `first_bit > 127` (early return of the zero address, before the assertions;
    the model yields the zero address there, too) or `DefinedV6` holds (both assertions pass; then every inner
    `lrtr_get_bits` is called with at most 32 bits, no `int` operation overflows, every `bits_left >= q` holds). -/
theorem lrtr_ipv6_get_bits_eq (val : C.S_lrtr_ipv6_addr) (f n : BitVec 8) :
    C.lrtr_ipv6_get_bits val f n =
      if 127 < f.toNat ∨ DefinedV6 f.toNat n.toNat then some (ofV6 (ipv6GetBits (toV6 val) f.toNat n.toNat))
      else none := by
  unfold C.lrtr_ipv6_get_bits
  -- 1. the generated term: every uint8_t / int expression becomes a Nat expression over `f.toNat`, `n.toNat`;
  --    the assertions and overflow guards that always hold disappear
  simp (maxSteps := 1000000) only [lrtr_get_bits_eq,
    slt_zext8_lit, slt_lit_zext8, sle_zext8_lit, sle_lit_zext8, sle_zext8_zext8, slt_zext8_zext8,
    sle_add_zext8_lit, slt_add_zext8_lit, sle_lit_add_zext8, slt_lit_add_zext8, zext8_beq_lit, zext8_bne_lit,
    saddOverflow_zext8, ssubOverflow_zext8, ssubOverflow_zext8_lit, saddOverflow_zext8_lit,
    trunc8_sub, trunc8_add, trunc8_zext8, trunc8_lit, trunc8_ite, toNat_ite8, toNat_sub8_of_le, toNat_lit8,
    ite_gt_min, ite_ge_min, ite_lt_min, ite_le_min, ite_lt_sub8, ite_ge_sub8,
    Nat.min_le_left, Nat.min_le_right, Nat.reduceLT, Nat.reduceLeDiff, Nat.reduceSub,
    decide_eq_true_eq, Bool.not_false, Bool.not_true, Bool.or_true, Bool.true_or, Bool.and_true, Bool.true_and,
    Bool.and_eq_true, Bool.or_eq_true, Bool.not_eq_true', decide_eq_false_iff_not, if_true, reduceIte, decide_true]
  -- the model, same normal form
  unfold ipv6GetBits DefinedV6 toV6 ofV6 C.S_lrtr_ipv6_addr.zero
  simp only [gt_iff_lt, ge_iff_le, ite_gt_min, ite_lt_zero_sub, ite_fst, ite_snd]
  -- 2. the conditions of the model first: they flatten the model, and the generated term as far as its conditions are
  --    written the same way
  by_cases h0 : f.toNat ≤ 31 <;> by_cases h1 : (f.toNat ≤ 63 ∧ 32 < f.toNat + n.toNat) <;>
    by_cases h2 : (f.toNat ≤ 95 ∧ 64 < f.toNat + n.toNat) <;>
    by_cases h3 : (f.toNat ≤ 127 ∧ 96 < f.toNat + n.toNat) <;>
    simp only [h0, h1, h2, h3, and_self, if_true, if_false, true_implies, true_and, and_true, false_and, and_false,
      true_or, or_true, false_or, or_false, not_true_eq_false, not_false_eq_true]
  -- conditions that follow by arithmetic from the case and from the conditions of the enclosing `if`s
  all_goals try simp (disch := omega) only [nat_lt_true, nat_lt_false, nat_le_true, nat_le_false, nat_eq_true,
    nat_eq_false, toNat_sub8_of_le, toNat_lit8, toNat_sub8_lit_of_not_lt, reduceIte, ite_self,
    true_and, and_true, false_and, and_false, true_or, or_true, false_or, or_false, not_true_eq_false,
    not_false_eq_true, true_implies]
  -- whatever uint8_t arithmetic is left: modulo 256, for `omega`
  all_goals try simp only [BitVec.toNat_sub, BitVec.toNat_add, BitVec.toNat_ofNat, Nat.reducePow, Nat.reduceMod,
    Nat.reduceSub]
  -- all remaining paths; the impossible ones go by arithmetic as soon as they become impossible
  all_goals repeat' first | omega | split
  -- what is left are equations between results
  all_goals first
    | with_reducible rfl
    | (simp only [Option.some.injEq, C.S_lrtr_ipv6_addr.mk.injEq]
       and_intros <;> first | with_reducible rfl | exact True.intro | (apply getBits32_congr <;> omega))

/-! ## either family (`struct lrtr_ip_addr`; `ver` = 0 is `LRTR_IPV4`, 1 is `LRTR_IPV6`, rtrlib/lib/ip.h)

The C code treats every `ver ≠ LRTR_IPV6` as IPv4; so do the statements below.  The translator represents the union
`u` as a record with one field per member; a function result carries the zero value in the member it did not assign. -/

/-- `lrtr_ip_addr_is_zero` (always defined) -/
theorem lrtr_ip_addr_is_zero_eq (p : C.S_lrtr_ip_addr) :
    C.lrtr_ip_addr_is_zero p =
      some (if p.ver = 1#32 then (toV6 p.u.addr6).isZero else p.u.addr4.addr == 0#32) := by
  unfold C.lrtr_ip_addr_is_zero V6.isZero toV6
  by_cases hv : p.ver = 1#32
  · by_cases h0 : p.u.addr6.addr_0 = 0#32 <;> by_cases h1 : p.u.addr6.addr_1 = 0#32 <;>
      by_cases h2 : p.u.addr6.addr_2 = 0#32 <;> by_cases h3 : p.u.addr6.addr_3 = 0#32 <;> simp [hv, h0, h1, h2, h3, bne]
  · by_cases h4 : p.u.addr4.addr = 0#32 <;> simp [hv, h4, bne]

/-- `lrtr_ip_addr_equal` (always defined): same version and equal address of that family -/
theorem lrtr_ip_addr_equal_eq (a b : C.S_lrtr_ip_addr) :
    C.lrtr_ip_addr_equal a b =
      some (a.ver == b.ver &&
        (if a.ver = 1#32 then toV6 a.u.addr6 == toV6 b.u.addr6 else a.u.addr4.addr == b.u.addr4.addr)) := by
  unfold C.lrtr_ip_addr_equal
  simp only [lrtr_ipv6_addr_equal_eq, lrtr_ipv4_addr_equal_eq]
  by_cases hv : a.ver = b.ver <;> by_cases h1 : a.ver = 1#32 <;> simp_all

/-- `lrtr_ip_addr_get_bits`: the family's function on the family's member, definedness of that function -/
theorem lrtr_ip_addr_get_bits_eq (val : C.S_lrtr_ip_addr) (f n : BitVec 8) :
    C.lrtr_ip_addr_get_bits val f n =
      if val.ver = 1#32 then
        (if 127 < f.toNat ∨ DefinedV6 f.toNat n.toNat then
           some { ver := 1#32, u := { addr4 := C.S_lrtr_ipv4_addr.zero,
                                      addr6 := ofV6 (ipv6GetBits (toV6 val.u.addr6) f.toNat n.toNat) } }
         else none)
      else
        (if Defined32 f.toNat n.toNat then
           some { ver := 0#32, u := { addr4 := { addr := getBits32 val.u.addr4.addr f.toNat n.toNat },
                                      addr6 := C.S_lrtr_ipv6_addr.zero } }
         else none) := by
  unfold C.lrtr_ip_addr_get_bits
  simp only [lrtr_ipv6_get_bits_eq, lrtr_ipv4_get_bits_eq, C.S_lrtr_ip_addr.zero, C.S_lrtr_ipv4_addr.zero,
    C.S_lrtr_ipv6_addr.zero]
  by_cases hv : val.ver = 1#32 <;> simp only [hv] <;> c_close

/-! ## the two expressions trie.c is built on -/

/-- `is_left_child(addr, lvl)` of pfx/trie/trie.c: `lrtr_ip_addr_is_zero(lrtr_ip_addr_get_bits(addr, lvl, 1))`,
    as translated -/
def cIsLeftChild (a : C.S_lrtr_ip_addr) (lvl : BitVec 8) : Option Bool :=
  (C.lrtr_ip_addr_get_bits a lvl 1#8).bind C.lrtr_ip_addr_is_zero

/-- the covering test of `trie_lookup`:
    `lrtr_ip_addr_equal(lrtr_ip_addr_get_bits(&p, 0, len), lrtr_ip_addr_get_bits(&q, 0, len))`, as translated -/
def cCovers (p q : C.S_lrtr_ip_addr) (len : BitVec 8) : Option Bool :=
  (C.lrtr_ip_addr_get_bits p 0#8 len).bind fun x =>
    (C.lrtr_ip_addr_get_bits q 0#8 len).bind fun y => C.lrtr_ip_addr_equal x y

/-- `is_left_child` on an IPv4 address: defined at every level, the literal model `isLeftChildC4` -/
theorem c_is_left_child4 (a : C.S_lrtr_ip_addr) (lvl : BitVec 8) (hv : a.ver ≠ 1#32) :
    cIsLeftChild a lvl = some (isLeftChildC4 a.u.addr4.addr lvl.toNat) := by
  unfold cIsLeftChild isLeftChildC4
  have h1 : (1#8).toNat = 1 := rfl
  have hd : Defined32 lvl.toNat 1 := by unfold Defined32; omega
  simp [lrtr_ip_addr_get_bits_eq, lrtr_ip_addr_is_zero_eq, hv, h1, hd]

/-- `is_left_child` on an IPv6 address: defined at every level (also beyond 127), the literal model `isLeftChildC6` -/
theorem c_is_left_child6 (a : C.S_lrtr_ip_addr) (lvl : BitVec 8) (hv : a.ver = 1#32) :
    cIsLeftChild a lvl = some (isLeftChildC6 (toV6 a.u.addr6) lvl.toNat) := by
  unfold cIsLeftChild isLeftChildC6
  have h1 : (1#8).toNat = 1 := rfl
  have hd : 127 < lvl.toNat ∨ DefinedV6 lvl.toNat 1 := by unfold DefinedV6; omega
  simp [lrtr_ip_addr_get_bits_eq, lrtr_ip_addr_is_zero_eq, hv, h1, hd]

/-- the covering test on IPv4 addresses: defined iff `len ≤ 32`, the literal model `coversC4` -/
theorem c_covers4 (p q : C.S_lrtr_ip_addr) (len : BitVec 8) (hp : p.ver ≠ 1#32) (hq : q.ver ≠ 1#32) :
    cCovers p q len =
      if len.toNat ≤ 32 then some (coversC4 p.u.addr4.addr len.toNat q.u.addr4.addr) else none := by
  unfold cCovers coversC4
  have h0 : (0#8).toNat = 0 := rfl
  by_cases h : len.toNat ≤ 32 <;>
    simp [lrtr_ip_addr_get_bits_eq, lrtr_ip_addr_equal_eq, hp, hq, h0, h, Defined32]

/-- the covering test on IPv6 addresses: defined iff `len ≤ 128`, the literal model `coversC6` -/
theorem c_covers6 (p q : C.S_lrtr_ip_addr) (len : BitVec 8) (hp : p.ver = 1#32) (hq : q.ver = 1#32) :
    cCovers p q len =
      if len.toNat ≤ 128 then some (coversC6 (toV6 p.u.addr6) len.toNat (toV6 q.u.addr6)) else none := by
  unfold cCovers coversC6
  have h0 : (0#8).toNat = 0 := rfl
  by_cases h : len.toNat ≤ 128 <;>
    simp [lrtr_ip_addr_get_bits_eq, lrtr_ip_addr_equal_eq, hp, hq, h0, h, DefinedV6]

/-! ## down to the abstract bit view (`isLeft`, `prefixEq` of RtrModel/Trie.lean)

The address as the natural number the trie model works with: the host-order word (IPv4), the four words, most
significant first (IPv6, `V6.toNat`). -/

theorem V6_toNat_lt (a : V6) : a.toNat < 2 ^ 128 := by
  unfold V6.toNat
  have := a.w0.isLt; have := a.w1.isLt; have := a.w2.isLt; have := a.w3.isLt
  omega

theorem V6_ofNat_toNat (a : V6) : V6.ofNat a.toNat = a := by
  cases a with
  | mk w0 w1 w2 w3 =>
    have := w0.isLt; have := w1.isLt; have := w2.isLt; have := w3.isLt
    simp only [V6.ofNat, V6.toNat, V6.mk.injEq]
    refine ⟨?_, ?_, ?_, ?_⟩ <;> apply BitVec.eq_of_toNat_eq <;> simp only [BitVec.toNat_ofNat] <;> omega

theorem c_is_left_child4_abs (a : C.S_lrtr_ip_addr) (lvl : BitVec 8) (hv : a.ver ≠ 1#32) :
    cIsLeftChild a lvl = some (isLeft 32 a.u.addr4.addr.toNat lvl.toNat) := by
  rw [c_is_left_child4 a lvl hv, ← isLeftChildC4_eq, BitVec.ofNat_toNat, BitVec.setWidth_eq]

theorem c_is_left_child6_abs (a : C.S_lrtr_ip_addr) (lvl : BitVec 8) (hv : a.ver = 1#32) :
    cIsLeftChild a lvl = some (isLeft 128 (toV6 a.u.addr6).toNat lvl.toNat) := by
  rw [c_is_left_child6 a lvl hv, ← isLeftChildC6_eq, V6_ofNat_toNat]

theorem c_covers4_abs (p q : C.S_lrtr_ip_addr) (len : BitVec 8) (hp : p.ver ≠ 1#32) (hq : q.ver ≠ 1#32)
    (h : len.toNat ≤ 32) :
    cCovers p q len = some (prefixEq 32 p.u.addr4.addr.toNat q.u.addr4.addr.toNat len.toNat) := by
  rw [c_covers4 p q len hp hq, if_pos h,
    ← coversC4_eq _ _ p.u.addr4.addr.isLt q.u.addr4.addr.isLt _ h, BitVec.ofNat_toNat, BitVec.ofNat_toNat,
    BitVec.setWidth_eq, BitVec.setWidth_eq]

theorem c_covers6_abs (p q : C.S_lrtr_ip_addr) (len : BitVec 8) (hp : p.ver = 1#32) (hq : q.ver = 1#32)
    (h : len.toNat ≤ 128) :
    cCovers p q len = some (prefixEq 128 (toV6 p.u.addr6).toNat (toV6 q.u.addr6).toNat len.toNat) := by
  rw [c_covers6 p q len hp hq, if_pos h,
    ← coversC6_eq _ _ (V6_toNat_lt _) (V6_toNat_lt _) _ h, V6_ofNat_toNat, V6_ofNat_toNat]

/-! ## `is_left_child` itself (pfx/trie/trie.c), now translated too

`lvl` is an `unsigned int` there and is converted to `uint8_t` at the call of `lrtr_ip_addr_get_bits`: the bit tested
is bit `lvl mod 256`.  The trie never descends below level 128. -/

theorem is_left_child_eq (a : C.S_lrtr_ip_addr) (lvl : BitVec 32) :
    C.is_left_child a lvl = cIsLeftChild a (BitVec.setWidth 8 lvl) := by
  unfold C.is_left_child cIsLeftChild
  cases C.lrtr_ip_addr_get_bits a (BitVec.setWidth 8 lvl) 1#8 with
  | none => rfl
  | some r => simp only [Option.bind_some]; cases C.lrtr_ip_addr_is_zero r <;> rfl

theorem is_left_child4 (a : C.S_lrtr_ip_addr) (lvl : BitVec 32) (hv : a.ver ≠ 1#32) (hl : lvl.toNat < 256) :
    C.is_left_child a lvl = some (isLeft 32 a.u.addr4.addr.toNat lvl.toNat) := by
  rw [is_left_child_eq, c_is_left_child4_abs a _ hv, BitVec.toNat_setWidth, Nat.mod_eq_of_lt (by omega)]

theorem is_left_child6 (a : C.S_lrtr_ip_addr) (lvl : BitVec 32) (hv : a.ver = 1#32) (hl : lvl.toNat < 256) :
    C.is_left_child a lvl = some (isLeft 128 (toV6 a.u.addr6).toNat lvl.toNat) := by
  rw [is_left_child_eq, c_is_left_child6_abs a _ hv, BitVec.toNat_setWidth, Nat.mod_eq_of_lt (by omega)]

/-! ## the generated function evaluated (kernel `decide`): the cases the definedness condition distinguishes -/

/-- beyond the last bit: defined (early return before the assertions) although `DefinedV6` fails -/
example : C.lrtr_ipv6_get_bits ⟨0xffffffff#32, 0xffffffff#32, 0xffffffff#32, 0xffffffff#32⟩ 200#8 200#8
      = some C.S_lrtr_ipv6_addr.zero ∧ ¬ DefinedV6 200 200 := by decide
/-- `first_bit + quantity > 128`: the assertion fails -/
example : C.lrtr_ipv6_get_bits ⟨0xffffffff#32, 0xffffffff#32, 0xffffffff#32, 0xffffffff#32⟩ 100#8 100#8 = none := by
  decide
/-- a prefix mask, the only multi-word use the trie makes -/
example : C.lrtr_ipv6_get_bits ⟨0xffffffff#32, 0xffffffff#32, 0xffffffff#32, 0xffffffff#32⟩ 0#8 70#8
      = some ⟨0xffffffff#32, 0xffffffff#32, 0xfc000000#32, 0#32⟩ := by decide

end Rtr.CLink
