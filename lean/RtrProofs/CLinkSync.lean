/-
  CLinkSync: the synchronisation functions of rtrlib/rtr/packets.c as translated by tools/gen_cfuns.py
  (RtrModel/Generated/CFuns.lean, regenerated from the current source on every run) equal short readable
  specifications - for EVERY socket, world and buffer content, with the exact condition under which the C text has a
  defined result.

      C.rtr_wait_for_sync              = waitForSyncSpec        (rtr_wait_for_sync_eq)
      C.rtr_sync.loop1 / C.rtr_sync    = syncSpec               (rtr_sync_loop_succ, rtr_sync_loop_eq, rtr_sync_eq)
      C.rtr_send_serial_query          = serialQuerySpec        (rtr_send_serial_query_eq)
      C.rtr_send_reset_query           = resetQuerySpec         (rtr_send_reset_query_eq)
      C.rtr_set_last_update            = setLastUpdateSpec      (rtr_set_last_update_eq)
      C.rtr_handle_cache_response_pdu  = cacheResponseSpec      (rtr_handle_cache_response_pdu_eq)
      C.rtr_handle_error_pdu           = errorPduSpec           (rtr_handle_error_pdu_eq)

  The functions are translated as control skeletons over `C.XWorld C.S_rtr_socket` (RtrModel/CSem.lean): a callee that
  is not translated is answered by the world (`w.ext i` answers the i-th call: return value `rc`, clock reading `aux`,
  the socket as the callee left it `st`, the bytes it left in the receive buffer `buf`) and recorded in `w.trace` with
  its name, its recorded scalar arguments and the socket it was handed.  So a specification says: which calls are made,
  in which order, with which arguments and which socket; how the function itself changes the socket in between; what it
  returns.  Property-level corollaries (C05, C07, C13, C14, C17), all stated about the translated functions:

      wait_for_sync_timeout, wait_for_sync_result, wait_for_sync_undefined_iff                        (C17)
      serial_query_contents, reset_query_contents                                                     (C05, C14)
      sync_downgrade, sync_version_only_downgrade, sync_success_order, sync_round_*,
      sync_after_notifies, rtr_sync_undefined_iff                                                     (C13, C05, C07)
      set_last_update_ok, set_last_update_clock_failed                                                (C07)
      cache_response_adopts_session, cache_response_foreign_session, cache_response_same_session      (C05)
      error_pdu_downgrade, error_pdu_no_downgrade, error_pdu_version_le, error_pdu_reads_in_bounds,
      error_pdu_depends_on                                                                            (C13, C04)

  Proof method (robust against harmless rewrites of the C text; nothing navigates the generated term):
    1. unfold the generated definition and the specification;
    2. `c_norm`: one fixed `simp only` set - calls ↦ `xans`/`xrec`; `==`, `!=`, `&&`, `||`, `!`, `decide` ↦ propositions; Bool
       tests ↦ `b = true`; widenings compared with literals ↦ statements about the narrow value;
    3. `ifs_agree`: make every condition atomic (`if p ∧ q` / `p ∨ q` / `¬p` ↦ nested decisions), then repeatedly take the
       condition at the head of either side, decide it both ways and prune BOTH sides with it (and with its symmetric form);
       leaves close by `rfl`, paths that contradict the bounds by `omega`.
    So the proofs do not depend on the order of conjuncts, on `a == b` vs `b == a`, on early returns vs else-branches, on
    `switch` vs if-chains, on merged `case` labels, on temporaries or on the order of independent assignments
    (checked on modified copies of packets.c, see the report), and they fail on every semantic change tried.

  Definedness conditions found (the C text has a defined result exactly when):
    rtr_wait_for_sync              `last_update + refresh_interval` and `(…) - now` do not overflow `time_t` (waitDefined)
    rtr_sync                       always - unless 2^64 + 1 receives in a row deliver a Serial Notify (the loop's fuel)
    rtr_handle_cache_response_pdu  `pdu + 4 ≤ msize`
    rtr_handle_error_pdu           `pdu + 12 + len_enc_pdu + 4 ≤ msize` (len_enc_pdu read at offset 8)
    the other three                always
-/
import RtrProofs.CLink
import RtrModel.Generated.Constants

set_option linter.unusedSimpArgs false
set_option linter.unusedVariables false

namespace Rtr.CLink
open Rtr Rtr.Gen

local notation "Sock" => C.S_rtr_socket
local notation "XW" => C.XWorld C.S_rtr_socket
local notation "Res" => Option (BitVec 32 × C.S_rtr_socket × C.XWorld C.S_rtr_socket)
/-- a recorded call: name, recorded scalar arguments, the socket handed to the callee -/
local notation "Call" => String × List (BitVec 64) × C.S_rtr_socket

/-! ## Worlds: answers and records -/

/-- the world's answer to the next external call -/
def xans (w : XW) : C.ExtAns Sock := w.ext w.n
/-- the world after the call `name(args)` with socket `s` was made: the call is recorded, the next answer is due -/
def xrec (w : XW) (name : String) (args : List (BitVec 64)) (s : Sock) : XW :=
  { w with n := w.n + 1, trace := w.trace ++ [(name, args, s)] }
/-- the world after the calls `calls` were made, in this order -/
def xrecs (w : XW) (calls : List Call) : XW :=
  { w with n := w.n + calls.length, trace := w.trace ++ calls }
/-- return value of a callee as the C `int` it is -/
def xret (a : C.ExtAns Sock) : BitVec 32 := a.rc.setWidth 32

theorem xcall_eq (w : XW) (name : String) (args : List (BitVec 64)) (s : Sock) :
    C.xcall w name args s = ((xans w).rc, (xans w).aux, (xans w).st, xrec w name args s) := rfl
theorem xcallBuf_eq (w : XW) (name : String) (args : List (BitVec 64)) (s : Sock) :
    C.xcallBuf w name args s = ((xans w).rc, (xans w).aux, (xans w).st, (xans w).buf, xrec w name args s) := rfl
theorem xret_fold (a : C.ExtAns Sock) : BitVec.setWidth 32 a.rc = xret a := rfl

theorem xrec_eq_xrecs (w : XW) (name : String) (args : List (BitVec 64)) (s : Sock) :
    xrec w name args s = xrecs w [(name, args, s)] := rfl
theorem xrecs_xrecs (w : XW) (a b : List Call) : xrecs (xrecs w a) b = xrecs w (a ++ b) := by
  simp only [xrecs, List.length_append, Nat.add_assoc, List.append_assoc]
theorem xrecs_nil (w : XW) : xrecs w [] = w := by
  simp only [xrecs, List.length_nil, Nat.add_zero, List.append_nil]
theorem xans_eq (w : XW) : xans w = w.ext w.n := rfl
theorem xans_xrecs (w : XW) (a : List Call) : xans (xrecs w a) = w.ext (w.n + a.length) := rfl
theorem xrecs_ext (w : XW) (a : List Call) : (xrecs w a).ext = w.ext := rfl
theorem xrecs_n (w : XW) (a : List Call) : (xrecs w a).n = w.n + a.length := rfl
theorem xrecs_trace (w : XW) (a : List Call) : (xrecs w a).trace = w.trace ++ a := rfl

/-- normal form of worlds: `xrecs w [call, …]`, answers as `w.ext (w.n + k)` -/
local macro "xw_norm" : tactic =>
  `(tactic| simp only [xrec_eq_xrecs, xrecs_xrecs, xans_xrecs, xans_eq, xrecs_ext, xrecs_n, xrecs_trace, List.cons_append,
      List.nil_append, List.length_cons, List.length_nil, Nat.reduceAdd, Nat.add_zero, Nat.zero_add])

/-! ## Tactic: two decision trees over the same conditions agree -/

private theorem ite_cases_lhs {α : Sort _} {c : Prop} [Decidable c] {a b r : α} (h1 : c → a = r) (h2 : ¬c → b = r) :
    (if c then a else b) = r := by
  by_cases h : c
  · rw [if_pos h]; exact h1 h
  · rw [if_neg h]; exact h2 h

/-! ## Widenings compared with literals -/

private theorem sext8_eq_lit (x : BitVec 8) (k : Nat) (hk : k < 128) :
    (BitVec.signExtend 32 x = BitVec.ofNat 32 k) = (x = BitVec.ofNat 8 k) := by
  apply propext
  rw [← BitVec.toInt_inj, BitVec.toInt_signExtend_of_le (by decide), lit32_toInt k (by omega),
    BitVec.toInt_eq_toNat_cond, ← BitVec.toNat_inj, BitVec.toNat_ofNat]
  have := x.isLt
  split <;> omega

private theorem zext16_eq_lit (x : BitVec 16) (k : Nat) (hk : k < 65536) :
    (BitVec.setWidth 32 x = BitVec.ofNat 32 k) = (x = BitVec.ofNat 16 k) := by
  apply propext
  rw [← BitVec.toNat_inj, ← BitVec.toNat_inj, zext16_toNat, BitVec.toNat_ofNat, BitVec.toNat_ofNat]
  omega

private theorem zext32_64_toInt (x : BitVec 32) : (BitVec.setWidth 64 x).toInt = (x.toNat : Int) := by
  rw [BitVec.toInt_eq_toNat_cond, BitVec.toNat_setWidth]
  have := x.isLt
  split <;> omega

private theorem b2i_bne_zero (b : Bool) : (C.b2i 32 b != 0#32) = b := by cases b <;> rfl

private theorem bool_eq_false_eq (b : Bool) : (b = false) = ¬ (b = true) := by cases b <;> simp
private theorem bnot_eq_true_eq (b : Bool) : ((!b) = true) = ¬ (b = true) := by cases b <;> simp

/-- normal form of the generated term: external calls as `xans`/`xrec`, conditions as propositions about the values
    (no `==`, `!=`, `&&`, `decide`), widenings compared with literals as statements about the narrow value -/
local syntax "c_norm" "[" Lean.Parser.Tactic.simpLemma,* "]" : tactic
local macro_rules
  | `(tactic| c_norm [$ls,*]) =>
    `(tactic| try simp only [xcall_eq, xcallBuf_eq, xret_fold, beq_iff_eq, bne_iff_ne, ne_eq, Bool.and_eq_true, Bool.or_eq_true,
        bnot_eq_true_eq, Bool.not_eq_false', bool_eq_false_eq, Bool.not_eq_eq_eq_not, Bool.not_true, Bool.not_false,
        decide_eq_true_eq, decide_eq_false_iff_not, Decidable.not_not, b2i_bne_zero, C.load8, BitVec.reduceSetWidth,
        zext16_eq_lit _ 0 (by decide), zext16_eq_lit _ 1 (by decide), zext16_eq_lit _ 2 (by decide),
        zext16_eq_lit _ 3 (by decide), zext16_eq_lit _ 4 (by decide), zext16_eq_lit _ 5 (by decide),
        sext8_eq_lit _ 0 (by decide), sext8_eq_lit _ 3 (by decide), sext8_eq_lit _ 8 (by decide),
        sext8_eq_lit _ 10 (by decide), $ls,*])

private theorem ite_cases_rhs {α : Sort _} {c : Prop} [Decidable c] {a b l : α} (h1 : c → l = a) (h2 : ¬c → l = b) :
    l = (if c then a else b) := by
  by_cases h : c
  · rw [if_pos h]; exact h1 h
  · rw [if_neg h]; exact h2 h

private theorem ite_and_nest {α : Sort _} (p q : Prop) [Decidable p] [Decidable q] (a b : α) :
    (if p ∧ q then a else b) = if p then (if q then a else b) else b := by
  by_cases hp : p <;> by_cases hq : q <;> simp [hp, hq]
private theorem ite_or_nest {α : Sort _} (p q : Prop) [Decidable p] [Decidable q] (a b : α) :
    (if p ∨ q then a else b) = if p then a else (if q then a else b) := by
  by_cases hp : p <;> by_cases hq : q <;> simp [hp, hq]

/-- rewrite the goal with a decided condition `h` (and, for a refuted equation, with its symmetric form) -/
local macro "prune_with" h:ident : tactic =>
  `(tactic| first
      | (have h_s := fun e => $h (Eq.symm e)
         try simp only [$h:ident, h_s, ↓reduceIte, not_true_eq_false, not_false_eq_true, and_true, true_and, and_false, false_and,
           ne_eq, eq_self, Bool.false_eq_true, Bool.true_eq_false] at ⊢)
      | (try simp only [$h:ident, ↓reduceIte, not_true_eq_false, not_false_eq_true, and_true, true_and, and_false, false_and,
           ne_eq, eq_self, Bool.false_eq_true, Bool.true_eq_false] at ⊢))

/-- both sides are decision trees over the same conditions: make every condition atomic (`if p ∧ q`, `if p ∨ q`, `if ¬p`
    become nested decisions), then take the condition at the head of the left (else the right) side, decide it both ways, prune
    both sides with it; a leaf closes by `rfl`, a path that contradicts the bounds known closes by `omega` -/
local macro "ifs_agree" : tactic =>
  `(tactic| ((try simp only [ite_and_nest, ite_or_nest, ite_not]) <;>
    repeat' (first
      | rfl
      | omega
      | (refine ite_cases_lhs ?_ ?_ <;> intro h_ <;> (try simp only [Decidable.not_not] at h_) <;> prune_with h_)
      | (refine ite_cases_rhs ?_ ?_ <;> intro h_ <;> (try simp only [Decidable.not_not] at h_) <;> prune_with h_)
      | (simp_all; done))))

/-- the type byte of a received PDU (offset 1 of the receive buffer) -/
def typeByte (buf : List (BitVec 8)) : BitVec 8 := buf.getD 1 0#8

/-- `rtr_get_pdu_type` on the receive buffer as the callee left it: the `char` at offset 1, sign-extended -/
theorem get_pdu_type_buf (buf : List (BitVec 8)) (msize pdu : Nat) :
    C.rtr_get_pdu_type (C.memOfBytes buf) msize pdu =
      if pdu + 2 ≤ msize then some (BitVec.signExtend 32 (buf.getD (pdu + 1) 0#8)) else none := by
  unfold C.rtr_get_pdu_type C.load8 C.memOfBytes
  by_cases h : pdu + 2 ≤ msize
  · have h1 : pdu + 1 ≤ msize := by omega
    simp [h, h1]
  · simp [h]

theorem get_pdu_type_some (buf : List (BitVec 8)) {msize pdu : Nat} (hp : pdu + 2 ≤ msize) :
    C.rtr_get_pdu_type (C.memOfBytes buf) msize pdu = some (BitVec.signExtend 32 (buf.getD (pdu + 1) 0#8)) := by
  rw [get_pdu_type_buf, if_pos hp]

/-- the literals of the specifications below are the enumerators of the source (RtrModel/Generated/Constants.lean) -/
theorem sync_literals_eq_enum :
    (0#32).toInt = RTR_SUCCESS ∧ (4294967295#32).toInt = RTR_ERROR ∧ (4294967294#32).toInt = TR_WOULDBLOCK ∧
    (4294967292#32).toInt = TR_CLOSED ∧
    ((0#8).toNat : Int) = SERIAL_NOTIFY ∧ ((1#8).toNat : Int) = SERIAL_QUERY ∧ ((2#8).toNat : Int) = RESET_QUERY ∧
    ((3#8).toNat : Int) = CACHE_RESPONSE ∧ ((8#8).toNat : Int) = CACHE_RESET ∧ ((10#8).toNat : Int) = ERROR ∧
    ((4#64).toNat : Int) = RTR_FAST_RECONNECT ∧ ((5#64).toNat : Int) = RTR_ERROR_NO_DATA_AVAIL ∧
    ((6#64).toNat : Int) = RTR_ERROR_NO_INCR_UPDATE_AVAIL ∧ ((7#64).toNat : Int) = RTR_ERROR_FATAL ∧
    ((8#64).toNat : Int) = RTR_ERROR_TRANSPORT ∧
    ((0#64).toNat : Int) = CORRUPT_DATA ∧ ((2#16).toNat : Int) = NO_DATA_AVAIL ∧ ((4#16).toNat : Int) = UNSUPPORTED_PROTOCOL_VER ∧
    (3248#64).toNat = RTR_MAX_PDU_LEN ∧ (60#64).toNat = RTR_RECV_TIMEOUT := by decide

/-! ## rtr_set_last_update (C07) -/

/-- `last_update` := the clock reading; a failing clock (return value -1) makes the socket ERROR_FATAL -/
def setLastUpdateSpec (w : XW) (s : Sock) : Res :=
  let clock := xans w
  let s1 : Sock := { s with last_update := clock.aux }
  let w1 := xrec w "lrtr_get_monotonic_time" [] s
  if xret clock = 4294967295#32 then
    some (4294967295#32, (xans w1).st, xrec w1 "rtr_change_socket_state" [7#64] s1)
  else
    some (0#32, s1, w1)

theorem rtr_set_last_update_eq (w : XW) (s : Sock) : C.rtr_set_last_update w s = setLastUpdateSpec w s := by
  unfold C.rtr_set_last_update setLastUpdateSpec
  c_norm []
  all_goals ifs_agree

/-- the clock works: exactly one call (the clock), `last_update` is its reading, nothing else changes, RTR_SUCCESS -/
theorem set_last_update_ok (w : XW) (s : Sock) (h : xret (w.ext w.n) ≠ 4294967295#32) :
    C.rtr_set_last_update w s =
      some (0#32, { s with last_update := (w.ext w.n).aux }, xrecs w [("lrtr_get_monotonic_time", [], s)]) := by
  rw [rtr_set_last_update_eq]; unfold setLastUpdateSpec
  simp only [xans_eq, h, ↓reduceIte]; rfl

/-- the clock fails: the state is changed to ERROR_FATAL and RTR_ERROR returned -/
theorem set_last_update_clock_failed (w : XW) (s : Sock) (h : xret (w.ext w.n) = 4294967295#32) :
    C.rtr_set_last_update w s =
      some (4294967295#32, (w.ext (w.n + 1)).st,
        xrecs w [("lrtr_get_monotonic_time", [], s),
                 ("rtr_change_socket_state", [7#64], { s with last_update := (w.ext w.n).aux })]) := by
  rw [rtr_set_last_update_eq]; unfold setLastUpdateSpec
  simp only [xans_eq, h, ↓reduceIte]; xw_norm

/-! ## rtr_send_serial_query, rtr_send_reset_query (C05, C14) -/

/-- the record handed to rtr_send_pdu (recorded: length argument, then the fields ver, type, session_id, len, sn):
    version, SERIAL_QUERY, the socket's session and serial, length 12; a send failure makes the socket ERROR_TRANSPORT -/
def serialQuerySpec (w : XW) (s : Sock) : Res :=
  let pdu : List (BitVec 64) :=
    [12#64, (s.version.setWidth 8).setWidth 64, 1#64, (s.session_id.setWidth 16).setWidth 64, 12#64,
     s.serial_number.setWidth 64]
  let w1 := xrec w "rtr_send_pdu" pdu s
  if xret (xans w) ≠ 0#32 then
    some (4294967295#32, (xans w1).st, xrec w1 "rtr_change_socket_state" [8#64] s)
  else
    some (0#32, s, w1)

/-- recorded: length argument, then the fields ver, type, flags, len -/
def resetQuerySpec (w : XW) (s : Sock) : Res :=
  let pdu : List (BitVec 64) := [8#64, (s.version.setWidth 8).setWidth 64, 2#64, 0#64, 8#64]
  let w1 := xrec w "rtr_send_pdu" pdu s
  if xret (xans w) ≠ 0#32 then
    some (4294967295#32, (xans w1).st, xrec w1 "rtr_change_socket_state" [8#64] s)
  else
    some (0#32, s, w1)

theorem rtr_send_serial_query_eq (w : XW) (s : Sock) : C.rtr_send_serial_query w s = serialQuerySpec w s := by
  unfold C.rtr_send_serial_query serialQuerySpec
  c_norm []
  all_goals ifs_agree

theorem rtr_send_reset_query_eq (w : XW) (s : Sock) : C.rtr_send_reset_query w s = resetQuerySpec w s := by
  unfold C.rtr_send_reset_query resetQuerySpec
  c_norm []
  all_goals ifs_agree

/-- the Serial Query that is sent: the first call is rtr_send_pdu of 12 bytes with ver = the low byte of `version`,
    type SERIAL_QUERY, session_id = the low 16 bits of the socket's session, len = 12, sn = the socket's serial number,
    on the unchanged socket; if it succeeds nothing else happens and RTR_SUCCESS is returned, otherwise the only further
    call is the change to ERROR_TRANSPORT and RTR_ERROR is returned -/
theorem serial_query_contents (w : XW) (s : Sock) :
    let sent : Call := ("rtr_send_pdu",
      [12#64, (s.version.setWidth 8).setWidth 64, 1#64, (s.session_id.setWidth 16).setWidth 64, 12#64,
       s.serial_number.setWidth 64], s)
    C.rtr_send_serial_query w s =
      if xret (w.ext w.n) = 0#32 then some (0#32, s, xrecs w [sent])
      else some (4294967295#32, (w.ext (w.n + 1)).st, xrecs w [sent, ("rtr_change_socket_state", [8#64], s)]) := by
  intro sent
  rw [rtr_send_serial_query_eq]; unfold serialQuerySpec
  by_cases h : xret (w.ext w.n) = 0#32
  · simp only [xans_eq, h, ne_eq, not_true_eq_false, ↓reduceIte]; rfl
  · simp only [xans_eq, h, ne_eq, not_false_eq_true, ↓reduceIte]; xw_norm <;> rfl

/-- the Reset Query that is sent: 8 bytes with ver = the low byte of `version`, type RESET_QUERY, flags 0, len = 8 -/
theorem reset_query_contents (w : XW) (s : Sock) :
    let sent : Call := ("rtr_send_pdu", [8#64, (s.version.setWidth 8).setWidth 64, 2#64, 0#64, 8#64], s)
    C.rtr_send_reset_query w s =
      if xret (w.ext w.n) = 0#32 then some (0#32, s, xrecs w [sent])
      else some (4294967295#32, (w.ext (w.n + 1)).st, xrecs w [sent, ("rtr_change_socket_state", [8#64], s)]) := by
  intro sent
  rw [rtr_send_reset_query_eq]; unfold resetQuerySpec
  by_cases h : xret (w.ext w.n) = 0#32
  · simp only [xans_eq, h, ne_eq, not_true_eq_false, ↓reduceIte]; rfl
  · simp only [xans_eq, h, ne_eq, not_false_eq_true, ↓reduceIte]; xw_norm <;> rfl

/-! ## rtr_handle_cache_response_pdu (C05) -/

/-- the session id of a Cache Response: the 16-bit field at offset 2 (host order), widened -/
def crSession (mem : Nat → BitVec 8) (pdu : Nat) : BitVec 32 := (C.load16 mem (pdu + 2)).setWidth 32

/-- no session yet: adopt the PDU's session (and mark the socket as resetting if it holds data); otherwise the PDU's
    session must be the socket's - if not: Error Report (no encapsulated PDU, CORRUPT_DATA), ERROR_FATAL, RTR_ERROR.
    Defined iff the session field lies inside the object. -/
def cacheResponseSpec (w : XW) (mem : Nat → BitVec 8) (msize : Nat) (s : Sock) (pdu : Nat) : Res :=
  if pdu + 4 ≤ msize then
    if s.request_session_id = true then
      some (0#32, { s with session_id := crSession mem pdu,
                           is_resetting := if s.last_update ≠ 0#64 then true else s.is_resetting }, w)
    else if s.session_id ≠ crSession mem pdu then
      let w1 := xrec w "rtr_send_error_pdu_from_host" [0#64, 0#64] s
      some (4294967295#32, (xans w1).st, xrec w1 "rtr_change_socket_state" [7#64] s)
    else some (0#32, s, w)
  else none

theorem rtr_handle_cache_response_pdu_eq (w : XW) (mem : Nat → BitVec 8) (msize : Nat) (s : Sock) (pdu : Nat) :
    C.rtr_handle_cache_response_pdu w mem msize s pdu = cacheResponseSpec w mem msize s pdu := by
  unfold C.rtr_handle_cache_response_pdu cacheResponseSpec crSession
  c_norm []
  by_cases hd : pdu + 4 ≤ msize
  · simp only [hd, ↓reduceIte] <;> ifs_agree
  · simp only [hd, ↓reduceIte] <;> ifs_agree

theorem cache_response_undefined_iff (w : XW) (mem : Nat → BitVec 8) (msize : Nat) (s : Sock) (pdu : Nat) :
    C.rtr_handle_cache_response_pdu w mem msize s pdu = none ↔ ¬ pdu + 4 ≤ msize := by
  rw [rtr_handle_cache_response_pdu_eq]; unfold cacheResponseSpec
  by_cases hd : pdu + 4 ≤ msize
  · simp only [hd, ↓reduceIte, not_true_eq_false, iff_false]
    split
    · exact Option.some_ne_none _
    · split <;> exact Option.some_ne_none _
  · simp only [hd, ↓reduceIte, not_false_eq_true]

/-- no session yet: the socket adopts the PDU's session; it is marked as resetting iff it holds data; no call is made -/
theorem cache_response_adopts_session (w : XW) (mem : Nat → BitVec 8) (msize : Nat) (s : Sock) (pdu : Nat)
    (hd : pdu + 4 ≤ msize) (hr : s.request_session_id = true) :
    C.rtr_handle_cache_response_pdu w mem msize s pdu =
      some (0#32, { s with session_id := (C.load16 mem (pdu + 2)).setWidth 32,
                           is_resetting := if s.last_update ≠ 0#64 then true else s.is_resetting }, w) := by
  rw [rtr_handle_cache_response_pdu_eq]; unfold cacheResponseSpec crSession
  simp only [hd, hr, ↓reduceIte]

/-- a Cache Response of a foreign session is refused: Error Report without encapsulated PDU (recorded arguments: length 0,
    code CORRUPT_DATA), state ERROR_FATAL, RTR_ERROR - and the socket handed on still carries its own session -/
theorem cache_response_foreign_session (w : XW) (mem : Nat → BitVec 8) (msize : Nat) (s : Sock) (pdu : Nat)
    (hd : pdu + 4 ≤ msize) (hr : s.request_session_id = false) (hs : s.session_id ≠ (C.load16 mem (pdu + 2)).setWidth 32) :
    C.rtr_handle_cache_response_pdu w mem msize s pdu =
      some (4294967295#32, (w.ext (w.n + 1)).st,
        xrecs w [("rtr_send_error_pdu_from_host", [0#64, 0#64], s), ("rtr_change_socket_state", [7#64], s)]) := by
  rw [rtr_handle_cache_response_pdu_eq]; unfold cacheResponseSpec crSession
  simp only [hd, hr, hs, ↓reduceIte, ne_eq, not_false_eq_true, Bool.false_eq_true]; xw_norm

/-- a Cache Response of the established session: success, nothing changes, no call -/
theorem cache_response_same_session (w : XW) (mem : Nat → BitVec 8) (msize : Nat) (s : Sock) (pdu : Nat)
    (hd : pdu + 4 ≤ msize) (hr : s.request_session_id = false) (hs : s.session_id = (C.load16 mem (pdu + 2)).setWidth 32) :
    C.rtr_handle_cache_response_pdu w mem msize s pdu = some (0#32, s, w) := by
  rw [rtr_handle_cache_response_pdu_eq]; unfold cacheResponseSpec crSession
  simp only [hd, hr, hs, ↓reduceIte, ne_eq, not_true_eq_false, Bool.false_eq_true]

/-! ## rtr_handle_error_pdu (C13, C04) -/

/-- the length of the encapsulated PDU as `rtr_handle_error_pdu` finds it at offset 8 (host order) -/
def errLenEnc (mem : Nat → BitVec 8) (pdu : Nat) : Nat := (C.load32 mem (pdu + 8)).toNat

/-- the byte ranges (offset, width) `rtr_handle_error_pdu` reads: version, error code, length, length of the encapsulated
    PDU, and - behind the encapsulated PDU - the length of the error text -/
def errorPduReads (mem : Nat → BitVec 8) (pdu : Nat) : List (Nat × Nat) :=
  [(pdu, 1), (pdu + 2, 2), (pdu + 4, 4), (pdu + 8, 4), (pdu + 12 + errLenEnc mem pdu, 4)]

/-- an UNSUPPORTED_PROTOCOL_VER report that carries a supported version (≤ 1) below the socket's -/
def errorPduDowngrades (mem : Nat → BitVec 8) (pdu : Nat) (s : Sock) : Prop :=
  C.load16 mem (pdu + 2) = 4#16 ∧ (mem pdu).toNat ≤ 1 ∧ (mem pdu).toNat < s.version.toNat

instance (mem : Nat → BitVec 8) (pdu : Nat) (s : Sock) : Decidable (errorPduDowngrades mem pdu s) := by
  unfold errorPduDowngrades; exact inferInstance

/-- the state the error code leads to: FAST_RECONNECT for a downgrade, ERROR_NO_DATA_AVAIL for NO_DATA_AVAIL, else ERROR_FATAL -/
def errorPduState (mem : Nat → BitVec 8) (pdu : Nat) (s : Sock) : BitVec 64 :=
  if errorPduDowngrades mem pdu s then 4#64 else if C.load16 mem (pdu + 2) = 2#16 then 5#64 else 7#64

/-- one call: the state change the error code asks for, on the socket with the version possibly lowered; RTR_SUCCESS.
    Defined iff the text-length field behind the encapsulated PDU lies inside the object. -/
def errorPduSpec (w : XW) (mem : Nat → BitVec 8) (msize : Nat) (s : Sock) (pdu : Nat) : Res :=
  if pdu + 12 + errLenEnc mem pdu + 4 ≤ msize then
    let s1 : Sock := if errorPduDowngrades mem pdu s then { s with version := (mem pdu).setWidth 32 } else s
    some (0#32, (xans w).st, xrec w "rtr_change_socket_state" [errorPduState mem pdu s] s1)
  else none

theorem rtr_handle_error_pdu_eq (w : XW) (mem : Nat → BitVec 8) (msize : Nat) (s : Sock) (pdu : Nat) :
    C.rtr_handle_error_pdu w mem msize s pdu = errorPduSpec w mem msize s pdu := by
  unfold C.rtr_handle_error_pdu errorPduSpec errorPduState errorPduDowngrades errLenEnc
  c_norm [sle_zext8_lit _ 1 (by decide), sle_lit_zext8 _ 0 (by decide), BitVec.ult_eq_decide, zext8_toNat, Nat.zero_le,
    and_true, true_and]
  by_cases hd : pdu + 12 + (C.load32 mem (pdu + 8)).toNat + 4 ≤ msize
  · simp only [hd, ↓reduceIte] <;> ifs_agree
  · simp only [hd, ↓reduceIte] <;> ifs_agree

/-- (C13) an Unsupported-Version report with a supported lower version: `version` := the PDU's version byte, state
    FAST_RECONNECT (the socket handed to rtr_change_socket_state already carries the lowered version) -/
theorem error_pdu_downgrade (w : XW) (mem : Nat → BitVec 8) (msize : Nat) (s : Sock) (pdu : Nat)
    (hd : pdu + 12 + errLenEnc mem pdu + 4 ≤ msize)
    (hcode : C.load16 mem (pdu + 2) = 4#16) (hsup : (mem pdu).toNat ≤ 1) (hlow : (mem pdu).toNat < s.version.toNat) :
    C.rtr_handle_error_pdu w mem msize s pdu =
      some (0#32, (w.ext w.n).st,
        xrecs w [("rtr_change_socket_state", [4#64], { s with version := (mem pdu).setWidth 32 })]) := by
  rw [rtr_handle_error_pdu_eq]; unfold errorPduSpec errorPduState
  have h : errorPduDowngrades mem pdu s := ⟨hcode, hsup, hlow⟩
  simp only [hd, h, ↓reduceIte]; rfl

/-- (C13) every other error report leaves `version` alone: ERROR_NO_DATA_AVAIL for code NO_DATA_AVAIL, else ERROR_FATAL -/
theorem error_pdu_no_downgrade (w : XW) (mem : Nat → BitVec 8) (msize : Nat) (s : Sock) (pdu : Nat)
    (hd : pdu + 12 + errLenEnc mem pdu + 4 ≤ msize) (h : ¬ errorPduDowngrades mem pdu s) :
    C.rtr_handle_error_pdu w mem msize s pdu =
      some (0#32, (w.ext w.n).st,
        xrecs w [("rtr_change_socket_state", [if C.load16 mem (pdu + 2) = 2#16 then 5#64 else 7#64], s)]) := by
  rw [rtr_handle_error_pdu_eq]; unfold errorPduSpec errorPduState
  simp only [hd, h, ↓reduceIte]; rfl

/-- (C13) `version` never increases: the one call rtr_handle_error_pdu makes is handed a socket whose version is at
    most the version it was given -/
theorem error_pdu_version_le (w : XW) (mem : Nat → BitVec 8) (msize : Nat) (s : Sock) (pdu : Nat) (r : BitVec 32)
    (s' : Sock) (w' : XW) (h : C.rtr_handle_error_pdu w mem msize s pdu = some (r, s', w')) :
    ∃ st s1, w' = xrecs w [("rtr_change_socket_state", [st], s1)] ∧ s1.version.toNat ≤ s.version.toNat ∧
      { s1 with version := s.version } = s := by
  rw [rtr_handle_error_pdu_eq] at h; unfold errorPduSpec at h
  by_cases hd : pdu + 12 + errLenEnc mem pdu + 4 ≤ msize
  · simp only [hd, ↓reduceIte, Option.some.injEq, Prod.mk.injEq] at h
    obtain ⟨_, _, hw⟩ := h
    by_cases hdg : errorPduDowngrades mem pdu s
    · simp only [hdg, ↓reduceIte] at hw
      refine ⟨_, _, hw.symm, ?_, rfl⟩
      have := hdg.2.2
      show (BitVec.setWidth 32 (mem pdu)).toNat ≤ s.version.toNat
      rw [zext8_toNat]; omega
    · simp only [hdg, ↓reduceIte] at hw
      exact ⟨_, _, hw.symm, Nat.le_refl _, rfl⟩
  · simp only [hd, ↓reduceIte] at h; cases h

/-- (C04) rtr_handle_error_pdu relies on the size check made before it is called: the C text has a defined result exactly
    when every range it reads lies inside the object, i.e. exactly when the object reaches 4 bytes beyond the
    encapsulated PDU whose length is read at offset 8 (`rtr_pdu_check_size` + footer conversion guarantee this for every
    PDU they let through; without them the function reads outside the PDU) -/
theorem error_pdu_reads_in_bounds (w : XW) (mem : Nat → BitVec 8) (msize : Nat) (s : Sock) (pdu : Nat) :
    (C.rtr_handle_error_pdu w mem msize s pdu ≠ none ↔ pdu + 12 + errLenEnc mem pdu + 4 ≤ msize) ∧
    (pdu + 12 + errLenEnc mem pdu + 4 ≤ msize ↔ ∀ r ∈ errorPduReads mem pdu, r.1 + r.2 ≤ msize) ∧
    (pdu + 12 + errLenEnc mem pdu + 4 ≤ msize ↔ 12 + errLenEnc mem pdu + 4 ≤ msize - pdu) := by
  refine ⟨?_, ?_, by omega⟩
  · rw [rtr_handle_error_pdu_eq]; unfold errorPduSpec
    by_cases hd : pdu + 12 + errLenEnc mem pdu + 4 ≤ msize
    · simp only [hd, ↓reduceIte, iff_true]; exact Option.some_ne_none _
    · simp only [hd, ↓reduceIte, ne_eq, not_true_eq_false]
  · unfold errorPduReads
    simp only [List.mem_cons, List.mem_nil_iff, or_false]
    constructor
    · rintro h r (rfl | rfl | rfl | rfl | rfl) <;> simp only <;> omega
    · intro h; exact h _ (Or.inr (Or.inr (Or.inr (Or.inr rfl))))

theorem error_pdu_undefined_iff (w : XW) (mem : Nat → BitVec 8) (msize : Nat) (s : Sock) (pdu : Nat) :
    C.rtr_handle_error_pdu w mem msize s pdu = none ↔ ¬ pdu + 12 + errLenEnc mem pdu + 4 ≤ msize := by
  rw [← (error_pdu_reads_in_bounds w mem msize s pdu).1]; exact Decidable.not_not.symm

/-- what the result depends on: the version byte, the error code and the length of the encapsulated PDU (the length field
    and the text length are read for the debug message only) -/
theorem error_pdu_depends_on (w : XW) (mem mem' : Nat → BitVec 8) (msize : Nat) (s : Sock) (pdu : Nat)
    (h0 : mem pdu = mem' pdu) (h2 : C.load16 mem (pdu + 2) = C.load16 mem' (pdu + 2))
    (h8 : C.load32 mem (pdu + 8) = C.load32 mem' (pdu + 8)) :
    C.rtr_handle_error_pdu w mem msize s pdu = C.rtr_handle_error_pdu w mem' msize s pdu := by
  rw [rtr_handle_error_pdu_eq, rtr_handle_error_pdu_eq]
  unfold errorPduSpec errorPduState errorPduDowngrades errLenEnc
  simp only [h0, h2, h8]

/-! ## rtr_wait_for_sync (C17) -/

/-- no signed overflow in `(last_update + refresh_interval) - now` (all `time_t`, i.e. signed 64 bit; the refresh interval
    is an unsigned 32-bit value): this is exactly what the guards of the generated definition say -/
def waitDefined (s : Sock) (now : BitVec 64) : Prop :=
  s.last_update.toInt + s.refresh_interval.toNat < 2 ^ 63 ∧
  -(2 ^ 63) ≤ s.last_update.toInt + s.refresh_interval.toNat - now.toInt ∧
  s.last_update.toInt + s.refresh_interval.toNat - now.toInt < 2 ^ 63

instance (s : Sock) (now : BitVec 64) : Decidable (waitDefined s now) := by unfold waitDefined; exact inferInstance

/-- the timeout: the time left until `last_update + refresh_interval` as a SIGNED 64-bit number, but not below 0 -/
def waitTimeout (s : Sock) (now : BitVec 64) : BitVec 64 :=
  let wait := s.last_update + s.refresh_interval.setWidth 64 - now
  if wait.slt 0#64 then 0#64 else wait

/-- the result of rtr_wait_for_sync from the return value of the receive and the type byte of what it received -/
def waitResult (rc : BitVec 32) (ty : BitVec 8) : BitVec 32 :=
  if BitVec.sle 0#32 rc then (if ty = 0#8 then 0#32 else 4294967295#32)
  else if rc = 4294967294#32 then 0#32 else 4294967295#32

/-- one clock reading, one receive (buffer size RTR_MAX_PDU_LEN, the timeout above) on the unchanged socket -/
def waitForSyncSpec (w : XW) (s : Sock) : Res :=
  let now := (xans w).aux
  let w1 := xrec w "lrtr_get_monotonic_time" [] s
  if waitDefined s now then
    let recv := xans w1
    some (waitResult (xret recv) (typeByte recv.buf), recv.st,
          xrec w1 "rtr_receive_pdu" [3248#64, waitTimeout s now] s)
  else none

/-- the guards of the generated definition (no signed overflow in the addition, none in the subtraction) say `waitDefined` -/
theorem waitDefined_eq_guards (s : Sock) (now : BitVec 64) :
    waitDefined s now =
      (BitVec.saddOverflow s.last_update (BitVec.setWidth 64 s.refresh_interval) = false ∧
       BitVec.ssubOverflow (s.last_update + (BitVec.setWidth 64 s.refresh_interval)) now = false) := by
  apply propext
  simp only [waitDefined, BitVec.saddOverflow, BitVec.ssubOverflow,
    Bool.or_eq_false_iff, decide_eq_false_iff_not, zext32_64_toInt]
  have h1 := s.refresh_interval.isLt
  have h2 := @BitVec.toInt_lt 64 s.last_update
  have h3 := @BitVec.le_toInt 64 s.last_update
  have key : s.last_update.toInt + s.refresh_interval.toNat < 2 ^ 63 →
      (s.last_update + BitVec.setWidth 64 s.refresh_interval).toInt = s.last_update.toInt + s.refresh_interval.toNat := by
    intro h
    rw [BitVec.toInt_add, zext32_64_toInt]; apply Int.bmod_eq_of_le <;> omega
  constructor
  · rintro ⟨ha, hb, hc⟩
    rw [key ha]
    omega
  · rintro ⟨⟨ha, hb⟩, hc⟩
    have hd : s.last_update.toInt + s.refresh_interval.toNat < 2 ^ 63 := by omega
    rw [key hd] at hc
    omega

theorem rtr_wait_for_sync_eq (w : XW) (s : Sock) : C.rtr_wait_for_sync w s = waitForSyncSpec w s := by
  unfold C.rtr_wait_for_sync waitForSyncSpec
  c_norm [get_pdu_type_buf, Nat.zero_add, Nat.reduceLeDiff, ↓reduceIte]
  simp only [waitDefined_eq_guards, waitTimeout, waitResult, typeByte, apply_ite some, apply_ite (Prod.mk _),
    apply_ite (fun x => Prod.mk x _), apply_ite (fun x => xrec _ _ [_, x] _)]
  c_norm []
  all_goals ifs_agree

/-- under the no-overflow condition the timeout is the mathematical `max 0 (last_update + refresh_interval − now)` -/
theorem waitTimeout_toInt (s : Sock) (now : BitVec 64) (h : waitDefined s now) :
    (waitTimeout s now).toInt = max 0 (s.last_update.toInt + (s.refresh_interval.toNat : Int) - now.toInt) := by
  obtain ⟨ha, hb, hc⟩ := h
  have h1 := s.refresh_interval.isLt
  have h3 := @BitVec.le_toInt 64 s.last_update
  have e1 : (s.last_update + BitVec.setWidth 64 s.refresh_interval).toInt = s.last_update.toInt + s.refresh_interval.toNat := by
    rw [BitVec.toInt_add, zext32_64_toInt]; apply Int.bmod_eq_of_le <;> omega
  have e2 : (s.last_update + BitVec.setWidth 64 s.refresh_interval - now).toInt =
      s.last_update.toInt + s.refresh_interval.toNat - now.toInt := by
    rw [BitVec.toInt_sub, e1]; apply Int.bmod_eq_of_le <;> omega
  unfold waitTimeout
  simp only [BitVec.slt, e2, BitVec.toInt_zero, decide_eq_true_eq]
  split
  · rw [BitVec.toInt_zero]; omega
  · rw [e2]; omega

/-- (C17) rtr_wait_for_sync reads the clock once and then receives once, on the unchanged socket, into a buffer of
    RTR_MAX_PDU_LEN bytes, with the timeout `max 0 (last_update + refresh_interval − now)` (as a signed number: a deadline
    that has passed gives 0, not a huge unsigned wait) - whenever that sum and difference do not overflow `time_t` -/
theorem wait_for_sync_timeout (w : XW) (s : Sock) (hdef : waitDefined s (w.ext w.n).aux) :
    ∃ r t, C.rtr_wait_for_sync w s = some (r, (w.ext (w.n + 1)).st,
        xrecs w [("lrtr_get_monotonic_time", [], s), ("rtr_receive_pdu", [3248#64, t], s)]) ∧
      t.toInt = max 0 (s.last_update.toInt + (s.refresh_interval.toNat : Int) - (w.ext w.n).aux.toInt) := by
  refine ⟨waitResult (xret (w.ext (w.n + 1))) (typeByte (w.ext (w.n + 1)).buf), waitTimeout s (w.ext w.n).aux, ?_,
    waitTimeout_toInt s _ hdef⟩
  rw [rtr_wait_for_sync_eq]; unfold waitForSyncSpec
  simp only [xans_eq, hdef, ↓reduceIte]; xw_norm <;> rfl

/-- the C text has no defined result exactly when `(last_update + refresh_interval) - now` overflows -/
theorem wait_for_sync_undefined_iff (w : XW) (s : Sock) :
    C.rtr_wait_for_sync w s = none ↔ ¬ waitDefined s (w.ext w.n).aux := by
  rw [rtr_wait_for_sync_eq]; unfold waitForSyncSpec
  by_cases hd : waitDefined s (w.ext w.n).aux
  · simp only [xans_eq, hd, ↓reduceIte, not_true_eq_false, iff_false]; exact Option.some_ne_none _
  · simp only [xans_eq, hd, ↓reduceIte, not_false_eq_true]

/-- (C17) the result: RTR_SUCCESS exactly when the receive succeeded (≥ 0) with a Serial Notify, or timed out
    (TR_WOULDBLOCK: the refresh interval is over); otherwise RTR_ERROR; the socket is as the receive left it -/
theorem wait_for_sync_result (w : XW) (s : Sock) (hdef : waitDefined s (w.ext w.n).aux) :
    let recv := w.ext (w.n + 1)
    ∃ r w', C.rtr_wait_for_sync w s = some (r, recv.st, w') ∧ w'.n = w.n + 2 ∧
      (r = 0#32 ∨ r = 4294967295#32) ∧
      (r = 0#32 ↔ (0 ≤ (xret recv).toInt ∧ typeByte recv.buf = 0#8) ∨ (xret recv).toInt = -2) := by
  intro recv
  have hnum : ∀ x : BitVec 32, (x = 4294967294#32 ↔ x.toInt = -2) := by
    intro x; rw [← BitVec.toInt_inj]; exact Iff.rfl
  have hsle : ∀ x : BitVec 32, (BitVec.sle 0#32 x = true ↔ 0 ≤ x.toInt) := by
    intro x; simp only [BitVec.sle, BitVec.toInt_zero, decide_eq_true_eq]
  refine ⟨waitResult (xret recv) (typeByte recv.buf),
    xrecs w [("lrtr_get_monotonic_time", [], s), ("rtr_receive_pdu", [3248#64, waitTimeout s (w.ext w.n).aux], s)], ?_, ?_, ?_, ?_⟩
  · rw [rtr_wait_for_sync_eq]; unfold waitForSyncSpec
    simp only [xans_eq, hdef, ↓reduceIte]; xw_norm <;> rfl
  · rfl
  · unfold waitResult; split <;> split <;> simp
  · unfold waitResult
    rw [← hnum, ← hsle]
    by_cases h1 : BitVec.sle 0#32 (xret recv) = true
    · have h2 : xret recv ≠ 4294967294#32 := by
        intro h; rw [h] at h1; exact absurd h1 (by decide)
      by_cases h3 : typeByte recv.buf = 0#8 <;> simp [h1, h2, h3]
    · by_cases h2 : xret recv = 4294967294#32 <;> simp [h1, h2]

/-! ## rtr_sync (C13, C05, C07) -/

private theorem ult_zero_eq (v : BitVec 32) : (BitVec.ult 0#32 v = true) = (v ≠ 0#32) := by
  apply propext
  rw [BitVec.ult_eq_decide, decide_eq_true_iff, ne_eq, ← BitVec.toNat_inj]
  simp only [BitVec.toNat_ofNat, Nat.zero_mod]; omega

/-- what one pass through the `do … while (type == SERIAL_NOTIFY)` loop of rtr_sync and the code behind it yield -/
inductive SyncRound where
  /-- a Serial Notify was received and skipped: receive again, with this socket and world -/
  | again (s : Sock) (w : XW)
  /-- rtr_sync returns -/
  | done (r : BitVec 32) (s : Sock) (w : XW)

/-- rtr_sync returns (value, socket, world) -/
def SyncRound.ofResult (r : BitVec 32 × Sock × XW) : SyncRound := .done r.1 r.2.1 r.2.2

/-- after a Cache Response: check it; receive and store the payload; only then clear `request_session_id`; only then set
    `last_update`; each step only if the one before did not fail, and RTR_SUCCESS only at the end -/
def syncCacheResponse (s : Sock) (w : XW) : BitVec 32 × Sock × XW :=
  let check := xans w
  let w1 := xrec w "rtr_handle_cache_response_pdu" [] s
  if xret check = 4294967295#32 then (4294967295#32, check.st, w1) else
  let store := xans w1
  let w2 := xrec w1 "rtr_sync_receive_and_store_pdus" [] check.st
  if xret store = 4294967295#32 then (4294967295#32, store.st, w2) else
  let s3 : Sock := { store.st with request_session_id := false }
  let stamp := xans w2
  let w3 := xrec w2 "rtr_set_last_update" [] s3
  if xret stamp = 4294967295#32 then (4294967295#32, stamp.st, w3) else (0#32, stamp.st, w3)

/-- the `switch (type)` behind the loop (`ty` is not Serial Notify): ERROR → rtr_handle_error_pdu, CACHE_RESET → state
    ERROR_NO_INCR_UPDATE_AVAIL, CACHE_RESPONSE → the path above, anything else → Error Report (header only, CORRUPT_DATA) -/
def syncDispatch (ty : BitVec 8) (s : Sock) (w : XW) : BitVec 32 × Sock × XW :=
  if ty = 10#8 then (4294967295#32, (xans w).st, xrec w "rtr_handle_error_pdu" [] s)
  else if ty = 8#8 then (4294967295#32, (xans w).st, xrec w "rtr_change_socket_state" [6#64] s)
  else if ty = 3#8 then syncCacheResponse s w
  else (4294967295#32, s, xrec w "rtr_send_error_pdu_from_host" [8#64, 0#64] s)

/-- one round: cancellation enabled, receive (RTR_MAX_PDU_LEN bytes, RTR_RECV_TIMEOUT), cancellation disabled; then
    TR_CLOSED before any session and version > 0 → downgrade; TR_WOULDBLOCK → ERROR_TRANSPORT; other failures → RTR_ERROR;
    Serial Notify → again; else the dispatch on the PDU type -/
def syncRound (w : XW) (s : Sock) : SyncRound :=
  let w1 := xrec w "pthread_setcancelstate" [0#64] s
  let recv := xans w1
  let w2 := xrec w1 "rtr_receive_pdu" [3248#64, 60#64] s
  let s1 := recv.st
  let w3 := xrec w2 "pthread_setcancelstate" [1#64] s1
  let rc := xret recv
  if (rc = 4294967292#32 ∧ s1.request_session_id = true) ∧ s1.version ≠ 0#32 then
    .done 4294967295#32 (xans w3).st (xrec w3 "rtr_change_socket_state" [4#64] { s1 with version := s1.version - 1#32 })
  else if rc = 4294967294#32 then
    .done 4294967295#32 (xans w3).st (xrec w3 "rtr_change_socket_state" [8#64] s1)
  else if BitVec.slt rc 0#32 = true then .done 4294967295#32 s1 w3
  else if typeByte recv.buf = 0#8 then .again s1 w3
  else .ofResult (syncDispatch (typeByte recv.buf) s1 w3)

/-- after a round: return its result, or go `again` -/
def SyncRound.andThen (r : SyncRound) (again : Sock → XW → Res) : Res :=
  match r with
  | .done r s w => some (r, s, w)
  | .again s w => again s w

theorem SyncRound.andThen_ite (c : Prop) [Decidable c] (a b : SyncRound) (k : Sock → XW → Res) :
    (if c then a else b).andThen k = if c then a.andThen k else b.andThen k := by split <;> rfl
theorem SyncRound.andThen_done (r : BitVec 32) (s : Sock) (w : XW) (k : Sock → XW → Res) :
    (SyncRound.done r s w).andThen k = some (r, s, w) := rfl
theorem SyncRound.andThen_again (s : Sock) (w : XW) (k : Sock → XW → Res) :
    (SyncRound.again s w).andThen k = k s w := rfl

/-- rtr_sync with `fuel` rounds -/
def syncSpec : Nat → XW → Sock → Res
  | 0, _, _ => none
  | fuel + 1, w, s => (syncRound w s).andThen (fun s' w' => syncSpec fuel w' s')

/-- one round of the translated loop is `syncRound` (the receive buffer is the function's own object: its former
    content is irrelevant, every round overwrites it with what the receive left) -/
theorem rtr_sync_loop_succ (fuel : Nat) (w : XW) (mem : Nat → BitVec 8) (msize : Nat) (s : Sock) (hp : 0 + 2 ≤ msize) :
    C.rtr_sync.loop1 (fuel + 1) w mem msize 0 s =
      (syncRound w s).andThen (fun s' w' => C.rtr_sync.loop1 fuel w' (C.memOfBytes (w.ext (w.n + 1)).buf) msize 0 s') := by
  rw [C.rtr_sync.loop1]
  c_norm [get_pdu_type_some _ hp, ult_zero_eq]
  simp only [syncRound, syncDispatch, syncCacheResponse, SyncRound.ofResult, typeByte, Nat.zero_add, SyncRound.andThen_ite, SyncRound.andThen_done,
    SyncRound.andThen_again, apply_ite Prod.fst, apply_ite Prod.snd]
  c_norm []
  all_goals ifs_agree

theorem rtr_sync_loop_eq (fuel : Nat) (w : XW) (mem : Nat → BitVec 8) (msize : Nat) (s : Sock) (hp : 2 ≤ msize) :
    C.rtr_sync.loop1 fuel w mem msize 0 s = syncSpec fuel w s := by
  induction fuel generalizing w mem s with
  | zero => rfl
  | succ fuel ih =>
    rw [rtr_sync_loop_succ fuel w mem msize s (by omega), syncSpec]
    cases syncRound w s with
    | done r s' w' => rfl
    | again s' w' => exact ih w' _ s'

theorem rtr_sync_eq (w : XW) (s : Sock) : C.rtr_sync w s = syncSpec C.FUEL w s := by
  unfold C.rtr_sync
  exact rtr_sync_loop_eq _ w _ 3248 s (by decide)


/-! ### the rounds of rtr_sync -/

/-- socket and world after `k` rounds each of which received and skipped a Serial Notify -/
def afterNotifies : Nat → XW → Sock → Option (Sock × XW)
  | 0, w, s => some (s, w)
  | k + 1, w, s =>
    match syncRound w s with
    | .again s' w' => afterNotifies k w' s'
    | .done _ _ _ => none

/-- rtr_sync with `fuel` rounds returns what the first round that does not skip a Serial Notify returns -/
theorem syncSpec_eq_some_iff (fuel : Nat) (w : XW) (s : Sock) (r : BitVec 32) (s' : Sock) (w' : XW) :
    syncSpec fuel w s = some (r, s', w') ↔
      ∃ k sk wk, k < fuel ∧ afterNotifies k w s = some (sk, wk) ∧ syncRound wk sk = .done r s' w' := by
  induction fuel generalizing w s with
  | zero =>
    simp only [syncSpec, Nat.not_lt_zero, false_and, exists_false, iff_false]
    exact fun h => by cases h
  | succ fuel ih =>
    rw [syncSpec]
    cases hR : syncRound w s with
    | done r0 s0 w0 =>
      rw [SyncRound.andThen_done]
      constructor
      · intro h
        simp only [Option.some.injEq, Prod.mk.injEq] at h
        obtain ⟨rfl, rfl, rfl⟩ := h
        exact ⟨0, s, w, Nat.succ_pos _, rfl, hR⟩
      · rintro ⟨k, sk, wk, _, hs, hd⟩
        cases k with
        | zero =>
          simp only [afterNotifies, Option.some.injEq, Prod.mk.injEq] at hs
          obtain ⟨rfl, rfl⟩ := hs
          rw [hR] at hd
          simp only [SyncRound.done.injEq] at hd
          obtain ⟨rfl, rfl, rfl⟩ := hd
          rfl
        | succ k => simp only [afterNotifies, hR] at hs; cases hs
    | again s1 w1 =>
      rw [SyncRound.andThen_again, ih]
      constructor
      · rintro ⟨k, sk, wk, hk, hs, hd⟩
        refine ⟨k + 1, sk, wk, Nat.succ_lt_succ hk, ?_, hd⟩
        simp only [afterNotifies, hR]; exact hs
      · rintro ⟨k, sk, wk, hk, hs, hd⟩
        cases k with
        | zero =>
          simp only [afterNotifies, Option.some.injEq, Prod.mk.injEq] at hs
          obtain ⟨rfl, rfl⟩ := hs
          rw [hR] at hd; cases hd
        | succ k =>
          simp only [afterNotifies, hR] at hs
          exact ⟨k, sk, wk, Nat.lt_of_succ_lt_succ hk, hs, hd⟩

theorem syncSpec_eq_none_iff (fuel : Nat) (w : XW) (s : Sock) :
    syncSpec fuel w s = none ↔ ∃ p, afterNotifies fuel w s = some p := by
  induction fuel generalizing w s with
  | zero => simp only [syncSpec, afterNotifies, true_iff]; exact ⟨_, rfl⟩
  | succ fuel ih =>
    rw [syncSpec]
    cases hR : syncRound w s with
    | done r0 s0 w0 =>
      simp only [SyncRound.andThen_done, afterNotifies, hR, reduceCtorEq, exists_false]
    | again s1 w1 =>
      simp only [SyncRound.andThen_again, afterNotifies, hR]; exact ih w1 s1

/-- rtr_sync returns what the first round that does not skip a Serial Notify returns -/
theorem rtr_sync_eq_some_iff (w : XW) (s : Sock) (r : BitVec 32) (s' : Sock) (w' : XW) :
    C.rtr_sync w s = some (r, s', w') ↔
      ∃ k sk wk, k < C.FUEL ∧ afterNotifies k w s = some (sk, wk) ∧ syncRound wk sk = .done r s' w' := by
  rw [rtr_sync_eq, syncSpec_eq_some_iff]

/-- for every number `k` of leading Serial Notify answers (below the fuel 2^64 + 1): rtr_sync returns what round `k` returns -/
theorem sync_after_notifies (w : XW) (s : Sock) (k : Nat) (sk : Sock) (wk : XW) (r : BitVec 32) (s' : Sock) (w' : XW)
    (hk : k < C.FUEL) (hskip : afterNotifies k w s = some (sk, wk)) (hdone : syncRound wk sk = .done r s' w') :
    C.rtr_sync w s = some (r, s', w') :=
  (rtr_sync_eq_some_iff w s r s' w').mpr ⟨k, sk, wk, hk, hskip, hdone⟩

/-- EXACT definedness of rtr_sync: it has no result only if the cache answers 2^64 + 1 receives in a row with a Serial
    Notify (the C loop does not terminate on a cache that sends nothing else; no access is out of bounds, nothing overflows) -/
theorem rtr_sync_undefined_iff (w : XW) (s : Sock) :
    C.rtr_sync w s = none ↔ ∃ p, afterNotifies C.FUEL w s = some p := by
  rw [rtr_sync_eq, syncSpec_eq_none_iff]

/-- the three calls every round makes: cancellation on, receive, cancellation off (the last one already with the socket
    as the receive left it) -/
def roundCalls (w : XW) (s : Sock) : List Call :=
  [("pthread_setcancelstate", [0#64], s), ("rtr_receive_pdu", [3248#64, 60#64], s),
   ("pthread_setcancelstate", [1#64], (w.ext (w.n + 1)).st)]

private theorem rc_nonneg_facts (x : BitVec 32) (h : 0 ≤ x.toInt) :
    x ≠ 4294967292#32 ∧ x ≠ 4294967294#32 ∧ ¬ (BitVec.slt x 0#32 = true) := by
  refine ⟨?_, ?_, ?_⟩
  · rintro rfl; revert h; decide
  · rintro rfl; revert h; decide
  · simp only [BitVec.slt, BitVec.toInt_zero, decide_eq_true_eq]; omega

/-- evaluate `syncRound` under the hypotheses given -/
local syntax "round_simp" "[" Lean.Parser.Tactic.simpLemma,* "]" (Lean.Parser.Tactic.location)? : tactic
local macro_rules
  | `(tactic| round_simp [$ls,*] $[$loc]?) =>
    `(tactic| simp only [syncRound, syncDispatch, syncCacheResponse, SyncRound.ofResult, roundCalls, xrec_eq_xrecs, xrecs_xrecs, xans_xrecs, xans_eq, xrecs_ext, xrecs_n,
        List.cons_append, List.nil_append, List.length_cons, List.length_nil, Nat.reduceAdd, Nat.zero_add, ne_eq,
        not_true_eq_false, not_false_eq_true, and_true, true_and, and_false, false_and, Bool.false_eq_true, BitVec.reduceEq, ↓reduceIte, $ls,*] $[$loc]?)

/-- (iii) a Serial Notify is skipped: nothing but the three calls of the round happens, and the loop receives again -/
theorem syncRound_notify (w : XW) (s : Sock) (hrc : 0 ≤ (xret (w.ext (w.n + 1))).toInt)
    (hty : typeByte (w.ext (w.n + 1)).buf = 0#8) :
    syncRound w s = .again (w.ext (w.n + 1)).st (xrecs w (roundCalls w s)) := by
  obtain ⟨h1, h2, h3⟩ := rc_nonneg_facts _ hrc
  round_simp [h1, h2, h3, hty]

/-- (iii) TR_WOULDBLOCK (nothing arrived within RTR_RECV_TIMEOUT): state ERROR_TRANSPORT, RTR_ERROR -/
theorem syncRound_wouldblock (w : XW) (s : Sock) (hrc : xret (w.ext (w.n + 1)) = 4294967294#32) :
    syncRound w s = .done 4294967295#32 (w.ext (w.n + 3)).st
      (xrecs w (roundCalls w s ++ [("rtr_change_socket_state", [8#64], (w.ext (w.n + 1)).st)])) := by
  have h1 : (4294967294#32 : BitVec 32) ≠ 4294967292#32 := by decide
  round_simp [hrc, h1]

/-- (iii) CACHE_RESET: state ERROR_NO_INCR_UPDATE_AVAIL, RTR_ERROR -/
theorem syncRound_cache_reset (w : XW) (s : Sock) (hrc : 0 ≤ (xret (w.ext (w.n + 1))).toInt)
    (hty : typeByte (w.ext (w.n + 1)).buf = 8#8) :
    syncRound w s = .done 4294967295#32 (w.ext (w.n + 3)).st
      (xrecs w (roundCalls w s ++ [("rtr_change_socket_state", [6#64], (w.ext (w.n + 1)).st)])) := by
  obtain ⟨h1, h2, h3⟩ := rc_nonneg_facts _ hrc
  have e0 : (8#8 : BitVec 8) ≠ 0#8 := by decide
  have e10 : (8#8 : BitVec 8) ≠ 10#8 := by decide
  round_simp [h1, h2, h3, hty, e0, e10]

/-- (iii) an Error Report: rtr_handle_error_pdu decides about the state; RTR_ERROR whatever it returns -/
theorem syncRound_error_pdu (w : XW) (s : Sock) (hrc : 0 ≤ (xret (w.ext (w.n + 1))).toInt)
    (hty : typeByte (w.ext (w.n + 1)).buf = 10#8) :
    syncRound w s = .done 4294967295#32 (w.ext (w.n + 3)).st
      (xrecs w (roundCalls w s ++ [("rtr_handle_error_pdu", [], (w.ext (w.n + 1)).st)])) := by
  obtain ⟨h1, h2, h3⟩ := rc_nonneg_facts _ hrc
  have e0 : (10#8 : BitVec 8) ≠ 0#8 := by decide
  round_simp [h1, h2, h3, hty, e0]

/-- (iii) any other PDU type: an Error Report with the 8 header bytes of the PDU and code CORRUPT_DATA; RTR_ERROR; the
    socket is not touched -/
theorem syncRound_unexpected (w : XW) (s : Sock) (hrc : 0 ≤ (xret (w.ext (w.n + 1))).toInt)
    (h0 : typeByte (w.ext (w.n + 1)).buf ≠ 0#8) (h3 : typeByte (w.ext (w.n + 1)).buf ≠ 3#8)
    (h8 : typeByte (w.ext (w.n + 1)).buf ≠ 8#8) (h10 : typeByte (w.ext (w.n + 1)).buf ≠ 10#8) :
    syncRound w s = .done 4294967295#32 (w.ext (w.n + 1)).st
      (xrecs w (roundCalls w s ++ [("rtr_send_error_pdu_from_host", [8#64, 0#64], (w.ext (w.n + 1)).st)])) := by
  obtain ⟨c1, c2, c3⟩ := rc_nonneg_facts _ hrc
  round_simp [c1, c2, c3, h0, h3, h8, h10]

/-- (iii) any other failure of the receive: RTR_ERROR, no further call (rtr_receive_pdu has set the state) -/
theorem syncRound_recv_failed (w : XW) (s : Sock) (hneg : (xret (w.ext (w.n + 1))).toInt < 0)
    (hnb : xret (w.ext (w.n + 1)) ≠ 4294967294#32)
    (hnd : ¬ (xret (w.ext (w.n + 1)) = 4294967292#32 ∧ (w.ext (w.n + 1)).st.request_session_id = true ∧
              (w.ext (w.n + 1)).st.version ≠ 0#32)) :
    syncRound w s = .done 4294967295#32 (w.ext (w.n + 1)).st (xrecs w (roundCalls w s)) := by
  have h3 : BitVec.slt (xret (w.ext (w.n + 1))) 0#32 = true := by
    simp only [BitVec.slt, BitVec.toInt_zero, decide_eq_true_eq]; exact hneg
  have hnd' : ¬ ((xret (w.ext (w.n + 1)) = 4294967292#32 ∧ (w.ext (w.n + 1)).st.request_session_id = true) ∧
              ¬ (w.ext (w.n + 1)).st.version = 0#32) := fun h => hnd ⟨h.1.1, h.1.2, h.2⟩
  round_simp [hnb, h3, hnd']

/-- (i) the cache hung up before any session existed and a lower version is left: version − 1, FAST_RECONNECT, RTR_ERROR -/
theorem syncRound_downgrade (w : XW) (s : Sock) (hclosed : xret (w.ext (w.n + 1)) = 4294967292#32)
    (hreq : (w.ext (w.n + 1)).st.request_session_id = true) (hver : (w.ext (w.n + 1)).st.version ≠ 0#32) :
    syncRound w s = .done 4294967295#32 (w.ext (w.n + 3)).st
      (xrecs w (roundCalls w s ++ [("rtr_change_socket_state", [4#64],
        { (w.ext (w.n + 1)).st with version := (w.ext (w.n + 1)).st.version - 1#32 })])) := by
  round_simp [hclosed, hreq, hver]

/-- (C13 i) `sync_downgrade`: after any number `k` of skipped Serial Notifies, a receive that returns TR_CLOSED while the
    socket still requests a session id and `version > 0` makes rtr_sync lower `version` by one, change the state to
    FAST_RECONNECT (the socket handed over already carries the lower version) and return RTR_ERROR -/
theorem sync_downgrade (w : XW) (s : Sock) (k : Nat) (sk : Sock) (wk : XW) (hk : k < C.FUEL)
    (hskip : afterNotifies k w s = some (sk, wk))
    (hclosed : xret (wk.ext (wk.n + 1)) = 4294967292#32)
    (hreq : (wk.ext (wk.n + 1)).st.request_session_id = true)
    (hver : (wk.ext (wk.n + 1)).st.version ≠ 0#32) :
    C.rtr_sync w s = some (4294967295#32, (wk.ext (wk.n + 3)).st,
      xrecs wk (roundCalls wk sk ++ [("rtr_change_socket_state", [4#64],
        { (wk.ext (wk.n + 1)).st with version := (wk.ext (wk.n + 1)).st.version - 1#32 })])) ∧
    ((wk.ext (wk.n + 1)).st.version - 1#32).toNat = (wk.ext (wk.n + 1)).st.version.toNat - 1 := by
  refine ⟨sync_after_notifies w s k sk wk _ _ _ hk hskip (syncRound_downgrade wk sk hclosed hreq hver), ?_⟩
  have h0 : (wk.ext (wk.n + 1)).st.version.toNat ≠ 0 := fun h => hver (BitVec.eq_of_toNat_eq h)
  have hlt := (wk.ext (wk.n + 1)).st.version.isLt
  rw [BitVec.toNat_sub]; simp only [BitVec.toNat_ofNat]; omega


/-! ### (C13 i, second half) rtr_sync changes `version` in no other situation -/

/-- a socket that rtr_sync hands to a callee carries a `version` rtr_sync was itself given - by its caller (`s`) or by a
    callee (`(ext i).st`) - or, only in the call `rtr_change_socket_state(FAST_RECONNECT)` after a receive that returned
    TR_CLOSED while a session id was still requested and the version was not 0, that version minus one -/
def VersionGiven (ext : Nat → C.ExtAns Sock) (s : Sock) (e : Call) : Prop :=
  e.2.2.version = s.version ∨ (∃ i, e.2.2.version = (ext i).st.version) ∨
  (e.1 = "rtr_change_socket_state" ∧ e.2.1 = [4#64] ∧
    ∃ i, xret (ext i) = 4294967292#32 ∧ (ext i).st.request_session_id = true ∧ (ext i).st.version ≠ 0#32 ∧
      e.2.2.version = (ext i).st.version - 1#32)

def SyncRound.world : SyncRound → XW
  | .again _ w => w
  | .done _ _ w => w
def SyncRound.sock : SyncRound → Sock
  | .again s _ => s
  | .done _ s _ => s

private theorem forall_mem_cons' {p : Call → Prop} {a : Call} {l : List Call} (ha : p a) (hl : ∀ e ∈ l, p e) : ∀ e ∈ a :: l, p e := by
  intro e he
  rcases List.mem_cons.mp he with rfl | h
  · exact ha
  · exact hl e h
private theorem forall_mem_nil' {p : Call → Prop} : ∀ e ∈ ([] : List Call), p e := fun _ h => nomatch h

private theorem ite_pred {α : Sort _} {P : α → Prop} {c : Prop} [Decidable c] {a b : α} (h1 : c → P a) (h2 : ¬c → P b) :
    P (if c then a else b) := by
  by_cases h : c
  · rw [if_pos h]; exact h1 h
  · rw [if_neg h]; exact h2 h

/-- what `syncRound_versions` says about a round -/
def RoundOk (w : XW) (s : Sock) (r : SyncRound) : Prop :=
  r.world.ext = w.ext ∧ (∃ i, r.sock = (w.ext i).st) ∧
  ∃ seg, r.world.trace = w.trace ++ seg ∧ ∀ e ∈ seg, VersionGiven w.ext s e

/-- every socket a round hands on carries a version it was given (or the downgrade), and the socket it ends with is one a
    callee left -/
theorem syncRound_versions (w : XW) (s : Sock) : RoundOk w s (syncRound w s) := by
  have given : ∀ (name : String) (args : List (BitVec 64)) (i : Nat), VersionGiven w.ext s (name, args, (w.ext i).st) :=
    fun _ _ i => Or.inr (Or.inl ⟨i, rfl⟩)
  have given' : ∀ (name : String) (args : List (BitVec 64)) (i : Nat),
      VersionGiven w.ext s (name, args, { (w.ext i).st with request_session_id := false }) :=
    fun _ _ i => Or.inr (Or.inl ⟨i, rfl⟩)
  have own : ∀ (name : String) (args : List (BitVec 64)), VersionGiven w.ext s (name, args, s) := fun _ _ => Or.inl rfl
  have fin : ∀ (r : SyncRound) (seg : List Call), (∃ i, r.sock = (w.ext i).st) → r.world = xrecs w seg →
      (∀ e ∈ seg, VersionGiven w.ext s e) → RoundOk w s r := by
    intro r seg h1 h2 h3
    unfold RoundOk; rw [h2]; exact ⟨rfl, h1, seg, rfl, h3⟩
  simp only [syncRound, syncDispatch, syncCacheResponse, xrec_eq_xrecs, xrecs_xrecs, xans_xrecs, xans_eq, xrecs_ext, xrecs_n,
    List.cons_append, List.nil_append, List.length_cons, List.length_nil, Nat.reduceAdd, Nat.zero_add]
  refine ite_pred (P := RoundOk w s) ?_ ?_ <;> intro c1
  · refine fin _ _ ⟨_, rfl⟩ rfl ?_
    refine forall_mem_cons' (own _ _) (forall_mem_cons' (own _ _) (forall_mem_cons' (given _ _ _) (forall_mem_cons' ?_ forall_mem_nil')))
    exact Or.inr (Or.inr ⟨rfl, rfl, w.n + 1, c1.1.1, c1.1.2, c1.2, rfl⟩)
  · repeat' (first
      | (refine ite_pred (P := RoundOk w s) ?_ ?_ <;> intro _)
      | (refine ite_pred (P := fun x => RoundOk w s (SyncRound.ofResult x)) ?_ ?_ <;> intro _))
    all_goals
      refine fin _ _ ⟨_, rfl⟩ rfl ?_
      repeat' (first | exact forall_mem_nil' | (refine forall_mem_cons' ?_ ?_))
      all_goals first | exact own _ _ | exact given _ _ _ | exact given' _ _ _


theorem VersionGiven.of_given {ext : Nat → C.ExtAns Sock} {s : Sock} {i : Nat} {e : Call}
    (h : VersionGiven ext (ext i).st e) : VersionGiven ext s e := by
  rcases h with h | h | h
  · exact Or.inr (Or.inl ⟨i, h⟩)
  · exact Or.inr (Or.inl h)
  · exact Or.inr (Or.inr h)

theorem syncSpec_versions (fuel : Nat) (w : XW) (s : Sock) (r : BitVec 32) (s' : Sock) (w' : XW)
    (h : syncSpec fuel w s = some (r, s', w')) :
    w'.ext = w.ext ∧ (∃ i, s' = (w.ext i).st) ∧ ∃ seg, w'.trace = w.trace ++ seg ∧ ∀ e ∈ seg, VersionGiven w.ext s e := by
  induction fuel generalizing w s with
  | zero => cases h
  | succ fuel ih =>
    rw [syncSpec] at h
    have hv := syncRound_versions w s
    cases hR : syncRound w s with
    | done r0 s0 w0 =>
      rw [hR] at h hv
      simp only [SyncRound.andThen_done, Option.some.injEq, Prod.mk.injEq] at h
      obtain ⟨rfl, rfl, rfl⟩ := h
      exact hv
    | again s1 w1 =>
      rw [hR] at h hv
      obtain ⟨hext, ⟨i, hs1⟩, seg1, htr1, hseg1⟩ := hv
      simp only [SyncRound.world, SyncRound.sock] at hext hs1 htr1
      obtain ⟨hext2, ⟨j, hs'⟩, seg2, htr2, hseg2⟩ := ih w1 s1 h
      rw [hext] at hext2 hs' hseg2
      refine ⟨hext2, ⟨j, hs'⟩, seg1 ++ seg2, by rw [htr2, htr1, List.append_assoc], ?_⟩
      intro e he
      rcases List.mem_append.mp he with he | he
      · exact hseg1 e he
      · have := hseg2 e he
        rw [hs1] at this
        exact this.of_given

/-- (C13 i, second half) `version` is changed by rtr_sync itself in no other situation: whatever rtr_sync returns, every
    call it made was handed a socket whose `version` is one rtr_sync was given (by its caller or by a callee) - except the
    call rtr_change_socket_state(FAST_RECONNECT) in the downgrade situation, which gets that version minus one; and the
    socket rtr_sync ends with is the one a callee left -/
theorem sync_version_only_downgrade (w : XW) (s : Sock) (r : BitVec 32) (s' : Sock) (w' : XW)
    (h : C.rtr_sync w s = some (r, s', w')) :
    w'.ext = w.ext ∧ (∃ i, s' = (w.ext i).st) ∧ ∃ seg, w'.trace = w.trace ++ seg ∧ ∀ e ∈ seg, VersionGiven w.ext s e := by
  rw [rtr_sync_eq] at h
  exact syncSpec_versions _ w s r s' w' h

/-! ### (C05, C07 ii) the only way to RTR_SUCCESS -/

/-- a round ends with RTR_SUCCESS only along: receive ≥ 0 with a Cache Response → rtr_handle_cache_response_pdu did not
    fail → rtr_sync_receive_and_store_pdus did not fail → `request_session_id := false` → rtr_set_last_update did not fail -/
theorem syncRound_success (w : XW) (s s' : Sock) (w' : XW) (h : syncRound w s = .done 0#32 s' w') :
    0 ≤ (xret (w.ext (w.n + 1))).toInt ∧ typeByte (w.ext (w.n + 1)).buf = 3#8 ∧
    xret (w.ext (w.n + 3)) ≠ 4294967295#32 ∧ xret (w.ext (w.n + 4)) ≠ 4294967295#32 ∧
    xret (w.ext (w.n + 5)) ≠ 4294967295#32 ∧ s' = (w.ext (w.n + 5)).st ∧
    w' = xrecs w (roundCalls w s ++
      [("rtr_handle_cache_response_pdu", [], (w.ext (w.n + 1)).st),
       ("rtr_sync_receive_and_store_pdus", [], (w.ext (w.n + 3)).st),
       ("rtr_set_last_update", [], { (w.ext (w.n + 4)).st with request_session_id := false })]) := by
  have ne : (4294967295#32 : BitVec 32) ≠ 0#32 := by decide
  have bad : ∀ {a : Sock} {b : XW}, SyncRound.done 4294967295#32 a b = SyncRound.done 0#32 s' w' → False := by
    intro a b hh; simp only [SyncRound.done.injEq] at hh; exact ne hh.1
  by_cases c1 : (xret (w.ext (w.n + 1)) = 4294967292#32 ∧ (w.ext (w.n + 1)).st.request_session_id = true) ∧
      ¬ (w.ext (w.n + 1)).st.version = 0#32
  · round_simp [c1] at h; exact (bad h).elim
  by_cases c2 : xret (w.ext (w.n + 1)) = 4294967294#32
  · round_simp [c1, c2] at h; exact (bad h).elim
  by_cases c3 : BitVec.slt (xret (w.ext (w.n + 1))) 0#32 = true
  · round_simp [c1, c2, c3] at h; exact (bad h).elim
  have hrc : 0 ≤ (xret (w.ext (w.n + 1))).toInt := by
    simp only [BitVec.slt, BitVec.toInt_zero, decide_eq_true_eq] at c3; omega
  by_cases t0 : typeByte (w.ext (w.n + 1)).buf = 0#8
  · round_simp [c1, c2, c3, t0] at h; cases h
  by_cases t10 : typeByte (w.ext (w.n + 1)).buf = 10#8
  · round_simp [c1, c2, c3, t0, t10] at h; exact (bad h).elim
  by_cases t8 : typeByte (w.ext (w.n + 1)).buf = 8#8
  · round_simp [c1, c2, c3, t0, t10, t8] at h; exact (bad h).elim
  by_cases t3 : typeByte (w.ext (w.n + 1)).buf = 3#8
  · by_cases r1 : xret (w.ext (w.n + 3)) = 4294967295#32
    · round_simp [c1, c2, c3, t0, t10, t8, t3, r1] at h; exact (bad h).elim
    by_cases r2 : xret (w.ext (w.n + 4)) = 4294967295#32
    · round_simp [c1, c2, c3, t0, t10, t8, t3, r1, r2] at h; exact (bad h).elim
    by_cases r3 : xret (w.ext (w.n + 5)) = 4294967295#32
    · round_simp [c1, c2, c3, t0, t10, t8, t3, r1, r2, r3] at h; exact (bad h).elim
    round_simp [c1, c2, c3, t0, t10, t8, t3, r1, r2, r3] at h
    simp only [SyncRound.done.injEq, true_and] at h
    refine ⟨hrc, t3, r1, r2, r3, h.1.symm, ?_⟩
    rw [← h.2]; round_simp []
  · round_simp [c1, c2, c3, t0, t10, t8, t3] at h; exact (bad h).elim

/-- (C05, C07 ii) `sync_success_order`: rtr_sync returns RTR_SUCCESS only if, after `k` skipped Serial Notifies, a receive
    succeeded with a CACHE_RESPONSE and then, IN THIS ORDER: rtr_handle_cache_response_pdu (on the socket as received) did
    not return RTR_ERROR; rtr_sync_receive_and_store_pdus (on the socket the former left: `request_session_id` is still what
    it was) did not return RTR_ERROR; `request_session_id` was cleared; rtr_set_last_update (on the socket the store left,
    with only `request_session_id` cleared) did not return RTR_ERROR - and these six calls are all the last round made -/
theorem sync_success_order (w : XW) (s s' : Sock) (w' : XW) (h : C.rtr_sync w s = some (0#32, s', w')) :
    ∃ k sk wk, k < C.FUEL ∧ afterNotifies k w s = some (sk, wk) ∧
      0 ≤ (xret (wk.ext (wk.n + 1))).toInt ∧ typeByte (wk.ext (wk.n + 1)).buf = 3#8 ∧
      xret (wk.ext (wk.n + 3)) ≠ 4294967295#32 ∧ xret (wk.ext (wk.n + 4)) ≠ 4294967295#32 ∧
      xret (wk.ext (wk.n + 5)) ≠ 4294967295#32 ∧ s' = (wk.ext (wk.n + 5)).st ∧
      w' = xrecs wk (roundCalls wk sk ++
        [("rtr_handle_cache_response_pdu", [], (wk.ext (wk.n + 1)).st),
         ("rtr_sync_receive_and_store_pdus", [], (wk.ext (wk.n + 3)).st),
         ("rtr_set_last_update", [], { (wk.ext (wk.n + 4)).st with request_session_id := false })]) := by
  obtain ⟨k, sk, wk, hk, hs, hd⟩ := (rtr_sync_eq_some_iff w s _ s' w').mp h
  exact ⟨k, sk, wk, hk, hs, syncRound_success wk sk s' w' hd⟩

/-- and conversely that path does end with RTR_SUCCESS -/
theorem syncRound_cache_response_ok (w : XW) (s : Sock) (hrc : 0 ≤ (xret (w.ext (w.n + 1))).toInt)
    (hty : typeByte (w.ext (w.n + 1)).buf = 3#8) (r1 : xret (w.ext (w.n + 3)) ≠ 4294967295#32)
    (r2 : xret (w.ext (w.n + 4)) ≠ 4294967295#32) (r3 : xret (w.ext (w.n + 5)) ≠ 4294967295#32) :
    syncRound w s = .done 0#32 (w.ext (w.n + 5)).st (xrecs w (roundCalls w s ++
      [("rtr_handle_cache_response_pdu", [], (w.ext (w.n + 1)).st),
       ("rtr_sync_receive_and_store_pdus", [], (w.ext (w.n + 3)).st),
       ("rtr_set_last_update", [], { (w.ext (w.n + 4)).st with request_session_id := false })])) := by
  obtain ⟨h1, h2, h3⟩ := rc_nonneg_facts _ hrc
  have e0 : (3#8 : BitVec 8) ≠ 0#8 := by decide
  have e10 : (3#8 : BitVec 8) ≠ 10#8 := by decide
  have e8 : (3#8 : BitVec 8) ≠ 8#8 := by decide
  round_simp [h1, h2, h3, hty, e0, e10, e8, r1, r2, r3]


/-! ## Non-vacuity: the translated functions on small concrete worlds (`decide`) -/

/-- an established version-1 socket: last synchronisation at time 1000, refresh interval 3600 -/
def exSock : Sock :=
  { refresh_interval := 3600#32, last_update := 1000#64, expire_interval := 7200#32, retry_interval := 600#32,
    iv_mode := 0#32, state := 1#32, session_id := 0x1234#32, request_session_id := false, serial_number := 77#32,
    thread_id := 0#64, version := 1#32, has_received_pdus := true, is_resetting := false }

/-- a world that gives the listed answers (afterwards: return value 0) -/
def exWorld (l : List (C.ExtAns Sock)) : XW := { ext := fun i => l.getD i { rc := 0#64, aux := 0#64, st := exSock } }

/-- what can be observed of a result: return value, socket, number of calls made, the calls -/
structure SyncObs where
  ret : BitVec 32
  sock : Sock
  ncalls : Nat
  calls : List Call
deriving DecidableEq

def syncObs (r : Res) : Option SyncObs := r.map fun x => ⟨x.1, x.2.1, x.2.2.n, x.2.2.trace⟩

-- rtr_wait_for_sync: at time 2000 the deadline 1000 + 3600 is 2600 away; a Serial Notify arrives → RTR_SUCCESS
example : syncObs (C.rtr_wait_for_sync (exWorld [{ rc := 0#64, aux := 2000#64, st := exSock },
      { rc := 12#64, aux := 0#64, st := exSock, buf := [1#8, 0#8, 0#8, 0#8, 0#8, 0#8, 0#8, 12#8, 0#8, 0#8, 0#8, 78#8] }]) exSock) =
    some ⟨0#32, exSock, 2, [("lrtr_get_monotonic_time", [], exSock), ("rtr_receive_pdu", [3248#64, 2600#64], exSock)]⟩ := by
  decide
-- the deadline has passed (time 10000): the timeout is 0, not 2^64 − 5400; the receive times out → RTR_SUCCESS (poll now)
example : syncObs (C.rtr_wait_for_sync (exWorld [{ rc := 0#64, aux := 10000#64, st := exSock },
      { rc := 0xFFFFFFFFFFFFFFFE#64, aux := 0#64, st := exSock }]) exSock) =
    some ⟨0#32, exSock, 2, [("lrtr_get_monotonic_time", [], exSock), ("rtr_receive_pdu", [3248#64, 0#64], exSock)]⟩ := by
  decide
-- something else than a Serial Notify arrives → RTR_ERROR
example : syncObs (C.rtr_wait_for_sync (exWorld [{ rc := 0#64, aux := 2000#64, st := exSock },
      { rc := 8#64, aux := 0#64, st := exSock, buf := [1#8, 8#8, 0#8, 0#8, 0#8, 0#8, 0#8, 8#8] }]) exSock) =
    some ⟨4294967295#32, exSock, 2, [("lrtr_get_monotonic_time", [], exSock), ("rtr_receive_pdu", [3248#64, 2600#64], exSock)]⟩ := by
  decide
-- `last_update + refresh_interval` overflows time_t: no defined result
example : (C.rtr_wait_for_sync (exWorld [{ rc := 0#64, aux := 2000#64, st := exSock }])
    { exSock with last_update := 0x7FFFFFFFFFFFFFFF#64 }).isNone = true := by decide
example : ¬ waitDefined { exSock with last_update := 0x7FFFFFFFFFFFFFFF#64 } 2000#64 := by decide
example : waitDefined exSock 10000#64 ∧ (waitTimeout exSock 10000#64) = 0#64 := by decide

-- rtr_send_serial_query / rtr_send_reset_query
example : syncObs (C.rtr_send_serial_query (exWorld []) exSock) =
    some ⟨0#32, exSock, 1, [("rtr_send_pdu", [12#64, 1#64, 1#64, 0x1234#64, 12#64, 77#64], exSock)]⟩ := by decide
example : syncObs (C.rtr_send_reset_query (exWorld [{ rc := 0xFFFFFFFFFFFFFFFF#64, aux := 0#64, st := exSock },
      { rc := 0#64, aux := 0#64, st := { exSock with state := 8#32 } }]) exSock) =
    some ⟨4294967295#32, { exSock with state := 8#32 }, 2,
      [("rtr_send_pdu", [8#64, 1#64, 2#64, 0#64, 8#64], exSock), ("rtr_change_socket_state", [8#64], exSock)]⟩ := by decide

-- rtr_set_last_update
example : syncObs (C.rtr_set_last_update (exWorld [{ rc := 0#64, aux := 5000#64, st := exSock }]) exSock) =
    some ⟨0#32, { exSock with last_update := 5000#64 }, 1, [("lrtr_get_monotonic_time", [], exSock)]⟩ := by decide
example : syncObs (C.rtr_set_last_update (exWorld [{ rc := 0xFFFFFFFFFFFFFFFF#64, aux := 0#64, st := exSock },
      { rc := 0#64, aux := 0#64, st := { exSock with state := 7#32 } }]) exSock) =
    some ⟨4294967295#32, { exSock with state := 7#32 }, 2,
      [("lrtr_get_monotonic_time", [], exSock), ("rtr_change_socket_state", [7#64], { exSock with last_update := 0#64 })]⟩ := by
  decide

-- rtr_handle_cache_response_pdu: a Cache Response (host order: session field 0x5678 at offset 2) of 8 bytes
def exCacheResponse : List Nat := [1, 3, 0x78, 0x56, 8, 0, 0, 0]
example : syncObs (C.rtr_handle_cache_response_pdu (exWorld []) (C.memOfList exCacheResponse) 8
      { exSock with request_session_id := true } 0) =
    some ⟨0#32, { exSock with request_session_id := true, session_id := 0x5678#32, is_resetting := true }, 0, []⟩ := by decide
example : syncObs (C.rtr_handle_cache_response_pdu (exWorld [{ rc := 0#64, aux := 0#64, st := exSock },
      { rc := 0#64, aux := 0#64, st := { exSock with state := 7#32 } }]) (C.memOfList exCacheResponse) 8 exSock 0) =
    some ⟨4294967295#32, { exSock with state := 7#32 }, 2,
      [("rtr_send_error_pdu_from_host", [0#64, 0#64], exSock), ("rtr_change_socket_state", [7#64], exSock)]⟩ := by decide
example : syncObs (C.rtr_handle_cache_response_pdu (exWorld []) (C.memOfList exCacheResponse) 8
      { exSock with session_id := 0x5678#32 } 0) = some ⟨0#32, { exSock with session_id := 0x5678#32 }, 0, []⟩ := by decide
example : (C.rtr_handle_cache_response_pdu (exWorld []) (C.memOfList exCacheResponse) 3 exSock 0).isNone = true := by decide

-- rtr_handle_error_pdu: an Error Report (host order) with code 4, version byte 0, no encapsulated PDU, no text: 16 bytes
def exErrorPdu (ver code : Nat) : List Nat := [ver, 10, code, 0, 16, 0, 0, 0, 0, 0, 0, 0, 0, 0, 0, 0]
example : syncObs (C.rtr_handle_error_pdu (exWorld [{ rc := 0#64, aux := 0#64, st := { exSock with version := 0#32, state := 4#32 } }])
      (C.memOfList (exErrorPdu 0 4)) 16 exSock 0) =
    some ⟨0#32, { exSock with version := 0#32, state := 4#32 }, 1,
      [("rtr_change_socket_state", [4#64], { exSock with version := 0#32 })]⟩ := by decide
-- the same report to a version-0 socket is no downgrade: ERROR_FATAL
example : syncObs (C.rtr_handle_error_pdu (exWorld []) (C.memOfList (exErrorPdu 0 4)) 16 { exSock with version := 0#32 } 0) =
    some ⟨0#32, exSock, 1, [("rtr_change_socket_state", [7#64], { exSock with version := 0#32 })]⟩ := by decide
example : syncObs (C.rtr_handle_error_pdu (exWorld []) (C.memOfList (exErrorPdu 1 2)) 16 exSock 0) =
    some ⟨0#32, exSock, 1, [("rtr_change_socket_state", [5#64], exSock)]⟩ := by decide
-- the object ends before the text-length field (15 bytes), or len_enc_pdu points beyond it: the C text reads outside
example : (C.rtr_handle_error_pdu (exWorld []) (C.memOfList (exErrorPdu 1 2)) 15 exSock 0).isNone = true := by decide
example : (C.rtr_handle_error_pdu (exWorld []) (C.memOfList [1, 10, 2, 0, 16, 0, 0, 0, 1, 0, 0, 0, 0, 0, 0, 0]) 16 exSock 0).isNone
    = true := by decide

-- rtr_sync: a Serial Notify is skipped, then Cache Response → check, store, clear request_session_id, set last_update
def exNotify : List (BitVec 8) := [1#8, 0#8, 0x12#8, 0x34#8, 0#8, 0#8, 0#8, 12#8, 0#8, 0#8, 0#8, 78#8]
def exResponse : List (BitVec 8) := [1#8, 3#8, 0x12#8, 0x34#8, 0#8, 0#8, 0#8, 8#8]
def exReq : Sock := { exSock with request_session_id := true }
example : syncObs (C.rtr_sync (exWorld [{ rc := 0#64, aux := 0#64, st := exReq }, { rc := 12#64, aux := 0#64, st := exReq, buf := exNotify },
      { rc := 0#64, aux := 0#64, st := exReq }, { rc := 0#64, aux := 0#64, st := exReq },
      { rc := 8#64, aux := 0#64, st := exReq, buf := exResponse }, { rc := 0#64, aux := 0#64, st := exReq },
      { rc := 0#64, aux := 0#64, st := { exReq with is_resetting := true } },
      { rc := 0#64, aux := 0#64, st := { exReq with serial_number := 78#32 } },
      { rc := 0#64, aux := 0#64, st := { exSock with serial_number := 78#32, last_update := 9000#64 } }]) exReq) =
    some ⟨0#32, { exSock with serial_number := 78#32, last_update := 9000#64 }, 9,
      [("pthread_setcancelstate", [0#64], exReq), ("rtr_receive_pdu", [3248#64, 60#64], exReq),
       ("pthread_setcancelstate", [1#64], exReq),
       ("pthread_setcancelstate", [0#64], exReq), ("rtr_receive_pdu", [3248#64, 60#64], exReq),
       ("pthread_setcancelstate", [1#64], exReq),
       ("rtr_handle_cache_response_pdu", [], exReq),
       ("rtr_sync_receive_and_store_pdus", [], { exReq with is_resetting := true }),
       ("rtr_set_last_update", [], { exSock with serial_number := 78#32 })]⟩ := by decide
-- rtr_sync: the cache hangs up before any session exists: version 1 → 0, FAST_RECONNECT
example : syncObs (C.rtr_sync (exWorld [{ rc := 0#64, aux := 0#64, st := exReq },
      { rc := 0xFFFFFFFFFFFFFFFC#64, aux := 0#64, st := exReq }, { rc := 0#64, aux := 0#64, st := exReq },
      { rc := 0#64, aux := 0#64, st := { exReq with version := 0#32, state := 4#32 } }]) exReq) =
    some ⟨4294967295#32, { exReq with version := 0#32, state := 4#32 }, 4,
      [("pthread_setcancelstate", [0#64], exReq), ("rtr_receive_pdu", [3248#64, 60#64], exReq),
       ("pthread_setcancelstate", [1#64], exReq),
       ("rtr_change_socket_state", [4#64], { exReq with version := 0#32 })]⟩ := by decide
-- … but not once a session exists
example : syncObs (C.rtr_sync (exWorld [{ rc := 0#64, aux := 0#64, st := exSock },
      { rc := 0xFFFFFFFFFFFFFFFC#64, aux := 0#64, st := exSock }]) exSock) =
    some ⟨4294967295#32, exSock, 3,
      [("pthread_setcancelstate", [0#64], exSock), ("rtr_receive_pdu", [3248#64, 60#64], exSock),
       ("pthread_setcancelstate", [1#64], exSock)]⟩ := by decide
-- rtr_sync: an unexpected PDU type (IPv4 prefix) → Error Report, RTR_ERROR
example : syncObs (C.rtr_sync (exWorld [{ rc := 0#64, aux := 0#64, st := exSock },
      { rc := 20#64, aux := 0#64, st := exSock, buf := [1#8, 4#8, 0#8, 0#8, 0#8, 0#8, 0#8, 20#8] }]) exSock) =
    some ⟨4294967295#32, exSock, 4,
      [("pthread_setcancelstate", [0#64], exSock), ("rtr_receive_pdu", [3248#64, 60#64], exSock),
       ("pthread_setcancelstate", [1#64], exSock), ("rtr_send_error_pdu_from_host", [8#64, 0#64], exSock)]⟩ := by decide
-- the hypotheses of `sync_downgrade` / `sync_success_order` are satisfiable (k = 1 and k = 0)
example : ∃ sk wk, afterNotifies 1 (exWorld [{ rc := 0#64, aux := 0#64, st := exReq },
      { rc := 12#64, aux := 0#64, st := exReq, buf := exNotify }]) exReq = some (sk, wk) ∧ wk.n = 3 := ⟨_, _, rfl, rfl⟩

end Rtr.CLink
