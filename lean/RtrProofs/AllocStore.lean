/-
  AllocStore: the temporary PDU stores of rtr_sync_receive_and_store_pdus, block by block.

  `net` (RtrModel.Alloc) counts live blocks; a block returned twice and another one never returned
  cancel in it.  `ledger k` follows the blocks of ONE kind through a trace and fails (`none`) at the
  first release — or reallocation — of a block of that kind when none is live: "a block returned twice /
  a block that was never obtained".  Of each store kind (`pdu4`, `pdu6`, `pduk`) at most one block is
  live at any time, so for the stores the ledger is exact about block identity.

  Proved here: the store loop followed by the three releases of the `cleanup:` label keeps the ledger
  of every kind defined and ends with no live store block, WHATEVER the allocator does (any budget, any
  number of PDUs — the store grows by `storeIncr` elements whenever it is full, and each of these
  reallocations may be the refused one); and the refused request is among the reallocations of the store
  loop exactly when the budget is smaller than `storeReqs items`.
-/
import RtrProofs.AllocSync

namespace Rtr
namespace Alloc

/-- live blocks of kind `k` after the events, starting from `n` live blocks; `none`: a block of kind `k`
    is released (or handed to realloc) although none is live — returned twice, or never obtained — or is
    released through libc `free` -/
def ledger (k : Blk) : List Ev → Nat → Option Nat
  | [], n => some n
  | .malloc b _ ok :: es, n => ledger k es (if b = k ∧ ok = true then n + 1 else n)
  | .realloc b 0 _ ok :: es, n => ledger k es (if b = k ∧ ok = true then n + 1 else n)
  | .realloc b (_ + 1) _ _ :: es, n => if b = k ∧ n = 0 then none else ledger k es n
  | .free b _ :: es, n => if b = k then (if n = 0 then none else ledger k es (n - 1)) else ledger k es n
  | .libcFree b _ :: es, n => if b = k then none else ledger k es n

/-- every block of every kind obtained in the trace is returned exactly once: no release without a live
    block (no double release, no foreign block), nothing left at the end (no leak) -/
def ExactlyOnce (t : List Ev) : Prop := ∀ k, ledger k t 0 = some 0

theorem ledger_append (k : Blk) : ∀ (s t : List Ev) (n : Nat),
    ledger k (s ++ t) n = (ledger k s n).bind (ledger k t) := by
  intro s
  induction s with
  | nil => intro t n; simp [ledger]
  | cons e s ih =>
    intro t n
    cases e with
    | malloc b m ok => simp only [List.cons_append, ledger]; exact ih t _
    | realloc b o m ok =>
      cases o with
      | zero => simp only [List.cons_append, ledger]; exact ih t _
      | succ o =>
        simp only [List.cons_append, ledger]
        split
        · rfl
        · exact ih t _
    | free b m =>
      simp only [List.cons_append, ledger]
      split
      · split
        · rfl
        · exact ih t _
      · exact ih t _
    | libcFree b m =>
      simp only [List.cons_append, ledger]
      split
      · rfl
      · exact ih t _

theorem ledger_snoc (k : Blk) (t : List Ev) (e : Ev) (m : Nat) (h : ledger k t 0 = some m) :
    ledger k (t ++ [e]) 0 = ledger k [e] m := by
  rw [ledger_append, h]; rfl

/-! ### the stores -/

/-- live store blocks of kind `k` according to the capacities -/
def bufsOf (b : Bufs) (k : Blk) : Nat :=
  match k with
  | .pdu4 => if b.s4 = 0 then 0 else 1
  | .pdu6 => if b.s6 = 0 then 0 else 1
  | .pduk => if b.sk = 0 then 0 else 1
  | _ => 0

/-- the ledger of every kind is defined and agrees with the capacities: a store block is live exactly
    when the capacity is not 0, nothing else is live -/
def StoreLedger (a : A) (b : Bufs) : Prop := ∀ k, ledger k a.trace 0 = some (bufsOf b k)

/-- one reallocation of a store (`c` one of the store kinds, `s` its capacity) -/
theorem store_step (a : A) (b b' : Bufs) (c : Blk) (s : Nat) (h : StoreLedger a b)
    (hc : bufsOf b c = if s = 0 then 0 else 1)
    (hb' : ∀ k, bufsOf b' k = if c = k then 1 else bufsOf b k) :
    ((a.realloc c s (s + storeIncr)).1 = true → StoreLedger (a.realloc c s (s + storeIncr)).2 b') ∧
    ((a.realloc c s (s + storeIncr)).1 = false → StoreLedger (a.realloc c s (s + storeIncr)).2 b) := by
  have et : (a.realloc c s (s + storeIncr)).2.trace =
      a.trace ++ [.realloc c s (s + storeIncr) (a.realloc c s (s + storeIncr)).1] := rfl
  constructor
  · intro hok k
    rw [et, ledger_snoc k _ _ _ (h k), hok, hb' k]
    cases s with
    | zero =>
      by_cases hk : c = k
      · subst hk; simp at hc; simp [ledger, hc]
      · simp [ledger, hk]
    | succ s =>
      by_cases hk : c = k
      · subst hk; simp at hc; simp [ledger, hc]
      · simp [ledger, hk]
  · intro hok k
    rw [et, ledger_snoc k _ _ _ (h k), hok]
    cases s with
    | zero => simp [ledger]
    | succ s =>
      by_cases hk : c = k
      · subst hk; simp at hc; simp [ledger, hc]
      · simp [ledger, hk]

theorem bufsOf_n4 (b : Bufs) (k : Blk) : bufsOf { b with n4 := b.n4 + 1 } k = bufsOf b k := by cases k <;> rfl
theorem bufsOf_n6 (b : Bufs) (k : Blk) : bufsOf { b with n6 := b.n6 + 1 } k = bufsOf b k := by cases k <;> rfl
theorem bufsOf_nk (b : Bufs) (k : Blk) : bufsOf { b with nk := b.nk + 1 } k = bufsOf b k := by cases k <;> rfl

theorem bufsOf_s4 (b : Bufs) (k : Blk) :
    bufsOf { b with s4 := b.s4 + storeIncr, n4 := b.n4 + 1 } k = if Blk.pdu4 = k then 1 else bufsOf b k := by
  have := storeIncr_ne
  cases k <;> simp [bufsOf]
  omega

theorem bufsOf_s6 (b : Bufs) (k : Blk) :
    bufsOf { b with s6 := b.s6 + storeIncr, n6 := b.n6 + 1 } k = if Blk.pdu6 = k then 1 else bufsOf b k := by
  have := storeIncr_ne
  cases k <;> simp [bufsOf]
  omega

theorem bufsOf_sk (b : Bufs) (k : Blk) :
    bufsOf { b with sk := b.sk + storeIncr, nk := b.nk + 1 } k = if Blk.pduk = k then 1 else bufsOf b k := by
  have := storeIncr_ne
  cases k <;> simp [bufsOf]
  omega

/-- **the store loop keeps the ledger**: whatever the allocator does and however many PDUs arrive, after
    the loop (finished or stopped by a refused reallocation) no store block has been released or lost:
    exactly the stores with a capacity are live -/
theorem storeLoop_ledger : ∀ (items : List Item) (a : A) (b : Bufs), StoreLedger a b →
    StoreLedger (storeLoop items a b).2.1 (storeLoop items a b).2.2 := by
  intro items
  induction items with
  | nil => intro a b h; simpa [storeLoop] using h
  | cons it rest ih =>
    intro a b h
    cases it with
    | p4 add r =>
      unfold storeLoop
      split
      · have st := store_step a b { b with s4 := b.s4 + storeIncr, n4 := b.n4 + 1 } .pdu4 b.s4 h rfl (bufsOf_s4 b)
        simp only
        split
        · rename_i hq; exact ih _ _ (st.1 hq)
        · rename_i hq; exact st.2 (by simpa using hq)
      · exact ih _ _ (fun k => by rw [bufsOf_n4]; exact h k)
    | p6 add r =>
      unfold storeLoop
      split
      · have st := store_step a b { b with s6 := b.s6 + storeIncr, n6 := b.n6 + 1 } .pdu6 b.s6 h rfl (bufsOf_s6 b)
        simp only
        split
        · rename_i hq; exact ih _ _ (st.1 hq)
        · rename_i hq; exact st.2 (by simpa using hq)
      · exact ih _ _ (fun k => by rw [bufsOf_n6]; exact h k)
    | key add r =>
      unfold storeLoop
      split
      · have st := store_step a b { b with sk := b.sk + storeIncr, nk := b.nk + 1 } .pduk b.sk h rfl (bufsOf_sk b)
        simp only
        split
        · rename_i hq; exact ih _ _ (st.1 hq)
        · rename_i hq; exact st.2 (by simpa using hq)
      · exact ih _ _ (fun k => by rw [bufsOf_nk]; exact h k)

/-- one release of the `cleanup:` label -/
theorem freeIf_store (a : A) (b b' : Bufs) (c : Blk) (s : Nat) (h : StoreLedger a b)
    (hc : bufsOf b c = if s = 0 then 0 else 1)
    (hb' : ∀ k, bufsOf b' k = if c = k then 0 else bufsOf b k) : StoreLedger (a.freeIf c s) b' := by
  intro k
  unfold A.freeIf
  by_cases hs : s = 0
  · simp only [hs, if_true] at hc ⊢
    rw [h k, hb' k]
    by_cases hk : c = k
    · subst hk; simp [hc]
    · simp [hk]
  · simp only [hs, if_false] at hc ⊢
    have et : (a.free c s).trace = a.trace ++ [.free c s] := rfl
    rw [et, ledger_snoc k _ _ _ (h k), hb' k]
    by_cases hk : c = k
    · subst hk; simp [ledger, hc]
    · simp [ledger, hk]

/-- **the cleanup returns every store block exactly once**: after the three `lrtr_free` calls no store
    block is live, and none of the calls named a block that was not live -/
theorem freeBufs_ledger (a : A) (b : Bufs) (h : StoreLedger a b) : ∀ k, ledger k (freeBufs a b).trace 0 = some 0 := by
  have h1 := freeIf_store a b { b with sk := 0 } .pduk b.sk h rfl (by intro k; cases k <;> simp [bufsOf])
  have h2 := freeIf_store _ { b with sk := 0 } { b with sk := 0, s6 := 0 } .pdu6 b.s6 h1 rfl
    (by intro k; cases k <;> simp [bufsOf])
  have h3 := freeIf_store _ { b with sk := 0, s6 := 0 } { b with sk := 0, s6 := 0, s4 := 0 } .pdu4 b.s4 h2 rfl
    (by intro k; cases k <;> simp [bufsOf])
  intro k
  have := h3 k
  unfold freeBufs
  rw [this]
  cases k <;> simp [bufsOf]

/-! ### which budgets hit the store loop -/

/-- number of reallocations the store loop makes when none is refused: one for the first PDU of a kind
    and one whenever `storeIncr` more PDUs of that kind have arrived (element storeIncr + 1,
    2·storeIncr + 1, … finds its store full) -/
def storeReqs : List Item → Bufs → Nat
  | [], _ => 0
  | .p4 .. :: rest, b =>
    if b.n4 ≥ b.s4 then storeReqs rest { b with s4 := b.s4 + storeIncr, n4 := b.n4 + 1 } + 1
    else storeReqs rest { b with n4 := b.n4 + 1 }
  | .p6 .. :: rest, b =>
    if b.n6 ≥ b.s6 then storeReqs rest { b with s6 := b.s6 + storeIncr, n6 := b.n6 + 1 } + 1
    else storeReqs rest { b with n6 := b.n6 + 1 }
  | .key .. :: rest, b =>
    if b.nk ≥ b.sk then storeReqs rest { b with sk := b.sk + storeIncr, nk := b.nk + 1 } + 1
    else storeReqs rest { b with nk := b.nk + 1 }

/-- one step of `storeLoop_req`: a reallocation `q` followed by the rest of the loop `f` -/
theorem req_then {a : A} {q : Bool × A} {d : Int} (hq : ReqOK a q d) (n : Nat) (res : Bool × A × Bufs)
    (b : Bufs) (f : A → Bool × A × Bufs)
    (hres : res = if q.1 then f q.2 else (false, q.2, b))
    (ih : (¬ q.2.hits n → (f q.2).1 = true ∧ (f q.2).2.1.budget = q.2.after n ∧
              refusals (f q.2).2.1.trace = refusals q.2.trace) ∧
          (q.2.hits n → (f q.2).1 = false ∧ refusals (f q.2).2.1.trace = refusals q.2.trace + 1)) :
    (¬ a.hits (n + 1) → res.1 = true ∧ res.2.1.budget = a.after (n + 1) ∧ refusals res.2.1.trace = refusals a.trace) ∧
    (a.hits (n + 1) → res.1 = false ∧ refusals res.2.1.trace = refusals a.trace + 1) := by
  by_cases h1 : a.hits 1
  · obtain ⟨e, _, hr, _⟩ := hq.hit h1
    rw [hres, e]
    exact ⟨fun h => absurd (hits_mono h1 (by omega)) h, fun _ => ⟨rfl, hr⟩⟩
  · obtain ⟨e, hb, hr, _⟩ := hq.pass h1
    have hh := hits_after hb h1 n
    rw [hres, e]
    simp only [if_true]
    constructor
    · intro h
      obtain ⟨i1, i2, i3⟩ := ih.1 (by rw [hh, Nat.add_comm]; exact h)
      exact ⟨i1, by rw [i2, after_after a _ 1 n hb, Nat.add_comm], by rw [i3, hr]⟩
    · intro h
      obtain ⟨i1, i2⟩ := ih.2 (by rw [hh, Nat.add_comm]; exact h)
      exact ⟨i1, by rw [i2, hr]⟩

/-- the refused request falls into the store loop exactly when the budget is below `storeReqs` -/
theorem storeLoop_req : ∀ (items : List Item) (a : A) (b : Bufs),
    (¬ a.hits (storeReqs items b) → (storeLoop items a b).1 = true ∧
        (storeLoop items a b).2.1.budget = a.after (storeReqs items b) ∧
        refusals (storeLoop items a b).2.1.trace = refusals a.trace) ∧
    (a.hits (storeReqs items b) → (storeLoop items a b).1 = false ∧
        refusals (storeLoop items a b).2.1.trace = refusals a.trace + 1) := by
  intro items
  induction items with
  | nil =>
    intro a b
    exact ⟨fun _ => ⟨rfl, by simp [storeLoop, storeReqs, after_zero], rfl⟩, fun h => absurd h (hits_zero a)⟩
  | cons it rest ih =>
    intro a b
    cases it with
    | p4 add r =>
      unfold storeLoop storeReqs
      split
      · exact req_then (realloc_ok a .pdu4 b.s4 (b.s4 + storeIncr)) _ _ b
          (fun x => storeLoop rest x { b with s4 := b.s4 + storeIncr, n4 := b.n4 + 1 }) rfl (ih _ _)
      · exact ih _ _
    | p6 add r =>
      unfold storeLoop storeReqs
      split
      · exact req_then (realloc_ok a .pdu6 b.s6 (b.s6 + storeIncr)) _ _ b
          (fun x => storeLoop rest x { b with s6 := b.s6 + storeIncr, n6 := b.n6 + 1 }) rfl (ih _ _)
      · exact ih _ _
    | key add r =>
      unfold storeLoop storeReqs
      split
      · exact req_then (realloc_ok a .pduk b.sk (b.sk + storeIncr)) _ _ b
          (fun x => storeLoop rest x { b with sk := b.sk + storeIncr, nk := b.nk + 1 }) rfl (ih _ _)
      · exact ih _ _

end Alloc
end Rtr
