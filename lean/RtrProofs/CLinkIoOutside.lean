/-
  CLinkIoOutside: what the translated `tr_send_all` / `tr_recv_all` do on inputs that the side conditions of
  RtrProofs/CLinkIo.lean exclude - kernel evaluation of the translated functions on concrete worlds.

  These examples are PINNED TO THE CURRENT SOURCE: they document behaviour nobody relies on, and a change of the C text
  that repairs it (a `size_t` counter in tr_send_all, a loop test written `len - total > 0`, a wider return type) makes
  them fail although every theorem of CLinkIo still holds. A failure here is a change of behaviour outside the
  transport contract, not a broken link.
-/
import RtrProofs.CLinkIo

namespace Rtr.CLink
open Rtr Rtr.Gen

/-- an answer larger than asked for (20 for 12): the count passes `len` and is returned - the caller that asked for 12
    bytes is told 20 -/
example : obs (C.tr_recv_all (mkWorld [100, 100] [20]) noMem 1012 ⟨()⟩ 1000 12 60)
    = some ⟨20, 2, 1, [(1000, 12, 60)]⟩ := by decide

/-- `tr_send_all`, `len = 2^32`: the `unsigned int` counter wraps to 0 when everything has been handed over
    (2^31-1, 2^31-1, 2), the loop goes on and offers the whole buffer again from its start (4th call); only a negative
    answer ends it -/
example : obs (C.tr_send_all (mkWorld [100, 100, 100, 100, 100] [2147483647, 2147483647, 2, -1]) noMem 4294968296 ⟨()⟩
      1000 4294967296 60)
    = some ⟨-1, 5, 4, [(1000, 4294967296, 60), (2147484647, 2147483649, 60), (4294968294, 2, 60), (1000, 4294967296, 60)]⟩ := by
  decide

/-- the same input is handled by `tr_recv_all` (`size_t` counter): three calls; but the return type is `int`:
    the count 2^32 is returned as 0 -/
example : obs (C.tr_recv_all (mkWorld [100, 100, 100, 100, 100] [2147483647, 2147483647, 2, -1]) noMem 4294968296 ⟨()⟩
      1000 4294967296 60)
    = some ⟨0, 4, 3, [(1000, 4294967296, 60), (2147484647, 2147483649, 60), (4294968294, 2, 60)]⟩ := by
  decide

/-- `len = 2^31`: a complete transfer is reported as `INT_MIN`, a negative value (error) -/
example : obs (C.tr_recv_all (mkWorld [100, 100, 100] [2147483647, 1]) noMem 2147484648 ⟨()⟩ 1000 2147483648 60)
    = some ⟨-2147483648, 3, 2, [(1000, 2147483648, 60), (2147484647, 1, 60)]⟩ := by decide

end Rtr.CLink
