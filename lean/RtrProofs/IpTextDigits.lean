/-
  IpTextDigits: digit-level lemmas for the address-text model (C19):
  `%x` / `%hhu` renderings read back by the hex scanner of the IPv6 parser and by the
  `sscanf("%3hhu")` model.
-/
import RtrModel.IpText

namespace Rtr.IpText

/-! ## characters -/

theorem hexVal_hexChar : ∀ d, d < 16 → hexVal? (hexChar d) = some d := by decide
theorem hexVal_decChar : ∀ d, d < 10 → hexVal? (decChar d) = some d := by decide
theorem isDigit_decChar : ∀ d, d < 10 → isDigit (decChar d) = true := by decide
theorem toNat_decChar : ∀ d, d < 10 → (decChar d).toNat - 48 = d := by decide
theorem isSpace_decChar : ∀ d, d < 10 → isSpace (decChar d) = false := by decide
theorem decChar_ne : ∀ d, d < 10 → decChar d ≠ '-' ∧ decChar d ≠ '+' ∧ decChar d ≠ ':' ∧ decChar d ≠ '.' := by decide
theorem hexChar_ne : ∀ d, d < 16 → hexChar d ≠ ':' ∧ hexChar d ≠ '.' := by decide
theorem hexVal_colon : hexVal? ':' = none := by decide
theorem hexVal_dot : hexVal? '.' = none := by decide
theorem isDigit_dot : isDigit '.' = false := by decide
theorem isDigit_colon : isDigit ':' = false := by decide

theorem hexVal_lt {c : Char} {k : Nat} (h : hexVal? c = some k) : k < 16 := by
  unfold hexVal? at h
  split at h
  · injection h with h; omega
  · split at h
    · injection h with h; omega
    · split at h
      · injection h with h; omega
      · cases h

/-- the next character (if any) is not a hex digit -/
def NoHexHead (s : Str) : Prop := ∀ c cs, s = c :: cs → hexVal? c = none
/-- the next character (if any) is not a decimal digit -/
def NoDigitHead (s : Str) : Prop := ∀ c cs, s = c :: cs → isDigit c = false

theorem noHexHead_nil : NoHexHead [] := by intro c cs h; cases h
theorem noHexHead_colon (s : Str) : NoHexHead (':' :: s) := by
  intro c cs h; injection h with h1 _; subst h1; exact hexVal_colon
theorem noHexHead_dot (s : Str) : NoHexHead ('.' :: s) := by
  intro c cs h; injection h with h1 _; subst h1; exact hexVal_dot
theorem noDigitHead_nil : NoDigitHead [] := by intro c cs h; cases h
theorem noDigitHead_dot (s : Str) : NoDigitHead ('.' :: s) := by
  intro c cs h; injection h with h1 _; subst h1; exact isDigit_dot
theorem noDigitHead_colon (s : Str) : NoDigitHead (':' :: s) := by
  intro c cs h; injection h with h1 _; subst h1; exact isDigit_colon

/-! ## hex groups -/

theorem scanHex_stop {rest : Str} (h : NoHexHead rest) (j l : Nat) : scanHex rest j l = some (j, rest) := by
  cases rest with
  | nil => rfl
  | cons c cs => simp [scanHex, h c cs rfl]

def AllHex (g : Str) : Prop := ∀ c ∈ g, (hexVal? c).isSome = true

def groupFold (g : Str) (j : Nat) : Nat := g.foldl (fun acc c => acc * 16 + (hexVal? c).getD 0) j

theorem groupVal_eq (g : Str) : groupVal g = groupFold g 0 := rfl

theorem pow16 (l : Nat) (h : l ≤ 4) : 16 ^ l ≤ 65536 := by
  have : l = 0 ∨ l = 1 ∨ l = 2 ∨ l = 3 ∨ l = 4 := by omega
  rcases this with h | h | h | h | h <;> subst h <;> decide

/-- the inner loop of the parser reads a whole group of at most four hex digits -/
theorem scanHex_group (g : Str) : ∀ (j l : Nat) (rest : Str), AllHex g → l + g.length ≤ 4 → j < 16 ^ l →
    NoHexHead rest → scanHex (g ++ rest) j l = some (groupFold g j, rest) := by
  induction g with
  | nil => intro j l rest _ _ _ hr; simpa [groupFold] using scanHex_stop hr j l
  | cons c cs ih =>
    intro j l rest hg hl hj hr
    have hc : (hexVal? c).isSome = true := hg c (by simp)
    obtain ⟨k, hk⟩ := Option.isSome_iff_exists.mp hc
    have hk16 := hexVal_lt hk
    simp only [List.length_cons] at hl
    have hp : 16 ^ (l + 1) ≤ 65536 := pow16 (l + 1) (by omega)
    have hj' : j * 16 + k < 16 ^ (l + 1) := by
      rw [Nat.pow_succ]; omega
    have hno : ¬ (j * 16 + k ≥ 65536 ∨ l + 1 > 4) := by omega
    have := ih (j * 16 + k) (l + 1) rest (fun c' hc' => hg c' (by simp [hc'])) (by omega) hj' hr
    simp only [List.cons_append, scanHex, hk, hno, if_false, this]
    simp [groupFold, hk]

theorem groupFold_lt (g : Str) : ∀ (j l : Nat), AllHex g → j < 16 ^ l → groupFold g j < 16 ^ (l + g.length) := by
  induction g with
  | nil => intro j l _ hj; simpa [groupFold] using hj
  | cons c cs ih =>
    intro j l hg hj
    have hc : (hexVal? c).isSome = true := hg c (by simp)
    obtain ⟨k, hk⟩ := Option.isSome_iff_exists.mp hc
    have hk16 := hexVal_lt hk
    have hj' : j * 16 + k < 16 ^ (l + 1) := by rw [Nat.pow_succ]; omega
    have := ih (j * 16 + k) (l + 1) (fun c' hc' => hg c' (by simp [hc'])) hj'
    simp only [groupFold, List.foldl_cons, hk, Option.getD_some, List.length_cons] at this ⊢
    rw [show l + (cs.length + 1) = l + 1 + cs.length by omega]
    exact this

theorem groupOk_iff (g : Str) : groupOk g = true ↔ (1 ≤ g.length ∧ g.length ≤ 4 ∧ AllHex g) := by
  simp [groupOk, AllHex, and_assoc]

theorem groupVal_lt {g : Str} (h : groupOk g = true) : groupVal g < 65536 := by
  obtain ⟨_, h4, hh⟩ := (groupOk_iff g).mp h
  have := groupFold_lt g 0 0 hh (by decide)
  rw [groupVal_eq]
  have hp := pow16 g.length h4
  simp only [Nat.zero_add] at this
  omega

theorem scanHex_groupOk {g : Str} (h : groupOk g = true) {rest : Str} (hr : NoHexHead rest) :
    scanHex (g ++ rest) 0 0 = some (groupVal g, rest) := by
  obtain ⟨_, h4, hh⟩ := (groupOk_iff g).mp h
  exact scanHex_group g 0 0 rest hh (by omega) (by decide) hr

/-- `%x` output is a well-formed group -/
theorem groupOk_hex16 {w : Nat} (hw : w < 65536) : groupOk (hex16 w) = true := by
  rw [groupOk_iff]
  unfold hex16
  split
  · simp [AllHex, hexVal_hexChar w (by omega)]
  · split
    · simp [AllHex, hexVal_hexChar (w / 16) (by omega), hexVal_hexChar (w % 16) (by omega)]
    · split
      · simp [AllHex, hexVal_hexChar (w / 256) (by omega), hexVal_hexChar (w / 16 % 16) (by omega),
          hexVal_hexChar (w % 16) (by omega)]
      · simp [AllHex, hexVal_hexChar (w / 4096 % 16) (by omega), hexVal_hexChar (w / 256 % 16) (by omega),
          hexVal_hexChar (w / 16 % 16) (by omega), hexVal_hexChar (w % 16) (by omega)]

/-- reading `%x` output back gives the word -/
theorem groupVal_hex16 {w : Nat} (hw : w < 65536) : groupVal (hex16 w) = w := by
  unfold hex16 groupVal
  split
  · simp [hexVal_hexChar w (by omega)]
  · split
    · simp [hexVal_hexChar (w / 16) (by omega), hexVal_hexChar (w % 16) (by omega)]; omega
    · split
      · simp [hexVal_hexChar (w / 256) (by omega), hexVal_hexChar (w / 16 % 16) (by omega),
          hexVal_hexChar (w % 16) (by omega)]; omega
      · simp [hexVal_hexChar (w / 4096 % 16) (by omega), hexVal_hexChar (w / 256 % 16) (by omega),
          hexVal_hexChar (w / 16 % 16) (by omega), hexVal_hexChar (w % 16) (by omega)]; omega

theorem hex16_length (w : Nat) : 1 ≤ (hex16 w).length ∧ (hex16 w).length ≤ 4 := by
  unfold hex16; split
  · simp
  · split
    · simp
    · split <;> simp

/-! ## decimal octets -/

theorem dec8_length (n : Nat) : 1 ≤ (dec8 n).length ∧ (dec8 n).length ≤ 3 := by
  unfold dec8; split
  · simp
  · split <;> simp

/-- `%3hhu` reads `%hhu` output back -/
theorem scanU3_dec8 {n : Nat} (hn : n < 256) {rest : Str} (hr : NoDigitHead rest) :
    scanU3 (dec8 n ++ rest) = some (n, rest) := by
  have tail : ∀ (w acc k : Nat), takeDigits w rest acc k = (acc, k, rest) := by
    intro w acc k
    cases w with
    | zero => rfl
    | succ w =>
      cases rest with
      | nil => rfl
      | cons c cs => simp [takeDigits, hr c cs rfl]
  unfold dec8
  split
  · rename_i h
    have hd := decChar_ne n (by omega)
    simp [scanU3, skipWs, isSpace_decChar n (by omega), hd.1, hd.2.1, takeDigits, isDigit_decChar n (by omega),
      toNat_decChar n (by omega), tail]
    omega
  · split
    · rename_i h1 h2
      have hd := decChar_ne (n / 10) (by omega)
      simp [scanU3, skipWs, isSpace_decChar (n / 10) (by omega), hd.1, hd.2.1, takeDigits,
        isDigit_decChar (n / 10) (by omega), toNat_decChar (n / 10) (by omega),
        isDigit_decChar (n % 10) (by omega), toNat_decChar (n % 10) (by omega), tail]
      omega
    · rename_i h1 h2
      have hd := decChar_ne (n / 100 % 10) (by omega)
      simp [scanU3, skipWs, isSpace_decChar (n / 100 % 10) (by omega), hd.1, hd.2.1, takeDigits,
        isDigit_decChar (n / 100 % 10) (by omega), toNat_decChar (n / 100 % 10) (by omega),
        isDigit_decChar (n / 10 % 10) (by omega), toNat_decChar (n / 10 % 10) (by omega),
        isDigit_decChar (n % 10) (by omega), toNat_decChar (n % 10) (by omega)]
      have e : (n / 100 % 10 * 10 + n / 10 % 10) * 10 + n % 10 = n := by omega
      rw [e]; omega

/-- the first octet of a dotted quad is also a hex group for the IPv6 scanner -/
theorem groupOk_dec8 {n : Nat} (hn : n < 256) : groupOk (dec8 n) = true := by
  rw [groupOk_iff]
  unfold dec8
  split
  · simp [AllHex, hexVal_decChar n (by omega)]
  · split
    · simp [AllHex, hexVal_decChar (n / 10) (by omega), hexVal_decChar (n % 10) (by omega)]
    · simp [AllHex, hexVal_decChar (n / 100 % 10) (by omega), hexVal_decChar (n / 10 % 10) (by omega),
        hexVal_decChar (n % 10) (by omega)]

theorem dec8_ne_nil (n : Nat) : dec8 n ≠ [] := by
  have := (dec8_length n).1
  intro h; rw [h] at this; simp at this

theorem hex16_ne_nil (n : Nat) : hex16 n ≠ [] := by
  have := (hex16_length n).1
  intro h; rw [h] at this; simp at this

/-- the `sscanf` model reads a formatted dotted quad back, whatever non-digit follows -/
theorem parse4_quadStr {q : Nat × Nat × Nat × Nat} (hq : quadOk q = true) {rest : Str} (hr : NoDigitHead rest) :
    parse4 (quadStr q ++ rest) = some (q.1 * 16777216 + q.2.1 * 65536 + q.2.2.1 * 256 + q.2.2.2) := by
  obtain ⟨a, b, c, d⟩ := q
  simp only [quadOk, Bool.and_eq_true, decide_eq_true_eq] at hq
  obtain ⟨⟨⟨ha, hb⟩, hc⟩, hd⟩ := hq
  simp only [quadStr, List.append_assoc, List.cons_append]
  unfold parse4
  have ed : ∀ cs : Str, expectDot ('.' :: cs) = some cs := fun _ => rfl
  rw [scanU3_dec8 ha (noDigitHead_dot _)]
  dsimp only
  rw [ed]; dsimp only
  rw [scanU3_dec8 hb (noDigitHead_dot _)]; dsimp only
  rw [ed]; dsimp only
  rw [scanU3_dec8 hc (noDigitHead_dot _)]; dsimp only
  rw [ed]; dsimp only
  rw [scanU3_dec8 hd hr]

end Rtr.IpText
