/-
  Helper lemmas for C15, part 3: case analysis of one socket event, facts about each branch of
  rtr_mgr_cb at the level of the whole group list, reachable configurations and their invariant.
-/
import RtrModel.Mgr
import RtrProofs.MgrSort
import RtrProofs.MgrCb

namespace Rtr.Mgr

/-- the group after the socket update of an effective event -/
def evGroup (g : Group) (i : Nat) (s : Sock) (st : SockState) (sy : Bool) : Group :=
  { g with socks := g.socks.set i { s with synced := sy, state := st } }

theorem evGroup_pref (g : Group) (i : Nat) (s : Sock) (st : SockState) (sy : Bool) :
    (evGroup g i s st sy).pref = g.pref := rfl

theorem evGroup_status (g : Group) (i : Nat) (s : Sock) (st : SockState) (sy : Bool) :
    (evGroup g i s st sy).status = g.status := rfl

/-- an event either is swallowed by rtr_change_socket_state (same state, or the socket is
    RTR_SHUTDOWN) or reaches rtr_mgr_cb with the socket already updated -/
theorem event_cases {gs : List Group} {p i : Nat} {st : SockState} {sy : Bool} {r : List Group × List Ev}
    (h : event gs p i st sy = some r) :
    ∃ g s, findG gs p = some g ∧ g.socks[i]? = some s ∧
      (((s.state = st ∨ s.state = .shutdown) ∧
          r = (modG gs p (fun g => { g with socks := g.socks.set i { s with synced := sy } }), [])) ∨
       (s.state ≠ st ∧ s.state ≠ .shutdown ∧
          r = mgrCb (modG gs p fun _ => evGroup g i s st sy) (evGroup g i s st sy) i st)) := by
  unfold event at h
  split at h
  · cases h
  · rename_i g hg
    split at h
    · cases h
    · rename_i s hs
      refine ⟨g, s, hg, hs, ?_⟩
      simp only at h
      split at h
      · rename_i hc
        left
        exact ⟨hc, (Option.some.inj h).symm⟩
      · rename_i hc
        right
        refine ⟨fun e => hc (Or.inl e), fun e => hc (Or.inr e), (Option.some.inj h).symm⟩

theorem cbEstablished_cases (gs2 : List Group) (g2 : Group) (i : Nat) :
    ((g2.status = .connecting ∨ g2.status = .error) ∧ g2.isSynced = true ∧
        (g2.status = .error → allErrorBefore gs2 g2.pref = true) ∧
        cbEstablished gs2 g2 i = becomeEstablished gs2 g2.pref i) ∨
    (∃ st', (st' = g2.status ∧ st' ≠ .established) ∧
        cbEstablished gs2 g2 i = (setStatus gs2 g2.pref st', [Ev.status g2.pref st' (some (g2.pref, i))])) ∨
    (cbEstablished gs2 g2 i = (gs2, [])) := by
  simp only [cbEstablished]
  by_cases h1 : g2.status = .connecting
  · rw [if_pos h1]
    by_cases h2 : g2.isSynced = true
    · left; rw [if_pos h2]
      exact ⟨Or.inl h1, h2, (fun h => by rw [h1] at h; cases h), rfl⟩
    · right; left; rw [if_neg h2]
      exact ⟨.connecting, ⟨h1.symm, (by decide)⟩, rfl⟩
  · rw [if_neg h1]
    by_cases h3 : g2.status = .error
    · rw [if_pos h3]
      by_cases h4 : allErrorBefore gs2 g2.pref = true ∧ g2.isSynced = true
      · left; rw [if_pos h4]
        exact ⟨Or.inr h3, h4.2, (fun _ => h4.1), rfl⟩
      · right; left; rw [if_neg h4]
        exact ⟨.error, ⟨h3.symm, (by decide)⟩, rfl⟩
    · right; right; rw [if_neg h3]

/-- the four shapes of `rtr_mgr_cb` -/
theorem mgrCb_cases (gs2 : List Group) (g2 : Group) (i : Nat) (st : SockState) :
    (st = .established ∧ (g2.status = .connecting ∨ g2.status = .error) ∧ g2.isSynced = true ∧
        (g2.status = .error → allErrorBefore gs2 g2.pref = true) ∧
        mgrCb gs2 g2 i st = becomeEstablished gs2 g2.pref i) ∨
    (st.isError = true ∧ mgrCb gs2 g2 i st = cbError gs2 g2 i) ∨
    (st.isError = false ∧ ∃ st', (st' = g2.status ∨ (st' ≠ .established ∧ (st' = .closed → st = .shutdown))) ∧
        mgrCb gs2 g2 i st = (setStatus gs2 g2.pref st', [Ev.status g2.pref st' (some (g2.pref, i))])) ∨
    (st.isError = false ∧ mgrCb gs2 g2 i st = (gs2, [])) := by
  cases st
  case shutdown =>
    right; right; left
    refine ⟨rfl, _, ?_, rfl⟩
    split
    · right; exact ⟨(by decide), (fun _ => rfl)⟩
    · left; rfl
  case established =>
    have e : mgrCb gs2 g2 i .established = cbEstablished gs2 g2 i := rfl
    rw [e]
    rcases cbEstablished_cases gs2 g2 i with ⟨h1, h2, h3, h4⟩ | ⟨st', ⟨h1, h2⟩, h3⟩ | h
    · left; exact ⟨rfl, h1, h2, h3, h4⟩
    · right; right; left; exact ⟨rfl, st', Or.inl h1, h3⟩
    · right; right; right; exact ⟨rfl, h⟩
  case connecting =>
    right; right; left
    refine ⟨rfl, _, ?_, rfl⟩
    split
    · rename_i h; left; exact h.symm
    · right; exact ⟨(by decide), (by decide)⟩
  case errFatal => right; left; exact ⟨rfl, rfl⟩
  case errTransport => right; left; exact ⟨rfl, rfl⟩
  case errNoData => right; left; exact ⟨rfl, rfl⟩
  all_goals
    right; right; left
    exact ⟨rfl, g2.status, Or.inl rfl, rfl⟩

/-! ### the configuration seen by the callback -/

theorem mem_evList {gs : List Group} {p : Nat} {g2 : Group} {g' : Group} (h : g' ∈ modG gs p fun _ => g2) :
    (g' ∈ gs ∧ g'.pref ≠ p) ∨ (g' = g2 ∧ ∃ g ∈ gs, g.pref = p) := by
  rcases mem_modG h with h | ⟨g, hg, hp, rfl⟩
  · left; exact h
  · right; exact ⟨rfl, g, hg, hp⟩

/-! ### a group becomes ESTABLISHED -/

theorem be_prefs (gs2 : List Group) (p i : Nat) : prefs (becomeEstablished gs2 p i).1 = prefs gs2 := by
  unfold becomeEstablished
  simp only [closeLess_prefs, prefs_setStatus]

theorem be_post_eq {gs2 : List Group} {p i : Nat} {g' : Group} (h : g' ∈ (becomeEstablished gs2 p i).1)
    (hp : g'.pref = p) : ∃ g ∈ gs2, g.pref = p ∧ g' = { g with status := .established } := by
  obtain ⟨x, hx, rfl⟩ := closeLess_mem h
  rw [closeOne_pref] at hp
  rw [closeOne_of_le (by omega)]
  rcases mem_setStatus hx with ⟨_, hne⟩ | ⟨g, hg, hgp, rfl⟩
  · exact absurd hp hne
  · exact ⟨g, hg, hgp, rfl⟩

theorem be_post_gt {gs2 : List Group} {p i : Nat} {g' : Group} (h : g' ∈ (becomeEstablished gs2 p i).1)
    (hp : p < g'.pref) : g'.status = .closed := by
  obtain ⟨x, hx, rfl⟩ := closeLess_mem h
  rw [closeOne_pref] at hp
  exact closeOne_closed hp

theorem be_post_lt {gs2 : List Group} {p i : Nat} {g' : Group} (h : g' ∈ (becomeEstablished gs2 p i).1)
    (hp : g'.pref < p) : g' ∈ gs2 := by
  obtain ⟨x, hx, rfl⟩ := closeLess_mem h
  rw [closeOne_pref] at hp
  rw [closeOne_of_le (by omega)]
  rcases mem_setStatus hx with ⟨h1, _⟩ | ⟨g, _, hgp, rfl⟩
  · exact h1
  · simp only at hp; omega

/-- every group in the result stems from a group of the same preference and is either untouched,
    the establishing group, or a less preferable group that is now CLOSED with all threads joined -/
theorem be_mem {gs2 : List Group} {p i : Nat} {g' : Group} (h : g' ∈ (becomeEstablished gs2 p i).1) :
    ∃ g ∈ gs2, g'.pref = g.pref ∧
      (g' = g ∨ (g.pref = p ∧ g' = { g with status := .established }) ∨
       (p < g.pref ∧ g'.status = .closed ∧ ∀ s ∈ g'.socks, s.thread = false)) := by
  obtain ⟨x, hx, rfl⟩ := closeLess_mem h
  rcases mem_setStatus hx with ⟨h1, hne⟩ | ⟨g, hg, hgp, rfl⟩
  · refine ⟨x, h1, closeOne_pref .., ?_⟩
    rcases closeOne_result p (some (p, i)) x with h | ⟨h2, h3, _, h5⟩
    · left; exact h
    · right; right; exact ⟨h3, h2, h5⟩
  · refine ⟨g, hg, closeOne_pref .., ?_⟩
    right; left
    rw [closeOne_of_le (by simp only; omega)]
    exact ⟨hgp, rfl⟩

theorem be_emits {gs2 : List Group} {p i : Nat} {g : Group} (hg : g ∈ gs2) (hp : p < g.pref)
    (hs : g.status ≠ .closed) :
    Ev.status g.pref .closed (some (p, i)) ∈ (becomeEstablished gs2 p i).2 ∧
    ∀ j, j < g.socks.length → Ev.stop g.pref j ∈ (becomeEstablished gs2 p i).2 := by
  have hg' : g ∈ setStatus gs2 p .established := mem_modG_of_ne hg (by omega)
  have := @closeOne_emits p (some (p, i)) g hp hs
  unfold becomeEstablished
  refine ⟨List.mem_cons_of_mem _ (closeLess_log_of hg' this.1), ?_⟩
  intro j hj
  exact List.mem_cons_of_mem _ (closeLess_log_of hg' (this.2 j hj))

theorem be_log {gs2 : List Group} {p i : Nat} {e : Ev} (h : e ∈ (becomeEstablished gs2 p i).2) :
    e = Ev.status p .established (some (p, i)) ∨
    ∃ g ∈ gs2, p < g.pref ∧ g.status ≠ .closed ∧
      ((∃ j, e = Ev.stop g.pref j ∧ j < g.socks.length) ∨ (∃ x, e = Ev.status g.pref .closed x) ∨
       (∃ x, e = Ev.status g.pref g.status x)) := by
  unfold becomeEstablished at h
  rcases List.mem_cons.mp h with rfl | h
  · left; rfl
  · right
    obtain ⟨x, hx, hx'⟩ := closeLess_log h
    have := closeOne_log hx'
    rcases mem_setStatus hx with ⟨h1, _⟩ | ⟨g, _, hgp, rfl⟩
    · exact ⟨x, h1, this⟩
    · have := this.1; simp only at this; omega

/-! ### a group enters ERROR -/

theorem cbError_prefs (gs2 : List Group) (g2 : Group) (i : Nat) : prefs (cbError gs2 g2 i).1 = prefs gs2 := by
  unfold cbError
  simp only
  split
  · exact prefs_setStatus ..
  · simp only [startBest_prefs, prefs_setStatus]

theorem cbError_mem {gs2 : List Group} {g2 : Group} {i : Nat} {g' : Group} (h : g' ∈ (cbError gs2 g2 i).1) :
    (g' ∈ gs2 ∧ g'.pref ≠ g2.pref) ∨ (∃ g ∈ gs2, g.pref = g2.pref ∧ g' = { g with status := .error }) ∨
    (∃ q ∈ gs2, q.pref ≠ g2.pref ∧ q.status = .closed ∧ g' = q.startSockets.1) := by
  unfold cbError at h
  simp only at h
  split at h
  · rcases mem_setStatus h with h | h
    · left; exact h
    · right; left; exact h
  · rcases startBest_mem h with h | ⟨q, hq, h1, h2, h3⟩
    · rcases mem_setStatus h with h | h
      · left; exact h
      · right; left; exact h
    · right; right
      rcases mem_setStatus hq with ⟨hq', _⟩ | ⟨g, _, hgp, rfl⟩
      · exact ⟨q, hq', h1, h2, h3⟩
      · exact absurd hgp h1

theorem cbError_log {gs2 : List Group} {g2 : Group} {i : Nat} {e : Ev} (h : e ∈ (cbError gs2 g2 i).2) :
    e = Ev.status g2.pref .error (some (g2.pref, i)) ∨ ∃ q j ok, e = Ev.start q j ok := by
  unfold cbError at h
  simp only at h
  split at h
  · left; simpa using h
  · rcases List.mem_append.mp h with h | h
    · left; simpa using h
    · right
      obtain ⟨q, _, _, _, j, ok, rfl⟩ := startBest_log h
      exact ⟨_, _, _, rfl⟩

/-! ### preferences never change inside the callback -/

theorem mgrCb_prefs (gs2 : List Group) (g2 : Group) (i : Nat) (st : SockState) :
    prefs (mgrCb gs2 g2 i st).1 = prefs gs2 := by
  rcases mgrCb_cases gs2 g2 i st with ⟨_, _, _, _, h⟩ | ⟨_, h⟩ | ⟨_, st', _, h⟩ | ⟨_, h⟩
  · rw [h]; exact be_prefs ..
  · rw [h]; exact cbError_prefs ..
  · rw [h]; exact prefs_setStatus ..
  · rw [h]

theorem event_prefs {gs : List Group} {p i : Nat} {st : SockState} {sy : Bool} {r : List Group × List Ev}
    (h : event gs p i st sy = some r) : prefs r.1 = prefs gs := by
  obtain ⟨g, s, hg, _, ⟨_, rfl⟩ | ⟨_, _, rfl⟩⟩ := event_cases h
  · exact prefs_modG (fun _ _ => rfl)
  · rw [mgrCb_prefs]
    exact prefs_modG (fun x hx => by rw [evGroup_pref, (findG_some hg).2, hx])

/-! ### reachable configurations -/

/-- configurations that arise from a successful rtr_mgr_init by any finite sequence of socket
    events and API calls -/
inductive Reachable : List Group → Prop
  | init {specs : List (Nat × Nat)} {gs : List Group} : init specs = some gs → Reachable gs
  | step {gs : List Group} (o : Op) : Reachable gs → Reachable (step gs o).1

theorem ne_nil_of_prefs {gs gs' : List Group} (h : prefs gs' = prefs gs) (hn : gs ≠ []) : gs' ≠ [] := by
  intro e
  subst e
  cases gs with
  | nil => exact hn rfl
  | cons x t => simp [prefs] at h

theorem init_some {specs : List (Nat × Nat)} {gs : List Group} (h : init specs = some gs) :
    specs ≠ [] ∧ gs = sortG (specs.map fun s => mkGroup s.1 s.2) ∧ Sorted gs ∧
    (∀ g ∈ gs, g.socks.length ≠ 0) := by
  unfold init at h
  split at h
  · cases h
  · rename_i hne
    simp only at h
    split at h
    · rename_i hc
      have hs := (initCheck_sorted (sortG_sortedLe _) hc).1
      have hsock := initCheck_socks hc
      rw [sortG_of_sorted hs] at h
      cases h
      exact ⟨by intro e; subst e; exact hne rfl, rfl, hs, hsock⟩
    · cases h

/-- a refused add: nothing changes -/
theorem add_refused {gs : List Group} {p k : Nat} {rc : Int} (h : addRefusal gs p k = some rc) (n : Nat) :
    add gs p n k = (gs, [], rc) := by
  unfold add
  rw [h]

/-- an add that is not refused: ordered insertion of the new group (with the picked intervals),
    then the most preferable group is started if it is CLOSED -/
theorem add_accepted {gs : List Group} {p k : Nat} (h : addRefusal gs p k = none) (n : Nat) :
    add gs p n k =
      ((startFirstIfClosed (sortG (gs ++ [mkGroupIv p n (pickIvs defaultIvs gs)]))).1,
       (startFirstIfClosed (sortG (gs ++ [mkGroupIv p n (pickIvs defaultIvs gs)]))).2, 0) := by
  unfold add
  rw [h]

/-- an add is only accepted for a preference that is not in use -/
theorem addRefusal_none_fresh {gs : List Group} {p k : Nat} (h : addRefusal gs p k = none) :
    ¬ (gs.any (fun g => g.pref == p) = true) := by
  intro hc
  unfold addRefusal at h
  rw [if_pos hc] at h
  cases h

theorem add_cases (gs : List Group) (p n k : Nat) :
    (∃ rc, addRefusal gs p k = some rc ∧ add gs p n k = (gs, [], rc)) ∨
    (addRefusal gs p k = none ∧ ¬ (gs.any (fun g => g.pref == p) = true) ∧
      add gs p n k =
        ((startFirstIfClosed (sortG (gs ++ [mkGroupIv p n (pickIvs defaultIvs gs)]))).1,
         (startFirstIfClosed (sortG (gs ++ [mkGroupIv p n (pickIvs defaultIvs gs)]))).2, 0)) := by
  cases h : addRefusal gs p k with
  | some rc => exact Or.inl ⟨rc, rfl, add_refused h n⟩
  | none => exact Or.inr ⟨rfl, addRefusal_none_fresh h, add_accepted h n⟩

theorem add_sorted {gs : List Group} (hs : Sorted gs) (p n k : Nat) : Sorted (add gs p n k).1 := by
  rcases add_cases gs p n k with ⟨rc, _, h⟩ | ⟨_, hany, h⟩
  · rw [h]; exact hs
  · rw [h]
    apply sorted_of_prefs_eq (startFirstIfClosed_prefs _)
    apply sortG_sorted
    have hp : prefs (gs ++ [mkGroupIv p n (pickIvs defaultIvs gs)]) = prefs gs ++ [p] := by
      simp [prefs, mkGroupIv]
    rw [hp]
    have hn := hs.nodup
    refine List.nodup_append.mpr ⟨hn, (by simp), ?_⟩
    intro a ha b hb
    simp only [List.mem_singleton] at hb
    subst hb
    intro e
    subst e
    apply hany
    obtain ⟨g, hg, hgp⟩ := List.mem_map.mp ha
    exact List.any_eq_true.mpr ⟨g, hg, by simpa using hgp⟩

theorem add_ne_nil {gs : List Group} (hn : gs ≠ []) (p n k : Nat) : (add gs p n k).1 ≠ [] := by
  rcases add_cases gs p n k with ⟨rc, _, h⟩ | ⟨_, _, h⟩
  · rw [h]; exact hn
  · rw [h]
    apply ne_nil_of_prefs (startFirstIfClosed_prefs _)
    intro e
    have := (sortG_perm (gs ++ [mkGroupIv p n (pickIvs defaultIvs gs)])).length_eq
    rw [e] at this
    simp at this

theorem prefs_setIvs (gs : List Group) (p : Nat) (iv : Nat × Nat × Nat) : prefs (setIvs gs p iv) = prefs gs :=
  prefs_modG (fun _ _ => rfl)

theorem remove_sorted {gs : List Group} (hs : Sorted gs) (p : Nat) : Sorted (remove gs p).1 := by
  unfold remove
  split
  · exact hs
  · split
    · exact hs
    · exact sorted_of_prefs_eq (startFirstIfClosed_prefs _) (eraseG_sorted hs)

theorem remove_ne_nil {gs : List Group} (hn : gs ≠ []) (p : Nat) : (remove gs p).1 ≠ [] := by
  unfold remove
  split
  · exact hn
  · rename_i hlen
    split
    · exact hn
    · rename_i g hg
      apply ne_nil_of_prefs (startFirstIfClosed_prefs _)
      intro e
      have := @eraseG_length p gs ⟨g, (findG_some hg).1, (findG_some hg).2⟩
      rw [e] at this
      simp only [List.length_nil, Nat.zero_add] at this
      exact hlen this.symm

theorem start_prefs (gs : List Group) : prefs (start gs).1 = prefs gs := by
  cases gs with
  | nil => rfl
  | cons b t => simp [start, prefs, startSockets_pref]

theorem step_inv {gs : List Group} (hs : Sorted gs) (hn : gs ≠ []) (o : Op) :
    Sorted (step gs o).1 ∧ (step gs o).1 ≠ [] := by
  cases o with
  | ev p i st sy =>
    simp only [step]
    split
    · rename_i r hr
      exact ⟨sorted_of_prefs_eq (event_prefs hr) hs, ne_nil_of_prefs (event_prefs hr) hn⟩
    · exact ⟨hs, hn⟩
  | add p n k => exact ⟨add_sorted hs p n k, add_ne_nil hn p n k⟩
  | setiv p a b c => exact ⟨sorted_of_prefs_eq (prefs_setIvs gs p _) hs, ne_nil_of_prefs (prefs_setIvs gs p _) hn⟩
  | remove p => exact ⟨remove_sorted hs p, remove_ne_nil hn p⟩
  | start => exact ⟨sorted_of_prefs_eq (start_prefs gs) hs, ne_nil_of_prefs (start_prefs gs) hn⟩
  | stop => exact ⟨sorted_of_prefs_eq (stop_prefs gs) hs, ne_nil_of_prefs (stop_prefs gs) hn⟩

theorem Reachable.inv {gs : List Group} (h : Reachable gs) : Sorted gs ∧ gs ≠ [] := by
  induction h with
  | @init specs gs0 hi =>
    obtain ⟨hne, hgs, hs, _⟩ := init_some hi
    refine ⟨hs, ?_⟩
    intro e
    have := (sortG_perm (specs.map fun s => mkGroup s.1 s.2)).length_eq
    rw [← hgs, e] at this
    simp only [List.length_nil, List.length_map] at this
    exact hne (List.length_eq_zero_iff.mp this.symm)
  | step o _ ih => exact step_inv ih.1 ih.2 o

theorem reachable_run {gs : List Group} (h : Reachable gs) (ops : List Op) : Reachable (run gs ops) := by
  induction ops generalizing gs with
  | nil => exact h
  | cons o os ih => exact ih (Reachable.step o h)

end Rtr.Mgr
