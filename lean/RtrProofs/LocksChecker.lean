/-
  LocksChecker: soundness of the lock-discipline checker (`check`, `wellLocked`) and of the
  write-acquisition bound (`acqBound`) with respect to the path semantics `Exec`.
-/
import RtrModel.Locks

namespace Rtr.Locks

theorem runHeld_append (strict : Bool) (h : Held) (π₁ π₂ : List Ev) :
    runHeld strict h (π₁ ++ π₂) = (runHeld strict h π₁).bind (fun h' => runHeld strict h' π₂) := by
  induction π₁ generalizing h with
  | nil => simp [runHeld]
  | cons e π ih =>
    simp only [List.cons_append, runHeld]
    split
    · exact ih _
    · rfl

/-- how the checker's answer relates to the end of a path -/
def outOk (o : Out) (r : Option Held) (e : Held) (lp : Option Held) (h' : Held) : Prop :=
  match o with
  | .norm => r = some h'
  | .ret => h' = e
  | .brk => lp = some h'

theorem check_sound {strict : Bool} {T : List Fn} {p : Prog} {π : List Ev} {o : Out} (hx : Exec T p π o) :
    ∀ (n : Nat) (e : Held) (lp : Option Held) (h : Held) (r : Option Held),
      check strict T n p e lp h = some r →
      ∃ h', runHeld strict h π = some h' ∧ outOk o r e lp h' := by
  induction hx with
  | skip =>
    intro n e lp h r hc
    cases n with
    | zero => simp [check] at hc
    | succ n => simp only [check, Option.some.injEq] at hc; exact ⟨h, rfl, hc.symm⟩
  | @acq m l ln =>
    intro n e lp h r hc
    cases n with
    | zero => simp [check] at hc
    | succ n =>
      simp only [check] at hc
      split at hc
      · simp at hc
      · rename_i hh
        simp only [Option.some.injEq] at hc
        refine ⟨(l, m) :: h, ?_, hc.symm⟩
        simp [runHeld, okEv, updHeld, hh]
  | @rel l ln =>
    intro n e lp h r hc
    cases n with
    | zero => simp [check] at hc
    | succ n =>
      simp only [check] at hc
      split at hc
      · rename_i hh
        simp only [Option.some.injEq] at hc
        refine ⟨h.filter (fun e => e.1 != l), ?_, hc.symm⟩
        simp [runHeld, okEv, updHeld, hh]
      · simp at hc
  | @rd x ln =>
    intro n e lp h r hc
    cases n with
    | zero => simp [check] at hc
    | succ n =>
      simp only [check] at hc
      split at hc
      · rename_i hh
        simp only [Option.some.injEq] at hc
        refine ⟨h, ?_, hc.symm⟩
        simp [runHeld, okEv, updHeld, hh]
      · simp at hc
  | @wr x ln v =>
    intro n e lp h r hc
    cases n with
    | zero => simp [check] at hc
    | succ n =>
      simp only [check] at hc
      split at hc
      · rename_i hh
        simp only [Option.some.injEq] at hc
        refine ⟨h, ?_, hc.symm⟩
        simp [runHeld, okEv, updHeld, hh]
      · simp at hc
  | ext =>
    intro n e lp h r hc
    cases n with
    | zero => simp [check] at hc
    | succ n => simp only [check, Option.some.injEq] at hc; exact ⟨h, rfl, hc.symm⟩
  | cbFree =>
    intro n e lp h r hc
    cases n with
    | zero => simp [check] at hc
    | succ n => simp only [check, Option.some.injEq] at hc; exact ⟨h, rfl, hc.symm⟩
  | unknown =>
    intro n e lp h r hc
    cases n with
    | zero => simp [check] at hc
    | succ n => simp [check] at hc
  | @call f tm cbs ln fn π o hf _ hob ih =>
    intro n e lp h r hc
    cases n with
    | zero => simp [check] at hc
    | succ n =>
      simp only [check, hf] at hc
      split at hc
      · simp at hc
      · rename_i hcb
        simp only [Option.some.injEq] at hc
        obtain ⟨h', hr, hok⟩ := ih n h none h none hcb
        cases o with
        | norm => simp [outOk] at hok
        | ret => simp only [outOk] at hok; subst hok; exact ⟨h', hr, hc.symm⟩
        | brk => exact absurd rfl hob
      · rename_i h'' hcb
        split at hc
        · rename_i heq
          simp only [Option.some.injEq] at hc
          obtain ⟨h', hr, hok⟩ := ih n h none h (some h'') hcb
          cases o with
          | norm =>
            simp only [outOk, Option.some.injEq] at hok
            subst hok; subst heq
            exact ⟨h'', hr, hc.symm⟩
          | ret => simp only [outOk] at hok; subst hok; exact ⟨h', hr, hc.symm⟩
          | brk => exact absurd rfl hob
        · simp at hc
  | @seqNorm p q π₁ π₂ o _ _ ih₁ ih₂ =>
    intro n e lp h r hc
    cases n with
    | zero => simp [check] at hc
    | succ n =>
      simp only [check] at hc
      split at hc
      · simp at hc
      · rename_i hc₁
        obtain ⟨h', _, hok⟩ := ih₁ n e lp h none hc₁
        simp [outOk] at hok
      · rename_i h₁ hc₁
        obtain ⟨h', hr, hok⟩ := ih₁ n e lp h (some h₁) hc₁
        simp only [outOk, Option.some.injEq] at hok
        subst hok
        obtain ⟨h'', hr₂, hok₂⟩ := ih₂ n e lp h₁ r hc
        refine ⟨h'', ?_, hok₂⟩
        rw [runHeld_append, hr]
        exact hr₂
  | @seqStop p q π o _ hon ih =>
    intro n e lp h r hc
    cases n with
    | zero => simp [check] at hc
    | succ n =>
      simp only [check] at hc
      split at hc
      · simp at hc
      · rename_i hc₁
        obtain ⟨h', hr, hok⟩ := ih n e lp h none hc₁
        refine ⟨h', hr, ?_⟩
        cases o with
        | norm => exact absurd rfl hon
        | ret => exact hok
        | brk => exact hok
      · rename_i h₁ hc₁
        obtain ⟨h', hr, hok⟩ := ih n e lp h (some h₁) hc₁
        refine ⟨h', hr, ?_⟩
        cases o with
        | norm => exact absurd rfl hon
        | ret => exact hok
        | brk => exact hok
  | @altL p q π o _ ih =>
    intro n e lp h r hc
    cases n with
    | zero => simp [check] at hc
    | succ n =>
      simp only [check] at hc
      split at hc
      · rename_i r' hp hq
        simp only [Option.some.injEq] at hc
        obtain ⟨h', hr, hok⟩ := ih n e lp h none hp
        refine ⟨h', hr, ?_⟩
        cases o with
        | norm => simp [outOk] at hok
        | ret => exact hok
        | brk => exact hok
      · rename_i h₁ hp hq
        simp only [Option.some.injEq] at hc
        obtain ⟨h', hr, hok⟩ := ih n e lp h (some h₁) hp
        refine ⟨h', hr, ?_⟩
        cases o with
        | norm => simp only [outOk] at hok ⊢; rw [← hc]; exact hok
        | ret => exact hok
        | brk => exact hok
      · rename_i h₁ h₂ hp hq
        split at hc
        · simp only [Option.some.injEq] at hc
          obtain ⟨h', hr, hok⟩ := ih n e lp h (some h₁) hp
          refine ⟨h', hr, ?_⟩
          cases o with
          | norm => simp only [outOk] at hok ⊢; rw [← hc]; exact hok
          | ret => exact hok
          | brk => exact hok
        · simp at hc
      · simp at hc
  | @altR p q π o _ ih =>
    intro n e lp h r hc
    cases n with
    | zero => simp [check] at hc
    | succ n =>
      simp only [check] at hc
      split at hc
      · rename_i r' hp hq
        simp only [Option.some.injEq] at hc
        obtain ⟨h', hr, hok⟩ := ih n e lp h r' hq
        refine ⟨h', hr, ?_⟩
        cases o with
        | norm => simp only [outOk] at hok ⊢; rw [← hc]; exact hok
        | ret => exact hok
        | brk => exact hok
      · rename_i h₁ hp hq
        simp only [Option.some.injEq] at hc
        obtain ⟨h', hr, hok⟩ := ih n e lp h none hq
        refine ⟨h', hr, ?_⟩
        cases o with
        | norm => simp [outOk] at hok
        | ret => exact hok
        | brk => exact hok
      · rename_i h₁ h₂ hp hq
        split at hc
        · rename_i heq
          simp only [Option.some.injEq] at hc
          obtain ⟨h', hr, hok⟩ := ih n e lp h (some h₂) hq
          refine ⟨h', hr, ?_⟩
          cases o with
          | norm => simp only [outOk] at hok ⊢; rw [← hc, heq]; exact hok
          | ret => exact hok
          | brk => exact hok
        · simp at hc
      · simp at hc
  | @loopDone p =>
    intro n e lp h r hc
    cases n with
    | zero => simp [check] at hc
    | succ n =>
      simp only [check] at hc
      refine ⟨h, rfl, ?_⟩
      simp only [outOk]
      split at hc
      · simp at hc
      · simp only [Option.some.injEq] at hc; exact hc.symm
      · split at hc
        · simp only [Option.some.injEq] at hc; exact hc.symm
        · simp at hc
  | @loopStep p π₁ π₂ o _ _ ih₁ ih₂ =>
    intro n e lp h r hc
    cases n with
    | zero => simp [check] at hc
    | succ n =>
      have hc' := hc
      simp only [check] at hc
      split at hc
      · simp at hc
      · rename_i hb
        obtain ⟨h', _, hok⟩ := ih₁ n e (some h) h none hb
        simp [outOk] at hok
      · rename_i hb' hb
        split at hc
        · rename_i heq
          obtain ⟨h', hr, hok⟩ := ih₁ n e (some h) h (some hb') hb
          simp only [outOk, Option.some.injEq] at hok
          subst hok; subst heq
          obtain ⟨h'', hr₂, hok₂⟩ := ih₂ (n + 1) e lp hb' r hc'
          refine ⟨h'', ?_, hok₂⟩
          rw [runHeld_append, hr]
          exact hr₂
        · simp at hc
  | @loopBrk p π _ ih =>
    intro n e lp h r hc
    cases n with
    | zero => simp [check] at hc
    | succ n =>
      simp only [check] at hc
      split at hc
      · simp at hc
      · rename_i hb
        simp only [Option.some.injEq] at hc
        obtain ⟨h', hr, hok⟩ := ih n e (some h) h none hb
        simp only [outOk, Option.some.injEq] at hok
        subst hok
        exact ⟨h, hr, hc.symm⟩
      · rename_i hb' hb
        split at hc
        · simp only [Option.some.injEq] at hc
          obtain ⟨h', hr, hok⟩ := ih n e (some h) h (some hb') hb
          simp only [outOk, Option.some.injEq] at hok
          subst hok
          exact ⟨h, hr, hc.symm⟩
        · simp at hc
  | @loopRet p π _ ih =>
    intro n e lp h r hc
    cases n with
    | zero => simp [check] at hc
    | succ n =>
      simp only [check] at hc
      split at hc
      · simp at hc
      · rename_i hb
        obtain ⟨h', hr, hok⟩ := ih n e (some h) h none hb
        exact ⟨h', hr, hok⟩
      · rename_i hb' hb
        obtain ⟨h', hr, hok⟩ := ih n e (some h) h (some hb') hb
        exact ⟨h', hr, hok⟩
  | ret =>
    intro n e lp h r hc
    cases n with
    | zero => simp [check] at hc
    | succ n =>
      simp only [check] at hc
      split at hc
      · rename_i heq; exact ⟨h, rfl, heq⟩
      · simp at hc
  | brk =>
    intro n e lp h r hc
    cases n with
    | zero => simp [check] at hc
    | succ n =>
      simp only [check] at hc
      split at hc
      · rename_i heq; exact ⟨h, rfl, heq⟩
      · simp at hc

/-- `wellLockedProg` is sound: every complete path through the program is guarded and ends
    with no lock held -/
theorem wellLockedProg_sound {strict : Bool} {T : List Fn} {p : Prog} (hw : wellLockedProg strict T p = true)
    {π : List Ev} {o : Out} (hx : Exec T p π o) (hob : o ≠ .brk) : Balanced strict π := by
  unfold wellLockedProg at hw
  unfold Balanced
  split at hw
  · rename_i hc
    obtain ⟨h', hr, hok⟩ := check_sound hx fuel [] none [] none hc
    cases o with
    | norm => simp [outOk] at hok
    | ret => simp only [outOk] at hok; subst hok; exact hr
    | brk => exact absurd rfl hob
  · rename_i h hc
    obtain ⟨h', hr, hok⟩ := check_sound hx fuel [] none [] (some h) hc
    cases o with
    | norm =>
      simp only [outOk, Option.some.injEq] at hok
      subst hok
      have : h = [] := by simpa using hw
      subst this; exact hr
    | ret => simp only [outOk] at hok; subst hok; exact hr
    | brk => exact absurd rfl hob
  · simp at hw

theorem wellLocked_sound' {strict : Bool} {T : List Fn} {f : Nat} (hw : wellLocked strict T f = true)
    {fn : Fn} (hf : T[f]? = some fn) {π : List Ev} {o : Out} (hx : Exec T fn.body π o) (hob : o ≠ .brk) :
    Balanced strict π := by
  have : wellLockedProg strict T fn.body = true := by
    unfold wellLocked at hw
    rw [hf] at hw
    exact hw
  exact wellLockedProg_sound this hx hob

theorem Balanced.guarded {strict : Bool} {π : List Ev} (h : Balanced strict π) : Guarded strict π := by
  unfold Balanced at h; unfold Guarded; rw [h]; rfl

/-- guardedness is prefix closed: a thread stopped anywhere inside a guarded path is guarded -/
theorem Guarded.prefix {strict : Bool} {π₁ π₂ : List Ev} (h : Guarded strict (π₁ ++ π₂)) : Guarded strict π₁ := by
  unfold Guarded at *
  rw [runHeld_append] at h
  cases hr : runHeld strict [] π₁ with
  | none => rw [hr] at h; simp at h
  | some _ => rfl

/-- concatenating balanced paths (a thread calling one checked function after another) -/
theorem Balanced.append {strict : Bool} {π₁ π₂ : List Ev} (h₁ : Balanced strict π₁) (h₂ : Balanced strict π₂) :
    Balanced strict (π₁ ++ π₂) := by
  unfold Balanced at *
  rw [runHeld_append, h₁]
  exact h₂

/-! ### bound on write acquisitions -/

theorem countAcq_append (sel : Mode → Nat → Bool) (π₁ π₂ : List Ev) :
    countAcq sel (π₁ ++ π₂) = countAcq sel π₁ + countAcq sel π₂ := by
  simp [countAcq, List.countP_append]

theorem acqBound_sound {sel : Mode → Nat → Bool} {T : List Fn} {p : Prog} {π : List Ev} {o : Out} (hx : Exec T p π o) :
    ∀ (n b : Nat), acqBound sel T n p = some b → countAcq sel π ≤ b := by
  induction hx with
  | skip => intro n b hb; simp [countAcq]
  | @acq m l ln =>
    intro n b hb
    cases n with
    | zero => simp [acqBound] at hb
    | succ n =>
      simp only [acqBound, Option.some.injEq] at hb
      subst hb
      by_cases hs : sel m l = true <;> simp [countAcq, isAcq, hs]
  | rel => intro n b hb; simp [countAcq, isAcq]
  | rd => intro n b hb; simp [countAcq, isAcq]
  | wr v => intro n b hb; simp [countAcq, isAcq]
  | ext => intro n b hb; simp [countAcq]
  | cbFree => intro n b hb; simp [countAcq]
  | unknown => intro n b hb; simp [countAcq, isAcq]
  | @call f tm cbs ln fn π o hf _ _ ih =>
    intro n b hb
    cases n with
    | zero => simp [acqBound] at hb
    | succ n =>
      simp only [acqBound, hf] at hb
      exact ih n b hb
  | @seqNorm p q π₁ π₂ o _ _ ih₁ ih₂ =>
    intro n b hb
    cases n with
    | zero => simp [acqBound] at hb
    | succ n =>
      simp only [acqBound] at hb
      split at hb
      · rename_i a c ha hc
        simp only [Option.some.injEq] at hb
        have h₁ := ih₁ n a ha
        have h₂ := ih₂ n c hc
        rw [countAcq_append]; omega
      · simp at hb
  | @seqStop p q π o _ _ ih =>
    intro n b hb
    cases n with
    | zero => simp [acqBound] at hb
    | succ n =>
      simp only [acqBound] at hb
      split at hb
      · rename_i a c ha hc
        simp only [Option.some.injEq] at hb
        have h₁ := ih n a ha
        omega
      · simp at hb
  | @altL p q π o _ ih =>
    intro n b hb
    cases n with
    | zero => simp [acqBound] at hb
    | succ n =>
      simp only [acqBound] at hb
      split at hb
      · rename_i a c ha hc
        simp only [Option.some.injEq] at hb
        have h₁ := ih n a ha
        omega
      · simp at hb
  | @altR p q π o _ ih =>
    intro n b hb
    cases n with
    | zero => simp [acqBound] at hb
    | succ n =>
      simp only [acqBound] at hb
      split at hb
      · rename_i a c ha hc
        simp only [Option.some.injEq] at hb
        have h₁ := ih n c hc
        omega
      · simp at hb
  | loopDone => intro n b hb; simp [countAcq]
  | @loopStep p π₁ π₂ o _ _ ih₁ ih₂ =>
    intro n b hb
    cases n with
    | zero => simp [acqBound] at hb
    | succ n =>
      have hb' := hb
      simp only [acqBound] at hb
      split at hb
      · rename_i hp
        simp only [Option.some.injEq] at hb
        have h₁ := ih₁ n 0 hp
        have h₂ := ih₂ (n + 1) b hb'
        rw [countAcq_append]; omega
      · simp at hb
  | @loopBrk p π _ ih =>
    intro n b hb
    cases n with
    | zero => simp [acqBound] at hb
    | succ n =>
      simp only [acqBound] at hb
      split at hb
      · rename_i hp
        have h₁ := ih n 0 hp
        omega
      · simp at hb
  | @loopRet p π _ ih =>
    intro n b hb
    cases n with
    | zero => simp [acqBound] at hb
    | succ n =>
      simp only [acqBound] at hb
      split at hb
      · rename_i hp
        have h₁ := ih n 0 hp
        omega
      · simp at hb
  | ret => intro n b hb; simp [countAcq]
  | brk => intro n b hb; simp [countAcq]

/-! ### concrete paths (non-vacuity witnesses) -/

theorem runPath_sound {T : List Fn} : ∀ (n : Nat) (p : Prog) (cs : List Bool) (π : List Ev) (o : Out) (cs' : List Bool),
    runPath T n p cs = some (π, o, cs') → Exec T p π o := by
  intro n
  induction n with
  | zero => intro p cs π o cs' h; simp [runPath] at h
  | succ n ih =>
    intro p cs π o cs' h
    cases p with
    | skip =>
      simp only [runPath, Option.some.injEq, Prod.mk.injEq] at h
      obtain ⟨rfl, rfl, _⟩ := h; exact .skip
    | act a =>
      cases a with
      | acq m l ln =>
        simp only [runPath, Option.some.injEq, Prod.mk.injEq] at h
        obtain ⟨rfl, rfl, _⟩ := h; exact .acq
      | rel l ln =>
        simp only [runPath, Option.some.injEq, Prod.mk.injEq] at h
        obtain ⟨rfl, rfl, _⟩ := h; exact .rel
      | rd x ln =>
        simp only [runPath, Option.some.injEq, Prod.mk.injEq] at h
        obtain ⟨rfl, rfl, _⟩ := h; exact .rd
      | wr x ln =>
        simp only [runPath, Option.some.injEq, Prod.mk.injEq] at h
        obtain ⟨rfl, rfl, _⟩ := h; exact .wr 0
      | ext ln =>
        simp only [runPath, Option.some.injEq, Prod.mk.injEq] at h
        obtain ⟨rfl, rfl, _⟩ := h; exact .ext
      | cb q ln =>
        simp only [runPath, Option.some.injEq, Prod.mk.injEq] at h
        obtain ⟨rfl, rfl, _⟩ := h; exact .cbFree
      | unknown ln =>
        simp only [runPath, Option.some.injEq, Prod.mk.injEq] at h
        obtain ⟨rfl, rfl, _⟩ := h; exact .unknown
      | call f tm cbs ln =>
        simp only [runPath] at h
        split at h
        · simp at h
        · rename_i fn hf
          split at h
          · simp at h
          · rename_i π₁ o₁ cs₁ hnb hr
            simp only [Option.some.injEq, Prod.mk.injEq] at h
            obtain ⟨rfl, rfl, _⟩ := h
            refine .call hf (ih _ _ _ _ _ hr) ?_
            intro ho; subst ho; exact hnb rfl
          · simp at h
    | seq p q =>
      simp only [runPath] at h
      split at h
      · rename_i π₁ cs₁ hp
        split at h
        · rename_i π₂ o₂ cs₂ hq
          simp only [Option.some.injEq, Prod.mk.injEq] at h
          obtain ⟨rfl, rfl, _⟩ := h
          exact .seqNorm (ih _ _ _ _ _ hp) (ih _ _ _ _ _ hq)
        · simp at h
      · rename_i r hne
        have hx := ih _ _ _ _ _ h
        refine .seqStop hx ?_
        intro ho; subst ho; exact hne _ _ h
    | alt p q =>
      simp only [runPath] at h
      split at h
      · exact .altR (ih _ _ _ _ _ h)
      · exact .altL (ih _ _ _ _ _ h)
      · exact .altL (ih _ _ _ _ _ h)
    | loop p =>
      simp only [runPath] at h
      split at h
      · rename_i cs₀
        split at h
        · rename_i π₁ cs₁ hp
          split at h
          · rename_i π₂ o₂ cs₂ hq
            simp only [Option.some.injEq, Prod.mk.injEq] at h
            obtain ⟨rfl, rfl, _⟩ := h
            exact .loopStep (ih _ _ _ _ _ hp) (ih _ _ _ _ _ hq)
          · simp at h
        · rename_i π₁ cs₁ hp
          simp only [Option.some.injEq, Prod.mk.injEq] at h
          obtain ⟨rfl, rfl, _⟩ := h
          exact .loopBrk (ih _ _ _ _ _ hp)
        · rename_i r hn1 hn2
          have hx := ih _ _ _ _ _ h
          cases o with
          | norm => exact absurd h (hn1 _ _)
          | brk => exact absurd h (hn2 _ _)
          | ret => exact .loopRet hx
      · simp only [Option.some.injEq, Prod.mk.injEq] at h
        obtain ⟨rfl, rfl, _⟩ := h; exact .loopDone
      · simp only [Option.some.injEq, Prod.mk.injEq] at h
        obtain ⟨rfl, rfl, _⟩ := h; exact .loopDone
    | ret =>
      simp only [runPath, Option.some.injEq, Prod.mk.injEq] at h
      obtain ⟨rfl, rfl, _⟩ := h; exact .ret
    | brk =>
      simp only [runPath, Option.some.injEq, Prod.mk.injEq] at h
      obtain ⟨rfl, rfl, _⟩ := h; exact .brk

end Rtr.Locks
