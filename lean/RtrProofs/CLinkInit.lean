/-
  CLinkInit: the translation of `rtr_init` (rtrlib/rtr/rtr.c; the six pointer parameters are identities that are only stored into pointer
  members the structure does not model, or tested against NULL) against its specification, for every socket and every argument:

    * `rtr_init_eq`   the three intervals are checked against the RFC 8210 ranges (refresh 1..86400, expire 600..172800, retry 1..7200);
                      outside: RTR_INVALID_PARAM and the socket's modelled fields are untouched; inside: RTR_SUCCESS and exactly the fields
                      listed are written - the intervals and the mode as given, state CLOSED, request_session_id, serial 0, last_update 0,
                      no thread, the maximal protocol version, has_received_pdus and is_resetting cleared.  `session_id` is NOT written
                      (frame condition: `{ s with … }`).
    * `initInRange_iff_C17`, `rtr_init_ok_iff_model`  the acceptance condition is `C17.InRange` (RFC 8210 constants), i.e. the C text accepts
                      exactly when the model's `rtrInit` (over which `C17.init_rejects_out_of_range` is stated) does.
-/
import RtrProofs.CLinkIntervals

namespace Rtr.CLink
open Rtr Rtr.Gen Rtr.Intervals

/-- what `rtr_init` leaves in the modelled fields of the socket on success -/
def initSock (s : C.S_rtr_socket) (refresh expire retry mode : BitVec 32) : C.S_rtr_socket :=
  { s with refresh_interval := refresh, expire_interval := expire, retry_interval := retry, iv_mode := mode, state := 10#32,
           request_session_id := true, serial_number := 0#32, last_update := 0#64, thread_id := 0#64, version := 1#32,
           has_received_pdus := false, is_resetting := false }

def initInRange (refresh expire retry : BitVec 32) : Prop :=
  (1 ≤ refresh.toNat ∧ refresh.toNat ≤ 86400) ∧ (600 ≤ expire.toNat ∧ expire.toNat ≤ 172800) ∧ (1 ≤ retry.toNat ∧ retry.toNat ≤ 7200)

instance (a b c : BitVec 32) : Decidable (initInRange a b c) := by unfold initInRange; infer_instance

private theorem initRangeCases (i lo hi : BitVec 32) :
    C.rtr_check_interval_range i lo hi = some (if lo.toNat ≤ i.toNat ∧ i.toNat ≤ hi.toNat then 0#32 else if i.toNat < lo.toNat then 4294967295#32 else 1#32) := by
  unfold C.rtr_check_interval_range
  simp only [BitVec.ult_eq_decide, decide_eq_true_eq]
  by_cases h1 : i.toNat < lo.toNat
  · rw [if_pos h1, if_neg (by omega), if_pos h1]
  · rw [if_neg h1]
    by_cases h2 : hi.toNat < i.toNat
    · rw [if_pos h2, if_neg (by omega), if_neg h1]
    · rw [if_neg h2, if_pos (by omega)]

/-- **link**: `rtr_init` as translated from the C text, for all arguments -/
theorem rtr_init_eq (s : C.S_rtr_socket) (tr pt st : BitVec 64) (refresh expire retry mode : BitVec 32) (fp a b : BitVec 64) :
    C.rtr_init s tr pt st refresh expire retry mode fp a b =
      some (if initInRange refresh expire retry then (0#32, initSock s refresh expire retry mode) else (4294967294#32, s)) := by
  unfold C.rtr_init
  simp only [initRangeCases, ite_self]
  have e1 : (1#32).toNat = 1 := rfl
  have e2 : (86400#32).toNat = 86400 := rfl
  have e3 : (600#32).toNat = 600 := rfl
  have e4 : (172800#32).toNat = 172800 := rfl
  have e5 : (7200#32).toNat = 7200 := rfl
  simp only [e1, e2, e3, e4, e5]
  unfold initInRange
  by_cases h1 : 1 ≤ refresh.toNat ∧ refresh.toNat ≤ 86400
  · by_cases h2 : 600 ≤ expire.toNat ∧ expire.toNat ≤ 172800
    · by_cases h3 : 1 ≤ retry.toNat ∧ retry.toNat ≤ 7200
      · simp [h1, h2, h3, initSock]
      · have : ¬ ((1 ≤ refresh.toNat ∧ refresh.toNat ≤ 86400) ∧ (600 ≤ expire.toNat ∧ expire.toNat ≤ 172800) ∧ (1 ≤ retry.toNat ∧ retry.toNat ≤ 7200)) :=
          fun q => h3 q.2.2
        by_cases q : retry.toNat < 1 <;> simp [this, h1, h2, h3, q]
    · have : ¬ ((1 ≤ refresh.toNat ∧ refresh.toNat ≤ 86400) ∧ (600 ≤ expire.toNat ∧ expire.toNat ≤ 172800) ∧ (1 ≤ retry.toNat ∧ retry.toNat ≤ 7200)) :=
        fun q => h2 q.2.1
      by_cases q : expire.toNat < 600 <;> simp [this, h1, h2, q]
  · have : ¬ ((1 ≤ refresh.toNat ∧ refresh.toNat ≤ 86400) ∧ (600 ≤ expire.toNat ∧ expire.toNat ≤ 172800) ∧ (1 ≤ retry.toNat ∧ retry.toNat ≤ 7200)) :=
      fun q => h1 q.1
    by_cases q : refresh.toNat < 1 <;> simp [this, h1, q]

/-- out-of-range intervals: refused, nothing modelled is written -/
theorem rtr_init_rejects (s : C.S_rtr_socket) (tr pt st : BitVec 64) (refresh expire retry mode : BitVec 32) (fp a b : BitVec 64)
    (h : ¬ initInRange refresh expire retry) :
    C.rtr_init s tr pt st refresh expire retry mode fp a b = some (4294967294#32, s) := by
  rw [rtr_init_eq, if_neg h]

/-- a socket that `rtr_init` accepted starts with the session part cleared, at the maximal version, CLOSED, with the given timers -/
theorem rtr_init_accepts (s : C.S_rtr_socket) (tr pt st : BitVec 64) (refresh expire retry mode : BitVec 32) (fp a b : BitVec 64)
    (h : initInRange refresh expire retry) :
    ∃ s', C.rtr_init s tr pt st refresh expire retry mode fp a b = some (0#32, s') ∧ s'.request_session_id = true ∧ s'.last_update = 0#64 ∧
      s'.serial_number = 0#32 ∧ s'.version = 1#32 ∧ s'.has_received_pdus = false ∧ s'.is_resetting = false ∧ s'.session_id = s.session_id ∧
      s'.refresh_interval = refresh ∧ s'.expire_interval = expire ∧ s'.retry_interval = retry ∧ s'.iv_mode = mode := by
  refine ⟨initSock s refresh expire retry mode, ?_, rfl, rfl, rfl, rfl, rfl, rfl, rfl, rfl, rfl, rfl, rfl⟩
  rw [rtr_init_eq, if_pos h]

/-- the acceptance condition of the C text is the RFC 8210 range predicate of the C17 theorems -/
theorem initInRange_iff_C17 (refresh expire retry : BitVec 32) :
    initInRange refresh expire retry ↔ C17.InRange refresh.toNat expire.toNat retry.toNat := Iff.rfl

/-- the C text accepts exactly when the model's `rtrInit` does -/
theorem rtr_init_ok_iff_model (s : C.S_rtr_socket) (tr pt st : BitVec 64) (refresh expire retry mode : BitVec 32) (fp a b : BitVec 64) (m : Int) :
    ((C.rtr_init s tr pt st refresh expire retry mode fp a b).map (fun r => r.1) = some 0#32) ↔
      (rtrInit (UInt32.ofBitVec refresh) (UInt32.ofBitVec expire) (UInt32.ofBitVec retry) m).1 = Gen.RTR_SUCCESS := by
  rw [rtr_init_eq]
  have hm := C17.init_rejects_out_of_range (UInt32.ofBitVec refresh) (UInt32.ofBitVec expire) (UInt32.ofBitVec retry) m
  simp only [UInt32.toNat_ofBitVec] at hm
  by_cases h : initInRange refresh expire retry
  · rw [if_pos h, hm.1 ((initInRange_iff_C17 _ _ _).1 h)]
    simp
  · rw [if_neg h, hm.2 (fun q => h ((initInRange_iff_C17 _ _ _).2 q))]
    simp [Gen.RTR_INVALID_PARAM, Gen.RTR_SUCCESS]

/-- the hypotheses are satisfiable and the two outcomes are distinct -/
example : initInRange 3600#32 7200#32 600#32 ∧ ¬ initInRange 0#32 7200#32 600#32 := by decide

end Rtr.CLink
