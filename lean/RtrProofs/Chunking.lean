/-
  Chunking: the outcome of reception does not depend on how the byte stream is split into reads.

  * `flat` is the byte-level view of a tape (every `rx` chunk exploded into its bytes, the other
    events kept in place); `mergeRx` is the tape with adjacent `rx` chunks merged; two tapes have the
    same `mergeRx` iff they have the same `flat`.
  * `specGo` is `tr_recv_all` computed on the byte-level view alone; `recvAll_spec` shows that the
    loop of `tr_recv_all` over the real, chunked tape computes exactly that (result code, bytes,
    clock, stop flag, remaining stream), whatever the chunking.  Everything else follows.
-/
import RtrModel.Rtr

namespace Rtr.P

/-! ## the lines a `tr_recv` call writes to the trace -/

/-- a trace line written by `trRecv` (they all start with "R ") -/
def isRecvLine (s : String) : Bool := s.toList.take 2 == ['R', ' ']

/-- the trace without the lines of the individual recv calls -/
def dropRecv (tr : List String) : List String := tr.filter fun l => !isRecvLine l

theorem isRecvLine_append (s t : String) (h : isRecvLine s = true) : isRecvLine (s ++ t) = true := by
  unfold isRecvLine at *
  rw [String.toList_append]
  have hl : 2 ≤ s.toList.length := by
    have := congrArg List.length (eq_of_beq h)
    simp only [List.length_take, List.length_cons, List.length_nil] at this
    omega
  rw [List.take_append_of_le_length hl]
  exact h

theorem isRecvLine_R (t : String) : isRecvLine ("R " ++ t) = true := by
  unfold isRecvLine
  rw [String.toList_append]
  rfl

theorem isRecvLine_4 (a b c d : String) : isRecvLine ("R " ++ a ++ b ++ c ++ d) = true :=
  isRecvLine_append _ _ (isRecvLine_append _ _ (isRecvLine_append _ _ (isRecvLine_R a)))

theorem isRecvLine_7 (a b c d e f g : String) :
    isRecvLine ("R " ++ a ++ b ++ c ++ d ++ e ++ f ++ g) = true :=
  isRecvLine_append _ _ (isRecvLine_append _ _ (isRecvLine_append _ _ (isRecvLine_4 a b c d)))

theorem dropRecv_cons_recv (l : String) (tr : List String) (h : isRecvLine l = true) :
    dropRecv (l :: tr) = dropRecv tr := by
  simp [dropRecv, h]

theorem dropRecv_cons_congr (l : String) {tr tr' : List String} (h : dropRecv tr = dropRecv tr') :
    dropRecv (l :: tr) = dropRecv (l :: tr') := by
  simp only [dropRecv, List.filter_cons] at *
  rw [h]

/-! ## the byte-level view of a tape -/

inductive Sym where
  | byte (b : Nat)
  | dt (d : Nat)
  | err | block | intr | closed
deriving DecidableEq, Repr

def symOf : TapeEv → List Sym
  | .rx bs => bs.map Sym.byte
  | .dt d => [.dt d]
  | .err => [.err]
  | .block => [.block]
  | .intr => [.intr]
  | .closed => [.closed]

/-- every chunk exploded into its bytes -/
def flat : List TapeEv → List Sym
  | [] => []
  | e :: t => symOf e ++ flat t

/-- the bytes of a byte-level stream -/
def symBytes : List Sym → List Nat
  | [] => []
  | .byte b :: s => b :: symBytes s
  | _ :: s => symBytes s

/-- the concatenation of the `rx` chunks of a tape -/
def tapeBytes : List TapeEv → List Nat
  | [] => []
  | .rx bs :: t => bs ++ tapeBytes t
  | _ :: t => tapeBytes t

/-- no empty chunk (a successful `tr_recv` delivers at least one byte) -/
def TapeOk (t : List TapeEv) : Prop := ∀ bs, TapeEv.rx bs ∈ t → bs ≠ []

/-- only data and time: no transport fault on the tape -/
def Sym.quiet : Sym → Bool
  | .byte _ => true
  | .dt _ => true
  | _ => false

def TapeEv.quiet : TapeEv → Bool
  | .rx bs => !bs.isEmpty
  | .dt _ => true
  | _ => false

def TapeEv.isData : TapeEv → Bool
  | .rx bs => !bs.isEmpty
  | _ => false

/-- a tape of non-empty chunks and clock advances only -/
def Quiet (t : List TapeEv) : Prop := ∀ e ∈ t, e.quiet = true

/-- a tape of non-empty chunks only -/
def FaultFree (t : List TapeEv) : Prop := ∀ e ∈ t, e.isData = true

instance (t : List TapeEv) : Decidable (Quiet t) := by unfold Quiet; infer_instance
instance (t : List TapeEv) : Decidable (FaultFree t) := by unfold FaultFree; infer_instance

theorem tapeOk_nil : TapeOk [] := by intro bs h; cases h

theorem tapeOk_cons (e : TapeEv) (t : List TapeEv) :
    TapeOk (e :: t) ↔ (∀ bs, e = .rx bs → bs ≠ []) ∧ TapeOk t := by
  unfold TapeOk
  constructor
  · intro h
    exact ⟨fun bs he => h bs (by rw [he]; exact List.mem_cons_self), fun bs hm => h bs (List.mem_cons_of_mem _ hm)⟩
  · intro h bs hm
    rcases List.mem_cons.1 hm with he | hm
    · exact h.1 bs he.symm
    · exact h.2 bs hm

theorem tapeOk_tail {e : TapeEv} {t : List TapeEv} (h : TapeOk (e :: t)) : TapeOk t :=
  ((tapeOk_cons e t).1 h).2

theorem Quiet.tapeOk {t : List TapeEv} (h : Quiet t) : TapeOk t := by
  intro bs hm hb
  have := h _ hm
  subst hb
  simp [TapeEv.quiet] at this

theorem FaultFree.quiet {t : List TapeEv} (h : FaultFree t) : Quiet t := by
  intro e hm
  have := h e hm
  cases e <;> simp_all [TapeEv.quiet, TapeEv.isData]

theorem symBytes_append (a b : List Sym) : symBytes (a ++ b) = symBytes a ++ symBytes b := by
  induction a with
  | nil => rfl
  | cons x a ih => cases x <;> simp [symBytes, ih]

theorem symBytes_map_byte (bs : List Nat) : symBytes (bs.map Sym.byte) = bs := by
  induction bs with
  | nil => rfl
  | cons b bs ih => simp [symBytes, ih]

theorem tapeBytes_eq (t : List TapeEv) : tapeBytes t = symBytes (flat t) := by
  induction t with
  | nil => rfl
  | cons e t ih =>
    cases e <;> simp [tapeBytes, flat, symOf, symBytes_append, symBytes_map_byte, symBytes, ih]

theorem flat_append (a b : List TapeEv) : flat (a ++ b) = flat a ++ flat b := by
  induction a with
  | nil => rfl
  | cons e a ih => simp [flat, ih]

theorem tapeBytes_append (a b : List TapeEv) : tapeBytes (a ++ b) = tapeBytes a ++ tapeBytes b := by
  rw [tapeBytes_eq, tapeBytes_eq, tapeBytes_eq, flat_append, symBytes_append]

theorem quiet_flat {t : List TapeEv} (h : Quiet t) : ∀ x ∈ flat t, x.quiet = true := by
  induction t with
  | nil => intro x hx; cases hx
  | cons e t ih =>
    intro x hx
    simp only [flat, List.mem_append] at hx
    rcases hx with hx | hx
    · have he := h e List.mem_cons_self
      cases e <;> simp_all [symOf, TapeEv.quiet, Sym.quiet]
      · rcases hx with ⟨_, _, rfl⟩; rfl
    · exact ih (fun e' hm => h e' (List.mem_cons_of_mem _ hm)) x hx

/-- splitting a chunk in two (or merging two adjacent chunks) does not change the byte-level view -/
theorem flat_split (a b : List Nat) (t : List TapeEv) :
    flat (.rx a :: .rx b :: t) = flat (.rx (a ++ b) :: t) := by
  simp [flat, symOf]

/-! ## adjacent chunks merged -/

def unflat : List Sym → List TapeEv
  | [] => []
  | .byte b :: s =>
    match unflat s with
    | .rx bs :: t => .rx (b :: bs) :: t
    | t => .rx [b] :: t
  | .dt d :: s => .dt d :: unflat s
  | .err :: s => .err :: unflat s
  | .block :: s => .block :: unflat s
  | .intr :: s => .intr :: unflat s
  | .closed :: s => .closed :: unflat s

/-- the tape with every run of adjacent `rx` chunks merged into one chunk -/
def mergeRx (t : List TapeEv) : List TapeEv := unflat (flat t)

theorem flat_unflat (s : List Sym) : flat (unflat s) = s := by
  induction s with
  | nil => rfl
  | cons x s ih =>
    cases x with
    | byte b =>
      simp only [unflat]
      split
      · rename_i bs t h
        rw [h] at ih
        simp only [flat, symOf, List.map_cons, List.cons_append] at ih ⊢
        rw [ih]
      · rename_i h
        simp only [flat, symOf, List.map_cons, List.map_nil, List.cons_append, List.nil_append]
        rw [ih]
    | dt d => simp [unflat, flat, symOf, ih]
    | err => simp [unflat, flat, symOf, ih]
    | block => simp [unflat, flat, symOf, ih]
    | intr => simp [unflat, flat, symOf, ih]
    | closed => simp [unflat, flat, symOf, ih]

theorem flat_mergeRx (t : List TapeEv) : flat (mergeRx t) = flat t := flat_unflat _

/-- equal after merging adjacent chunks ⇔ equal byte-level view -/
theorem mergeRx_eq_iff (t t' : List TapeEv) : mergeRx t = mergeRx t' ↔ flat t = flat t' := by
  constructor
  · intro h
    have := congrArg flat h
    rwa [flat_mergeRx, flat_mergeRx] at this
  · intro h; unfold mergeRx; rw [h]

theorem mergeRx_idem (t : List TapeEv) : mergeRx (mergeRx t) = mergeRx t := by
  unfold mergeRx; rw [flat_unflat]

theorem mergeRx_split (a b : List Nat) (t : List TapeEv) :
    mergeRx (.rx a :: .rx b :: t) = mergeRx (.rx (a ++ b) :: t) := by
  unfold mergeRx; rw [flat_split]

/-! ## `tr_recv_all` on the byte-level view -/

structure SpecRes where
  rc : Int
  bytes : List Nat
  rest : List Sym
  now : Int
  stop : Bool

/-- `tr_recv_all(len)` on a byte-level stream: `now` = the clock, `cn` = the clock when the pending
    `tr_recv` call was made (the timeout handed to it is `endTime - cn`), `acc` = bytes so far -/
def specGo (len : Nat) (endTime : Int) (thr : Bool) : List Sym → Int → Int → List Nat → SpecRes
  | [], now, _, acc =>
    if acc.length < len then ⟨-1, acc, [], now, thr⟩ else ⟨acc.length, acc, [], now, false⟩
  | .byte b :: s, now, _, acc =>
    if acc.length < len then specGo len endTime thr s now now (acc ++ [b])
    else ⟨acc.length, acc, .byte b :: s, now, false⟩
  | .dt d :: s, now, cn, acc =>
    if acc.length < len then specGo len endTime thr s (now + d) cn acc
    else ⟨acc.length, acc, .dt d :: s, now, false⟩
  | .err :: s, now, _, acc =>
    if acc.length < len then ⟨-1, acc, s, now, false⟩ else ⟨acc.length, acc, .err :: s, now, false⟩
  | .block :: s, now, cn, acc =>
    if acc.length < len then ⟨-2, acc, s, if endTime - cn > 0 then now + (endTime - cn) else now, false⟩
    else ⟨acc.length, acc, .block :: s, now, false⟩
  | .intr :: s, now, _, acc =>
    if acc.length < len then ⟨-3, acc, s, now, false⟩ else ⟨acc.length, acc, .intr :: s, now, false⟩
  | .closed :: s, now, _, acc =>
    if acc.length < len then ⟨-4, acc, s, now, false⟩ else ⟨acc.length, acc, .closed :: s, now, false⟩

theorem specGo_done {len : Nat} {endTime : Int} {thr : Bool} {s : List Sym} {now cn : Int} {acc : List Nat}
    (h : ¬ acc.length < len) : specGo len endTime thr s now cn acc = ⟨acc.length, acc, s, now, false⟩ := by
  cases s with
  | nil => simp [specGo, h]
  | cons x s => cases x <;> simp [specGo, h]

theorem specGo_bytes (len : Nat) (endTime : Int) (thr : Bool) (s : List Sym) (now : Int) :
    ∀ (bs : List Nat) (b : Nat) (cn : Int) (acc : List Nat), acc.length + (b :: bs).length ≤ len →
      specGo len endTime thr ((b :: bs).map Sym.byte ++ s) now cn acc =
        specGo len endTime thr s now now (acc ++ b :: bs) := by
  intro bs
  induction bs with
  | nil =>
    intro b cn acc h
    simp only [List.length_cons, List.length_nil] at h
    have : acc.length < len := by omega
    simp [specGo, this]
  | cons b' bs ih =>
    intro b cn acc h
    simp only [List.length_cons] at h
    have hl : acc.length < len := by omega
    have := ih b' now (acc ++ [b]) (by simp only [List.length_append, List.length_cons, List.length_nil]; omega)
    simp only [List.map_cons, List.cons_append, specGo, hl, if_true] at this ⊢
    rw [this, List.append_assoc]
    rfl

/-! ## one `tr_recv` call, read on the byte-level view -/

theorem emit_trace (n : Net) (l : String) : (n.emit l).trace = l :: n.trace := rfl

/-- the fields of `b` that a recv call leaves alone are those of `a` -/
structure SameRest (a b : Net) : Prop where
  sendQ : b.sendQ = a.sendQ
  openQ : b.openQ = a.openQ
  threaded : b.threaded = a.threaded
  trace : dropRecv b.trace = dropRecv a.trace

theorem SameRest.refl (a : Net) : SameRest a a := ⟨rfl, rfl, rfl, rfl⟩

theorem SameRest.trans {a b c : Net} (h1 : SameRest a b) (h2 : SameRest b c) : SameRest a c :=
  ⟨h2.sendQ.trans h1.sendQ, h2.openQ.trans h1.openQ, h2.threaded.trans h1.threaded, h2.trace.trans h1.trace⟩

theorem trRecvGo_chunk_spec (n0 : Net) (len : Nat) (endTime cn : Int) (acc : List Nat) (hacc : acc.length < len) :
    ∀ (tape : List TapeEv) (now : Int), TapeOk tape →
    ∀ (rc : Int) (got : List Nat) (n' : Net) (stop : Bool),
      trRecvGo n0 (len - acc.length) (endTime - cn) tape now = (rc, got, n', stop) →
      TapeOk n'.tape ∧ SameRest n0 n' ∧
      (0 ≤ rc → rc = got.length ∧ 0 < got.length ∧ acc.length + got.length ≤ len) ∧
      specGo len endTime n0.threaded (flat tape) now cn acc =
        if rc < 0 then ⟨rc, acc, flat n'.tape, n'.now, stop⟩
        else specGo len endTime n0.threaded (flat n'.tape) n'.now n'.now (acc ++ got) := by
  intro tape
  induction tape with
  | nil =>
    intro now _ rc got n' stop h
    simp only [trRecvGo, Prod.mk.injEq] at h
    obtain ⟨rfl, rfl, rfl, rfl⟩ := h
    refine ⟨tapeOk_nil, ⟨rfl, rfl, rfl, ?_⟩, ?_, ?_⟩
    · simp only [emit_trace, toString]
      exact dropRecv_cons_recv _ _ (isRecvLine_4 _ _ _ _)
    · intro h; simp at h
    · simp [specGo, hacc, flat, Net.emit]
  | cons e rest ih =>
    intro now hok rc got n' stop h
    have hrest := tapeOk_tail hok
    cases e with
    | dt d =>
      simp only [trRecvGo] at h
      have := ih (now + d) hrest rc got n' stop h
      simpa only [flat, symOf, List.cons_append, List.nil_append, specGo, hacc, if_true] using this
    | err =>
      simp only [trRecvGo, Prod.mk.injEq] at h
      obtain ⟨rfl, rfl, rfl, rfl⟩ := h
      refine ⟨hrest, ⟨rfl, rfl, rfl, ?_⟩, ?_, ?_⟩
      · simp only [emit_trace, toString]
        exact dropRecv_cons_recv _ _ (isRecvLine_4 _ _ _ _)
      · intro h; simp at h
      · simp [specGo, hacc, flat, symOf, Net.emit]
    | block =>
      simp only [trRecvGo, Prod.mk.injEq] at h
      obtain ⟨rfl, rfl, rfl, rfl⟩ := h
      refine ⟨hrest, ⟨rfl, rfl, rfl, ?_⟩, ?_, ?_⟩
      · simp only [emit_trace, toString]
        exact dropRecv_cons_recv _ _ (isRecvLine_4 _ _ _ _)
      · intro h; simp at h
      · simp [specGo, hacc, flat, symOf, Net.emit]
    | intr =>
      simp only [trRecvGo, Prod.mk.injEq] at h
      obtain ⟨rfl, rfl, rfl, rfl⟩ := h
      refine ⟨hrest, ⟨rfl, rfl, rfl, ?_⟩, ?_, ?_⟩
      · simp only [emit_trace, toString]
        exact dropRecv_cons_recv _ _ (isRecvLine_4 _ _ _ _)
      · intro h; simp at h
      · simp [specGo, hacc, flat, symOf, Net.emit]
    | closed =>
      simp only [trRecvGo, Prod.mk.injEq] at h
      obtain ⟨rfl, rfl, rfl, rfl⟩ := h
      refine ⟨hrest, ⟨rfl, rfl, rfl, ?_⟩, ?_, ?_⟩
      · simp only [emit_trace, toString]
        exact dropRecv_cons_recv _ _ (isRecvLine_4 _ _ _ _)
      · intro h; simp at h
      · simp [specGo, hacc, flat, symOf, Net.emit]
    | rx bytes =>
      have hb : bytes ≠ [] := ((tapeOk_cons _ _).1 hok).1 bytes rfl
      have hbl : 0 < bytes.length := List.length_pos_iff.2 hb
      have hk : 0 < min bytes.length (len - acc.length) := by omega
      have hgot : (bytes.take (min bytes.length (len - acc.length))).length = min bytes.length (len - acc.length) := by
        simp only [List.length_take]; omega
      have hflat : flat (if (bytes.drop (min bytes.length (len - acc.length))).isEmpty then rest
            else .rx (bytes.drop (min bytes.length (len - acc.length))) :: rest) =
          (bytes.drop (min bytes.length (len - acc.length))).map Sym.byte ++ flat rest := by
        split
        · rename_i he
          rw [List.isEmpty_iff.1 he]; rfl
        · rfl
      simp only [trRecvGo, Prod.mk.injEq] at h
      obtain ⟨rfl, rfl, rfl, rfl⟩ := h
      refine ⟨?_, ⟨rfl, rfl, rfl, ?_⟩, ?_, ?_⟩
      · simp only [Net.emit]
        split
        · exact hrest
        · rename_i he
          rw [tapeOk_cons]
          refine ⟨?_, hrest⟩
          intro bs hbs
          cases hbs
          intro h0
          rw [h0] at he
          exact he rfl
      · simp only [emit_trace, toString]
        exact dropRecv_cons_recv _ _ (isRecvLine_7 _ _ _ _ _ _ _)
      · intro _
        rw [hgot]
        refine ⟨rfl, hk, ?_⟩
        omega
      · simp only [Net.emit]
        have hnn : ¬ ((min bytes.length (len - acc.length) : Nat) : Int) < 0 := by omega
        rw [if_neg hnn, hflat]
        have hsplit : flat (.rx bytes :: rest) =
            (bytes.take (min bytes.length (len - acc.length))).map Sym.byte ++
              ((bytes.drop (min bytes.length (len - acc.length))).map Sym.byte ++ flat rest) := by
          simp only [flat, symOf]
          rw [← List.append_assoc, ← List.map_append, List.take_append_drop]
        rw [hsplit]
        rcases hg : bytes.take (min bytes.length (len - acc.length)) with _ | ⟨g, gs⟩
        · rw [hg] at hgot; simp at hgot; omega
        · rw [hg] at hgot
          exact specGo_bytes len endTime n0.threaded _ now gs g cn acc (by rw [hgot]; omega)

/-! ## the loop of `tr_recv_all` computes `specGo` -/

theorem recvAllLoop_spec (len : Nat) (endTime : Int) :
    ∀ (fuel : Nat) (n : Net) (acc : List Nat), TapeOk n.tape → acc.length ≤ len → len - acc.length < fuel →
    ∀ (rc : Int) (got : List Nat) (n' : Net) (stop : Bool),
      recvAllLoop len endTime fuel n acc = (rc, got, n', stop) →
      TapeOk n'.tape ∧ SameRest n n' ∧
      specGo len endTime n.threaded (flat n.tape) n.now n.now acc = ⟨rc, got, flat n'.tape, n'.now, stop⟩ := by
  intro fuel
  induction fuel with
  | zero => intro n acc _ _ hf; omega
  | succ fuel ih =>
    intro n acc hok hle hf rc got n' stop h
    unfold recvAllLoop at h
    by_cases hlt : acc.length < len
    · rw [if_pos hlt] at h
      rcases hr : trRecv n (len - acc.length) (endTime - n.now) with ⟨rc1, got1, n1, stop1⟩
      rw [hr] at h
      simp only at h
      obtain ⟨hok1, hsr1, hlen1, hspec1⟩ :=
        trRecvGo_chunk_spec n len endTime n.now acc hlt n.tape n.now hok rc1 got1 n1 stop1 hr
      by_cases hneg : rc1 < 0
      · rw [if_pos hneg] at h
        simp only [Prod.mk.injEq] at h
        obtain ⟨rfl, rfl, rfl, rfl⟩ := h
        rw [if_pos hneg] at hspec1
        exact ⟨hok1, hsr1, hspec1⟩
      · rw [if_neg hneg] at h
        rw [if_neg hneg] at hspec1
        obtain ⟨_, hpos, hbound⟩ := hlen1 (by omega)
        have := ih n1 (acc ++ got1) hok1 (by simp only [List.length_append]; omega)
          (by simp only [List.length_append]; omega) rc got n' stop h
        obtain ⟨hok2, hsr2, hspec2⟩ := this
        refine ⟨hok2, hsr1.trans hsr2, ?_⟩
        rw [hspec1, ← hsr1.threaded, hspec2]
    · rw [if_neg hlt] at h
      simp only [Prod.mk.injEq] at h
      obtain ⟨rfl, rfl, rfl, rfl⟩ := h
      exact ⟨hok, SameRest.refl _, specGo_done hlt⟩

/-- **`tr_recv_all` is a function of the byte-level view**: result code, bytes, stop flag, clock and
    remaining stream are those of `specGo`; the other fields of the environment are untouched and
    the trace only gains lines of recv calls. -/
theorem recvAll_spec (n : Net) (len : Nat) (timeout : Int) (hok : TapeOk n.tape)
    (rc : Int) (got : List Nat) (n' : Net) (stop : Bool) (h : recvAll n len timeout = (rc, got, n', stop)) :
    TapeOk n'.tape ∧ SameRest n n' ∧
    specGo len (n.now + timeout) n.threaded (flat n.tape) n.now n.now [] = ⟨rc, got, flat n'.tape, n'.now, stop⟩ :=
  recvAllLoop_spec len (n.now + timeout) (len + 1) n [] hok (Nat.zero_le _) (by simp) rc got n' stop h

/-! ## facts about `specGo` -/

/-- the result code of a transport fault -/
def Sym.code : Sym → Int
  | .err => -1 | .block => -2 | .intr => -3 | .closed => -4 | _ => 0

def TapeEv.isFault : TapeEv → Bool
  | .err => true | .block => true | .intr => true | .closed => true | _ => false

/-- the `tr_rtvals` code a fault event makes `tr_recv` return -/
def TapeEv.code : TapeEv → Int
  | .err => -1 | .block => -2 | .intr => -3 | .closed => -4 | _ => 0

/-- what `specGo` consumed is a prefix `pre` of the stream; on success the prefix holds only data
    and clock advances, and its bytes are exactly the bytes delivered -/
theorem specGo_prefix (len : Nat) (endTime : Int) (thr : Bool) :
    ∀ (s : List Sym) (now cn : Int) (acc : List Nat), acc.length ≤ len →
    ∃ pre, s = pre ++ (specGo len endTime thr s now cn acc).rest ∧
      (acc.length < len → s ≠ [] → pre ≠ []) ∧
      (0 ≤ (specGo len endTime thr s now cn acc).rc →
        (∀ x ∈ pre, x.quiet = true) ∧
        (specGo len endTime thr s now cn acc).bytes = acc ++ symBytes pre ∧
        (specGo len endTime thr s now cn acc).rc = len ∧
        (specGo len endTime thr s now cn acc).bytes.length = len ∧
        (specGo len endTime thr s now cn acc).stop = false) := by
  intro s
  induction s with
  | nil =>
    intro now cn acc hle
    refine ⟨[], ?_, ?_, ?_⟩
    · by_cases h : acc.length < len <;> simp [specGo, h]
    · intro _ h; exact absurd rfl h
    · by_cases h : acc.length < len
      · simp [specGo, h]
      · have : acc.length = len := by omega
        simp [specGo, symBytes, this]
  | cons x s ih =>
    intro now cn acc hle
    by_cases h : acc.length < len
    · cases x with
      | byte b =>
        obtain ⟨pre, h1, _, h3⟩ := ih now now (acc ++ [b]) (by simp only [List.length_append, List.length_cons, List.length_nil]; omega)
        refine ⟨.byte b :: pre, ?_, ?_, ?_⟩
        · simp only [specGo, h, if_true, List.cons_append]; rw [← h1]
        · intro _ _; exact List.cons_ne_nil _ _
        · simp only [specGo, h, if_true]
          intro hrc
          obtain ⟨q, hb, hr, hl, hs⟩ := h3 hrc
          refine ⟨?_, ?_, hr, hl, hs⟩
          · intro y hy
            rcases List.mem_cons.1 hy with rfl | hy
            · rfl
            · exact q y hy
          · rw [hb]; simp [symBytes]
      | dt d =>
        obtain ⟨pre, h1, _, h3⟩ := ih (now + d) cn acc hle
        refine ⟨.dt d :: pre, ?_, ?_, ?_⟩
        · simp only [specGo, h, if_true, List.cons_append]; rw [← h1]
        · intro _ _; exact List.cons_ne_nil _ _
        · simp only [specGo, h, if_true]
          intro hrc
          obtain ⟨q, hb, hr, hl, hs⟩ := h3 hrc
          refine ⟨?_, ?_, hr, hl, hs⟩
          · intro y hy
            rcases List.mem_cons.1 hy with rfl | hy
            · rfl
            · exact q y hy
          · rw [hb]; simp [symBytes]
      | err =>
        refine ⟨[.err], ?_, ?_, ?_⟩ <;> simp [specGo, h]
      | block =>
        refine ⟨[.block], ?_, ?_, ?_⟩ <;> simp [specGo, h]
      | intr =>
        refine ⟨[.intr], ?_, ?_, ?_⟩ <;> simp [specGo, h]
      | closed =>
        refine ⟨[.closed], ?_, ?_, ?_⟩ <;> simp [specGo, h]
    · have he : acc.length = len := by omega
      rw [specGo_done h]
      refine ⟨[], rfl, fun h' => absurd h' h, ?_⟩
      intro _
      simp [symBytes, he]

/-- rc is the length asked for, or one of the four negative `tr_rtvals` -/
theorem specGo_rc (len : Nat) (endTime : Int) (thr : Bool) :
    ∀ (s : List Sym) (now cn : Int) (acc : List Nat), acc.length ≤ len →
      (specGo len endTime thr s now cn acc).rc = len ∨ (specGo len endTime thr s now cn acc).rc = -1 ∨
      (specGo len endTime thr s now cn acc).rc = -2 ∨ (specGo len endTime thr s now cn acc).rc = -3 ∨
      (specGo len endTime thr s now cn acc).rc = -4 := by
  intro s
  induction s with
  | nil =>
    intro now cn acc hle
    by_cases h : acc.length < len
    · simp [specGo, h]
    · have : acc.length = len := by omega
      simp [specGo, this]
  | cons x s ih =>
    intro now cn acc hle
    by_cases h : acc.length < len
    · cases x with
      | byte b =>
        simp only [specGo, h, if_true]
        exact ih now now (acc ++ [b]) (by simp only [List.length_append, List.length_cons, List.length_nil]; omega)
      | dt d => simp only [specGo, h, if_true]; exact ih (now + d) cn acc hle
      | err => simp [specGo, h]
      | block => simp [specGo, h]
      | intr => simp [specGo, h]
      | closed => simp [specGo, h]
    · have he : acc.length = len := by omega
      rw [specGo_done h]; simp [he]

/-- enough bytes and no fault before them: success -/
theorem specGo_enough (len : Nat) (endTime : Int) (thr : Bool) :
    ∀ (s : List Sym) (now cn : Int) (acc : List Nat),
      len ≤ acc.length + (symBytes s).length →
      (∀ pre f rest, s = pre ++ f :: rest → f.quiet = false → len ≤ acc.length + (symBytes pre).length) →
      0 ≤ (specGo len endTime thr s now cn acc).rc := by
  intro s
  induction s with
  | nil =>
    intro now cn acc hen _
    simp only [symBytes, List.length_nil, Nat.add_zero] at hen
    have : ¬ acc.length < len := by omega
    rw [specGo_done this]; simp
  | cons x s ih =>
    intro now cn acc hen hf
    by_cases h : acc.length < len
    · cases x with
      | byte b =>
        simp only [specGo, h, if_true]
        apply ih
        · simp only [symBytes, List.length_cons, List.length_append, List.length_nil] at hen ⊢; omega
        · intro pre f rest hs hq
          have := hf (.byte b :: pre) f rest (by rw [hs]; rfl) hq
          simp only [symBytes, List.length_cons, List.length_append, List.length_nil] at this ⊢; omega
      | dt d =>
        simp only [specGo, h, if_true]
        apply ih
        · simpa only [symBytes] using hen
        · intro pre f rest hs hq
          have := hf (.dt d :: pre) f rest (by rw [hs]; rfl) hq
          simpa only [symBytes] using this
      | err => have := hf [] .err s rfl rfl; simp only [symBytes, List.length_nil] at this; omega
      | block => have := hf [] .block s rfl rfl; simp only [symBytes, List.length_nil] at this; omega
      | intr => have := hf [] .intr s rfl rfl; simp only [symBytes, List.length_nil] at this; omega
      | closed => have := hf [] .closed s rfl rfl; simp only [symBytes, List.length_nil] at this; omega
    · rw [specGo_done h]; simp

/-- fewer bytes than asked for, then a fault: the fault's code, whatever precedes it -/
theorem specGo_short_fault (len : Nat) (endTime : Int) (thr : Bool) (f : Sym) (rest : List Sym)
    (hf : f.quiet = false) :
    ∀ (pre : List Sym) (now cn : Int) (acc : List Nat), (∀ x ∈ pre, x.quiet = true) →
      acc.length + (symBytes pre).length < len →
      (specGo len endTime thr (pre ++ f :: rest) now cn acc).rc = f.code ∧
      (specGo len endTime thr (pre ++ f :: rest) now cn acc).rest = rest ∧
      (specGo len endTime thr (pre ++ f :: rest) now cn acc).bytes = acc ++ symBytes pre ∧
      (specGo len endTime thr (pre ++ f :: rest) now cn acc).stop = false := by
  intro pre
  induction pre with
  | nil =>
    intro now cn acc _ hlt
    simp only [symBytes, List.length_nil, Nat.add_zero] at hlt
    cases f <;> simp_all [specGo, Sym.code, Sym.quiet, symBytes]
  | cons x pre ih =>
    intro now cn acc hq hlt
    have hx := hq x List.mem_cons_self
    have hq' : ∀ y ∈ pre, y.quiet = true := fun y hy => hq y (List.mem_cons_of_mem _ hy)
    cases x with
    | byte b =>
      simp only [symBytes, List.length_cons] at hlt
      have hl : acc.length < len := by omega
      have := ih now now (acc ++ [b]) hq' (by simp only [List.length_append, List.length_cons, List.length_nil]; omega)
      simp only [List.cons_append, specGo, hl, if_true, symBytes]
      simpa only [List.append_assoc, List.cons_append, List.nil_append] using this
    | dt d =>
      simp only [symBytes] at hlt
      have hl : acc.length < len := by omega
      have := ih (now + d) cn acc hq' hlt
      simpa only [List.cons_append, specGo, hl, if_true, symBytes] using this
    | err => simp [Sym.quiet] at hx
    | block => simp [Sym.quiet] at hx
    | intr => simp [Sym.quiet] at hx
    | closed => simp [Sym.quiet] at hx

/-- fewer bytes than asked for, then the end of the script: -1, and the stop request is seen -/
theorem specGo_short_eof (len : Nat) (endTime : Int) (thr : Bool) :
    ∀ (pre : List Sym) (now cn : Int) (acc : List Nat), (∀ x ∈ pre, x.quiet = true) →
      acc.length + (symBytes pre).length < len →
      (specGo len endTime thr pre now cn acc).rc = -1 ∧
      (specGo len endTime thr pre now cn acc).rest = [] ∧
      (specGo len endTime thr pre now cn acc).bytes = acc ++ symBytes pre ∧
      (specGo len endTime thr pre now cn acc).stop = thr := by
  intro pre
  induction pre with
  | nil =>
    intro now cn acc _ hlt
    simp only [symBytes, List.length_nil, Nat.add_zero] at hlt
    simp [specGo, hlt, symBytes]
  | cons x pre ih =>
    intro now cn acc hq hlt
    have hx := hq x List.mem_cons_self
    have hq' : ∀ y ∈ pre, y.quiet = true := fun y hy => hq y (List.mem_cons_of_mem _ hy)
    cases x with
    | byte b =>
      simp only [symBytes, List.length_cons] at hlt
      have hl : acc.length < len := by omega
      have := ih now now (acc ++ [b]) hq' (by simp only [List.length_append, List.length_cons, List.length_nil]; omega)
      simp only [specGo, hl, if_true, symBytes]
      simpa only [List.append_assoc, List.cons_append, List.nil_append] using this
    | dt d =>
      simp only [symBytes] at hlt
      have hl : acc.length < len := by omega
      have := ih (now + d) cn acc hq' hlt
      simpa only [specGo, hl, if_true, symBytes] using this
    | err => simp [Sym.quiet] at hx
    | block => simp [Sym.quiet] at hx
    | intr => simp [Sym.quiet] at hx
    | closed => simp [Sym.quiet] at hx

theorem specGo_now_bytes (len : Nat) (endTime : Int) (thr : Bool) :
    ∀ (s : List Sym) (now cn : Int) (acc : List Nat), (∀ x ∈ s, ∃ b, x = Sym.byte b) →
      (specGo len endTime thr s now cn acc).now = now := by
  intro s
  induction s with
  | nil => intro now cn acc _; by_cases h : acc.length < len <;> simp [specGo, h]
  | cons x s ih =>
    intro now cn acc hb
    obtain ⟨b, rfl⟩ := hb x List.mem_cons_self
    by_cases h : acc.length < len
    · simp only [specGo, h, if_true]
      exact ih now now _ (fun y hy => hb y (List.mem_cons_of_mem _ hy))
    · rw [specGo_done h]

/-! ## from the byte-level view back to tapes -/

theorem mem_flat_of_mem {t : List TapeEv} {e : TapeEv} (he : e ∈ t) : ∀ x ∈ symOf e, x ∈ flat t := by
  induction t with
  | nil => cases he
  | cons e' t ih =>
    intro x hx
    simp only [flat, List.mem_append]
    rcases List.mem_cons.1 he with rfl | he
    · exact Or.inl hx
    · exact Or.inr (ih he x hx)

theorem quiet_of_flat {t : List TapeEv} (hok : TapeOk t) (h : ∀ x ∈ flat t, x.quiet = true) : Quiet t := by
  intro e he
  have hm := mem_flat_of_mem he
  cases e with
  | rx bs =>
    have := hok bs he
    cases bs with
    | nil => exact absurd rfl this
    | cons b bs => rfl
  | dt d => rfl
  | err => have := h _ (hm .err (by simp [symOf])); simp [Sym.quiet] at this
  | block => have := h _ (hm .block (by simp [symOf])); simp [Sym.quiet] at this
  | intr => have := h _ (hm .intr (by simp [symOf])); simp [Sym.quiet] at this
  | closed => have := h _ (hm .closed (by simp [symOf])); simp [Sym.quiet] at this

theorem faultFree_of_flat {t : List TapeEv} (hok : TapeOk t) (h : ∀ x ∈ flat t, ∃ b, x = Sym.byte b) :
    FaultFree t := by
  intro e he
  have hm := mem_flat_of_mem he
  cases e with
  | rx bs =>
    have := hok bs he
    cases bs with
    | nil => exact absurd rfl this
    | cons b bs => rfl
  | dt d => obtain ⟨b, hb⟩ := h _ (hm (.dt d) (by simp [symOf])); cases hb
  | err => obtain ⟨b, hb⟩ := h _ (hm .err (by simp [symOf])); cases hb
  | block => obtain ⟨b, hb⟩ := h _ (hm .block (by simp [symOf])); cases hb
  | intr => obtain ⟨b, hb⟩ := h _ (hm .intr (by simp [symOf])); cases hb
  | closed => obtain ⟨b, hb⟩ := h _ (hm .closed (by simp [symOf])); cases hb

theorem faultFree_flat {t : List TapeEv} (h : FaultFree t) : ∀ x ∈ flat t, ∃ b, x = Sym.byte b := by
  induction t with
  | nil => intro x hx; cases hx
  | cons e t ih =>
    intro x hx
    simp only [flat, List.mem_append] at hx
    rcases hx with hx | hx
    · have he := h e List.mem_cons_self
      cases e <;> simp_all [symOf, TapeEv.isData]
      · rcases hx with ⟨b, _, rfl⟩; exact ⟨b, rfl⟩
    · exact ih (fun e' hm => h e' (List.mem_cons_of_mem _ hm)) x hx

theorem flat_eq_nil {t : List TapeEv} (hok : TapeOk t) (h : flat t = []) : t = [] := by
  cases t with
  | nil => rfl
  | cons e t =>
    exfalso
    simp only [flat, List.append_eq_nil_iff] at h
    cases e with
    | rx bs =>
      have := hok bs List.mem_cons_self
      simp only [symOf, List.map_eq_nil_iff] at h
      exact this h.1
    | dt d => simp [symOf] at h
    | err => simp [symOf] at h
    | block => simp [symOf] at h
    | intr => simp [symOf] at h
    | closed => simp [symOf] at h

/-! ## (a) enough data: `tr_recv_all` succeeds with the first `len` bytes, whatever the chunking -/

theorem recvAll_chunking_quiet (n : Net) (len : Nat) (timeout : Int) (hq : Quiet n.tape)
    (hen : len ≤ (tapeBytes n.tape).length) :
    ∃ n', recvAll n len timeout = ((len : Int), (tapeBytes n.tape).take len, n', false) ∧
      Quiet n'.tape ∧ tapeBytes n'.tape = (tapeBytes n.tape).drop len ∧ SameRest n n' ∧
      (FaultFree n.tape → FaultFree n'.tape ∧ n'.now = n.now) := by
  rcases hr : recvAll n len timeout with ⟨rc, got, n', stop⟩
  obtain ⟨hok', hsr, hspec⟩ := recvAll_spec n len timeout hq.tapeOk rc got n' stop hr
  have hqf := quiet_flat hq
  have hrc : 0 ≤ (specGo len (n.now + timeout) n.threaded (flat n.tape) n.now n.now []).rc := by
    apply specGo_enough
    · rw [← tapeBytes_eq]; simpa using hen
    · intro pre f rest hs hf
      have := hqf f (by rw [hs]; simp)
      rw [hf] at this; cases this
  obtain ⟨pre, hpre, _, hsucc⟩ := specGo_prefix len (n.now + timeout) n.threaded (flat n.tape) n.now n.now []
    (Nat.zero_le _)
  obtain ⟨_, hbytes, hrceq, hblen, hstop⟩ := hsucc hrc
  rw [hspec] at hpre hbytes hrceq hblen hstop
  simp only [List.nil_append] at hpre hbytes hrceq hblen hstop
  have htb : tapeBytes n.tape = got ++ tapeBytes n'.tape := by
    rw [tapeBytes_eq, tapeBytes_eq, hpre, symBytes_append, ← hbytes]
  have hrestq : ∀ x ∈ flat n'.tape, x ∈ flat n.tape := by
    intro x hx; rw [hpre]; exact List.mem_append_right _ hx
  refine ⟨n', ?_, ?_, ?_, hsr, ?_⟩
  · rw [hrceq, hstop, htb, List.take_left' hblen]
  · exact quiet_of_flat hok' (fun x hx => hqf x (hrestq x hx))
  · rw [htb, List.drop_left' hblen]
  · intro hff
    have hb := faultFree_flat hff
    refine ⟨faultFree_of_flat hok' (fun x hx => hb x (hrestq x hx)), ?_⟩
    have := specGo_now_bytes len (n.now + timeout) n.threaded (flat n.tape) n.now n.now [] hb
    rw [hspec] at this
    exact this

/-! ## (b) too little data, then a fault or the end of the script -/

theorem recvAll_short_fault (n : Net) (len : Nat) (timeout : Int) (pre rest : List TapeEv) (e : TapeEv)
    (htape : n.tape = pre ++ e :: rest) (hq : Quiet pre) (hokr : TapeOk rest) (he : e.isFault = true)
    (hlt : (tapeBytes pre).length < len) :
    ∃ n', recvAll n len timeout = (e.code, tapeBytes pre, n', false) ∧ flat n'.tape = flat rest ∧
      TapeOk n'.tape ∧ SameRest n n' := by
  rcases hr : recvAll n len timeout with ⟨rc, got, n', stop⟩
  have hok : TapeOk n.tape := by
    rw [htape]
    intro bs hm
    rcases List.mem_append.1 hm with hm | hm
    · exact hq.tapeOk bs hm
    · rcases List.mem_cons.1 hm with hm | hm
      · rw [← hm] at he; cases he
      · exact hokr bs hm
  obtain ⟨hok', hsr, hspec⟩ := recvAll_spec n len timeout hok rc got n' stop hr
  obtain ⟨f, hf, hfq, hfc⟩ : ∃ f, symOf e = [f] ∧ f.quiet = false ∧ f.code = e.code := by
    cases e <;> first | exact ⟨_, rfl, rfl, rfl⟩ | cases he
  have hflat : flat n.tape = flat pre ++ f :: flat rest := by
    rw [htape, flat_append]; simp [flat, hf]
  have := specGo_short_fault len (n.now + timeout) n.threaded f (flat rest) hfq (flat pre) n.now n.now []
    (quiet_flat hq) (by rw [← tapeBytes_eq]; simpa using hlt)
  rw [← hflat, hspec] at this
  obtain ⟨h1, h2, h3, h4⟩ := this
  simp only at h1 h2 h3 h4
  refine ⟨n', ?_, h2, hok', hsr⟩
  rw [h1, h3, h4, hfc, List.nil_append, ← tapeBytes_eq]

theorem recvAll_short_eof (n : Net) (len : Nat) (timeout : Int) (hq : Quiet n.tape)
    (hlt : (tapeBytes n.tape).length < len) :
    ∃ n', recvAll n len timeout = (-1, tapeBytes n.tape, n', n.threaded) ∧ n'.tape = [] ∧ SameRest n n' := by
  rcases hr : recvAll n len timeout with ⟨rc, got, n', stop⟩
  obtain ⟨hok', hsr, hspec⟩ := recvAll_spec n len timeout hq.tapeOk rc got n' stop hr
  have := specGo_short_eof len (n.now + timeout) n.threaded (flat n.tape) n.now n.now []
    (quiet_flat hq) (by rw [← tapeBytes_eq]; simpa using hlt)
  rw [hspec] at this
  obtain ⟨h1, h2, h3, h4⟩ := this
  simp only at h1 h2 h3 h4
  refine ⟨n', ?_, flat_eq_nil hok' h2, hsr⟩
  rw [h1, h3, h4, List.nil_append, ← tapeBytes_eq]

/-! ## two environments that differ only in the chunking of the input -/

/-- the same stream, chunked differently: equal tapes after merging adjacent chunks; same send
    script, open script, clock and threading flag -/
structure SameStream (n n' : Net) : Prop where
  tape : mergeRx n.tape = mergeRx n'.tape
  ok : TapeOk n.tape
  ok' : TapeOk n'.tape
  sendQ : n.sendQ = n'.sendQ
  openQ : n.openQ = n'.openQ
  now : n.now = n'.now
  threaded : n.threaded = n'.threaded

/-- the same trace once the lines of the individual recv calls are deleted -/
def SameTrace (n n' : Net) : Prop := dropRecv n.trace = dropRecv n'.trace

instance (n n' : Net) : Decidable (SameTrace n n') := by unfold SameTrace; infer_instance

/-- working form of `SameStream ∧ SameTrace` -/
structure Sim (n n' : Net) : Prop where
  flat : flat n.tape = flat n'.tape
  ok : TapeOk n.tape
  ok' : TapeOk n'.tape
  sendQ : n.sendQ = n'.sendQ
  openQ : n.openQ = n'.openQ
  now : n.now = n'.now
  threaded : n.threaded = n'.threaded
  trace : dropRecv n.trace = dropRecv n'.trace

theorem sim_iff (n n' : Net) : Sim n n' ↔ SameStream n n' ∧ SameTrace n n' := by
  constructor
  · intro h
    exact ⟨⟨(mergeRx_eq_iff _ _).2 h.flat, h.ok, h.ok', h.sendQ, h.openQ, h.now, h.threaded⟩, h.trace⟩
  · intro ⟨h, ht⟩
    exact ⟨(mergeRx_eq_iff _ _).1 h.tape, h.ok, h.ok', h.sendQ, h.openQ, h.now, h.threaded, ht⟩

theorem Sim.refl (n : Net) (hok : TapeOk n.tape) : Sim n n := ⟨rfl, hok, hok, rfl, rfl, rfl, rfl, rfl⟩

theorem Sim.symm {n n' : Net} (h : Sim n n') : Sim n' n :=
  ⟨h.flat.symm, h.ok', h.ok, h.sendQ.symm, h.openQ.symm, h.now.symm, h.threaded.symm, h.trace.symm⟩

theorem Sim.trans {a b c : Net} (h1 : Sim a b) (h2 : Sim b c) : Sim a c :=
  ⟨h1.flat.trans h2.flat, h1.ok, h2.ok', h1.sendQ.trans h2.sendQ, h1.openQ.trans h2.openQ,
   h1.now.trans h2.now, h1.threaded.trans h2.threaded, h1.trace.trans h2.trace⟩

theorem Sim.emit {n n' : Net} (h : Sim n n') (l : String) : Sim (n.emit l) (n'.emit l) :=
  ⟨h.flat, h.ok, h.ok', h.sendQ, h.openQ, h.now, h.threaded, dropRecv_cons_congr l h.trace⟩

theorem Sim.setSendQ {n n' : Net} (h : Sim n n') (q : List SendEv) :
    Sim { n with sendQ := q } { n' with sendQ := q } :=
  ⟨h.flat, h.ok, h.ok', rfl, h.openQ, h.now, h.threaded, h.trace⟩

/-- `tr_recv_all` on the same stream, chunked differently: same result code, bytes and stop flag -/
theorem recvAll_sim {n n' : Net} (h : Sim n n') (len : Nat) (timeout : Int)
    (rc : Int) (got : List Nat) (m : Net) (stop : Bool) (hr : recvAll n len timeout = (rc, got, m, stop)) :
    ∃ m', recvAll n' len timeout = (rc, got, m', stop) ∧ Sim m m' := by
  rcases hr' : recvAll n' len timeout with ⟨rc', got', m', stop'⟩
  obtain ⟨hok1, hs1, hsp1⟩ := recvAll_spec n len timeout h.ok rc got m stop hr
  obtain ⟨hok2, hs2, hsp2⟩ := recvAll_spec n' len timeout h.ok' rc' got' m' stop' hr'
  rw [h.flat, h.now, h.threaded, hsp2] at hsp1
  simp only [SpecRes.mk.injEq] at hsp1
  obtain ⟨rfl, rfl, hf, hn, rfl⟩ := hsp1
  refine ⟨m', rfl, ⟨hf.symm, hok1, hok2, ?_, ?_, hn.symm, ?_, ?_⟩⟩
  · rw [hs1.sendQ, hs2.sendQ, h.sendQ]
  · rw [hs1.openQ, hs2.openQ, h.openQ]
  · rw [hs1.threaded, hs2.threaded, h.threaded]
  · rw [hs1.trace, hs2.trace, h.trace]

/-! ## the functions that do not read the tape -/

theorem changeState_sim {n n' : Net} (h : Sim n n') (c : Conn) (own : Nat) (new : SState)
    (c1 : Conn) (m : Net) (hr : changeState c n own new = (c1, m)) :
    ∃ m', changeState c n' own new = (c1, m') ∧ Sim m m' := by
  unfold changeState at hr ⊢
  by_cases h1 : c.state = new
  · rw [if_pos h1] at hr ⊢
    simp only [Prod.mk.injEq] at hr
    obtain ⟨rfl, rfl⟩ := hr
    exact ⟨n', rfl, h⟩
  · rw [if_neg h1] at hr ⊢
    by_cases h2 : c.state = .shutdown
    · rw [if_pos h2] at hr ⊢
      simp only [Prod.mk.injEq] at hr
      obtain ⟨rfl, rfl⟩ := hr
      exact ⟨n', rfl, h⟩
    · rw [if_neg h2] at hr ⊢
      simp only [Prod.mk.injEq] at hr
      obtain ⟨rfl, rfl⟩ := hr
      rw [← h.now]
      exact ⟨_, rfl, h.emit _⟩

theorem trSend_sim {n n' : Net} (h : Sim n n') (bytes : List Nat) (rc : Int) (m : Net)
    (hr : trSend n bytes = (rc, m)) : ∃ m', trSend n' bytes = (rc, m') ∧ Sim m m' := by
  unfold trSend at hr ⊢
  rw [← h.sendQ]
  rcases hq : n.sendQ with _ | ⟨ev, q⟩
  · rw [hq] at hr
    simp only [Prod.mk.injEq] at hr
    obtain ⟨rfl, rfl⟩ := hr
    exact ⟨_, rfl, h.emit _⟩
  · rw [hq] at hr
    cases ev <;>
    · simp only [Prod.mk.injEq] at hr
      obtain ⟨rfl, rfl⟩ := hr
      exact ⟨_, rfl, (h.setSendQ q).emit _⟩

theorem sendAllLoop_sim : ∀ (fuel : Nat) {n n' : Net}, Sim n n' → ∀ (rest : List Nat) (total : Nat)
    (rc : Int) (m : Net), sendAllLoop fuel n rest total = (rc, m) →
    ∃ m', sendAllLoop fuel n' rest total = (rc, m') ∧ Sim m m' := by
  intro fuel
  induction fuel with
  | zero =>
    intro n n' h rest total rc m hr
    simp only [sendAllLoop, Prod.mk.injEq] at hr
    obtain ⟨rfl, rfl⟩ := hr
    exact ⟨n', rfl, h⟩
  | succ fuel ih =>
    intro n n' h rest total rc m hr
    unfold sendAllLoop at hr ⊢
    by_cases he : rest.isEmpty = true
    · rw [if_pos he] at hr ⊢
      simp only [Prod.mk.injEq] at hr
      obtain ⟨rfl, rfl⟩ := hr
      exact ⟨n', rfl, h⟩
    · rw [if_neg he] at hr ⊢
      rcases h1 : trSend n rest with ⟨rc1, n1⟩
      obtain ⟨n1', h1', hs1⟩ := trSend_sim h rest rc1 n1 h1
      rw [h1] at hr; rw [h1']
      simp only at hr ⊢
      by_cases hneg : rc1 < 0
      · rw [if_pos hneg] at hr ⊢
        simp only [Prod.mk.injEq] at hr
        obtain ⟨rfl, rfl⟩ := hr
        exact ⟨n1', rfl, hs1⟩
      · rw [if_neg hneg] at hr ⊢
        exact ih hs1 _ _ rc m hr

theorem sendAll_sim {n n' : Net} (h : Sim n n') (bytes : List Nat) (rc : Int) (m : Net)
    (hr : sendAll n bytes = (rc, m)) : ∃ m', sendAll n' bytes = (rc, m') ∧ Sim m m' :=
  sendAllLoop_sim _ h _ _ rc m hr

theorem sendPdu_sim {n n' : Net} (h : Sim n n') (c : Conn) (bytes : List Nat) (ok : Bool) (m : Net)
    (hr : sendPdu c n bytes = (ok, m)) : ∃ m', sendPdu c n' bytes = (ok, m') ∧ Sim m m' := by
  unfold sendPdu at hr ⊢
  by_cases hs : c.state = .shutdown
  · rw [if_pos hs] at hr ⊢
    simp only [Prod.mk.injEq] at hr
    obtain ⟨rfl, rfl⟩ := hr
    exact ⟨n', rfl, h⟩
  · rw [if_neg hs] at hr ⊢
    rcases h1 : sendAll n bytes with ⟨rc1, n1⟩
    obtain ⟨n1', h1', hs1⟩ := sendAll_sim h bytes rc1 n1 h1
    rw [h1] at hr; rw [h1']
    simp only [Prod.mk.injEq] at hr ⊢
    obtain ⟨rfl, rfl⟩ := hr
    exact ⟨n1', ⟨rfl, rfl⟩, hs1⟩

theorem sendErrorPdu_sim {n n' : Net} (h : Sim n n') (c : Conn) (enc : List Nat) (code : Nat) (text : List Nat)
    (ok : Bool) (m : Net) (hr : sendErrorPdu c n enc code text = (ok, m)) :
    ∃ m', sendErrorPdu c n' enc code text = (ok, m') ∧ Sim m m' := by
  unfold sendErrorPdu at hr ⊢
  by_cases he : enc.length ≥ 2 ∧ enc.getD 1 0 = 10
  · rw [if_pos he] at hr ⊢
    simp only [Prod.mk.injEq] at hr
    obtain ⟨rfl, rfl⟩ := hr
    exact ⟨n', rfl, h⟩
  · rw [if_neg he] at hr ⊢
    exact sendPdu_sim h c _ ok m hr

theorem sendErrorFromHost_sim {n n' : Net} (h : Sim n n') (c : Conn) (raw : List Nat) (k code : Nat)
    (text : List Nat) (ok : Bool) (m : Net) (hr : sendErrorFromHost c n raw k code text = (ok, m)) :
    ∃ m', sendErrorFromHost c n' raw k code text = (ok, m') ∧ Sim m m' := by
  unfold sendErrorFromHost at hr ⊢
  by_cases h0 : k = 0
  · rw [if_pos h0] at hr ⊢
    exact sendErrorPdu_sim h c _ _ _ ok m hr
  · rw [if_neg h0] at hr ⊢
    by_cases h8 : k < 8
    · rw [if_pos h8] at hr ⊢
      simp only [Prod.mk.injEq] at hr
      obtain ⟨rfl, rfl⟩ := hr
      exact ⟨n', rfl, h⟩
    · rw [if_neg h8] at hr ⊢
      exact sendErrorPdu_sim h c _ _ _ ok m hr

theorem recvTransportError_sim {n n' : Net} (h : Sim n n') (c : Conn) (own : Nat) (code : Int)
    (res : RecvRes) (c1 : Conn) (m : Net) (hr : recvTransportError c n own code = (res, c1, m)) :
    ∃ m', recvTransportError c n' own code = (res, c1, m') ∧ Sim m m' := by
  unfold recvTransportError at hr ⊢
  by_cases h1 : code = -1
  · rw [if_pos h1] at hr ⊢
    rcases h2 : changeState c n own .errTransport with ⟨c2, n2⟩
    obtain ⟨n2', h2', hs2⟩ := changeState_sim h c own _ c2 n2 h2
    rw [h2] at hr; rw [h2']
    simp only [Prod.mk.injEq] at hr ⊢
    obtain ⟨rfl, rfl, rfl⟩ := hr
    exact ⟨n2', ⟨rfl, rfl, rfl⟩, hs2⟩
  · rw [if_neg h1] at hr ⊢
    by_cases h2 : code = -2
    · rw [if_pos h2] at hr ⊢
      simp only [Prod.mk.injEq] at hr
      obtain ⟨rfl, rfl, rfl⟩ := hr
      exact ⟨n', rfl, h⟩
    · rw [if_neg h2] at hr ⊢
      by_cases h3 : code = -3
      · rw [if_pos h3] at hr ⊢
        simp only [Prod.mk.injEq] at hr
        obtain ⟨rfl, rfl, rfl⟩ := hr
        exact ⟨n', rfl, h⟩
      · rw [if_neg h3] at hr ⊢
        by_cases h4 : code = -4
        · rw [if_pos h4] at hr ⊢
          rcases h5 : changeState c n own .errFatal with ⟨c2, n2⟩
          obtain ⟨n2', h5', hs2⟩ := changeState_sim h c own _ c2 n2 h5
          rw [h5] at hr; rw [h5']
          simp only [Prod.mk.injEq] at hr ⊢
          obtain ⟨rfl, rfl, rfl⟩ := hr
          exact ⟨n2', ⟨rfl, rfl, rfl⟩, hs2⟩
        · rw [if_neg h4] at hr ⊢
          rcases h5 : changeState c n own .errFatal with ⟨c2, n2⟩
          obtain ⟨n2', h5', hs2⟩ := changeState_sim h c own _ c2 n2 h5
          rw [h5] at hr; rw [h5']
          simp only [Prod.mk.injEq] at hr ⊢
          obtain ⟨rfl, rfl, rfl⟩ := hr
          exact ⟨n2', ⟨rfl, rfl, rfl⟩, hs2⟩

/-! ## `rtr_receive_pdu` in stages -/

/-- the `error:` label for CORRUPT_DATA / PDU_TOO_BIG: an Error Report echoing the header, then
    RTR_ERROR_FATAL -/
def failFatal (c : Conn) (n : Net) (own : Nat) (hdr : List Nat) (txt : List Nat) : RecvRes × Conn × Net :=
  match sendErrorPdu c n hdr 0 txt with
  | (_, n) => match changeState c n own .errFatal with | (c, n) => (.rc (-1), c, n)

/-- live downgrade on the first PDU of a connection -/
def downgrade (c : Conn) (hdr : List Nat) : Conn :=
  if !c.hasReceived then
    let v := if c.version = 1 ∧ verOf hdr = 0 ∧ typeOf hdr ≠ 10 then 0 else c.version
    { c with version := v, hasReceived := true }
  else c

/-- the payload part of `rtr_receive_pdu` -/
def recvBody (c : Conn) (n : Net) (own : Nat) (hdr : List Nat) : RecvRes × Conn × Net :=
  let remaining := lenOf hdr - 8
  if remaining > 0 ∧ c.state = .shutdown then (.rc (-1), c, n)
  else
    match (if remaining > 0 then recvAll n remaining Gen.RTR_RECV_TIMEOUT
           else ((0 : Int), ([] : List Nat), n, false)) with
    | (rc2, body, n, stop2) =>
    let c := applyStop c stop2
    if rc2 < 0 then recvTransportError c n own rc2
    else
      let raw := hdr ++ body
      if !checkSize raw then failFatal c n own hdr txtCorrupt
      else (.ok raw, c, n)

/-- `rtr_receive_pdu` once the 8 header bytes are there -/
def recvAfterHdr (c : Conn) (n : Net) (own : Nat) (hdr : List Nat) : RecvRes × Conn × Net :=
  let len := lenOf hdr
  if len < 8 then failFatal c n own hdr txtCorrupt
  else if len > Gen.RTR_MAX_PDU_LEN then failFatal c n own hdr txtTooBig
  else
    let c := downgrade c hdr
    if verOf hdr ≠ c.version ∧ typeOf hdr ≠ 10 then
      match sendErrorPdu c n hdr 8 [] with
      | (_, n) => (.rc (-1), c, n)
    else recvBody c n own hdr

theorem receivePdu_eq_stages (c : Conn) (n : Net) (own : Nat) (timeout : Int) :
    receivePdu c n own timeout =
      if c.state = .shutdown then (.rc (-1), c, n)
      else
        match recvAll n 8 timeout with
        | (rc, hdr, n, stop) =>
          if rc < 0 then recvTransportError (applyStop c stop) n own rc
          else recvAfterHdr (applyStop c stop) n own hdr := by
  unfold receivePdu recvAfterHdr recvBody failFatal downgrade
  rfl

theorem failFatal_sim {n n' : Net} (h : Sim n n') (c : Conn) (own : Nat) (hdr txt : List Nat)
    (res : RecvRes) (c1 : Conn) (m : Net) (hr : failFatal c n own hdr txt = (res, c1, m)) :
    ∃ m', failFatal c n' own hdr txt = (res, c1, m') ∧ Sim m m' := by
  unfold failFatal at hr ⊢
  rcases h1 : sendErrorPdu c n hdr 0 txt with ⟨ok1, n1⟩
  obtain ⟨n1', h1', hs1⟩ := sendErrorPdu_sim h c _ _ _ ok1 n1 h1
  rw [h1] at hr; rw [h1']
  simp only at hr ⊢
  rcases h2 : changeState c n1 own .errFatal with ⟨c2, n2⟩
  obtain ⟨n2', h2', hs2⟩ := changeState_sim hs1 c own _ c2 n2 h2
  rw [h2] at hr; rw [h2']
  simp only [Prod.mk.injEq] at hr ⊢
  obtain ⟨rfl, rfl, rfl⟩ := hr
  exact ⟨n2', ⟨rfl, rfl, rfl⟩, hs2⟩

theorem recvBody_sim {n n' : Net} (h : Sim n n') (c : Conn) (own : Nat) (hdr : List Nat)
    (res : RecvRes) (c1 : Conn) (m : Net) (hr : recvBody c n own hdr = (res, c1, m)) :
    ∃ m', recvBody c n' own hdr = (res, c1, m') ∧ Sim m m' := by
  unfold recvBody at hr ⊢
  simp only at hr ⊢
  by_cases h0 : lenOf hdr - 8 > 0 ∧ c.state = .shutdown
  · rw [if_pos h0] at hr ⊢
    simp only [Prod.mk.injEq] at hr
    obtain ⟨rfl, rfl, rfl⟩ := hr
    exact ⟨n', rfl, h⟩
  · rw [if_neg h0] at hr ⊢
    have key : ∀ (rc2 : Int) (body : List Nat) (n2 n2' : Net) (stop2 : Bool), Sim n2 n2' →
        (if rc2 < 0 then recvTransportError (applyStop c stop2) n2 own rc2
         else if (!checkSize (hdr ++ body)) = true then failFatal (applyStop c stop2) n2 own hdr txtCorrupt
         else (RecvRes.ok (hdr ++ body), applyStop c stop2, n2)) = (res, c1, m) →
        ∃ m', (if rc2 < 0 then recvTransportError (applyStop c stop2) n2' own rc2
         else if (!checkSize (hdr ++ body)) = true then failFatal (applyStop c stop2) n2' own hdr txtCorrupt
         else (RecvRes.ok (hdr ++ body), applyStop c stop2, n2')) = (res, c1, m') ∧ Sim m m' := by
      intro rc2 body n2 n2' stop2 hs2 hr2
      by_cases hneg : rc2 < 0
      · rw [if_pos hneg] at hr2 ⊢
        exact recvTransportError_sim hs2 _ own rc2 res c1 m hr2
      · rw [if_neg hneg] at hr2 ⊢
        by_cases hc : (!checkSize (hdr ++ body)) = true
        · rw [if_pos hc] at hr2 ⊢
          exact failFatal_sim hs2 _ own hdr _ res c1 m hr2
        · rw [if_neg hc] at hr2 ⊢
          simp only [Prod.mk.injEq] at hr2
          obtain ⟨rfl, rfl, rfl⟩ := hr2
          exact ⟨n2', rfl, hs2⟩
    by_cases hrem : lenOf hdr - 8 > 0
    · rw [if_pos hrem] at hr ⊢
      rcases h1 : recvAll n (lenOf hdr - 8) Gen.RTR_RECV_TIMEOUT with ⟨rc2, body, n2, stop2⟩
      obtain ⟨n2', h1', hs2⟩ := recvAll_sim h _ _ rc2 body n2 stop2 h1
      rw [h1] at hr; rw [h1']
      exact key rc2 body n2 n2' stop2 hs2 hr
    · rw [if_neg hrem] at hr ⊢
      exact key 0 [] n n' false h hr

theorem recvAfterHdr_sim {n n' : Net} (h : Sim n n') (c : Conn) (own : Nat) (hdr : List Nat)
    (res : RecvRes) (c1 : Conn) (m : Net) (hr : recvAfterHdr c n own hdr = (res, c1, m)) :
    ∃ m', recvAfterHdr c n' own hdr = (res, c1, m') ∧ Sim m m' := by
  unfold recvAfterHdr at hr ⊢
  simp only at hr ⊢
  by_cases h1 : lenOf hdr < 8
  · rw [if_pos h1] at hr ⊢
    exact failFatal_sim h c own hdr _ res c1 m hr
  · rw [if_neg h1] at hr ⊢
    by_cases h2 : lenOf hdr > Gen.RTR_MAX_PDU_LEN
    · rw [if_pos h2] at hr ⊢
      exact failFatal_sim h c own hdr _ res c1 m hr
    · rw [if_neg h2] at hr ⊢
      by_cases h3 : verOf hdr ≠ (downgrade c hdr).version ∧ typeOf hdr ≠ 10
      · rw [if_pos h3] at hr ⊢
        rcases h4 : sendErrorPdu (downgrade c hdr) n hdr 8 [] with ⟨ok1, n1⟩
        obtain ⟨n1', h4', hs1⟩ := sendErrorPdu_sim h _ _ _ _ ok1 n1 h4
        rw [h4] at hr; rw [h4']
        simp only [Prod.mk.injEq] at hr ⊢
        obtain ⟨rfl, rfl, rfl⟩ := hr
        exact ⟨n1', ⟨rfl, rfl, rfl⟩, hs1⟩
      · rw [if_neg h3] at hr ⊢
        exact recvBody_sim h _ own hdr res c1 m hr

/-- **(c)** `rtr_receive_pdu` on the same stream chunked differently: same result, same socket
    fields, and environments that are again the same stream with the same trace up to recv lines -/
theorem receivePdu_sim {n n' : Net} (h : Sim n n') (c : Conn) (own : Nat) (timeout : Int)
    (res : RecvRes) (c1 : Conn) (m : Net) (hr : receivePdu c n own timeout = (res, c1, m)) :
    ∃ m', receivePdu c n' own timeout = (res, c1, m') ∧ Sim m m' := by
  rw [receivePdu_eq_stages] at hr ⊢
  by_cases hs : c.state = .shutdown
  · rw [if_pos hs] at hr ⊢
    simp only [Prod.mk.injEq] at hr
    obtain ⟨rfl, rfl, rfl⟩ := hr
    exact ⟨n', rfl, h⟩
  · rw [if_neg hs] at hr ⊢
    rcases h1 : recvAll n 8 timeout with ⟨rc, hdr, n1, stop⟩
    obtain ⟨n1', h1', hs1⟩ := recvAll_sim h 8 timeout rc hdr n1 stop h1
    rw [h1] at hr; rw [h1']
    simp only at hr ⊢
    by_cases hneg : rc < 0
    · rw [if_pos hneg] at hr ⊢
      exact recvTransportError_sim hs1 _ own rc res c1 m hr
    · rw [if_neg hneg] at hr ⊢
      exact recvAfterHdr_sim hs1 _ own hdr res c1 m hr

/-! ## what a reception consumes -/

theorem recvAll_facts (n : Net) (len : Nat) (timeout : Int) (hok : TapeOk n.tape)
    (rc : Int) (got : List Nat) (m : Net) (stop : Bool) (hr : recvAll n len timeout = (rc, got, m, stop)) :
    TapeOk m.tape ∧ SameRest n m ∧
    (∃ pre, flat n.tape = pre ++ flat m.tape ∧ (0 < len → n.tape ≠ [] → pre ≠ []) ∧
      (0 ≤ rc → got = symBytes pre)) ∧
    (0 ≤ rc → rc = len ∧ got.length = len ∧ stop = false ∧ tapeBytes n.tape = got ++ tapeBytes m.tape) := by
  obtain ⟨hok', hsr, hspec⟩ := recvAll_spec n len timeout hok rc got m stop hr
  obtain ⟨pre, hpre, hne, hsucc⟩ := specGo_prefix len (n.now + timeout) n.threaded (flat n.tape) n.now n.now []
    (Nat.zero_le _)
  rw [hspec] at hpre hsucc
  simp only [List.nil_append, List.length_nil] at hpre hsucc hne
  refine ⟨hok', hsr, ⟨pre, hpre, ?_, fun h => (hsucc h).2.1⟩, ?_⟩
  · intro hl hn
    exact hne hl (fun hf => hn (flat_eq_nil hok hf))
  · intro h
    obtain ⟨_, hb, hrc, hl, hs⟩ := hsucc h
    refine ⟨hrc, hl, hs, ?_⟩
    rw [tapeBytes_eq, tapeBytes_eq, hpre, symBytes_append, hb]

theorem changeState_tape (c : Conn) (n : Net) (own : Nat) (new : SState) :
    (changeState c n own new).2.tape = n.tape := by
  unfold changeState
  split
  · rfl
  · split <;> rfl

theorem trSend_tape (n : Net) (bytes : List Nat) : (trSend n bytes).2.tape = n.tape := by
  unfold trSend
  split <;> rfl

theorem sendAllLoop_tape : ∀ (fuel : Nat) (n : Net) (rest : List Nat) (total : Nat),
    (sendAllLoop fuel n rest total).2.tape = n.tape := by
  intro fuel
  induction fuel with
  | zero => intro n rest total; rfl
  | succ fuel ih =>
    intro n rest total
    unfold sendAllLoop
    split
    · rfl
    · have ht := trSend_tape n rest
      rcases h : trSend n rest with ⟨rc, n1⟩
      rw [h] at ht
      simp only at ht ⊢
      split
      · exact ht
      · rw [ih]; exact ht

theorem sendPdu_tape (c : Conn) (n : Net) (bytes : List Nat) : (sendPdu c n bytes).2.tape = n.tape := by
  unfold sendPdu
  split
  · rfl
  · have := sendAllLoop_tape (bytes.length + 1) n bytes 0
    unfold sendAll
    rcases h : sendAllLoop (bytes.length + 1) n bytes 0 with ⟨rc, n1⟩
    rw [h] at this
    exact this

theorem sendErrorPdu_tape (c : Conn) (n : Net) (enc : List Nat) (code : Nat) (text : List Nat) :
    (sendErrorPdu c n enc code text).2.tape = n.tape := by
  unfold sendErrorPdu
  split
  · rfl
  · exact sendPdu_tape _ _ _

theorem failFatal_out (c : Conn) (n : Net) (own : Nat) (hdr txt : List Nat) :
    (failFatal c n own hdr txt).1 = .rc (-1) ∧ (failFatal c n own hdr txt).2.2.tape = n.tape := by
  unfold failFatal
  have h1 := sendErrorPdu_tape c n hdr 0 txt
  rcases h : sendErrorPdu c n hdr 0 txt with ⟨ok, n1⟩
  rw [h] at h1
  simp only at h1 ⊢
  have h2 := changeState_tape c n1 own .errFatal
  rcases h' : changeState c n1 own .errFatal with ⟨c2, n2⟩
  rw [h'] at h2
  simp only at h2 ⊢
  exact ⟨trivial, h2.trans h1⟩

theorem recvTransportError_out (c : Conn) (n : Net) (own : Nat) (code : Int) :
    (∃ k, (recvTransportError c n own code).1 = .rc k) ∧ (recvTransportError c n own code).2.2.tape = n.tape := by
  unfold recvTransportError
  have h1 := changeState_tape c n own .errTransport
  have h2 := changeState_tape c n own .errFatal
  rcases e1 : changeState c n own .errTransport with ⟨c1, n1⟩
  rcases e2 : changeState c n own .errFatal with ⟨c2, n2⟩
  rw [e1] at h1; rw [e2] at h2
  simp only at h1 h2 ⊢
  split
  · exact ⟨⟨_, rfl⟩, h1⟩
  · split
    · exact ⟨⟨_, rfl⟩, rfl⟩
    · split
      · exact ⟨⟨_, rfl⟩, rfl⟩
      · split
        · exact ⟨⟨_, rfl⟩, h2⟩
        · exact ⟨⟨_, rfl⟩, h2⟩

/-- the byte-level stream of `m` is a suffix of that of `n` -/
def Consumed (n m : Net) : Prop := ∃ pre, flat n.tape = pre ++ flat m.tape

theorem Consumed.refl (n : Net) : Consumed n n := ⟨[], rfl⟩
theorem Consumed.of_tape_eq {n m : Net} (h : m.tape = n.tape) : Consumed n m := ⟨[], by rw [h]; rfl⟩
theorem Consumed.trans {a b c : Net} (h1 : Consumed a b) (h2 : Consumed b c) : Consumed a c := by
  obtain ⟨p1, e1⟩ := h1
  obtain ⟨p2, e2⟩ := h2
  exact ⟨p1 ++ p2, by rw [e1, e2, List.append_assoc]⟩
theorem Consumed.length_le {n m : Net} (h : Consumed n m) : (flat m.tape).length ≤ (flat n.tape).length := by
  obtain ⟨p, e⟩ := h
  rw [e, List.length_append]; omega

theorem getD_append_left (a b : List Nat) (i : Nat) (h : i < a.length) : (a ++ b).getD i 0 = a.getD i 0 := by
  simp [List.getD_eq_getElem?_getD, List.getElem?_append_left h]

theorem be32_append_left (a b : List Nat) (off : Nat) (h : off + 4 ≤ a.length) : be32 (a ++ b) off = be32 a off := by
  unfold be32
  rw [getD_append_left a b off (by omega), getD_append_left a b (off+1) (by omega),
    getD_append_left a b (off+2) (by omega), getD_append_left a b (off+3) (by omega)]

theorem hdr_fields (hdr body : List Nat) (h : hdr.length = 8) :
    lenOf (hdr ++ body) = lenOf hdr ∧ verOf (hdr ++ body) = verOf hdr ∧ typeOf (hdr ++ body) = typeOf hdr := by
  refine ⟨be32_append_left hdr body 4 (by omega), ?_, ?_⟩
  · exact getD_append_left hdr body 0 (by omega)
  · exact getD_append_left hdr body 1 (by omega)

/-- outcome of the payload stage -/
theorem recvBody_out (c : Conn) (n : Net) (own : Nat) (hdr : List Nat) (hok : TapeOk n.tape)
    (res : RecvRes) (c1 : Conn) (m : Net) (hr : recvBody c n own hdr = (res, c1, m)) :
    Consumed n m ∧
    ((∃ k, res = .rc k) ∨
     (∃ body, res = .ok (hdr ++ body) ∧ body.length = lenOf hdr - 8 ∧ checkSize (hdr ++ body) = true ∧
        tapeBytes n.tape = body ++ tapeBytes m.tape ∧ TapeOk m.tape ∧ c1.version = c.version)) := by
  unfold recvBody at hr
  simp only at hr
  by_cases h0 : lenOf hdr - 8 > 0 ∧ c.state = .shutdown
  · rw [if_pos h0] at hr
    simp only [Prod.mk.injEq] at hr
    obtain ⟨rfl, rfl, rfl⟩ := hr
    exact ⟨Consumed.refl _, Or.inl ⟨_, rfl⟩⟩
  · rw [if_neg h0] at hr
    have key : ∀ (rc2 : Int) (body : List Nat) (n2 : Net) (stop2 : Bool), Consumed n n2 → TapeOk n2.tape →
        (0 ≤ rc2 → body.length = lenOf hdr - 8 ∧ stop2 = false ∧ tapeBytes n.tape = body ++ tapeBytes n2.tape) →
        (if rc2 < 0 then recvTransportError (applyStop c stop2) n2 own rc2
         else if (!checkSize (hdr ++ body)) = true then failFatal (applyStop c stop2) n2 own hdr txtCorrupt
         else (RecvRes.ok (hdr ++ body), applyStop c stop2, n2)) = (res, c1, m) →
        Consumed n m ∧
        ((∃ k, res = .rc k) ∨
         (∃ body, res = .ok (hdr ++ body) ∧ body.length = lenOf hdr - 8 ∧ checkSize (hdr ++ body) = true ∧
            tapeBytes n.tape = body ++ tapeBytes m.tape ∧ TapeOk m.tape ∧ c1.version = c.version)) := by
      intro rc2 body n2 stop2 hcons hok2 hsucc hr2
      by_cases hneg : rc2 < 0
      · rw [if_pos hneg] at hr2
        obtain ⟨⟨k, hk⟩, ht⟩ := recvTransportError_out (applyStop c stop2) n2 own rc2
        rw [hr2] at hk ht
        exact ⟨hcons.trans (Consumed.of_tape_eq ht), Or.inl ⟨k, hk⟩⟩
      · rw [if_neg hneg] at hr2
        by_cases hc : (!checkSize (hdr ++ body)) = true
        · rw [if_pos hc] at hr2
          obtain ⟨hk, ht⟩ := failFatal_out (applyStop c stop2) n2 own hdr txtCorrupt
          rw [hr2] at hk ht
          exact ⟨hcons.trans (Consumed.of_tape_eq ht), Or.inl ⟨_, hk⟩⟩
        · rw [if_neg hc] at hr2
          simp only [Prod.mk.injEq] at hr2
          obtain ⟨rfl, rfl, rfl⟩ := hr2
          obtain ⟨hbl, hst, htb⟩ := hsucc (by omega)
          refine ⟨hcons, Or.inr ⟨body, rfl, hbl, ?_, htb, hok2, ?_⟩⟩
          · simpa using hc
          · rw [hst]; rfl
    by_cases hrem : lenOf hdr - 8 > 0
    · rw [if_pos hrem] at hr
      rcases h1 : recvAll n (lenOf hdr - 8) Gen.RTR_RECV_TIMEOUT with ⟨rc2, body, n2, stop2⟩
      obtain ⟨hok2, _, ⟨pre, hpre, _, _⟩, hsucc⟩ := recvAll_facts n _ _ hok rc2 body n2 stop2 h1
      rw [h1] at hr
      exact key rc2 body n2 stop2 ⟨pre, hpre⟩ hok2 (fun h => ⟨(hsucc h).2.1, (hsucc h).2.2.1, (hsucc h).2.2.2⟩) hr
    · rw [if_neg hrem] at hr
      exact key 0 [] n false (Consumed.refl _) hok
        (fun _ => ⟨by simp only [List.length_nil]; omega, rfl, rfl⟩) hr

theorem downgrade_state (c : Conn) (hdr : List Nat) : (downgrade c hdr).state = c.state := by
  unfold downgrade; split <;> rfl

/-- outcome of `rtr_receive_pdu` once the header is there -/
theorem recvAfterHdr_out (c : Conn) (n : Net) (own : Nat) (hdr : List Nat) (hok : TapeOk n.tape)
    (res : RecvRes) (c1 : Conn) (m : Net) (hr : recvAfterHdr c n own hdr = (res, c1, m)) :
    Consumed n m ∧
    ((∃ k, res = .rc k) ∨
     (∃ body, res = .ok (hdr ++ body) ∧ body.length = lenOf hdr - 8 ∧ checkSize (hdr ++ body) = true ∧
        8 ≤ lenOf hdr ∧ lenOf hdr ≤ Gen.RTR_MAX_PDU_LEN ∧ (verOf hdr = c1.version ∨ typeOf hdr = 10) ∧
        tapeBytes n.tape = body ++ tapeBytes m.tape ∧ TapeOk m.tape)) := by
  unfold recvAfterHdr at hr
  simp only at hr
  by_cases h1 : lenOf hdr < 8
  · rw [if_pos h1] at hr
    obtain ⟨hk, ht⟩ := failFatal_out c n own hdr txtCorrupt
    rw [hr] at hk ht
    exact ⟨Consumed.of_tape_eq ht, Or.inl ⟨_, hk⟩⟩
  · rw [if_neg h1] at hr
    by_cases h2 : lenOf hdr > Gen.RTR_MAX_PDU_LEN
    · rw [if_pos h2] at hr
      obtain ⟨hk, ht⟩ := failFatal_out c n own hdr txtTooBig
      rw [hr] at hk ht
      exact ⟨Consumed.of_tape_eq ht, Or.inl ⟨_, hk⟩⟩
    · rw [if_neg h2] at hr
      by_cases h3 : verOf hdr ≠ (downgrade c hdr).version ∧ typeOf hdr ≠ 10
      · rw [if_pos h3] at hr
        have ht := sendErrorPdu_tape (downgrade c hdr) n hdr 8 []
        rcases h4 : sendErrorPdu (downgrade c hdr) n hdr 8 [] with ⟨ok1, n1⟩
        rw [h4] at hr ht
        simp only [Prod.mk.injEq] at hr ht
        obtain ⟨rfl, rfl, rfl⟩ := hr
        exact ⟨Consumed.of_tape_eq ht, Or.inl ⟨_, rfl⟩⟩
      · rw [if_neg h3] at hr
        obtain ⟨hc, hout⟩ := recvBody_out (downgrade c hdr) n own hdr hok res c1 m hr
        refine ⟨hc, ?_⟩
        rcases hout with hk | ⟨body, hres, hbl, hcs, htb, hokm, hver⟩
        · exact Or.inl hk
        · refine Or.inr ⟨body, hres, hbl, hcs, by omega, by omega, ?_, htb, hokm⟩
          rw [hver]
          by_cases hv : verOf hdr = (downgrade c hdr).version
          · exact Or.inl hv
          · by_cases ht : typeOf hdr = 10
            · exact Or.inr ht
            · exact absurd ⟨hv, ht⟩ h3

/-- **Outcome of `rtr_receive_pdu`.**  Either a result code — and then, unless the socket was shut
    down or the tape was empty, at least one tape symbol was consumed — or a PDU `raw` that passed
    the size check, whose length field is its length and lies in [8, RTR_MAX_PDU_LEN], whose version
    is the socket's (or it is an Error Report), and which is exactly the next `raw.length` bytes of
    the stream. -/
theorem receivePdu_out (c : Conn) (n : Net) (own : Nat) (timeout : Int) (hok : TapeOk n.tape)
    (res : RecvRes) (c1 : Conn) (m : Net) (hr : receivePdu c n own timeout = (res, c1, m)) :
    Consumed n m ∧
    ((∃ k, res = .rc k ∧
        (c.state = .shutdown ∨ n.tape = [] ∨ (flat m.tape).length < (flat n.tape).length)) ∨
     (∃ raw, res = .ok raw ∧ checkSize raw = true ∧ 8 ≤ lenOf raw ∧ lenOf raw ≤ Gen.RTR_MAX_PDU_LEN ∧
        raw.length = lenOf raw ∧ (verOf raw = c1.version ∨ typeOf raw = 10) ∧
        tapeBytes n.tape = raw ++ tapeBytes m.tape ∧ TapeOk m.tape)) := by
  rw [receivePdu_eq_stages] at hr
  by_cases hs : c.state = .shutdown
  · rw [if_pos hs] at hr
    simp only [Prod.mk.injEq] at hr
    obtain ⟨rfl, rfl, rfl⟩ := hr
    exact ⟨Consumed.refl _, Or.inl ⟨_, rfl, Or.inl hs⟩⟩
  · rw [if_neg hs] at hr
    rcases h1 : recvAll n 8 timeout with ⟨rc, hdr, n1, stop⟩
    obtain ⟨hok1, _, ⟨pre, hpre, hne, _⟩, hsucc⟩ := recvAll_facts n 8 timeout hok rc hdr n1 stop h1
    rw [h1] at hr
    simp only at hr
    have hprog : ∀ m : Net, Consumed n1 m →
        n.tape = [] ∨ (flat m.tape).length < (flat n.tape).length := by
      intro m hm
      by_cases hn : n.tape = []
      · exact Or.inl hn
      · right
        have hp := hne (by omega) hn
        have := hm.length_le
        rw [hpre, List.length_append]
        have : 0 < pre.length := List.length_pos_iff.2 hp
        omega
    by_cases hneg : rc < 0
    · rw [if_pos hneg] at hr
      obtain ⟨⟨k, hk⟩, ht⟩ := recvTransportError_out (applyStop c stop) n1 own rc
      rw [hr] at hk ht
      have hc1 : Consumed n1 m := Consumed.of_tape_eq ht
      exact ⟨Consumed.trans ⟨pre, hpre⟩ hc1, Or.inl ⟨k, hk, Or.inr (hprog m hc1)⟩⟩
    · rw [if_neg hneg] at hr
      obtain ⟨_, hl8, _, htb⟩ := hsucc (by omega)
      obtain ⟨hc1, hout⟩ := recvAfterHdr_out (applyStop c stop) n1 own hdr hok1 res c1 m hr
      refine ⟨Consumed.trans ⟨pre, hpre⟩ hc1, ?_⟩
      rcases hout with ⟨k, hk⟩ | ⟨body, hres, hbl, hcs, hge, hle, hver, htb2, hokm⟩
      · exact Or.inl ⟨k, hk, Or.inr (hprog m hc1)⟩
      · obtain ⟨hf1, hf2, hf3⟩ := hdr_fields hdr body hl8
        refine Or.inr ⟨hdr ++ body, hres, hcs, by omega, by omega, ?_, ?_, ?_, hokm⟩
        · rw [hf1, List.length_append, hl8, hbl]; omega
        · rw [hf2, hf3]; exact hver
        · rw [htb, htb2, List.append_assoc]

/-! ## `rtr_pdu_check_size` -/

/-- the type is one of the ten known ones and the length field is exactly what the type requires -/
def KnownSize (raw : List Nat) : Prop :=
  (typeOf raw = 0 ∧ lenOf raw = Gen.sizeof_pdu_serial_notify) ∨
  (typeOf raw = 1 ∧ lenOf raw = Gen.sizeof_pdu_serial_query) ∨
  (typeOf raw = 2 ∧ lenOf raw = Gen.sizeof_pdu_reset_query) ∨
  (typeOf raw = 3 ∧ lenOf raw = Gen.sizeof_pdu_cache_response) ∨
  (typeOf raw = 4 ∧ lenOf raw = Gen.sizeof_pdu_ipv4) ∨
  (typeOf raw = 6 ∧ lenOf raw = Gen.sizeof_pdu_ipv6) ∨
  (typeOf raw = 7 ∧ verOf raw = 0 ∧ lenOf raw = Gen.sizeof_pdu_end_of_data_v0) ∨
  (typeOf raw = 7 ∧ verOf raw = 1 ∧ lenOf raw = Gen.sizeof_pdu_end_of_data_v1) ∨
  (typeOf raw = 8 ∧ lenOf raw = Gen.sizeof_pdu_header) ∨
  (typeOf raw = 9 ∧ lenOf raw = Gen.sizeof_pdu_router_key) ∨
  (typeOf raw = 10 ∧ lenOf raw = 16 + be32 raw 8 + be32 raw (12 + be32 raw 8))

theorem checkSize_spec (raw : List Nat) : checkSize raw = true ↔ KnownSize raw := by
  unfold checkSize KnownSize
  simp only
  split <;> rename_i h
  all_goals simp [h, Gen.sizeof_pdu_error]
  · by_cases a : lenOf raw < 16
    · simp only [a, if_true]; constructor
      · intro x; cases x
      · intro x; omega
    · by_cases b : lenOf raw < 16 + be32 raw 8
      · simp only [a, b, if_true, if_false]; constructor
        · intro x; cases x
        · intro x; omega
      · simp only [a, b, if_false, beq_iff_eq]
  · rename_i h0 h1 h2 h3 h4 h6 h7 h8 h9
    exact ⟨fun e => (h0 e).elim, fun e => (h1 e).elim, fun e => (h2 e).elim, fun e => (h3 e).elim,
      fun e => (h4 e).elim, fun e => (h6 e).elim, fun e => (h7 e).elim, fun e => (h7 e).elim,
      fun e => (h8 e).elim, fun e => (h9 e).elim, fun e => (h e).elim⟩

/-! ## a PDU with a bad length is never handed to the caller -/

theorem getD_take (l : List Nat) (k i : Nat) (h : i < k) : (l.take k).getD i 0 = l.getD i 0 := by
  simp [List.getD_eq_getElem?_getD, h]

theorem be32_take (l : List Nat) (k off : Nat) (h : off + 4 ≤ k) : be32 (l.take k) off = be32 l off := by
  unfold be32
  rw [getD_take l k off (by omega), getD_take l k (off+1) (by omega), getD_take l k (off+2) (by omega),
    getD_take l k (off+3) (by omega)]

theorem bad_length_rejected_quiet (c : Conn) (n : Net) (own : Nat) (timeout : Int) (hq : Quiet n.tape)
    (h8 : 8 ≤ (tapeBytes n.tape).length)
    (hbad : be32 (tapeBytes n.tape) 4 < 8 ∨ be32 (tapeBytes n.tape) 4 > Gen.RTR_MAX_PDU_LEN ∨
      (be32 (tapeBytes n.tape) 4 ≤ (tapeBytes n.tape).length ∧
        checkSize ((tapeBytes n.tape).take (be32 (tapeBytes n.tape) 4)) = false)) :
    (receivePdu c n own timeout).1 = .rc (-1) := by
  rcases hr : receivePdu c n own timeout with ⟨res, c1, m⟩
  show res = .rc (-1)
  rw [receivePdu_eq_stages] at hr
  by_cases hs : c.state = .shutdown
  · rw [if_pos hs] at hr
    simp only [Prod.mk.injEq] at hr
    exact hr.1.symm
  · rw [if_neg hs] at hr
    obtain ⟨n1, h1, hq1, htb1, _, _⟩ := recvAll_chunking_quiet n 8 timeout hq h8
    rw [h1] at hr
    simp only at hr
    rw [if_neg (by omega)] at hr
    generalize hbs : tapeBytes n.tape = bs at *
    have hlen : lenOf (bs.take 8) = be32 bs 4 := be32_take bs 8 4 (by omega)
    unfold recvAfterHdr at hr
    simp only at hr
    rw [hlen] at hr
    by_cases c1' : be32 bs 4 < 8
    · rw [if_pos c1'] at hr
      have := (failFatal_out (applyStop c false) n1 own (bs.take 8) txtCorrupt).1
      rw [hr] at this; exact this
    · rw [if_neg c1'] at hr
      by_cases c2 : be32 bs 4 > Gen.RTR_MAX_PDU_LEN
      · rw [if_pos c2] at hr
        have := (failFatal_out (applyStop c false) n1 own (bs.take 8) txtTooBig).1
        rw [hr] at this; exact this
      · rw [if_neg c2] at hr
        split at hr
        · rcases h4 : sendErrorPdu (downgrade (applyStop c false) (bs.take 8)) n1 (bs.take 8) 8 [] with ⟨ok1, n2⟩
          rw [h4] at hr
          simp only [Prod.mk.injEq] at hr
          exact hr.1.symm
        · rcases hbad with hb | hb | ⟨hle, hcs⟩
          · exact absurd hb c1'
          · exact absurd hb c2
          · unfold recvBody at hr
            simp only at hr
            rw [hlen] at hr
            split at hr
            · simp only [Prod.mk.injEq] at hr
              exact hr.1.symm
            · have hraw : ∀ body, body = (bs.drop 8).take (be32 bs 4 - 8) →
                  checkSize (bs.take 8 ++ body) = false := by
                intro body hb
                have : bs.take (be32 bs 4) = bs.take 8 ++ body := by
                  have e : 8 + (be32 bs 4 - 8) = be32 bs 4 := by omega
                  rw [hb, ← List.take_add, e]
                rw [← this]; exact hcs
              by_cases hrem : be32 bs 4 - 8 > 0
              · rw [if_pos hrem] at hr
                obtain ⟨n2, h2, _⟩ := recvAll_chunking_quiet n1 (be32 bs 4 - 8) Gen.RTR_RECV_TIMEOUT hq1
                  (by rw [htb1, List.length_drop]; omega)
                rw [h2] at hr
                simp only at hr
                rw [if_neg (by omega), htb1, hraw _ rfl] at hr
                simp only [Bool.not_false, if_true] at hr
                have := (failFatal_out (applyStop (downgrade (applyStop c false) (bs.take 8)) false) n2 own
                  (bs.take 8) txtCorrupt).1
                rw [hr] at this; exact this
              · rw [if_neg hrem] at hr
                simp only at hr
                have hb : ([] : List Nat) = (bs.drop 8).take (be32 bs 4 - 8) := by
                  have : be32 bs 4 - 8 = 0 := by omega
                  rw [this]; rfl
                rw [if_neg (by omega), hraw [] hb] at hr
                simp only [Bool.not_false, if_true] at hr
                have := (failFatal_out (applyStop (downgrade (applyStop c false) (bs.take 8)) false) n1 own
                  (bs.take 8) txtCorrupt).1
                rw [hr] at this; exact this

/-! ## (d) the synchronisation on the same stream chunked differently -/

/-! ### the congruences in projection form -/

theorem proj_of_ex {α : Type} {f : Net → α × Net} {n n' : Net}
    (hex : ∀ a m, f n = (a, m) → ∃ m', f n' = (a, m') ∧ Sim m m') :
    (f n).1 = (f n').1 ∧ Sim (f n).2 (f n').2 := by
  obtain ⟨m', h1, h2⟩ := hex _ _ rfl
  rw [h1]; exact ⟨rfl, h2⟩

theorem changeState_proj {n n' : Net} (h : Sim n n') (c : Conn) (own : Nat) (new : SState) :
    (changeState c n own new).1 = (changeState c n' own new).1 ∧
    Sim (changeState c n own new).2 (changeState c n' own new).2 :=
  proj_of_ex (f := fun n => changeState c n own new) (fun a m => changeState_sim h c own new a m)

theorem sendErrorFromHost_proj {n n' : Net} (h : Sim n n') (c : Conn) (raw : List Nat) (k code : Nat)
    (text : List Nat) :
    (sendErrorFromHost c n raw k code text).1 = (sendErrorFromHost c n' raw k code text).1 ∧
    Sim (sendErrorFromHost c n raw k code text).2 (sendErrorFromHost c n' raw k code text).2 :=
  proj_of_ex (f := fun n => sendErrorFromHost c n raw k code text)
    (fun a m => sendErrorFromHost_sim h c raw k code text a m)

theorem receivePdu_proj {n n' : Net} (h : Sim n n') (c : Conn) (own : Nat) (timeout : Int) :
    (receivePdu c n own timeout).1 = (receivePdu c n' own timeout).1 ∧
    (receivePdu c n own timeout).2.1 = (receivePdu c n' own timeout).2.1 ∧
    Sim (receivePdu c n own timeout).2.2 (receivePdu c n' own timeout).2.2 := by
  obtain ⟨m', h1, h2⟩ := receivePdu_sim h c own timeout _ _ _ rfl
  rw [h1]; exact ⟨rfl, rfl, h2⟩

/-- Error Report, then RTR_ERROR_FATAL -/
theorem errThenFatal_proj {n n' : Net} (h : Sim n n') (c : Conn) (own : Nat) (raw : List Nat) (k code : Nat)
    (text : List Nat) :
    (changeState c (sendErrorFromHost c n raw k code text).2 own .errFatal).1 =
      (changeState c (sendErrorFromHost c n' raw k code text).2 own .errFatal).1 ∧
    Sim (changeState c (sendErrorFromHost c n raw k code text).2 own .errFatal).2
      (changeState c (sendErrorFromHost c n' raw k code text).2 own .errFatal).2 :=
  changeState_proj (sendErrorFromHost_proj h c raw k code text).2 c own _

theorem handleErrorPdu_proj {n n' : Net} (h : Sim n n') (c : Conn) (own : Nat) (raw : List Nat) :
    (handleErrorPdu c n own raw).1 = (handleErrorPdu c n' own raw).1 ∧
    Sim (handleErrorPdu c n own raw).2 (handleErrorPdu c n' own raw).2 := by
  unfold handleErrorPdu
  simp only
  split
  · exact changeState_proj h _ _ _
  · split
    · split
      · exact changeState_proj h _ _ _
      · exact changeState_proj h _ _ _
    · exact changeState_proj h _ _ _

theorem handleCacheResponse_proj {n n' : Net} (h : Sim n n') (c : Conn) (ss : Sess) (own : Nat) (raw : List Nat) :
    (handleCacheResponse c ss n own raw).1 = (handleCacheResponse c ss n' own raw).1 ∧
    (handleCacheResponse c ss n own raw).2.1 = (handleCacheResponse c ss n' own raw).2.1 ∧
    (handleCacheResponse c ss n own raw).2.2.1 = (handleCacheResponse c ss n' own raw).2.2.1 ∧
    Sim (handleCacheResponse c ss n own raw).2.2.2 (handleCacheResponse c ss n' own raw).2.2.2 := by
  unfold handleCacheResponse
  simp only
  split
  · exact ⟨rfl, rfl, rfl, h⟩
  · split
    · obtain ⟨e1, e2⟩ := errThenFatal_proj h c own [] 0 0 txtWrongSession
      exact ⟨rfl, e1, rfl, e2⟩
    · exact ⟨rfl, rfl, rfl, h⟩

theorem updatePfx_proj {n n' : Net} (h : Sim n n') (c : Conn) (t : Tbl) (raw : List Nat) :
    (updatePfx c n t raw).1 = (updatePfx c n' t raw).1 ∧
    (updatePfx c n t raw).2.1 = (updatePfx c n' t raw).2.1 ∧
    Sim (updatePfx c n t raw).2.2.1 (updatePfx c n' t raw).2.2.1 ∧
    (updatePfx c n t raw).2.2.2 = (updatePfx c n' t raw).2.2.2 := by
  unfold updatePfx
  simp only
  by_cases h1 : (pfxRecOf raw).len > (if (pfxRecOf raw).v6 = true then 128 else 32) ∨
      (pfxRecOf raw).maxLen > (if (pfxRecOf raw).v6 = true then 128 else 32)
  · simp only [if_pos h1]
    exact ⟨trivial, trivial, (sendErrorFromHost_proj h c raw _ _ _).2, trivial⟩
  · simp only [if_neg h1]
    by_cases h2 : flagsOf raw ≠ 0 ∧ flagsOf raw ≠ 1
    · simp only [if_pos h2]
      exact ⟨trivial, trivial, (sendErrorFromHost_proj h c raw _ _ _).2, trivial⟩
    · simp only [if_neg h2]
      rcases (if flagsOf raw = 1 then ptAdd t.upd.pt (pfxRecOf raw) else ptRemove t.upd.pt (pfxRecOf raw))
        with ⟨pt', rc⟩
      cases rc with
      | duplicate =>
        obtain ⟨e1, e2⟩ := errThenFatal_proj h c t.own raw raw.length 7 []
        exact ⟨rfl, e1, e2, rfl⟩
      | notFound =>
        obtain ⟨e1, e2⟩ := errThenFatal_proj h c t.own raw raw.length 6 []
        exact ⟨rfl, e1, e2, rfl⟩
      | error => exact ⟨rfl, rfl, h, rfl⟩
      | success => exact ⟨rfl, rfl, h, rfl⟩

theorem updateKey_proj {n n' : Net} (h : Sim n n') (c : Conn) (t : Tbl) (raw : List Nat) :
    (updateKey c n t raw).1 = (updateKey c n' t raw).1 ∧
    (updateKey c n t raw).2.1 = (updateKey c n' t raw).2.1 ∧
    Sim (updateKey c n t raw).2.2.1 (updateKey c n' t raw).2.2.1 ∧
    (updateKey c n t raw).2.2.2 = (updateKey c n' t raw).2.2.2 := by
  unfold updateKey
  simp only
  by_cases h2 : flagsOf raw ≠ 0 ∧ flagsOf raw ≠ 1
  · simp only [if_pos h2]
    exact ⟨trivial, trivial, (sendErrorFromHost_proj h c raw _ _ _).2, trivial⟩
  · simp only [if_neg h2]
    rcases (if flagsOf raw = 1 then ktAdd t.upd.kt (keyRecOf raw) else ktRemove t.upd.kt (keyRecOf raw))
      with ⟨kt', rc⟩
    cases rc with
    | duplicate =>
      obtain ⟨e1, e2⟩ := errThenFatal_proj h c t.own raw raw.length 7 []
      exact ⟨rfl, e1, e2, rfl⟩
    | notFound =>
      obtain ⟨e1, e2⟩ := errThenFatal_proj h c t.own raw raw.length 6 []
      exact ⟨rfl, e1, e2, rfl⟩
    | error => exact ⟨rfl, rfl, h, rfl⟩
    | success => exact ⟨rfl, rfl, h, rfl⟩

theorem applyPfx_proj : ∀ (ps : List (List Nat)) {n n' : Net}, Sim n n' → ∀ (c : Conn) (t : Tbl)
    (done : List (List Nat)),
    (applyPfx c n t ps done).1 = (applyPfx c n' t ps done).1 ∧
    (applyPfx c n t ps done).2.1 = (applyPfx c n' t ps done).2.1 ∧
    Sim (applyPfx c n t ps done).2.2.1 (applyPfx c n' t ps done).2.2.1 ∧
    (applyPfx c n t ps done).2.2.2 = (applyPfx c n' t ps done).2.2.2 := by
  intro ps
  induction ps with
  | nil => intro n n' h c t done; exact ⟨rfl, rfl, h, rfl⟩
  | cons p ps ih =>
    intro n n' h c t done
    obtain ⟨e1, e2, e3, e4⟩ := updatePfx_proj h c t p
    unfold applyPfx
    simp only
    rw [← e1, ← e2, ← e4]
    by_cases hok : (updatePfx c n t p).1 = true
    · simp only [if_pos hok]
      exact ih e3 _ _ _
    · simp only [if_neg hok]
      exact ⟨trivial, trivial, e3, trivial⟩

theorem applyKey_proj : ∀ (ps : List (List Nat)) {n n' : Net}, Sim n n' → ∀ (c : Conn) (t : Tbl)
    (done : List (List Nat)),
    (applyKey c n t ps done).1 = (applyKey c n' t ps done).1 ∧
    (applyKey c n t ps done).2.1 = (applyKey c n' t ps done).2.1 ∧
    Sim (applyKey c n t ps done).2.2.1 (applyKey c n' t ps done).2.2.1 ∧
    (applyKey c n t ps done).2.2.2 = (applyKey c n' t ps done).2.2.2 := by
  intro ps
  induction ps with
  | nil => intro n n' h c t done; exact ⟨rfl, rfl, h, rfl⟩
  | cons p ps ih =>
    intro n n' h c t done
    obtain ⟨e1, e2, e3, e4⟩ := updateKey_proj h c t p
    unfold applyKey
    simp only
    rw [← e1, ← e2, ← e4]
    by_cases hok : (updateKey c n t p).1 = true
    · simp only [if_pos hok]
      exact ih e3 _ _ _
    · simp only [if_neg hok]
      exact ⟨trivial, trivial, e3, trivial⟩

/-- two results of the table part that differ only in the chunking of the environment -/
structure SimRes (r r' : ApplyRes) : Prop where
  ok : r.ok = r'.ok
  purged : r.purged = r'.purged
  c : r.c = r'.c
  t : r.t = r'.t
  n : Sim r.n r'.n

theorem applyFail_sim {n n' : Net} (h : Sim n n') (undone : Bool) (c : Conn) (t : Tbl) :
    SimRes (applyFail undone c n t) (applyFail undone c n' t) := by
  unfold applyFail
  simp only
  obtain ⟨e1, e2⟩ := changeState_proj h c (if undone = true then t else t.purge).own .errFatal
  exact ⟨rfl, rfl, e1, rfl, e2⟩

/-- `applyTables` after the shadow tables are set up -/
def applyTablesBody (c : Conn) (n : Net) (t : Tbl) (v4 v6 keys : List (List Nat)) : ApplyRes :=
  match applyPfx c n t v4 [] with
  | (ok4, c, n, t, done4) =>
  if !ok4 then
    match undoAllPfx t done4 with | (undone, t) => applyFail undone c n t
  else
    match applyPfx c n t v6 [] with
    | (ok6, c, n, t, done6) =>
    if !ok6 then
      match undoAllPfx t v4 with
      | (un4, t) =>
        match (if un4 then undoAllPfx t done6 else (false, t)) with
        | (un6, t) => applyFail (un4 && un6) c n t
    else
      match applyKey c n t keys [] with
      | (okk, c, n, t, donek) =>
      if !okk then
        match undoAllPfx t v4 with
        | (un4, t) =>
          match (if un4 then undoAllPfx t v6 else (false, t)) with
          | (un6, t) =>
            match (if un4 && un6 then undoAllKey t donek else (false, t)) with
            | (unk, t) => applyFail (un4 && un6 && unk) c n t
      else { ok := true, purged := false, c := c, n := n, t := t.swapIn }

theorem applyTables_eq (c : Conn) (n : Net) (t : Tbl) (resetting : Bool) (v4 v6 keys : List (List Nat)) :
    applyTables c n t resetting v4 v6 keys =
      applyTablesBody c n (if resetting then { t with shadow := some ⟨ptSrcRemove t.pt 0, ktSrcRemove t.kt 0⟩ } else t)
        v4 v6 keys := by
  unfold applyTables applyTablesBody
  rfl

theorem applyTables_sim {n n' : Net} (h : Sim n n') (c : Conn) (t : Tbl) (resetting : Bool)
    (v4 v6 keys : List (List Nat)) :
    SimRes (applyTables c n t resetting v4 v6 keys) (applyTables c n' t resetting v4 v6 keys) := by
  rw [applyTables_eq, applyTables_eq]
  generalize (if resetting = true then ({ t with shadow := some ⟨ptSrcRemove t.pt 0, ktSrcRemove t.kt 0⟩ } : Tbl)
    else t) = t0
  unfold applyTablesBody
  obtain ⟨a1, a2, a3, a4⟩ := applyPfx_proj v4 h c t0 []
  rcases e4 : applyPfx c n t0 v4 [] with ⟨ok4, c4, n4, t4, d4⟩
  rcases e4' : applyPfx c n' t0 v4 [] with ⟨ok4', c4', n4', t4', d4'⟩
  rw [e4, e4'] at a1 a2 a3 a4
  simp only [Prod.mk.injEq] at a1 a2 a3 a4
  obtain ⟨rfl, rfl⟩ := a4
  subst a1 a2
  simp only
  cases ok4 with
  | false =>
    simp only [Bool.not_false, if_true]
    exact applyFail_sim a3 _ _ _
  | true =>
    simp only [Bool.not_true, Bool.false_eq_true, if_false]
    obtain ⟨b1, b2, b3, b4⟩ := applyPfx_proj v6 a3 c4 t4 []
    rcases e6 : applyPfx c4 n4 t4 v6 [] with ⟨ok6, c6, n6, t6, d6⟩
    rcases e6' : applyPfx c4 n4' t4 v6 [] with ⟨ok6', c6', n6', t6', d6'⟩
    rw [e6, e6'] at b1 b2 b3 b4
    simp only [Prod.mk.injEq] at b1 b2 b3 b4
    obtain ⟨rfl, rfl⟩ := b4
    subst b1 b2
    simp only
    cases ok6 with
    | false =>
      simp only [Bool.not_false, if_true]
      exact applyFail_sim b3 _ _ _
    | true =>
      simp only [Bool.not_true, Bool.false_eq_true, if_false]
      obtain ⟨k1, k2, k3, k4⟩ := applyKey_proj keys b3 c6 t6 []
      rcases ek : applyKey c6 n6 t6 keys [] with ⟨okk, ck, nk, tk, dk⟩
      rcases ek' : applyKey c6 n6' t6 keys [] with ⟨okk', ck', nk', tk', dk'⟩
      rw [ek, ek'] at k1 k2 k3 k4
      simp only [Prod.mk.injEq] at k1 k2 k3 k4
      obtain ⟨rfl, rfl⟩ := k4
      subst k1 k2
      simp only
      cases okk with
      | false =>
        simp only [Bool.not_false, if_true]
        exact applyFail_sim k3 _ _ _
      | true =>
        simp only [Bool.not_true, Bool.false_eq_true, if_false]
        exact ⟨rfl, rfl, rfl, rfl, k3⟩

/-- two socket states that differ only in the chunking of the input still to be read (and in the
    lines of the individual recv calls in the trace) -/
structure SimSt (st st' : St) : Prop where
  c : st.c = st'.c
  ss : st.ss = st'.ss
  tm : st.tm = st'.tm
  t : st.t = st'.t
  n : Sim st.n st'.n

theorem SimSt.eq_with {st st' : St} (h : SimSt st st') : st' = { st with n := st'.n } := by
  cases st; cases st'
  obtain ⟨h1, h2, h3, h4, _⟩ := h
  simp only at h1 h2 h3 h4
  subst h1 h2 h3 h4
  rfl

theorem applyBuffered_sim (st : St) (n' : Net) (h : Sim st.n n') (eod : List Nat) (v4 v6 keys : List (List Nat)) :
    (applyBuffered st eod v4 v6 keys).1 = (applyBuffered { st with n := n' } eod v4 v6 keys).1 ∧
    SimSt (applyBuffered st eod v4 v6 keys).2 (applyBuffered { st with n := n' } eod v4 v6 keys).2 := by
  unfold applyBuffered
  simp only
  obtain ⟨r1, r2, r3, r4, r5⟩ := applyTables_sim h st.c st.t st.ss.isResetting v4 v6 keys
  rw [← r1, ← r2, ← r3, ← r4]
  exact ⟨rfl, ⟨rfl, rfl, rfl, rfl, r5⟩⟩

/-- two results (flag, state, ghost output) that differ only in the chunking -/
structure SimOut {γ : Type} (r r' : Bool × St × γ) : Prop where
  ok : r.1 = r'.1
  st : SimSt r.2.1 r'.2.1
  ghost : r.2.2 = r'.2.2

theorem cleanup_sim {γ : Type} (r r' : Bool × St) (g : γ) (hok : r.1 = r'.1) (h : SimSt r.2 r'.2) :
    SimOut ((cleanup r).1, (cleanup r).2, g) ((cleanup r').1, (cleanup r').2, g) := by
  obtain ⟨h1, h2, h3, h4, h5⟩ := h
  unfold cleanup
  simp only
  rw [h1, h2, h3, h4, hok]
  exact ⟨rfl, ⟨rfl, rfl, rfl, rfl, h5⟩, rfl⟩

theorem recvAndStore_sim : ∀ (fuel : Nat) (st : St) (n' : Net), Sim st.n n' → ∀ (v4 v6 keys : List (List Nat)),
    SimOut (recvAndStore fuel st v4 v6 keys) (recvAndStore fuel { st with n := n' } v4 v6 keys) := by
  intro fuel
  induction fuel with
  | zero =>
    intro st n' h v4 v6 keys
    exact ⟨rfl, ⟨rfl, rfl, rfl, rfl, h⟩, rfl⟩
  | succ fuel ih =>
    intro st n' h v4 v6 keys
    unfold recvAndStore
    obtain ⟨p1, p2, p3⟩ := receivePdu_proj h st.c st.t.own Gen.RTR_RECV_TIMEOUT
    rcases e : receivePdu st.c st.n st.t.own Gen.RTR_RECV_TIMEOUT with ⟨res, c1, n1⟩
    rcases e' : receivePdu st.c n' st.t.own Gen.RTR_RECV_TIMEOUT with ⟨res', c1', n1'⟩
    rw [e, e'] at p1 p2 p3
    simp only at p1 p2 p3
    subst p1 p2
    cases res with
    | rc code =>
      simp only
      by_cases hc : code = -2
      · simp only [if_pos hc]
        obtain ⟨q1, q2⟩ := changeState_proj p3 c1 st.t.own .errTransport
        exact cleanup_sim (false, _) (false, _) _ rfl ⟨q1, rfl, rfl, rfl, q2⟩
      · simp only [if_neg hc]
        exact cleanup_sim (false, _) (false, _) _ rfl ⟨rfl, rfl, rfl, rfl, p3⟩
    | ok raw =>
      simp only
      split
      · exact ih _ _ p3 _ _ _
      · exact ih _ _ p3 _ _ _
      · exact ih _ _ p3 _ _ _
      · by_cases hs : be16 raw 2 ≠ st.ss.session
        · simp only [if_pos hs]
          obtain ⟨q1, q2⟩ := errThenFatal_proj p3 c1 st.t.own raw raw.length 0
            (txtEodSession st.ss.session (be16 raw 2))
          exact cleanup_sim (false, _) (false, _) _ rfl ⟨q1, rfl, rfl, rfl, q2⟩
        · simp only [if_neg hs]
          obtain ⟨q1, q2⟩ := applyBuffered_sim { st with c := c1, n := n1 } n1' p3 raw v4 v6 keys
          exact cleanup_sim _ _ _ q1 q2
      · obtain ⟨q1, q2⟩ := handleErrorPdu_proj p3 c1 st.t.own raw
        exact cleanup_sim (false, _) (false, _) _ rfl ⟨q1, rfl, rfl, rfl, q2⟩
      · exact ih _ _ p3 _ _ _
      · obtain ⟨_, q2⟩ := sendErrorFromHost_proj p3 c1 raw 8 0 txtUnexpectedSync
        exact cleanup_sim (false, _) (false, _) _ rfl ⟨rfl, rfl, rfl, rfl, q2⟩

theorem syncFirst_sim : ∀ (fuel : Nat) (st : St) (n' : Net), Sim st.n n' →
    (syncFirst fuel st).1 = (syncFirst fuel { st with n := n' }).1 ∧
    SimSt (syncFirst fuel st).2 (syncFirst fuel { st with n := n' }).2 := by
  intro fuel
  induction fuel with
  | zero => intro st n' h; exact ⟨rfl, ⟨rfl, rfl, rfl, rfl, h⟩⟩
  | succ fuel ih =>
    intro st n' h
    unfold syncFirst
    obtain ⟨p1, p2, p3⟩ := receivePdu_proj h st.c st.t.own Gen.RTR_RECV_TIMEOUT
    rcases e : receivePdu st.c st.n st.t.own Gen.RTR_RECV_TIMEOUT with ⟨res, c1, n1⟩
    rcases e' : receivePdu st.c n' st.t.own Gen.RTR_RECV_TIMEOUT with ⟨res', c1', n1'⟩
    rw [e, e'] at p1 p2 p3
    simp only at p1 p2 p3
    subst p1 p2
    cases res with
    | rc code =>
      simp only
      by_cases h1 : code = -4 ∧ st.ss.reqSession = true ∧ c1.version > Gen.RTR_PROTOCOL_MIN_SUPPORTED_VERSION
      · simp only [if_pos h1]
        obtain ⟨q1, q2⟩ := changeState_proj p3 { c1 with version := c1.version - 1 } st.t.own .fastReconnect
        exact ⟨trivial, ⟨q1, rfl, rfl, rfl, q2⟩⟩
      · simp only [if_neg h1]
        by_cases h2 : code = -2
        · simp only [if_pos h2]
          obtain ⟨q1, q2⟩ := changeState_proj p3 c1 st.t.own .errTransport
          exact ⟨trivial, ⟨q1, rfl, rfl, rfl, q2⟩⟩
        · simp only [if_neg h2]
          exact ⟨trivial, ⟨rfl, rfl, rfl, rfl, p3⟩⟩
    | ok raw =>
      simp only
      by_cases h1 : typeOf raw = 0
      · simp only [if_pos h1]
        exact ih _ _ p3
      · simp only [if_neg h1]
        exact ⟨trivial, ⟨rfl, rfl, rfl, rfl, p3⟩⟩

theorem syncG_sim (fuel : Nat) (st : St) (n' : Net) (h : Sim st.n n') :
    SimOut (syncG fuel st) (syncG fuel { st with n := n' }) := by
  unfold syncG
  obtain ⟨p1, p2⟩ := syncFirst_sim fuel st n' h
  rcases e : syncFirst fuel st with ⟨r, st1⟩
  rcases e' : syncFirst fuel { st with n := n' } with ⟨r', st1'⟩
  rw [e, e'] at p1 p2
  simp only at p1 p2
  subst p1
  have hst := p2.eq_with
  have hn := p2.n
  generalize st1'.n = m' at hst hn
  subst hst
  cases r with
  | none => exact ⟨rfl, ⟨rfl, rfl, rfl, rfl, hn⟩, rfl⟩
  | some raw =>
    simp only
    split
    · obtain ⟨q1, q2⟩ := handleErrorPdu_proj hn st1.c st1.t.own raw
      exact ⟨rfl, ⟨q1, rfl, rfl, rfl, q2⟩, rfl⟩
    · obtain ⟨q1, q2⟩ := changeState_proj hn st1.c st1.t.own .errNoIncr
      exact ⟨rfl, ⟨q1, rfl, rfl, rfl, q2⟩, rfl⟩
    · obtain ⟨q1, q2, q3, q4⟩ := handleCacheResponse_proj hn st1.c st1.ss st1.t.own raw
      rcases f : handleCacheResponse st1.c st1.ss st1.n st1.t.own raw with ⟨ok, c2, ss2, n2⟩
      rcases f' : handleCacheResponse st1.c st1.ss m' st1.t.own raw with ⟨ok', c2', ss2', n2'⟩
      rw [f, f'] at q1 q2 q3 q4
      simp only at q1 q2 q3 q4
      subst q1 q2 q3
      simp only
      cases ok with
      | false => exact ⟨rfl, ⟨rfl, rfl, rfl, rfl, q4⟩, rfl⟩
      | true =>
        simp only [Bool.not_true, Bool.false_eq_true, if_false]
        obtain ⟨s1, s2, s3⟩ := recvAndStore_sim fuel { st1 with c := c2, ss := ss2, n := n2 } n2' q4 [] [] []
        rcases g : recvAndStore fuel { st1 with c := c2, ss := ss2, n := n2 } [] [] [] with ⟨ok3, st3, b3⟩
        rcases g' : recvAndStore fuel { st1 with c := c2, ss := ss2, n := n2' } [] [] [] with ⟨ok3', st3', b3'⟩
        rw [g, g'] at s1 s2 s3
        simp only at s1 s2 s3
        subst s1 s3
        simp only
        cases ok3 with
        | false => exact ⟨rfl, s2, rfl⟩
        | true =>
          simp only [Bool.not_true, Bool.false_eq_true, if_false]
          obtain ⟨t1, t2, t3, t4, t5⟩ := s2
          refine ⟨rfl, ⟨t1, ?_, t3, t4, t5⟩, rfl⟩
          simp only
          rw [t2, t5.now]
    · obtain ⟨_, q2⟩ := sendErrorFromHost_proj hn st1.c raw 8 0 txtUnexpectedSync2
      exact ⟨rfl, ⟨rfl, rfl, rfl, rfl, q2⟩, rfl⟩

theorem waitForSync_sim (st : St) (n' : Net) (h : Sim st.n n') :
    (waitForSync st).1 = (waitForSync { st with n := n' }).1 ∧
    SimSt (waitForSync st).2 (waitForSync { st with n := n' }).2 := by
  unfold waitForSync
  simp only
  rw [← h.now]
  generalize (if st.ss.lastUpdate + ↑st.tm.refresh - st.n.now < 0 then (0 : Int)
    else st.ss.lastUpdate + ↑st.tm.refresh - st.n.now) = w
  obtain ⟨p1, p2, p3⟩ := receivePdu_proj h st.c st.t.own w
  rcases e : receivePdu st.c st.n st.t.own w with ⟨res, c1, n1⟩
  rcases e' : receivePdu st.c n' st.t.own w with ⟨res', c1', n1'⟩
  rw [e, e'] at p1 p2 p3
  simp only at p1 p2 p3
  subst p1 p2
  cases res <;> exact ⟨rfl, ⟨rfl, rfl, rfl, rfl, p3⟩⟩

/-! ## decidable checks for concrete tapes -/

def tapeOkB : List TapeEv → Bool
  | [] => true
  | .rx bs :: t => !bs.isEmpty && tapeOkB t
  | _ :: t => tapeOkB t

theorem tapeOk_of_tapeOkB : ∀ (t : List TapeEv), tapeOkB t = true → TapeOk t := by
  intro t
  induction t with
  | nil => intro _; exact tapeOk_nil
  | cons e t ih =>
    intro h
    rw [tapeOk_cons]
    cases e with
    | rx bs =>
      simp only [tapeOkB, Bool.and_eq_true, Bool.not_eq_true', List.isEmpty_eq_false_iff] at h
      refine ⟨?_, ih h.2⟩
      intro bs' hb
      cases hb
      exact h.1
    | dt d => exact ⟨fun _ hb => (by cases hb), ih h⟩
    | err => exact ⟨fun _ hb => (by cases hb), ih h⟩
    | block => exact ⟨fun _ hb => (by cases hb), ih h⟩
    | intr => exact ⟨fun _ hb => (by cases hb), ih h⟩
    | closed => exact ⟨fun _ hb => (by cases hb), ih h⟩

end Rtr.P
