/-
  Helper lemmas for C15, part 5: failover (closing less preferable groups when a group becomes
  ESTABLISHED, starting the best CLOSED group when a group enters ERROR), what the other
  operations may log, and the "CLOSED groups own no thread" invariant.
-/
import RtrModel.Mgr
import RtrProofs.MgrSort
import RtrProofs.MgrCb
import RtrProofs.MgrStep
import RtrProofs.MgrProps

namespace Rtr.Mgr

/-! ### status callbacks of the non-event operations -/

theorem remove_log {gs : List Group} {p : Nat} {e : Ev} (h : e ∈ (remove gs p).2.1) :
    (∃ q j ok, e = Ev.start q j ok) ∨
    (∃ g ∈ gs, g.pref = p ∧ g.status ≠ .closed ∧
      ((∃ j, e = Ev.stop p j ∧ j < g.socks.length) ∨ (∃ x, e = Ev.status p .closed x) ∨
       (∃ x, e = Ev.status p g.status x))) := by
  unfold remove at h
  split at h
  · cases h
  · split at h
    · cases h
    · rename_i g hg
      have hgm := findG_some hg
      simp only at h
      rcases List.mem_append.mp h with h | h
      · right
        split at h
        · rename_i hst
          refine ⟨g, hgm.1, hgm.2, hst, ?_⟩
          rcases List.mem_append.mp h with h | h
          · have := stopAll_log h
            rw [hgm.2] at this
            exact this
          · simp only [List.mem_singleton] at h
            right; left; exact ⟨_, h⟩
        · cases h
      · left; exact startFirstIfClosed_log h

theorem stop_log {gs : List Group} {e : Ev} (h : e ∈ (stop gs).2) :
    ∃ g ∈ gs, (∃ j, e = Ev.stop g.pref j ∧ j < g.socks.length) ∨ (∃ x, e = Ev.status g.pref .closed x) ∨
      (∃ x, e = Ev.status g.pref g.status x) := by
  induction gs with
  | nil => cases h
  | cons g t ih =>
    simp only [stop] at h
    rcases List.mem_append.mp h with h | h
    · exact ⟨g, List.mem_cons_self, stopAll_log h⟩
    · obtain ⟨x, hx, hx'⟩ := ih h
      exact ⟨x, List.mem_cons_of_mem _ hx, hx'⟩

theorem add_log {gs : List Group} {p n k : Nat} {e : Ev} (h : e ∈ (add gs p n k).2.1) : ∃ q j ok, e = Ev.start q j ok := by
  rcases add_cases gs p n k with ⟨rc, _, h'⟩ | ⟨_, _, h'⟩
  · rw [h'] at h; cases h
  · rw [h'] at h; exact startFirstIfClosed_log h

theorem start_log {gs : List Group} {e : Ev} (h : e ∈ (start gs).2.1) : ∃ q j ok, e = Ev.start q j ok := by
  cases gs with
  | nil => cases h
  | cons b t =>
    simp only [start] at h
    obtain ⟨j, ok, rfl⟩ := startSockets_log h
    exact ⟨_, _, _, rfl⟩

/-- every ESTABLISHED status callback of any operation is a re-report of a group that already was
    ESTABLISHED, or the report of the event's own group that has just passed the synced check -/
theorem step_log_est {gs : List Group} (o : Op) {q : Nat} {x : Option (Nat × Nat)}
    (hl : Ev.status q .established x ∈ (step gs o).2.1) :
    (∃ g ∈ gs, g.pref = q ∧ g.status = .established) ∨
    ((∃ i sy, o = .ev q i .established sy) ∧
      ∀ g' ∈ (step gs o).1, g'.pref = q → g'.status = .established ∧ g'.isSynced = true) := by
  cases o with
  | ev p i st sy =>
    simp only [step] at hl ⊢
    split at hl
    · rename_i r hr
      rcases event_log_est hr hl with h | ⟨h1, h2, h3⟩
      · left; exact h
      · right; subst h1; subst h2; exact ⟨⟨i, sy, rfl⟩, h3⟩
    · cases hl
  | add p n k =>
    obtain ⟨_, _, _, he⟩ := add_log hl
    cases he
  | setiv p a b c => cases hl
  | remove p =>
    left
    rcases remove_log hl with ⟨_, _, _, he⟩ | ⟨g, hg, hp, _, ⟨_, he, _⟩ | ⟨_, he⟩ | ⟨_, he⟩⟩
    · cases he
    · cases he
    · cases he
    · injection he with e1 e2 e3
      exact ⟨g, hg, by rw [hp, e1], e2.symm⟩
  | start =>
    obtain ⟨_, _, _, he⟩ := start_log hl
    cases he
  | stop =>
    left
    simp only [step] at hl
    obtain ⟨g, hg, ⟨_, he, _⟩ | ⟨_, he⟩ | ⟨_, he⟩⟩ := stop_log hl
    · cases he
    · cases he
    · injection he with e1 e2 e3
      exact ⟨g, hg, e1.symm, e2.symm⟩

/-! ### a group becomes ESTABLISHED: everything less preferable is shut down -/

theorem evList_of_ne {gs : List Group} {p : Nat} {g2 : Group} {g : Group} (hg : g ∈ gs) (hp : g.pref ≠ p) :
    g ∈ modG gs p fun _ => g2 := mem_modG_of_ne hg hp

/-- If the groups of preference `p` were not ESTABLISHED before an event of a socket of `p` and one
    is afterwards, then the callback went through `becomeEstablished`. -/
theorem event_becomes_est {gs : List Group} {p i : Nat} {st : SockState} {sy : Bool} {r : List Group × List Ev}
    (h : event gs p i st sy = some r)
    (hpre : ∀ g ∈ gs, g.pref = p → g.status ≠ .established)
    (hpost : ∃ g' ∈ r.1, g'.pref = p ∧ g'.status = .established) :
    ∃ g s, findG gs p = some g ∧ g.socks[i]? = some s ∧ st = .established ∧
      (evGroup g i s st sy).isSynced = true ∧
      r = becomeEstablished (modG gs p fun _ => evGroup g i s st sy) p i := by
  obtain ⟨g', hg', hp', he⟩ := hpost
  obtain ⟨g, s, hg, hs, ⟨_, rfl⟩ | ⟨_, _, rfl⟩⟩ := event_cases h
  · exfalso
    rcases mem_modG hg' with ⟨h1, _⟩ | ⟨g0, hg0, hg0p, rfl⟩
    · exact hpre g' h1 hp' he
    · exact hpre g0 hg0 hg0p he
  · have hgm := findG_some hg
    have hu := evList_unique (gs := gs) (p := p) (g2 := evGroup g i s st sy) (by rw [evGroup_pref]; exact hgm.2)
    have hpre2 : ∀ x ∈ (modG gs p fun _ => evGroup g i s st sy), x.pref = p → x.status ≠ .established := by
      intro x hx hxp
      obtain ⟨g1, hg1, h3, h4⟩ := evList_status hgm.1 hgm.2 i s st sy hx
      rw [← h4]; exact hpre g1 hg1 (by rw [h3, hxp])
    rcases mgrCb_cases (modG gs p fun _ => evGroup g i s st sy) (evGroup g i s st sy) i st with
      ⟨h1, _, h3, _, h5⟩ | ⟨_, h5⟩ | ⟨_, st', h4, h5⟩ | ⟨_, h5⟩
    · refine ⟨g, s, hg, hs, h1, h3, ?_⟩
      rw [h5, evGroup_pref, hgm.2]
    · exfalso
      rw [h5] at hg'
      rcases cbError_mem hg' with ⟨h1, _⟩ | ⟨g0, _, _, rfl⟩ | ⟨q, _, hq1, _, rfl⟩
      · exact hpre2 g' h1 hp' he
      · cases he
      · rw [evGroup_pref, hgm.2] at hq1
        exact hq1 hp'
    · exfalso
      rw [h5] at hg'
      rcases mem_setStatus hg' with ⟨h1, _⟩ | ⟨g0, hg0, hg0p, rfl⟩
      · exact hpre2 g' h1 hp' he
      · have := hu g0 hg0 hg0p
        subst this
        simp only at he
        rcases h4 with h4 | ⟨h4, _⟩
        · rw [he, evGroup_status] at h4
          exact hpre g hgm.1 hgm.2 h4.symm
        · exact h4 he
    · exfalso
      rw [h5] at hg'
      exact hpre2 g' hg' hp' he

/-- what happens on a stop issued inside the callback: the callback went through
    `becomeEstablished` -/
theorem event_stop_be {gs : List Group} {p i : Nat} {st : SockState} {sy : Bool} {r : List Group × List Ev}
    (h : event gs p i st sy = some r) {q j : Nat} (hl : Ev.stop q j ∈ r.2) :
    ∃ g s, findG gs p = some g ∧ g.socks[i]? = some s ∧ st = .established ∧
      (g.status = .connecting ∨ g.status = .error) ∧ (evGroup g i s st sy).isSynced = true ∧
      r = becomeEstablished (modG gs p fun _ => evGroup g i s st sy) p i := by
  obtain ⟨g, s, hg, hs, ⟨_, rfl⟩ | ⟨_, _, rfl⟩⟩ := event_cases h
  · cases hl
  · have hgm := findG_some hg
    rcases mgrCb_cases (modG gs p fun _ => evGroup g i s st sy) (evGroup g i s st sy) i st with
      ⟨h1, h2, h3, _, h5⟩ | ⟨_, h5⟩ | ⟨_, st', h4, h5⟩ | ⟨_, h5⟩
    · refine ⟨g, s, hg, hs, h1, h2, h3, ?_⟩
      rw [h5, evGroup_pref, hgm.2]
    · rw [h5] at hl
      rcases cbError_log hl with he | ⟨_, _, _, he⟩ <;> cases he
    · rw [h5] at hl
      simp only [List.mem_singleton] at hl
      cases hl
    · rw [h5] at hl; cases hl

/-! ### a group enters ERROR: the best CLOSED group is started -/

theorem someEstablished_false {gs : List Group} (h : ∀ g ∈ gs, g.status ≠ .established) :
    someEstablished gs = false := by
  unfold someEstablished
  cases hc : gs.any (fun g => g.status == Status.established) with
  | false => rfl
  | true =>
    obtain ⟨g, hg, hst⟩ := List.any_eq_true.mp hc
    exact absurd (by simpa using hst) (h g hg)

theorem someEstablished_true {gs : List Group} {g : Group} (hg : g ∈ gs) (h : g.status = .established) :
    someEstablished gs = true := by
  unfold someEstablished
  exact List.any_eq_true.mpr ⟨g, hg, by simp [h]⟩

/-- an effective error event reaches `cbError` -/
theorem event_error_cb {gs : List Group} {p i : Nat} {st : SockState} {sy : Bool} {r : List Group × List Ev}
    (h : event gs p i st sy = some r) (hst : st.isError = true) (hs : Sorted gs)
    {g : Group} {s : Sock} (hg : g ∈ gs) (hp : g.pref = p) (hsock : g.socks[i]? = some s)
    (h1 : s.state ≠ st) (h2 : s.state ≠ .shutdown) :
    r = cbError (modG gs p fun _ => evGroup g i s st sy) (evGroup g i s st sy) i := by
  obtain ⟨g0, s0, hg0, hs0, hc⟩ := event_cases h
  have hf := findG_of_mem hs hg
  rw [hp, hg0] at hf
  cases hf
  rw [hsock] at hs0
  cases hs0
  rcases hc with ⟨hc, _⟩ | ⟨_, _, rfl⟩
  · rcases hc with hc | hc
    · exact absurd hc h1
    · exact absurd hc h2
  · rcases mgrCb_cases (modG gs p fun _ => evGroup g i s st sy) (evGroup g i s st sy) i st with
      ⟨k1, _⟩ | ⟨_, k5⟩ | ⟨k1, _⟩ | ⟨k1, _⟩
    · subst k1; cases hst
    · exact k5
    · rw [hst] at k1; cases k1
    · rw [hst] at k1; cases k1

/-! ### CLOSED groups own no thread (for histories without injected RTR_SHUTDOWN) -/

/-- every CLOSED group has only sockets without a thread -/
def ClosedThreadless (gs : List Group) : Prop :=
  ∀ g ∈ gs, g.status = .closed → ∀ s ∈ g.socks, s.thread = false

theorem startSockets_closed_connecting {q : Group} (ht : ∀ s ∈ q.socks, s.thread = false) :
    q.startSockets.1.status = .connecting := by
  unfold Group.startSockets
  simp only [(startSocks_ok (pref := q.pref) (i := 0) ht).1, if_true]

theorem startFirst_ct {gs : List Group} (h : ClosedThreadless gs) : ClosedThreadless (startFirstIfClosed gs).1 := by
  intro g' hg' hc
  rcases startFirstIfClosed_mem hg' with hm | ⟨q, hq, hqc, rfl⟩
  · exact h g' hm hc
  · rw [startSockets_closed_connecting (h q hq hqc)] at hc; cases hc

theorem evList_ct {gs : List Group} (h : ClosedThreadless gs) {p : Nat} {g : Group} (hg : g ∈ gs)
    {i : Nat} {s : Sock} (hs : g.socks[i]? = some s) (st : SockState) (sy : Bool) :
    ClosedThreadless (modG gs p fun _ => evGroup g i s st sy) := by
  intro g' hg' hc x hx
  rcases mem_evList hg' with ⟨h1, _⟩ | ⟨rfl, _⟩
  · exact h g' h1 hc x hx
  · rcases List.mem_or_eq_of_mem_set hx with hx | rfl
    · exact h g hg hc x hx
    · exact h g hg hc s (List.mem_of_getElem? hs)

theorem mgrCb_ct {gs2 : List Group} {g2 : Group} (hu : ∀ x ∈ gs2, x.pref = g2.pref → x = g2)
    (h : ClosedThreadless gs2) {i : Nat} {st : SockState} (hst : st ≠ .shutdown) :
    ClosedThreadless (mgrCb gs2 g2 i st).1 := by
  intro g' hg' hc
  rcases mgrCb_cases gs2 g2 i st with ⟨_, _, _, _, h5⟩ | ⟨_, h5⟩ | ⟨_, st', h4, h5⟩ | ⟨_, h5⟩
  · rw [h5] at hg'
    obtain ⟨g, hg, _, hk | ⟨_, hk⟩ | ⟨_, _, hk⟩⟩ := be_mem hg'
    · subst hk; exact h g' hg hc
    · rw [hk] at hc; cases hc
    · exact hk
  · rw [h5] at hg'
    rcases cbError_mem hg' with ⟨h1, _⟩ | ⟨g, _, _, rfl⟩ | ⟨q, hq, _, hqc, rfl⟩
    · exact h g' h1 hc
    · cases hc
    · rw [startSockets_closed_connecting (h q hq hqc)] at hc; cases hc
  · rw [h5] at hg'
    rcases mem_setStatus hg' with ⟨h1, _⟩ | ⟨g, hg, hgp, rfl⟩
    · exact h g' h1 hc
    · have := hu g hg hgp
      subst this
      simp only at hc
      rcases h4 with h4 | ⟨_, h4⟩
      · exact h g hg (by rw [← h4, hc])
      · exact absurd (h4 hc) hst
  · rw [h5] at hg'
    exact h g' hg' hc

theorem stop_ct (gs : List Group) : ClosedThreadless (stop gs).1 := by
  intro g' hg' _
  obtain ⟨g, _, rfl⟩ := stop_mem hg'
  exact stopAll_threads g

theorem step_ct {gs : List Group} (hsrt : Sorted gs) (h : ClosedThreadless gs) (o : Op)
    (hno : ∀ p i sy, o ≠ .ev p i .shutdown sy) : ClosedThreadless (step gs o).1 := by
  cases o with
  | ev p i st sy =>
    simp only [step]
    split
    · rename_i r hr
      obtain ⟨g, s, hg, hs, ⟨_, rfl⟩ | ⟨_, _, rfl⟩⟩ := event_cases hr
      · intro g' hg' hc x hx
        rcases mem_modG hg' with ⟨h1, _⟩ | ⟨g0, hg0, hg0p, rfl⟩
        · exact h g' h1 hc x hx
        · have hgm := findG_some hg
          have hgg : g0 = g := hsrt.unique hg0 hgm.1 (hg0p.trans hgm.2.symm)
          subst hgg
          rcases List.mem_or_eq_of_mem_set hx with hx | rfl
          · exact h g0 hg0 hc x hx
          · exact h g0 hg0 hc s (List.mem_of_getElem? hs)
      · have hgm := findG_some hg
        exact mgrCb_ct (evList_unique (by rw [evGroup_pref]; exact hgm.2)) (evList_ct h hgm.1 hs st sy)
          (by intro e; subst e; exact hno p i sy rfl)
    · exact h
  | add p n k =>
    simp only [step]
    rcases add_cases gs p n k with ⟨rc, _, h'⟩ | ⟨_, _, h'⟩
    · rw [h']; exact h
    · rw [h']
      apply startFirst_ct
      intro g hg hc
      rcases List.mem_append.mp (mem_sortG.mp hg) with hm | hm
      · exact h g hm hc
      · simp only [List.mem_singleton] at hm
        subst hm
        intro x hx
        simp only [mkGroupIv, List.mem_replicate] at hx
        rw [hx.2]
  | setiv p a b c =>
    simp only [step, setIvs]
    intro g' hg' hc x hx
    rcases mem_modG hg' with ⟨h1, _⟩ | ⟨g0, hg0, _, rfl⟩
    · exact h g' h1 hc x hx
    · exact h g0 hg0 hc x hx
  | remove p =>
    simp only [step, remove]
    split
    · exact h
    · split
      · exact h
      · apply startFirst_ct
        intro g hg hc
        exact h g (eraseG_mem hg) hc
  | start =>
    cases gs with
    | nil => exact h
    | cons b t =>
      simp only [step, start]
      intro g' hg' hc
      rcases List.mem_cons.mp hg' with rfl | hm
      · rcases startSockets_status b with hs | hs
        · rw [hs] at hc; cases hc
        · rw [hs] at hc
          rw [startSockets_closed_connecting (h b List.mem_cons_self hc)] at hs
          rw [hc] at hs; cases hs
      · exact h g' (List.mem_cons_of_mem _ hm) hc
  | stop => exact stop_ct gs

end Rtr.Mgr
