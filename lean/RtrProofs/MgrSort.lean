/-
  Helper lemmas for C15, part 1: ordering of the group list.
  `Sorted` = strictly ascending preference; insertion sort, ordered insertion, removal, and the
  check loop of rtr_mgr_init.
-/
import RtrModel.Mgr

namespace Rtr.Mgr

/-- strictly ascending preference values (hence pairwise distinct) -/
def Sorted (gs : List Group) : Prop := gs.Pairwise fun a b => a.pref < b.pref

/-- ascending, duplicates allowed -/
def SortedLe (gs : List Group) : Prop := gs.Pairwise fun a b => a.pref ≤ b.pref

def prefs (gs : List Group) : List Nat := gs.map (·.pref)

theorem sorted_iff_prefs (gs : List Group) : Sorted gs ↔ (prefs gs).Pairwise (· < ·) := by
  unfold Sorted prefs
  rw [List.pairwise_map]

theorem sorted_of_prefs_eq {gs gs' : List Group} (h : prefs gs' = prefs gs) (hs : Sorted gs) : Sorted gs' := by
  rw [sorted_iff_prefs] at *
  rw [h]; exact hs

theorem Sorted.nodup {gs : List Group} (h : Sorted gs) : (prefs gs).Nodup := by
  rw [sorted_iff_prefs] at h
  exact h.imp (fun hab => Nat.ne_of_lt hab)

/-- in a sorted list a preference value identifies the group -/
theorem Sorted.unique {gs : List Group} (h : Sorted gs) {a b : Group} (ha : a ∈ gs) (hb : b ∈ gs)
    (hp : a.pref = b.pref) : a = b := by
  induction gs with
  | nil => cases ha
  | cons x t ih =>
    have hx := List.pairwise_cons.mp h
    rcases List.mem_cons.mp ha with rfl | ha'
    · rcases List.mem_cons.mp hb with rfl | hb'
      · rfl
      · have := hx.1 b hb'; omega
    · rcases List.mem_cons.mp hb with rfl | hb'
      · have := hx.1 a ha'; omega
      · exact ih hx.2 ha' hb'

theorem findG_some {gs : List Group} {p : Nat} {g : Group} (h : findG gs p = some g) : g ∈ gs ∧ g.pref = p := by
  unfold findG at h
  refine ⟨List.mem_of_find?_eq_some h, ?_⟩
  have := List.find?_some h
  simpa using this

theorem findG_none {gs : List Group} {p : Nat} (h : findG gs p = none) : ∀ g ∈ gs, g.pref ≠ p := by
  unfold findG at h
  intro g hg
  have := List.find?_eq_none.mp h g hg
  simpa using this

theorem findG_of_mem {gs : List Group} (hs : Sorted gs) {g : Group} (hg : g ∈ gs) : findG gs g.pref = some g := by
  cases h : findG gs g.pref with
  | none => exact absurd rfl (findG_none h g hg)
  | some g' =>
    have := findG_some h
    rw [hs.unique this.1 hg this.2]

/-! ### insertion sort -/

theorem insertG_perm (g : Group) (l : List Group) : (insertG g l).Perm (g :: l) := by
  induction l with
  | nil => exact List.Perm.refl _
  | cons h t ih =>
    unfold insertG
    split
    · exact List.Perm.refl _
    · exact (List.Perm.cons h ih).trans (List.Perm.swap g h t)

theorem sortG_perm (l : List Group) : (sortG l).Perm l := by
  induction l with
  | nil => exact List.Perm.refl _
  | cons h t ih =>
    unfold sortG
    exact (insertG_perm h (sortG t)).trans (List.Perm.cons h ih)

theorem insertG_sortedLe (g : Group) {l : List Group} (hl : SortedLe l) : SortedLe (insertG g l) := by
  induction l with
  | nil => exact List.pairwise_cons.mpr ⟨(fun a h => nomatch h), List.Pairwise.nil⟩
  | cons h t ih =>
    have hh := List.pairwise_cons.mp hl
    unfold insertG
    split
    · rename_i hle
      refine List.pairwise_cons.mpr ⟨?_, hl⟩
      intro a ha
      rcases List.mem_cons.mp ha with rfl | ha'
      · exact hle
      · have := hh.1 a ha'; omega
    · rename_i hnle
      refine List.pairwise_cons.mpr ⟨?_, ih hh.2⟩
      intro a ha
      have := (insertG_perm g t).mem_iff.mp ha
      rcases List.mem_cons.mp this with rfl | ha'
      · omega
      · exact hh.1 a ha'

theorem sortG_sortedLe (l : List Group) : SortedLe (sortG l) := by
  induction l with
  | nil => exact List.Pairwise.nil
  | cons h t ih => unfold sortG; exact insertG_sortedLe h ih

theorem sorted_of_le_nodup {l : List Group} (h : SortedLe l) (hn : (prefs l).Nodup) : Sorted l := by
  unfold prefs at hn
  have hn' : l.Pairwise (fun a b => a.pref ≠ b.pref) := List.pairwise_map.mp hn
  exact (h.and hn').imp (fun hab => by omega)

theorem prefs_perm {l l' : List Group} (h : l.Perm l') : (prefs l).Perm (prefs l') := h.map _

/-- sorting a list with pairwise distinct preferences yields a strictly ascending list -/
theorem sortG_sorted {l : List Group} (hn : (prefs l).Nodup) : Sorted (sortG l) :=
  sorted_of_le_nodup (sortG_sortedLe l) ((prefs_perm (sortG_perm l)).nodup_iff.mpr hn)

/-- a strictly ascending list is a fixed point of the sort -/
theorem insertG_of_lt {g : Group} {l : List Group} (h : ∀ a ∈ l, g.pref < a.pref) : insertG g l = g :: l := by
  cases l with
  | nil => rfl
  | cons x t =>
    unfold insertG
    have := h x (List.mem_cons_self)
    rw [if_pos (by omega)]

theorem sortG_of_sorted {l : List Group} (h : Sorted l) : sortG l = l := by
  induction l with
  | nil => rfl
  | cons x t ih =>
    have hx := List.pairwise_cons.mp h
    unfold sortG
    rw [ih hx.2]
    exact insertG_of_lt hx.1

/-! ### removal -/

theorem eraseG_sublist (p : Nat) (l : List Group) : (eraseG p l).Sublist l := by
  induction l with
  | nil => exact List.Sublist.refl _
  | cons g t ih =>
    unfold eraseG
    split
    · exact List.sublist_cons_self g t
    · exact ih.cons_cons g

theorem eraseG_sorted {p : Nat} {l : List Group} (h : Sorted l) : Sorted (eraseG p l) :=
  List.Pairwise.sublist (eraseG_sublist p l) h

theorem eraseG_length {p : Nat} {l : List Group} (h : ∃ g ∈ l, g.pref = p) : (eraseG p l).length + 1 = l.length := by
  induction l with
  | nil => obtain ⟨g, hg, _⟩ := h; cases hg
  | cons x t ih =>
    unfold eraseG
    split
    · simp
    · rename_i hne
      obtain ⟨g, hg, hp⟩ := h
      rcases List.mem_cons.mp hg with rfl | hg'
      · exact absurd hp hne
      · have := ih ⟨g, hg', hp⟩
        simp only [List.length_cons]; omega

/-- with distinct preferences, removal deletes exactly the groups of that preference -/
theorem mem_eraseG {p : Nat} {l : List Group} (h : Sorted l) {g : Group} :
    g ∈ eraseG p l ↔ g ∈ l ∧ g.pref ≠ p := by
  induction l with
  | nil => simp [eraseG]
  | cons x t ih =>
    have hx := List.pairwise_cons.mp h
    unfold eraseG
    split
    · rename_i hxp
      constructor
      · intro hg
        refine ⟨List.mem_cons_of_mem _ hg, ?_⟩
        have := hx.1 g hg; omega
      · rintro ⟨hg, hne⟩
        rcases List.mem_cons.mp hg with rfl | hg'
        · exact absurd hxp hne
        · exact hg'
    · rename_i hxp
      constructor
      · intro hg
        rcases List.mem_cons.mp hg with rfl | hg'
        · exact ⟨List.mem_cons_self, hxp⟩
        · have := (ih hx.2).mp hg'
          exact ⟨List.mem_cons_of_mem _ this.1, this.2⟩
      · rintro ⟨hg, hne⟩
        rcases List.mem_cons.mp hg with rfl | hg'
        · exact List.mem_cons_self
        · exact List.mem_cons_of_mem _ ((ih hx.2).mpr ⟨hg', hne⟩)

/-! ### the check loop of rtr_mgr_init -/

theorem initCheck_socks {last : Option Nat} {l : List Group} (h : initCheck last l = true) :
    ∀ g ∈ l, g.socks.length ≠ 0 := by
  induction l generalizing last with
  | nil => intro g hg; cases hg
  | cons x t ih =>
    unfold initCheck at h
    split at h
    · cases h
    · split at h
      · cases h
      · rename_i _ hx
        intro g hg
        rcases List.mem_cons.mp hg with rfl | hg'
        · exact hx
        · exact ih h g hg'

theorem initCheck_sorted {last : Option Nat} {l : List Group} (hle : SortedLe l) (h : initCheck last l = true) :
    Sorted l ∧ ∀ x, last = some x → ∀ g ∈ l.head?, x ≠ g.pref := by
  induction l generalizing last with
  | nil => exact ⟨List.Pairwise.nil, by intro x _ g hg; cases hg⟩
  | cons y t ih =>
    have hy := List.pairwise_cons.mp hle
    unfold initCheck at h
    split at h
    · cases h
    · rename_i hlast
      split at h
      · cases h
      · have ht := ih hy.2 h
        refine ⟨List.pairwise_cons.mpr ⟨?_, ht.1⟩, ?_⟩
        · -- y < every later element: ≤ from sortedness, ≠ head from the check, rest by transitivity
          intro a ha
          cases t with
          | nil => cases ha
          | cons z t' =>
            have hyz : y.pref ≠ z.pref := ht.2 y.pref rfl z (by simp)
            have hyz' := hy.1 z (List.mem_cons_self)
            rcases List.mem_cons.mp ha with rfl | ha'
            · omega
            · have := (List.pairwise_cons.mp ht.1).1 a ha'; omega
        · intro x hx g hg
          simp only [List.head?_cons, Option.mem_def, Option.some.injEq] at hg
          subst hg
          intro hxy
          exact hlast (by rw [hx, hxy])

theorem initCheck_of_sorted {last : Option Nat} {l : List Group} (hs : Sorted l)
    (hsocks : ∀ g ∈ l, g.socks.length ≠ 0) (hlast : ∀ x, last = some x → ∀ g ∈ l, x < g.pref) :
    initCheck last l = true := by
  induction l generalizing last with
  | nil => rfl
  | cons y t ih =>
    have hy := List.pairwise_cons.mp hs
    unfold initCheck
    rw [if_neg, if_neg]
    · exact ih hy.2 (fun g hg => hsocks g (List.mem_cons_of_mem _ hg))
        (fun x hx g hg => by cases hx; exact hy.1 g hg)
    · exact hsocks y List.mem_cons_self
    · intro hx
      have := hlast y.pref hx y List.mem_cons_self
      omega

end Rtr.Mgr
