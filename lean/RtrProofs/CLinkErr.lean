/-
  CLinkErr: the three functions of rtrlib/rtr/packets.c through which every byte leaves the library, as translated by
  tools/gen_cfuns.py (RtrModel/Generated/CFuns.lean, regenerated from the current source on every run), equal short
  readable specifications - for EVERY world, socket and memory, under explicit side conditions.  (Property C14.)

      C.rtr_send_error_pdu            = sendErrorSpec     (rtr_send_error_pdu_eq, rtr_send_error_pdu_eq_below)
      C.rtr_send_pdu                  = sendPduSpec       (rtr_send_pdu_eq)
      C.rtr_send_error_pdu_from_host  = the callee on the converted copy   (from_host_len0, from_host_short,
                                                                            from_host_header, from_host_long)

  The functions are translated over `C.XWorld C.S_rtr_socket` (RtrModel/CSem.lean): a callee that is not translated is
  answered by the world and recorded in `w.trace` with its name and its recorded arguments.  For `rtr_send_pdu` called by
  `rtr_send_error_pdu` the recorded arguments are the length followed by the `length` bytes of the message
  (`C.bytesAt`); for `tr_send_all` length, timeout and the bytes of the buffer.  Memory is `Nat → BitVec 8`; the
  variable-length arrays `msg`, `pdu`, `pdu_converted` live in pages of their own above `C.STACK` (`MSG`, `FH`, `SP`; page
  size 2^20; the three literal addresses occur in these three definitions only).

  rtr_send_error_pdu (`errorReportBytes` = the report in HOST byte order on a little-endian host):
    * `erroneous_pdu_len ≥ 2` and type byte (offset 1) = 10 (ERROR): NO call, nothing written, RTR_SUCCESS
      (error_report_never_for_error_report);
    * otherwise exactly ONE call, "rtr_send_pdu", whose arguments are `16 + |enc| + |text|` and exactly
      `errorReportBytes ver code enc text`, enc = the bytes at `erroneous_pdu`, text = the bytes at `err_text`, both as
      they were when the function was called; the return value is the callee's; the memory afterwards is the memory
      before with the report at `MSG` (`C.memFill`), so nothing below `C.STACK` is written (error_report_one_call).
    Side conditions (rtr_send_error_pdu_eq), all necessary for a defined result of the translation:
      `16 + el + tl ≤ 2^20`                      the translator's page size for `msg`; implies that `unsigned int msg_size`
                                                 does not wrap.  When the sum DOES wrap 2^32 the array is too small for
                                                 what is written: `none` for all such lengths (rtr_send_error_pdu_wrap)
      `el = 0 ∨ erroneous_pdu + el ≤ msize`      the encapsulated PDU lies in its object (`NULL, 0` is fine)
      `tl = 0 ∨ err_text + tl ≤ err_text_end`    the text lies in its object
      `Apart … MSG …` (twice)                    the two buffers do not meet the message array (`memcpy` must not
                                                 overlap; the report must not overwrite what is still to be copied).
                                                 `Below` = the convenient special case: the objects end below `C.STACK`.
    Corollaries (C14): error_report_length_consistent (length field = bytes handed over = 16 + len_enc + len_text, type
    10, code in place), error_report_echo_exact / error_report_echo_exact_call (the encapsulated copy and the text are
    byte-for-byte the caller's), error_report_no_uninitialised_byte (return value and recorded calls do not depend on
    the contents of memory above `C.STACK` at the time of the call - where `msg` lives).

  rtr_send_pdu (side conditions `0 < len ≤ 2^20`, `pdu + len ≤ msize ≤ C.STACK`): `len` bytes are copied into the array,
    "rtr_pdu_to_network_byte_order" rewrites the copy (external: the copy afterwards is the world's answer `buf`, cut or
    zero-padded to `len` bytes - the translation does not record what the callee was handed, so "conv = conversion of the
    caller's bytes" is outside these theorems); THEN the state is tested - SHUTDOWN (9): RTR_ERROR, nothing sent
    (send_pdu_shutdown; note that the check comes AFTER the conversion call); otherwise ONE "tr_send_all" with `len`,
    timeout 60 and exactly the converted copy; RTR_SUCCESS iff it returned > 0, else RTR_ERROR (send_pdu_sends).  The
    caller's PDU is never modified (send_pdu_caller_unchanged).

  rtr_send_error_pdu_from_host = fromHostSpec (rtr_send_error_pdu_from_host_eq, side conditions `Below`): by the length of
    the PDU handed in (host byte order): 0 → `rtr_send_error_pdu(NULL, 0, …)`; 1..7 → RTR_ERROR, no call; 8 → a copy whose
    header is converted back to network byte order (`Recv.hdrSwap`, CLinkRecv.to_network_eq; as a byte list: `netHeader`,
    from_host_header_bytes) is reported (from_host_header_call); > 8 → the copy is converted by the external callee
    `rtr_pdu_to_network_byte_order` (the world's answer), then reported (from_host_long_call).  The caller's PDU is never
    modified.
    A TRANSLATOR DEFECT WAS FOUND BY THIS PROOF: gen_cfuns.py used to number the stack pages of every translated function
    from 1, so the array `pdu` of this function and the array `msg` of its translated callee were THE SAME page and the
    callee's header stores overwrote the copy before it was read (the translation reported the report's own first 8
    bytes for length 8 and was `none` for length > 12) - the composition could not be proved.  The translator now gives
    every function pages of its own and refuses overlapping ones; `pages_apart` is the fact the proof needs.

  Proof method (nothing navigates the generated term):
    1. unfold; `C.STACK` is irreducible here and generalised (omega compares atoms up to definitional equality and must
       not look into `2 ^ 40`); name `msg_size` (`extract_lets`) and replace it by `16 + el + tl`;
    2. `c_norm`: one `simp only` normalisation - calls ↦ `xans`/`xrec`; `decide`/`&&`/`==`/`!=` ↦ propositions; unsigned
       comparisons ↦ `toNat`, signed ones ↦ `toInt`; literals on the left of `==` moved to the right;
    3. `walk`: a condition of the generated term (then of the specification) that follows from the context, or whose
       negation does, is passed (`omega`), a real decision splits the goal and prunes both sides, a path that
       contradicts the side conditions is closed (`omega`);
    4. at a leaf of `rtr_send_error_pdu` the memory is some nest of stores and copies `M`; `leaf` reduces the goal to
       `bytesOf M MSG n = errorReportBytes …` and `M = mem` outside; both are settled piecewise by rewriting with the
       `bytesOf_*_other/_at` lemmas (side conditions by `omega`), whatever the order of the stores.
  Checked on modified copies of packets.c (translator re-run, see the report): copy order swapped, `len_enc_pdu` assigned
  after the copy, header fields in another order, `msg_size` summed in another order, text length written through a local
  pointer, `ERROR == t` via a local, `> 1` for `>= 2`, `RTR_SHUTDOWN == state`, return paths of rtr_send_pdu merged,
  from_host's case distinction reordered, pages renumbered - all proofs hold; 14 semantic changes (text length one byte
  off, length field off by one, wrong type / code / version, short copy, text taken from the PDU, length argument short,
  missing Error-Report check, SHUTDOWN test before the conversion, `>= 0` as success, original sent instead of the copy,
  7 bytes treated as a PDU, header not converted) - each breaks the link theorem of its function.
-/
import RtrProofs.CLink
import RtrProofs.CLinkPdu
import RtrProofs.CLinkSync
import RtrProofs.CLinkRecv

set_option linter.unusedSimpArgs false
set_option linter.unusedVariables false

namespace Rtr.CLink.Err
open Rtr Rtr.Gen Rtr.CLink

abbrev Mem := Nat → BitVec 8
abbrev Sock := C.S_rtr_socket
abbrev XW := C.XWorld Sock
abbrev Out := Option (BitVec 32 × Mem × XW)

section
/- `omega` compares atoms up to definitional equality: it must not look into `C.STACK = 2 ^ 40` -/
attribute [local irreducible] C.STACK

/-! ## byte strings in memory -/

/-- the `n` bytes at `a` -/
def bytesOf (m : Mem) (a n : Nat) : List (BitVec 8) := (List.range n).map fun i => m (a + i)

/-- a 16-bit value as it lies in memory on a little-endian host -/
def le16 (v : BitVec 16) : List (BitVec 8) := [v.extractLsb' 0 8, v.extractLsb' 8 8]
/-- a 32-bit value as it lies in memory on a little-endian host -/
def le32 (v : BitVec 32) : List (BitVec 8) :=
  [v.extractLsb' 0 8, v.extractLsb' 8 8, v.extractLsb' 16 8, v.extractLsb' 24 8]

theorem bytesAt_eq (m : Mem) (a n : Nat) : C.bytesAt m a n = (bytesOf m a n).map (BitVec.setWidth 64) := by
  unfold C.bytesAt bytesOf; rw [List.map_map]; rfl

@[simp] theorem bytesOf_length (m : Mem) (a n : Nat) : (bytesOf m a n).length = n := by unfold bytesOf; simp
theorem bytesOf_zero (m : Mem) (a : Nat) : bytesOf m a 0 = [] := rfl
theorem bytesOf_getD (m : Mem) (a n i : Nat) (d : BitVec 8) (h : i < n) : (bytesOf m a n).getD i d = m (a + i) := by
  unfold bytesOf; simp [List.getD_eq_getElem?_getD, h]

theorem bytesOf_congr {m m' : Mem} {a a' n : Nat} (h : ∀ i, i < n → m (a + i) = m' (a' + i)) :
    bytesOf m a n = bytesOf m' a' n := by
  unfold bytesOf
  apply List.map_congr_left
  intro i hi
  exact h i (List.mem_range.mp hi)

theorem bytesOf_add (m : Mem) (a n k : Nat) : bytesOf m a (n + k) = bytesOf m a n ++ bytesOf m (a + n) k := by
  unfold bytesOf
  rw [List.range_add, List.map_append, List.map_map]
  congr 1
  apply List.map_congr_left
  intro i _
  simp only [Function.comp, Nat.add_assoc]

/-- the layout of an Error Report: five header fields, the encapsulated PDU, the text length, the text -/
theorem bytesOf_split (m : Mem) (b e t : Nat) :
    bytesOf m b (16 + e + t) =
      bytesOf m b 1 ++ bytesOf m (b + 1) 1 ++ bytesOf m (b + 2) 2 ++ bytesOf m (b + 4) 4 ++ bytesOf m (b + 8) 4 ++
        bytesOf m (b + 12) e ++ bytesOf m (b + 12 + e) 4 ++ bytesOf m (b + 12 + e + 4) t := by
  rw [show 16 + e + t = 12 + e + 4 + t by omega, bytesOf_add, bytesOf_add, bytesOf_add,
    show (12 : Nat) = 1 + 1 + 2 + 4 + 4 from rfl, bytesOf_add, bytesOf_add, bytesOf_add, bytesOf_add]
  simp only [Nat.add_assoc, Nat.reduceAdd]

/-! ### stores and copies, seen through `bytesOf` (all side conditions are linear arithmetic) -/

theorem store8_other (m : Mem) (p : Nat) (v : BitVec 8) (x : Nat) (h : x ≠ p) : C.store8 m p v x = m x := by
  unfold C.store8; rw [if_neg h]

theorem bytesOf_store8_other (m : Mem) (p : Nat) (v : BitVec 8) (a n : Nat) (h : a + n ≤ p ∨ p < a) :
    bytesOf (C.store8 m p v) a n = bytesOf m a n :=
  bytesOf_congr fun i hi => store8_other m p v _ (by omega)
theorem bytesOf_store16_other (m : Mem) (p : Nat) (v : BitVec 16) (a n : Nat) (h : a + n ≤ p ∨ p + 2 ≤ a) :
    bytesOf (C.store16 m p v) a n = bytesOf m a n :=
  bytesOf_congr fun i hi => store16_other m p v _ (by omega)
theorem bytesOf_store32_other (m : Mem) (p : Nat) (v : BitVec 32) (a n : Nat) (h : a + n ≤ p ∨ p + 4 ≤ a) :
    bytesOf (C.store32 m p v) a n = bytesOf m a n :=
  bytesOf_congr fun i hi => store32_other m p v _ (by omega)
theorem bytesOf_memcpy_other (m : Mem) (d s k a n : Nat) (h : a + n ≤ d ∨ d + k ≤ a) :
    bytesOf (C.memcpy m d s k) a n = bytesOf m a n :=
  bytesOf_congr fun i hi => Recv.memcpy_out m d s k _ (by omega)
theorem bytesOf_memFill_other (m : Mem) (d k : Nat) (l : List (BitVec 8)) (a n : Nat) (h : a + n ≤ d ∨ d + k ≤ a) :
    bytesOf (C.memFill m d k l) a n = bytesOf m a n :=
  bytesOf_congr fun i hi => Recv.memFill_out m d k l _ (by omega)

/-- the destination of a copy holds the source bytes -/
theorem bytesOf_memcpy_at (m : Mem) (d s k a n : Nat) (h : a = d ∧ n = k) :
    bytesOf (C.memcpy m d s k) a n = bytesOf m s n := by
  obtain ⟨rfl, rfl⟩ := h
  apply bytesOf_congr
  intro i hi
  rw [Recv.memcpy_in m a s n _ (by omega)]
  congr 1; omega

theorem bytesOf_store8_at (m : Mem) (p : Nat) (v : BitVec 8) (a : Nat) (h : a = p) :
    bytesOf (C.store8 m p v) a 1 = [v] := by
  subst h; simp [bytesOf, C.store8, List.range_succ]
theorem bytesOf_store16_at (m : Mem) (p : Nat) (v : BitVec 16) (a : Nat) (h : a = p) :
    bytesOf (C.store16 m p v) a 2 = le16 v := by
  subst h; simp [bytesOf, C.store16, List.range_succ, le16]
theorem bytesOf_store32_at (m : Mem) (p : Nat) (v : BitVec 32) (a : Nat) (h : a = p) :
    bytesOf (C.store32 m p v) a 4 = le32 v := by
  subst h; simp [bytesOf, C.store32, List.range_succ, le32]

/-- a filled range holds the first bytes of the filling (zeros where it is shorter) -/
theorem bytesOf_memFill_at (m : Mem) (d k : Nat) (l : List (BitVec 8)) (a n : Nat) (h : a = d ∧ n = k) :
    bytesOf (C.memFill m d k l) a n = Recv.takeD l n := by
  obtain ⟨rfl, rfl⟩ := h
  unfold bytesOf Recv.takeD Recv.hdrB
  apply List.map_congr_left
  intro i hi
  have := List.mem_range.mp hi
  rw [Recv.memFill_in m a n l _ (by omega)]
  congr 1; omega


/-! ## the Error Report -/

/-- the Error Report in HOST byte order, as `rtr_send_error_pdu` assembles it on a little-endian host -/
def errorReportBytes (ver : BitVec 8) (code : BitVec 16) (enc text : List (BitVec 8)) : List (BitVec 8) :=
  [ver, 10#8] ++ le16 code ++ le32 (BitVec.ofNat 32 (16 + enc.length + text.length)) ++
    le32 (BitVec.ofNat 32 enc.length) ++ enc ++ le32 (BitVec.ofNat 32 text.length) ++ text

theorem errorReportBytes_length (ver : BitVec 8) (code : BitVec 16) (enc text : List (BitVec 8)) :
    (errorReportBytes ver code enc text).length = 16 + enc.length + text.length := by
  simp [errorReportBytes, le16, le32]; omega

/-- Where the translation puts the variable-length arrays: every translated function has pages of its own above `C.STACK`
    (page size 2^20; the page numbers follow the translator's list of functions).  THE ONLY PLACE where the three literal
    addresses occur: `msg` of `rtr_send_error_pdu`, … -/
def MSG : Nat := C.STACK + 131072000
/-- … `pdu` of `rtr_send_error_pdu_from_host`, … -/
def FH : Nat := C.STACK + 135266304
/-- … `pdu_converted` of `rtr_send_pdu`. -/
def SP : Nat := C.STACK + 139460608

/-- the object `[a, a+n)` does not meet `[b, b+k)` (nothing is required of an empty object: `NULL, 0` is a legal argument) -/
def Apart (a n b k : Nat) : Prop := n = 0 ∨ a + n ≤ b ∨ b + k ≤ a

def sendErrorSpec (w : XW) (mem : Mem) (s : Sock) (ep : Nat) (el error : BitVec 32) (tp : Nat) (tl : BitVec 32) : Out :=
  let enc := bytesOf mem ep el.toNat
  let text := bytesOf mem tp tl.toNat
  if 2 ≤ el.toNat ∧ mem (ep + 1) = 10#8 then some (0#32, mem, w)
  else
    let report := errorReportBytes (s.version.setWidth 8) (error.setWidth 16) enc text
    some (xret (xans w), C.memFill mem MSG report.length report,
          xrec w "rtr_send_pdu" (BitVec.ofNat 64 report.length :: report.map (BitVec.setWidth 64)) s)

theorem ite_lhs {α : Sort _} {c : Prop} [Decidable c] {a b r : α} (h1 : c → a = r) (h2 : ¬c → b = r) :
    (if c then a else b) = r := by
  by_cases h : c
  · rw [if_pos h]; exact h1 h
  · rw [if_neg h]; exact h2 h

/-! ### normal form of the generated conditions, and the walk down a decision tree -/

theorem sext8_eq10 (x : BitVec 8) : (BitVec.signExtend 32 x = 10#32) = (x = 10#8) := by
  apply propext
  rw [← BitVec.toInt_inj, BitVec.toInt_signExtend_of_le (by decide), lit32_toInt 10 (by omega),
    BitVec.toInt_eq_toNat_cond, ← BitVec.toNat_inj, BitVec.toNat_ofNat]
  have := x.isLt
  split <;> omega

theorem eq32_lit (x : BitVec 32) (k : Nat) (hk : k < 4294967296) : (x = BitVec.ofNat 32 k) = (x.toNat = k) := by
  apply propext; rw [← BitVec.toNat_inj, BitVec.toNat_ofNat, Nat.mod_eq_of_lt hk]
theorem zext64_eq_lit (x : BitVec 32) (k : Nat) (hk : k < 4294967296) :
    (BitVec.setWidth 64 x = BitVec.ofNat 64 k) = (x.toNat = k) := by
  apply propext; rw [← BitVec.toNat_inj, zext64_toNat, BitVec.toNat_ofNat, Nat.mod_eq_of_lt (by omega)]
/-- a literal on the left of an equation goes to the right (`ERROR == t` is `t == ERROR`) -/
theorem lit_eq_comm {n : Nat} (k : Nat) (x : BitVec n) : (BitVec.ofNat n k = x) = (x = BitVec.ofNat n k) :=
  propext eq_comm

theorem ite_rhs {α : Sort _} {c : Prop} [Decidable c] {a b l : α} (h1 : c → l = a) (h2 : ¬c → l = b) :
    l = (if c then a else b) := by
  by_cases h : c
  · rw [if_pos h]; exact h1 h
  · rw [if_neg h]; exact h2 h

/-- normal form of the generated term: external calls as `xans`/`xrec`; `decide`, `&&`, `==`, `!=` as propositions;
    unsigned comparisons as comparisons of `toNat`, signed ones of `toInt`; widenings and literals evaluated; comparisons
    with the literals of these functions (0, 8, ERROR = 10) as statements about the narrow value -/
local syntax "c_norm" "[" Lean.Parser.Tactic.simpLemma,* "]" : tactic
local macro_rules
  | `(tactic| c_norm [$ls,*]) =>
    `(tactic| simp only [xcall_eq, xcallBuf_eq, xret_fold, zext64_toNat, Bool.and_eq_true, Bool.or_eq_true, decide_eq_true_eq,
        beq_iff_eq, bne_iff_ne, ne_eq, BitVec.ult_eq_decide, BitVec.ule_eq_decide, BitVec.slt_eq_decide,
        BitVec.sle_eq_decide, BitVec.toNat_ofNat, BitVec.toInt_zero, Nat.reducePow, Nat.reduceMod,
        lit_eq_comm 0, lit_eq_comm 8, lit_eq_comm 9, lit_eq_comm 10, eq32_lit _ 0 (by decide),
        zext64_eq_lit _ 8 (by decide), sext8_eq10, Nat.add_sub_cancel_left, List.cons_append, List.nil_append,
        not_true_eq_false, not_false_eq_true, true_and, and_true, false_and, and_false, if_true, if_false, $ls,*])

/-- walk down the decision tree of the generated term (left) and of the specification (right): a condition that follows
    from the context, or whose negation does, is passed (`omega`); a real decision splits the goal and prunes both sides;
    a path that contradicts the side conditions is closed (`omega`) -/
local macro "walk" : tactic =>
  `(tactic| repeat' (first
      | (with_reducible rfl)
      | omega
      | ((with_reducible refine Eq.trans (if_pos ?hc_) ?_); (case hc_ => omega))
      | ((with_reducible refine Eq.trans (if_neg ?hc_) ?_); (case hc_ => omega))
      | ((with_reducible refine ite_lhs ?_ ?_) <;> intro h_ <;>
          try simp only [h_, if_true, if_false, not_true_eq_false, not_false_eq_true, Bool.false_eq_true])
      | ((with_reducible refine Eq.trans ?_ (Eq.symm (if_pos ?hc_))); (case hc_ => omega))
      | ((with_reducible refine Eq.trans ?_ (Eq.symm (if_neg ?hc_))); (case hc_ => omega))
      | ((with_reducible refine ite_rhs ?_ ?_) <;> intro h_ <;>
          try simp only [h_, if_true, if_false, not_true_eq_false, not_false_eq_true, Bool.false_eq_true])))

/-- a leaf of `rtr_send_error_pdu`: the memory `M` holds the report at `b` and is `mem` elsewhere -/
theorem leaf {w : XW} {s : Sock} {rc : BitVec 32} {M mem : Mem} {b N : Nat} {n32 : BitVec 32} {report : List (BitVec 8)}
    (hn : n32.toNat = N) (hb : bytesOf M b N = report) (hout : ∀ x, x < b ∨ b + N ≤ x → M x = mem x) :
    (some (rc, M, xrec w "rtr_send_pdu" ([BitVec.setWidth 64 n32] ++ C.bytesAt M b N) s) : Out) =
      some (rc, C.memFill mem b N report,
        xrec w "rtr_send_pdu" (BitVec.ofNat 64 N :: report.map (BitVec.setWidth 64)) s) := by
  have hM : M = C.memFill mem b N report := by
    funext x
    by_cases hx : b ≤ x ∧ x < b + N
    · have h1 : C.memFill mem b N report x = report.getD (x - b) 0#8 := Recv.memFill_in _ _ _ _ _ (by omega)
      have h2 : (bytesOf M b N).getD (x - b) 0#8 = M (b + (x - b)) := bytesOf_getD _ _ _ _ _ (by omega)
      have h3 : b + (x - b) = x := by omega
      rw [h1, ← hb, h2, h3]
    · have h1 : C.memFill mem b N report x = mem x := Recv.memFill_out _ _ _ _ _ (by omega)
      rw [h1]; exact hout x (by omega)
  have h64 : BitVec.setWidth 64 n32 = BitVec.ofNat 64 N := by
    apply BitVec.eq_of_toNat_eq
    have := n32.isLt
    rw [zext64_toNat, BitVec.toNat_ofNat, hn]; omega
  rw [bytesAt_eq, hb, h64, ← hM]; rfl

theorem bytesOf_nil (m : Mem) (a n : Nat) (h : n = 0) : bytesOf m a n = [] := by subst h; rfl

/-- the bytes of the assembled message, piece by piece -/
local macro "close_bytes" : tactic =>
  `(tactic| (rw [bytesOf_split]; unfold errorReportBytes; simp only [bytesOf_length]
             simp (disch := omega) only [bytesOf_length, bytesOf_store8_other, bytesOf_store16_other, bytesOf_store32_other,
               bytesOf_memcpy_other, bytesOf_memcpy_at, bytesOf_store8_at, bytesOf_store16_at, bytesOf_store32_at,
               bytesOf_nil, BitVec.ofNat_toNat, BitVec.setWidth_eq, List.append_assoc, List.cons_append, List.nil_append,
               List.append_nil]))

/-- nothing but the message array is written -/
local macro "close_frame" : tactic =>
  `(tactic| (intro x hx
             simp (disch := omega) only [store8_other, store16_other, store32_other, Recv.memcpy_out]))

theorem rtr_send_error_pdu_eq (w : XW) (mem : Mem) (msize : Nat) (s : Sock) (ep : Nat) (el error : BitVec 32)
    (tp tend : Nat) (tl : BitVec 32)
    (hsz : 16 + el.toNat + tl.toNat ≤ 1048576)
    (hep : el.toNat = 0 ∨ ep + el.toNat ≤ msize) (hea : Apart ep el.toNat MSG (16 + el.toNat + tl.toNat))
    (htp : tl.toNat = 0 ∨ tp + tl.toNat ≤ tend) (hta : Apart tp tl.toNat MSG (16 + el.toNat + tl.toNat)) :
    C.rtr_send_error_pdu w mem msize s ep el error tp tend tl = sendErrorSpec w mem s ep el error tp tl := by
  unfold C.rtr_send_error_pdu sendErrorSpec Apart MSG at *
  generalize C.STACK = S at *
  extract_lets +onlyGivenNames msg_size
  have hms : msg_size = BitVec.ofNat 32 (16 + el.toNat + tl.toNat) := by
    apply BitVec.eq_of_toNat_eq
    simp only [msg_size, BitVec.toNat_setWidth, BitVec.toNat_add, BitVec.toNat_ofNat]
    have := el.isLt; have := tl.isLt
    omega
  have hN : msg_size.toNat = 16 + el.toNat + tl.toNat := by rw [hms, BitVec.toNat_ofNat]; omega
  clear_value msg_size
  -- decide the two "empty buffer" alternatives once (keeps the arithmetic contexts small)
  rcases Nat.eq_zero_or_pos el.toNat with he0 | he0 <;> rcases Nat.eq_zero_or_pos tl.toNat with ht0 | ht0 <;>
  (first | (replace hea := hea.resolve_left (by omega); replace hep := hep.resolve_left (by omega)) | clear hep hea) <;>
  (first | (replace hta := hta.resolve_left (by omega); replace htp := htp.resolve_left (by omega)) | clear htp hta) <;>
  ( by_cases h2 : 2 ≤ el.toNat
    · have hty := Recv.rtr_get_pdu_type_at mem msize ep (by omega)
      by_cases h10 : mem (ep + 1) = 10#8
      · c_norm [hN, hty, h2, h10, errorReportBytes_length, bytesOf_length, and_self]
        walk
      · c_norm [hN, hty, h2, h10, errorReportBytes_length, bytesOf_length, and_false]
        walk
        all_goals (refine leaf hN ?_ ?_)
        all_goals first | close_frame | skip
        all_goals (subst hms; close_bytes)
    · c_norm [hN, h2, errorReportBytes_length, bytesOf_length, false_and]
      walk
      all_goals (refine leaf hN ?_ ?_)
      all_goals first | close_frame | skip
      all_goals (subst hms; close_bytes) )


/-! ### the two outcomes -/

/-- the side conditions of `rtr_send_error_pdu_eq` for buffers that lie in objects of the caller below `C.STACK`
    (an empty buffer may be any pointer, e.g. `NULL`) -/
structure Below (msize ep : Nat) (el : BitVec 32) (tp tend : Nat) (tl : BitVec 32) : Prop where
  size : 16 + el.toNat + tl.toNat ≤ 1048576
  enc : el.toNat = 0 ∨ (ep + el.toNat ≤ msize ∧ msize ≤ C.STACK)
  text : tl.toNat = 0 ∨ (tp + tl.toNat ≤ tend ∧ tend ≤ C.STACK)

theorem rtr_send_error_pdu_eq_below {w : XW} {mem : Mem} {msize : Nat} {s : Sock} {ep : Nat} {el error : BitVec 32}
    {tp tend : Nat} {tl : BitVec 32} (H : Below msize ep el tp tend tl) :
    C.rtr_send_error_pdu w mem msize s ep el error tp tend tl = sendErrorSpec w mem s ep el error tp tl := by
  obtain ⟨h1, h2, h3⟩ := H
  apply rtr_send_error_pdu_eq
  · exact h1
  · omega
  · unfold Apart MSG; generalize C.STACK = S at *; omega
  · omega
  · unfold Apart MSG; generalize C.STACK = S at *; omega

/-- "never in reply to an Error Report": no call is made, nothing is written, RTR_SUCCESS -/
theorem error_report_never_for_error_report {w : XW} {mem : Mem} {msize : Nat} {s : Sock} {ep : Nat}
    {el error : BitVec 32} {tp tend : Nat} {tl : BitVec 32} (H : Below msize ep el tp tend tl)
    (h2 : 2 ≤ el.toNat) (hty : mem (ep + 1) = 10#8) :
    C.rtr_send_error_pdu w mem msize s ep el error tp tend tl = some (0#32, mem, w) := by
  rw [rtr_send_error_pdu_eq_below H]; unfold sendErrorSpec
  rw [if_pos ⟨h2, hty⟩]

/-- otherwise: exactly one call, `rtr_send_pdu(msg, 16 + |enc| + |text|)`, with exactly the bytes of the report; the return
    value is that call's; the only memory written is the message array (in its page above `C.STACK`) -/
theorem error_report_one_call {w : XW} {mem : Mem} {msize : Nat} {s : Sock} {ep : Nat}
    {el error : BitVec 32} {tp tend : Nat} {tl : BitVec 32} (H : Below msize ep el tp tend tl)
    (h : ¬ (2 ≤ el.toNat ∧ mem (ep + 1) = 10#8)) :
    ∃ mem', C.rtr_send_error_pdu w mem msize s ep el error tp tend tl =
        some (xret (w.ext w.n), mem',
          xrecs w [("rtr_send_pdu",
            BitVec.ofNat 64 (16 + el.toNat + tl.toNat) ::
              (errorReportBytes (s.version.setWidth 8) (error.setWidth 16) (bytesOf mem ep el.toNat)
                (bytesOf mem tp tl.toNat)).map (BitVec.setWidth 64), s)]) ∧
      ∀ a, a < C.STACK → mem' a = mem a := by
  rw [rtr_send_error_pdu_eq_below H]; unfold sendErrorSpec
  simp only [if_neg h, errorReportBytes_length, bytesOf_length]
  refine ⟨_, rfl, ?_⟩
  intro a ha
  exact Recv.memFill_out _ _ _ _ _ (by unfold MSG; omega)

/-! ### C14: lengths, echo, no uninitialised byte -/

/-- a little-endian 32-bit field of a byte string -/
def rd32 (l : List (BitVec 8)) (i : Nat) : BitVec 32 :=
  l.getD (i + 3) 0#8 ++ l.getD (i + 2) 0#8 ++ l.getD (i + 1) 0#8 ++ l.getD i 0#8

theorem rd32_le32 (v : BitVec 32) (l : List (BitVec 8)) : rd32 (le32 v ++ l) 0 = v := by
  unfold rd32 le32; simp only [List.cons_append, List.getD_cons_succ, List.getD_cons_zero, Nat.zero_add]
  exact bytes_of_32 v

theorem rd32_drop (l : List (BitVec 8)) (i : Nat) : rd32 l i = rd32 (l.drop i) 0 := by
  unfold rd32; simp [List.getD_eq_getElem?_getD, List.getElem?_drop]

/-- the layout of the report: 12 bytes of header, the encapsulated PDU, 4 bytes of text length, the text -/
theorem errorReportBytes_layout (ver : BitVec 8) (code : BitVec 16) (enc text : List (BitVec 8)) :
    errorReportBytes ver code enc text =
      ([ver, 10#8] ++ le16 code ++ le32 (BitVec.ofNat 32 (16 + enc.length + text.length)) ++
        le32 (BitVec.ofNat 32 enc.length)) ++ (enc ++ (le32 (BitVec.ofNat 32 text.length) ++ text)) := by
  unfold errorReportBytes; simp only [List.append_assoc]

theorem errorReportBytes_drop12 (ver : BitVec 8) (code : BitVec 16) (enc text : List (BitVec 8)) :
    (errorReportBytes ver code enc text).drop 12 = enc ++ (le32 (BitVec.ofNat 32 text.length) ++ text) := by
  rw [errorReportBytes_layout]; exact List.drop_left' (by simp [le16, le32])

/-- the length field of the report is the number of bytes handed over, the nested lengths add up, type and code are in
    their places -/
theorem error_report_length_consistent (ver : BitVec 8) (code : BitVec 16) (enc text : List (BitVec 8))
    (h : 16 + enc.length + text.length < 4294967296) :
    let r := errorReportBytes ver code enc text
    (rd32 r 4).toNat = r.length ∧ (rd32 r 8).toNat = enc.length ∧ (rd32 r (12 + enc.length)).toNat = text.length ∧
      (rd32 r 4).toNat = 16 + (rd32 r 8).toNat + (rd32 r (12 + enc.length)).toNat ∧
      r.getD 0 0#8 = ver ∧ r.getD 1 0#8 = 10#8 ∧ r.getD 3 0#8 ++ r.getD 2 0#8 = code := by
  intro r
  have h4 : rd32 r 4 = BitVec.ofNat 32 (16 + enc.length + text.length) := by
    simp only [r, rd32, errorReportBytes, le16, le32, List.cons_append, List.nil_append, List.getD_cons_succ,
      List.getD_cons_zero]
    exact bytes_of_32 _
  have h8 : rd32 r 8 = BitVec.ofNat 32 enc.length := by
    simp only [r, rd32, errorReportBytes, le16, le32, List.cons_append, List.nil_append, List.getD_cons_succ,
      List.getD_cons_zero]
    exact bytes_of_32 _
  have ht : rd32 r (12 + enc.length) = BitVec.ofNat 32 text.length := by
    rw [rd32_drop, ← List.drop_drop, errorReportBytes_drop12, List.drop_left, rd32_le32]
  have hc : r.getD 3 0#8 ++ r.getD 2 0#8 = code := by
    simp only [r, errorReportBytes, le16, List.cons_append, List.nil_append, List.getD_cons_succ, List.getD_cons_zero]
    rw [BitVec.extractLsb'_append_extractLsb'_eq_extractLsb' (by rfl)]; simp
  refine ⟨?_, ?_, ?_, ?_, rfl, rfl, hc⟩
  · rw [h4, errorReportBytes_length, BitVec.toNat_ofNat]; omega
  · rw [h8, BitVec.toNat_ofNat]; omega
  · rw [ht, BitVec.toNat_ofNat]; omega
  · rw [h4, h8, ht]; simp only [BitVec.toNat_ofNat]; omega

/-- the encapsulated copy is byte for byte the PDU handed in; the text is byte for byte the text handed in -/
theorem error_report_echo_exact (ver : BitVec 8) (code : BitVec 16) (enc text : List (BitVec 8)) :
    ((errorReportBytes ver code enc text).drop 12).take enc.length = enc ∧
      (errorReportBytes ver code enc text).drop (12 + enc.length + 4) = text := by
  constructor
  · rw [errorReportBytes_drop12, List.take_left]
  · rw [show 12 + enc.length + 4 = 12 + (enc.length + 4) by omega, ← List.drop_drop, errorReportBytes_drop12,
      ← List.drop_drop, List.drop_left]
    exact List.drop_left' (by simp [le32])

/-- ... of the translated function: in the recorded arguments of the one call (length first), the encapsulated copy is
    exactly the `erroneous_pdu_len` bytes at `erroneous_pdu` as they were when the function was called -/
theorem error_report_echo_exact_call {w : XW} {mem : Mem} {msize : Nat} {s : Sock} {ep : Nat}
    {el error : BitVec 32} {tp tend : Nat} {tl : BitVec 32} (H : Below msize ep el tp tend tl)
    (h : ¬ (2 ≤ el.toNat ∧ mem (ep + 1) = 10#8)) :
    ∃ rc mem' args, C.rtr_send_error_pdu w mem msize s ep el error tp tend tl =
        some (rc, mem', xrecs w [("rtr_send_pdu", args, s)]) ∧
      ((args.drop 13).take el.toNat) = C.bytesAt mem ep el.toNat ∧
      args.drop (13 + el.toNat + 4) = C.bytesAt mem tp tl.toNat := by
  obtain ⟨mem', he, _⟩ := error_report_one_call (w := w) (s := s) (error := error) H h
  refine ⟨_, mem', _, he, ?_, ?_⟩
  · have := (error_report_echo_exact (s.version.setWidth 8) (error.setWidth 16) (bytesOf mem ep el.toNat)
      (bytesOf mem tp tl.toNat)).1
    rw [bytesOf_length] at this
    rw [show (13 : Nat) = 1 + 12 from rfl, ← List.drop_drop, List.drop_succ_cons, List.drop_zero, ← List.map_drop,
      ← List.map_take, this, bytesAt_eq]
  · have := (error_report_echo_exact (s.version.setWidth 8) (error.setWidth 16) (bytesOf mem ep el.toNat)
      (bytesOf mem tp tl.toNat)).2
    rw [bytesOf_length] at this
    rw [show 13 + el.toNat + 4 = 1 + (12 + el.toNat + 4) by omega, ← List.drop_drop, List.drop_succ_cons, List.drop_zero,
      ← List.map_drop, this, bytesAt_eq]

/-- no byte handed to `rtr_send_pdu` stems from uninitialised memory: what is returned and what is recorded do not
    depend on the contents of memory above `C.STACK` (where the message array lives) when the function is called -/
theorem error_report_no_uninitialised_byte {w : XW} {mem mem' : Mem} {msize : Nat} {s : Sock} {ep : Nat}
    {el error : BitVec 32} {tp tend : Nat} {tl : BitVec 32} (H : Below msize ep el tp tend tl)
    (hm : ∀ a, a < C.STACK → mem a = mem' a) :
    (C.rtr_send_error_pdu w mem msize s ep el error tp tend tl).map (fun r => (r.1, r.2.2)) =
      (C.rtr_send_error_pdu w mem' msize s ep el error tp tend tl).map (fun r => (r.1, r.2.2)) := by
  rw [rtr_send_error_pdu_eq_below H, rtr_send_error_pdu_eq_below H]
  obtain ⟨h1, h2, h3⟩ := H
  have he : bytesOf mem ep el.toNat = bytesOf mem' ep el.toNat := by
    rcases h2 with h0 | ⟨_, _⟩
    · rw [bytesOf_nil _ _ _ h0, bytesOf_nil _ _ _ h0]
    · exact bytesOf_congr fun i hi => hm _ (by omega)
  have ht : bytesOf mem tp tl.toNat = bytesOf mem' tp tl.toNat := by
    rcases h3 with h0 | ⟨_, _⟩
    · rw [bytesOf_nil _ _ _ h0, bytesOf_nil _ _ _ h0]
    · exact bytesOf_congr fun i hi => hm _ (by omega)
  unfold sendErrorSpec
  simp only [he, ht]
  by_cases h2' : 2 ≤ el.toNat
  · have : mem (ep + 1) = mem' (ep + 1) := hm _ (by omega)
    rw [this]
    split <;> simp only [Option.map_some]
  · simp only [h2', false_and, if_false, Option.map_some]


/-! ## rtr_send_pdu: host-to-network conversion of a copy, then one transport send -/

/-- What `rtr_send_pdu` does.  `conv` = the copy after the callee `rtr_pdu_to_network_byte_order` rewrote it (external: the
    world's answer, padded with zeros / cut to `len` bytes).  NOTE the order in the C text: the copy is made and converted
    first, the SHUTDOWN check comes AFTER the conversion call. -/
def sendPduSpec (w : XW) (mem : Mem) (s : Sock) (len : BitVec 32) : Out :=
  let conv := Recv.takeD (xans w).buf len.toNat
  let mem' := C.memFill mem SP len.toNat (xans w).buf
  let w1 := xrec w "rtr_pdu_to_network_byte_order" [] s
  if s.state = 9#32 then some (4294967295#32, mem', w1)
  else
    let w2 := xrec w1 "tr_send_all" (BitVec.setWidth 64 len :: 60#64 :: conv.map (BitVec.setWidth 64)) s
    if 0 < (xret (xans w1)).toInt then some (0#32, mem', w2) else some (4294967295#32, mem', w2)

/-- byte `j` of the destination of a copy -/
theorem memcpy_at (m : Mem) (d s n j : Nat) (h : j < n) : C.memcpy m d s n (d + j) = m (s + j) := by
  rw [Recv.memcpy_in _ _ _ _ _ (by omega), Nat.add_sub_cancel_left]

theorem memFill_memcpy (m : Mem) (d s n : Nat) (l : List (BitVec 8)) :
    C.memFill (C.memcpy m d s n) d n l = C.memFill m d n l := by
  funext x
  by_cases h : d ≤ x ∧ x < d + n
  · rw [Recv.memFill_in _ _ _ _ _ h, Recv.memFill_in _ _ _ _ _ h]
  · rw [Recv.memFill_out _ _ _ _ _ (by omega), Recv.memFill_out _ _ _ _ _ (by omega), Recv.memcpy_out _ _ _ _ _ (by omega)]

theorem bytesAt_memFill (m : Mem) (d n : Nat) (l : List (BitVec 8)) :
    C.bytesAt (C.memFill m d n l) d n = (Recv.takeD l n).map (BitVec.setWidth 64) := by
  rw [bytesAt_eq, bytesOf_memFill_at _ _ _ _ _ _ ⟨rfl, rfl⟩]

theorem rtr_send_pdu_eq (w : XW) (mem : Mem) (msize : Nat) (s : Sock) (pdu : Nat) (len : BitVec 32)
    (h0 : 0 < len.toNat) (h1 : len.toNat ≤ 1048576) (hp : pdu + len.toNat ≤ msize) (hm : msize ≤ C.STACK) :
    C.rtr_send_pdu w mem msize s pdu len = sendPduSpec w mem s len := by
  unfold C.rtr_send_pdu sendPduSpec SP
  generalize C.STACK = S at *
  c_norm [memFill_memcpy, bytesAt_memFill]
  walk


/-- SHUTDOWN: RTR_ERROR, nothing is handed to the transport (the only call is the conversion of the copy, which precedes
    the check) -/
theorem send_pdu_shutdown {w : XW} {mem : Mem} {msize : Nat} {s : Sock} {pdu : Nat} {len : BitVec 32}
    (h0 : 0 < len.toNat) (h1 : len.toNat ≤ 1048576) (hp : pdu + len.toNat ≤ msize) (hm : msize ≤ C.STACK)
    (hs : s.state = 9#32) :
    C.rtr_send_pdu w mem msize s pdu len =
      some (4294967295#32, C.memFill mem SP len.toNat (w.ext w.n).buf,
        xrecs w [("rtr_pdu_to_network_byte_order", [], s)]) := by
  rw [rtr_send_pdu_eq w mem msize s pdu len h0 h1 hp hm]; unfold sendPduSpec
  simp only [hs, if_true]; rfl

/-- otherwise: the conversion call, then ONE `tr_send_all` with length `len`, timeout 60 (RTR_SEND_TIMEOUT) and exactly the
    `len` bytes of the converted copy; RTR_SUCCESS iff the transport returned a value > 0, else RTR_ERROR -/
theorem send_pdu_sends {w : XW} {mem : Mem} {msize : Nat} {s : Sock} {pdu : Nat} {len : BitVec 32}
    (h0 : 0 < len.toNat) (h1 : len.toNat ≤ 1048576) (hp : pdu + len.toNat ≤ msize) (hm : msize ≤ C.STACK)
    (hs : s.state ≠ 9#32) :
    C.rtr_send_pdu w mem msize s pdu len =
      some (if 0 < (xret (w.ext (w.n + 1))).toInt then 0#32 else 4294967295#32,
        C.memFill mem SP len.toNat (w.ext w.n).buf,
        xrecs w [("rtr_pdu_to_network_byte_order", [], s),
                 ("tr_send_all", BitVec.setWidth 64 len :: 60#64 ::
                    (Recv.takeD (w.ext w.n).buf len.toNat).map (BitVec.setWidth 64), s)]) := by
  rw [rtr_send_pdu_eq w mem msize s pdu len h0 h1 hp hm]; unfold sendPduSpec
  have e : xans (xrec w "rtr_pdu_to_network_byte_order" [] s) = w.ext (w.n + 1) := rfl
  simp only [hs, if_false, e]
  by_cases hr : 0 < (xret (w.ext (w.n + 1))).toInt <;>
    simp only [hr, if_true, if_false, xrec_eq_xrecs, xrecs_xrecs, xans_eq, List.cons_append, List.nil_append]

/-- the number of bytes handed to the transport is the length handed to it -/
theorem send_pdu_length_consistent (buf : List (BitVec 8)) (len : BitVec 32) :
    ((Recv.takeD buf len.toNat).map (BitVec.setWidth 64)).length = (BitVec.setWidth 64 len).toNat := by
  rw [List.length_map, Recv.takeD_length, zext64_toNat]

/-- the caller's PDU is not modified (the conversion works on a copy): whatever the outcome, memory below `C.STACK` is as
    before -/
theorem send_pdu_caller_unchanged {w : XW} {mem : Mem} {msize : Nat} {s : Sock} {pdu : Nat} {len : BitVec 32}
    (h0 : 0 < len.toNat) (h1 : len.toNat ≤ 1048576) (hp : pdu + len.toNat ≤ msize) (hm : msize ≤ C.STACK) :
    ∃ rc mem' w', C.rtr_send_pdu w mem msize s pdu len = some (rc, mem', w') ∧ ∀ a, a < C.STACK → mem' a = mem a := by
  rw [rtr_send_pdu_eq w mem msize s pdu len h0 h1 hp hm]; unfold sendPduSpec
  have hf : ∀ a, a < C.STACK → C.memFill mem SP len.toNat (xans w).buf a = mem a :=
    fun a ha => Recv.memFill_out _ _ _ _ _ (by unfold SP; omega)
  by_cases hs : s.state = 9#32
  · simp only [hs, if_true]; exact ⟨_, _, _, rfl, hf⟩
  · simp only [hs, if_false]
    split
    · exact ⟨_, _, _, rfl, hf⟩
    · exact ⟨_, _, _, rfl, hf⟩

/-! ## rtr_send_error_pdu_from_host -/

theorem match_id (o : Out) : (match o with | none => none | some (a, b, c) => some (a, b, c)) = o := by
  rcases o with _ | ⟨a, b, c⟩ <;> rfl

/-- length 0 ("internal errors"): the report without encapsulated PDU - `rtr_send_error_pdu(NULL, 0, …)` -/
theorem from_host_len0 (w : XW) (mem : Mem) (msize : Nat) (s : Sock) (ep : Nat) (error : BitVec 32) (tp tend : Nat)
    (tl : BitVec 32) :
    C.rtr_send_error_pdu_from_host w mem msize s ep 0#32 error tp tend tl =
      C.rtr_send_error_pdu w mem msize s C.NULL 0#32 error tp tend tl := by
  unfold C.rtr_send_error_pdu_from_host
  simp only [beq_self_eq_true, if_true]
  exact match_id _

/-- length 1..7 (shorter than a header): RTR_ERROR without any call; the caller's memory is not written -/
theorem from_host_short (w : XW) (mem : Mem) (msize : Nat) (s : Sock) (ep : Nat) (el error : BitVec 32) (tp tend : Nat)
    (tl : BitVec 32) (h1 : 1 ≤ el.toNat) (h7 : el.toNat ≤ 7) (hp : ep + el.toNat ≤ msize) (hm : msize ≤ C.STACK) :
    C.rtr_send_error_pdu_from_host w mem msize s ep el error tp tend tl =
      some (4294967295#32, C.memcpy mem FH ep el.toNat, w) := by
  unfold C.rtr_send_error_pdu_from_host FH
  generalize C.STACK = S at *
  c_norm []
  walk


/-! ## when `16 + erroneous_pdu_len + err_text_len` wraps 2^32 -/

theorem ite_or {α : Type _} {c : Prop} [Decidable c] {a b : Option α} {r : α} (h1 : c → a = none ∨ a = some r)
    (h2 : ¬c → b = none ∨ b = some r) : (if c then a else b) = none ∨ (if c then a else b) = some r := by
  by_cases h : c
  · rw [if_pos h]; exact h1 h
  · rw [if_neg h]; exact h2 h

/-- `unsigned int msg_size = sizeof(struct pdu_error) + 4 + erroneous_pdu_len + err_text_len` is computed modulo 2^32.
    When the sum wraps, the array `msg[msg_size]` is smaller than what is then written into it: a header store or one of
    the two `memcpy`s leaves the array - the C text has no defined result there (`none`), for ALL such lengths; the only
    defined outcome left is the early return for an encapsulated Error Report, which is taken before anything is written.
    (No caller in packets.c passes such lengths: the encapsulated PDU is at most RTR_MAX_PDU_LEN bytes, the texts are
    string literals.) -/
theorem rtr_send_error_pdu_wrap (w : XW) (mem : Mem) (msize : Nat) (s : Sock) (ep : Nat) (el error : BitVec 32)
    (tp tend : Nat) (tl : BitVec 32) (hw : 4294967296 ≤ 16 + el.toNat + tl.toNat) :
    C.rtr_send_error_pdu w mem msize s ep el error tp tend tl = none ∨
      C.rtr_send_error_pdu w mem msize s ep el error tp tend tl = some (0#32, mem, w) := by
  unfold C.rtr_send_error_pdu
  generalize C.STACK = S at *
  extract_lets +onlyGivenNames msg_size
  have hN : msg_size.toNat + 4294967296 = 16 + el.toNat + tl.toNat ∨
      msg_size.toNat + 8589934592 = 16 + el.toNat + tl.toNat := by
    simp only [msg_size, BitVec.toNat_setWidth, BitVec.toNat_add, BitVec.toNat_ofNat]
    have := el.isLt; have := tl.isLt
    omega
  clear_value msg_size
  have hel := el.isLt
  have htl := tl.isLt
  rw [rtr_get_pdu_type_eq]
  by_cases hg : ep + 2 ≤ msize
  · c_norm [hg]
    repeat' (first | exact Or.inl rfl | exact Or.inr rfl | omega | (refine ite_or ?_ ?_ <;> intro h_))
  · c_norm [hg]
    repeat' (first | exact Or.inl rfl | exact Or.inr rfl | omega | (refine ite_or ?_ ?_ <;> intro h_))


/-- length 8 (a bare header): the copy's header is converted back to network byte order (`Recv.hdrSwap`: bytes 4..7
    reversed, bytes 2, 3 swapped unless the type is ROUTER_KEY - CLinkRecv.to_network_eq), then the copy is reported -/
theorem from_host_header (w : XW) (mem : Mem) (msize : Nat) (s : Sock) (ep : Nat) (el error : BitVec 32) (tp tend : Nat)
    (tl : BitVec 32) (h8 : el.toNat = 8) (hp : ep + 8 ≤ msize) (hm : msize ≤ C.STACK) :
    C.rtr_send_error_pdu_from_host w mem msize s ep el error tp tend tl =
      C.rtr_send_error_pdu w (Recv.hdrSwap (C.memcpy mem FH ep 8) FH) (FH + 8) s FH el error tp tend tl := by
  unfold C.rtr_send_error_pdu_from_host FH
  generalize C.STACK = S at *
  c_norm [h8]
  simp (disch := omega) only [Recv.to_network_eq]
  walk
  all_goals exact match_id _

/-- length > 8: the whole copy is converted by the callee `rtr_pdu_to_network_byte_order` (external: the copy afterwards
    is the world's answer), then the copy is reported -/
theorem from_host_long (w : XW) (mem : Mem) (msize : Nat) (s : Sock) (ep : Nat) (el error : BitVec 32) (tp tend : Nat)
    (tl : BitVec 32) (h8 : 8 < el.toNat) (h1 : el.toNat ≤ 1048576) (hp : ep + el.toNat ≤ msize) (hm : msize ≤ C.STACK) :
    C.rtr_send_error_pdu_from_host w mem msize s ep el error tp tend tl =
      C.rtr_send_error_pdu (xrec w "rtr_pdu_to_network_byte_order" [] s)
        (C.memFill mem FH el.toNat (xans w).buf) (FH + el.toNat) s FH el error tp tend tl := by
  unfold C.rtr_send_error_pdu_from_host FH
  generalize C.STACK = S at *
  c_norm [memFill_memcpy]
  walk
  all_goals exact match_id _

/-- the array `pdu` of `rtr_send_error_pdu_from_host` and the array `msg` of its callee are different objects (the
    translator gives every translated function pages of its own; before that was so, this could not be proved and the
    translation of this function was wrong - see the header) -/
theorem pages_apart (n k : Nat) (hn : n ≤ 1048576) (hk : 16 + n + k ≤ 1048576) : Apart FH n MSG (16 + n + k) := by
  unfold Apart FH MSG; generalize C.STACK = S; omega

/-- what `rtr_send_error_pdu_from_host` does, by the length of the PDU handed in (host byte order):
      0      the report without encapsulated PDU (`rtr_send_error_pdu(NULL, 0, …)`);
      1..7   RTR_ERROR, no call;
      8      the header is converted back to network byte order in a copy, the copy is reported;
      > 8    the copy is converted by `rtr_pdu_to_network_byte_order` (external: the world's answer), then reported -/
def fromHostSpec (w : XW) (mem : Mem) (s : Sock) (ep : Nat) (el error : BitVec 32) (tp : Nat) (tl : BitVec 32) : Out :=
  if el.toNat = 0 then sendErrorSpec w mem s C.NULL 0#32 error tp tl
  else if el.toNat < 8 then some (4294967295#32, C.memcpy mem FH ep el.toNat, w)
  else if el.toNat = 8 then sendErrorSpec w (Recv.hdrSwap (C.memcpy mem FH ep 8) FH) s FH el error tp tl
  else sendErrorSpec (xrec w "rtr_pdu_to_network_byte_order" [] s) (C.memFill mem FH el.toNat (xans w).buf) s FH el error
    tp tl

theorem rtr_send_error_pdu_from_host_eq {w : XW} {mem : Mem} {msize : Nat} {s : Sock} {ep : Nat} {el error : BitVec 32}
    {tp tend : Nat} {tl : BitVec 32} (H : Below msize ep el tp tend tl) :
    C.rtr_send_error_pdu_from_host w mem msize s ep el error tp tend tl = fromHostSpec w mem s ep el error tp tl := by
  obtain ⟨hsz, hep, htp⟩ := H
  have hT : ∀ n, Apart tp tl.toNat MSG n := by
    intro n; unfold Apart MSG; generalize C.STACK = S at *; omega
  unfold fromHostSpec
  by_cases h0 : el.toNat = 0
  · have : el = 0#32 := BitVec.eq_of_toNat_eq h0
    subst this
    rw [if_pos h0, from_host_len0]
    exact rtr_send_error_pdu_eq _ _ _ _ _ _ _ _ _ _ hsz (Or.inl rfl) (Or.inl rfl) (by omega) (hT _)
  · have hep' := hep.resolve_left h0
    rw [if_neg h0]
    by_cases h7 : el.toNat < 8
    · rw [if_pos h7]
      exact from_host_short w mem msize s ep el error tp tend tl (by omega) (by omega) hep'.1 hep'.2
    · rw [if_neg h7]
      by_cases h8 : el.toNat = 8
      · rw [if_pos h8, from_host_header w mem msize s ep el error tp tend tl h8 (by omega) hep'.2]
        refine rtr_send_error_pdu_eq _ _ _ _ _ _ _ _ _ _ hsz (Or.inr (by omega)) ?_ (by omega) (hT _)
        rw [h8]; exact pages_apart 8 tl.toNat (by omega) (by omega)
      · rw [if_neg h8, from_host_long w mem msize s ep el error tp tend tl (by omega) (by omega) hep'.1 hep'.2]
        exact rtr_send_error_pdu_eq _ _ _ _ _ _ _ _ _ _ hsz (Or.inr (Nat.le_refl _)) (pages_apart _ _ (by omega) hsz)
          (by omega) (hT _)

/-! ### what is reported -/

/-- a header in network byte order, given in host byte order (little-endian host): bytes 4..7 reversed, bytes 2, 3 swapped
    unless the type is ROUTER_KEY (9) -/
def netHeader (h : List (BitVec 8)) : List (BitVec 8) :=
  (List.range 8).map fun k => h.getD (Recv.perm (h.getD 1 0#8) k) 0#8

/-- the copy that is reported for length 8 is the caller's header in network byte order -/
theorem from_host_header_bytes (mem : Mem) (ep : Nat) (hp : ep + 8 ≤ C.STACK) :
    bytesOf (Recv.hdrSwap (C.memcpy mem FH ep 8) FH) FH 8 = netHeader (bytesOf mem ep 8) := by
  have hc : ∀ j, j < 8 → C.memcpy mem FH ep 8 (FH + j) = mem (ep + j) := fun j hj => memcpy_at _ _ _ _ _ hj
  unfold bytesOf netHeader
  apply List.map_congr_left
  intro k hk
  have hk8 : k < 8 := List.mem_range.mp hk
  have h1 : ((List.range 8).map fun i => mem (ep + i)).getD 1 0#8 = mem (ep + 1) := by simp [List.range_succ]
  have hperm := Recv.perm_lt (mem (ep + 1)) k hk8
  rw [Recv.hdrSwap_at, hc 1 (by omega), hc _ hperm, h1]
  exact (bytesOf_getD mem ep 8 _ 0#8 hperm).symm

/-- length 8, the type is not ERROR: ONE call, `rtr_send_pdu`, with the report that encapsulates the header in NETWORK
    byte order and the caller's text; the caller's memory is not written -/
theorem from_host_header_call {w : XW} {mem : Mem} {msize : Nat} {s : Sock} {ep : Nat} {el error : BitVec 32}
    {tp tend : Nat} {tl : BitVec 32} (H : Below msize ep el tp tend tl) (h8 : el.toNat = 8) (hty : mem (ep + 1) ≠ 10#8) :
    ∃ mem', C.rtr_send_error_pdu_from_host w mem msize s ep el error tp tend tl =
        some (xret (w.ext w.n), mem',
          xrecs w [("rtr_send_pdu",
            BitVec.ofNat 64 (16 + 8 + tl.toNat) ::
              (errorReportBytes (s.version.setWidth 8) (error.setWidth 16) (netHeader (bytesOf mem ep 8))
                (bytesOf mem tp tl.toNat)).map (BitVec.setWidth 64), s)]) ∧
      ∀ a, a < C.STACK → mem' a = mem a := by
  rw [rtr_send_error_pdu_from_host_eq H]
  obtain ⟨hsz, hep, htp⟩ := H
  have hep' := hep.resolve_left (by omega)
  unfold fromHostSpec sendErrorSpec
  rw [if_neg (by omega), if_neg (by omega), if_pos h8]
  have hout : ∀ a, a < C.STACK → Recv.hdrSwap (C.memcpy mem FH ep 8) FH a = mem a := by
    intro a ha
    rw [Recv.hdrSwap_out _ _ _ (by unfold FH; omega), Recv.memcpy_out _ _ _ _ _ (by unfold FH; omega)]
  have hcopy1 : Recv.hdrSwap (C.memcpy mem FH ep 8) FH (FH + 1) = mem (ep + 1) := by
    rw [Recv.hdrSwap_out _ _ _ (by omega), memcpy_at _ _ _ _ _ (by omega)]
  have htext : bytesOf (Recv.hdrSwap (C.memcpy mem FH ep 8) FH) tp tl.toNat = bytesOf mem tp tl.toNat := by
    rcases htp with h | ⟨h1, h2⟩
    · rw [bytesOf_nil _ _ _ h, bytesOf_nil _ _ _ h]
    · exact bytesOf_congr fun i hi => hout _ (by omega)
  rw [if_neg (by rw [hcopy1]; exact fun h => hty h.2)]
  simp only [h8, from_host_header_bytes mem ep (by omega), htext, errorReportBytes_length, bytesOf_length]
  refine ⟨_, rfl, ?_⟩
  intro a ha
  rw [Recv.memFill_out _ _ _ _ _ (by unfold MSG; omega)]
  exact hout a ha

/-- length > 8, the type byte of the converted copy is not ERROR: the conversion call, then ONE `rtr_send_pdu` with the
    report that encapsulates the converted copy (the world's answer, `el` bytes) and the caller's text -/
theorem from_host_long_call {w : XW} {mem : Mem} {msize : Nat} {s : Sock} {ep : Nat} {el error : BitVec 32}
    {tp tend : Nat} {tl : BitVec 32} (H : Below msize ep el tp tend tl) (h8 : 8 < el.toNat)
    (hty : (w.ext w.n).buf.getD 1 0#8 ≠ 10#8) :
    ∃ mem', C.rtr_send_error_pdu_from_host w mem msize s ep el error tp tend tl =
        some (xret (w.ext (w.n + 1)), mem',
          xrecs w [("rtr_pdu_to_network_byte_order", [], s),
            ("rtr_send_pdu",
              BitVec.ofNat 64 (16 + el.toNat + tl.toNat) ::
                (errorReportBytes (s.version.setWidth 8) (error.setWidth 16) (Recv.takeD (w.ext w.n).buf el.toNat)
                  (bytesOf mem tp tl.toNat)).map (BitVec.setWidth 64), s)]) ∧
      ∀ a, a < C.STACK → mem' a = mem a := by
  rw [rtr_send_error_pdu_from_host_eq H]
  obtain ⟨hsz, hep, htp⟩ := H
  have hep' := hep.resolve_left (by omega)
  unfold fromHostSpec sendErrorSpec
  rw [if_neg (by omega), if_neg (by omega), if_neg (by omega)]
  have hout : ∀ a, a < C.STACK → C.memFill mem FH el.toNat (xans w).buf a = mem a := by
    intro a ha
    rw [Recv.memFill_out _ _ _ _ _ (by unfold FH; omega)]
  have hcopy1 : C.memFill mem FH el.toNat (xans w).buf (FH + 1) = (w.ext w.n).buf.getD 1 0#8 := by
    rw [Recv.memFill_in _ _ _ _ _ (by omega), Nat.add_sub_cancel_left]; rfl
  have htext : bytesOf (C.memFill mem FH el.toNat (xans w).buf) tp tl.toNat = bytesOf mem tp tl.toNat := by
    rcases htp with h | ⟨h1, h2⟩
    · rw [bytesOf_nil _ _ _ h, bytesOf_nil _ _ _ h]
    · exact bytesOf_congr fun i hi => hout _ (by omega)
  rw [if_neg (by rw [hcopy1]; exact fun h => hty h.2)]
  simp only [bytesOf_memFill_at _ _ _ _ _ _ ⟨rfl, rfl⟩, htext, errorReportBytes_length, bytesOf_length, Recv.takeD_length]
  simp only [xrec_eq_xrecs, xrecs_xrecs, xans_xrecs, xans_eq, List.cons_append, List.nil_append, List.length_cons,
    List.length_nil, Nat.zero_add]
  refine ⟨_, rfl, ?_⟩
  intro a ha
  rw [Recv.memFill_out _ _ _ _ _ (by unfold MSG; omega)]
  exact hout a ha

end

/-! ## concrete instances (the hypotheses are satisfiable; the generated text runs in the kernel) -/

/-- a world made of a list of answers -/
def exWorld (answers : List (C.ExtAns Sock)) : XW :=
  { ext := fun i => answers.getD i { rc := 0#64, aux := 0#64, st := C.S_rtr_socket.zero } }
def exSock (state : BitVec 32) : Sock := { C.S_rtr_socket.zero with version := 1#32, state := state }
def exAns (rc : BitVec 64) (buf : List (BitVec 8)) : C.ExtAns Sock := { rc := rc, aux := 0#64, st := exSock 2#32, buf := buf }
/-- what is observable of a result: the return value, the calls with their recorded arguments, and the first 13 bytes of
    memory (the caller's buffers in these examples) -/
def obs (o : Out) : Option (BitVec 32 × List (String × List (BitVec 64)) × List (BitVec 8)) :=
  o.map fun r => (r.1, r.2.2.trace.map (fun c => (c.1, c.2.1)), bytesOf r.2.1 0 13)

/-- a Cache Response header in host order at 0..7 (type 3, session 0xBBAA, length 8), the text "hell\0" at 8..12 -/
def exMem : Mem := C.memOfBytes [1#8, 3#8, 0xAA#8, 0xBB#8, 8#8, 0#8, 0#8, 0#8, 0x68#8, 0x65#8, 0x6c#8, 0x6c#8, 0#8]
/-- the same with type 10: an Error Report -/
def exMemErr : Mem := C.memOfBytes [1#8, 10#8, 0xAA#8, 0xBB#8, 8#8, 0#8, 0#8, 0#8, 0x68#8, 0x65#8, 0x6c#8, 0x6c#8, 0#8]

example : Below 13 0 8#32 8 13 5#32 := ⟨by decide, Or.inr ⟨by decide, by decide⟩, Or.inr ⟨by decide, by decide⟩⟩

/-- the 8-byte header echoed with a 5-byte text, error code 0x0105: one call, 29 bytes, every length consistent; the callee
    returns 0; the caller's 13 bytes are untouched -/
example : obs (C.rtr_send_error_pdu (exWorld []) exMem 13 (exSock 2#32) 0 8#32 0x0105#32 8 13 5#32) =
    some (0#32,
      [("rtr_send_pdu", [29#64, 1#64, 10#64, 5#64, 1#64, 29#64, 0#64, 0#64, 0#64, 8#64, 0#64, 0#64, 0#64,
         1#64, 3#64, 0xAA#64, 0xBB#64, 8#64, 0#64, 0#64, 0#64, 5#64, 0#64, 0#64, 0#64,
         0x68#64, 0x65#64, 0x6c#64, 0x6c#64, 0#64])],
      [1#8, 3#8, 0xAA#8, 0xBB#8, 8#8, 0#8, 0#8, 0#8, 0x68#8, 0x65#8, 0x6c#8, 0x6c#8, 0#8]) := by decide
/-- ... and that is what the specification says -/
example : errorReportBytes 1#8 0x0105#16 (bytesOf exMem 0 8) (bytesOf exMem 8 5) =
    [1#8, 10#8, 5#8, 1#8, 29#8, 0#8, 0#8, 0#8, 8#8, 0#8, 0#8, 0#8, 1#8, 3#8, 0xAA#8, 0xBB#8, 8#8, 0#8, 0#8, 0#8,
     5#8, 0#8, 0#8, 0#8, 0x68#8, 0x65#8, 0x6c#8, 0x6c#8, 0#8] := by decide
/-- the callee's failure is handed through -/
example : obs (C.rtr_send_error_pdu (exWorld [exAns 0xFFFFFFFFFFFFFFFF#64 []]) exMem 13 (exSock 2#32) C.NULL 0#32 2#32 C.NULL 0 0#32) =
    some (4294967295#32,
      [("rtr_send_pdu", [16#64, 1#64, 10#64, 2#64, 0#64, 16#64, 0#64, 0#64, 0#64, 0#64, 0#64, 0#64, 0#64, 0#64, 0#64, 0#64, 0#64])],
      [1#8, 3#8, 0xAA#8, 0xBB#8, 8#8, 0#8, 0#8, 0#8, 0x68#8, 0x65#8, 0x6c#8, 0x6c#8, 0#8]) := by decide
/-- an encapsulated Error Report: no call, RTR_SUCCESS -/
example : obs (C.rtr_send_error_pdu (exWorld []) exMemErr 13 (exSock 2#32) 0 8#32 0x0105#32 8 13 5#32) =
    some (0#32, [], [1#8, 10#8, 0xAA#8, 0xBB#8, 8#8, 0#8, 0#8, 0#8, 0x68#8, 0x65#8, 0x6c#8, 0x6c#8, 0#8]) := by decide
/-- `16 + 0xFFFFFFF8 + 0` wraps to 8: `msg` has 8 bytes, the store of `len_enc_pdu` at offset 8 leaves it -/
example : C.rtr_send_error_pdu (exWorld []) exMem 13 (exSock 2#32) 0 0xFFFFFFF8#32 0x0105#32 8 13 0#32 = none := by decide
/-- `16 + 0xFFFFFFFC + 5` wraps to 17: the header fits, the copy of the encapsulated PDU does not -/
example : C.rtr_send_error_pdu (exWorld []) exMem 13 (exSock 2#32) 0 0xFFFFFFFC#32 0x0105#32 8 13 5#32 = none := by decide
/-- one byte past the object of the encapsulated PDU: undefined as well -/
example : C.rtr_send_error_pdu (exWorld []) exMem 7 (exSock 2#32) 0 8#32 0x0105#32 8 13 5#32 = none := by decide

/-- rtr_send_pdu on a SHUTDOWN socket: the copy is converted (one call), nothing is sent, RTR_ERROR -/
example : obs (C.rtr_send_pdu (exWorld [exAns 0#64 [1#8, 3#8, 0xBB#8, 0xAA#8, 0#8, 0#8, 0#8, 8#8]]) exMem 13 (exSock 9#32) 0 8#32) =
    some (4294967295#32, [("rtr_pdu_to_network_byte_order", [])],
      [1#8, 3#8, 0xAA#8, 0xBB#8, 8#8, 0#8, 0#8, 0#8, 0x68#8, 0x65#8, 0x6c#8, 0x6c#8, 0#8]) := by decide
/-- an ESTABLISHED socket: the converted copy (the world's answer) goes to the transport, 8 bytes, timeout 60; the
    transport sent 8 bytes: RTR_SUCCESS; the caller's PDU is still in host order -/
example : obs (C.rtr_send_pdu (exWorld [exAns 0#64 [1#8, 3#8, 0xBB#8, 0xAA#8, 0#8, 0#8, 0#8, 8#8], exAns 8#64 []]) exMem 13
      (exSock 2#32) 0 8#32) =
    some (0#32, [("rtr_pdu_to_network_byte_order", []),
                 ("tr_send_all", [8#64, 60#64, 1#64, 3#64, 0xBB#64, 0xAA#64, 0#64, 0#64, 0#64, 8#64])],
      [1#8, 3#8, 0xAA#8, 0xBB#8, 8#8, 0#8, 0#8, 0#8, 0x68#8, 0x65#8, 0x6c#8, 0x6c#8, 0#8]) := by decide
/-- the transport would block (-2), or sent nothing (0): RTR_ERROR -/
example : (obs (C.rtr_send_pdu (exWorld [exAns 0#64 [], exAns 0xFFFFFFFFFFFFFFFE#64 []]) exMem 13 (exSock 2#32) 0 8#32)).map (·.1) =
    some 4294967295#32 := by decide
example : (obs (C.rtr_send_pdu (exWorld [exAns 0#64 [], exAns 0#64 []]) exMem 13 (exSock 2#32) 0 8#32)).map (·.1) =
    some 4294967295#32 := by decide
/-- a zero-length PDU is a zero-length array: undefined -/
example : C.rtr_send_pdu (exWorld []) exMem 13 (exSock 2#32) 0 0#32 = none := by decide

/-- rtr_send_error_pdu_from_host with length 0 ("internal error", text only) and with a length shorter than a header -/
example : obs (C.rtr_send_error_pdu_from_host (exWorld []) exMem 13 (exSock 2#32) C.NULL 0#32 6#32 8 13 5#32) =
    some (0#32,
      [("rtr_send_pdu", [21#64, 1#64, 10#64, 6#64, 0#64, 21#64, 0#64, 0#64, 0#64, 0#64, 0#64, 0#64, 0#64,
         5#64, 0#64, 0#64, 0#64, 0x68#64, 0x65#64, 0x6c#64, 0x6c#64, 0#64])],
      [1#8, 3#8, 0xAA#8, 0xBB#8, 8#8, 0#8, 0#8, 0#8, 0x68#8, 0x65#8, 0x6c#8, 0x6c#8, 0#8]) := by decide
example : obs (C.rtr_send_error_pdu_from_host (exWorld []) exMem 13 (exSock 2#32) 0 7#32 6#32 8 13 5#32) =
    some (4294967295#32, [], [1#8, 3#8, 0xAA#8, 0xBB#8, 8#8, 0#8, 0#8, 0#8, 0x68#8, 0x65#8, 0x6c#8, 0x6c#8, 0#8]) := by decide
/-- length 8: the header goes out in NETWORK byte order (session 0xBBAA as BB AA, length 8 as 00 00 00 08) inside a report
    whose own header is in host byte order (rtr_send_pdu converts it); the caller's header is still in host order -/
example : obs (C.rtr_send_error_pdu_from_host (exWorld []) exMem 13 (exSock 2#32) 0 8#32 6#32 8 13 5#32) =
    some (0#32,
      [("rtr_send_pdu", [29#64, 1#64, 10#64, 6#64, 0#64, 29#64, 0#64, 0#64, 0#64, 8#64, 0#64, 0#64, 0#64,
         1#64, 3#64, 0xBB#64, 0xAA#64, 0#64, 0#64, 0#64, 8#64, 5#64, 0#64, 0#64, 0#64,
         0x68#64, 0x65#64, 0x6c#64, 0x6c#64, 0#64])],
      [1#8, 3#8, 0xAA#8, 0xBB#8, 8#8, 0#8, 0#8, 0#8, 0x68#8, 0x65#8, 0x6c#8, 0x6c#8, 0#8]) := by decide
example : netHeader (bytesOf exMem 0 8) = [1#8, 3#8, 0xBB#8, 0xAA#8, 0#8, 0#8, 0#8, 8#8] := by decide
/-- length 8, an Error Report: converted, but not reported -/
example : obs (C.rtr_send_error_pdu_from_host (exWorld []) exMemErr 13 (exSock 2#32) 0 8#32 6#32 8 13 5#32) =
    some (0#32, [], [1#8, 10#8, 0xAA#8, 0xBB#8, 8#8, 0#8, 0#8, 0#8, 0x68#8, 0x65#8, 0x6c#8, 0x6c#8, 0#8]) := by decide
/-- length 12: the copy is converted by the external callee (its answer: 12 bytes), the converted copy is reported -/
example : obs (C.rtr_send_error_pdu_from_host
      (exWorld [exAns 0#64 [1#8, 3#8, 0xBB#8, 0xAA#8, 0#8, 0#8, 0#8, 12#8, 0xDE#8, 0xAD#8, 0xBE#8, 0xEF#8]]) exMem 13
      (exSock 2#32) 0 12#32 6#32 8 13 5#32) =
    some (0#32,
      [("rtr_pdu_to_network_byte_order", []),
       ("rtr_send_pdu", [33#64, 1#64, 10#64, 6#64, 0#64, 33#64, 0#64, 0#64, 0#64, 12#64, 0#64, 0#64, 0#64,
         1#64, 3#64, 0xBB#64, 0xAA#64, 0#64, 0#64, 0#64, 12#64, 0xDE#64, 0xAD#64, 0xBE#64, 0xEF#64, 5#64, 0#64, 0#64, 0#64,
         0x68#64, 0x65#64, 0x6c#64, 0x6c#64, 0#64])],
      [1#8, 3#8, 0xAA#8, 0xBB#8, 8#8, 0#8, 0#8, 0#8, 0x68#8, 0x65#8, 0x6c#8, 0x6c#8, 0#8]) := by decide

end Rtr.CLink.Err
