/-
  CLinkRecvModel (stretch): the hand-written model `Rtr.P.receivePdu` (RtrModel/Rtr.lean, over a scripted transport; the
  model the C04/C13/C14 theorems are about) against `rtr_receive_pdu` as translated from the C text
  (RtrProofs/CLinkRecv.lean): both return the same - RTR_SUCCESS with the same PDU bytes, or the same error code - whenever
  the world answers the two receives as the scripted transport does.
  Kept in a file of its own: RtrModel/Rtr.lean is edited by other contributors.
-/
import RtrProofs.CLinkRecv
import RtrModel.Rtr
import RtrProofs.Chunking
namespace Rtr.CLink.Recv
open Rtr Rtr.Gen Rtr.P Rtr.CLink

theorem slt0_iff (x : BitVec 32) : x.slt 0#32 = true ↔ x.toInt < 0 := by simp [BitVec.slt]
theorem slt0_false_iff (x : BitVec 32) : x.slt 0#32 = false ↔ 0 ≤ x.toInt := by
  rw [← Bool.not_eq_true, slt0_iff]; omega
theorem toInt_eq_iff (x y : BitVec 32) : x.toInt = y.toInt ↔ x = y := BitVec.toInt_inj

theorem hdrList_getD (b : List (BitVec 8)) (i : Nat) (h : i < 8) :
    ((takeD b 8).map BitVec.toNat).getD i 0 = (hdrB b i).toNat := by
  have := rawOf_getD_hdr b [] i h
  unfold rawOf at this
  rw [List.map_append, List.getD_eq_getElem?_getD, List.getElem?_append_left (by simp [takeD_length]; exact h),
    ← List.getD_eq_getElem?_getD] at this
  exact this

theorem hdrList_lenOf (b : List (BitVec 8)) : lenOf ((takeD b 8).map BitVec.toNat) = lenField b := by
  unfold lenOf be32 lenField
  rw [hdrList_getD b 4 (by decide), hdrList_getD b 5 (by decide), hdrList_getD b 6 (by decide),
    hdrList_getD b 7 (by decide)]
theorem hdrList_verOf (b : List (BitVec 8)) : verOf ((takeD b 8).map BitVec.toNat) = (hdrB b 0).toNat :=
  hdrList_getD b 0 (by decide)
theorem hdrList_typeOf (b : List (BitVec 8)) : typeOf ((takeD b 8).map BitVec.toNat) = (hdrB b 1).toNat :=
  hdrList_getD b 1 (by decide)

end Rtr.CLink.Recv

namespace Rtr.CLink.Recv
open Rtr Rtr.Gen Rtr.P Rtr.CLink

/-- what the hand-written model returns for an outcome of `recvModel` -/
def resOf (o : Out) (raw : List Nat) : RecvRes := if o.rc = 0#32 then .ok raw else .rc o.rc.toInt

theorem transport_agrees (x : BitVec 32) (c : Conn) (n : Net) (own : Nat) (w : XW) (cs : List Call) (s : Sock) (m : Mem) :
    (recvTransportError c n own x.toInt).1 = .rc (transportErr x w cs s m).rc.toInt := by
  unfold recvTransportError transportErr
  have e1 : x.toInt = -1 ↔ x = 4294967295#32 := toInt_eq_iff x 4294967295#32
  have e2 : x.toInt = -2 ↔ x = 4294967294#32 := toInt_eq_iff x 4294967294#32
  have e3 : x.toInt = -3 ↔ x = 4294967293#32 := toInt_eq_iff x 4294967293#32
  have e4 : x.toInt = -4 ↔ x = 4294967292#32 := toInt_eq_iff x 4294967292#32
  simp only [e1, e2, e3, e4]
  repeat' split
  all_goals first | rfl | (simp_all; done)


theorem toNat_eq_lit32 (x : BitVec 32) (k : Nat) (hk : k < 4294967296) : x.toNat = k ↔ x = BitVec.ofNat 32 k := by
  rw [← BitVec.toNat_inj, BitVec.toNat_ofNat, Nat.mod_eq_of_lt hk]
theorem toNat_eq_lit8 (x : BitVec 8) (k : Nat) (hk : k < 256) : x.toNat = k ↔ x = BitVec.ofNat 8 k := by
  rw [← BitVec.toNat_inj, BitVec.toNat_ofNat, Nat.mod_eq_of_lt hk]

/-- the two downgrade steps agree -/
theorem downgrade_agrees (c : Conn) (s : Sock) (b : List (BitVec 8))
    (hver : c.version = s.version.toNat) (hrecv : c.hasReceived = s.has_received_pdus) :
    (P.downgrade c ((takeD b 8).map BitVec.toNat)).version = (downgrade s b).version.toNat ∧
    (P.downgrade c ((takeD b 8).map BitVec.toNat)).state = c.state := by
  unfold P.downgrade downgrade
  have e10 : (hdrB b 1).toNat ≠ 10 ↔ hdrB b 1 ≠ 10#8 := not_congr (toNat_eq_lit8 _ 10 (by decide))
  simp only [hdrList_verOf, hdrList_typeOf, hrecv, hver, toNat_eq_lit32 _ 1 (by decide), toNat_eq_lit8 _ 0 (by decide),
    e10]
  rcases s.has_received_pdus with _ | _
  · by_cases hd : s.version = 1#32 ∧ hdrB b 0 = 0#8 ∧ hdrB b 1 ≠ 10#8
    · simp [hd]
    · simp [hd]
  · simp [hver]

theorem mismatch_agrees (w : XW) (s : Sock) (v : Nat) (hv : v = (sock1 w s).version.toNat) :
    (verOf ((takeD (hdr1 w) 8).map BitVec.toNat) ≠ v ∧ typeOf ((takeD (hdr1 w) 8).map BitVec.toNat) ≠ 10) ↔
      Mismatch w s := by
  unfold Mismatch
  rw [hdrList_verOf, hdrList_typeOf, hv]
  have e10 : (hdrB (hdr1 w) 1).toNat ≠ 10 ↔ hdrB (hdr1 w) 1 ≠ 10#8 := not_congr (toNat_eq_lit8 _ 10 (by decide))
  have : (hdrB (hdr1 w) 0).toNat ≠ (sock1 w s).version.toNat ↔ BitVec.setWidth 32 (hdrB (hdr1 w) 0) ≠ (sock1 w s).version := by
    rw [← zext8_toNat (hdrB (hdr1 w) 0)]; exact not_congr BitVec.toNat_inj
  rw [this, e10]

section agree
variable (w : XW) (mem : Mem) (msize : Nat) (s : Sock) (pdu : Nat) (timeout : BitVec 64)

theorem rawOf_eq_append (b b2 : List (BitVec 8)) :
    rawOf b b2 = (takeD b 8).map BitVec.toNat ++ (takeD b2 (lenField b - 8)).map BitVec.toNat := by
  unfold rawOf; rw [List.map_append]

theorem resOf_finish (w : XW) (cs : List Call) (s : Sock) (m : Mem) (msize pdu : Nat) (b b2 : List (BitVec 8)) :
    resOf (finish w cs s m msize pdu b b2) (rawOf b b2) =
      if checkSize (rawOf b b2) then .ok (rawOf b b2) else .rc (-1) := by
  cases hc : checkSize (rawOf b b2)
  · rw [finish_bad _ _ _ _ _ _ _ _ hc]; rfl
  · rw [finish_ok _ _ _ _ _ _ _ _ hc]; rfl

/-- **Stretch (phase 8).** The hand-written model `Rtr.P.receivePdu` (RtrModel/Rtr.lean: scripted transport, used by the
    C04/C13/C14 theorems) and the model of the translated C text return the same - for every socket/connection pair that
    agree on state-is-SHUTDOWN, version, has_received_pdus, and every world whose two receive answers are those of the
    scripted transport (return codes, and the bytes when the receive succeeds; no stop request observed). -/
theorem receivePdu_agrees (c : Conn) (n : Net) (own : Nat) (timeoutI : Int)
    (hstate : c.state = .shutdown ↔ s.state = 9#32)
    (hver : c.version = s.version.toNat) (hrecv : c.hasReceived = s.has_received_pdus)
    (rcA : Int) (hdrA : List Nat) (n1 : Net)
    (h1 : recvAll n 8 timeoutI = (rcA, hdrA, n1, false))
    (hrc1 : (rc1 w).toInt = rcA)
    (hb1 : 0 ≤ rcA → hdrA = (takeD (hdr1 w) 8).map BitVec.toNat)
    (rcB : Int) (body : List Nat) (n2 : Net)
    (h2 : recvAll n1 (lenField (hdr1 w) - 8) Gen.RTR_RECV_TIMEOUT = (rcB, body, n2, false))
    (hrc2 : (rc2 w).toInt = rcB)
    (hb2 : 0 ≤ rcB → body = (takeD (pay2 w) (lenField (hdr1 w) - 8)).map BitVec.toNat) :
    (receivePdu c n own timeoutI).1 =
      resOf (recvModel w mem msize s pdu timeout) (rawOf (hdr1 w) (pay2 w)) := by
  rw [receivePdu_eq_stages]
  have hd := downgrade_agrees c s (hdr1 w) hver hrecv
  have hmm := mismatch_agrees w s _ hd.1
  rcases recvModel_cases w mem msize s pdu timeout with
    ⟨h, e⟩ | ⟨hs, hneg, e⟩ | ⟨hs, hneg, hl, e⟩ | ⟨hs, hneg, hl, e⟩ | ⟨hs, hneg, h8, hmax, hm, e⟩ | ⟨hs, hneg, hl, hm, e⟩ |
    ⟨hs, hneg, h8, hmax, hm, hneg2, e⟩ | ⟨hs, hneg, h8, hmax, hm, hneg2, e⟩
  · rw [if_pos (hstate.mpr h), e]; rfl
  · have hc : ¬ c.state = .shutdown := fun h => hs (hstate.mp h)
    have hlt : rcA < 0 := by rw [← hrc1]; exact (slt0_iff _).mp hneg
    rw [if_neg hc, h1]
    simp only [applyStop, Bool.false_eq_true, if_false, hlt, if_true]
    rw [e, ← hrc1, transport_agrees (rc1 w) c n1 own (world1 w s timeout) [recv1 timeout s] s (buf1 w mem pdu)]
    unfold resOf
    rw [if_neg (transportErr_rc_ne_zero _ _ _ _ _)]
  all_goals
    have hc : ¬ c.state = .shutdown := fun h => hs (hstate.mp h)
    have hge : 0 ≤ rcA := by rw [← hrc1]; exact (slt0_false_iff _).mp hneg
    have hnlt : ¬ rcA < 0 := by omega
    rw [if_neg hc, h1]
    simp only [applyStop, Bool.false_eq_true, if_false, hnlt, hb1 hge]
    unfold recvAfterHdr
    simp only [hdrList_lenOf, Gen.RTR_MAX_PDU_LEN, gt_iff_lt]
  · rw [if_pos hl, (failFatal_out _ _ _ _ _).1, e]; rfl
  · rw [if_neg (by omega), if_pos hl, (failFatal_out _ _ _ _ _).1, e]; rfl
  · rw [if_neg (by omega), if_neg (by omega), if_pos (hmm.mpr hm), e]; rfl
  · rw [if_neg (by omega), if_neg (by omega), if_neg (fun h => hm (hmm.mp h)), e, resOf_finish]
    unfold recvBody
    simp only [hdrList_lenOf, hl, Nat.sub_self, gt_iff_lt, Nat.lt_irrefl, false_and, if_false, applyStop,
      Bool.false_eq_true, Int.lt_irrefl, List.append_nil]
    have er : rawOf (hdr1 w) (pay2 w) = (takeD (hdr1 w) 8).map BitVec.toNat := by
      rw [rawOf_eq_append, hl]; simp [takeD]
    rw [er]
    cases hcs : checkSize ((takeD (hdr1 w) 8).map BitVec.toNat)
    · simp only [Bool.not_false, if_true, Bool.false_eq_true, if_false]; exact (failFatal_out _ _ _ _ _).1
    · simp only [Bool.not_true, Bool.false_eq_true, if_false, if_true]
  · have hlt : rcB < 0 := by rw [← hrc2]; exact (slt0_iff _).mp hneg2
    have hst : ¬ (P.downgrade c ((takeD (hdr1 w) 8).map BitVec.toNat)).state = .shutdown := by rw [hd.2]; exact hc
    rw [if_neg (by omega), if_neg (by omega), if_neg (fun h => hm (hmm.mp h)), e]
    unfold recvBody
    have hpos : lenField (hdr1 w) - 8 > 0 := by omega
    simp only [hdrList_lenOf, hpos, hst, and_false, if_false, if_true, h2, applyStop, Bool.false_eq_true, hlt]
    rw [← hrc2, transport_agrees (rc2 w) _ n2 own (world2 w s timeout) [recv1 timeout s, recv2 (hdr1 w) (sock1 w s)]
      (sock1 w s) (buf2 w mem pdu)]
    unfold resOf
    rw [if_neg (transportErr_rc_ne_zero _ _ _ _ _)]
  · have hge2 : 0 ≤ rcB := by rw [← hrc2]; exact (slt0_false_iff _).mp hneg2
    have hnlt2 : ¬ rcB < 0 := by omega
    have hst : ¬ (P.downgrade c ((takeD (hdr1 w) 8).map BitVec.toNat)).state = .shutdown := by rw [hd.2]; exact hc
    rw [if_neg (by omega), if_neg (by omega), if_neg (fun h => hm (hmm.mp h)), e, resOf_finish]
    unfold recvBody
    have hpos : lenField (hdr1 w) - 8 > 0 := by omega
    simp only [hdrList_lenOf, hpos, hst, and_false, if_false, if_true, h2, applyStop, Bool.false_eq_true, hnlt2, hb2 hge2,
      ← rawOf_eq_append]
    cases hcs : checkSize (rawOf (hdr1 w) (pay2 w))
    · simp only [Bool.not_false, if_true, Bool.false_eq_true, if_false]; exact (failFatal_out _ _ _ _ _).1
    · simp only [Bool.not_true, Bool.false_eq_true, if_false, if_true]

/-- ... and so does the translated C function itself, under the callers' contract -/
theorem receive_pdu_agrees_C {pdu_len : BitVec 64} (H : Contract msize pdu pdu_len)
    (c : Conn) (n : Net) (own : Nat) (timeoutI : Int)
    (hstate : c.state = .shutdown ↔ s.state = 9#32)
    (hver : c.version = s.version.toNat) (hrecv : c.hasReceived = s.has_received_pdus)
    (rcA : Int) (hdrA : List Nat) (n1 : Net)
    (h1 : recvAll n 8 timeoutI = (rcA, hdrA, n1, false))
    (hrc1 : (rc1 w).toInt = rcA)
    (hb1 : 0 ≤ rcA → hdrA = (takeD (hdr1 w) 8).map BitVec.toNat)
    (rcB : Int) (body : List Nat) (n2 : Net)
    (h2 : recvAll n1 (lenField (hdr1 w) - 8) Gen.RTR_RECV_TIMEOUT = (rcB, body, n2, false))
    (hrc2 : (rc2 w).toInt = rcB)
    (hb2 : 0 ≤ rcB → body = (takeD (pay2 w) (lenField (hdr1 w) - 8)).map BitVec.toNat) :
    Returns w mem msize s pdu timeout pdu_len (fun rc _ _ _ =>
      (receivePdu c n own timeoutI).1 =
        if rc = 0#32 then .ok (rawOf (hdr1 w) (pay2 w)) else .rc rc.toInt) := by
  apply returns_of_model w mem s timeout H
  intro _ _
  exact receivePdu_agrees w mem msize s pdu timeout c n own timeoutI hstate hver hrecv rcA hdrA n1 h1 hrc1 hb1 rcB body
    n2 h2 hrc2 hb2
end agree
set_option maxRecDepth 4000 in
/-- the hypotheses of `receivePdu_agrees` are satisfiable: a Serial Notify arriving in one segment, a world that answers
    the two receives with its header and its payload -/
example :
    let s : Sock := { C.S_rtr_socket.zero with state := 2#32, version := 1#32, has_received_pdus := true }
    let w : XW := { ext := fun i => if i = 0 then ⟨8#64, 0#64, s, [1, 0, 0, 7, 0, 0, 0, 12]⟩ else ⟨4#64, 0#64, s, [0, 0, 0, 42]⟩ }
    let c : Conn := { state := .established, version := 1, hasReceived := true }
    let n : Net := { tape := [.rx [1, 0, 0, 7, 0, 0, 0, 12, 0, 0, 0, 42]] }
    (c.state = .shutdown ↔ s.state = 9#32) ∧ c.version = s.version.toNat ∧ c.hasReceived = s.has_received_pdus ∧
    ∃ n1 n2, recvAll n 8 5 = (8, [1, 0, 0, 7, 0, 0, 0, 12], n1, false) ∧ (rc1 w).toInt = 8 ∧
      [1, 0, 0, 7, 0, 0, 0, 12] = (takeD (hdr1 w) 8).map BitVec.toNat ∧ lenField (hdr1 w) = 12 ∧
      recvAll n1 (lenField (hdr1 w) - 8) Gen.RTR_RECV_TIMEOUT = (4, [0, 0, 0, 42], n2, false) ∧ (rc2 w).toInt = 4 ∧
      [0, 0, 0, 42] = (takeD (pay2 w) (lenField (hdr1 w) - 8)).map BitVec.toNat := by
  refine ⟨by decide, by decide, rfl, _, _, rfl, by decide, by decide, by decide, rfl, by decide, by decide⟩

end Rtr.CLink.Recv
