/-
  Helper lemmas for C12: a path built hop by hop from generated signatures validates.
-/
import RtrProofs.Bgpsec

namespace Rtr.Bgpsec
open Rtr.Rfc8205

/-- a BGPsec speaker: its Secure_Path Segment (pCount, flags, own AS), the SKI of its router
    certificate, its private key and the matching public key (SubjectPublicKeyInfo octets) -/
structure Signer (SK : Type) where
  seg : PathSeg
  ski : List Nat
  sk : SK
  spki : List Nat

section
variable {H SK : Type} (hash : List Nat → H) (verify : List Nat → H → List Nat → VRes) (sign : SK → H → List Nat)

/-- What speaker `x` does with rtrlib when it propagates `d` to AS `target`:
    `rtr_bgpsec_prepend_sec_path_seg` (own segment in front), set `target_as`,
    `rtr_bgpsec_generate_signature` (= `sign` over the hash of the SIGNING alignment, see
    `generateSignature_success`), copy its SKI into the new segment, `rtr_bgpsec_prepend_sig_seg`. -/
def forward (d : Data) (x : Signer SK) (target : Nat) : Data :=
  let d1 : Data := { d with path := x.seg :: d.path, targetAs := target }
  { d1 with sigs := ⟨x.ski, sign x.sk (hash (alignBytes .signing d1))⟩ :: d.sigs }

/-- the UPDATE after the hops `hops` (most recent first; each with the AS it sends to), starting
    from the origin (last element) -/
def buildPath (base : Data) : List (Signer SK × Nat) → Data
  | [] => { base with path := [], sigs := [] }
  | (x, t) :: older => forward hash sign (buildPath base older) x t

/-- each speaker is the AS the previous one sent the UPDATE to -/
def Chained : List (Signer SK × Nat) → Prop
  | [] => True
  | [_] => True
  | (x, _) :: (x', t') :: older => t' = x.seg.asn ∧ Chained ((x', t') :: older)

theorem tailBytes_forward (d : Data) (x : Signer SK) (t : Nat) : tailBytes (forward hash sign d x t) = tailBytes d := rfl

theorem tailBytes_buildPath (base : Data) : ∀ hops : List (Signer SK × Nat), tailBytes (buildPath hash sign base hops) = tailBytes base
  | [] => rfl
  | (x, t) :: older => by
    simp only [buildPath, tailBytes_forward]
    exact tailBytes_buildPath base older

theorem digestOf_congr {d d' : Data} (h : tailBytes d = tailBytes d') (t : Nat) (ps : List PathSeg) (ss : List SigSeg) :
    digestOf d t ps ss = digestOf d' t ps ss := by
  simp only [digestOf, h]

theorem allOk_congr (m : KeyMode) (T : Table) {d d' : Data} (h : tailBytes d = tailBytes d') :
    ∀ (ps : List PathSeg) (ss : List SigSeg) (t : Nat), AllOk hash verify m T d t ps ss → AllOk hash verify m T d' t ps ss
  | p :: ps, s :: ss, t, hall => by
    simp only [allOk_cons] at hall ⊢
    refine ⟨?_, allOk_congr m T h ps ss p.asn hall.2⟩
    rw [← digestOf_congr h]; exact hall.1
  | _, [], _, _ => by simp [allOk_nil]
  | [], _ :: _, _, hall => by simp [allOk_nil_cons] at hall

theorem buildPath_lengths (base : Data) : ∀ hops : List (Signer SK × Nat),
    (buildPath hash sign base hops).path.length = hops.length ∧ (buildPath hash sign base hops).sigs.length = hops.length
  | [] => by simp [buildPath]
  | (x, t) :: older => by
    have := buildPath_lengths base older
    simp [buildPath, forward, this]

theorem buildPath_target (base : Data) (x : Signer SK) (t : Nat) (older : List (Signer SK × Nat)) :
    (buildPath hash sign base ((x, t) :: older)).targetAs = t := rfl

theorem buildPath_fields (base : Data) : ∀ hops : List (Signer SK × Nat),
    (buildPath hash sign base hops).alg = base.alg ∧ (buildPath hash sign base hops).nlri = base.nlri
  | [] => by simp [buildPath]
  | (x, t) :: older => by
    have := buildPath_fields base older
    simp [buildPath, forward, this]

theorem buildPath_skis (base : Data) : ∀ hops : List (Signer SK × Nat), (∀ h ∈ hops, h.1.ski.length = 20) →
    ∀ s ∈ (buildPath hash sign base hops).sigs, s.ski.length = 20
  | [], _ => by simp [buildPath]
  | (x, t) :: older, h => by
    intro s hs
    simp only [buildPath, forward, List.mem_cons] at hs
    rcases hs with rfl | hs
    · exact h (x, t) (by simp)
    · exact buildPath_skis base older (fun y hy => h y (by simp [hy])) s hs

theorem buildPath_last_sig (base : Data) : ∀ hops : List (Signer SK × Nat),
    ∀ s, (buildPath hash sign base hops).sigs.getLast? = some s → ∃ sk h, s.sig = sign sk h
  | [], s, hs => by simp [buildPath] at hs
  | [(x, t)], s, hs => by
    simp [buildPath, forward] at hs
    exact ⟨x.sk, _, by rw [← hs]⟩
  | (x, t) :: y :: older, s, hs => by
    have hne : (buildPath hash sign base (y :: older)).sigs ≠ [] := by
      intro h
      have := (buildPath_lengths hash sign base (y :: older)).2
      rw [h] at this; simp at this
    have e : (buildPath hash sign base ((x, t) :: y :: older)).sigs
        = ⟨x.ski, sign x.sk (hash (alignBytes .signing
            { buildPath hash sign base (y :: older) with
              path := x.seg :: (buildPath hash sign base (y :: older)).path, targetAs := t }))⟩
          :: (buildPath hash sign base (y :: older)).sigs := rfl
    rw [e, List.getLast?_cons_of_ne_nil hne] at hs
    exact buildPath_last_sig base (y :: older) s hs

/-- the router key of speaker `x` is in the table where the key selection of mode `m` looks for it -/
def Registered (m : KeyMode) (T : Table) (x : Signer SK) : Prop :=
  ∃ k ∈ T, keyOk m x.ski x.seg.asn k = true ∧ k.spki = x.spki

/-- assumption on the crypto: a signature made with `x.sk` verifies under `x.spki` -/
def KeyPair (x : Signer SK) : Prop := ∀ h : H, verify x.spki h (sign x.sk h) = .valid

/-- every hop of a path built by repeated signing verifies -/
theorem buildPath_allOk (m : KeyMode) (T : Table) (base : Data) : ∀ hops : List (Signer SK × Nat),
    Chained hops → (∀ h ∈ hops, Registered m T h.1 ∧ KeyPair verify sign h.1) →
    AllOk hash verify m T (buildPath hash sign base hops) (buildPath hash sign base hops).targetAs
      (buildPath hash sign base hops).path (buildPath hash sign base hops).sigs
  | [], _, _ => by simp [buildPath, allOk_nil]
  | (x, t) :: older, hch, hreg => by
    have ih := buildPath_allOk m T base older
      (by cases older with
          | nil => trivial
          | cons y ys => obtain ⟨y1, y2⟩ := y; exact hch.2)
      (fun h hh => hreg h (by simp [hh]))
    have hlen := buildPath_lengths hash sign base older
    obtain ⟨⟨k, hk, hok, hspki⟩, hpair⟩ := hreg (x, t) (by simp)
    -- the data the new signature was made over
    let D' := buildPath hash sign base older
    let d1 : Data := { D' with path := x.seg :: D'.path, targetAs := t }
    have hsd : alignBytes .signing d1 = digestOf d1 t (x.seg :: D'.path) D'.sigs := by
      rw [alignBytes_signing d1 (by simp [d1, D', hlen])]; rfl
    show AllOk hash verify m T (forward hash sign D' x t) t (x.seg :: D'.path)
      (⟨x.ski, sign x.sk (hash (alignBytes .signing d1))⟩ :: D'.sigs)
    simp only [allOk_cons]
    refine ⟨⟨k, hk, hok, ?_⟩, ?_⟩
    · rw [hspki, hsd, digestOf_congr (d := forward hash sign D' x t) (d' := d1) rfl]
      exact hpair _
    · -- the older hops: unchanged sequences, and the target of the previous hop is this speaker's AS
      have ih' := allOk_congr hash verify m T (d := D') (d' := forward hash sign D' x t) rfl D'.path D'.sigs D'.targetAs ih
      cases older with
      | nil => simp [D', buildPath, allOk_nil]
      | cons y ys =>
        obtain ⟨y1, y2⟩ := y
        have : D'.targetAs = x.seg.asn := by
          have := hch.1
          simpa [D', buildPath_target] using this
        rw [← this]; exact ih'

end

/-! ## `rtr_bgpsec_generate_signature` -/

section
variable {H SK : Type} (hash : List Nat → H) (loadKey : List Nat → Option SK) (sign : SK → H → List Nat)

/-- when every check passes the result is `ECDSA_sign` over the hash of the RFC 8205 signing sequence -/
theorem generateSignature_success (d : Data) (key : List Nat) (sk : SK)
    (hp : d.path.length = d.sigs.length + 1) (halg : d.alg = 1) (hafi : d.nlri.afi = 1 ∨ d.nlri.afi = 2)
    (hk : loadKey key = some sk) (hs : 1 ≤ (sign sk (hash (signDigest d))).length) :
    generateSignature hash loadKey sign (some d) (some key) true = (.success, some (sign sk (hash (signDigest d)))) := by
  have hne : ¬ (d.path = [] ∨ true = false) := by
    intro h; rcases h with h | h
    · rw [h] at hp; simp at hp
    · cases h
  simp only [generateSignature]
  rw [if_neg hne, if_neg (by omega), if_neg (by omega), if_neg (by omega)]
  simp only [hk, alignBytes_signing d hp]
  rw [if_neg (by omega)]

end

end Rtr.Bgpsec
