/-
  TrieGen: the set refinement of the prefix trie (TrieOps / TrieSet / TableSet) under the weaker
  invariant `WFg`, which drops the three "canonical prefix" components of `NodeOK` (length within
  the width, address within the width, host bits zero).  The branching of the trie uses `bitAt`,
  which is total (false at and beyond the width), and `Below` speaks of `bitAt`, lengths and key
  inequality only, so add / remove / srcRemove refine a set of records for ARBITRARY records
  (any address, any length, host bits set), which is what `pfx_table_add` accepts.

  Every statement here is the `WF` statement of TrieOps / TrieSet / TableSet with `WF` replaced
  by `WFg` (suffix `g` in the names); the lemmas that do not mention the invariant are reused.
  `WF_WFg`: the canonical invariant implies the general one.
-/
import RtrProofs.TableSet

namespace Rtr
open PfxTable

/-- a stored node, without the canonical-prefix conditions: payload non-empty and without a
    repeated (asn, max_len, socket) element -/
def NodeOKg (c : NodeC) : Prop := c.data ≠ [] ∧ c.data.Nodup

def WFg (w : Nat) : Trie → Nat → Prop
  | .nil, _ => True
  | .node c l r, d => NodeOKg c ∧ l.All (Below w c d false) ∧ r.All (Below w c d true) ∧ WFg w l (d+1) ∧ WFg w r (d+1)

theorem NodeOK_NodeOKg (w : Nat) (c : NodeC) (h : NodeOK w c) : NodeOKg c := ⟨h.2.2.2.1, h.2.2.2.2⟩

/-- the canonical invariant implies the general one -/
theorem WF_WFg (w : Nat) : ∀ (t : Trie) (d : Nat), WF w t d → WFg w t d := by
  intro t
  induction t with
  | nil => intros; trivial
  | node c l r ihl ihr =>
    intro d ⟨hc, hl, hr, wl, wr⟩
    exact ⟨NodeOK_NodeOKg w c hc, hl, hr, ihl _ wl, ihr _ wr⟩

theorem WFg_nodeOK (w : Nat) : ∀ (t : Trie) (d : Nat), WFg w t d → t.All NodeOKg := by
  intro t
  induction t with
  | nil => intros; trivial
  | node c l r ihl ihr => intro d ⟨hc, _, _, wl, wr⟩; exact ⟨hc, ihl _ wl, ihr _ wr⟩

theorem insert_WFg (w : Nat) : ∀ (t : Trie) (n : NodeC) (lvl : Nat),
    WFg w t lvl → NodeOKg n → (n.addr, n.len) ∉ t.keys → WFg w (insert w t n lvl) lvl := by
  intro t
  induction t with
  | nil => intro n lvl _ hn _; exact ⟨hn, trivial, trivial, trivial, trivial⟩
  | node c l r ihl ihr =>
    intro n lvl ⟨hc, hl, hr, wl, wr⟩ hn hnot
    simp only [Trie.keys, List.mem_append, List.mem_cons, not_or] at hnot
    obtain ⟨hnl, hnc, hnr⟩ := hnot
    have hne : ¬ (n.addr = c.addr ∧ n.len = c.len) := by
      intro ⟨h1, h2⟩; apply hnc; rw [h1, h2]
    have cNotL : (c.addr, c.len) ∉ l.keys := by
      intro h
      obtain ⟨c', h1, h2, h3⟩ := All_keys l hl c h
      exact h3.2.2 ⟨h1, h2⟩
    have cNotR : (c.addr, c.len) ∉ r.keys := by
      intro h
      obtain ⟨c', h1, h2, h3⟩ := All_keys r hr c h
      exact h3.2.2 ⟨h1, h2⟩
    unfold insert
    by_cases hlt : n.len < c.len
    · simp only [hlt, if_true]
      have relax : ∀ s x, Below w c lvl s x → Below w n lvl s x := by
        intro s x ⟨b1, b2, b3⟩
        refine ⟨b1, by omega, ?_⟩
        intro ⟨_, e2⟩; omega
      have nl' : ∀ s, (t' : Trie) → t'.All (Below w c lvl s) → t'.All (Below w n lvl s) :=
        fun s t' => All_mono t' (relax s)
      split
      · rename_i hb
        refine ⟨hn, ?_, nl' _ r hr, ihl _ _ wl hc cNotL, wr⟩
        exact insert_All w _ l c _ (nl' _ l hl) ⟨(isLeft_true _ _ _).1 hb, by omega, fun ⟨e1, e2⟩ => hne ⟨e1.symm, e2.symm⟩⟩
      · rename_i hb
        have hb' : bitAt w c.addr lvl = true := (isLeft_false _ _ _).1 (by simpa using hb)
        refine ⟨hn, nl' _ l hl, ?_, wl, ihr _ _ wr hc cNotR⟩
        exact insert_All w _ r c _ (nl' _ r hr) ⟨hb', by omega, fun ⟨e1, e2⟩ => hne ⟨e1.symm, e2.symm⟩⟩
    · simp only [hlt, if_false]
      split
      · rename_i hb
        refine ⟨hc, ?_, hr, ihl _ _ wl hn hnl, wr⟩
        exact insert_All w _ l n _ hl ⟨(isLeft_true _ _ _).1 hb, by omega, hne⟩
      · rename_i hb
        have hb' : bitAt w n.addr lvl = true := (isLeft_false _ _ _).1 (by simpa using hb)
        refine ⟨hc, hl, ?_, wl, ihr _ _ wr hn hnr⟩
        exact insert_All w _ r n _ hr ⟨hb', by omega, hne⟩

theorem root_min_g (w : Nat) (c : NodeC) (l r : Trie) (d : Nat) (h : WFg w (.node c l r) d) :
    (Trie.node c l r).All (fun x => c.len ≤ x.len) :=
  ⟨Nat.le_refl _, All_mono l (fun _ hx => hx.2.1) h.2.1, All_mono r (fun _ hx => hx.2.1) h.2.2.1⟩

/-- well-formedness of everything but the root payload (which `pfx_table_remove` /
    `pfx_table_remove_id` have just emptied) -/
def WFkg (w : Nat) (c : NodeC) (l r : Trie) (d : Nat) : Prop :=
  l.All (Below w c d false) ∧ r.All (Below w c d true) ∧ WFg w l (d+1) ∧ WFg w r (d+1)

theorem removeRoot_WFg' (w : Nat) : ∀ (t : Trie) (d : Nat),
    (∀ c l r, t = .node c l r → WFkg w c l r d) → WFg w (removeRoot t) d := by
  intro t
  induction t with
  | nil => intro d _; trivial
  | node c l r ihl ihr =>
    intro d h
    obtain ⟨hl, hr, wl, wr⟩ := h c l r rfl
    have sub : ∀ (s : Trie) (e : Nat), WFg w s e → (∀ c' l' r', s = .node c' l' r' → WFkg w c' l' r' e) := by
      intro s e ws c' l' r' hs; subst hs; exact ⟨ws.2.1, ws.2.2.1, ws.2.2.2.1, ws.2.2.2.2⟩
    have pulled : ∀ (p : NodeC) (sl sr : Trie) (b : Bool), WFg w (.node p sl sr) (d+1) →
        (Trie.node p sl sr).All (Below w c d b) →
        (removeRoot (.node p sl sr)).All (Below w p d b) := by
      intro p sl sr b ws hs
      apply removeRoot_All
      intro c' l' r' e; cases e
      obtain ⟨_, hsl, hsr⟩ := hs
      obtain ⟨_, bl, br, _, _⟩ := ws
      constructor
      · rw [All_iff] at *; intro x hx; exact ⟨(hsl x hx).1, (bl x hx).2.1, (bl x hx).2.2⟩
      · rw [All_iff] at *; intro x hx; exact ⟨(hsr x hx).1, (br x hx).2.1, (br x hx).2.2⟩
    have sibling : ∀ (p : NodeC) (s : Trie) (b b' : Bool), b ≠ b' → bitAt w p.addr d = b →
        s.All (Below w c d b') → s.All (fun x => p.len ≤ x.len) → s.All (Below w p d b') := by
      intro p s b b' hbb hp hs hmin
      rw [All_iff] at *
      intro x hx
      refine ⟨(hs x hx).1, hmin x hx, ?_⟩
      intro ⟨e, _⟩
      have := (hs x hx).1
      rw [e, hp] at this; exact hbb this
    cases l with
    | nil =>
      cases r with
      | nil => trivial
      | node cr rl rr =>
        simp only [removeRoot]
        exact ⟨wr.1, trivial, pulled cr rl rr true wr hr, trivial, ihr (d+1) (sub _ _ wr)⟩
    | node cl ll lr =>
      cases r with
      | nil =>
        simp only [removeRoot]
        exact ⟨wl.1, pulled cl ll lr false wl hl, trivial, ihl (d+1) (sub _ _ wl), trivial⟩
      | node cr rl rr =>
        simp only [removeRoot]
        split
        · rename_i hlt
          refine ⟨wl.1, pulled cl ll lr false wl hl, ?_, ihl (d+1) (sub _ _ wl), wr⟩
          apply sibling cl _ false true (by decide) hl.1.1 hr
          exact All_mono _ (fun x hx => by omega) (root_min_g w cr rl rr (d+1) wr)
        · rename_i hge
          refine ⟨wr.1, ?_, pulled cr rl rr true wr hr, wl, ihr (d+1) (sub _ _ wr)⟩
          apply sibling cr _ true false (by decide) hr.1.1 hl
          exact All_mono _ (fun x hx => by omega) (root_min_g w cl ll lr (d+1) wl)

theorem removeRoot_WFg (w : Nat) (c : NodeC) (l r : Trie) (d : Nat) (h : WFkg w c l r d) :
    WFg w (removeRoot (.node c l r)) d :=
  removeRoot_WFg' w _ d (fun _ _ _ e => by cases e; exact h)

/-- what `trie_lookup_exact` returns on a well-formed (sub)trie entered at depth `d` -/

theorem lookupExact_spec_g (w : Nat) (q : Addr) (n : Nat) : ∀ (t : Trie) (d : Nat), WFg w t d →
    LxSpec q n t (lookupExact w q n t d) := by
  intro t
  induction t with
  | nil => intro d _; simp [lookupExact, LxSpec, Trie.keys]
  | node c l r ihl ihr =>
    intro d ⟨hc, hl, hr, wl, wr⟩
    have lmin : l.All (fun x => c.len ≤ x.len) := All_mono l (fun _ hx => hx.2.1) hl
    have rmin : r.All (fun x => c.len ≤ x.len) := All_mono r (fun _ hx => hx.2.1) hr
    unfold lookupExact
    split
    · -- return the parent
      rename_i h
      simp only [LxSpec]
      refine not_mem_keys_node c l r _ (not_mem_keys_of_len l q n _ lmin h.2) ?_ (not_mem_keys_of_len r q n _ rmin h.2)
      intro e; have : c.len = n := by simpa using (congrArg Prod.snd e).symm
      omega
    · split
      · rename_i _ h
        exact ⟨c, l, r, rfl, h.2, h.1⟩
      · rename_i hup hsame
        have rootne : (q, n) ≠ (c.addr, c.len) := by
          intro e
          apply hsame
          exact ⟨by simpa using (congrArg Prod.snd e).symm, by simpa using (congrArg Prod.fst e).symm⟩
        split
        · rename_i hleft
          have hb : bitAt w q d ≠ true := by rw [(isLeft_true _ _ _).1 hleft]; decide
          have nr := not_mem_keys_of_bit w r c d true q n hr hb
          split
          · -- no left child
            simp only [LxSpec]
            exact ⟨not_mem_keys_node _ _ _ _ (by simp [Trie.keys]) rootne nr, fun _ => ⟨c, .nil, r, rfl⟩⟩
          · rename_i cl ll lr
            have ih := ihl (d+1) wl
            split
            · rename_i hres
              rw [hres] at ih
              simp only [LxSpec] at ih ⊢
              exact ⟨not_mem_keys_node _ _ _ _ ih rootne nr, fun _ => ⟨c, _, r, rfl⟩⟩
            · rename_i p f hres
              rw [hres] at ih
              cases f with
              | true =>
                simp only [LxSpec] at ih ⊢
                simpa [Trie.subAt] using ih
              | false =>
                simp only [LxSpec] at ih ⊢
                refine ⟨not_mem_keys_node _ _ _ _ ih.1 rootne nr, fun _ => ?_⟩
                simpa [Trie.subAt] using ih.2 (by simp)
        · rename_i hleft
          have hleft' : isLeft w q d = false := by simpa using hleft
          have hb : bitAt w q d ≠ false := by rw [(isLeft_false _ _ _).1 hleft']; decide
          have nl := not_mem_keys_of_bit w l c d false q n hl hb
          split
          · simp only [LxSpec]
            exact ⟨not_mem_keys_node _ _ _ _ nl rootne (by simp [Trie.keys]), fun _ => ⟨c, l, .nil, rfl⟩⟩
          · rename_i cr rl rr
            have ih := ihr (d+1) wr
            split
            · rename_i hres
              rw [hres] at ih
              simp only [LxSpec] at ih ⊢
              exact ⟨not_mem_keys_node _ _ _ _ nl rootne ih, fun _ => ⟨c, l, _, rfl⟩⟩
            · rename_i p f hres
              rw [hres] at ih
              cases f with
              | true =>
                simp only [LxSpec] at ih ⊢
                simpa [Trie.subAt] using ih
              | false =>
                simp only [LxSpec] at ih ⊢
                refine ⟨not_mem_keys_node _ _ _ _ nl rootne ih.1, fun _ => ?_⟩
                simpa [Trie.subAt] using ih.2 (by simp)

/-- `pfx_table_add`, no node with that key: inserting at the node returned by
    `trie_lookup_exact`, at the level it reports, is inserting from where the search started -/
theorem lookupExact_insert_g (w : Nat) (new : NodeC) : ∀ (t : Trie) (d : Nat), WFg w t d → ∀ (p : List Bool),
    lookupExact w new.addr new.len t d = .at p false →
    t.modifyAt p (fun s => insert w s new (d + p.length)) = insert w t new d := by
  intro t
  induction t with
  | nil => intro d _ p h; simp [lookupExact] at h; subst h; simp [Trie.modifyAt]
  | node c l r ihl ihr =>
    intro d ⟨hc, hl, hr, wl, wr⟩ p h
    unfold lookupExact at h
    split at h
    · cases h
    · rename_i hup
      split at h
      · cases h
      · rename_i hsame
        -- a child that exists and does not send us back up is at least as long as the new prefix allows
        have noswap : ∀ (s : Trie) (b : Bool) (cs : NodeC) (sl sr : Trie), s = .node cs sl sr → s.All (Below w c d b) →
            lookupExact w new.addr new.len s (d+1) ≠ .up → ¬ new.len < c.len := by
          intro s b cs sl sr es hs hne hlt
          subst es
          apply hne
          unfold lookupExact
          have : c.len ≤ cs.len := hs.1.2.1
          simp; omega
        split at h
        · rename_i hleft
          split at h
          · -- no left child: p = []
            simp at h; subst h; simp [Trie.modifyAt]
          · rename_i cl ll lr
            split at h
            · simp at h; subst h; simp [Trie.modifyAt]
            · rename_i p' f hres
              simp at h
              obtain ⟨hp, hf⟩ := h
              subst hp; subst hf
              have ns := noswap _ false cl ll lr rfl hl (by rw [hres]; simp)
              have ih := ihl (d+1) wl p' hres
              have e : d + (false :: p').length = d + 1 + p'.length := by simp; omega
              simp only [Trie.modifyAt, e, ih]
              conv => rhs; unfold insert
              simp [ns, hleft]
        · rename_i hleft
          split at h
          · simp at h; subst h; simp [Trie.modifyAt]
          · rename_i cr rl rr
            split at h
            · simp at h; subst h; simp [Trie.modifyAt]
            · rename_i p' f hres
              simp at h
              obtain ⟨hp, hf⟩ := h
              subst hp; subst hf
              have ns := noswap _ true cr rl rr rfl hr (by rw [hres]; simp)
              have ih := ihr (d+1) wr p' hres
              have e : d + (true :: p').length = d + 1 + p'.length := by simp; omega
              simp only [Trie.modifyAt, e, ih]
              conv => rhs; unfold insert
              simp [ns, hleft]

/-- a modification below `p` that is well-formed there and introduces no new key keeps the
    whole trie well-formed -/
theorem modifyAt_WFg (w : Nat) : ∀ (t : Trie) (d : Nat) (p : List Bool) (f : Trie → Trie), WFg w t d →
    WFg w (f (t.subAt p)) (d + p.length) → KeySub (f (t.subAt p)) (t.subAt p) → WFg w (t.modifyAt p f) d := by
  intro t
  induction t with
  | nil =>
    intro d p f _ h _
    cases p with
    | nil => simpa [Trie.modifyAt, Trie.subAt] using h
    | cons b p => simp [Trie.modifyAt, WFg]
  | node c l r ihl ihr =>
    intro d p f ⟨hc, hl, hr, wl, wr⟩ h hk
    cases p with
    | nil => simpa [Trie.modifyAt, Trie.subAt] using h
    | cons b p =>
      have e : d + (b :: p).length = d + 1 + p.length := by simp; omega
      rw [e] at h
      cases b with
      | true =>
        simp only [Trie.subAt, if_true] at h hk
        simp only [Trie.modifyAt, if_true]
        exact ⟨hc, hl, All_Below_of_KeySub w c d true _ r (modifyAt_KeySub r p f hk) hr, wl, ihr (d+1) p f wr h hk⟩
      | false =>
        simp only [Trie.subAt] at h hk
        simp only [Trie.modifyAt]
        exact ⟨hc, All_Below_of_KeySub w c d false _ l (modifyAt_KeySub l p f hk) hl, hr, ihl (d+1) p f wl h hk, wr⟩

theorem subAt_WFg (w : Nat) : ∀ (t : Trie) (d : Nat) (p : List Bool), WFg w t d → WFg w (t.subAt p) (d + p.length) := by
  intro t
  induction t with
  | nil => intro d p _; cases p <;> simp [Trie.subAt, WFg]
  | node c l r ihl ihr =>
    intro d p h
    cases p with
    | nil => simpa [Trie.subAt] using h
    | cons b p =>
      have e : d + (b :: p).length = d + 1 + p.length := by simp; omega
      rw [e]
      cases b with
      | true => simpa [Trie.subAt] using ihr (d+1) p h.2.2.2.2
      | false => simpa [Trie.subAt] using ihl (d+1) p h.2.2.2.1

theorem WFg_keys_nodup (w : Nat) : ∀ (t : Trie) (d : Nat), WFg w t d → t.keys.Nodup := by
  intro t
  induction t with
  | nil => intro _ _; simp [Trie.keys]
  | node c l r ihl ihr =>
    intro d ⟨hc, hl, hr, wl, wr⟩
    simp only [Trie.keys]
    rw [List.nodup_append]
    refine ⟨ihl _ wl, ?_, ?_⟩
    · rw [List.nodup_cons]
      refine ⟨?_, ihr _ wr⟩
      intro h
      obtain ⟨x, hx, e1, e2⟩ := (mem_keys_iff r c.addr c.len).1 h
      exact ((All_iff r).1 hr x hx).2.2 ⟨e1, e2⟩
    · intro a ha b hb
      rcases List.mem_cons.1 hb with rfl | hb
      · intro e; subst e
        obtain ⟨x, hx, e1, e2⟩ := (mem_keys_iff l c.addr c.len).1 ha
        exact ((All_iff l).1 hl x hx).2.2 ⟨e1, e2⟩
      · intro e; subst e
        obtain ⟨x, hx, e1, e2⟩ := (mem_keys_iff l a.1 a.2).1 ha
        obtain ⟨y, hy, e3, e4⟩ := (mem_keys_iff r a.1 a.2).1 hb
        have b1 := ((All_iff l).1 hl x hx).1
        have b2 := ((All_iff r).1 hr y hy).1
        rw [e1] at b1; rw [e3] at b2
        rw [b1] at b2; cases b2

structure RemoveIdOKg (w : Nat) (src : Nat) (t : Trie) (d : Nat) (res : Trie × List (Addr × Nat × Elem)) : Prop where
  wf : WFg w res.1 d
  sub : KeySub res.1 t
  kept : res.1.elems.Perm (t.elems.filter fun x => x.2.2.src != src)
  gone : res.2.Perm (t.elems.filter fun x => x.2.2.src == src)

theorem removeId_spec_g (w : Nat) (src : Nat) : ∀ (t : Trie) (d : Nat),
    (match t with | .nil => True | .node c l r => c.data.Nodup ∧ WFkg w c l r d) →
    RemoveIdOKg w src t d (removeId src t)
  | .nil, d, _ => by
    rw [removeId]
    exact ⟨trivial, KeySub_refl _, by simp [Trie.elems, Trie.nodes], by simp [Trie.elems, Trie.nodes]⟩
  | .node c l r, d, h => by
    obtain ⟨c4, hl, hr, wl, wr⟩ := h
    rw [removeId]
    simp only
    have wfchild : ∀ (s : Trie) (e : Nat), WFg w s e →
        (match s with | .nil => True | .node c l r => c.data.Nodup ∧ WFkg w c l r e) := by
      intro s e ws
      cases s with
      | nil => trivial
      | node c' l' r' => exact ⟨ws.1.2, ws.2.1, ws.2.2.1, ws.2.2.2.1, ws.2.2.2.2⟩
    split
    · rename_i hkept
      have hk : c.data.filter (fun e => e.src != src) = [] := by simpa using hkept
      have hall : c.data.filter (fun e => e.src == src) = c.data := by
        rw [List.filter_eq_self]
        rw [List.filter_eq_nil_iff] at hk
        intro a ha; have := hk a ha; simpa using this
      split
      · -- leaf: unlinked
        rename_i hleaf
        have hl0 : l = .nil := by cases l <;> simp_all [Trie.isNil]
        have hr0 : r = .nil := by cases r <;> simp_all [Trie.isNil]
        subst hl0; subst hr0
        refine ⟨trivial, fun x hx => by simp [Trie.nodes] at hx, ?_, ?_⟩
        · simp only [elems_node, elems_nil, List.nil_append, List.append_nil]
          rw [filter_map_key c (fun e => e.src != src), hk]; simp
        · simp only [elems_node, elems_nil, List.nil_append, List.append_nil]
          rw [filter_map_key c (fun e => e.src == src), hall]
      · -- payload pulled up; check the same position again
        have wk : WFkg w { c with data := [] } l r d := ⟨hl, hr, wl, wr⟩
        have wt' := removeRoot_WFg w _ l r d wk
        have np := removeRoot_nodes_perm _ { c with data := [] } l r rfl
        have ih := removeId_spec_g w src (removeRoot (.node { c with data := [] } l r)) d
          (wfchild _ _ wt')
        have ep : (removeRoot (.node { c with data := [] } l r)).elems.Perm (l.elems ++ r.elems) := by
          have := List.Perm.flatMap_right (fun (c : NodeC) => c.data.map fun e => (c.addr, c.len, e)) np
          simpa [Trie.elems, List.flatMap_append] using this
        refine ⟨ih.wf, ?_, ?_, ?_⟩
        · intro x hx
          obtain ⟨y, hy, e⟩ := ih.sub x hx
          have := np.mem_iff.1 hy
          refine ⟨y, ?_, e⟩
          simp only [Trie.nodes, List.mem_append, List.mem_cons] at this ⊢
          rcases this with h | h
          · exact Or.inl h
          · exact Or.inr (Or.inr h)
        · refine ih.kept.trans ?_
          refine (List.Perm.filter _ ep).trans ?_
          simp only [elems_node, List.filter_append]
          rw [filter_map_key c (fun e => e.src != src), hk]; simp
        · simp only
          refine (List.Perm.append_left _ ih.gone).trans ?_
          refine (List.Perm.append_left _ (List.Perm.filter _ ep)).trans ?_
          simp only [elems_node, List.filter_append]
          rw [filter_map_key c (fun e => e.src == src), hall]
          rw [← List.append_assoc]
          exact List.Perm.append_right _ List.perm_append_comm
    · rename_i hkept
      have hk : c.data.filter (fun e => e.src != src) ≠ [] := by simpa using hkept
      have ihl := removeId_spec_g w src l (d+1) (wfchild _ _ wl)
      have ihr := removeId_spec_g w src r (d+1) (wfchild _ _ wr)
      refine ⟨⟨⟨hk, c4.sublist List.filter_sublist⟩,
          All_Below_of_KeySub w c d false _ l ihl.sub hl, All_Below_of_KeySub w c d true _ r ihr.sub hr, ihl.wf, ihr.wf⟩, ?_, ?_, ?_⟩
      · intro x hx
        simp only [Trie.nodes, List.mem_append, List.mem_cons] at hx ⊢
        rcases hx with h | h | h
        · obtain ⟨y, hy, e⟩ := ihl.sub x h; exact ⟨y, Or.inl hy, e⟩
        · exact ⟨c, Or.inr (Or.inl rfl), by simp [h], by simp [h]⟩
        · obtain ⟨y, hy, e⟩ := ihr.sub x h; exact ⟨y, Or.inr (Or.inr hy), e⟩
      · simp only [elems_node, List.filter_append]
        rw [filter_map_key c (fun e => e.src != src)]
        exact (ihl.kept.append_right _).append ihr.kept |>.trans (by simp)
      · simp only [elems_node, List.filter_append]
        rw [filter_map_key c (fun e => e.src == src)]
        have h1 : ((List.filter (fun e => e.src == src) c.data).map (fun e => (c.addr, c.len, e)) ++ (removeId src l).2 ++ (removeId src r).2).Perm
            ((removeId src l).2 ++ (List.filter (fun e => e.src == src) c.data).map (fun e => (c.addr, c.len, e)) ++ (removeId src r).2) :=
          List.Perm.append_right _ List.perm_append_comm
        refine h1.trans ?_
        exact (ihl.gone.append_right _).append ihr.gone
termination_by t => t.size
decreasing_by
  all_goals first
    | exact removeRoot_size_lt { c with data := [] } l r
    | (simp [Trie.size]; omega)

/-! ## TrieSet -/

/-- in a well-formed trie the node carrying a key is unique -/
theorem node_unique_g (w : Nat) (t : Trie) (d : Nat) (h : WFg w t d) (c c' : NodeC) (hc : c ∈ t.nodes) (hc' : c' ∈ t.nodes)
    (e1 : c.addr = c'.addr) (e2 : c.len = c'.len) : c = c' := by
  have := WFg_keys_nodup w t d h
  rw [keys_eq_map] at this
  exact eq_of_nodup_map _ t.nodes this c hc c' hc' (by simp [e1, e2])

structure AddOKg (w : Nat) (t : Trie) (a : Addr) (n : Nat) (e : Elem) (res : Trie × PfxRc) : Prop where
  wf : WFg w res.1 0
  dup : res.2 = .duplicate → res.1 = t ∧ (a, n, e) ∈ t.elems
  ok : res.2 = .success → (a, n, e) ∉ t.elems ∧ res.1.elems.Perm ((a, n, e) :: t.elems)
  codes : res.2 = .success ∨ res.2 = .duplicate

theorem WFg_setData (w : Nat) (c : NodeC) (l r : Trie) (d : Nat) (data : List Elem) (h : WFg w (.node c l r) d)
    (h1 : data ≠ []) (h2 : data.Nodup) : WFg w (.node { c with data := data } l r) d :=
  ⟨⟨h1, h2⟩, h.2.1, h.2.2.1, h.2.2.2.1, h.2.2.2.2⟩

theorem addTrie_spec_g (w : Nat) (t : Trie) (a : Addr) (n : Nat) (e : Elem) (h : WFg w t 0) :
    AddOKg w t a n e (addTrie w t a n e) := by
  have newOK : NodeOKg ⟨a, n, [e]⟩ := ⟨by simp, by simp⟩
  cases t with
  | nil =>
    simp only [addTrie]
    refine ⟨⟨newOK, trivial, trivial, trivial, trivial⟩, by simp, fun _ => ⟨by simp [Trie.elems, Trie.nodes], ?_⟩, Or.inl rfl⟩
    simp [Trie.elems, Trie.nodes]
  | node c0 l0 r0 =>
    have spec := lookupExact_spec_g w a n (.node c0 l0 r0) 0 h
    simp only [addTrie]
    split
    · rename_i hres; exact absurd hres (lookupExact_zero_ne_up w a n _)
    · -- a node with this prefix exists
      rename_i p hres
      rw [hres] at spec
      obtain ⟨c, l, r, hsub, ha, hn⟩ := spec
      have hcmem := subAt_root_mem _ p c l r hsub
      have wsub := subAt_WFg w _ 0 p h
      rw [hsub] at wsub
      have inelems : (a, n, e) ∈ (Trie.node c0 l0 r0).elems ↔ e ∈ c.data := by
        rw [mem_elems_iff]
        constructor
        · rintro ⟨c', hc', h1, h2, h3⟩
          have := node_unique_g w _ 0 h c' c hc' hcmem (by rw [h1, ha]) (by rw [h2, hn])
          rw [← this]; exact h3
        · intro he; exact ⟨c, hcmem, ha, hn, he⟩
      simp only [hsub]
      split
      · rename_i hf
        exact ⟨h, fun _ => ⟨rfl, inelems.2 ((findElem_isSome _ _).1 hf)⟩, by simp, Or.inr rfl⟩
      · rename_i hf
        have hnot : e ∉ c.data := fun he => hf ((findElem_isSome _ _).2 he)
        obtain ⟨rest, p1, p2⟩ := modifyAt_elems (.node c0 l0 r0) p ⟨c, l, r, hsub⟩
        refine ⟨?_, by simp, fun _ => ⟨fun hin => hnot (inelems.1 hin), ?_⟩, Or.inl rfl⟩
        · apply modifyAt_WFg w _ 0 p _ h
          · simp only [hsub]
            exact WFg_setData w c l r _ _ wsub (by simp) (by
              rw [List.nodup_append]; exact ⟨wsub.1.2, by simp, by
                intro x hx y hy; simp at hy; subst hy; intro e'; subst e'; exact hnot hx⟩)
          · simp only [hsub]; exact KeySub_setData c l r _
        · refine (p2 _).trans ?_
          refine List.Perm.trans ?_ (List.Perm.cons _ p1.symm)
          simp only [hsub, elems_node, List.map_append, List.map_cons, List.map_nil]
          rw [ha, hn]
          have : (l.elems ++ (List.map (fun e => (a, n, e)) c.data ++ [(a, n, e)]) ++ r.elems ++ rest).Perm
              ((l.elems ++ List.map (fun e => (a, n, e)) c.data) ++ (a, n, e) :: (r.elems ++ rest)) := by
            simp
          refine this.trans ?_
          refine List.perm_middle.trans ?_
          simp
    · -- no such node: insert below the returned node
      rename_i p hres
      rw [hres] at spec
      have hnk := spec.1
      have eq := lookupExact_insert_g w ⟨a, n, [e]⟩ (.node c0 l0 r0) 0 h p hres
      simp only [Nat.zero_add] at eq
      rw [eq]
      refine ⟨insert_WFg w _ _ 0 h newOK hnk, by simp, fun _ => ⟨not_mem_elems_of_key _ a n e hnk, ?_⟩, Or.inl rfl⟩
      have := elems_perm (t := insert w (.node c0 l0 r0) ⟨a, n, [e]⟩ 0) (t' := .node ⟨a, n, [e]⟩ .nil (.node c0 l0 r0)) (by
        simpa [Trie.nodes] using insert_nodes_perm w (.node c0 l0 r0) ⟨a, n, [e]⟩ 0)
      refine this.trans ?_
      simp [elems_node, elems_nil]

structure RemOKg (w : Nat) (t : Trie) (a : Addr) (n : Nat) (e : Elem) (res : Trie × PfxRc) : Prop where
  wf : WFg w res.1 0
  nf : res.2 = .notFound → res.1 = t ∧ (a, n, e) ∉ t.elems
  ok : res.2 = .success → t.elems.Perm ((a, n, e) :: res.1.elems)
  codes : res.2 = .success ∨ res.2 = .notFound

theorem removeTrie_spec_g (w : Nat) (t : Trie) (a : Addr) (n : Nat) (e : Elem) (h : WFg w t 0) :
    RemOKg w t a n e (removeTrie w t a n e) := by
  have spec := lookupExact_spec_g w a n t 0 h
  have nfcase : (a, n) ∉ t.keys → RemOKg w t a n e (t, .notFound) := fun hk =>
    ⟨h, fun _ => ⟨rfl, not_mem_elems_of_key t a n e hk⟩, by simp, Or.inr rfl⟩
  unfold removeTrie
  split
  · rename_i p hres
    rw [hres] at spec
    obtain ⟨c, l, r, hsub, ha, hn⟩ := spec
    have hcmem := subAt_root_mem _ p c l r hsub
    have wsub := subAt_WFg w _ 0 p h
    rw [hsub] at wsub
    have inelems : (a, n, e) ∈ t.elems ↔ e ∈ c.data := by
      rw [mem_elems_iff]
      constructor
      · rintro ⟨c', hc', h1, h2, h3⟩
        have := node_unique_g w _ 0 h c' c hc' hcmem (by rw [h1, ha]) (by rw [h2, hn])
        rw [← this]; exact h3
      · intro he; exact ⟨c, hcmem, ha, hn, he⟩
    simp only [hsub]
    split
    · rename_i hf
      have : e ∉ c.data := by
        intro he
        have := (findElem_isSome _ _).2 he
        rw [hf] at this; simp at this
      exact ⟨h, fun _ => ⟨rfl, fun hin => this (inelems.1 hin)⟩, by simp, Or.inr rfl⟩
    · rename_i i hf
      have dp := delElem_perm c.data e i hf
      obtain ⟨rest, p1, p2⟩ := modifyAt_elems t p ⟨c, l, r, hsub⟩
      have dsub : (delElem c.data i).Sublist c.data := List.eraseIdx_sublist _ _
      split
      · -- last element of the node: the node goes
        rename_i hempty
        have hd : delElem c.data i = [] := by simpa using hempty
        rw [hd] at dp
        refine ⟨?_, by simp, fun _ => ?_, Or.inl rfl⟩
        · apply modifyAt_WFg w _ 0 p _ h
          · simp only [hsub]
            exact removeRoot_WFg w _ l r _ ⟨wsub.2.1, wsub.2.2.1, wsub.2.2.2.1, wsub.2.2.2.2⟩
          · simp only [hsub]
            intro x hx
            have := (removeRoot_nodes_perm _ { c with data := [] } l r rfl).mem_iff.1 hx
            simp only [Trie.nodes, List.mem_append, List.mem_cons] at this ⊢
            rcases this with h' | h'
            · exact ⟨x, Or.inl h', rfl, rfl⟩
            · exact ⟨x, Or.inr (Or.inr h'), rfl, rfl⟩
        · refine p1.trans ?_
          refine List.Perm.trans ?_ (List.Perm.cons _ (p2 _).symm)
          simp only [hsub]
          have ep : (removeRoot (.node { c with data := [] } l r)).elems.Perm (l.elems ++ r.elems) := by
            have := List.Perm.flatMap_right (fun (c : NodeC) => c.data.map fun e => (c.addr, c.len, e))
              (removeRoot_nodes_perm _ { c with data := [] } l r rfl)
            simpa [Trie.elems, List.flatMap_append] using this
          refine List.Perm.trans ?_ (List.Perm.cons _ (List.Perm.append_right _ ep.symm))
          rw [elems_node, ha, hn]
          have m : (c.data.map fun e => (a, n, e)).Perm [(a, n, e)] := by simpa using dp.map (fun e => (a, n, e))
          refine ((m.append_left l.elems).append_right r.elems).append_right rest |>.trans ?_
          simp only [List.append_assoc, List.singleton_append]
          exact List.perm_middle
      · rename_i hne
        have hd : delElem c.data i ≠ [] := by simpa using hne
        refine ⟨?_, by simp, fun _ => ?_, Or.inl rfl⟩
        · apply modifyAt_WFg w _ 0 p _ h
          · simp only [hsub]
            exact WFg_setData w c l r _ _ wsub hd (wsub.1.2.sublist dsub)
          · simp only [hsub]; exact KeySub_setData c l r _
        · refine p1.trans ?_
          refine List.Perm.trans ?_ (List.Perm.cons _ (p2 _).symm)
          simp only [hsub, elems_node]
          rw [ha, hn]
          have m := dp.map (fun e => (a, n, e))
          simp only [List.map_cons] at m
          refine ((m.append_left l.elems).append_right r.elems).append_right rest |>.trans ?_
          simp only [List.append_assoc, List.cons_append]
          exact List.perm_middle
  · rename_i hres
    cases hl : lookupExact w a n t 0 with
    | up => rw [hl] at spec; exact nfcase spec
    | «at» p f =>
      cases f with
      | true => exact absurd hl (hres p)
      | false => rw [hl] at spec; exact nfcase spec.1

theorem removeId_WFg (w : Nat) (src : Nat) (t : Trie) (d : Nat) (h : WFg w t d) : RemoveIdOKg w src t d (removeId src t) := by
  apply removeId_spec_g w src t d
  cases t with
  | nil => trivial
  | node c l r => exact ⟨h.1.2, h.2.1, h.2.2.1, h.2.2.2.1, h.2.2.2.2⟩

/-- the payload elements of a well-formed trie are pairwise distinct -/
theorem WFg_elems_nodup (w : Nat) (t : Trie) (d : Nat) (h : WFg w t d) : t.elems.Nodup := by
  have hk := WFg_keys_nodup w t d h
  have hok := (All_iff t).1 (WFg_nodeOK w t d h)
  rw [keys_eq_map] at hk
  unfold Trie.elems
  generalize t.nodes = ns at hk hok
  induction ns with
  | nil => simp
  | cons c cs ih =>
    simp only [List.map_cons, List.nodup_cons, List.mem_map, not_exists, not_and] at hk
    simp only [List.flatMap_cons]
    rw [List.nodup_append]
    refine ⟨?_, ih hk.2 (fun x hx => hok x (List.mem_cons_of_mem _ hx)), ?_⟩
    · exact List.Pairwise.map _ (fun a b hab e => hab (by simpa using e)) (hok c (by simp)).2
    · intro x hx y hy e
      subst e
      simp only [List.mem_map, List.mem_flatMap] at hx hy
      obtain ⟨e1, _, rfl⟩ := hx
      obtain ⟨c', hc', e2, _, he⟩ := hy
      simp only [Prod.mk.injEq] at he
      exact hk.1 c' hc' (by simp [he.1, he.2.1])

/-! ## TableSet -/

structure TableWFg (T : PfxTable) : Prop where
  w4 : WFg 32 T.v4 0
  w6 : WFg 128 T.t6 0

theorem setRoot_WFg (T : PfxTable) (v6 : Bool) (t : Trie) (h : TableWFg T) (ht : WFg (if v6 then 128 else 32) t 0) :
    TableWFg (T.setRoot v6 t) := by
  cases v6
  · exact ⟨by simpa [setRoot] using ht, by simpa [setRoot] using h.w6⟩
  · exact ⟨by simpa [setRoot] using h.w4, by simpa [setRoot] using ht⟩

theorem root_WFg (T : PfxTable) (v6 : Bool) (h : TableWFg T) : WFg (if v6 then 128 else 32) (T.root v6) 0 := by
  cases v6
  · simpa [root] using h.w4
  · simpa [root] using h.w6

theorem notify_WFg (T : PfxTable) (b : Bool) (r : Rec) (h : TableWFg T) : TableWFg (T.notify b r) := by
  unfold notify; split
  · exact ⟨h.w4, h.w6⟩
  · exact h

structure TAddOKg (T : PfxTable) (r : Rec) (res : PfxTable × PfxRc) : Prop where
  wf : TableWFg res.1
  dup : r ∈ T.recs → res.2 = .duplicate ∧ res.1 = T
  ok : r ∉ T.recs → res.2 = .success ∧ res.1.recs.Perm (r :: T.recs) ∧
        res.1.log = (if T.hasCb then T.log ++ [(true, r)] else T.log) ∧ res.1.hasCb = T.hasCb

theorem add_spec_g (T : PfxTable) (r : Rec) (h : TableWFg T) : TAddOKg T r (T.add r) := by
  have hw : r.width = (if r.v6 then 128 else 32) := rfl
  have spec := addTrie_spec_g r.width (T.root r.v6) r.addr r.len r.elem (by rw [hw]; exact root_WFg T r.v6 h)
  unfold PfxTable.add
  generalize hres : addTrie r.width (T.root r.v6) r.addr r.len r.elem = res at spec
  obtain ⟨t', rc⟩ := res
  simp only
  have wf' : TableWFg (T.setRoot r.v6 t') := setRoot_WFg T r.v6 t' h (by rw [← hw]; exact spec.wf)
  rcases spec.codes with hc | hc
  · simp only at hc; subst hc
    obtain ⟨hnot, hperm⟩ := spec.ok rfl
    simp only [if_true]
    refine ⟨notify_WFg _ _ _ wf', fun hin => absurd ((mem_recs T r).1 hin) hnot, fun _ => ⟨rfl, ?_, ?_, ?_⟩⟩
    · rw [notify_recs]
      refine (recs_setRoot_perm T r.v6 t' _ hperm).trans ?_
      rw [recs_root_perm T r.v6]
      cases hv : r.v6
      · simp only [Bool.false_eq_true, if_false, List.map_cons]
        have := toRec_of r; rw [hv] at this; rw [this]
        exact List.Perm.refl _
      · simp only [if_true, List.map_cons]
        have := toRec_of r; rw [hv] at this; rw [this]
        exact List.perm_middle
    · unfold notify; cases hv : r.v6 <;> cases hcb : T.hasCb <;> simp [setRoot, hcb]
    · unfold notify; cases hv : r.v6 <;> cases hcb : T.hasCb <;> simp [setRoot, hcb]
  · simp only at hc; subst hc
    obtain ⟨he, hin⟩ := spec.dup rfl
    simp only at he; subst he
    simp only [setRoot_root]
    refine ⟨h, fun _ => ⟨rfl, rfl⟩, fun hnot => absurd ((mem_recs T r).2 hin) hnot⟩

structure TRemOKg (T : PfxTable) (r : Rec) (res : PfxTable × PfxRc) : Prop where
  wf : TableWFg res.1
  nf : r ∉ T.recs → res.2 = .notFound ∧ res.1 = T
  ok : r ∈ T.recs → res.2 = .success ∧ T.recs.Perm (r :: res.1.recs) ∧
        res.1.log = (if T.hasCb then T.log ++ [(false, r)] else T.log) ∧ res.1.hasCb = T.hasCb

theorem remove_spec_g (T : PfxTable) (r : Rec) (h : TableWFg T) : TRemOKg T r (T.remove r) := by
  have hw : r.width = (if r.v6 then 128 else 32) := rfl
  have spec := removeTrie_spec_g r.width (T.root r.v6) r.addr r.len r.elem (by rw [hw]; exact root_WFg T r.v6 h)
  unfold PfxTable.remove
  generalize hres : removeTrie r.width (T.root r.v6) r.addr r.len r.elem = res at spec
  obtain ⟨t', rc⟩ := res
  simp only
  have wf' : TableWFg (T.setRoot r.v6 t') := setRoot_WFg T r.v6 t' h (by rw [← hw]; exact spec.wf)
  rcases spec.codes with hc | hc
  · simp only at hc; subst hc
    have hperm := spec.ok rfl
    simp only [if_true]
    have hin : r ∈ T.recs := (mem_recs T r).2 (hperm.mem_iff.2 (by simp))
    refine ⟨notify_WFg _ _ _ wf', fun hnot => absurd hin hnot, fun _ => ⟨rfl, ?_, ?_, ?_⟩⟩
    · rw [notify_recs]
      refine List.Perm.trans ?_ (List.Perm.cons _ (recs_setRoot_perm T r.v6 t' _ (List.Perm.refl _)).symm)
      rw [recs_root_perm T r.v6]
      cases hv : r.v6
      · simp only [Bool.false_eq_true, if_false]
        rw [hv] at hperm
        have := (hperm.map (toRec false)).append_right T.recs6
        simp only [List.map_cons] at this
        have e := toRec_of r; rw [hv] at e; rw [e] at this
        exact this
      · simp only [if_true]
        rw [hv] at hperm
        have := (hperm.map (toRec true)).append_left T.recs4
        simp only [List.map_cons] at this
        have e := toRec_of r; rw [hv] at e; rw [e] at this
        exact this.trans List.perm_middle
    · unfold notify; cases hv : r.v6 <;> cases hcb : T.hasCb <;> simp [setRoot, hcb]
    · unfold notify; cases hv : r.v6 <;> cases hcb : T.hasCb <;> simp [setRoot, hcb]
  · simp only at hc; subst hc
    obtain ⟨he, hnin⟩ := spec.nf rfl
    simp only at he; subst he
    simp only [setRoot_root]
    refine ⟨h, fun _ => ⟨rfl, rfl⟩, fun hin => absurd ((mem_recs T r).1 hin) hnin⟩

structure TSrcOKg (T : PfxTable) (src : Nat) (T' : PfxTable) : Prop where
  wf : TableWFg T'
  recs : T'.recs.Perm (T.recs.filter fun r => r.src != src)
  cb : T'.hasCb = T.hasCb
  log : ∃ gone : List Rec, gone.Perm (T.recs.filter fun r => r.src == src) ∧
        T'.log = (if T.hasCb then T.log ++ gone.map (fun r => (false, r)) else T.log)

theorem srcRemove_spec_g (T : PfxTable) (src : Nat) (h : TableWFg T) : TSrcOKg T src (T.srcRemove src) := by
  have s4 := removeId_WFg 32 src T.v4 0 h.w4
  have s6 := removeId_WFg 128 src T.t6 0 h.w6
  unfold PfxTable.srcRemove
  generalize h4 : removeId src T.v4 = r4 at s4
  obtain ⟨a, la⟩ := r4
  simp only
  have n1 := notifyAll_spec false (la.map fun (ad, ln, e) => mkRec false ad ln e) { T with v4 := a }
  generalize hT1 : ({ T with v4 := a } : PfxTable).notifyAll false (la.map fun (ad, ln, e) => mkRec false ad ln e) = T1 at n1
  obtain ⟨n11, n12, n13, n14⟩ := n1
  simp only at n11 n12 n13 n14
  rw [n12]
  generalize h6 : removeId src T.t6 = r6 at s6
  obtain ⟨b, lb⟩ := r6
  simp only
  have n2 := notifyAll_spec false (lb.map fun (ad, ln, e) => mkRec true ad ln e) { T1 with t6 := b }
  generalize hT2 : ({ T1 with t6 := b } : PfxTable).notifyAll false (lb.map fun (ad, ln, e) => mkRec true ad ln e) = T2 at n2
  obtain ⟨n21, n22, n23, n24⟩ := n2
  simp only at n21 n22 n23 n24
  have e4 : (la.map fun (ad, ln, e) => mkRec false ad ln e) = la.map (toRec false) := rfl
  have e6 : (lb.map fun (ad, ln, e) => mkRec true ad ln e) = lb.map (toRec true) := rfl
  refine ⟨⟨by rw [n21, n11]; exact s4.wf, by rw [n22]; exact s6.wf⟩, ?_, by rw [n23, n13], ?_⟩
  · simp only [PfxTable.recs, recs4, recs6, n21, n22, n11, trieRecs_eq, List.filter_append]
    rw [filter_toRec false (fun s => s != src), filter_toRec true (fun s => s != src)]
    exact (s4.kept.map _).append (s6.kept.map _)
  · refine ⟨la.map (toRec false) ++ lb.map (toRec true), ?_, ?_⟩
    · simp only [PfxTable.recs, recs4, recs6, trieRecs_eq, List.filter_append]
      rw [filter_toRec false (fun s => s == src), filter_toRec true (fun s => s == src)]
      exact (s4.gone.map _).append (s6.gone.map _)
    · rw [n24, n13, n14, e4, e6]
      cases T.hasCb <;> simp

theorem TableWF_TableWFg (T : PfxTable) (h : TableWF T) : TableWFg T :=
  ⟨WF_WFg 32 _ 0 h.w4, WF_WFg 128 _ 0 h.w6⟩

end Rtr
