/-
  CLinkRecv: `rtr_receive_pdu` (rtrlib/rtr/packets.c) - the function every byte from a cache goes through - as translated
  from clang's typed AST by tools/gen_cfuns.py (RtrModel/Generated/CFuns.lean, `C.rtr_receive_pdu`, regenerated from the
  source on every run), for ALL worlds: every byte stream and every return code of the transport, every answer of the
  other callees, every socket, every initial content of the caller's buffer.

  The translation is a control skeleton over `C.XWorld C.S_rtr_socket` (RtrModel/CSem.lean): `tr_recv_all`,
  `rtr_send_error_pdu_from_network`, `rtr_change_socket_state`, `rtr_pdu_footer_to_host_byte_order` are external calls
  answered by the world and recorded (name, scalar arguments - for the Error Report also the 8 bytes that are echoed, read
  from memory at the time of the call -, socket at the time of the call); `rtr_pdu_header_to_host_byte_order`,
  `rtr_pdu_header_to_network_byte_order`, `rtr_pdu_check_size`, `memcpy` are the translated C text. A result `none` means
  the C text left its defined fragment (an access outside the object a pointer points into, overflow, failed assert).

  Caller's contract `Contract msize pdu pdu_len`: the buffer `[pdu, msize)` has at least RTR_MAX_PDU_LEN = 3248 bytes,
  lies below the function's own address-taken objects (`C.STACK`), and `pdu_len ≥ 3248` (the function's own assert).

  How it is proved (robust against rewrites of the C text that keep its behaviour):
    * `recvModel` - what the function does, written in terms of the world's answers (30 lines);
    * `receive_pdu_eq_model` - THE LINK: `C.rtr_receive_pdu … = some (what recvModel says)`, up to the function's own stack
      objects. The proof never navigates the ~730 generated lines: it normalises them once (`simp only`: bounds guards
      that follow from the contract, the translated header conversions ↦ `hdrSwap`, the stack copy ↦ the received bytes)
      and then case-splits on the WORLD'S ANSWERS (socket state, sign and value of the return codes, length field, version
      bytes, result of the size check), letting `simp` evaluate both sides under each case.
    * `rtr_pdu_check_size_eq_at` - the translated size check at an arbitrary address in an object that may be larger than
      the PDU: defined and equal to the model's `checkSize` of the received bytes as soon as the length field fits the
      object; it reads below `pdu + len` only (CLinkPdu has this for `msize = len`, `pdu = 0`).
    * everything else (`receive_pdu_defined`, `_lengths`, `_transport_errors`, `_version`, `_socket`, `_echo`,
      `_success`, `_frame`, `_buffer_on_error`) is derived from the link and `recvModel_cases` (every run is one of eight).
    * the `example`s at the end evaluate the translated C text itself (`decide`) on concrete worlds.
-/
import RtrProofs.CLink
import RtrProofs.CLinkPdu
set_option linter.unusedSimpArgs false
set_option linter.unusedVariables false

namespace Rtr.CLink.Recv
open Rtr Rtr.Gen Rtr.P Rtr.CLink

/-! ## `rtr_pdu_check_size` at an arbitrary address, in an object larger than the PDU -/

structure HostViewAt (raw : List Nat) (mem : Nat → BitVec 8) (pdu : Nat) : Prop where
  ver : mem pdu = C.memOfList raw 0
  type : mem (pdu + 1) = C.memOfList raw 1
  len : (C.load32 mem (pdu + 4)).toNat = lenOf raw
  rest : ∀ a, 8 ≤ a → a < lenOf raw → mem (pdu + a) = C.memOfList raw a

theorem rtr_get_pdu_type_at (mem : Nat → BitVec 8) (msize pdu : Nat) (h : pdu + 2 ≤ msize) :
    C.rtr_get_pdu_type mem msize pdu = some (BitVec.signExtend 32 (mem (pdu + 1))) := by
  rw [rtr_get_pdu_type_eq, if_pos h]

theorem rtr_pdu_check_size_eq_at (raw : List Nat) (hb : ∀ x ∈ raw, x < 256) (mem : Nat → BitVec 8) (msize pdu : Nat)
    (hv : HostViewAt raw mem pdu) (h8 : 8 ≤ lenOf raw) (hm : pdu + lenOf raw ≤ msize) :
    C.rtr_pdu_check_size mem msize pdu = some (checkSize raw) := by
  have hlen := hv.len
  have hty : (mem (pdu + 1)).toNat = typeOf raw := by rw [hv.type, memOfList_toNat hb]; rfl
  have hver : (mem pdu).toNat = verOf raw := by rw [hv.ver, memOfList_toNat hb]; rfl
  have hbe : ∀ a, 8 ≤ a → a + 4 ≤ lenOf raw → (C.bswap32 (C.load32 mem (pdu + a))).toNat = be32 raw a := by
    intro a ha ha2
    have e : C.load32 mem (pdu + a) = C.load32 (C.memOfList raw) a := by
      unfold C.load32
      rw [show pdu + a + 3 = pdu + (a + 3) by omega, show pdu + a + 2 = pdu + (a + 2) by omega,
        show pdu + a + 1 = pdu + (a + 1) by omega, hv.rest a ha (by omega), hv.rest (a+1) (by omega) (by omega),
        hv.rest (a+2) (by omega) (by omega), hv.rest (a+3) (by omega) (by omega)]
    rw [e, bswap32_load32_memOfList hb]
  have hbe8 : 12 ≤ lenOf raw → (C.bswap32 (C.load32 mem (pdu + 8))).toNat = be32 raw 8 := fun h => hbe 8 (by omega) (by omega)
  have hbeT : ∀ e, 16 + e ≤ lenOf raw → (C.bswap32 (C.load32 mem (pdu + 12 + e))).toNat = be32 raw (12 + e) := by
    intro e he; rw [Nat.add_assoc]; exact hbe (12 + e) (by omega) (by omega)
  have hbnd : ∀ a, be32 raw a < 4294967296 := be32_lt hb
  unfold C.rtr_pdu_check_size checkSize
  rw [rtr_get_pdu_type_at _ _ _ (by omega)]
  simp only [C.load8, C.b2i, ite_one_zero_bne, Nat.zero_add, Nat.reduceAdd, BitVec.reduceAdd]
  simp only [sext8_beq_lit, lit64_beq_zext32, zext32_beq_lit64, zext8_beq_lit, Nat.reduceLT, hlen, hty, hver]
  simp only [beq64_toNat, bne_toNat, BitVec.ult_eq_decide, BitVec.ule_eq_decide, BitVec.toNat_add, zext64_toNat,
    BitVec.toNat_ofNat, Nat.reduceLeDiff, le_lit_add, le_add_lit, hlen]
  generalize typeOf raw = t
  generalize verOf raw = v
  generalize hn : lenOf raw = n at *
  clear hty hver hbe hlen hv
  have ht : t = 0 ∨ t = 1 ∨ t = 2 ∨ t = 3 ∨ t = 4 ∨ t = 5 ∨ t = 6 ∨ t = 7 ∨ t = 8 ∨ t = 9 ∨ t = 10 ∨
      ∃ k, t = k + 11 := by
    by_cases h : t < 11
    · omega
    · exact Or.inr (Or.inr (Or.inr (Or.inr (Or.inr (Or.inr (Or.inr (Or.inr (Or.inr (Or.inr (Or.inr
        ⟨t - 11, by omega⟩))))))))))
  rcases ht with rfl | rfl | rfl | rfl | rfl | rfl | rfl | rfl | rfl | rfl | rfl | ⟨k, rfl⟩
  all_goals try simp [sizeof_pdu_serial_notify, sizeof_pdu_serial_query, sizeof_pdu_reset_query,
    sizeof_pdu_cache_response, sizeof_pdu_ipv4, sizeof_pdu_ipv6, sizeof_pdu_end_of_data_v0, sizeof_pdu_end_of_data_v1,
    sizeof_pdu_header, sizeof_pdu_router_key, sizeof_pdu_error, h8]
  all_goals try simp (disch := grind) only [Nat.mod_eq_of_lt]
  all_goals first
    | grind
    | (repeat' split) <;> first | omega | (simp_all; done) | (simp_all; omega) | grind

/-! ## memory lemmas -/

abbrev Mem := Nat → BitVec 8
abbrev Sock := C.S_rtr_socket
abbrev XW := C.XWorld Sock

theorem memFill_in (m : Mem) (d n : Nat) (b : List (BitVec 8)) (x : Nat) (h : d ≤ x ∧ x < d + n) :
    C.memFill m d n b x = b.getD (x - d) 0#8 := by unfold C.memFill; rw [if_pos h]
theorem memFill_out (m : Mem) (d n : Nat) (b : List (BitVec 8)) (x : Nat) (h : x < d ∨ d + n ≤ x) :
    C.memFill m d n b x = m x := by unfold C.memFill; rw [if_neg (by omega)]
theorem memcpy_in (m : Mem) (d s n x : Nat) (h : d ≤ x ∧ x < d + n) : C.memcpy m d s n x = m (s + (x - d)) := by
  unfold C.memcpy; rw [if_pos h]
theorem memcpy_out (m : Mem) (d s n x : Nat) (h : x < d ∨ d + n ≤ x) : C.memcpy m d s n x = m x := by
  unfold C.memcpy; rw [if_neg (by omega)]

/-- what `rtr_pdu_convert_header_byte_order` does to the 8 header bytes at `a` (either direction; little-endian host):
    bytes 4..7 reversed, bytes 2, 3 swapped unless the type byte is 9 (ROUTER_KEY) -/
def hdrSwap (m : Mem) (a : Nat) : Mem := fun x =>
  if x = a + 2 then (if m (a + 1) = 9#8 then m (a + 2) else m (a + 3))
  else if x = a + 3 then (if m (a + 1) = 9#8 then m (a + 3) else m (a + 2))
  else if x = a + 4 then m (a + 7) else if x = a + 5 then m (a + 6)
  else if x = a + 6 then m (a + 5) else if x = a + 7 then m (a + 4) else m x

theorem store32_append (m : Mem) (a : Nat) (b3 b2 b1 b0 : BitVec 8) :
    C.store32 m a (b3 ++ b2 ++ b1 ++ b0) = fun x => if x = a then b0 else if x = a + 1 then b1
      else if x = a + 2 then b2 else if x = a + 3 then b3 else m x := by
  have h0 : BitVec.extractLsb' 0 8 (b3 ++ b2 ++ b1 ++ b0) = b0 := by
    rw [BitVec.extractLsb'_append_eq_of_add_le (by decide)]; simp
  have h1 : BitVec.extractLsb' 8 8 (b3 ++ b2 ++ b1 ++ b0) = b1 := by
    rw [BitVec.extractLsb'_append_eq_of_le (by decide), BitVec.extractLsb'_append_eq_of_add_le (by decide)]; simp
  have h2 : BitVec.extractLsb' 16 8 (b3 ++ b2 ++ b1 ++ b0) = b2 := by
    rw [BitVec.extractLsb'_append_eq_of_le (by decide), BitVec.extractLsb'_append_eq_of_le (by decide),
      BitVec.extractLsb'_append_eq_of_add_le (by decide)]; simp
  have h3 : BitVec.extractLsb' 24 8 (b3 ++ b2 ++ b1 ++ b0) = b3 := by
    rw [BitVec.extractLsb'_append_eq_of_le (by decide), BitVec.extractLsb'_append_eq_of_le (by decide),
      BitVec.extractLsb'_append_eq_of_le (by decide)]; simp
  unfold C.store32; rw [h0, h1, h2, h3]

theorem store16_append (m : Mem) (a : Nat) (b1 b0 : BitVec 8) :
    C.store16 m a (b1 ++ b0) = fun x => if x = a then b0 else if x = a + 1 then b1 else m x := by
  have h0 : BitVec.extractLsb' 0 8 (b1 ++ b0) = b0 := by
    rw [BitVec.extractLsb'_append_eq_of_add_le (by decide)]; simp
  have h1 : BitVec.extractLsb' 8 8 (b1 ++ b0) = b1 := by
    rw [BitVec.extractLsb'_append_eq_of_le (by decide)]; simp
  unfold C.store16; rw [h0, h1]

theorem bswap16_append (a b : BitVec 8) : C.bswap16 (b ++ a) = a ++ b := by
  have h0 : BitVec.extractLsb' 0 8 (b ++ a) = a := by
    rw [BitVec.extractLsb'_append_eq_of_add_le (by decide)]; simp
  have h1 : BitVec.extractLsb' 8 8 (b ++ a) = b := by
    rw [BitVec.extractLsb'_append_eq_of_le (by decide)]; simp
  unfold C.bswap16; rw [h0, h1]

theorem zext8_bne9 (x : BitVec 8) : (BitVec.setWidth 32 x != 9#32) = !(decide (x = 9#8)) := by
  rw [zext8_bne_lit x 9 (by decide)]
  by_cases h : x = 9#8
  · subst h; decide
  · have : x.toNat ≠ 9 := fun e => h (BitVec.eq_of_toNat_eq (by simpa using e))
    simp [h, this]

/-- the translated conversion (either direction) on an object that has the 8 header bytes -/
theorem convert_header_eq (m : Mem) (ms a : Nat) (tbo : BitVec 32) (ht : tbo = 0#32 ∨ tbo = 1#32) (h : a + 8 ≤ ms) :
    C.rtr_pdu_convert_header_byte_order m ms a tbo = some (hdrSwap m a) := by
  have g1 : a + 1 + 1 ≤ ms := by omega
  have g2 : a + 2 + 2 ≤ ms := by omega
  have g3 : a + 4 + 4 ≤ ms := by omega
  have cs : ∀ v, C.lrtr_convert_short tbo v = some (C.bswap16 v) := by
    intro v; unfold C.lrtr_convert_short; rcases ht with rfl | rfl <;> simp
  have cl : ∀ v, C.lrtr_convert_long tbo v = some (C.bswap32 v) := by
    intro v; unfold C.lrtr_convert_long; rcases ht with rfl | rfl <;> simp
  unfold C.rtr_pdu_convert_header_byte_order
  simp only [g1, g2, g3, decide_true, if_true, cs, cl, C.load8, zext8_bne9]
  by_cases h9 : m (a + 1) = 9#8
  · simp only [h9, decide_true, Bool.not_true, Bool.false_eq_true, if_false]
    congr 1; funext x
    unfold C.load32; rw [bswap32_append, store32_append]; unfold hdrSwap
    simp only [h9, if_true]
    repeat' split
    all_goals first | rfl | omega | (subst_vars; rfl) | grind
  · simp only [h9, decide_false, Bool.not_false, if_true]
    congr 1; funext x
    unfold C.load32 C.load16; rw [bswap16_append, store16_append]
    simp only [show a + 4 + 3 ≠ a + 2 by omega, show a + 4 + 3 ≠ a + 2 + 1 by omega,
      show a + 4 + 2 ≠ a + 2 by omega, show a + 4 + 2 ≠ a + 2 + 1 by omega,
      show a + 4 + 1 ≠ a + 2 by omega, show a + 4 + 1 ≠ a + 2 + 1 by omega,
      show a + 4 ≠ a + 2 by omega, show a + 4 ≠ a + 2 + 1 by omega, if_false]
    rw [bswap32_append, store32_append]; unfold hdrSwap
    simp only [h9, if_false]
    repeat' split
    all_goals first | rfl | omega | (subst_vars; rfl) | grind

theorem to_host_eq (m : Mem) (ms a : Nat) (h : a + 8 ≤ ms) :
    C.rtr_pdu_header_to_host_byte_order m ms a = some (hdrSwap m a) := by
  unfold C.rtr_pdu_header_to_host_byte_order; rw [convert_header_eq m ms a _ (Or.inr rfl) h]
theorem to_network_eq (m : Mem) (ms a : Nat) (h : a + 8 ≤ ms) :
    C.rtr_pdu_header_to_network_byte_order m ms a = some (hdrSwap m a) := by
  unfold C.rtr_pdu_header_to_network_byte_order; rw [convert_header_eq m ms a _ (Or.inl rfl) h]

theorem hdrSwap_out (m : Mem) (a x : Nat) (h : x < a + 2 ∨ a + 8 ≤ x) : hdrSwap m a x = m x := by
  unfold hdrSwap
  rw [if_neg (by omega), if_neg (by omega), if_neg (by omega), if_neg (by omega), if_neg (by omega), if_neg (by omega)]

theorem hdrSwap_load32 (m : Mem) (a : Nat) :
    C.load32 (hdrSwap m a) (a + 4) = m (a + 4) ++ m (a + 5) ++ m (a + 6) ++ m (a + 7) := by
  unfold C.load32 hdrSwap
  simp only [show a + 4 + 3 = a + 7 by omega, show a + 4 + 2 = a + 6 by omega, show a + 4 + 1 = a + 5 by omega,
    show a + 7 ≠ a + 2 by omega, show a + 7 ≠ a + 3 by omega, show a + 7 ≠ a + 4 by omega, show a + 7 ≠ a + 5 by omega,
    show a + 7 ≠ a + 6 by omega, show a + 6 ≠ a + 2 by omega, show a + 6 ≠ a + 3 by omega, show a + 6 ≠ a + 4 by omega,
    show a + 6 ≠ a + 5 by omega, show a + 5 ≠ a + 2 by omega, show a + 5 ≠ a + 3 by omega, show a + 5 ≠ a + 4 by omega,
    show a + 4 ≠ a + 2 by omega, show a + 4 ≠ a + 3 by omega, if_false, if_true]


/-- where byte `k` of the converted header comes from (`t` = the type byte) -/
def perm (t : BitVec 8) (k : Nat) : Nat :=
  if k = 2 then (if t = 9#8 then 2 else 3) else if k = 3 then (if t = 9#8 then 3 else 2)
  else if k = 4 then 7 else if k = 5 then 6 else if k = 6 then 5 else if k = 7 then 4 else k

theorem hdrSwap_at (m : Mem) (a k : Nat) : hdrSwap m a (a + k) = m (a + perm (m (a + 1)) k) := by
  unfold hdrSwap perm
  simp only [Nat.add_left_cancel_iff]
  repeat' split
  all_goals first | rfl | omega
theorem perm_lt (t : BitVec 8) (k : Nat) (h : k < 8) : perm t k < 8 := by
  unfold perm; repeat' split
  all_goals omega
theorem perm_big (t : BitVec 8) (k : Nat) (h : 8 ≤ k) : perm t k = k := by
  unfold perm
  rw [if_neg (by omega), if_neg (by omega), if_neg (by omega), if_neg (by omega), if_neg (by omega), if_neg (by omega)]
theorem perm_perm (t : BitVec 8) (k : Nat) : perm t (perm t k) = k := by
  have : k = 0 ∨ k = 1 ∨ k = 2 ∨ k = 3 ∨ k = 4 ∨ k = 5 ∨ k = 6 ∨ k = 7 ∨ 8 ≤ k := by omega
  rcases this with rfl | rfl | rfl | rfl | rfl | rfl | rfl | rfl | h
  · rfl
  · rfl
  · by_cases ht : t = 9#8 <;> simp [perm, ht]
  · by_cases ht : t = 9#8 <;> simp [perm, ht]
  · rfl
  · rfl
  · rfl
  · rfl
  · rw [perm_big t k h, perm_big t k h]
theorem perm_0 (t : BitVec 8) : perm t 0 = 0 := rfl
theorem perm_1 (t : BitVec 8) : perm t 1 = 1 := rfl
theorem perm_4 (t : BitVec 8) : perm t 4 = 7 := rfl
theorem perm_5 (t : BitVec 8) : perm t 5 = 6 := rfl
theorem perm_6 (t : BitVec 8) : perm t 6 = 5 := rfl
theorem perm_7 (t : BitVec 8) : perm t 7 = 4 := rfl

/-! ## numbers -/

theorem ult64_zext_8 (x : BitVec 32) : (BitVec.setWidth 64 x).ult 8#64 = decide (x.toNat < 8) := by
  rw [BitVec.ult_eq_decide, zext64_toNat]; rfl
theorem ult32_3248 (x : BitVec 32) : (3248#32).ult x = decide (3248 < x.toNat) := by
  rw [BitVec.ult_eq_decide]; rfl
theorem rem_toNat (x : BitVec 32) (h : 8 ≤ x.toNat) :
    (BitVec.setWidth 32 (BitVec.setWidth 64 x - 8#64)).toNat = x.toNat - 8 := by
  have := x.isLt
  simp only [BitVec.toNat_setWidth, BitVec.toNat_sub, BitVec.toNat_ofNat]; omega
theorem rem_pos (x : BitVec 32) (h : 8 ≤ x.toNat) :
    (0#32).ult (BitVec.setWidth 32 (BitVec.setWidth 64 x - 8#64)) = decide (8 < x.toNat) := by
  rw [BitVec.ult_eq_decide, rem_toNat x h]; simp only [BitVec.toNat_ofNat, Nat.zero_mod]
  by_cases h' : 8 < x.toNat
  · simp [h']; omega
  · simp [h']; omega
theorem rem_zext (x : BitVec 32) (h : 8 ≤ x.toNat) :
    BitVec.setWidth 64 (BitVec.setWidth 32 (BitVec.setWidth 64 x - 8#64)) = BitVec.ofNat 64 (x.toNat - 8) := by
  apply BitVec.eq_of_toNat_eq
  rw [zext64_toNat, rem_toNat x h, BitVec.toNat_ofNat]
  have := x.isLt
  omega
theorem ofNat64_toNat_sub (x : BitVec 32) : (BitVec.ofNat 64 (x.toNat - 8)).toNat = x.toNat - 8 := by
  have := x.isLt
  rw [BitVec.toNat_ofNat]; omega

/-- a negative `int` is none of the small non-negative codes of the error chain -/
theorem neg_ne_lit (x : BitVec 32) (hx : x.slt 0#32 = true) (k : Nat) (hk : k < 2147483648) :
    (x = BitVec.ofNat 32 k) = False := by
  apply eq_false
  intro h
  subst h
  rw [BitVec.slt, lit32_toInt k hk] at hx
  simp at hx
  omega

/-! ## the world -/

/-- the world after one more external call -/
def push (w : XW) (name : String) (args : List (BitVec 64)) (s : Sock) : XW :=
  { w with n := w.n + 1, trace := w.trace ++ [(name, args, s)] }

theorem xcall_eq (w : XW) (name : String) (args : List (BitVec 64)) (s : Sock) :
    C.xcall w name args s = ((w.ext w.n).rc, (w.ext w.n).aux, (w.ext w.n).st, push w name args s) := rfl
theorem xcallBuf_eq (w : XW) (name : String) (args : List (BitVec 64)) (s : Sock) :
    C.xcallBuf w name args s = ((w.ext w.n).rc, (w.ext w.n).aux, (w.ext w.n).st, (w.ext w.n).buf, push w name args s) := rfl

/-! ## the model: what `rtr_receive_pdu` does, in terms of the world's answers -/

/-- byte `i` of an answer (bytes the answer does not have read as 0, as in `C.memFill`) -/
def hdrB (b : List (BitVec 8)) (i : Nat) : BitVec 8 := b.getD i 0#8
/-- the first `n` bytes of an answer -/
def takeD (b : List (BitVec 8)) (n : Nat) : List (BitVec 8) := (List.range n).map (hdrB b)
/-- the big-endian length field of a received header -/
def lenField (b : List (BitVec 8)) : Nat :=
  (((hdrB b 4).toNat * 256 + (hdrB b 5).toNat) * 256 + (hdrB b 6).toNat) * 256 + (hdrB b 7).toNat
/-- the eight header bytes as recorded for an Error Report -/
def echo8 (b : List (BitVec 8)) : List (BitVec 64) := (takeD b 8).map (BitVec.setWidth 64)


abbrev Call := String × List (BitVec 64) × Sock

def recv1 (timeout : BitVec 64) (s : Sock) : Call := ("tr_recv_all", [8#64, timeout], s)
def recv2 (b : List (BitVec 8)) (s : Sock) : Call := ("tr_recv_all", [BitVec.ofNat 64 (lenField b - 8), 60#64], s)
def reportCall (code txt : BitVec 64) (b : List (BitVec 8)) (s : Sock) : Call :=
  ("rtr_send_error_pdu_from_network", [8#64, code, txt] ++ echo8 b, s)
def stateCall (st : BitVec 64) (s : Sock) : Call := ("rtr_change_socket_state", [st], s)
def footerCall (s : Sock) : Call := ("rtr_pdu_footer_to_host_byte_order", [], s)

structure Out where
  rc : BitVec 32
  sock : Sock
  mem : Mem
  w : XW
  /-- the external calls made, in order (redundant with `w`: `recvModel_calls`) -/
  calls : List Call

def sendReport (w : XW) (code txt : BitVec 64) (b : List (BitVec 8)) (s : Sock) : XW :=
  push w "rtr_send_error_pdu_from_network" ([8#64, code, txt] ++ echo8 b) s

def changeState (w : XW) (st : BitVec 64) (s : Sock) : XW := push w "rtr_change_socket_state" [st] s

/-- Error Report, then ERROR_FATAL, then RTR_ERROR -/
def reportFatal (w : XW) (cs : List Call) (code txt : BitVec 64) (b : List (BitVec 8)) (s : Sock) (m : Mem) : Out :=
  let w1 := sendReport w code txt b s
  ⟨4294967295#32, (w1.ext w1.n).st, m, changeState w1 7#64 s, cs ++ [reportCall code txt b s, stateCall 7#64 s]⟩

/-- the `error:` label for a negative transport code -/
def transportErr (rc : BitVec 32) (w : XW) (cs : List Call) (s : Sock) (m : Mem) : Out :=
  if rc = 4294967295#32 then ⟨4294967295#32, (w.ext w.n).st, m, changeState w 8#64 s, cs ++ [stateCall 8#64 s]⟩
  else if rc = 4294967294#32 then ⟨4294967294#32, s, m, w, cs⟩
  else if rc = 4294967293#32 then ⟨4294967293#32, s, m, w, cs⟩
  else if rc = 4294967292#32 then ⟨4294967292#32, (w.ext w.n).st, m, changeState w 7#64 s, cs ++ [stateCall 7#64 s]⟩
  else ⟨4294967295#32, (w.ext w.n).st, m, changeState w 7#64 s, cs ++ [stateCall 7#64 s]⟩

/-- live downgrade on the first PDU of a connection, and `has_received_pdus` -/
def downgrade (s : Sock) (b : List (BitVec 8)) : Sock :=
  if s.has_received_pdus then s
  else if s.version = 1#32 ∧ hdrB b 0 = 0#8 ∧ hdrB b 1 ≠ 10#8 then { s with version := 0#32, has_received_pdus := true }
  else { s with has_received_pdus := true }

/-- the received PDU as the model-level byte list: the 8 header bytes, then the payload -/
def rawOf (b b2 : List (BitVec 8)) : List Nat := (takeD b 8 ++ takeD b2 (lenField b - 8)).map BitVec.toNat

/-- size check, then either the footer conversion and RTR_SUCCESS, or an Error Report -/
def finish (w : XW) (cs : List Call) (s : Sock) (m : Mem) (msize pdu : Nat) (b b2 : List (BitVec 8)) : Out :=
  if checkSize (rawOf b b2) then
    ⟨0#32, s, C.memFill m pdu (msize - pdu) (w.ext w.n).buf, push w "rtr_pdu_footer_to_host_byte_order" [] s,
      cs ++ [footerCall s]⟩
  else reportFatal w cs 0#64 56#64 b s m

def recvModel (w : XW) (mem : Mem) (msize : Nat) (s : Sock) (pdu : Nat) (timeout : BitVec 64) : Out :=
  if s.state = 9#32 then ⟨4294967295#32, s, mem, w, []⟩ else
  let b := (w.ext w.n).buf
  let rc1 := BitVec.setWidth 32 (w.ext w.n).rc
  let w1 := push w "tr_recv_all" [8#64, timeout] s
  let m1 := C.memFill mem pdu 8 b
  if rc1.slt 0#32 then transportErr rc1 w1 [recv1 timeout s] s m1
  else if lenField b < 8 then reportFatal w1 [recv1 timeout s] 0#64 56#64 b s m1
  else if 3248 < lenField b then reportFatal w1 [recv1 timeout s] 0#64 42#64 b s m1
  else
    let s1 := downgrade s b
    if BitVec.setWidth 32 (hdrB b 0) ≠ s1.version ∧ hdrB b 1 ≠ 10#8 then
      ⟨4294967295#32, s1, m1, sendReport w1 8#64 0#64 b s1, [recv1 timeout s, reportCall 8#64 0#64 b s1]⟩
    else if lenField b = 8 then finish w1 [recv1 timeout s] s1 m1 msize pdu b []
    else if s1.state = 9#32 then ⟨4294967295#32, s1, m1, w1, [recv1 timeout s]⟩
    else
      let b2 := (w1.ext w1.n).buf
      let rc2 := BitVec.setWidth 32 (w1.ext w1.n).rc
      let w2 := push w1 "tr_recv_all" [BitVec.ofNat 64 (lenField b - 8), 60#64] s1
      let m2 := C.memFill m1 (pdu + 8) (lenField b - 8) b2
      if rc2.slt 0#32 then transportErr rc2 w2 [recv1 timeout s, recv2 b s1] s1 m2
      else finish w2 [recv1 timeout s, recv2 b s1] s1 m2 msize pdu b b2

/-- the translated function returned `o`, up to the function's own stack objects (addresses ≥ `msize`) -/
def Agrees (r : Option (BitVec 32 × Sock × Mem × XW)) (o : Out) (msize : Nat) : Prop :=
  ∃ m', r = some (o.rc, o.sock, m', o.w) ∧ ∀ a, a < msize → m' a = o.mem a

theorem agrees_mk (rc : BitVec 32) (s : Sock) (m' m : Mem) (w : XW) (msize : Nat) {cs : List Call}
    (h : ∀ a, a < msize → m' a = m a) : Agrees (some (rc, s, m', w)) ⟨rc, s, m, w, cs⟩ msize := ⟨m', rfl, h⟩

/-- both branches of a test that only feeds debug output return the same -/
theorem agrees_ite (c : Prop) [Decidable c] (x : Option (BitVec 32 × Sock × Mem × XW)) (o : Out) (m : Nat)
    (h : Agrees x o m) : Agrees (if c then x else x) o m := by
  split <;> exact h

/-! ## the memory of `rtr_receive_pdu` -/

theorem memcpy_in' (m : Mem) (d s n x y : Nat) (h : d ≤ x ∧ x < d + n) (hy : y = s + (x - d)) :
    C.memcpy m d s n x = m y := by rw [memcpy_in m d s n x h, hy]

/-- the first receive put the answer's bytes at `pdu` -/
theorem m1_hdr (mem : Mem) (pdu : Nat) (b : List (BitVec 8)) (i : Nat) (hi : i < 8) :
    C.memFill mem pdu 8 b (pdu + i) = hdrB b i := by
  rw [memFill_in _ _ _ _ _ (by omega)]; unfold hdrB; congr 1; omega

/-- `header.len` of the host-order copy on the stack -/
theorem stk_len (m : Mem) (pdu hp : Nat) :
    C.load32 (hdrSwap (C.memcpy m hp pdu 8) hp) (hp + 4) = m (pdu + 4) ++ m (pdu + 5) ++ m (pdu + 6) ++ m (pdu + 7) := by
  rw [hdrSwap_load32, memcpy_in' m hp pdu 8 (hp + 4) (pdu + 4) (by omega) (by omega),
    memcpy_in' m hp pdu 8 (hp + 5) (pdu + 5) (by omega) (by omega),
    memcpy_in' m hp pdu 8 (hp + 6) (pdu + 6) (by omega) (by omega),
    memcpy_in' m hp pdu 8 (hp + 7) (pdu + 7) (by omega) (by omega)]
theorem stk_ver (m : Mem) (pdu hp : Nat) : hdrSwap (C.memcpy m hp pdu 8) hp (hp + 0) = m (pdu + 0) := by
  rw [hdrSwap_out _ _ _ (by omega), memcpy_in' m hp pdu 8 (hp + 0) (pdu + 0) (by omega) (by omega)]
theorem stk_ver' (m : Mem) (pdu hp : Nat) : hdrSwap (C.memcpy m hp pdu 8) hp hp = m (pdu + 0) := stk_ver m pdu hp
theorem stk_type (m : Mem) (pdu hp : Nat) : hdrSwap (C.memcpy m hp pdu 8) hp (hp + 1) = m (pdu + 1) := by
  rw [hdrSwap_out _ _ _ (by omega), memcpy_in' m hp pdu 8 (hp + 1) (pdu + 1) (by omega) (by omega)]
/-- the stack copy does not touch the caller's buffer -/
theorem stk_buf (m : Mem) (pdu hp x : Nat) (h : x < hp) : hdrSwap (C.memcpy m hp pdu 8) hp x = m x := by
  rw [hdrSwap_out _ _ _ (by omega), memcpy_out _ _ _ _ _ (by omega)]

theorem stk_buf_hdr (m : Mem) (pdu hp i : Nat) (h : pdu + 8 ≤ hp) (hi : i < 8) :
    hdrSwap (C.memcpy m hp pdu 8) hp (pdu + i) = m (pdu + i) := stk_buf m pdu hp (pdu + i) (by omega)

theorem lenBv_toNat (b : List (BitVec 8)) : (hdrB b 4 ++ hdrB b 5 ++ hdrB b 6 ++ hdrB b 7).toNat = lenField b := by
  unfold lenField; simp only [toNat_append8]

theorem lenField_lt (b : List (BitVec 8)) : lenField b < 4294967296 := by
  rw [← lenBv_toNat]; exact BitVec.isLt _
theorem ofNat64_lenField (b : List (BitVec 8)) : (BitVec.ofNat 64 (lenField b - 8)).toNat = lenField b - 8 := by
  have := lenField_lt b
  rw [BitVec.toNat_ofNat]; omega

theorem echo8_eq (b : List (BitVec 8)) : echo8 b = [BitVec.setWidth 64 (hdrB b 0), BitVec.setWidth 64 (hdrB b 1),
    BitVec.setWidth 64 (hdrB b 2), BitVec.setWidth 64 (hdrB b 3), BitVec.setWidth 64 (hdrB b 4),
    BitVec.setWidth 64 (hdrB b 5), BitVec.setWidth 64 (hdrB b 6), BitVec.setWidth 64 (hdrB b 7)] := rfl


/-! ## the buffer when the size check runs -/

/-- `m2` is the memory after the (possible) second receive, `m2'` the model's buffer at that time: the host-order header
    copy on the stack is intact, the payload is what the second answer delivered, the header is as received -/
structure Stage (mem : Mem) (b b2 : List (BitVec 8)) (pdu hp : Nat) (m2 m2' : Mem) : Prop where
  stk : ∀ i, i < 8 → m2 (hp + i) = hdrSwap (C.memcpy (C.memFill mem pdu 8 b) hp pdu 8) hp (hp + i)
  pay : ∀ a, 8 ≤ a → a < lenField b → m2 (pdu + a) = hdrB b2 (a - 8)
  rest : ∀ a, a < hp → (a < pdu ∨ pdu + 8 ≤ a) → m2 a = m2' a
  hdr : ∀ i, i < 8 → m2' (pdu + i) = hdrB b i

theorem stage_nopayload (mem : Mem) (b : List (BitVec 8)) (pdu hp : Nat) (hd : pdu + 8 ≤ hp) (h8 : lenField b = 8) :
    Stage mem b [] pdu hp (hdrSwap (C.memcpy (C.memFill mem pdu 8 b) hp pdu 8) hp) (C.memFill mem pdu 8 b) where
  stk := fun _ _ => rfl
  pay := fun a h1 h2 => by omega
  rest := fun a h1 _ => stk_buf _ _ _ _ h1
  hdr := fun i hi => m1_hdr mem pdu b i hi

theorem stage_payload (mem : Mem) (b b2 : List (BitVec 8)) (pdu hp : Nat) (hd : pdu + lenField b ≤ hp)
    (h8 : 8 ≤ lenField b) :
    Stage mem b b2 pdu hp
      (C.memFill (hdrSwap (C.memcpy (C.memFill mem pdu 8 b) hp pdu 8) hp) (pdu + 8) (lenField b - 8) b2)
      (C.memFill (C.memFill mem pdu 8 b) (pdu + 8) (lenField b - 8) b2) where
  stk := fun i hi => memFill_out _ _ _ _ _ (by omega)
  pay := fun a h1 h2 => by
    rw [memFill_in _ _ _ _ _ (by omega)]; unfold hdrB; congr 1; omega
  rest := fun a h1 h2 => by
    by_cases hin : pdu + 8 ≤ a ∧ a < pdu + 8 + (lenField b - 8)
    · rw [memFill_in _ _ _ _ _ hin, memFill_in _ _ _ _ _ hin]
    · rw [memFill_out _ _ _ _ _ (by omega), memFill_out _ _ _ _ _ (by omega)]; exact stk_buf _ _ _ _ h1
  hdr := fun i hi => by rw [memFill_out _ _ _ _ _ (by omega)]; exact m1_hdr mem pdu b i hi

theorem takeD_getD (b : List (BitVec 8)) (n i : Nat) (h : i < n) : (takeD b n).getD i 0#8 = hdrB b i := by
  unfold takeD; simp [List.getD_eq_getElem?_getD, h]
theorem takeD_length (b : List (BitVec 8)) (n : Nat) : (takeD b n).length = n := by unfold takeD; simp

theorem rawOf_getD_hdr (b b2 : List (BitVec 8)) (i : Nat) (h : i < 8) : (rawOf b b2).getD i 0 = (hdrB b i).toNat := by
  unfold rawOf
  simp only [List.getD_eq_getElem?_getD, List.getElem?_map]
  rw [List.getElem?_append_left (by rw [takeD_length]; exact h)]
  have := takeD_getD b 8 i h
  rw [List.getD_eq_getElem?_getD] at this
  have hl : i < (takeD b 8).length := by rw [takeD_length]; exact h
  rw [List.getElem?_eq_getElem hl] at this ⊢
  simp only [Option.getD_some, Option.map_some] at this ⊢
  rw [this]

theorem rawOf_getD_pay (b b2 : List (BitVec 8)) (a : Nat) (h1 : 8 ≤ a) (h2 : a < lenField b) :
    (rawOf b b2).getD a 0 = (hdrB b2 (a - 8)).toNat := by
  unfold rawOf
  simp only [List.getD_eq_getElem?_getD, List.getElem?_map]
  rw [List.getElem?_append_right (by rw [takeD_length]; exact h1), takeD_length]
  have h3 : a - 8 < lenField b - 8 := by omega
  have := takeD_getD b2 (lenField b - 8) (a - 8) h3
  rw [List.getD_eq_getElem?_getD] at this
  have hl : a - 8 < (takeD b2 (lenField b - 8)).length := by rw [takeD_length]; exact h3
  rw [List.getElem?_eq_getElem hl] at this ⊢
  simp only [Option.getD_some, Option.map_some] at this ⊢
  rw [this]

theorem rawOf_bytes (b b2 : List (BitVec 8)) : ∀ x ∈ rawOf b b2, x < 256 := by
  intro x hx; unfold rawOf at hx
  rw [List.mem_map] at hx
  obtain ⟨y, _, rfl⟩ := hx
  exact y.isLt

theorem rawOf_lenOf (b b2 : List (BitVec 8)) : lenOf (rawOf b b2) = lenField b := by
  unfold lenOf be32 lenField
  rw [rawOf_getD_hdr b b2 4 (by decide), rawOf_getD_hdr b b2 5 (by decide), rawOf_getD_hdr b b2 6 (by decide),
    rawOf_getD_hdr b b2 7 (by decide)]

theorem memOfList_rawOf_hdr (b b2 : List (BitVec 8)) (i : Nat) (h : i < 8) : C.memOfList (rawOf b b2) i = hdrB b i := by
  unfold C.memOfList; rw [rawOf_getD_hdr b b2 i h]; simp
theorem memOfList_rawOf_pay (b b2 : List (BitVec 8)) (a : Nat) (h1 : 8 ≤ a) (h2 : a < lenField b) :
    C.memOfList (rawOf b b2) a = hdrB b2 (a - 8) := by
  unfold C.memOfList; rw [rawOf_getD_pay b b2 a h1 h2]; simp


theorem Stage.stk_eq {mem : Mem} {b b2 : List (BitVec 8)} {pdu hp : Nat} {m2 m2' : Mem}
    (st : Stage mem b b2 pdu hp m2 m2') (i : Nat) (hi : i < 8) : m2 (hp + i) = hdrB b (perm (hdrB b 1) i) := by
  have hm : ∀ k, k < 8 → C.memcpy (C.memFill mem pdu 8 b) hp pdu 8 (hp + k) = hdrB b k := by
    intro k hk
    rw [memcpy_in' _ hp pdu 8 (hp + k) (pdu + k) (by omega) (by omega)]; exact m1_hdr mem pdu b k hk
  rw [st.stk i hi, hdrSwap_at, hm 1 (by decide), hm _ (perm_lt _ _ hi)]

/-- the buffer after the host-order header has been copied back -/
theorem Stage.copied {mem : Mem} {b b2 : List (BitVec 8)} {pdu hp : Nat} {m2 m2' : Mem}
    (st : Stage mem b b2 pdu hp m2 m2') (i : Nat) (hi : i < 8) :
    C.memcpy m2 pdu hp 8 (pdu + i) = hdrB b (perm (hdrB b 1) i) := by
  rw [memcpy_in' _ pdu hp 8 (pdu + i) (hp + i) (by omega) (by omega)]; exact st.stk_eq i hi

/-- converting the header back to network byte order restores the bytes as received (they are echoed) -/
theorem Stage.roundtrip {mem : Mem} {b b2 : List (BitVec 8)} {pdu hp : Nat} {m2 m2' : Mem}
    (st : Stage mem b b2 pdu hp m2 m2') (i : Nat) (hi : i < 8) :
    hdrSwap (C.memcpy m2 pdu hp 8) pdu (pdu + i) = hdrB b i := by
  rw [hdrSwap_at, st.copied 1 (by decide), perm_1, st.copied _ (perm_lt _ _ hi), perm_perm]

/-- the size check runs on a host view of the received bytes and is the model's `checkSize` of them -/
theorem Stage.check_size {mem : Mem} {b b2 : List (BitVec 8)} {pdu hp : Nat} {m2 m2' : Mem}
    (st : Stage mem b b2 pdu hp m2 m2') (msize : Nat) (hd : pdu + 8 ≤ hp) (h8 : 8 ≤ lenField b)
    (hm : pdu + lenField b ≤ msize) :
    C.rtr_pdu_check_size (C.memcpy m2 pdu hp 8) msize pdu = some (checkSize (rawOf b b2)) := by
  apply rtr_pdu_check_size_eq_at (rawOf b b2) (rawOf_bytes b b2)
  · constructor
    · have := st.copied 0 (by decide)
      rw [perm_0] at this
      rw [memOfList_rawOf_hdr b b2 0 (by decide)]; exact this
    · have := st.copied 1 (by decide)
      rw [perm_1] at this
      rw [memOfList_rawOf_hdr b b2 1 (by decide)]; exact this
    · rw [rawOf_lenOf, ← lenBv_toNat]
      unfold C.load32
      rw [show pdu + 4 + 3 = pdu + 7 by omega, show pdu + 4 + 2 = pdu + 6 by omega, show pdu + 4 + 1 = pdu + 5 by omega,
        st.copied 7 (by decide), st.copied 6 (by decide), st.copied 5 (by decide), st.copied 4 (by decide),
        perm_4, perm_5, perm_6, perm_7]
    · intro a h1 h2
      rw [rawOf_lenOf] at h2
      rw [memcpy_out _ _ _ _ _ (by omega), st.pay a h1 h2, memOfList_rawOf_pay b b2 a h1 h2]
  · rw [rawOf_lenOf]; exact h8
  · rw [rawOf_lenOf]; exact hm

/-- buffer after a failed size check (header restored) -/
theorem Stage.fail_mem {mem : Mem} {b b2 : List (BitVec 8)} {pdu hp : Nat} {m2 m2' : Mem}
    (st : Stage mem b b2 pdu hp m2 m2') (a : Nat) (ha : a < hp) (hd : pdu + 8 ≤ hp) :
    hdrSwap (C.memcpy m2 pdu hp 8) pdu a = m2' a := by
  by_cases hin : pdu ≤ a ∧ a < pdu + 8
  · obtain ⟨i, rfl⟩ : ∃ i, a = pdu + i := ⟨a - pdu, by omega⟩
    rw [st.roundtrip i (by omega), st.hdr i (by omega)]
  · rw [hdrSwap_out _ _ _ (by omega), memcpy_out _ _ _ _ _ (by omega)]; exact st.rest a ha (by omega)

/-- buffer after the footer conversion -/
theorem Stage.ok_mem {mem : Mem} {b b2 : List (BitVec 8)} {pdu hp : Nat} {m2 m2' : Mem}
    (st : Stage mem b b2 pdu hp m2 m2') (msize : Nat) (b3 : List (BitVec 8)) (a : Nat) (ha : a < msize)
    (hm : pdu + 8 ≤ msize) (hd : msize ≤ hp) :
    C.memFill (C.memcpy m2 pdu hp 8) pdu (msize - pdu) b3 a = C.memFill m2' pdu (msize - pdu) b3 a := by
  by_cases hin : pdu ≤ a ∧ a < pdu + (msize - pdu)
  · rw [memFill_in _ _ _ _ _ hin, memFill_in _ _ _ _ _ hin]
  · rw [memFill_out _ _ _ _ _ (by omega), memFill_out _ _ _ _ _ (by omega), memcpy_out _ _ _ _ _ (by omega)]
    exact st.rest a (by omega) (by omega)

theorem zext8_eq_lit (x : BitVec 8) (k : Nat) (hk : k < 256) :
    (BitVec.setWidth 32 x == BitVec.ofNat 32 k) = decide (x = BitVec.ofNat 8 k) := by
  rw [zext8_beq_lit x k (by omega), Bool.eq_iff_iff]
  simp only [beq_iff_eq, decide_eq_true_eq, ← BitVec.toNat_inj, BitVec.toNat_ofNat]
  omega
theorem dg_cond (v : BitVec 32) (x y : BitVec 8) :
    (v == 1#32 && BitVec.setWidth 32 x == 0#32 && BitVec.setWidth 32 y != 10#32) =
      decide (v = 1#32 ∧ x = 0#8 ∧ y ≠ 10#8) := by
  rw [bne, zext8_eq_lit x 0 (by decide), zext8_eq_lit y 10 (by decide), Bool.eq_iff_iff]
  simp [and_assoc]
theorem mm_cond (v : BitVec 32) (x y : BitVec 8) :
    (BitVec.setWidth 32 x != v && BitVec.setWidth 32 y != 10#32) =
      decide (BitVec.setWidth 32 x ≠ v ∧ y ≠ 10#8) := by
  rw [bne, bne, zext8_eq_lit y 10 (by decide), Bool.eq_iff_iff]
  simp

set_option hygiene false in
/-- everything behind the version check (the socket at that point is whatever the goal says) -/
macro "recv_rest" : tactic => `(tactic| (
  by_cases hl : lenField b = 8
  · have st := stage_nopayload mem b pdu hp gd hl
    have hcs := st.check_size msize gd (by omega) (by omega)
    simp only [hl, Nat.lt_irrefl, if_false, if_true, finish, hcs]
    cases hc : checkSize (rawOf b [])
    · simp (disch := decide) only [C.b2i, Bool.false_eq_true, if_false, if_true, beq_self_eq_true, st.roundtrip, st.stk_eq, perm_0, perm_1, reportFatal, sendReport,
        changeState, echo8_eq, List.cons_append, List.nil_append]
      exact agrees_mk _ _ _ _ _ _ (fun a (ha : a < msize) => st.fail_mem a (by omega) gd)
    · simp only [C.b2i, if_true, if_false, reduceCtorEq, BitVec.reduceBEq, BitVec.reduceEq, Bool.false_eq_true, ite_self]
      first | exact agrees_mk _ _ _ _ _ _ (fun a (ha : a < msize) => st.ok_mem msize _ a ha g1 (by omega)) | (apply agrees_ite; first | exact agrees_mk _ _ _ _ _ _ (fun a (ha : a < msize) => st.ok_mem msize _ a ha g1 (by omega)) | (apply agrees_ite; first | exact agrees_mk _ _ _ _ _ _ (fun a (ha : a < msize) => st.ok_mem msize _ a ha g1 (by omega)) | (apply agrees_ite; exact agrees_mk _ _ _ _ _ _ (fun a (ha : a < msize) => st.ok_mem msize _ a ha g1 (by omega)))))
  · have hl' : 8 < lenField b := by omega
    simp only [hl, hl', if_true, if_false, hs]
    generalize hb2 : ((push w "tr_recv_all" [8#64, timeout] s).ext (push w "tr_recv_all" [8#64, timeout] s).n).buf = b2
    generalize hrc2 : BitVec.setWidth 32 ((push w "tr_recv_all" [8#64, timeout] s).ext (push w "tr_recv_all" [8#64, timeout] s).n).rc = rc2
    by_cases hneg2 : rc2.slt 0#32 = true
    · simp only [hneg2, if_true, transportErr, changeState]
      have hmem : ∀ a, a < msize → C.memFill (hdrSwap (C.memcpy (C.memFill mem pdu 8 b) hp pdu 8) hp) (pdu + 8) (lenField b - 8) b2 a
          = C.memFill (C.memFill mem pdu 8 b) (pdu + 8) (lenField b - 8) b2 a := by
        intro a ha
        by_cases hin : pdu + 8 ≤ a ∧ a < pdu + 8 + (lenField b - 8)
        · rw [memFill_in _ _ _ _ _ hin, memFill_in _ _ _ _ _ hin]
        · rw [memFill_out _ _ _ _ _ (by omega), memFill_out _ _ _ _ _ (by omega)]; exact stk_buf _ _ _ _ (by omega)
      by_cases e1 : rc2 = 4294967295#32
      · simp only [e1, if_true]; exact agrees_mk _ _ _ _ _ _ hmem
      by_cases e2 : rc2 = 4294967294#32
      · simp only [e1, e2, if_true, if_false]; exact agrees_mk _ _ _ _ _ _ hmem
      by_cases e3 : rc2 = 4294967293#32
      · simp only [e1, e2, e3, if_true, if_false]; exact agrees_mk _ _ _ _ _ _ hmem
      by_cases e4 : rc2 = 4294967292#32
      · simp only [e1, e2, e3, e4, if_true, if_false]; exact agrees_mk _ _ _ _ _ _ hmem
      have n0 := neg_ne_lit rc2 hneg2
      simp (disch := decide) only [e1, e2, e3, e4, n0, if_false]
      exact agrees_mk _ _ _ _ _ _ hmem
    · have st := stage_payload mem b b2 pdu hp (by omega) (by omega)
      have hcs := st.check_size msize gd (by omega) (by omega)
      simp only [hneg2, Bool.false_eq_true, if_false, finish, hcs]
      cases hc : checkSize (rawOf b b2)
      · simp (disch := decide) only [C.b2i, Bool.false_eq_true, if_false, if_true, beq_self_eq_true, st.roundtrip, st.stk_eq, perm_0, perm_1, reportFatal, sendReport,
          changeState, echo8_eq, List.cons_append, List.nil_append]
        exact agrees_mk _ _ _ _ _ _ (fun a (ha : a < msize) => st.fail_mem a (by omega) gd)
      · simp only [C.b2i, if_true, if_false, reduceCtorEq, BitVec.reduceBEq, BitVec.reduceEq, Bool.false_eq_true, ite_self]
        first | exact agrees_mk _ _ _ _ _ _ (fun a (ha : a < msize) => st.ok_mem msize _ a ha g1 (by omega)) | (apply agrees_ite; first | exact agrees_mk _ _ _ _ _ _ (fun a (ha : a < msize) => st.ok_mem msize _ a ha g1 (by omega)) | (apply agrees_ite; first | exact agrees_mk _ _ _ _ _ _ (fun a (ha : a < msize) => st.ok_mem msize _ a ha g1 (by omega)) | (apply agrees_ite; exact agrees_mk _ _ _ _ _ _ (fun a (ha : a < msize) => st.ok_mem msize _ a ha g1 (by omega)))))))

set_option maxRecDepth 4000 in
theorem receive_pdu_eq_model (w : XW) (mem : Mem) (msize : Nat) (s : Sock) (pdu : Nat) (pdu_len timeout : BitVec 64)
    (H1 : pdu + 3248 ≤ msize) (H2 : msize ≤ C.STACK) (H3 : 3248 ≤ pdu_len.toNat) :
    Agrees (C.rtr_receive_pdu w mem msize s pdu pdu_len timeout) (recvModel w mem msize s pdu timeout) msize := by
  unfold C.rtr_receive_pdu recvModel
  have hlen : BitVec.ule 3248#64 pdu_len = true := by rw [BitVec.ule_eq_decide]; simpa using H3
  generalize hhp : C.STACK + 4096 = hp
  generalize hhe : C.STACK + 4104 = he
  have g1 : pdu + 8 ≤ msize := by omega
  have g2 : hp + 8 ≤ he := by omega
  have g3 : hp + 4 + 4 ≤ he := by omega
  have g4 : hp + 0 + 1 ≤ he := by omega
  have g5 : hp + 1 + 1 ≤ he := by omega
  have g6 : (hp + 8 ≤ pdu ∨ pdu + 8 ≤ hp) := by omega
  have g7 : (pdu + 8 ≤ hp ∨ hp + 8 ≤ pdu) := by omega
  have gd : pdu + 8 ≤ hp := by omega
  have g8 : pdu + 11 + 1 ≤ msize := by omega
  have g9 : pdu + 3 + 1 ≤ msize := by omega
  simp only [hlen, g1, g2, g3, g4, g5, g6, g7, g8, g9, decide_true, Bool.and_true, Bool.or_true, Bool.true_and, if_true,
    xcall_eq, xcallBuf_eq, to_host_eq, to_network_eq, ite_self, stk_len, stk_ver, stk_ver', stk_type, C.load8,
    BitVec.reduceBNe, BitVec.reduceBEq, BitVec.reduceEq, BitVec.reduceNe, Bool.false_eq_true, if_false, reduceCtorEq]
  by_cases hs : s.state = 9#32
  · simp only [hs, beq_self_eq_true, if_true]
    exact agrees_mk _ _ _ _ _ _ (fun _ _ => rfl)
  simp only [hs, beq_iff_eq, if_false]
  generalize hb : (w.ext w.n).buf = b
  generalize hrc1 : BitVec.setWidth 32 (w.ext w.n).rc = rc1
  by_cases hneg : rc1.slt 0#32 = true
  · simp only [hneg, if_true, transportErr, changeState]
    by_cases e1 : rc1 = 4294967295#32
    · simp only [e1, if_true]; exact agrees_mk _ _ _ _ _ _ (fun _ _ => rfl)
    by_cases e2 : rc1 = 4294967294#32
    · simp only [e1, e2, if_true, if_false]; exact agrees_mk _ _ _ _ _ _ (fun _ _ => rfl)
    by_cases e3 : rc1 = 4294967293#32
    · simp only [e1, e2, e3, if_true, if_false]; exact agrees_mk _ _ _ _ _ _ (fun _ _ => rfl)
    by_cases e4 : rc1 = 4294967292#32
    · simp only [e1, e2, e3, e4, if_true, if_false]; exact agrees_mk _ _ _ _ _ _ (fun _ _ => rfl)
    have n0 := neg_ne_lit rc1 hneg
    simp (disch := decide) only [e1, e2, e3, e4, n0, if_false]
    exact agrees_mk _ _ _ _ _ _ (fun _ _ => rfl)
  simp only [hneg, Bool.false_eq_true, if_false, ult64_zext_8, ult32_3248, lenBv_toNat, m1_hdr, Nat.reduceLT,
    decide_eq_true_eq, stk_buf_hdr, gd, stk_ver, stk_ver', stk_type]
  by_cases hl8 : lenField b < 8
  · simp only [hl8, if_true, reportFatal, sendReport, changeState, echo8_eq, List.cons_append, List.nil_append]
    exact agrees_mk _ _ _ _ _ _ (fun a (ha : a < msize) => stk_buf _ _ _ _ (by omega))
  by_cases hlmax : 3248 < lenField b
  · simp only [hl8, hlmax, if_true, if_false, reportFatal, sendReport, changeState, echo8_eq, List.cons_append,
      List.nil_append]
    exact agrees_mk _ _ _ _ _ _ (fun a (ha : a < msize) => stk_buf _ _ _ _ (by omega))
  simp only [hl8, hlmax, if_false]
  have h8 : 8 ≤ (hdrB b 4 ++ hdrB b 5 ++ hdrB b 6 ++ hdrB b 7).toNat := by rw [lenBv_toNat]; omega
  have gL : pdu + 8 + (lenField b - 8) ≤ msize := by omega
  simp only [rem_pos _ h8, rem_zext _ h8, ofNat64_toNat_sub, lenBv_toNat, dg_cond, mm_cond, decide_eq_true_eq, ofNat64_lenField,
    gL, if_true]
  rcases hr : s.has_received_pdus with _ | _
  · by_cases hd : s.version = 1#32 ∧ hdrB b 0 = 0#8 ∧ hdrB b 1 ≠ 10#8
    · have hmm : ¬ (BitVec.setWidth 32 (hdrB b 0) ≠ 0#32 ∧ hdrB b 1 ≠ 10#8) := by
        rw [hd.2.1]; intro h; exact h.1 rfl
      have hd' := eq_true hd
      simp only [downgrade, hr, hd', hmm, Bool.not_false, Bool.false_eq_true, if_true, if_false, and_self, ne_eq,
        not_false_eq_true]
      recv_rest
    · simp only [downgrade, hr, hd, Bool.not_false, Bool.false_eq_true, if_true, if_false]
      by_cases hm : BitVec.setWidth 32 (hdrB b 0) ≠ s.version ∧ hdrB b 1 ≠ 10#8
      · simp only [hm, ne_eq, not_false_eq_true, and_self, if_true, sendReport, echo8_eq, List.cons_append, List.nil_append]
        exact agrees_mk _ _ _ _ _ _ (fun a (ha : a < msize) => stk_buf _ _ _ _ (by omega))
      · simp only [hm, if_false]
        recv_rest
  · simp only [downgrade, hr, Bool.not_true, Bool.false_eq_true, if_true, if_false]
    by_cases hm : BitVec.setWidth 32 (hdrB b 0) ≠ s.version ∧ hdrB b 1 ≠ 10#8
    · simp only [hm, ne_eq, not_false_eq_true, and_self, if_true, sendReport, echo8_eq, List.cons_append, List.nil_append]
      exact agrees_mk _ _ _ _ _ _ (fun a (ha : a < msize) => stk_buf _ _ _ _ (by omega))
    · simp only [hm, if_false]
      recv_rest


/-! ## consequences -/

/-- `w'` is `w` after exactly the external calls `cs` (the k-th of them answered by `w.ext (w.n + k)`) -/
def Calls (w w' : XW) (cs : List Call) : Prop :=
  w'.trace = w.trace ++ cs ∧ w'.n = w.n + cs.length ∧ w'.ext = w.ext

theorem Calls.refl (w : XW) : Calls w w [] := ⟨by simp, by simp, rfl⟩
theorem Calls.push {w w' : XW} {cs : List Call} (h : Calls w w' cs) (name : String) (args : List (BitVec 64)) (s : Sock) :
    Calls w (push w' name args s) (cs ++ [(name, args, s)]) := by
  obtain ⟨h1, h2, h3⟩ := h
  refine ⟨?_, ?_, ?_⟩
  · show w'.trace ++ _ = _; rw [h1, List.append_assoc]
  · show w'.n + 1 = _; rw [h2, List.length_append]; simp; omega
  · exact h3

theorem calls_reportFatal {w w' : XW} {cs : List Call} (h : Calls w w' cs) (code txt : BitVec 64) (b : List (BitVec 8))
    (s : Sock) (m : Mem) : Calls w (reportFatal w' cs code txt b s m).w (reportFatal w' cs code txt b s m).calls := by
  have := (h.push "rtr_send_error_pdu_from_network" ([8#64, code, txt] ++ echo8 b) s).push "rtr_change_socket_state" [7#64] s
  rw [List.append_assoc] at this
  exact this

theorem calls_transportErr {w w' : XW} {cs : List Call} (h : Calls w w' cs) (rc : BitVec 32) (s : Sock) (m : Mem) :
    Calls w (transportErr rc w' cs s m).w (transportErr rc w' cs s m).calls := by
  unfold transportErr
  repeat' split
  all_goals first | exact h | exact h.push _ _ _

theorem calls_finish {w w' : XW} {cs : List Call} (h : Calls w w' cs) (s : Sock) (m : Mem) (msize pdu : Nat)
    (b b2 : List (BitVec 8)) : Calls w (finish w' cs s m msize pdu b b2).w (finish w' cs s m msize pdu b b2).calls := by
  unfold finish
  split
  · exact h.push _ _ _
  · exact calls_reportFatal h _ _ _ _ _

/-- the model's list of calls is what happened to the world -/
theorem recvModel_calls (w : XW) (mem : Mem) (msize : Nat) (s : Sock) (pdu : Nat) (timeout : BitVec 64) :
    Calls w (recvModel w mem msize s pdu timeout).w (recvModel w mem msize s pdu timeout).calls := by
  have h1 : Calls w (push w "tr_recv_all" [8#64, timeout] s) [recv1 timeout s] := (Calls.refl w).push _ _ _
  unfold recvModel
  simp only []
  split
  · exact Calls.refl w
  split
  · exact calls_transportErr h1 _ _ _
  split
  · exact calls_reportFatal h1 _ _ _ _ _
  split
  · exact calls_reportFatal h1 _ _ _ _ _
  split
  · exact h1.push _ _ _
  split
  · exact calls_finish h1 _ _ _ _ _ _
  split
  · exact h1
  have h2 := h1.push "tr_recv_all" [BitVec.ofNat 64 (lenField (w.ext w.n).buf - 8), 60#64] (downgrade s (w.ext w.n).buf)
  split
  · exact calls_transportErr h2 _ _ _
  · exact calls_finish h2 _ _ _ _ _ _


/-! ### the model, case by case -/

theorem downgrade_state (s : Sock) (b : List (BitVec 8)) : (downgrade s b).state = s.state := by
  unfold downgrade; repeat' split
  all_goals rfl

/-- a PDU of 8 bytes has no payload: whatever a second answer would be -/
theorem rawOf_nil (b b2 : List (BitVec 8)) (h : lenField b = 8) : rawOf b [] = rawOf b b2 := by
  unfold rawOf takeD; rw [h]; rfl

section cases
variable (w : XW) (mem : Mem) (msize : Nat) (s : Sock) (pdu : Nat) (timeout : BitVec 64)

/-- the first answer of the world: the eight header bytes and the return code of the first receive -/
abbrev hdr1 : List (BitVec 8) := (w.ext w.n).buf
abbrev rc1 : BitVec 32 := BitVec.setWidth 32 (w.ext w.n).rc
/-- the second answer: payload bytes and return code of the second receive -/
abbrev pay2 : List (BitVec 8) := (w.ext (w.n + 1)).buf
abbrev rc2 : BitVec 32 := BitVec.setWidth 32 (w.ext (w.n + 1)).rc
/-- the socket after the live-downgrade step -/
abbrev sock1 : Sock := downgrade s (hdr1 w)
/-- the version check fails -/
def Mismatch : Prop := BitVec.setWidth 32 (hdrB (hdr1 w) 0) ≠ (sock1 w s).version ∧ hdrB (hdr1 w) 1 ≠ 10#8
instance : Decidable (Mismatch w s) := by unfold Mismatch; exact inferInstance
/-- the world after the first / second receive -/
abbrev world1 : XW := push w "tr_recv_all" [8#64, timeout] s
abbrev world2 : XW := push (world1 w s timeout) "tr_recv_all" [BitVec.ofNat 64 (lenField (hdr1 w) - 8), 60#64] (sock1 w s)
abbrev buf1 : Mem := C.memFill mem pdu 8 (hdr1 w)
abbrev buf2 : Mem := C.memFill (buf1 w mem pdu) (pdu + 8) (lenField (hdr1 w) - 8) (pay2 w)

/-- EVERY run of the model is one of these eight -/
theorem recvModel_cases :
    (s.state = 9#32 ∧ recvModel w mem msize s pdu timeout = ⟨4294967295#32, s, mem, w, []⟩) ∨
    (s.state ≠ 9#32 ∧ (rc1 w).slt 0#32 = true ∧
      recvModel w mem msize s pdu timeout =
        transportErr (rc1 w) (world1 w s timeout) [recv1 timeout s] s (buf1 w mem pdu)) ∨
    (s.state ≠ 9#32 ∧ (rc1 w).slt 0#32 = false ∧ lenField (hdr1 w) < 8 ∧
      recvModel w mem msize s pdu timeout =
        reportFatal (world1 w s timeout) [recv1 timeout s] 0#64 56#64 (hdr1 w) s (buf1 w mem pdu)) ∨
    (s.state ≠ 9#32 ∧ (rc1 w).slt 0#32 = false ∧ 3248 < lenField (hdr1 w) ∧
      recvModel w mem msize s pdu timeout =
        reportFatal (world1 w s timeout) [recv1 timeout s] 0#64 42#64 (hdr1 w) s (buf1 w mem pdu)) ∨
    (s.state ≠ 9#32 ∧ (rc1 w).slt 0#32 = false ∧ 8 ≤ lenField (hdr1 w) ∧ lenField (hdr1 w) ≤ 3248 ∧ Mismatch w s ∧
      recvModel w mem msize s pdu timeout =
        ⟨4294967295#32, sock1 w s, buf1 w mem pdu, sendReport (world1 w s timeout) 8#64 0#64 (hdr1 w) (sock1 w s),
          [recv1 timeout s, reportCall 8#64 0#64 (hdr1 w) (sock1 w s)]⟩) ∨
    (s.state ≠ 9#32 ∧ (rc1 w).slt 0#32 = false ∧ lenField (hdr1 w) = 8 ∧ ¬ Mismatch w s ∧
      recvModel w mem msize s pdu timeout =
        finish (world1 w s timeout) [recv1 timeout s] (sock1 w s) (buf1 w mem pdu) msize pdu (hdr1 w) (pay2 w)) ∨
    (s.state ≠ 9#32 ∧ (rc1 w).slt 0#32 = false ∧ 8 < lenField (hdr1 w) ∧ lenField (hdr1 w) ≤ 3248 ∧ ¬ Mismatch w s ∧
      (rc2 w).slt 0#32 = true ∧
      recvModel w mem msize s pdu timeout =
        transportErr (rc2 w) (world2 w s timeout) [recv1 timeout s, recv2 (hdr1 w) (sock1 w s)] (sock1 w s)
          (buf2 w mem pdu)) ∨
    (s.state ≠ 9#32 ∧ (rc1 w).slt 0#32 = false ∧ 8 < lenField (hdr1 w) ∧ lenField (hdr1 w) ≤ 3248 ∧ ¬ Mismatch w s ∧
      (rc2 w).slt 0#32 = false ∧
      recvModel w mem msize s pdu timeout =
        finish (world2 w s timeout) [recv1 timeout s, recv2 (hdr1 w) (sock1 w s)] (sock1 w s) (buf2 w mem pdu) msize pdu
          (hdr1 w) (pay2 w)) := by
  unfold recvModel Mismatch
  simp only []
  by_cases hs : s.state = 9#32
  · exact Or.inl ⟨hs, by rw [if_pos hs]⟩
  refine Or.inr ?_
  rw [if_neg hs]
  by_cases hneg : (rc1 w).slt 0#32 = true
  · exact Or.inl ⟨hs, hneg, by rw [if_pos hneg]⟩
  refine Or.inr ?_
  rw [if_neg hneg]
  have hneg' : (rc1 w).slt 0#32 = false := by simpa using hneg
  by_cases h8 : lenField (hdr1 w) < 8
  · exact Or.inl ⟨hs, hneg', h8, by rw [if_pos h8]⟩
  refine Or.inr ?_
  rw [if_neg h8]
  by_cases hmax : 3248 < lenField (hdr1 w)
  · exact Or.inl ⟨hs, hneg', hmax, by rw [if_pos hmax]⟩
  refine Or.inr ?_
  rw [if_neg hmax]
  by_cases hm : BitVec.setWidth 32 (hdrB (hdr1 w) 0) ≠ (sock1 w s).version ∧ hdrB (hdr1 w) 1 ≠ 10#8
  · exact Or.inl ⟨hs, hneg', by omega, by omega, hm, by rw [if_pos hm]⟩
  refine Or.inr ?_
  rw [if_neg hm]
  by_cases hl : lenField (hdr1 w) = 8
  · refine Or.inl ⟨hs, hneg', hl, hm, ?_⟩
    rw [if_pos hl]; unfold finish; rw [rawOf_nil _ (pay2 w) hl]
  refine Or.inr ?_
  rw [if_neg hl, if_neg (by rw [downgrade_state]; exact hs)]
  by_cases hneg2 : (rc2 w).slt 0#32 = true
  · exact Or.inl ⟨hs, hneg', by omega, by omega, hm, hneg2, if_pos hneg2⟩
  · have hneg2' : (rc2 w).slt 0#32 = false := by simpa using hneg2
    exact Or.inr ⟨hs, hneg', by omega, by omega, hm, hneg2', if_neg hneg2⟩


/-! ### the pieces of the model, field by field -/

@[simp] theorem reportFatal_rc (w : XW) (cs : List Call) (code txt : BitVec 64) (b : List (BitVec 8)) (s : Sock) (m : Mem) :
    (reportFatal w cs code txt b s m).rc = 4294967295#32 := rfl
@[simp] theorem reportFatal_mem (w : XW) (cs : List Call) (code txt : BitVec 64) (b : List (BitVec 8)) (s : Sock) (m : Mem) :
    (reportFatal w cs code txt b s m).mem = m := rfl
@[simp] theorem reportFatal_calls (w : XW) (cs : List Call) (code txt : BitVec 64) (b : List (BitVec 8)) (s : Sock)
    (m : Mem) : (reportFatal w cs code txt b s m).calls = cs ++ [reportCall code txt b s, stateCall 7#64 s] := rfl
@[simp] theorem reportFatal_sock (w : XW) (cs : List Call) (code txt : BitVec 64) (b : List (BitVec 8)) (s : Sock)
    (m : Mem) : (reportFatal w cs code txt b s m).sock = (w.ext (w.n + 1)).st := rfl

@[simp] theorem transportErr_mem (rc : BitVec 32) (w : XW) (cs : List Call) (s : Sock) (m : Mem) :
    (transportErr rc w cs s m).mem = m := by
  unfold transportErr; repeat' split
  all_goals rfl

/-- what a negative transport code `rc` leads to: return code, socket, calls (after the calls `pre` already made; `ans` is
    the socket the world answers a state change with): −1 → ERROR_TRANSPORT, RTR_ERROR; −2, −3 → handed through, nothing
    else; −4 → ERROR_FATAL, TR_CLOSED; anything else → ERROR_FATAL, RTR_ERROR -/
def TransportOutcome (rc : BitVec 32) (pre : List Call) (s ans : Sock) (ret : BitVec 32) (s' : Sock) (cs : List Call) :
    Prop :=
  (rc = 4294967295#32 → ret = 4294967295#32 ∧ s' = ans ∧ cs = pre ++ [stateCall 8#64 s]) ∧
  (rc = 4294967294#32 → ret = 4294967294#32 ∧ s' = s ∧ cs = pre) ∧
  (rc = 4294967293#32 → ret = 4294967293#32 ∧ s' = s ∧ cs = pre) ∧
  (rc = 4294967292#32 → ret = 4294967292#32 ∧ s' = ans ∧ cs = pre ++ [stateCall 7#64 s]) ∧
  (rc ≠ 4294967295#32 → rc ≠ 4294967294#32 → rc ≠ 4294967293#32 → rc ≠ 4294967292#32 →
    ret = 4294967295#32 ∧ s' = ans ∧ cs = pre ++ [stateCall 7#64 s])

theorem transportErr_outcome (rc : BitVec 32) (w : XW) (cs : List Call) (s : Sock) (m : Mem) :
    TransportOutcome rc cs s (w.ext w.n).st (transportErr rc w cs s m).rc (transportErr rc w cs s m).sock
      (transportErr rc w cs s m).calls := by
  unfold TransportOutcome transportErr
  by_cases e1 : rc = 4294967295#32
  · subst e1; simp
  by_cases e2 : rc = 4294967294#32
  · subst e2; simp
  by_cases e3 : rc = 4294967293#32
  · subst e3; simp
  by_cases e4 : rc = 4294967292#32
  · subst e4; simp
  simp [e1, e2, e3, e4]

theorem transportErr_rc_ne_zero (rc : BitVec 32) (w : XW) (cs : List Call) (s : Sock) (m : Mem) :
    (transportErr rc w cs s m).rc ≠ 0#32 := by
  unfold transportErr; repeat' split
  all_goals (simp only []; decide)

theorem finish_ok (w : XW) (cs : List Call) (s : Sock) (m : Mem) (msize pdu : Nat) (b b2 : List (BitVec 8))
    (h : checkSize (rawOf b b2) = true) : finish w cs s m msize pdu b b2 =
      ⟨0#32, s, C.memFill m pdu (msize - pdu) (w.ext w.n).buf, push w "rtr_pdu_footer_to_host_byte_order" [] s,
        cs ++ [footerCall s]⟩ := by unfold finish; rw [if_pos h]
theorem finish_bad (w : XW) (cs : List Call) (s : Sock) (m : Mem) (msize pdu : Nat) (b b2 : List (BitVec 8))
    (h : checkSize (rawOf b b2) = false) : finish w cs s m msize pdu b b2 = reportFatal w cs 0#64 56#64 b s m := by
  unfold finish; rw [if_neg (by rw [h]; decide)]

theorem transportErr_calls (rc : BitVec 32) (w : XW) (cs : List Call) (s : Sock) (m : Mem) :
    ∃ tl, (transportErr rc w cs s m).calls = cs ++ tl ∧ (tl = [] ∨ tl = [stateCall 8#64 s] ∨ tl = [stateCall 7#64 s]) := by
  unfold transportErr; repeat' split
  all_goals first
    | exact ⟨_, rfl, Or.inr (Or.inl rfl)⟩
    | exact ⟨_, rfl, Or.inr (Or.inr rfl)⟩
    | exact ⟨[], (List.append_nil _).symm, Or.inl rfl⟩

theorem finish_calls (w : XW) (cs : List Call) (s : Sock) (m : Mem) (msize pdu : Nat) (b b2 : List (BitVec 8)) :
    ∃ tl, (finish w cs s m msize pdu b b2).calls = cs ++ tl ∧
      (tl = [footerCall s] ∨ tl = [reportCall 0#64 56#64 b s, stateCall 7#64 s]) := by
  unfold finish; split
  · exact ⟨_, rfl, Or.inl rfl⟩
  · exact ⟨_, rfl, Or.inr rfl⟩


theorem transportErr_sock_cases (rc : BitVec 32) (w : XW) (cs : List Call) (s : Sock) (m : Mem) :
    ((transportErr rc w cs s m).calls = cs ∧ (transportErr rc w cs s m).sock = s) ∨
    ∃ st, (transportErr rc w cs s m).calls = cs ++ [stateCall st s] ∧ (transportErr rc w cs s m).sock = (w.ext w.n).st := by
  unfold transportErr; repeat' split
  all_goals first
    | exact Or.inl ⟨rfl, rfl⟩
    | exact Or.inr ⟨_, rfl, rfl⟩


/-! ## the theorems about `C.rtr_receive_pdu` -/

/-- the contract of the callers (`rtr_sync`, `rtr_wait_for_sync`: `char pdu[RTR_MAX_PDU_LEN]`, `sizeof(pdu)`): the buffer
    has 3248 bytes and lies below the function's own objects -/
structure Contract (msize pdu : Nat) (pdu_len : BitVec 64) : Prop where
  fits : pdu + 3248 ≤ msize
  below : msize ≤ C.STACK
  len : 3248 ≤ pdu_len.toNat

variable (pdu_len : BitVec 64)

/-- `rtr_receive_pdu` has a defined result: return code `rc`, socket `s'`, memory `m'`, and it made exactly the external
    calls `cs`; these satisfy `P` -/
def Returns (P : BitVec 32 → Sock → Mem → List Call → Prop) : Prop :=
  ∃ rc s' m' w', C.rtr_receive_pdu w mem msize s pdu pdu_len timeout = some (rc, s', m', w') ∧
    ∃ cs, Calls w w' cs ∧ P rc s' m' cs

variable {msize pdu pdu_len}

/-- THE LINK: under the contract, the translated C function does what `recvModel` does - for every world, socket, memory -/
theorem returns_of_model (H : Contract msize pdu pdu_len) (P : BitVec 32 → Sock → Mem → List Call → Prop)
    (hP : ∀ m', (∀ a, a < msize → m' a = (recvModel w mem msize s pdu timeout).mem a) →
      P (recvModel w mem msize s pdu timeout).rc (recvModel w mem msize s pdu timeout).sock m'
        (recvModel w mem msize s pdu timeout).calls) :
    Returns w mem msize s pdu timeout pdu_len P := by
  obtain ⟨m', e, hm⟩ := receive_pdu_eq_model w mem msize s pdu pdu_len timeout H.fits H.below H.len
  exact ⟨_, _, m', _, e, _, recvModel_calls w mem msize s pdu timeout, hP m' hm⟩

/-- **Phase 1 (C04).** Under the contract the translated function never leaves the defined fragment of C: whatever the
    transport delivers (any bytes, any length field 0 … 2^32−1, any nested lengths of an Error Report, any return codes),
    whatever the other callees answer, whatever the buffer held - no out-of-bounds access (every access is guarded by the
    bounds of the caller's 3248-byte buffer or of the function's own header copy), no overflow, no failed assertion. -/
theorem receive_pdu_defined (H : Contract msize pdu pdu_len) :
    C.rtr_receive_pdu w mem msize s pdu pdu_len timeout ≠ none := by
  obtain ⟨m', e, _⟩ := receive_pdu_eq_model w mem msize s pdu pdu_len timeout H.fits H.below H.len
  rw [e]; exact Option.some_ne_none _

/-- **Phase 2 (C04): what is asked of the transport.** -/
theorem receive_pdu_lengths (H : Contract msize pdu pdu_len) (hs : s.state ≠ 9#32) :
    Returns w mem msize s pdu timeout pdu_len (fun rc _ _ cs =>
      -- the first call asks for exactly the 8 header bytes, with the caller's timeout
      (∃ rest, cs = recv1 timeout s :: rest) ∧
      -- a length field below 8 or above 3248: no further receive; Error Report, ERROR_FATAL, RTR_ERROR
      ((rc1 w).slt 0#32 = false → (lenField (hdr1 w) < 8 ∨ 3248 < lenField (hdr1 w)) →
        rc = 4294967295#32 ∧
        cs = [recv1 timeout s, reportCall 0#64 (if lenField (hdr1 w) < 8 then 56#64 else 42#64) (hdr1 w) s,
          stateCall 7#64 s]) ∧
      -- otherwise, if the version check passes: exactly one more receive, for exactly the rest, iff there is a rest
      ((rc1 w).slt 0#32 = false → 8 ≤ lenField (hdr1 w) → lenField (hdr1 w) ≤ 3248 → ¬ Mismatch w s →
        (lenField (hdr1 w) = 8 → ∀ c ∈ cs.tail, c.1 ≠ "tr_recv_all") ∧
        (8 < lenField (hdr1 w) → ∃ rest, cs = recv1 timeout s :: recv2 (hdr1 w) (sock1 w s) :: rest ∧
          ∀ c ∈ rest, c.1 ≠ "tr_recv_all")) ∧
      -- in every other case the first receive is the only one
      (((rc1 w).slt 0#32 = true ∨ lenField (hdr1 w) < 8 ∨ 3248 < lenField (hdr1 w) ∨ Mismatch w s) →
        ∀ c ∈ cs.tail, c.1 ≠ "tr_recv_all")) := by
  apply returns_of_model w mem s timeout H
  intro m' _
  rcases recvModel_cases w mem msize s pdu timeout with
    ⟨h, _⟩ | ⟨_, hneg, e⟩ | ⟨_, hneg, hl, e⟩ | ⟨_, hneg, hl, e⟩ | ⟨_, hneg, h8, hmax, hm, e⟩ | ⟨_, hneg, hl, hm, e⟩ |
    ⟨_, hneg, h8, hmax, hm, hneg2, e⟩ | ⟨_, hneg, h8, hmax, hm, hneg2, e⟩
  · exact absurd h hs
  · rw [e]
    obtain ⟨tl, etl, htl⟩ := transportErr_calls (rc1 w) (world1 w s timeout) [recv1 timeout s] s (buf1 w mem pdu)
    rw [etl]
    refine ⟨⟨tl, rfl⟩, ?_, ?_, ?_⟩
    · intro h; rw [hneg] at h; cases h
    · intro h; rw [hneg] at h; cases h
    · intro _; rcases htl with rfl | rfl | rfl <;> simp [stateCall]
  · rw [e]
    refine ⟨⟨_, rfl⟩, ?_, ?_, ?_⟩
    · intro _ _; simp [hl]
    · intro _ h; omega
    · intro _; simp [reportCall, stateCall]
  · rw [e]
    refine ⟨⟨_, rfl⟩, ?_, ?_, ?_⟩
    · intro _ _; have : ¬ lenField (hdr1 w) < 8 := by omega
      simp [this]
    · intro _ _ h; omega
    · intro _; simp [reportCall, stateCall]
  · rw [e]
    refine ⟨⟨_, rfl⟩, ?_, ?_, ?_⟩
    · intro _ h; omega
    · intro _ _ _ h; exact absurd hm h
    · intro _; simp [reportCall]
  · rw [e]
    obtain ⟨tl, etl, htl⟩ := finish_calls (world1 w s timeout) [recv1 timeout s] (sock1 w s) (buf1 w mem pdu) msize pdu
      (hdr1 w) (pay2 w)
    rw [etl]
    refine ⟨⟨tl, rfl⟩, ?_, ?_, ?_⟩
    · intro _ h; omega
    · intro _ _ _ _
      refine ⟨fun _ => ?_, fun h => by omega⟩
      rcases htl with rfl | rfl <;> simp [footerCall, reportCall, stateCall]
    · intro h; rcases h with h | h | h | h
      · rw [hneg] at h; cases h
      · omega
      · omega
      · exact absurd h hm
  · rw [e]
    obtain ⟨tl, etl, htl⟩ := transportErr_calls (rc2 w) (world2 w s timeout)
      [recv1 timeout s, recv2 (hdr1 w) (sock1 w s)] (sock1 w s) (buf2 w mem pdu)
    rw [etl]
    refine ⟨⟨_, rfl⟩, ?_, ?_, ?_⟩
    · intro _ h; omega
    · intro _ _ _ _
      refine ⟨fun h => by omega, fun _ => ⟨tl, rfl, ?_⟩⟩
      rcases htl with rfl | rfl | rfl <;> simp [stateCall]
    · intro h; rcases h with h | h | h | h
      · rw [hneg] at h; cases h
      · omega
      · omega
      · exact absurd h hm
  · rw [e]
    obtain ⟨tl, etl, htl⟩ := finish_calls (world2 w s timeout) [recv1 timeout s, recv2 (hdr1 w) (sock1 w s)] (sock1 w s)
      (buf2 w mem pdu) msize pdu (hdr1 w) (pay2 w)
    rw [etl]
    refine ⟨⟨_, rfl⟩, ?_, ?_, ?_⟩
    · intro _ h; omega
    · intro _ _ _ _
      refine ⟨fun h => by omega, fun _ => ⟨tl, rfl, ?_⟩⟩
      rcases htl with rfl | rfl <;> simp [footerCall, reportCall, stateCall]
    · intro h; rcases h with h | h | h | h
      · rw [hneg] at h; cases h
      · omega
      · omega
      · exact absurd h hm
/-- **Phase 3 (C08/C04): transport errors.** -/
theorem receive_pdu_transport_errors (H : Contract msize pdu pdu_len) (hs : s.state ≠ 9#32) :
    Returns w mem msize s pdu timeout pdu_len (fun rc s' m' cs =>
      -- a negative answer of the first receive
      ((rc1 w).slt 0#32 = true →
        TransportOutcome (rc1 w) [recv1 timeout s] s (w.ext (w.n + 1)).st rc s' cs ∧
        (∀ a, a < msize → m' a = buf1 w mem pdu a) ∧
        ∀ c ∈ cs, c.1 ≠ "rtr_send_error_pdu_from_network") ∧
      -- a negative answer of the second receive (which is made exactly under these conditions: `receive_pdu_lengths`)
      ((rc1 w).slt 0#32 = false → 8 < lenField (hdr1 w) → lenField (hdr1 w) ≤ 3248 → ¬ Mismatch w s →
        (rc2 w).slt 0#32 = true →
        TransportOutcome (rc2 w) [recv1 timeout s, recv2 (hdr1 w) (sock1 w s)] (sock1 w s) (w.ext (w.n + 2)).st rc s' cs ∧
        (∀ a, a < msize → m' a = buf2 w mem pdu a) ∧
        ∀ c ∈ cs, c.1 ≠ "rtr_send_error_pdu_from_network")) := by
  apply returns_of_model w mem s timeout H
  intro m' hmem
  rcases recvModel_cases w mem msize s pdu timeout with
    ⟨h, _⟩ | ⟨_, hneg, e⟩ | ⟨_, hneg, hl, e⟩ | ⟨_, hneg, hl, e⟩ | ⟨_, hneg, h8, hmax, hm, e⟩ | ⟨_, hneg, hl, hm, e⟩ |
    ⟨_, hneg, h8, hmax, hm, hneg2, e⟩ | ⟨_, hneg, h8, hmax, hm, hneg2, e⟩
  · exact absurd h hs
  · rw [e] at hmem ⊢
    refine ⟨fun _ => ⟨transportErr_outcome _ _ _ _ _, ?_, ?_⟩, fun h => by rw [hneg] at h; cases h⟩
    · intro a ha; rw [hmem a ha, transportErr_mem]
    · obtain ⟨tl, etl, htl⟩ := transportErr_calls (rc1 w) (world1 w s timeout) [recv1 timeout s] s (buf1 w mem pdu)
      rw [etl]; rcases htl with rfl | rfl | rfl <;> simp [recv1, stateCall]
  · exact ⟨fun h => (by rw [hneg] at h; cases h), fun _ h => by omega⟩
  · exact ⟨fun h => (by rw [hneg] at h; cases h), fun _ _ h => by omega⟩
  · exact ⟨fun h => (by rw [hneg] at h; cases h), fun _ _ _ h => absurd hm h⟩
  · exact ⟨fun h => (by rw [hneg] at h; cases h), fun _ h => by omega⟩
  · rw [e] at hmem ⊢
    refine ⟨fun h => (by rw [hneg] at h; cases h), fun _ _ _ _ _ => ⟨transportErr_outcome _ _ _ _ _, ?_, ?_⟩⟩
    · intro a ha; rw [hmem a ha, transportErr_mem]
    · obtain ⟨tl, etl, htl⟩ := transportErr_calls (rc2 w) (world2 w s timeout)
        [recv1 timeout s, recv2 (hdr1 w) (sock1 w s)] (sock1 w s) (buf2 w mem pdu)
      rw [etl]; rcases htl with rfl | rfl | rfl <;> simp [recv1, recv2, stateCall]
  · exact ⟨fun h => (by rw [hneg] at h; cases h), fun _ _ _ _ h => by rw [hneg2] at h; cases h⟩

/-! ### Phase 4 (C13): the version -/

/-- the live-downgrade step changes nothing but `version` and `has_received_pdus`; `version` changes in exactly one
    situation - first PDU of the connection, socket at version 1, header version 0, not an Error Report - and then
    becomes 0 -/
theorem downgrade_spec (s : Sock) (b : List (BitVec 8)) :
    downgrade s b = { s with
      version := if s.has_received_pdus = false ∧ s.version = 1#32 ∧ hdrB b 0 = 0#8 ∧ hdrB b 1 ≠ 10#8 then 0#32
        else s.version,
      has_received_pdus := true } := by
  unfold downgrade
  rcases hr : s.has_received_pdus with _ | _
  · by_cases hd : s.version = 1#32 ∧ hdrB b 0 = 0#8 ∧ hdrB b 1 ≠ 10#8
    · simp [hd]
    · simp [hd]
  · cases s; simp_all

theorem downgrade_version_le (s : Sock) (b : List (BitVec 8)) : (downgrade s b).version ≤ s.version := by
  rw [downgrade_spec]
  simp only []
  split
  · rename_i h; rw [h.2.1]; decide
  · exact BitVec.le_refl _

/-- **Phase 4 (C13).** After a header with an acceptable length field arrived: -/
theorem receive_pdu_version (H : Contract msize pdu pdu_len) (hs : s.state ≠ 9#32) (hneg : (rc1 w).slt 0#32 = false)
    (h8 : 8 ≤ lenField (hdr1 w)) (hmax : lenField (hdr1 w) ≤ 3248) :
    Returns w mem msize s pdu timeout pdu_len (fun rc s' m' cs =>
      -- every later call is made with the socket after the downgrade step (`downgrade_spec`)
      (∀ c ∈ cs.tail, c.2.2 = sock1 w s) ∧
      -- header version ≠ (possibly downgraded) socket version, not an Error Report: report code 8, RTR_ERROR, and
      -- nothing else - no payload receive, no state change by this function (it returns before that call)
      (Mismatch w s → rc = 4294967295#32 ∧ s' = sock1 w s ∧
        cs = [recv1 timeout s, reportCall 8#64 0#64 (hdr1 w) (sock1 w s)] ∧ ∀ a, a < msize → m' a = buf1 w mem pdu a) ∧
      -- otherwise the socket returned is that socket, unless a state change was requested: then what that call left
      (¬ Mismatch w s → s' = sock1 w s ∨
        ∃ st k, cs[k]? = some (stateCall st (sock1 w s)) ∧ k + 1 = cs.length ∧ s' = (w.ext (w.n + k)).st)) := by
  apply returns_of_model w mem s timeout H
  intro m' hmem
  rcases recvModel_cases w mem msize s pdu timeout with
    ⟨h, _⟩ | ⟨_, hneg', e⟩ | ⟨_, _, hl, e⟩ | ⟨_, _, hl, e⟩ | ⟨_, _, _, _, hm, e⟩ | ⟨_, _, hl, hm, e⟩ |
    ⟨_, _, _, _, hm, hneg2, e⟩ | ⟨_, _, _, _, hm, hneg2, e⟩
  · exact absurd h hs
  · rw [hneg] at hneg'; cases hneg'
  · omega
  · omega
  · rw [e] at hmem ⊢
    refine ⟨by simp [reportCall], fun _ => ⟨rfl, rfl, rfl, hmem⟩, fun h => absurd hm h⟩
  · rw [e] at hmem ⊢
    refine ⟨?_, fun h => absurd h hm, fun _ => ?_⟩
    · obtain ⟨tl, etl, htl⟩ := finish_calls (world1 w s timeout) [recv1 timeout s] (sock1 w s) (buf1 w mem pdu) msize pdu
        (hdr1 w) (pay2 w)
      rw [etl]; rcases htl with rfl | rfl <;> simp [footerCall, reportCall, stateCall]
    · cases hc : checkSize (rawOf (hdr1 w) (pay2 w))
      · rw [finish_bad _ _ _ _ _ _ _ _ hc]
        exact Or.inr ⟨7#64, 2, rfl, rfl, rfl⟩
      · rw [finish_ok _ _ _ _ _ _ _ _ hc]
        exact Or.inl rfl
  · rw [e] at hmem ⊢
    obtain ⟨tl, etl, htl⟩ := transportErr_calls (rc2 w) (world2 w s timeout)
      [recv1 timeout s, recv2 (hdr1 w) (sock1 w s)] (sock1 w s) (buf2 w mem pdu)
    have ho := transportErr_outcome (rc2 w) (world2 w s timeout)
      [recv1 timeout s, recv2 (hdr1 w) (sock1 w s)] (sock1 w s) (buf2 w mem pdu)
    refine ⟨?_, fun h => absurd h hm, fun _ => ?_⟩
    · rw [etl]; rcases htl with rfl | rfl | rfl <;> simp [recv2, stateCall]
    · obtain ⟨o1, o2, o3, o4, o5⟩ := ho
      by_cases e1 : rc2 w = 4294967295#32
      · obtain ⟨_, a2, a3⟩ := o1 e1
        rw [a2, a3]; exact Or.inr ⟨8#64, 2, rfl, rfl, rfl⟩
      by_cases e2 : rc2 w = 4294967294#32
      · exact Or.inl (o2 e2).2.1
      by_cases e3 : rc2 w = 4294967293#32
      · exact Or.inl (o3 e3).2.1
      by_cases e4 : rc2 w = 4294967292#32
      · obtain ⟨_, a2, a3⟩ := o4 e4
        rw [a2, a3]; exact Or.inr ⟨7#64, 2, rfl, rfl, rfl⟩
      · obtain ⟨_, a2, a3⟩ := o5 e1 e2 e3 e4
        rw [a2, a3]; exact Or.inr ⟨7#64, 2, rfl, rfl, rfl⟩
  · rw [e] at hmem ⊢
    refine ⟨?_, fun h => absurd h hm, fun _ => ?_⟩
    · obtain ⟨tl, etl, htl⟩ := finish_calls (world2 w s timeout) [recv1 timeout s, recv2 (hdr1 w) (sock1 w s)]
        (sock1 w s) (buf2 w mem pdu) msize pdu (hdr1 w) (pay2 w)
      rw [etl]; rcases htl with rfl | rfl <;> simp [recv2, footerCall, reportCall, stateCall]
    · cases hc : checkSize (rawOf (hdr1 w) (pay2 w))
      · rw [finish_bad _ _ _ _ _ _ _ _ hc]
        exact Or.inr ⟨7#64, 3, rfl, rfl, rfl⟩
      · rw [finish_ok _ _ _ _ _ _ _ _ hc]
        exact Or.inl rfl
/-- is this call an Error Report? -/
def isReport (c : Call) : Bool := c.1 == "rtr_send_error_pdu_from_network"

/-- **Phase 5 (C14): the echo.** -/
theorem receive_pdu_echo (H : Contract msize pdu pdu_len) :
    Returns w mem msize s pdu timeout pdu_len (fun _ _ _ cs =>
      (∀ c ∈ cs, isReport c = true →
        (lenField (hdr1 w) < 8 ∧ c = reportCall 0#64 56#64 (hdr1 w) s) ∨
        (3248 < lenField (hdr1 w) ∧ c = reportCall 0#64 42#64 (hdr1 w) s) ∨
        (8 ≤ lenField (hdr1 w) ∧ lenField (hdr1 w) ≤ 3248 ∧ Mismatch w s ∧
          c = reportCall 8#64 0#64 (hdr1 w) (sock1 w s)) ∨
        (8 ≤ lenField (hdr1 w) ∧ lenField (hdr1 w) ≤ 3248 ∧ ¬ Mismatch w s ∧
          checkSize (rawOf (hdr1 w) (pay2 w)) = false ∧ c = reportCall 0#64 56#64 (hdr1 w) (sock1 w s))) ∧
      (cs.filter isReport).length ≤ 1) := by
  apply returns_of_model w mem s timeout H
  intro m' _
  rcases recvModel_cases w mem msize s pdu timeout with
    ⟨h, e⟩ | ⟨_, hneg, e⟩ | ⟨_, hneg, hl, e⟩ | ⟨_, hneg, hl, e⟩ | ⟨_, hneg, h8, hmax, hm, e⟩ | ⟨_, hneg, hl, hm, e⟩ |
    ⟨_, hneg, h8, hmax, hm, hneg2, e⟩ | ⟨_, hneg, h8, hmax, hm, hneg2, e⟩
  · rw [e]; simp
  · rw [e]
    obtain ⟨tl, etl, htl⟩ := transportErr_calls (rc1 w) (world1 w s timeout) [recv1 timeout s] s (buf1 w mem pdu)
    rw [etl]; rcases htl with rfl | rfl | rfl <;> simp [isReport, recv1, stateCall]
  · rw [e]; simp [isReport, recv1, stateCall, hl]; simp [reportCall, isReport]
  · rw [e]; simp [isReport, recv1, stateCall, hl]; simp [reportCall, isReport]
  · rw [e]; simp [isReport, recv1, hm, h8, hmax]; simp [reportCall, isReport]
  · rw [e]
    cases hc : checkSize (rawOf (hdr1 w) (pay2 w))
    · rw [finish_bad _ _ _ _ _ _ _ _ hc]
      simp [isReport, recv1, stateCall, hm, hl, hc]; simp [reportCall, isReport]
    · rw [finish_ok _ _ _ _ _ _ _ _ hc]
      simp [isReport, recv1, footerCall]
  · rw [e]
    obtain ⟨tl, etl, htl⟩ := transportErr_calls (rc2 w) (world2 w s timeout)
      [recv1 timeout s, recv2 (hdr1 w) (sock1 w s)] (sock1 w s) (buf2 w mem pdu)
    rw [etl]; rcases htl with rfl | rfl | rfl <;> simp [isReport, recv1, recv2, stateCall]
  · rw [e]
    cases hc : checkSize (rawOf (hdr1 w) (pay2 w))
    · rw [finish_bad _ _ _ _ _ _ _ _ hc]
      have : 8 ≤ lenField (hdr1 w) := by omega
      simp [isReport, recv1, recv2, stateCall, hm, this, hmax, hc]; simp [reportCall, isReport]
    · rw [finish_ok _ _ _ _ _ _ _ _ hc]
      simp [isReport, recv1, recv2, footerCall]

theorem rawOf_length (b b2 : List (BitVec 8)) (h : 8 ≤ lenField b) : (rawOf b b2).length = lenField b := by
  unfold rawOf; rw [List.length_map, List.length_append, takeD_length, takeD_length]; omega

/-- the conditions under which `rtr_receive_pdu` delivers a PDU -/
def Delivers : Prop :=
  s.state ≠ 9#32 ∧ (rc1 w).slt 0#32 = false ∧ 8 ≤ lenField (hdr1 w) ∧ lenField (hdr1 w) ≤ 3248 ∧ ¬ Mismatch w s ∧
    (8 < lenField (hdr1 w) → (rc2 w).slt 0#32 = false) ∧ checkSize (rawOf (hdr1 w) (pay2 w)) = true

/-- **Phase 6 (C04/C14): success.** -/
theorem receive_pdu_success (H : Contract msize pdu pdu_len) :
    Returns w mem msize s pdu timeout pdu_len (fun rc s' m' cs =>
      (rc = 0#32 ↔ Delivers w s) ∧
      (rc = 0#32 →
        KnownSize (rawOf (hdr1 w) (pay2 w)) ∧ (rawOf (hdr1 w) (pay2 w)).length = lenField (hdr1 w) ∧
        s' = sock1 w s ∧
        cs = recv1 timeout s :: ((if 8 < lenField (hdr1 w) then [recv2 (hdr1 w) (sock1 w s)] else []) ++
          [footerCall (sock1 w s)]) ∧
        ∀ a, a < msize → m' a =
          C.memFill (if 8 < lenField (hdr1 w) then buf2 w mem pdu else buf1 w mem pdu) pdu (msize - pdu)
            (w.ext (w.n + (if 8 < lenField (hdr1 w) then 2 else 1))).buf a)) := by
  apply returns_of_model w mem s timeout H
  intro m' hmem
  unfold Delivers
  rcases recvModel_cases w mem msize s pdu timeout with
    ⟨h, e⟩ | ⟨_, hneg, e⟩ | ⟨_, hneg, hl, e⟩ | ⟨_, hneg, hl, e⟩ | ⟨_, hneg, h8, hmax, hm, e⟩ | ⟨hs, hneg, hl, hm, e⟩ |
    ⟨_, hneg, h8, hmax, hm, hneg2, e⟩ | ⟨hs, hneg, h8, hmax, hm, hneg2, e⟩
  · rw [e]; simp [h]
  · rw [e]
    have := transportErr_rc_ne_zero (rc1 w) (world1 w s timeout) [recv1 timeout s] s (buf1 w mem pdu)
    simp [this, hneg]
  · rw [e]; simp; omega
  · rw [e]; simp; omega
  · rw [e]; simp [hm]
  · rw [e] at hmem ⊢
    cases hc : checkSize (rawOf (hdr1 w) (pay2 w))
    · rw [finish_bad _ _ _ _ _ _ _ _ hc]; simp
    · rw [finish_ok _ _ _ _ _ _ _ _ hc] at hmem ⊢
      have h8 : ¬ 8 < lenField (hdr1 w) := by omega
      refine ⟨⟨fun _ => ⟨hs, hneg, by omega, by omega, hm, fun h => absurd h h8, rfl⟩, fun _ => rfl⟩, fun _ => ?_⟩
      refine ⟨(checkSize_spec _).mp hc, rawOf_length _ _ (by omega), rfl, ?_, ?_⟩
      · simp [h8]
      · intro a ha; rw [hmem a ha]; simp only [h8, if_false]; rfl
  · rw [e]
    have := transportErr_rc_ne_zero (rc2 w) (world2 w s timeout) [recv1 timeout s, recv2 (hdr1 w) (sock1 w s)]
      (sock1 w s) (buf2 w mem pdu)
    simp [this, hneg2, h8]
  · rw [e] at hmem ⊢
    cases hc : checkSize (rawOf (hdr1 w) (pay2 w))
    · rw [finish_bad _ _ _ _ _ _ _ _ hc]; simp
    · rw [finish_ok _ _ _ _ _ _ _ _ hc] at hmem ⊢
      refine ⟨⟨fun _ => ⟨hs, hneg, by omega, by omega, hm, fun _ => hneg2, rfl⟩, fun _ => rfl⟩, fun _ => ?_⟩
      refine ⟨(checkSize_spec _).mp hc, rawOf_length _ _ (by omega), rfl, ?_, ?_⟩
      · simp [h8]
      · intro a ha; rw [hmem a ha]; simp only [h8, if_true]; rfl

/-- **Frame (C04).** Nothing below the caller's buffer is written; unless a PDU is delivered, nothing behind its 3248 bytes
    either (on success the translation lets `rtr_pdu_footer_to_host_byte_order` - not translated - write the whole object
    `[pdu, msize)`). -/
theorem receive_pdu_frame (H : Contract msize pdu pdu_len) :
    Returns w mem msize s pdu timeout pdu_len (fun rc _ m' _ =>
      (∀ a, a < pdu → m' a = mem a) ∧
      (rc ≠ 0#32 → ∀ a, pdu + max 8 (min (lenField (hdr1 w)) 3248) ≤ a → a < msize → m' a = mem a)) := by
  apply returns_of_model w mem s timeout H
  intro m' hmem
  have hf1 : ∀ a, a < pdu ∨ pdu + 8 ≤ a → buf1 w mem pdu a = mem a := fun a ha => memFill_out _ _ _ _ _ ha
  have hf2 : ∀ a, a < pdu ∨ pdu + 8 + (lenField (hdr1 w) - 8) ≤ a → buf2 w mem pdu a = mem a := fun a ha => by
    show C.memFill _ _ _ _ a = _
    rw [memFill_out _ _ _ _ _ (by omega)]; exact hf1 a (by omega)
  have hfit := H.fits
  rcases recvModel_cases w mem msize s pdu timeout with
    ⟨h, e⟩ | ⟨_, hneg, e⟩ | ⟨_, hneg, hl, e⟩ | ⟨_, hneg, hl, e⟩ | ⟨_, hneg, h8, hmax, hm, e⟩ | ⟨hs, hneg, hl, hm, e⟩ |
    ⟨_, hneg, h8, hmax, hm, hneg2, e⟩ | ⟨hs, hneg, h8, hmax, hm, hneg2, e⟩
  · rw [e] at hmem ⊢
    exact ⟨fun a ha => hmem a (by omega), fun _ a _ ha => hmem a ha⟩
  · rw [e] at hmem ⊢
    simp only [transportErr_mem] at hmem
    exact ⟨fun a ha => by rw [hmem a (by omega)]; exact hf1 a (Or.inl ha),
      fun _ a h1 ha => by rw [hmem a ha]; exact hf1 a (Or.inr (by omega))⟩
  · rw [e] at hmem ⊢
    exact ⟨fun a ha => by rw [hmem a (by omega)]; exact hf1 a (Or.inl ha),
      fun _ a h1 ha => by rw [hmem a ha]; exact hf1 a (Or.inr (by omega))⟩
  · rw [e] at hmem ⊢
    exact ⟨fun a ha => by rw [hmem a (by omega)]; exact hf1 a (Or.inl ha),
      fun _ a h1 ha => by rw [hmem a ha]; exact hf1 a (Or.inr (by omega))⟩
  · rw [e] at hmem ⊢
    exact ⟨fun a ha => by rw [hmem a (by omega)]; exact hf1 a (Or.inl ha),
      fun _ a h1 ha => by rw [hmem a ha]; exact hf1 a (Or.inr (by omega))⟩
  · rw [e] at hmem ⊢
    cases hc : checkSize (rawOf (hdr1 w) (pay2 w))
    · rw [finish_bad _ _ _ _ _ _ _ _ hc] at hmem ⊢
      exact ⟨fun a ha => by rw [hmem a (by omega)]; exact hf1 a (Or.inl ha),
        fun _ a h1 ha => by rw [hmem a ha]; exact hf1 a (Or.inr (by omega))⟩
    · rw [finish_ok _ _ _ _ _ _ _ _ hc] at hmem ⊢
      refine ⟨fun a ha => ?_, fun h => absurd rfl h⟩
      rw [hmem a (by omega)]
      show C.memFill _ _ _ _ a = _
      rw [memFill_out _ _ _ _ _ (Or.inl ha)]; exact hf1 a (Or.inl ha)
  · rw [e] at hmem ⊢
    simp only [transportErr_mem] at hmem
    exact ⟨fun a ha => by rw [hmem a (by omega)]; exact hf2 a (Or.inl ha),
      fun _ a h1 ha => by rw [hmem a ha]; exact hf2 a (Or.inr (by omega))⟩
  · rw [e] at hmem ⊢
    cases hc : checkSize (rawOf (hdr1 w) (pay2 w))
    · rw [finish_bad _ _ _ _ _ _ _ _ hc] at hmem ⊢
      exact ⟨fun a ha => by rw [hmem a (by omega)]; exact hf2 a (Or.inl ha),
        fun _ a h1 ha => by rw [hmem a ha]; exact hf2 a (Or.inr (by omega))⟩
    · rw [finish_ok _ _ _ _ _ _ _ _ hc] at hmem ⊢
      refine ⟨fun a ha => ?_, fun h => absurd rfl h⟩
      rw [hmem a (by omega)]
      show C.memFill _ _ _ _ a = _
      rw [memFill_out _ _ _ _ _ (Or.inl ha)]; exact hf2 a (Or.inl ha)

/-- **(C13) globally:** every socket value `rtr_receive_pdu` hands to a callee is the caller's or the one after the
    downgrade step (`downgrade_spec`, `downgrade_version_le`: same fields but `has_received_pdus`, and `version` lowered from
    1 to 0 in the one situation); it returns one of these two, or what its last call - a state change made with one of
    these two - left. It writes no other version. -/
theorem receive_pdu_socket (H : Contract msize pdu pdu_len) :
    Returns w mem msize s pdu timeout pdu_len (fun _ s' _ cs =>
      (∀ c ∈ cs, c.2.2 = s ∨ c.2.2 = sock1 w s) ∧
      (s' = s ∨ s' = sock1 w s ∨
        ∃ st sc k, cs[k]? = some (stateCall st sc) ∧ k + 1 = cs.length ∧ s' = (w.ext (w.n + k)).st)) := by
  apply returns_of_model w mem s timeout H
  intro m' _
  rcases recvModel_cases w mem msize s pdu timeout with
    ⟨h, e⟩ | ⟨_, hneg, e⟩ | ⟨_, hneg, hl, e⟩ | ⟨_, hneg, hl, e⟩ | ⟨_, hneg, h8, hmax, hm, e⟩ | ⟨hs, hneg, hl, hm, e⟩ |
    ⟨_, hneg, h8, hmax, hm, hneg2, e⟩ | ⟨hs, hneg, h8, hmax, hm, hneg2, e⟩
  · rw [e]; simp
  · rw [e]
    rcases transportErr_sock_cases (rc1 w) (world1 w s timeout) [recv1 timeout s] s (buf1 w mem pdu) with
      ⟨e1, e2⟩ | ⟨st, e1, e2⟩
    · rw [e1, e2]; simp [recv1]
    · rw [e1, e2]; exact ⟨by simp [recv1, stateCall], Or.inr (Or.inr ⟨st, s, 1, rfl, rfl, rfl⟩)⟩
  · rw [e]; exact ⟨by simp [recv1, reportCall, stateCall], Or.inr (Or.inr ⟨_, _, 2, rfl, rfl, rfl⟩)⟩
  · rw [e]; exact ⟨by simp [recv1, reportCall, stateCall], Or.inr (Or.inr ⟨_, _, 2, rfl, rfl, rfl⟩)⟩
  · rw [e]; exact ⟨by simp [recv1, reportCall], Or.inr (Or.inl rfl)⟩
  · rw [e]
    cases hc : checkSize (rawOf (hdr1 w) (pay2 w))
    · rw [finish_bad _ _ _ _ _ _ _ _ hc]
      exact ⟨by simp [recv1, reportCall, stateCall], Or.inr (Or.inr ⟨_, _, 2, rfl, rfl, rfl⟩)⟩
    · rw [finish_ok _ _ _ _ _ _ _ _ hc]
      exact ⟨by simp [recv1, footerCall], Or.inr (Or.inl rfl)⟩
  · rw [e]
    rcases transportErr_sock_cases (rc2 w) (world2 w s timeout) [recv1 timeout s, recv2 (hdr1 w) (sock1 w s)]
      (sock1 w s) (buf2 w mem pdu) with ⟨e1, e2⟩ | ⟨st, e1, e2⟩
    · rw [e1, e2]; simp [recv1, recv2]
    · rw [e1, e2]; exact ⟨by simp [recv1, recv2, stateCall], Or.inr (Or.inr ⟨st, _, 2, rfl, rfl, rfl⟩)⟩
  · rw [e]
    cases hc : checkSize (rawOf (hdr1 w) (pay2 w))
    · rw [finish_bad _ _ _ _ _ _ _ _ hc]
      exact ⟨by simp [recv1, recv2, reportCall, stateCall], Or.inr (Or.inr ⟨_, _, 3, rfl, rfl, rfl⟩)⟩
    · rw [finish_ok _ _ _ _ _ _ _ _ hc]
      exact ⟨by simp [recv1, recv2, footerCall], Or.inr (Or.inl rfl)⟩

/-- the second receive is made (`receive_pdu_lengths`) -/
def SecondReceive : Prop :=
  (rc1 w).slt 0#32 = false ∧ 8 < lenField (hdr1 w) ∧ lenField (hdr1 w) ≤ 3248 ∧ ¬ Mismatch w s
instance : Decidable (SecondReceive w s) := by unfold SecondReceive; exact inferInstance

/-- **The buffer when no PDU is delivered (C04/C14):** the bytes of the first answer at `pdu … pdu+8` - AS RECEIVED, also
    after a failed size check, for which the header had been converted in place and is converted back -, the bytes of the
    second answer (if that receive was made) at `pdu+8 … pdu+L`, everything else as before the call. -/
theorem receive_pdu_buffer_on_error (H : Contract msize pdu pdu_len) (hs : s.state ≠ 9#32) :
    Returns w mem msize s pdu timeout pdu_len (fun rc _ m' _ =>
      rc ≠ 0#32 → ∀ a, a < msize → m' a = (if SecondReceive w s then buf2 w mem pdu else buf1 w mem pdu) a) := by
  apply returns_of_model w mem s timeout H
  intro m' hmem
  rcases recvModel_cases w mem msize s pdu timeout with
    ⟨h, e⟩ | ⟨_, hneg, e⟩ | ⟨_, hneg, hl, e⟩ | ⟨_, hneg, hl, e⟩ | ⟨_, hneg, h8, hmax, hm, e⟩ | ⟨_, hneg, hl, hm, e⟩ |
    ⟨_, hneg, h8, hmax, hm, hneg2, e⟩ | ⟨_, hneg, h8, hmax, hm, hneg2, e⟩
  · exact absurd h hs
  · rw [e] at hmem ⊢; simp only [transportErr_mem] at hmem
    intro _ a ha; rw [hmem a ha, if_neg (fun h : SecondReceive w s => by have := h.1; rw [hneg] at this; cases this)]
  · rw [e] at hmem ⊢
    intro _ a ha; rw [hmem a ha, if_neg (fun h : SecondReceive w s => by have := h.2.1; have := h.2.2.1; omega)]; rfl
  · rw [e] at hmem ⊢
    intro _ a ha; rw [hmem a ha, if_neg (fun h : SecondReceive w s => by have := h.2.1; have := h.2.2.1; omega)]; rfl
  · rw [e] at hmem ⊢
    intro _ a ha; rw [hmem a ha, if_neg (fun h : SecondReceive w s => h.2.2.2 hm)]
  · rw [e] at hmem ⊢
    cases hc : checkSize (rawOf (hdr1 w) (pay2 w))
    · rw [finish_bad _ _ _ _ _ _ _ _ hc] at hmem ⊢
      intro _ a ha; rw [hmem a ha, if_neg (fun h : SecondReceive w s => by have := h.2.1; have := h.2.2.1; omega)]; rfl
    · rw [finish_ok _ _ _ _ _ _ _ _ hc]; intro h; exact absurd rfl h
  · rw [e] at hmem ⊢; simp only [transportErr_mem] at hmem
    intro _ a ha; rw [hmem a ha, if_pos (show SecondReceive w s from ⟨hneg, h8, hmax, hm⟩)]
  · rw [e] at hmem ⊢
    cases hc : checkSize (rawOf (hdr1 w) (pay2 w))
    · rw [finish_bad _ _ _ _ _ _ _ _ hc] at hmem ⊢
      intro _ a ha; rw [hmem a ha, if_pos (show SecondReceive w s from ⟨hneg, h8, hmax, hm⟩)]; rfl
    · rw [finish_ok _ _ _ _ _ _ _ _ hc]; intro h; exact absurd rfl h

end cases

/-! ## Phase 7: concrete worlds, evaluated on the translated C text itself (not on the model) -/

/-- a socket: ESTABLISHED (2), given version and `has_received_pdus` -/
def sockEx (version : BitVec 32) (first : Bool) : Sock := { C.S_rtr_socket.zero with state := 2#32, version := version, has_received_pdus := !first }

/-- the world that gives the listed answers (return code, bytes), then zeros; a state change leaves state 99 -/
def worldEx (s : Sock) (answers : List (BitVec 64 × List (BitVec 8))) : XW :=
  { ext := fun i => match answers[i]? with
      | some (rc, buf) => { rc := rc, aux := 0#64, st := { s with state := 99#32 }, buf := buf }
      | none => { rc := 0#64, aux := 0#64, st := { s with state := 99#32 }, buf := [] } }

/-- what can be observed of a result: return code, state / version / has_received_pdus of the socket, the first `n` bytes
    of the buffer, the calls -/
structure RecvObs where
  rc : BitVec 32
  state : BitVec 32
  version : BitVec 32
  received : Bool
  buf : List (BitVec 8)
  calls : List (String × List (BitVec 64))
deriving DecidableEq

def observe (n : Nat) (r : Option (BitVec 32 × Sock × Mem × XW)) : Option RecvObs :=
  r.map fun (rc, s, m, w) => ⟨rc, s.state, s.version, s.has_received_pdus, (List.range n).map m,
    w.trace.map fun c => (c.1, c.2.1)⟩

/-- run on a 3248-byte buffer at address 0 that holds 0xEE everywhere, timeout 5 -/
def runEx (s : Sock) (answers : List (BitVec 64 × List (BitVec 8))) (n : Nat) : Option RecvObs :=
  observe n (C.rtr_receive_pdu (worldEx s answers) (fun _ => 0xEE#8) 3248 s 0 3248#64 5#64)

/-- a well-formed 12-byte Serial Notify (version 1) in two receives: delivered, no report, no state change; the footer
    conversion (not translated: the world's third answer) leaves its bytes -/
example : runEx (sockEx 1#32 false)
    [(0#64, [1, 0, 0, 7, 0, 0, 0, 12]), (0#64, [0, 0, 0, 42]), (0#64, [1, 0, 7, 0, 12, 0, 0, 0, 42, 0, 0, 0])] 13 =
    some ⟨0#32, 2#32, 1#32, true, [1, 0, 7, 0, 12, 0, 0, 0, 42, 0, 0, 0, 0],
      [("tr_recv_all", [8#64, 5#64]), ("tr_recv_all", [4#64, 60#64]), ("rtr_pdu_footer_to_host_byte_order", [])]⟩ := by
  decide

/-- a header whose length field is 7: rejected before anything else is received; CORRUPT_DATA (0) report with the
    "length value too small" text (56 bytes), echoing the header as received; ERROR_FATAL; RTR_ERROR -/
example : runEx (sockEx 1#32 false) [(0#64, [1, 0, 0, 7, 0, 0, 0, 7])] 9 =
    some ⟨4294967295#32, 99#32, 1#32, true, [1, 0, 0, 7, 0, 0, 0, 7, 0xEE],
      [("tr_recv_all", [8#64, 5#64]),
       ("rtr_send_error_pdu_from_network", [8#64, 0#64, 56#64, 1#64, 0#64, 0#64, 7#64, 0#64, 0#64, 0#64, 7#64]),
       ("rtr_change_socket_state", [7#64])]⟩ := by
  decide

/-- length 3249 = 0x0CB1: one more than the buffer holds - rejected before the payload is received; the code sent is
    CORRUPT_DATA (0) with the "PDU too big" text (42 bytes) -/
example : runEx (sockEx 1#32 false) [(0#64, [1, 4, 0, 0, 0, 0, 0x0C, 0xB1])] 9 =
    some ⟨4294967295#32, 99#32, 1#32, true, [1, 4, 0, 0, 0, 0, 0x0C, 0xB1, 0xEE],
      [("tr_recv_all", [8#64, 5#64]),
       ("rtr_send_error_pdu_from_network", [8#64, 0#64, 42#64, 1#64, 4#64, 0#64, 0#64, 0#64, 0#64, 0x0C#64, 0xB1#64]),
       ("rtr_change_socket_state", [7#64])]⟩ := by
  decide

/-- length 0xFFFFFFFF -/
example : runEx (sockEx 1#32 false) [(0#64, [1, 4, 0, 0, 0xFF, 0xFF, 0xFF, 0xFF])] 9 =
    some ⟨4294967295#32, 99#32, 1#32, true, [1, 4, 0, 0, 0xFF, 0xFF, 0xFF, 0xFF, 0xEE],
      [("tr_recv_all", [8#64, 5#64]),
       ("rtr_send_error_pdu_from_network",
         [8#64, 0#64, 42#64, 1#64, 4#64, 0#64, 0#64, 0xFF#64, 0xFF#64, 0xFF#64, 0xFF#64]),
       ("rtr_change_socket_state", [7#64])]⟩ := by
  decide

/-- an Error Report of 16 bytes whose nested length is 0xFFFFFFF0: the size check rejects it without reading outside the
    16 bytes; the header, converted to host order for the check, is converted back and echoed as received (F12) -/
example : runEx (sockEx 1#32 false)
    [(0#64, [1, 10, 0, 2, 0, 0, 0, 16]), (0#64, [0xFF, 0xFF, 0xFF, 0xF0, 0, 0, 0, 0])] 17 =
    some ⟨4294967295#32, 99#32, 1#32, true, [1, 10, 0, 2, 0, 0, 0, 16, 0xFF, 0xFF, 0xFF, 0xF0, 0, 0, 0, 0, 0xEE],
      [("tr_recv_all", [8#64, 5#64]), ("tr_recv_all", [8#64, 60#64]),
       ("rtr_send_error_pdu_from_network", [8#64, 0#64, 56#64, 1#64, 10#64, 0#64, 2#64, 0#64, 0#64, 0#64, 16#64]),
       ("rtr_change_socket_state", [7#64])]⟩ := by
  decide

/-- a version-0 Serial Notify as the FIRST PDU on a version-1 socket: live downgrade to 0, then delivered -/
example : runEx (sockEx 1#32 true)
    [(0#64, [0, 0, 0, 7, 0, 0, 0, 12]), (0#64, [0, 0, 0, 42]), (0#64, [])] 1 =
    some ⟨0#32, 2#32, 0#32, true, [0],
      [("tr_recv_all", [8#64, 5#64]), ("tr_recv_all", [4#64, 60#64]), ("rtr_pdu_footer_to_host_byte_order", [])]⟩ := by
  decide

/-- the same PDU on a socket that has received PDUs before: refused with UNEXPECTED_PROTOCOL_VERSION (8), nothing of
    its payload is received, version and state stay -/
example : runEx (sockEx 1#32 false) [(0#64, [0, 0, 0, 7, 0, 0, 0, 12]), (0#64, [0, 0, 0, 42])] 9 =
    some ⟨4294967295#32, 2#32, 1#32, true, [0, 0, 0, 7, 0, 0, 0, 12, 0xEE],
      [("tr_recv_all", [8#64, 5#64]),
       ("rtr_send_error_pdu_from_network", [8#64, 8#64, 0#64, 0#64, 0#64, 0#64, 7#64, 0#64, 0#64, 0#64, 12#64])]⟩ := by
  decide

/-- a version-0 ERROR REPORT as first PDU: no downgrade (type 10), no refusal either -/
example : runEx (sockEx 1#32 true)
    [(0#64, [0, 10, 0, 2, 0, 0, 0, 16]), (0#64, [0, 0, 0, 0, 0, 0, 0, 0]), (0#64, [])] 0 =
    some ⟨0#32, 2#32, 1#32, true, [],
      [("tr_recv_all", [8#64, 5#64]), ("tr_recv_all", [8#64, 60#64]), ("rtr_pdu_footer_to_host_byte_order", [])]⟩ := by
  decide

/-- transport errors: −2 (TR_WOULDBLOCK) on the second receive is handed through, nothing else happens; −1 on the first
    leads to ERROR_TRANSPORT; −7 (not a code of the transport API) to ERROR_FATAL and RTR_ERROR -/
example : runEx (sockEx 1#32 false) [(0#64, [1, 0, 0, 7, 0, 0, 0, 12]), (0xFFFFFFFFFFFFFFFE#64, [9, 9])] 0 =
    some ⟨4294967294#32, 2#32, 1#32, true, [], [("tr_recv_all", [8#64, 5#64]), ("tr_recv_all", [4#64, 60#64])]⟩ := by
  decide
example : runEx (sockEx 1#32 false) [(0xFFFFFFFFFFFFFFFF#64, [])] 0 =
    some ⟨4294967295#32, 99#32, 1#32, true, [], [("tr_recv_all", [8#64, 5#64]), ("rtr_change_socket_state", [8#64])]⟩ := by
  decide
example : runEx (sockEx 1#32 false) [(0xFFFFFFFFFFFFFFF9#64, [])] 0 =
    some ⟨4294967295#32, 99#32, 1#32, true, [], [("tr_recv_all", [8#64, 5#64]), ("rtr_change_socket_state", [7#64])]⟩ := by
  decide

/-- THE BOUND IS SHARP: with one byte less than the contract promises (an object of 3247 bytes) a PDU announcing 3248 bytes
    drives the C text out of its defined fragment: the payload receive would write `pdu[3247]` -/
example : observe 0 (C.rtr_receive_pdu (worldEx (sockEx 1#32 false) [(0#64, [1, 4, 0, 0, 0, 0, 0x0C, 0xB0])])
    (fun _ => 0xEE#8) 3247 (sockEx 1#32 false) 0 3248#64 5#64) = none := by
  decide
/-- ... and with the full 3248 bytes the same header is fine (the payload is asked for: 3240 bytes) -/
example : (observe 0 (C.rtr_receive_pdu (worldEx (sockEx 1#32 false) [(0#64, [1, 4, 0, 0, 0, 0, 0x0C, 0xB0]),
      (0xFFFFFFFFFFFFFFFE#64, [])])
    (fun _ => 0xEE#8) 3248 (sockEx 1#32 false) 0 3248#64 5#64)).map (·.calls) =
    some [("tr_recv_all", [8#64, 5#64]), ("tr_recv_all", [3240#64, 60#64])] := by
  decide

end Rtr.CLink.Recv
