/-
  CLink: the C functions translated by tools/gen_cfuns.py (RtrModel/Generated/CFuns.lean, regenerated from the
  current source on every run) compute what the hand-written models compute - for every input.

  These theorems close the gap between "the model" and "the C text as clang parsed it" for the loop-free
  integer functions; what remains trusted there is the translator's reading of the typed AST
  (tools/gen_cfuns.py header) instead of a hand transcription checked by sampling.
-/
import RtrModel.Generated.CFuns
import RtrModel.Bits

namespace Rtr.CLink
open Rtr Rtr.Gen


/-- zero-extension of a narrower unsigned value to 32 bits keeps the value -/
theorem zext_toNat {w : Nat} (x : BitVec w) (h : w ≤ 32) : (BitVec.setWidth 32 x).toNat = x.toNat := by
  have : x.toNat < 2 ^ 32 := Nat.lt_of_lt_of_le x.isLt (Nat.pow_le_pow_right (by decide) h)
  simp [BitVec.toNat_setWidth, Nat.mod_eq_of_lt this]

@[simp] theorem zext8_toNat (x : BitVec 8) : (BitVec.setWidth 32 x).toNat = x.toNat := zext_toNat x (by decide)
@[simp] theorem zext16_toNat (x : BitVec 16) : (BitVec.setWidth 32 x).toNat = x.toNat := zext_toNat x (by decide)

theorem zext8_toInt (x : BitVec 8) : (BitVec.setWidth 32 x).toInt = (x.toNat : Int) := by
  rw [BitVec.toInt_eq_toNat_cond, zext8_toNat]
  have := x.isLt
  split <;> omega

theorem lit32_toInt (k : Nat) (hk : k < 2147483648) : (BitVec.ofNat 32 k).toInt = (k : Int) := by
  rw [BitVec.toInt_eq_toNat_cond]; simp only [BitVec.toNat_ofNat]; split <;> omega

theorem slt_zext8_lit (x : BitVec 8) (k : Nat) (hk : k < 2147483648) :
    BitVec.slt (BitVec.setWidth 32 x) (BitVec.ofNat 32 k) = decide (x.toNat < k) := by
  simp only [BitVec.slt, zext8_toInt, lit32_toInt k hk]; simp
theorem slt_lit_zext8 (x : BitVec 8) (k : Nat) (hk : k < 2147483648) :
    BitVec.slt (BitVec.ofNat 32 k) (BitVec.setWidth 32 x) = decide (k < x.toNat) := by
  simp only [BitVec.slt, zext8_toInt, lit32_toInt k hk]; simp
theorem sle_zext8_lit (x : BitVec 8) (k : Nat) (hk : k < 2147483648) :
    BitVec.sle (BitVec.setWidth 32 x) (BitVec.ofNat 32 k) = decide (x.toNat ≤ k) := by
  simp only [BitVec.sle, zext8_toInt, lit32_toInt k hk]; simp
theorem sle_lit_zext8 (x : BitVec 8) (k : Nat) (hk : k < 2147483648) :
    BitVec.sle (BitVec.ofNat 32 k) (BitVec.setWidth 32 x) = decide (k ≤ x.toNat) := by
  simp only [BitVec.sle, zext8_toInt, lit32_toInt k hk]; simp
theorem sle_zext8_zext8 (x y : BitVec 8) :
    BitVec.sle (BitVec.setWidth 32 x) (BitVec.setWidth 32 y) = decide (x.toNat ≤ y.toNat) := by
  simp only [BitVec.sle, zext8_toInt]; simp
theorem slt_zext8_zext8 (x y : BitVec 8) :
    BitVec.slt (BitVec.setWidth 32 x) (BitVec.setWidth 32 y) = decide (x.toNat < y.toNat) := by
  simp only [BitVec.slt, zext8_toInt]; simp

theorem zext8_beq_lit (x : BitVec 8) (k : Nat) (hk : k < 4294967296) :
    (BitVec.setWidth 32 x == BitVec.ofNat 32 k) = (x.toNat == k) := by
  rw [Bool.eq_iff_iff]; simp only [beq_iff_eq, ← BitVec.toNat_inj, zext8_toNat, BitVec.toNat_ofNat]
  have := x.isLt
  omega
theorem zext8_bne_lit (x : BitVec 8) (k : Nat) (hk : k < 4294967296) :
    (BitVec.setWidth 32 x != BitVec.ofNat 32 k) = (x.toNat != k) := by
  simp only [bne, zext8_beq_lit x k hk]



/-- an OR of words is zero iff both are -/
theorem or_eq_zero_iff {w : Nat} (x y : BitVec w) : (x ||| y) = 0#w ↔ x = 0#w ∧ y = 0#w := by
  constructor
  · intro h
    constructor <;> apply BitVec.eq_of_getLsbD_eq <;> intro i hi <;>
      have := congrArg (fun z => z.getLsbD i) h <;>
      simp only [BitVec.getLsbD_or, BitVec.getLsbD_zero, Bool.or_eq_false_iff] at this <;> simp [this]
  · rintro ⟨rfl, rfl⟩; simp

@[simp] theorem or_beq_zero {w : Nat} (x y : BitVec w) : ((x ||| y) == 0#w) = (x == 0#w && y == 0#w) := by
  rw [Bool.eq_iff_iff]; simp [or_eq_zero_iff]

/-- `lrtr_get_bits` as translated from the C text is the literal model `getBits32`; it is undefined (assertion) exactly
    when more than 32 bits are requested.  The proof decides the model's three conditions and lets `simp` evaluate both
    sides; it does not depend on how the C text computes the mask (mutable variable, ternary, order of the `&`). -/
theorem lrtr_get_bits_eq (v : BitVec 32) (f n : BitVec 8) :
    C.lrtr_get_bits v f n = if n.toNat ≤ 32 then some (getBits32 v f.toNat n.toNat) else none := by
  unfold C.lrtr_get_bits getBits32
  simp (disch := decide) only [slt_zext8_lit, slt_lit_zext8, sle_lit_zext8, sle_zext8_lit, zext8_beq_lit, zext8_bne_lit, zext8_toNat]
  have hf := f.isLt
  have hn := n.isLt
  have allOnes : BitVec.allOnes 32 = 4294967295#32 := by decide
  by_cases h1 : n.toNat ≤ 32
  · have h1' : n.toNat < 33 := by omega
    by_cases h0 : n.toNat = 0
    · simp [h1, h1', h0]
    · by_cases hf31 : 31 < f.toNat
      · have : f.toNat > 31 := hf31
        simp [h1, h1', h0, hf31, this]
      · have hf2 : f.toNat < 32 := by omega
        have hf3 : ¬ f.toNat > 31 := by omega
        by_cases h3 : n.toNat = 32
        · simp [h1, h1', h0, hf31, hf2, hf3, h3, allOnes, BitVec.and_comm]
        · have hn2 : n.toNat < 32 := by omega
          simp [h1, h1', h0, hf31, hf2, hf3, h3, hn2, allOnes, BitVec.and_comm]
  · have h1' : ¬ n.toNat < 33 := by omega
    simp [h1, h1']

end Rtr.CLink
