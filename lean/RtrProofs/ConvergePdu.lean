/-
  ConvergePdu: the PDUs a cache sends, built with the byte layout the model parses (RFC 6810 /
  RFC 8210: Cache Response, IPv4 / IPv6 Prefix, Router Key, End of Data), and the facts that make
  them acceptable to `receivePdu`, `updatePfx`, `updateKey` and the End of Data branch: they are
  complete, pass the size check, carry the version, and decode to the record they were built from.
-/
import RtrProofs.SyncTables
import RtrProofs.SentPdus
import RtrProofs.Chunking

namespace Rtr.P

/-! ## arithmetic -/

theorem cv_b32mod (n : Nat) :
    ((n / 16777216 % 256 * 256 + n / 65536 % 256) * 256 + n / 256 % 256) * 256 + n % 256 = n % 4294967296 := by omega

theorem cv_b128 (a : Nat) (h : a < 340282366920938463463374607431768211456) :
    (((a / 79228162514264337593543950336 % 4294967296) * 4294967296 + a / 18446744073709551616 % 4294967296) * 4294967296 +
      a / 4294967296 % 4294967296) * 4294967296 + a % 4294967296 = a := by omega

/-- reading a 32-bit field written by `toBE32` at offset `pre.length` -/
theorem cv_be32_at (pre : List Nat) (x : Nat) (post : List Nat) (off : Nat) (h : pre.length = off) :
    be32 (pre ++ (toBE32 x ++ post)) off = x % 4294967296 := by
  subst h
  rw [be32_shift0]
  simp only [be32, toBE32, List.cons_append, List.nil_append, List.getD_cons_zero, List.getD_cons_succ]
  exact cv_b32mod x

/-! ## the PDUs -/

/-- a 128-bit address, big-endian -/
def cvBE128 (a : Nat) : List Nat :=
  toBE32 (a / 79228162514264337593543950336) ++ (toBE32 (a / 18446744073709551616) ++
    (toBE32 (a / 4294967296) ++ toBE32 a))

/-- IPv4 / IPv6 Prefix PDU (`flag` 1 = announce, 0 = withdraw) for record `r` -/
def cvPfxPdu (ver flag : Nat) (r : Rec) : List Nat :=
  if r.v6 then [ver, 6, 0, 0, 0, 0, 0, 32, flag, r.len, r.maxLen, 0] ++ (cvBE128 r.addr ++ toBE32 r.asn)
  else [ver, 4, 0, 0, 0, 0, 0, 20, flag, r.len, r.maxLen, 0] ++ (toBE32 r.addr ++ toBE32 r.asn)

/-- Router Key PDU -/
def cvKeyPdu (ver flag : Nat) (k : KeyRec) : List Nat :=
  [ver, 9, flag, 0, 0, 0, 0, 123] ++ (k.ski ++ (toBE32 k.asn ++ k.spki))

/-- Cache Response PDU -/
def cvCacheResponse (ver sess : Nat) : List Nat := [ver, 3] ++ toBE16 sess ++ [0, 0, 0, 8]

/-- the three intervals of an End of Data PDU (protocol version 1) -/
structure CvIvals where
  refresh : Nat
  retry : Nat
  expire : Nat
deriving DecidableEq, Repr

/-- End of Data PDU: 12 bytes in version 0, 24 bytes with the three intervals in version 1 -/
def cvEndOfData (ver sess serial : Nat) (iv : CvIvals) : List Nat :=
  if ver = 0 then [ver, 7] ++ toBE16 sess ++ ([0, 0, 0, 12] ++ (toBE32 serial ++ []))
  else [ver, 7] ++ toBE16 sess ++ ([0, 0, 0, 24] ++ (toBE32 serial ++ (toBE32 iv.refresh ++ (toBE32 iv.retry ++ toBE32 iv.expire))))

/-- a record a cache can announce: source 0 = "learned from this socket", 32-bit AS number, lengths
    and address within the address family's width -/
def cvRecOK (r : Rec) : Prop :=
  r.src = 0 ∧ r.asn < 4294967296 ∧
  (if r.v6 then r.len ≤ 128 ∧ r.maxLen ≤ 128 ∧ r.addr < 340282366920938463463374607431768211456
   else r.len ≤ 32 ∧ r.maxLen ≤ 32 ∧ r.addr < 4294967296)

/-- a router key a cache can announce: SKI of 20 bytes, SPKI of 91 bytes -/
def cvKeyOK (k : KeyRec) : Prop :=
  k.src = 0 ∧ k.asn < 4294967296 ∧ k.ski.length = 20 ∧ k.spki.length = 91

instance (r : Rec) : Decidable (cvRecOK r) := by unfold cvRecOK; exact inferInstance
instance (k : KeyRec) : Decidable (cvKeyOK k) := by unfold cvKeyOK; exact inferInstance

/-- what `rtr_receive_pdu` wants of a PDU in version `ver`: that version in the header, complete,
    size check passed, not longer than the maximum PDU length -/
structure CvWire (ver : Nat) (p : List Nat) : Prop where
  ver : verOf p = ver
  len : p.length = lenOf p
  size : checkSize p = true
  max : lenOf p ≤ Gen.RTR_MAX_PDU_LEN

/-! ### Cache Response -/

theorem cv_cacheResponse_wire (ver sess : Nat) : CvWire ver (cvCacheResponse ver sess) ∧ typeOf (cvCacheResponse ver sess) = 3 := by
  refine ⟨⟨rfl, ?_, ?_, ?_⟩, rfl⟩
  · simp [cvCacheResponse, toBE16, lenOf, be32]
  · simp [cvCacheResponse, toBE16, checkSize, typeOf, lenOf, be32, Gen.sizeof_pdu_cache_response]
  · simp [cvCacheResponse, toBE16, lenOf, be32, Gen.RTR_MAX_PDU_LEN]

theorem cv_cacheResponse_session (ver sess : Nat) (h : sess < 65536) : be16 (cvCacheResponse ver sess) 2 = sess := by
  simp only [cvCacheResponse, toBE16, be16, List.cons_append, List.nil_append, List.getD_cons_zero, List.getD_cons_succ]
  omega

/-! ### End of Data -/

theorem cv_endOfData_wire (ver sess serial : Nat) (iv : CvIvals) (hv : ver ≤ 1) :
    CvWire ver (cvEndOfData ver sess serial iv) ∧ typeOf (cvEndOfData ver sess serial iv) = 7 := by
  have : ver = 0 ∨ ver = 1 := by omega
  rcases this with rfl | rfl
  · refine ⟨⟨rfl, ?_, ?_, ?_⟩, rfl⟩
    · simp [cvEndOfData, toBE16, toBE32, lenOf, be32]
    · simp [cvEndOfData, toBE16, toBE32, checkSize, typeOf, verOf, lenOf, be32, Gen.sizeof_pdu_end_of_data_v0]
    · simp [cvEndOfData, toBE16, toBE32, lenOf, be32, Gen.RTR_MAX_PDU_LEN]
  · refine ⟨⟨rfl, ?_, ?_, ?_⟩, rfl⟩
    · simp [cvEndOfData, toBE16, toBE32, lenOf, be32]
    · simp [cvEndOfData, toBE16, toBE32, checkSize, typeOf, verOf, lenOf, be32, Gen.sizeof_pdu_end_of_data_v1]
    · simp [cvEndOfData, toBE16, toBE32, lenOf, be32, Gen.RTR_MAX_PDU_LEN]

theorem cv_endOfData_session (ver sess serial : Nat) (iv : CvIvals) (h : sess < 65536) :
    be16 (cvEndOfData ver sess serial iv) 2 = sess := by
  unfold cvEndOfData
  split <;>
  · simp only [toBE16, be16, List.cons_append, List.nil_append, List.getD_cons_zero, List.getD_cons_succ]
    omega

theorem cv_endOfData_serial (ver sess serial : Nat) (iv : CvIvals) (h : serial < 4294967296) :
    be32 (cvEndOfData ver sess serial iv) 8 = serial := by
  unfold cvEndOfData
  split
  · rw [← List.append_assoc, cv_be32_at _ serial _ 8 rfl]; omega
  · rw [← List.append_assoc, cv_be32_at _ serial _ 8 rfl]; omega

theorem cv_endOfData_ivals (sess serial : Nat) (iv : CvIvals) :
    be32 (cvEndOfData 1 sess serial iv) 12 = iv.refresh % 4294967296 ∧
    be32 (cvEndOfData 1 sess serial iv) 16 = iv.retry % 4294967296 ∧
    be32 (cvEndOfData 1 sess serial iv) 20 = iv.expire % 4294967296 := by
  unfold cvEndOfData
  rw [if_neg (by decide)]
  refine ⟨?_, ?_, ?_⟩
  · have := cv_be32_at ([1, 7] ++ toBE16 sess ++ ([0, 0, 0, 24] ++ toBE32 serial)) iv.refresh
      (toBE32 iv.retry ++ toBE32 iv.expire) 12 rfl
    simpa only [List.append_assoc] using this
  · have := cv_be32_at ([1, 7] ++ toBE16 sess ++ ([0, 0, 0, 24] ++ (toBE32 serial ++ toBE32 iv.refresh))) iv.retry
      (toBE32 iv.expire) 16 rfl
    simpa only [List.append_assoc] using this
  · have := cv_be32_at ([1, 7] ++ toBE16 sess ++ ([0, 0, 0, 24] ++ (toBE32 serial ++ (toBE32 iv.refresh ++ toBE32 iv.retry))))
      iv.expire [] 20 rfl
    simpa only [List.append_assoc, List.append_nil] using this

/-! ### Prefix PDUs -/

theorem cv_pfxPdu_wire (ver flag : Nat) (r : Rec) :
    CvWire ver (cvPfxPdu ver flag r) ∧ (typeOf (cvPfxPdu ver flag r) = if r.v6 then 6 else 4) ∧
    flagsOf (cvPfxPdu ver flag r) = flag := by
  unfold cvPfxPdu
  cases r.v6
  · simp only [Bool.false_eq_true, if_false]
    refine ⟨⟨rfl, ?_, ?_, ?_⟩, rfl, rfl⟩
    · simp [toBE32, lenOf, be32]
    · simp [toBE32, checkSize, typeOf, lenOf, be32, Gen.sizeof_pdu_ipv4]
    · simp [toBE32, lenOf, be32, Gen.RTR_MAX_PDU_LEN]
  · simp only [if_true]
    refine ⟨⟨rfl, ?_, ?_, ?_⟩, rfl, rfl⟩
    · simp [cvBE128, toBE32, lenOf, be32]
    · simp [cvBE128, toBE32, checkSize, typeOf, lenOf, be32, Gen.sizeof_pdu_ipv6]
    · simp [cvBE128, toBE32, lenOf, be32, Gen.RTR_MAX_PDU_LEN]

/-- the record a Prefix PDU decodes to is the record it was built from -/
theorem cv_pfxRecOf_pdu (ver flag : Nat) (r : Rec) (hr : cvRecOK r) : pfxRecOf (cvPfxPdu ver flag r) = r := by
  obtain ⟨v6, addr, len, maxLen, asn, src⟩ := r
  obtain ⟨h0, hs, hw⟩ := hr
  simp only at h0 hs hw
  subst h0
  cases v6
  · simp only [Bool.false_eq_true, if_false] at hw
    have e1 : be32 (cvPfxPdu ver flag ⟨false, addr, len, maxLen, asn, 0⟩) 12 = addr := by
      have := cv_be32_at [ver, 4, 0, 0, 0, 0, 0, 20, flag, len, maxLen, 0] addr (toBE32 asn) 12 rfl
      rw [Nat.mod_eq_of_lt hw.2.2] at this
      exact this
    have e2 : be32 (cvPfxPdu ver flag ⟨false, addr, len, maxLen, asn, 0⟩) 16 = asn := by
      have := cv_be32_at ([ver, 4, 0, 0, 0, 0, 0, 20, flag, len, maxLen, 0] ++ toBE32 addr) asn [] 16 rfl
      rw [Nat.mod_eq_of_lt hs, List.append_nil, List.append_assoc] at this
      exact this
    have e3 : typeOf (cvPfxPdu ver flag ⟨false, addr, len, maxLen, asn, 0⟩) = 4 := rfl
    have e4 : (cvPfxPdu ver flag ⟨false, addr, len, maxLen, asn, 0⟩).getD 9 0 = len := rfl
    have e5 : (cvPfxPdu ver flag ⟨false, addr, len, maxLen, asn, 0⟩).getD 10 0 = maxLen := rfl
    unfold pfxRecOf
    rw [if_pos e3, e1, e2, e4, e5]
  · simp only [if_true] at hw
    have e3 : typeOf (cvPfxPdu ver flag ⟨true, addr, len, maxLen, asn, 0⟩) ≠ 4 := by
      show (6 : Nat) ≠ 4; decide
    have e4 : (cvPfxPdu ver flag ⟨true, addr, len, maxLen, asn, 0⟩).getD 9 0 = len := rfl
    have e5 : (cvPfxPdu ver flag ⟨true, addr, len, maxLen, asn, 0⟩).getD 10 0 = maxLen := rfl
    have hd : cvPfxPdu ver flag ⟨true, addr, len, maxLen, asn, 0⟩ =
        [ver, 6, 0, 0, 0, 0, 0, 32, flag, len, maxLen, 0] ++ (cvBE128 addr ++ toBE32 asn) := rfl
    have a1 : be32 (cvPfxPdu ver flag ⟨true, addr, len, maxLen, asn, 0⟩) 12 = addr / 79228162514264337593543950336 % 4294967296 := by
      have := cv_be32_at [ver, 6, 0, 0, 0, 0, 0, 32, flag, len, maxLen, 0] (addr / 79228162514264337593543950336)
        (toBE32 (addr / 18446744073709551616) ++ (toBE32 (addr / 4294967296) ++ toBE32 addr) ++ toBE32 asn) 12 rfl
      rw [hd]; simpa only [cvBE128, List.append_assoc] using this
    have a2 : be32 (cvPfxPdu ver flag ⟨true, addr, len, maxLen, asn, 0⟩) (12 + 4) = addr / 18446744073709551616 % 4294967296 := by
      have := cv_be32_at ([ver, 6, 0, 0, 0, 0, 0, 32, flag, len, maxLen, 0] ++ toBE32 (addr / 79228162514264337593543950336))
        (addr / 18446744073709551616) ((toBE32 (addr / 4294967296) ++ toBE32 addr) ++ toBE32 asn) 16 rfl
      rw [hd]; simpa only [cvBE128, List.append_assoc] using this
    have a3 : be32 (cvPfxPdu ver flag ⟨true, addr, len, maxLen, asn, 0⟩) (12 + 8) = addr / 4294967296 % 4294967296 := by
      have := cv_be32_at ([ver, 6, 0, 0, 0, 0, 0, 32, flag, len, maxLen, 0] ++ (toBE32 (addr / 79228162514264337593543950336) ++
        toBE32 (addr / 18446744073709551616))) (addr / 4294967296) (toBE32 addr ++ toBE32 asn) 20 rfl
      rw [hd]; simpa only [cvBE128, List.append_assoc] using this
    have a4 : be32 (cvPfxPdu ver flag ⟨true, addr, len, maxLen, asn, 0⟩) (12 + 12) = addr % 4294967296 := by
      have := cv_be32_at ([ver, 6, 0, 0, 0, 0, 0, 32, flag, len, maxLen, 0] ++ (toBE32 (addr / 79228162514264337593543950336) ++
        (toBE32 (addr / 18446744073709551616) ++ toBE32 (addr / 4294967296)))) addr (toBE32 asn) 24 rfl
      rw [hd]; simpa only [cvBE128, List.append_assoc] using this
    have a5 : be32 (cvPfxPdu ver flag ⟨true, addr, len, maxLen, asn, 0⟩) 28 = asn := by
      have := cv_be32_at ([ver, 6, 0, 0, 0, 0, 0, 32, flag, len, maxLen, 0] ++ cvBE128 addr) asn [] 28 rfl
      rw [Nat.mod_eq_of_lt hs, List.append_nil, List.append_assoc] at this
      exact this
    unfold pfxRecOf be128
    rw [if_neg e3, a1, a2, a3, a4, a5, e4, e5, cv_b128 addr hw.2.2]

/-- a Prefix PDU built from an acceptable record with flag 0 or 1 is acceptable to `rtr_update_pfx_table` -/
theorem cv_pfxPdu_ok (ver flag : Nat) (r : Rec) (hr : cvRecOK r) (hf : flag ≤ 1) : pfxOK (cvPfxPdu ver flag r) := by
  unfold pfxOK
  rw [cv_pfxRecOf_pdu ver flag r hr, (cv_pfxPdu_wire ver flag r).2.2]
  obtain ⟨_, _, hw⟩ := hr
  refine ⟨?_, by omega⟩
  cases h : r.v6
  · rw [h] at hw; simp only [Bool.false_eq_true, if_false] at hw ⊢; omega
  · rw [h] at hw; simp only [if_true] at hw ⊢; omega

theorem cv_pfxOp_pdu (ver flag : Nat) (r : Rec) (hr : cvRecOK r) :
    pfxOp (cvPfxPdu ver flag r) = (decide (flag = 1), r) := by
  unfold pfxOp
  rw [cv_pfxRecOf_pdu ver flag r hr, (cv_pfxPdu_wire ver flag r).2.2]

/-! ### Router Key PDUs -/

theorem cv_keyPdu_wire (ver flag : Nat) (k : KeyRec) (hk : cvKeyOK k) :
    CvWire ver (cvKeyPdu ver flag k) ∧ typeOf (cvKeyPdu ver flag k) = 9 ∧ flagsOf (cvKeyPdu ver flag k) = flag := by
  obtain ⟨_, _, h1, h2⟩ := hk
  have hl : lenOf (cvKeyPdu ver flag k) = 123 := by
    simp [cvKeyPdu, lenOf, be32]
  refine ⟨⟨rfl, ?_, ?_, ?_⟩, rfl, rfl⟩
  · rw [hl]; simp [cvKeyPdu, toBE32, h1, h2]
  · have ht : typeOf (cvKeyPdu ver flag k) = 9 := rfl
    unfold checkSize
    simp only [ht, hl]
    rfl
  · rw [hl]; decide

theorem cv_keyRecOf_pdu (ver flag : Nat) (k : KeyRec) (hk : cvKeyOK k) : keyRecOf (cvKeyPdu ver flag k) = k := by
  obtain ⟨asn, ski, spki, src⟩ := k
  obtain ⟨h0, hs, h1, h2⟩ := hk
  simp only at h0 hs h1 h2
  subst h0
  have e1 : be32 (cvKeyPdu ver flag ⟨asn, ski, spki, 0⟩) 28 = asn := by
    have := cv_be32_at ([ver, 9, flag, 0, 0, 0, 0, 123] ++ ski) asn spki 28 (by simp [h1])
    rw [Nat.mod_eq_of_lt hs, List.append_assoc] at this
    exact this
  have e2 : ((cvKeyPdu ver flag ⟨asn, ski, spki, 0⟩).drop 8).take 20 = ski := by
    show (ski ++ (toBE32 asn ++ spki)).take 20 = ski
    rw [List.take_left' h1]
  have e3 : ((cvKeyPdu ver flag ⟨asn, ski, spki, 0⟩).drop 32).take 91 = spki := by
    have hd : (cvKeyPdu ver flag ⟨asn, ski, spki, 0⟩).drop 32 = spki := by
      show (([ver, 9, flag, 0, 0, 0, 0, 123] ++ (ski ++ (toBE32 asn ++ spki))).drop 32) = spki
      rw [← List.append_assoc, ← List.append_assoc]
      exact List.drop_left' (by simp [h1, toBE32])
    rw [hd, List.take_of_length_le (by omega)]
  unfold keyRecOf
  rw [e1, e2, e3]

theorem cv_keyPdu_ok (ver flag : Nat) (k : KeyRec) (hk : cvKeyOK k) (hf : flag ≤ 1) : keyOK (cvKeyPdu ver flag k) := by
  unfold keyOK
  rw [(cv_keyPdu_wire ver flag k hk).2.2]
  omega

theorem cv_keyOp_pdu (ver flag : Nat) (k : KeyRec) (hk : cvKeyOK k) :
    keyOp (cvKeyPdu ver flag k) = (decide (flag = 1), k) := by
  unfold keyOp
  rw [cv_keyRecOf_pdu ver flag k hk, (cv_keyPdu_wire ver flag k hk).2.2]

end Rtr.P
