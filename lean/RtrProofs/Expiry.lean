/-
  Expiry: the time stamp of the last successful synchronisation and the records of a socket
  (C07): `last_update` is written only by a successful `rtr_sync` (to the current time) and
  cleared only together with a purge; data of this socket in the tables implies a time stamp.
-/
import RtrProofs.Fsm
import RtrProofs.TimeMono

namespace Rtr.P

/-- data from this socket is only present together with the time of its last successful
    synchronisation; the clock reads a positive value -/
def Inv7 (st : St) : Prop :=
  (¬ NoOwn st.t → st.ss.lastUpdate ≠ 0) ∧ (st.ss.lastUpdate = 0 → st.ss.reqSession = true) ∧ 0 < st.n.now

theorem noOwn_of_same {t t' : Tbl} (h : TblSame t t') (hn : NoOwn t) : NoOwn t' :=
  ⟨fun x hx => hn.1 x ((h.1 x).1 hx), fun x hx => hn.2 x ((h.2 x).1 hx)⟩

/-- how one iteration treats the time stamp -/
structure StepLU (fuel : Nat) (st st' : St) : Prop where
  lu : TblOK st.t →
    (st'.ss.lastUpdate = st.ss.lastUpdate ∧ (TblSame st.t st'.t ∨ NoOwn st'.t)) ∨
    (st'.ss.lastUpdate = 0 ∧ NoOwn st'.t ∧ st'.ss.reqSession = true) ∨
    (st.c.state = .sync ∧ (syncG fuel st).1 = true ∧ st'.ss.lastUpdate = (syncG fuel st).2.1.n.now)

theorem stepLU_frame (fuel : Nat) (st st' : St) (h1 : st'.ss = st.ss) (h2 : st'.t = st.t) : StepLU fuel st st' :=
  ⟨fun _ => Or.inl ⟨by rw [h1], Or.inl (by rw [h2]; exact TblSame.refl _)⟩⟩

theorem purgeOutdated_stepLU (fuel : Nat) (st0 st : St) (h : StepLU fuel st0 st) : StepLU fuel st0 (purgeOutdated st) := by
  rcases (purgeOutdated_spec st).2.2.2 with ⟨e, _⟩ | ⟨_, _, ht, hr, hl, _⟩
  · rw [e]; exact h
  · exact ⟨fun _ => Or.inr (Or.inl ⟨hl, by rw [ht]; exact (purge_noOwn st.t).1, hr⟩)⟩

theorem stepConnecting_lu (fuel : Nat) (st : St) : StepLU fuel st (stepConnecting st) := by
  unfold stepConnecting
  have p := purgeOutdated_stepLU fuel st (clearReceived st) (stepLU_frame fuel st _ rfl rfl)
  generalize purgeOutdated (clearReceived st) = st1 at p
  have o := trOpen_frame st1
  generalize trOpen st1 = ro at o
  obtain ⟨rc, st2⟩ := ro
  simp only at o ⊢
  have lift : ∀ (st3 : St), st3.ss = st2.ss → st3.t = st2.t → StepLU fuel st st3 := by
    intro st3 e1 e2
    refine ⟨fun hk => ?_⟩
    rw [e1, e2, o.1, o.2.1]; exact p.lu hk
  split
  · exact lift _ (change_frame _ _).1 (change_frame _ _).2.1
  · split
    · exact lift _ (change_frame _ _).1 (change_frame _ _).2.1
    · have s := sendSerialQuery_frame st2
      generalize sendSerialQuery st2 = rs at s
      obtain ⟨ok, st3⟩ := rs
      simp only at s ⊢
      split
      · exact lift _ (by rw [(change_frame _ _).1, s.1]) (by rw [(change_frame _ _).2.1, s.2.1])
      · exact lift _ (by rw [(change_frame _ _).1, s.1]) (by rw [(change_frame _ _).2.1, s.2.1])

theorem stepSync_lu (fuel : Nat) (st : St) (hs : st.c.state = .sync) : StepLU fuel st (stepSync fuel st) := by
  unfold stepSync
  split
  · rename_i hok
    refine ⟨fun hk => Or.inr (Or.inr ⟨hs, hok, ?_⟩)⟩
    obtain ⟨cr, b, _, _, _, _, _, _, _, _, _, _, h11⟩ := (syncG_spec fuel st hk).success hok
    rw [(change_frame _ _).1]; exact h11
  · rename_i hok
    have hok' : (syncG fuel st).1 = false := by simpa using hok
    refine ⟨fun hk => ?_⟩
    obtain ⟨hl, hc⟩ := (syncG_spec fuel st hk).failure hok'
    rcases hc with ⟨h1, _⟩ | ⟨h1, _⟩
    · exact Or.inl ⟨hl, Or.inl h1⟩
    · exact Or.inl ⟨hl, Or.inr h1⟩

theorem fsmStep_lu (fuel : Nat) (st st' : St) (h : fsmStep fuel st = some st') : StepLU fuel st st' := by
  rw [fsmStep_eq] at h
  cases hs : st.c.state <;> rw [hs] at h <;> simp only [Option.some.injEq] at h
  · subst h; exact stepConnecting_lu fuel st
  · subst h
    unfold stepEstablished
    have w := waitForSync_frame st
    generalize waitForSync st = rw at w
    obtain ⟨ok, st2⟩ := rw
    simp only at w ⊢
    split
    · have s := sendSerialQuery_frame st2
      generalize sendSerialQuery st2 = rs at s
      obtain ⟨ok2, st3⟩ := rs
      simp only at s ⊢
      split
      · exact stepLU_frame fuel st _ (by rw [(change_frame _ _).1, s.1, w.1]) (by rw [(change_frame _ _).2.1, s.2.1, w.2.1])
      · exact stepLU_frame fuel st _ (by rw [s.1, w.1]) (by rw [s.2.1, w.2.1])
    · exact stepLU_frame fuel st _ w.1 w.2.1
  · subst h
    unfold stepReset
    have s := sendResetQuery_frame st
    generalize sendResetQuery st = rs at s
    obtain ⟨ok, st3⟩ := rs
    simp only at s ⊢
    split
    · exact stepLU_frame fuel st _ (by rw [(change_frame _ _).1, s.1]) (by rw [(change_frame _ _).2.1, s.2.1])
    · exact stepLU_frame fuel st _ s.1 s.2.1
  · subst h; exact stepSync_lu fuel st hs
  · subst h; exact stepLU_frame fuel st _ (change_frame _ _).1 (change_frame _ _).2.1
  · subst h
    refine purgeOutdated_stepLU fuel st _ ⟨fun _ => Or.inl ⟨?_, Or.inl ?_⟩⟩
    · show ((requestReset st).change .reset).ss.lastUpdate = _
      rw [(change_frame _ _).1]; rfl
    · show TblSame st.t ((requestReset st).change .reset).t
      rw [(change_frame _ _).2.1]; exact TblSame.refl _
  · subst h
    refine purgeOutdated_stepLU fuel st _ ⟨fun _ => Or.inl ⟨?_, Or.inl ?_⟩⟩
    · rw [(change_frame _ _).1]; rfl
    · rw [(change_frame _ _).2.1]; exact TblSame.refl _
  · subst h
    exact ⟨fun _ => Or.inl ⟨by show ((trClose st).change .connecting).ss.lastUpdate = _; rw [(change_frame _ _).1]; rfl,
      Or.inl (by show TblSame st.t ((trClose st).change .connecting).t; rw [(change_frame _ _).2.1]; exact TblSame.refl _)⟩⟩
  · subst h
    exact ⟨fun _ => Or.inl ⟨by show ((trClose st).change .connecting).ss.lastUpdate = _; rw [(change_frame _ _).1]; rfl,
      Or.inl (by show TblSame st.t ((trClose st).change .connecting).t; rw [(change_frame _ _).2.1]; exact TblSame.refl _)⟩⟩
  · cases h
  · subst h; exact stepLU_frame fuel st _ rfl rfl

theorem fsmStep_sync_succ (fuel : Nat) (st st' : St) (h : fsmStep fuel st = some st') (ht : TblOK st.t)
    (hs : st.c.state = .sync) (hok : (syncG fuel st).1 = true) :
    st'.ss.lastUpdate = (syncG fuel st).2.1.n.now := by
  rw [fsmStep_eq, hs] at h
  simp only [Option.some.injEq] at h
  subst h
  unfold stepSync
  rw [if_pos hok]
  obtain ⟨cr, b, _, _, _, _, _, _, _, _, _, _, h11⟩ := (syncG_spec fuel st ht).success hok
  rw [(change_frame _ _).1]; exact h11

theorem reqSession_of_nextQuery {a b : Sess} (h : nextQuery a = nextQuery b) (hb : b.reqSession = true) :
    a.reqSession = true := by
  unfold nextQuery at h
  rw [hb] at h
  cases ha : a.reqSession
  · rw [ha] at h; simp at h
  · rfl

theorem reqSession_of_none {a : Sess} (h : nextQuery a = none) : a.reqSession = true := by
  unfold nextQuery at h
  cases ha : a.reqSession
  · rw [ha] at h; simp at h
  · rfl

/-- **the invariant is preserved by every iteration** -/
theorem fsmStep_inv7 (fuel : Nat) (st st' : St) (h : fsmStep fuel st = some st') (ht : TblOK st.t) (hi : Inv7 st) :
    Inv7 st' := by
  have hnow := fsmStep_now_le h
  have hpos : 0 < st'.n.now := Int.lt_of_lt_of_le hi.2.2 hnow
  have hsucc : st'.ss.lastUpdate = (syncG fuel st).2.1.n.now → st'.ss.lastUpdate ≠ 0 := by
    intro h3 e
    have := syncG_now_le fuel st
    rw [← h3, e] at this
    exact absurd (Int.lt_of_lt_of_le hi.2.2 this) (by decide)
  rcases (fsmStep_lu fuel st st' h).lu ht with ⟨h1, h2⟩ | ⟨h1, h2, h3⟩ | ⟨_, _, h3⟩
  · refine ⟨fun hown => ?_, fun h0 => ?_, hpos⟩
    · rw [h1]
      rcases h2 with h2 | h2
      · exact hi.1 (fun hn => hown (noOwn_of_same h2 hn))
      · exact absurd h2 hown
    · have hr := hi.2.1 (by rw [← h1]; exact h0)
      rcases (fsmStep_ok fuel st st' h).query ht with q | q | ⟨hs, hok, _⟩
      · exact reqSession_of_nextQuery q hr
      · exact reqSession_of_none q
      · -- a successful synchronisation sets the time stamp to a positive value
        exact absurd h0 (hsucc (fsmStep_sync_succ fuel st st' h ht hs hok))
  · exact ⟨fun hown => absurd h2 hown, fun _ => h3, hpos⟩
  · exact ⟨fun _ => hsucc h3, fun h0 => absurd h0 (hsucc h3), hpos⟩

theorem reach_inv7 (fuel : Nat) {st st' : St} (h : Reach fuel st st') (ht : TblOK st.t) (hi : Inv7 st) : Inv7 st' := by
  induction h with
  | refl => exact hi
  | step r hs ih => exact fsmStep_inv7 fuel _ _ hs (reach_inv fuel r ht).2.1 ih

end Rtr.P
