/-
  HashlinInv: the representation invariant of the tommy_hashlin model and its preservation by
  every grow / shrink step, by insert and by both removals; node multiplicities are tracked
  through every operation by means of additive bucket functionals.
-/
import RtrProofs.HashlinBasic

namespace Rtr
namespace Hashlin
variable {α : Type}

/-- the bucket index of a key, written with moduli: the specification of `bucketPos` -/
def index (h : Hashlin α) (k : Nat) : Nat :=
  if k % h.lowMax < h.split then k % (2 * h.lowMax) else k % h.lowMax

/-- every node stored in a valid bucket is stored in the bucket its key is indexed to -/
def Filed (h : Hashlin α) : Prop := ∀ i, i < h.valid → ∀ n, n ∈ h.bucket i → h.index n.key = i

/-- the representation invariant without the node count -/
structure Wf (h : Hashlin α) : Prop where
  bit_ge : hashlinBit ≤ h.bucketBit
  max_eq : h.bucketMax = 2 ^ h.bucketBit
  mask_eq : h.bucketMask = h.bucketMax - 1
  lowmask_eq : h.lowMask = h.lowMax - 1
  shape : (h.state = .stable ∧ h.lowMax = h.bucketMax ∧ h.split = 0) ∨
          (h.state ≠ .stable ∧ hashlinBit < h.bucketBit ∧ h.bucketMax = 2 * h.lowMax ∧
            0 < h.split ∧ h.split < h.lowMax)
  filed : h.Filed

/-- the representation invariant (DESIGN §5 C10) -/
structure Inv (h : Hashlin α) : Prop extends Wf h where
  count_eq : h.count = sumB List.length h.bucket h.valid

/-- a resize in progress, including the states inside the step loops
    (`split = 0` right after a grow set-up, `split = low_max` right after a shrink set-up) -/
structure Resizing (h : Hashlin α) : Prop where
  bit_gt : hashlinBit < h.bucketBit
  max_eq : h.bucketMax = 2 ^ h.bucketBit
  mask_eq : h.bucketMask = h.bucketMax - 1
  lowmask_eq : h.lowMask = h.lowMax - 1
  max_low : h.bucketMax = 2 * h.lowMax
  split_le : h.split ≤ h.lowMax
  filed : h.Filed

/-- what the index arithmetic needs -/
structure Num (h : Hashlin α) : Prop where
  pow : ∃ k, h.lowMax = 2 ^ k
  lowmask_eq : h.lowMask = h.lowMax - 1
  mask_eq : 0 < h.split → h.bucketMask = 2 * h.lowMax - 1
  split_le : h.split ≤ h.lowMax

theorem Resizing.lowMax_pow {h : Hashlin α} (r : Resizing h) : h.lowMax = 2 ^ (h.bucketBit - 1) := by
  have h1 := r.max_eq
  have h2 := r.max_low
  have h3 := r.bit_gt
  have : h.bucketBit = (h.bucketBit - 1) + 1 := by unfold hashlinBit at h3; omega
  rw [this, Nat.pow_succ] at h1
  omega

theorem Resizing.num {h : Hashlin α} (r : Resizing h) : Num h :=
  ⟨⟨_, r.lowMax_pow⟩, r.lowmask_eq, fun _ => by rw [r.mask_eq, r.max_low], r.split_le⟩

theorem Wf.num {h : Hashlin α} (w : Wf h) : Num h := by
  rcases w.shape with ⟨_, hl, hs⟩ | ⟨_, hb, hm, hs0, hs1⟩
  · exact ⟨⟨h.bucketBit, by rw [hl, w.max_eq]⟩, w.lowmask_eq, fun h0 => by omega, by omega⟩
  · have r : Resizing h := ⟨hb, w.max_eq, w.mask_eq, w.lowmask_eq, hm, by omega, w.filed⟩
    exact r.num

/-- decomposition of a key relative to `m = 2^k` -/
theorem key_decomp (key m : Nat) (hm : ∃ k, m = 2 ^ k) :
    ∃ r t, key % m = r ∧ key % (2 * m) = r + m * t ∧ r < m ∧ (t = 0 ∨ t = 1) ∧
      ((key &&& m = 0) ↔ t = 0) := by
  obtain ⟨k, rfl⟩ := hm
  refine ⟨key % 2 ^ k, key / 2 ^ k % 2, rfl, mod_two_mul key (2 ^ k), Nat.mod_lt _ (two_pow_pos' k), ?_, ?_⟩
  · rcases Nat.mod_two_eq_zero_or_one (key / 2 ^ k) with h | h <;> simp [h]
  · exact and_two_pow_eq_zero_iff key k

theorem Num.lowMax_pos {h : Hashlin α} (n : Num h) : 0 < h.lowMax := by
  obtain ⟨k, hk⟩ := n.pow
  rw [hk]; exact two_pow_pos' k

/-- `tommy_hashlin_bucket_ref` computes `index` -/
theorem bucketPos_eq_index {h : Hashlin α} (n : Num h) (key : Nat) : h.bucketPos key = h.index key := by
  obtain ⟨k, hk⟩ := n.pow
  have h1 : key &&& h.lowMask = key % h.lowMax := by
    rw [n.lowmask_eq, hk]; exact and_mask_eq_mod key k
  unfold bucketPos index
  simp only [h1]
  by_cases hlt : key % h.lowMax < h.split
  · have hs : 0 < h.split := by omega
    have h2 : key &&& h.bucketMask = key % (2 * h.lowMax) := by
      rw [n.mask_eq hs, hk, show 2 * 2 ^ k = 2 ^ (k + 1) by rw [Nat.pow_succ]; omega]
      exact and_mask_eq_mod key (k + 1)
    simp [hlt, h2]
  · simp [hlt]

theorem index_lt_valid {h : Hashlin α} (n : Num h) (key : Nat) : h.index key < h.valid := by
  obtain ⟨r, t, h1, h2, h3, h4, _⟩ := key_decomp key h.lowMax n.pow
  have := n.split_le
  unfold index valid
  rw [h1, h2]
  split
  · rcases h4 with rfl | rfl <;> omega
  · omega

/-! ### one grow step, one shrink step -/

theorem growOne_valid (h : Hashlin α) : (growOne h).valid = h.valid + 1 := by
  simp [growOne, valid]; omega

theorem growOne_resizing {h : Hashlin α} (r : Resizing h) (hs : h.split < h.lowMax) : Resizing (growOne h) := by
  refine ⟨r.bit_gt, r.max_eq, r.mask_eq, r.lowmask_eq, r.max_low, by simp [growOne]; omega, ?_⟩
  intro i hi n hn
  have hpow := r.num.pow
  obtain ⟨q, t, h1, h2, h3, h4, h5⟩ := key_decomp n.key h.lowMax hpow
  have hidx : (growOne h).index n.key = if q < h.split + 1 then q + h.lowMax * t else q := by
    simp only [index, growOne, h1, h2]
  rw [hidx]
  have hold : ∀ j, j < h.lowMax + h.split → n ∈ h.bucket j → (if q < h.split then q + h.lowMax * t else q) = j := by
    intro j hj hnj
    have := r.filed j hj n hnj
    simpa only [index, h1, h2] using this
  have hi' : i < h.lowMax + h.split + 1 := by simpa [growOne, valid, Nat.add_assoc] using hi
  simp only [growOne] at hn
  by_cases hi1 : i = h.split + h.lowMax
  · subst hi1
    rw [upd_same] at hn
    obtain ⟨hn1, hn2⟩ := List.mem_filter.mp hn
    have ht : t ≠ 0 := by
      intro h0
      have := h5.mpr h0
      simp [this] at hn2
    have := hold h.split (by omega) hn1
    rcases h4 with rfl | rfl
    · omega
    · split at this <;> split <;> omega
  · rw [upd_other _ _ hi1] at hn
    by_cases hi2 : i = h.split
    · subst hi2
      rw [upd_same] at hn
      obtain ⟨hn1, hn2⟩ := List.mem_filter.mp hn
      have ht : t = 0 := by
        apply h5.mp
        simpa using hn2
      have := hold h.split (by omega) hn1
      subst ht
      split at this <;> split <;> omega
    · rw [upd_other _ _ hi2] at hn
      have := hold i (by omega) hn
      rcases h4 with rfl | rfl <;> split at this <;> split <;> omega

theorem growOne_sumB {h : Hashlin α} (hs : h.split < h.lowMax) {f : List (HNode α) → Nat} (hf : Additive f) :
    sumB f (growOne h).bucket (growOne h).valid = sumB f h.bucket h.valid := by
  rw [growOne_valid]
  simp only [sumB, growOne, valid]
  rw [show h.lowMax + h.split = h.split + h.lowMax by omega, upd_same,
    sumB_upd_ge f _ _ _ _ (Nat.le_refl _)]
  have h1 := sumB_upd_lt f h.bucket h.split (h.split + h.lowMax)
    (h.bucket h.split |>.filter fun n => (n.key &&& h.lowMax) == 0) (by omega)
  have h2 := hf.filter_split (fun n : HNode α => (n.key &&& h.lowMax) == 0)
    (fun n => (n.key &&& h.lowMax) != 0) (fun x => by simp [bne]) (h.bucket h.split)
  omega

theorem shrinkOne_valid {h : Hashlin α} (hs : 0 < h.split) : (shrinkOne h).valid + 1 = h.valid := by
  simp [shrinkOne, valid]; omega

theorem shrinkOne_resizing {h : Hashlin α} (r : Resizing h) (hs : 0 < h.split) : Resizing (shrinkOne h) := by
  refine ⟨r.bit_gt, r.max_eq, r.mask_eq, r.lowmask_eq, r.max_low, by have := r.split_le; simp [shrinkOne]; omega, ?_⟩
  intro i hi n hn
  have hpow := r.num.pow
  have hle := r.split_le
  obtain ⟨q, t, h1, h2, h3, h4, _⟩ := key_decomp n.key h.lowMax hpow
  have hidx : (shrinkOne h).index n.key = if q < h.split - 1 then q + h.lowMax * t else q := by
    simp only [index, shrinkOne, h1, h2]
  rw [hidx]
  have hold : ∀ j, j < h.lowMax + h.split → n ∈ h.bucket j → (if q < h.split then q + h.lowMax * t else q) = j := by
    intro j hj hnj
    have := r.filed j hj n hnj
    simpa only [index, h1, h2] using this
  have hi' : i < h.lowMax + (h.split - 1) := by simpa [shrinkOne, valid] using hi
  simp only [shrinkOne] at hn
  by_cases hi1 : i = h.split - 1
  · subst hi1
    rw [upd_same] at hn
    rcases List.mem_append.mp hn with hn | hn
    · have := hold (h.split - 1) (by omega) hn
      rcases h4 with rfl | rfl <;> split at this <;> split <;> omega
    · have := hold (h.split - 1 + h.lowMax) (by omega) hn
      rcases h4 with rfl | rfl <;> split at this <;> split <;> omega
  · rw [upd_other _ _ hi1] at hn
    have := hold i (by omega) hn
    rcases h4 with rfl | rfl <;> split at this <;> split <;> omega

theorem shrinkOne_sumB {h : Hashlin α} (hs : 0 < h.split) (hm : 0 < h.lowMax) {f : List (HNode α) → Nat}
    (hf : Additive f) :
    sumB f (shrinkOne h).bucket (shrinkOne h).valid = sumB f h.bucket h.valid := by
  have hv : h.valid = (h.lowMax + (h.split - 1)) + 1 := by simp [valid]; omega
  rw [hv]
  simp only [sumB, shrinkOne, valid]
  have h1 := sumB_upd_lt f h.bucket (h.split - 1) (h.lowMax + (h.split - 1))
    (h.bucket (h.split - 1) ++ h.bucket (h.split - 1 + h.lowMax)) (by omega)
  rw [hf.append] at h1
  rw [show h.lowMax + (h.split - 1) = h.split - 1 + h.lowMax by omega] at h1 ⊢
  omega

/-! ### leaving a resize -/

theorem stable_wf_of_grown {h : Hashlin α} (r : Resizing h) (hs : h.split = h.lowMax) : Wf (stable h) := by
  have hb := r.bit_gt
  refine ⟨by unfold hashlinBit at *; simp [stable]; omega, r.max_eq, r.mask_eq, by simp [stable, r.mask_eq],
    Or.inl ⟨rfl, rfl, rfl⟩, ?_⟩
  intro i hi n hn
  have hi' : i < h.lowMax + h.split := by
    have := r.max_low; simp [stable, valid] at hi; omega
  have hfi := r.filed i hi' n hn
  obtain ⟨q, t, h1, h2, h3, h4, _⟩ := key_decomp n.key h.lowMax r.num.pow
  simp only [index, h1, h2] at hfi
  have hq : q < h.split := by omega
  simp only [hq, if_true] at hfi
  show (if n.key % h.bucketMax < 0 then n.key % (2 * h.bucketMax) else n.key % h.bucketMax) = i
  simp only [Nat.not_lt_zero, if_false, r.max_low, h2]
  exact hfi

theorem stable_sumB_of_grown {h : Hashlin α} (r : Resizing h) (hs : h.split = h.lowMax) (f : List (HNode α) → Nat) :
    sumB f (stable h).bucket (stable h).valid = sumB f h.bucket h.valid := by
  have := r.max_low
  simp only [stable, valid]
  rw [show h.bucketMax + 0 = h.lowMax + h.split by omega]

theorem shrinkFinish_wf {h : Hashlin α} (r : Resizing h) (hs : h.split = 0) : Wf (shrinkFinish h) := by
  have hb := r.bit_gt
  have hp := r.lowMax_pow
  refine ⟨by unfold hashlinBit at *; simp [shrinkFinish, stable]; omega,
    by simp [shrinkFinish, stable, Nat.one_shiftLeft],
    by simp [shrinkFinish, stable], by simp [shrinkFinish, stable], Or.inl ⟨rfl, rfl, rfl⟩, ?_⟩
  intro i hi n hn
  have hlm : (shrinkFinish h).lowMax = h.lowMax := by simp [shrinkFinish, stable, Nat.one_shiftLeft, hp]
  have hi' : i < h.lowMax + h.split := by
    simp only [valid, hlm] at hi; simp [shrinkFinish, stable] at hi; omega
  have := r.filed i hi' n hn
  simp only [index, hs] at this
  simp only [index, hlm]
  simpa [shrinkFinish, stable] using this

theorem shrinkFinish_sumB {h : Hashlin α} (r : Resizing h) (hs : h.split = 0) (f : List (HNode α) → Nat) :
    sumB f (shrinkFinish h).bucket (shrinkFinish h).valid = sumB f h.bucket h.valid := by
  have hp := r.lowMax_pow
  simp only [shrinkFinish, stable, valid, Nat.one_shiftLeft, ← hp, hs]

theorem wf_of_resizing {h : Hashlin α} (r : Resizing h) (hst : h.state ≠ .stable) (h0 : 0 < h.split)
    (h1 : h.split < h.lowMax) : Wf h :=
  ⟨Nat.le_of_lt r.bit_gt, r.max_eq, r.mask_eq, r.lowmask_eq, Or.inr ⟨hst, r.bit_gt, r.max_low, h0, h1⟩, r.filed⟩

/-! ### the step loops -/

theorem growLoop_zero (target : Nat) (h : Hashlin α) : growLoop 0 target h = h := rfl

theorem growLoop_stop (fuel target : Nat) (h : Hashlin α) (hc : ¬ h.split + h.lowMax < target) :
    growLoop (fuel + 1) target h = h := by
  simp [growLoop, hc]

theorem growLoop_done (fuel target : Nat) (h : Hashlin α) (hc : h.split + h.lowMax < target)
    (hd : (growOne h).split = (growOne h).lowMax) : growLoop (fuel + 1) target h = stable (growOne h) := by
  simp [growLoop, hc, hd]

theorem growLoop_cont (fuel target : Nat) (h : Hashlin α) (hc : h.split + h.lowMax < target)
    (hd : (growOne h).split ≠ (growOne h).lowMax) :
    growLoop (fuel + 1) target h = growLoop fuel target (growOne h) := by
  simp [growLoop, hc, hd]

/-- the grow loop: started in a grow state (possibly right after set-up, `split = 0`) it ends in
    a state satisfying the invariant, with the same nodes -/
theorem growLoop_spec (fuel target : Nat) (h : Hashlin α) (r : Resizing h) (hst : h.state = .grow)
    (hs : h.split < h.lowMax) (hgo : 0 < h.split ∨ (0 < fuel ∧ h.split + h.lowMax < target)) :
    Wf (growLoop fuel target h) ∧ (growLoop fuel target h).count = h.count ∧
    ∀ f : List (HNode α) → Nat, Additive f →
      sumB f (growLoop fuel target h).bucket (growLoop fuel target h).valid = sumB f h.bucket h.valid := by
  induction fuel generalizing h with
  | zero =>
    rw [growLoop_zero]
    have h0 : 0 < h.split := by omega
    exact ⟨wf_of_resizing r (by simp [hst]) h0 hs, rfl, fun _ _ => rfl⟩
  | succ fuel ih =>
    by_cases hc : h.split + h.lowMax < target
    · have r1 := growOne_resizing r hs
      have hsp : (growOne h).split = h.split + 1 := rfl
      have hlm : (growOne h).lowMax = h.lowMax := rfl
      by_cases hd : (growOne h).split = (growOne h).lowMax
      · rw [growLoop_done fuel target h hc hd]
        refine ⟨stable_wf_of_grown r1 hd, rfl, fun f hf => ?_⟩
        rw [stable_sumB_of_grown r1 hd f, growOne_sumB hs hf]
      · rw [growLoop_cont fuel target h hc hd]
        obtain ⟨w, c, s⟩ := ih (growOne h) r1 hst (by rw [hsp, hlm] at hd ⊢; omega) (Or.inl (by rw [hsp]; omega))
        exact ⟨w, c, fun f hf => by rw [s f hf, growOne_sumB hs hf]⟩
    · rw [growLoop_stop fuel target h hc]
      have h0 : 0 < h.split := by omega
      exact ⟨wf_of_resizing r (by simp [hst]) h0 hs, rfl, fun _ _ => rfl⟩

theorem shrinkLoop_zero (target : Nat) (h : Hashlin α) : shrinkLoop 0 target h = h := rfl

theorem shrinkLoop_stop (fuel target : Nat) (h : Hashlin α) (hc : ¬ h.split + h.lowMax > target) :
    shrinkLoop (fuel + 1) target h = h := by
  simp [shrinkLoop, hc]

theorem shrinkLoop_done (fuel target : Nat) (h : Hashlin α) (hc : h.split + h.lowMax > target)
    (hd : (shrinkOne h).split = 0) : shrinkLoop (fuel + 1) target h = shrinkFinish (shrinkOne h) := by
  simp [shrinkLoop, hc, hd]

theorem shrinkLoop_cont (fuel target : Nat) (h : Hashlin α) (hc : h.split + h.lowMax > target)
    (hd : (shrinkOne h).split ≠ 0) :
    shrinkLoop (fuel + 1) target h = shrinkLoop fuel target (shrinkOne h) := by
  simp [shrinkLoop, hc, hd]

theorem shrinkLoop_spec (fuel target : Nat) (h : Hashlin α) (r : Resizing h) (hst : h.state = .shrink)
    (hs : 0 < h.split) (hgo : h.split < h.lowMax ∨ (0 < fuel ∧ h.split + h.lowMax > target)) :
    Wf (shrinkLoop fuel target h) ∧ (shrinkLoop fuel target h).count = h.count ∧
    ∀ f : List (HNode α) → Nat, Additive f →
      sumB f (shrinkLoop fuel target h).bucket (shrinkLoop fuel target h).valid = sumB f h.bucket h.valid := by
  induction fuel generalizing h with
  | zero =>
    rw [shrinkLoop_zero]
    have h1 : h.split < h.lowMax := by omega
    exact ⟨wf_of_resizing r (by simp [hst]) hs h1, rfl, fun _ _ => rfl⟩
  | succ fuel ih =>
    have hm := r.num.lowMax_pos
    by_cases hc : h.split + h.lowMax > target
    · have r1 := shrinkOne_resizing r hs
      have hsp : (shrinkOne h).split = h.split - 1 := rfl
      have hlm : (shrinkOne h).lowMax = h.lowMax := rfl
      have hle := r.split_le
      by_cases hd : (shrinkOne h).split = 0
      · rw [shrinkLoop_done fuel target h hc hd]
        refine ⟨shrinkFinish_wf r1 hd, rfl, fun f hf => ?_⟩
        rw [shrinkFinish_sumB r1 hd f, shrinkOne_sumB hs hm hf]
      · rw [shrinkLoop_cont fuel target h hc hd]
        obtain ⟨w, c, s⟩ := ih (shrinkOne h) r1 hst (by omega) (Or.inl (by rw [hsp, hlm]; omega))
        exact ⟨w, c, fun f hf => by rw [s f hf, shrinkOne_sumB hs hm hf]⟩
    · rw [shrinkLoop_stop fuel target h hc]
      have h1 : h.split < h.lowMax := by omega
      exact ⟨wf_of_resizing r (by simp [hst]) hs h1, rfl, fun _ _ => rfl⟩

end Hashlin
end Rtr
