/-
  Helper lemmas for C15, part 6: refused `rtr_mgr_add_group` calls (duplicate preference, refused
  allocation, intervals rejected by `rtr_init`) and the bookkeeping of `config->len` — the counter
  that guards the last group in `rtr_mgr_remove_group` — against the real length of the group list.
-/
import RtrModel.Mgr
import RtrProofs.MgrSort
import RtrProofs.MgrCb
import RtrProofs.MgrStep

namespace Rtr.Mgr

theorem length_of_prefs_eq {a b : List Group} (h : prefs a = prefs b) : a.length = b.length := by
  have := congrArg List.length h
  simpa [prefs] using this

/-- the return code of a refused add is RTR_INVALID_PARAM or RTR_ERROR, never RTR_SUCCESS -/
theorem addRefusal_some {gs : List Group} {p k : Nat} {rc : Int} (h : addRefusal gs p k = some rc) :
    rc = -2 ∨ rc = -1 := by
  unfold addRefusal at h
  split at h
  · cases h; exact Or.inl rfl
  · split at h
    · cases h; exact Or.inr rfl
    · split at h
      · cases h; exact Or.inl rfl
      · split at h
        · cases h; exact Or.inr rfl
        · cases h

theorem addRefusal_none_iff (gs : List Group) (p k : Nat) :
    addRefusal gs p k = none ↔
      (¬ (gs.any (fun g => g.pref == p) = true) ∧ k ≠ 1 ∧ ivsOk (pickIvs defaultIvs gs) = true ∧ k ≠ 2) := by
  unfold addRefusal
  constructor
  · intro h
    split at h
    · cases h
    · rename_i h1
      split at h
      · cases h
      · rename_i h2
        split at h
        · cases h
        · rename_i h3
          split at h
          · cases h
          · rename_i h4
            refine ⟨h1, h2, ?_, h4⟩
            cases hv : ivsOk (pickIvs defaultIvs gs) with
            | true => rfl
            | false => exact absurd hv h3
  · rintro ⟨h1, h2, h3, h4⟩
    rw [if_neg h1, if_neg h2, if_neg (by rw [h3]; decide), if_neg h4]

theorem any_pref_iff {gs : List Group} {p : Nat} :
    gs.any (fun g => g.pref == p) = true ↔ ∃ g ∈ gs, g.pref = p := by
  constructor
  · intro h
    obtain ⟨g, hg, hp⟩ := List.any_eq_true.mp h
    exact ⟨g, hg, by simpa using hp⟩
  · rintro ⟨g, hg, hp⟩
    exact List.any_eq_true.mpr ⟨g, hg, by simpa using hp⟩

/-- the return code of `add` is 0 exactly when the add is not refused -/
theorem add_rc_zero_iff (gs : List Group) (p n k : Nat) : (add gs p n k).2.2 = 0 ↔ addRefusal gs p k = none := by
  rcases add_cases gs p n k with ⟨rc, h1, h⟩ | ⟨h1, _, h⟩
  · rw [h, h1]
    constructor
    · intro e
      rcases addRefusal_some h1 with r | r <;> · rw [r] at e; cases e
    · intro e; cases e
  · rw [h, h1]
    exact ⟨fun _ => rfl, fun _ => rfl⟩

/-- `config->len` as the C code maintains it: `len++` after a successful `rtr_mgr_add_group`,
    `len--` after a successful `rtr_mgr_remove_group`, untouched otherwise -/
def lenAfter (len : Nat) (o : Op) (rc : Int) : Nat :=
  match o with
  | .add _ _ _ => if rc = 0 then len + 1 else len
  | .remove _ => if rc = 0 then len - 1 else len
  | _ => len

/-- the counter and the list never drift apart -/
theorem step_length (gs : List Group) (o : Op) :
    (step gs o).1.length = lenAfter gs.length o (step gs o).2.2 := by
  cases o with
  | ev p i st sy =>
    simp only [step, lenAfter]
    split
    · rename_i r hr
      exact length_of_prefs_eq (event_prefs hr)
    · rfl
  | add p n k =>
    show (add gs p n k).1.length = lenAfter gs.length (.add p n k) (add gs p n k).2.2
    rcases add_cases gs p n k with ⟨rc, h1, h⟩ | ⟨_, _, h⟩
    · rw [h]
      have : rc ≠ 0 := by
        rcases addRefusal_some h1 with r | r <;> · rw [r]; decide
      simp only [lenAfter, if_neg this]
    · rw [h]
      simp only [lenAfter, if_true]
      rw [length_of_prefs_eq (startFirstIfClosed_prefs _), (sortG_perm _).length_eq]
      simp
  | setiv p a b c =>
    simp only [step, lenAfter]
    exact length_of_prefs_eq (prefs_setIvs gs p _)
  | remove p =>
    simp only [step, lenAfter]
    unfold remove
    split
    · simp
    · split
      · simp
      · rename_i g hg
        simp only [if_true]
        rw [length_of_prefs_eq (startFirstIfClosed_prefs _)]
        have := @eraseG_length p gs ⟨g, (findG_some hg).1, (findG_some hg).2⟩
        omega
  | start =>
    simp only [step, lenAfter]
    exact length_of_prefs_eq (start_prefs gs)
  | stop =>
    simp only [step, lenAfter]
    exact length_of_prefs_eq (stop_prefs gs)

theorem run_append (gs : List Group) (a b : List Op) : run gs (a ++ b) = run (run gs a) b := by
  induction a generalizing gs with
  | nil => rfl
  | cons o os ih => simp only [List.cons_append, run]; exact ih _

end Rtr.Mgr
