/-
  HashlinBasic: arithmetic of masks / moduli, pointwise update, additive bucket functionals
  (used to count the nodes of the valid buckets and the multiplicity of one node).
-/
import RtrModel.Hashlin

namespace Rtr

/-! ### pointwise update -/

theorem upd_same {β : Type} (b : Nat → β) (i : Nat) (v : β) : upd b i v i = v := by
  simp [upd]

theorem upd_other {β : Type} (b : Nat → β) {i j : Nat} (v : β) (h : j ≠ i) : upd b i v j = b j := by
  simp [upd, h]

/-! ### masks are moduli, the split bit -/

theorem and_mask_eq_mod (x k : Nat) : x &&& (2 ^ k - 1) = x % 2 ^ k :=
  Nat.and_two_pow_sub_one_eq_mod x k

theorem two_pow_pos' (k : Nat) : 0 < 2 ^ k := Nat.pos_of_ne_zero (by
  intro h; have := Nat.pow_eq_zero.mp h; omega)

/-- `x &&& 2^k` is `2^k` times the bit `k` of `x` -/
theorem and_two_pow_eq (x k : Nat) : x &&& 2 ^ k = 2 ^ k * (x / 2 ^ k % 2) := by
  apply Nat.eq_of_testBit_eq
  intro i
  rw [Nat.testBit_and, Nat.testBit_two_pow]
  by_cases hik : k = i
  · subst hik
    have h1 : (x / 2 ^ k % 2) = (x.testBit k).toNat := by
      rw [Nat.testBit_eq_decide_div_mod_eq]
      rcases Nat.mod_two_eq_zero_or_one (x / 2 ^ k) with h | h <;> simp [h]
    rw [h1]
    cases hb : x.testBit k <;> simp
  · have h2 : (2 ^ k * (x / 2 ^ k % 2)).testBit i = false := by
      rcases Nat.mod_two_eq_zero_or_one (x / 2 ^ k) with h | h
      · simp [h]
      · simp [h, hik]
    simp [hik, h2]

theorem and_two_pow_eq_zero_iff (x k : Nat) : (x &&& 2 ^ k = 0) ↔ x / 2 ^ k % 2 = 0 := by
  rw [and_two_pow_eq]
  constructor
  · intro h
    rcases Nat.mul_eq_zero.mp h with h | h
    · have := two_pow_pos' k; omega
    · exact h
  · intro h; simp [h]

/-- `x mod 2m` from `x mod m` and the bit above (m > 0) -/
theorem mod_two_mul (x m : Nat) : x % (2 * m) = x % m + m * (x / m % 2) := by
  rw [Nat.mul_comm 2 m, Nat.mod_mul]

/-! ### additive functionals over bucket lists -/

/-- a measure of lists that is additive over concatenation (length, multiplicity of an element) -/
structure Additive {β : Type} (f : List β → Nat) : Prop where
  nil : f [] = 0
  append : ∀ a b, f (a ++ b) = f a + f b

theorem additive_length {β : Type} : Additive (List.length : List β → Nat) :=
  ⟨rfl, fun _ _ => List.length_append⟩

theorem additive_count {β : Type} [DecidableEq β] (x : β) : Additive (List.count x : List β → Nat) :=
  ⟨rfl, fun _ _ => List.count_append⟩

theorem Additive.cons {β : Type} {f : List β → Nat} (hf : Additive f) (a : β) (l : List β) :
    f (a :: l) = f [a] + f l := by
  have := hf.append [a] l
  simpa using this

/-- splitting a list by a predicate and its negation loses nothing -/
theorem Additive.filter_split {β : Type} {f : List β → Nat} (hf : Additive f) (p q : β → Bool)
    (hpq : ∀ x, q x = !p x) (l : List β) : f (l.filter p) + f (l.filter q) = f l := by
  induction l with
  | nil => simp [hf.nil]
  | cons a l ih =>
    rw [hf.cons a l]
    by_cases hp : p a = true
    · have hq : q a = false := by rw [hpq, hp]; rfl
      rw [List.filter_cons_of_pos hp, List.filter_cons_of_neg (by simp [hq]), hf.cons a]
      omega
    · have hq : q a = true := by rw [hpq]; simp at hp; simp [hp]
      rw [List.filter_cons_of_neg hp, List.filter_cons_of_pos hq, hf.cons a (l.filter q)]
      omega

/-- removing the first element satisfying `p` removes exactly that element's contribution -/
theorem Additive.eraseP {β : Type} {f : List β → Nat} (hf : Additive f) (p : β → Bool) (l : List β) (n : β)
    (h : l.find? p = some n) : f (l.eraseP p) + f [n] = f l := by
  induction l with
  | nil => simp at h
  | cons a l ih =>
    by_cases hp : p a = true
    · rw [List.find?_cons_of_pos hp] at h
      injection h with h; subst h
      rw [List.eraseP_cons_of_pos hp, hf.cons a l]; omega
    · rw [List.find?_cons_of_neg hp] at h
      rw [List.eraseP_cons_of_neg hp, hf.cons a l, hf.cons a (l.eraseP p)]
      have := ih h; omega

/-- sum of `f` over the buckets `0 … n-1` -/
def sumB {β : Type} (f : List β → Nat) (b : Nat → List β) : Nat → Nat
  | 0 => 0
  | n + 1 => sumB f b n + f (b n)

theorem sumB_congr {β : Type} (f : List β → Nat) (b b' : Nat → List β) (n : Nat)
    (h : ∀ i, i < n → b i = b' i) : sumB f b n = sumB f b' n := by
  induction n with
  | zero => rfl
  | succ n ih =>
    simp only [sumB]
    rw [ih (fun i hi => h i (by omega)), h n (by omega)]

theorem sumB_upd_ge {β : Type} (f : List β → Nat) (b : Nat → List β) (i n : Nat) (v : List β) (h : n ≤ i) :
    sumB f (upd b i v) n = sumB f b n :=
  sumB_congr f _ _ n (fun j hj => upd_other b v (by omega))

theorem sumB_upd_lt {β : Type} (f : List β → Nat) (b : Nat → List β) (i n : Nat) (v : List β) (h : i < n) :
    sumB f (upd b i v) n + f (b i) = sumB f b n + f v := by
  induction n with
  | zero => omega
  | succ n ih =>
    simp only [sumB]
    by_cases hin : i = n
    · subst hin
      rw [sumB_upd_ge f b i i v (Nat.le_refl _), upd_same]; omega
    · have := ih (by omega)
      rw [upd_other b v (Ne.symm hin)]; omega

/-- positivity of a multiplicity sum = membership in one of the buckets -/
theorem sumB_count_pos {β : Type} [DecidableEq β] (x : β) (b : Nat → List β) (n : Nat) :
    0 < sumB (List.count x) b n ↔ ∃ i, i < n ∧ x ∈ b i := by
  induction n with
  | zero => simp [sumB]
  | succ n ih =>
    simp only [sumB]
    constructor
    · intro h
      by_cases h1 : 0 < sumB (List.count x) b n
      · obtain ⟨i, hi, hx⟩ := ih.mp h1
        exact ⟨i, by omega, hx⟩
      · have : 0 < List.count x (b n) := by omega
        exact ⟨n, by omega, List.count_pos_iff.mp this⟩
    · rintro ⟨i, hi, hx⟩
      by_cases hin : i = n
      · subst hin
        have := List.count_pos_iff.mpr hx; omega
      · have := ih.mpr ⟨i, by omega, hx⟩; omega

end Rtr
