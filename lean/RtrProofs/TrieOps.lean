/-
  TrieOps: structural lemmas about the mutating trie operations.
-/
import RtrProofs.TrieWF

namespace Rtr

theorem isLeft_true (w : Nat) (a : Addr) (l : Nat) : isLeft w a l = true ↔ bitAt w a l = false := by
  unfold isLeft; cases bitAt w a l <;> simp

theorem isLeft_false (w : Nat) (a : Addr) (l : Nat) : isLeft w a l = false ↔ bitAt w a l = true := by
  unfold isLeft; cases bitAt w a l <;> simp

theorem keys_eq_map (t : Trie) : t.keys = t.nodes.map (fun c => (c.addr, c.len)) := by
  induction t with
  | nil => rfl
  | node c l r ihl ihr => simp [Trie.keys, Trie.nodes, ihl, ihr]

/-! ## insert (trie_insert) -/

theorem insert_All (w : Nat) (P : NodeC → Prop) : ∀ (t : Trie) (n : NodeC) (lvl : Nat),
    t.All P → P n → (insert w t n lvl).All P := by
  intro t
  induction t with
  | nil => intro n lvl _ hn; exact ⟨hn, trivial, trivial⟩
  | node c l r ihl ihr =>
    intro n lvl ⟨hc, hl, hr⟩ hn
    unfold insert
    by_cases hlt : n.len < c.len <;> simp only [hlt, if_true, if_false] <;> split
    · exact ⟨hn, ihl _ _ hl hc, hr⟩
    · exact ⟨hn, hl, ihr _ _ hr hc⟩
    · exact ⟨hc, ihl _ _ hl hn, hr⟩
    · exact ⟨hc, hl, ihr _ _ hr hn⟩

theorem All_keys {P : NodeC → Prop} (t : Trie) : t.All P → ∀ c : NodeC, (c.addr, c.len) ∈ t.keys →
    ∃ c' : NodeC, c'.addr = c.addr ∧ c'.len = c.len ∧ P c' := by
  induction t with
  | nil => intro _ c h; simp [Trie.keys] at h
  | node c0 l r ihl ihr =>
    intro ⟨h0, hl, hr⟩ c h
    simp only [Trie.keys, List.mem_append, List.mem_cons] at h
    rcases h with h | h | h
    · exact ihl hl c h
    · have : c.addr = c0.addr ∧ c.len = c0.len := by simpa using h
      exact ⟨c0, this.1.symm, this.2.symm, h0⟩
    · exact ihr hr c h

theorem insert_WF (w : Nat) : ∀ (t : Trie) (n : NodeC) (lvl : Nat),
    WF w t lvl → NodeOK w n → (n.addr, n.len) ∉ t.keys → WF w (insert w t n lvl) lvl := by
  intro t
  induction t with
  | nil => intro n lvl _ hn _; exact ⟨hn, trivial, trivial, trivial, trivial⟩
  | node c l r ihl ihr =>
    intro n lvl ⟨hc, hl, hr, wl, wr⟩ hn hnot
    simp only [Trie.keys, List.mem_append, List.mem_cons, not_or] at hnot
    obtain ⟨hnl, hnc, hnr⟩ := hnot
    have hne : ¬ (n.addr = c.addr ∧ n.len = c.len) := by
      intro ⟨h1, h2⟩; apply hnc; rw [h1, h2]
    have cNotL : (c.addr, c.len) ∉ l.keys := by
      intro h
      obtain ⟨c', h1, h2, h3⟩ := All_keys l hl c h
      exact h3.2.2 ⟨h1, h2⟩
    have cNotR : (c.addr, c.len) ∉ r.keys := by
      intro h
      obtain ⟨c', h1, h2, h3⟩ := All_keys r hr c h
      exact h3.2.2 ⟨h1, h2⟩
    unfold insert
    by_cases hlt : n.len < c.len
    · simp only [hlt, if_true]
      have relax : ∀ s x, Below w c lvl s x → Below w n lvl s x := by
        intro s x ⟨b1, b2, b3⟩
        refine ⟨b1, by omega, ?_⟩
        intro ⟨_, e2⟩; omega
      have nl' : ∀ s, (t' : Trie) → t'.All (Below w c lvl s) → t'.All (Below w n lvl s) :=
        fun s t' => All_mono t' (relax s)
      split
      · rename_i hb
        refine ⟨hn, ?_, nl' _ r hr, ihl _ _ wl hc cNotL, wr⟩
        exact insert_All w _ l c _ (nl' _ l hl) ⟨(isLeft_true _ _ _).1 hb, by omega, fun ⟨e1, e2⟩ => hne ⟨e1.symm, e2.symm⟩⟩
      · rename_i hb
        have hb' : bitAt w c.addr lvl = true := (isLeft_false _ _ _).1 (by simpa using hb)
        refine ⟨hn, nl' _ l hl, ?_, wl, ihr _ _ wr hc cNotR⟩
        exact insert_All w _ r c _ (nl' _ r hr) ⟨hb', by omega, fun ⟨e1, e2⟩ => hne ⟨e1.symm, e2.symm⟩⟩
    · simp only [hlt, if_false]
      split
      · rename_i hb
        refine ⟨hc, ?_, hr, ihl _ _ wl hn hnl, wr⟩
        exact insert_All w _ l n _ hl ⟨(isLeft_true _ _ _).1 hb, by omega, hne⟩
      · rename_i hb
        have hb' : bitAt w n.addr lvl = true := (isLeft_false _ _ _).1 (by simpa using hb)
        refine ⟨hc, hl, ?_, wl, ihr _ _ wr hn hnr⟩
        exact insert_All w _ r n _ hr ⟨hb', by omega, hne⟩

/-! ## removeRoot (trie_remove at the node found) -/

theorem root_min (w : Nat) (c : NodeC) (l r : Trie) (d : Nat) (h : WF w (.node c l r) d) :
    (Trie.node c l r).All (fun x => c.len ≤ x.len) :=
  ⟨Nat.le_refl _, All_mono l (fun _ hx => hx.2.1) h.2.1, All_mono r (fun _ hx => hx.2.1) h.2.2.1⟩

theorem removeRoot_All (P : NodeC → Prop) : ∀ (t : Trie), (∀ c l r, t = .node c l r → l.All P ∧ r.All P) →
    (removeRoot t).All P := by
  intro t
  induction t with
  | nil => intro _; trivial
  | node c l r ihl ihr =>
    intro h
    obtain ⟨hl, hr⟩ := h c l r rfl
    cases l with
    | nil =>
      cases r with
      | nil => trivial
      | node cr rl rr =>
        simp only [removeRoot]
        exact ⟨hr.1, trivial, ihr (fun c' l' r' e => by cases e; exact ⟨hr.2.1, hr.2.2⟩)⟩
    | node cl ll lr =>
      cases r with
      | nil =>
        simp only [removeRoot]
        exact ⟨hl.1, ihl (fun c' l' r' e => by cases e; exact ⟨hl.2.1, hl.2.2⟩), trivial⟩
      | node cr rl rr =>
        simp only [removeRoot]
        split
        · exact ⟨hl.1, ihl (fun c' l' r' e => by cases e; exact ⟨hl.2.1, hl.2.2⟩), hr⟩
        · exact ⟨hr.1, hl, ihr (fun c' l' r' e => by cases e; exact ⟨hr.2.1, hr.2.2⟩)⟩

/-- well-formedness of everything but the root payload (which `pfx_table_remove` /
    `pfx_table_remove_id` have just emptied) -/
def WFk (w : Nat) (c : NodeC) (l r : Trie) (d : Nat) : Prop :=
  l.All (Below w c d false) ∧ r.All (Below w c d true) ∧ WF w l (d+1) ∧ WF w r (d+1)

theorem removeRoot_WF' (w : Nat) : ∀ (t : Trie) (d : Nat),
    (∀ c l r, t = .node c l r → WFk w c l r d) → WF w (removeRoot t) d := by
  intro t
  induction t with
  | nil => intro d _; trivial
  | node c l r ihl ihr =>
    intro d h
    obtain ⟨hl, hr, wl, wr⟩ := h c l r rfl
    have sub : ∀ (s : Trie) (e : Nat), WF w s e → (∀ c' l' r', s = .node c' l' r' → WFk w c' l' r' e) := by
      intro s e ws c' l' r' hs; subst hs; exact ⟨ws.2.1, ws.2.2.1, ws.2.2.2.1, ws.2.2.2.2⟩
    have pulled : ∀ (p : NodeC) (sl sr : Trie) (b : Bool), WF w (.node p sl sr) (d+1) →
        (Trie.node p sl sr).All (Below w c d b) →
        (removeRoot (.node p sl sr)).All (Below w p d b) := by
      intro p sl sr b ws hs
      apply removeRoot_All
      intro c' l' r' e; cases e
      obtain ⟨_, hsl, hsr⟩ := hs
      obtain ⟨_, bl, br, _, _⟩ := ws
      constructor
      · rw [All_iff] at *; intro x hx; exact ⟨(hsl x hx).1, (bl x hx).2.1, (bl x hx).2.2⟩
      · rw [All_iff] at *; intro x hx; exact ⟨(hsr x hx).1, (br x hx).2.1, (br x hx).2.2⟩
    have sibling : ∀ (p : NodeC) (s : Trie) (b b' : Bool), b ≠ b' → bitAt w p.addr d = b →
        s.All (Below w c d b') → s.All (fun x => p.len ≤ x.len) → s.All (Below w p d b') := by
      intro p s b b' hbb hp hs hmin
      rw [All_iff] at *
      intro x hx
      refine ⟨(hs x hx).1, hmin x hx, ?_⟩
      intro ⟨e, _⟩
      have := (hs x hx).1
      rw [e, hp] at this; exact hbb this
    cases l with
    | nil =>
      cases r with
      | nil => trivial
      | node cr rl rr =>
        simp only [removeRoot]
        exact ⟨wr.1, trivial, pulled cr rl rr true wr hr, trivial, ihr (d+1) (sub _ _ wr)⟩
    | node cl ll lr =>
      cases r with
      | nil =>
        simp only [removeRoot]
        exact ⟨wl.1, pulled cl ll lr false wl hl, trivial, ihl (d+1) (sub _ _ wl), trivial⟩
      | node cr rl rr =>
        simp only [removeRoot]
        split
        · rename_i hlt
          refine ⟨wl.1, pulled cl ll lr false wl hl, ?_, ihl (d+1) (sub _ _ wl), wr⟩
          apply sibling cl _ false true (by decide) hl.1.1 hr
          exact All_mono _ (fun x hx => by omega) (root_min w cr rl rr (d+1) wr)
        · rename_i hge
          refine ⟨wr.1, ?_, pulled cr rl rr true wr hr, wl, ihr (d+1) (sub _ _ wr)⟩
          apply sibling cr _ true false (by decide) hr.1.1 hl
          exact All_mono _ (fun x hx => by omega) (root_min w cl ll lr (d+1) wl)

theorem removeRoot_WF (w : Nat) (c : NodeC) (l r : Trie) (d : Nat) (h : WFk w c l r d) :
    WF w (removeRoot (.node c l r)) d :=
  removeRoot_WF' w _ d (fun _ _ _ e => by cases e; exact h)

theorem removeRoot_nodes_perm : ∀ (t : Trie) (c : NodeC) (l r : Trie), t = .node c l r →
    (removeRoot t).nodes.Perm (l.nodes ++ r.nodes) := by
  intro t
  induction t with
  | nil => intro c l r h; cases h
  | node c0 l0 r0 ihl ihr =>
    intro c l r h
    cases h
    cases l0 with
    | nil =>
      cases r0 with
      | nil => simp [removeRoot, Trie.nodes]
      | node cr rl rr =>
        have := ihr cr rl rr rfl
        simp only [removeRoot, Trie.nodes, List.nil_append]
        exact (List.Perm.cons cr this).trans (List.perm_middle).symm
    | node cl ll lr =>
      cases r0 with
      | nil =>
        have := ihl cl ll lr rfl
        simp only [removeRoot, Trie.nodes, List.append_nil]
        exact (List.perm_append_singleton cl _).trans ((List.Perm.cons cl this).trans List.perm_middle.symm)
      | node cr rl rr =>
        simp only [removeRoot]
        split
        · have := ihl cl ll lr rfl
          simp only [Trie.nodes]
          have h1 : ((removeRoot (.node cl ll lr)).nodes ++ cl :: (rl.nodes ++ cr :: rr.nodes)).Perm
              (cl :: ((removeRoot (.node cl ll lr)).nodes ++ (rl.nodes ++ cr :: rr.nodes))) := List.perm_middle
          refine h1.trans ?_
          have h2 : ((ll.nodes ++ cl :: lr.nodes) ++ (rl.nodes ++ cr :: rr.nodes)).Perm
              (cl :: ((ll.nodes ++ lr.nodes) ++ (rl.nodes ++ cr :: rr.nodes))) := by
            rw [List.append_assoc, List.append_assoc]
            exact List.perm_middle
          refine (List.Perm.cons cl ?_).trans h2.symm
          exact List.Perm.append_right _ this
        · have := ihr cr rl rr rfl
          simp only [Trie.nodes]
          have h2 : ((ll.nodes ++ cl :: lr.nodes) ++ (rl.nodes ++ cr :: rr.nodes)).Perm
              ((ll.nodes ++ cl :: lr.nodes) ++ cr :: (rl.nodes ++ rr.nodes)) :=
            List.Perm.append_left _ List.perm_middle
          refine List.Perm.trans ?_ h2.symm
          exact List.Perm.append_left _ (List.Perm.cons cr this)

theorem insert_nodes_perm (w : Nat) : ∀ (t : Trie) (n : NodeC) (lvl : Nat),
    (insert w t n lvl).nodes.Perm (n :: t.nodes) := by
  intro t
  induction t with
  | nil => intro n lvl; simp [insert, Trie.nodes]
  | node c l r ihl ihr =>
    intro n lvl
    unfold insert
    by_cases hlt : n.len < c.len <;> simp only [hlt, if_true, if_false] <;> split
    · -- new payload stays here, old one goes left
      simp only [Trie.nodes]
      have := ihl c (lvl+1)
      exact (List.Perm.append_right _ this).trans (by
        simp only [List.cons_append]
        exact (List.perm_middle (a := n) (l₁ := c :: l.nodes) (l₂ := r.nodes)).trans (List.Perm.cons n (List.perm_middle.symm)) |>.symm |>.symm)
    · simp only [Trie.nodes]
      have := ihr c (lvl+1)
      refine (List.Perm.append_left _ (List.Perm.cons n this)).trans ?_
      have h1 : (l.nodes ++ n :: c :: r.nodes).Perm (n :: (l.nodes ++ c :: r.nodes)) := List.perm_middle
      exact h1
    · simp only [Trie.nodes]
      have := ihl n (lvl+1)
      exact (List.Perm.append_right _ this)
    · simp only [Trie.nodes]
      have := ihr n (lvl+1)
      refine (List.Perm.append_left _ (List.Perm.cons c this)).trans ?_
      have h1 : (l.nodes ++ c :: n :: r.nodes).Perm (l.nodes ++ n :: c :: r.nodes) :=
        List.Perm.append_left _ (List.Perm.swap n c _)
      exact h1.trans List.perm_middle

/-! ## lookupExact (trie_lookup_exact) -/

theorem mem_keys_iff (t : Trie) (a : Addr) (n : Nat) : (a, n) ∈ t.keys ↔ ∃ x ∈ t.nodes, x.addr = a ∧ x.len = n := by
  rw [keys_eq_map, List.mem_map]
  constructor
  · rintro ⟨x, hx, e⟩; exact ⟨x, hx, by simpa using e⟩
  · rintro ⟨x, hx, e1, e2⟩; exact ⟨x, hx, by simp [e1, e2]⟩

theorem not_mem_keys_of_len (t : Trie) (a : Addr) (n m : Nat) (h : t.All (fun x => m ≤ x.len)) (hm : n < m) :
    (a, n) ∉ t.keys := by
  rw [mem_keys_iff]
  rintro ⟨x, hx, _, e2⟩
  have := (All_iff t).1 h x hx
  omega

theorem not_mem_keys_of_bit (w : Nat) (t : Trie) (c : NodeC) (d : Nat) (b : Bool) (a : Addr) (n : Nat)
    (h : t.All (Below w c d b)) (hb : bitAt w a d ≠ b) : (a, n) ∉ t.keys := by
  rw [mem_keys_iff]
  rintro ⟨x, hx, e1, _⟩
  have := ((All_iff t).1 h x hx).1
  rw [e1] at this
  exact hb this

theorem not_mem_keys_node (c : NodeC) (l r : Trie) (k : Addr × Nat) (h1 : k ∉ l.keys) (h2 : k ≠ (c.addr, c.len))
    (h3 : k ∉ r.keys) : k ∉ (Trie.node c l r).keys := by
  simp only [Trie.keys, List.mem_append, List.mem_cons, not_or]; exact ⟨h1, h2, h3⟩

/-- what `trie_lookup_exact` returns on a well-formed (sub)trie entered at depth `d` -/
def LxSpec (q : Addr) (n : Nat) (t : Trie) : LxRes → Prop
  | .up => (q, n) ∉ t.keys
  | .at p true => ∃ c l r, t.subAt p = .node c l r ∧ c.addr = q ∧ c.len = n
  | .at p false => (q, n) ∉ t.keys ∧ (t ≠ .nil → ∃ c l r, t.subAt p = .node c l r)

theorem lookupExact_spec (w : Nat) (q : Addr) (n : Nat) : ∀ (t : Trie) (d : Nat), WF w t d →
    LxSpec q n t (lookupExact w q n t d) := by
  intro t
  induction t with
  | nil => intro d _; simp [lookupExact, LxSpec, Trie.keys]
  | node c l r ihl ihr =>
    intro d ⟨hc, hl, hr, wl, wr⟩
    have lmin : l.All (fun x => c.len ≤ x.len) := All_mono l (fun _ hx => hx.2.1) hl
    have rmin : r.All (fun x => c.len ≤ x.len) := All_mono r (fun _ hx => hx.2.1) hr
    unfold lookupExact
    split
    · -- return the parent
      rename_i h
      simp only [LxSpec]
      refine not_mem_keys_node c l r _ (not_mem_keys_of_len l q n _ lmin h.2) ?_ (not_mem_keys_of_len r q n _ rmin h.2)
      intro e; have : c.len = n := by simpa using (congrArg Prod.snd e).symm
      omega
    · split
      · rename_i _ h
        exact ⟨c, l, r, rfl, h.2, h.1⟩
      · rename_i hup hsame
        have rootne : (q, n) ≠ (c.addr, c.len) := by
          intro e
          apply hsame
          exact ⟨by simpa using (congrArg Prod.snd e).symm, by simpa using (congrArg Prod.fst e).symm⟩
        split
        · rename_i hleft
          have hb : bitAt w q d ≠ true := by rw [(isLeft_true _ _ _).1 hleft]; decide
          have nr := not_mem_keys_of_bit w r c d true q n hr hb
          split
          · -- no left child
            simp only [LxSpec]
            exact ⟨not_mem_keys_node _ _ _ _ (by simp [Trie.keys]) rootne nr, fun _ => ⟨c, .nil, r, rfl⟩⟩
          · rename_i cl ll lr
            have ih := ihl (d+1) wl
            split
            · rename_i hres
              rw [hres] at ih
              simp only [LxSpec] at ih ⊢
              exact ⟨not_mem_keys_node _ _ _ _ ih rootne nr, fun _ => ⟨c, _, r, rfl⟩⟩
            · rename_i p f hres
              rw [hres] at ih
              cases f with
              | true =>
                simp only [LxSpec] at ih ⊢
                simpa [Trie.subAt] using ih
              | false =>
                simp only [LxSpec] at ih ⊢
                refine ⟨not_mem_keys_node _ _ _ _ ih.1 rootne nr, fun _ => ?_⟩
                simpa [Trie.subAt] using ih.2 (by simp)
        · rename_i hleft
          have hleft' : isLeft w q d = false := by simpa using hleft
          have hb : bitAt w q d ≠ false := by rw [(isLeft_false _ _ _).1 hleft']; decide
          have nl := not_mem_keys_of_bit w l c d false q n hl hb
          split
          · simp only [LxSpec]
            exact ⟨not_mem_keys_node _ _ _ _ nl rootne (by simp [Trie.keys]), fun _ => ⟨c, l, .nil, rfl⟩⟩
          · rename_i cr rl rr
            have ih := ihr (d+1) wr
            split
            · rename_i hres
              rw [hres] at ih
              simp only [LxSpec] at ih ⊢
              exact ⟨not_mem_keys_node _ _ _ _ nl rootne ih, fun _ => ⟨c, l, _, rfl⟩⟩
            · rename_i p f hres
              rw [hres] at ih
              cases f with
              | true =>
                simp only [LxSpec] at ih ⊢
                simpa [Trie.subAt] using ih
              | false =>
                simp only [LxSpec] at ih ⊢
                refine ⟨not_mem_keys_node _ _ _ _ nl rootne ih.1, fun _ => ?_⟩
                simpa [Trie.subAt] using ih.2 (by simp)

/-- `pfx_table_add`, no node with that key: inserting at the node returned by
    `trie_lookup_exact`, at the level it reports, is inserting from where the search started -/
theorem lookupExact_insert (w : Nat) (new : NodeC) : ∀ (t : Trie) (d : Nat), WF w t d → ∀ (p : List Bool),
    lookupExact w new.addr new.len t d = .at p false →
    t.modifyAt p (fun s => insert w s new (d + p.length)) = insert w t new d := by
  intro t
  induction t with
  | nil => intro d _ p h; simp [lookupExact] at h; subst h; simp [Trie.modifyAt]
  | node c l r ihl ihr =>
    intro d ⟨hc, hl, hr, wl, wr⟩ p h
    unfold lookupExact at h
    split at h
    · cases h
    · rename_i hup
      split at h
      · cases h
      · rename_i hsame
        -- a child that exists and does not send us back up is at least as long as the new prefix allows
        have noswap : ∀ (s : Trie) (b : Bool) (cs : NodeC) (sl sr : Trie), s = .node cs sl sr → s.All (Below w c d b) →
            lookupExact w new.addr new.len s (d+1) ≠ .up → ¬ new.len < c.len := by
          intro s b cs sl sr es hs hne hlt
          subst es
          apply hne
          unfold lookupExact
          have : c.len ≤ cs.len := hs.1.2.1
          simp; omega
        split at h
        · rename_i hleft
          split at h
          · -- no left child: p = []
            simp at h; subst h; simp [Trie.modifyAt]
          · rename_i cl ll lr
            split at h
            · simp at h; subst h; simp [Trie.modifyAt]
            · rename_i p' f hres
              simp at h
              obtain ⟨hp, hf⟩ := h
              subst hp; subst hf
              have ns := noswap _ false cl ll lr rfl hl (by rw [hres]; simp)
              have ih := ihl (d+1) wl p' hres
              have e : d + (false :: p').length = d + 1 + p'.length := by simp; omega
              simp only [Trie.modifyAt, e, ih]
              conv => rhs; unfold insert
              simp [ns, hleft]
        · rename_i hleft
          split at h
          · simp at h; subst h; simp [Trie.modifyAt]
          · rename_i cr rl rr
            split at h
            · simp at h; subst h; simp [Trie.modifyAt]
            · rename_i p' f hres
              simp at h
              obtain ⟨hp, hf⟩ := h
              subst hp; subst hf
              have ns := noswap _ true cr rl rr rfl hr (by rw [hres]; simp)
              have ih := ihr (d+1) wr p' hres
              have e : d + (true :: p').length = d + 1 + p'.length := by simp; omega
              simp only [Trie.modifyAt, e, ih]
              conv => rhs; unfold insert
              simp [ns, hleft]

/-! ## modifyAt -/

/-- every key of `t'` is a key of `t` -/
def KeySub (t' t : Trie) : Prop := ∀ x ∈ t'.nodes, ∃ y ∈ t.nodes, x.addr = y.addr ∧ x.len = y.len

theorem KeySub_refl (t : Trie) : KeySub t t := fun x hx => ⟨x, hx, rfl, rfl⟩

theorem Below_congr (w : Nat) (p : NodeC) (d : Nat) (b : Bool) (x y : NodeC) (h1 : x.addr = y.addr) (h2 : x.len = y.len)
    (h : Below w p d b y) : Below w p d b x := by
  unfold Below at *; rw [h1, h2]; exact h

theorem All_Below_of_KeySub (w : Nat) (p : NodeC) (d : Nat) (b : Bool) (t' t : Trie) (hk : KeySub t' t)
    (h : t.All (Below w p d b)) : t'.All (Below w p d b) := by
  rw [All_iff] at *
  intro x hx
  obtain ⟨y, hy, e1, e2⟩ := hk x hx
  exact Below_congr w p d b x y e1 e2 (h y hy)

theorem modifyAt_KeySub : ∀ (t : Trie) (p : List Bool) (f : Trie → Trie),
    KeySub (f (t.subAt p)) (t.subAt p) → KeySub (t.modifyAt p f) t := by
  intro t
  induction t with
  | nil =>
    intro p f h
    cases p with
    | nil => simpa [Trie.modifyAt, Trie.subAt] using h
    | cons b p => simp [Trie.modifyAt]; exact KeySub_refl _
  | node c l r ihl ihr =>
    intro p f h
    cases p with
    | nil => simpa [Trie.modifyAt, Trie.subAt] using h
    | cons b p =>
      cases b with
      | true =>
        have ih := ihr p f (by simpa [Trie.subAt] using h)
        intro x hx
        simp only [Trie.modifyAt, if_true, Trie.nodes, List.mem_append, List.mem_cons] at hx ⊢
        rcases hx with hx | hx | hx
        · exact ⟨x, Or.inl hx, rfl, rfl⟩
        · exact ⟨x, Or.inr (Or.inl hx), rfl, rfl⟩
        · obtain ⟨y, hy, e⟩ := ih x hx; exact ⟨y, Or.inr (Or.inr hy), e⟩
      | false =>
        have ih := ihl p f (by simpa [Trie.subAt] using h)
        intro x hx
        simp only [Trie.modifyAt, Bool.false_eq_true, if_false, Trie.nodes, List.mem_append, List.mem_cons] at hx ⊢
        rcases hx with hx | hx | hx
        · obtain ⟨y, hy, e⟩ := ih x hx; exact ⟨y, Or.inl hy, e⟩
        · exact ⟨x, Or.inr (Or.inl hx), rfl, rfl⟩
        · exact ⟨x, Or.inr (Or.inr hx), rfl, rfl⟩

/-- a modification below `p` that is well-formed there and introduces no new key keeps the
    whole trie well-formed -/
theorem modifyAt_WF (w : Nat) : ∀ (t : Trie) (d : Nat) (p : List Bool) (f : Trie → Trie), WF w t d →
    WF w (f (t.subAt p)) (d + p.length) → KeySub (f (t.subAt p)) (t.subAt p) → WF w (t.modifyAt p f) d := by
  intro t
  induction t with
  | nil =>
    intro d p f _ h _
    cases p with
    | nil => simpa [Trie.modifyAt, Trie.subAt] using h
    | cons b p => simp [Trie.modifyAt, WF]
  | node c l r ihl ihr =>
    intro d p f ⟨hc, hl, hr, wl, wr⟩ h hk
    cases p with
    | nil => simpa [Trie.modifyAt, Trie.subAt] using h
    | cons b p =>
      have e : d + (b :: p).length = d + 1 + p.length := by simp; omega
      rw [e] at h
      cases b with
      | true =>
        simp only [Trie.subAt, if_true] at h hk
        simp only [Trie.modifyAt, if_true]
        exact ⟨hc, hl, All_Below_of_KeySub w c d true _ r (modifyAt_KeySub r p f hk) hr, wl, ihr (d+1) p f wr h hk⟩
      | false =>
        simp only [Trie.subAt] at h hk
        simp only [Trie.modifyAt]
        exact ⟨hc, All_Below_of_KeySub w c d false _ l (modifyAt_KeySub l p f hk) hl, hr, ihl (d+1) p f wl h hk, wr⟩

theorem subAt_WF (w : Nat) : ∀ (t : Trie) (d : Nat) (p : List Bool), WF w t d → WF w (t.subAt p) (d + p.length) := by
  intro t
  induction t with
  | nil => intro d p _; cases p <;> simp [Trie.subAt, WF]
  | node c l r ihl ihr =>
    intro d p h
    cases p with
    | nil => simpa [Trie.subAt] using h
    | cons b p =>
      have e : d + (b :: p).length = d + 1 + p.length := by simp; omega
      rw [e]
      cases b with
      | true => simpa [Trie.subAt] using ihr (d+1) p h.2.2.2.2
      | false => simpa [Trie.subAt] using ihl (d+1) p h.2.2.2.1

/-- the nodes outside the subtree at `p` are untouched by `modifyAt` -/
theorem modifyAt_nodes : ∀ (t : Trie) (p : List Bool), (∃ c l r, t.subAt p = .node c l r) →
    ∃ rest, t.nodes.Perm ((t.subAt p).nodes ++ rest) ∧
      ∀ f, (t.modifyAt p f).nodes.Perm ((f (t.subAt p)).nodes ++ rest) := by
  intro t
  induction t with
  | nil =>
    intro p h
    cases p with
    | nil => exact ⟨[], by simp [Trie.subAt], fun f => by simp [Trie.modifyAt, Trie.subAt]⟩
    | cons b p => obtain ⟨c, l, r, e⟩ := h; simp [Trie.subAt] at e
  | node c l r ihl ihr =>
    intro p h
    cases p with
    | nil => exact ⟨[], by simp [Trie.subAt], fun f => by simp [Trie.modifyAt, Trie.subAt]⟩
    | cons b p =>
      cases b with
      | true =>
        obtain ⟨rest, h1, h2⟩ := ihr p (by simpa [Trie.subAt] using h)
        refine ⟨l.nodes ++ c :: rest, ?_, fun f => ?_⟩
        · simp only [Trie.subAt, if_true, Trie.nodes]
          have : (l.nodes ++ c :: r.nodes).Perm (l.nodes ++ c :: ((r.subAt p).nodes ++ rest)) :=
            List.Perm.append_left _ (List.Perm.cons c h1)
          refine this.trans ?_
          have e : l.nodes ++ c :: ((r.subAt p).nodes ++ rest) = (l.nodes ++ [c]) ++ ((r.subAt p).nodes ++ rest) := by simp
          rw [e]
          have e2 : (r.subAt p).nodes ++ (l.nodes ++ c :: rest) = (r.subAt p).nodes ++ ((l.nodes ++ [c]) ++ rest) := by simp
          rw [e2, ← List.append_assoc, ← List.append_assoc]
          exact List.Perm.append_right _ List.perm_append_comm
        · simp only [Trie.subAt, Trie.modifyAt, if_true, Trie.nodes]
          have : (l.nodes ++ c :: (r.modifyAt p f).nodes).Perm (l.nodes ++ c :: ((f (r.subAt p)).nodes ++ rest)) :=
            List.Perm.append_left _ (List.Perm.cons c (h2 f))
          refine this.trans ?_
          have e : l.nodes ++ c :: ((f (r.subAt p)).nodes ++ rest) = (l.nodes ++ [c]) ++ ((f (r.subAt p)).nodes ++ rest) := by simp
          rw [e]
          have e2 : (f (r.subAt p)).nodes ++ (l.nodes ++ c :: rest) = (f (r.subAt p)).nodes ++ ((l.nodes ++ [c]) ++ rest) := by simp
          rw [e2, ← List.append_assoc, ← List.append_assoc]
          exact List.Perm.append_right _ List.perm_append_comm
      | false =>
        obtain ⟨rest, h1, h2⟩ := ihl p (by simpa [Trie.subAt] using h)
        refine ⟨rest ++ c :: r.nodes, ?_, fun f => ?_⟩
        · simp only [Trie.subAt, Trie.nodes]
          rw [← List.append_assoc]
          exact List.Perm.append_right _ h1
        · simp only [Trie.subAt, Trie.modifyAt, Trie.nodes]
          rw [← List.append_assoc]
          exact List.Perm.append_right _ (h2 f)

/-! ## keys are unique in a well-formed trie -/

theorem WF_keys_nodup (w : Nat) : ∀ (t : Trie) (d : Nat), WF w t d → t.keys.Nodup := by
  intro t
  induction t with
  | nil => intro _ _; simp [Trie.keys]
  | node c l r ihl ihr =>
    intro d ⟨hc, hl, hr, wl, wr⟩
    simp only [Trie.keys]
    rw [List.nodup_append]
    refine ⟨ihl _ wl, ?_, ?_⟩
    · rw [List.nodup_cons]
      refine ⟨?_, ihr _ wr⟩
      intro h
      obtain ⟨x, hx, e1, e2⟩ := (mem_keys_iff r c.addr c.len).1 h
      exact ((All_iff r).1 hr x hx).2.2 ⟨e1, e2⟩
    · intro a ha b hb
      rcases List.mem_cons.1 hb with rfl | hb
      · intro e; subst e
        obtain ⟨x, hx, e1, e2⟩ := (mem_keys_iff l c.addr c.len).1 ha
        exact ((All_iff l).1 hl x hx).2.2 ⟨e1, e2⟩
      · intro e; subst e
        obtain ⟨x, hx, e1, e2⟩ := (mem_keys_iff l a.1 a.2).1 ha
        obtain ⟨y, hy, e3, e4⟩ := (mem_keys_iff r a.1 a.2).1 hb
        have b1 := ((All_iff l).1 hl x hx).1
        have b2 := ((All_iff r).1 hr y hy).1
        rw [e1] at b1; rw [e3] at b2
        rw [b1] at b2; cases b2

/-! ## removeId (pfx_table_remove_id) -/

/-- payload elements of a trie with their node keys, in enumeration order -/
def Trie.elems (t : Trie) : List (Addr × Nat × Elem) :=
  t.nodes.flatMap fun c => c.data.map fun e => (c.addr, c.len, e)

theorem elems_node (c : NodeC) (l r : Trie) :
    (Trie.node c l r).elems = l.elems ++ (c.data.map fun e => (c.addr, c.len, e)) ++ r.elems := by
  simp [Trie.elems, Trie.nodes, List.flatMap_append]

theorem elems_nil : Trie.nil.elems = [] := rfl

theorem elems_perm {t t' : Trie} (h : t.nodes.Perm t'.nodes) : t.elems.Perm t'.elems :=
  List.Perm.flatMap_right _ h

structure RemoveIdOK (w : Nat) (src : Nat) (t : Trie) (d : Nat) (res : Trie × List (Addr × Nat × Elem)) : Prop where
  wf : WF w res.1 d
  sub : KeySub res.1 t
  kept : res.1.elems.Perm (t.elems.filter fun x => x.2.2.src != src)
  gone : res.2.Perm (t.elems.filter fun x => x.2.2.src == src)

theorem filter_map_key (c : NodeC) (p : Elem → Bool) :
    (c.data.map fun e => (c.addr, c.len, e)).filter (fun x => p x.2.2) = (c.data.filter p).map fun e => (c.addr, c.len, e) := by
  rw [List.filter_map]; rfl

theorem removeId_spec (w : Nat) (src : Nat) : ∀ (t : Trie) (d : Nat),
    (∀ c l r, t = .node c l r → NodeOK w c ∨ True) → -- (placeholder to keep the statement shape simple)
    (match t with | .nil => True | .node c l r => c.len ≤ w ∧ c.addr < 2^w ∧ hostZero w c.addr c.len ∧ c.data.Nodup ∧ WFk w c l r d) →
    RemoveIdOK w src t d (removeId src t)
  | .nil, d, _, _ => by
    rw [removeId]
    exact ⟨trivial, KeySub_refl _, by simp [Trie.elems, Trie.nodes], by simp [Trie.elems, Trie.nodes]⟩
  | .node c l r, d, _, h => by
    obtain ⟨c1, c2, c3, c4, hl, hr, wl, wr⟩ := h
    rw [removeId]
    simp only
    have wfchild : ∀ (s : Trie) (e : Nat), WF w s e →
        (match s with | .nil => True | .node c l r => c.len ≤ w ∧ c.addr < 2^w ∧ hostZero w c.addr c.len ∧ c.data.Nodup ∧ WFk w c l r e) := by
      intro s e ws
      cases s with
      | nil => trivial
      | node c' l' r' => exact ⟨ws.1.1, ws.1.2.1, ws.1.2.2.1, ws.1.2.2.2.2, ws.2.1, ws.2.2.1, ws.2.2.2.1, ws.2.2.2.2⟩
    split
    · rename_i hkept
      have hk : c.data.filter (fun e => e.src != src) = [] := by simpa using hkept
      have hall : c.data.filter (fun e => e.src == src) = c.data := by
        rw [List.filter_eq_self]
        rw [List.filter_eq_nil_iff] at hk
        intro a ha; have := hk a ha; simpa using this
      split
      · -- leaf: unlinked
        rename_i hleaf
        have hl0 : l = .nil := by cases l <;> simp_all [Trie.isNil]
        have hr0 : r = .nil := by cases r <;> simp_all [Trie.isNil]
        subst hl0; subst hr0
        refine ⟨trivial, fun x hx => by simp [Trie.nodes] at hx, ?_, ?_⟩
        · simp only [elems_node, elems_nil, List.nil_append, List.append_nil]
          rw [filter_map_key c (fun e => e.src != src), hk]; simp
        · simp only [elems_node, elems_nil, List.nil_append, List.append_nil]
          rw [filter_map_key c (fun e => e.src == src), hall]
      · -- payload pulled up; check the same position again
        have wk : WFk w { c with data := [] } l r d := ⟨hl, hr, wl, wr⟩
        have wt' := removeRoot_WF w _ l r d wk
        have np := removeRoot_nodes_perm _ { c with data := [] } l r rfl
        have ih := removeId_spec w src (removeRoot (.node { c with data := [] } l r)) d (fun _ _ _ _ => Or.inr trivial)
          (wfchild _ _ wt')
        have ep : (removeRoot (.node { c with data := [] } l r)).elems.Perm (l.elems ++ r.elems) := by
          have := List.Perm.flatMap_right (fun (c : NodeC) => c.data.map fun e => (c.addr, c.len, e)) np
          simpa [Trie.elems, List.flatMap_append] using this
        refine ⟨ih.wf, ?_, ?_, ?_⟩
        · intro x hx
          obtain ⟨y, hy, e⟩ := ih.sub x hx
          have := np.mem_iff.1 hy
          refine ⟨y, ?_, e⟩
          simp only [Trie.nodes, List.mem_append, List.mem_cons] at this ⊢
          rcases this with h | h
          · exact Or.inl h
          · exact Or.inr (Or.inr h)
        · refine ih.kept.trans ?_
          refine (List.Perm.filter _ ep).trans ?_
          simp only [elems_node, List.filter_append]
          rw [filter_map_key c (fun e => e.src != src), hk]; simp
        · simp only
          refine (List.Perm.append_left _ ih.gone).trans ?_
          refine (List.Perm.append_left _ (List.Perm.filter _ ep)).trans ?_
          simp only [elems_node, List.filter_append]
          rw [filter_map_key c (fun e => e.src == src), hall]
          rw [← List.append_assoc]
          exact List.Perm.append_right _ List.perm_append_comm
    · rename_i hkept
      have hk : c.data.filter (fun e => e.src != src) ≠ [] := by simpa using hkept
      have ihl := removeId_spec w src l (d+1) (fun _ _ _ _ => Or.inr trivial) (wfchild _ _ wl)
      have ihr := removeId_spec w src r (d+1) (fun _ _ _ _ => Or.inr trivial) (wfchild _ _ wr)
      refine ⟨⟨⟨c1, c2, c3, hk, c4.sublist List.filter_sublist⟩,
          All_Below_of_KeySub w c d false _ l ihl.sub hl, All_Below_of_KeySub w c d true _ r ihr.sub hr, ihl.wf, ihr.wf⟩, ?_, ?_, ?_⟩
      · intro x hx
        simp only [Trie.nodes, List.mem_append, List.mem_cons] at hx ⊢
        rcases hx with h | h | h
        · obtain ⟨y, hy, e⟩ := ihl.sub x h; exact ⟨y, Or.inl hy, e⟩
        · exact ⟨c, Or.inr (Or.inl rfl), by simp [h], by simp [h]⟩
        · obtain ⟨y, hy, e⟩ := ihr.sub x h; exact ⟨y, Or.inr (Or.inr hy), e⟩
      · simp only [elems_node, List.filter_append]
        rw [filter_map_key c (fun e => e.src != src)]
        exact (ihl.kept.append_right _).append ihr.kept |>.trans (by simp)
      · simp only [elems_node, List.filter_append]
        rw [filter_map_key c (fun e => e.src == src)]
        have h1 : ((List.filter (fun e => e.src == src) c.data).map (fun e => (c.addr, c.len, e)) ++ (removeId src l).2 ++ (removeId src r).2).Perm
            ((removeId src l).2 ++ (List.filter (fun e => e.src == src) c.data).map (fun e => (c.addr, c.len, e)) ++ (removeId src r).2) :=
          List.Perm.append_right _ List.perm_append_comm
        refine h1.trans ?_
        exact (ihl.gone.append_right _).append ihr.gone
termination_by t => t.size
decreasing_by
  all_goals first
    | exact removeRoot_size_lt { c with data := [] } l r
    | (simp [Trie.size]; omega)

end Rtr
