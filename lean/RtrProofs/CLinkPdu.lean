/-
  CLinkPdu: the memory-mode translations of `rtr_get_pdu_type` and `rtr_pdu_check_size` (rtrlib/rtr/packets.c,
  translated by tools/gen_cfuns.py into RtrModel/Generated/CFuns.lean on every run) against the hand-written model
  `Rtr.P.checkSize` (RtrModel/Rtr.lean) and its specification `Rtr.P.KnownSize` (RtrProofs/Chunking.lean).

  What has to be bridged: when the C function runs (`rtr_receive_pdu`), the 8-byte header of the receive buffer has
  already been converted to host byte order in place (`rtr_pdu_header_to_host_byte_order`: the 16-bit field at
  offset 2 and the 32-bit length at offset 4 are byte-swapped), everything behind the header is still in network
  byte order; the model reads the raw network-order bytes throughout. `hostHeader raw` is that buffer (on the
  little-endian host the translator's `load32` models).

  Results (for EVERY byte list `raw` whose length field `n = lenOf raw` satisfies `8 ≤ n ≤ raw.length`, the object
  handed to the C function being exactly the `n` received bytes):
    * `rtr_get_pdu_type_eq`            the type is the SIGN-extended byte at offset 1; defined iff the object has 2 bytes
    * `rtr_pdu_check_size_eq`          the C text returns exactly `checkSize raw`
        (`rtr_pdu_check_size_eq_view`: on every memory that is a `HostView` of `raw` - bytes 2, 3 are irrelevant)
    * `rtr_pdu_check_size_safe`        it never leaves the defined fragment: every read stays inside the first `n`
                                       bytes, for every content (every nested length of an Error Report, also near 2^32)
    * `rtr_pdu_check_size_mem_indep`   (arbitrary memory, size, pointer) bytes at offsets ≥ msize do not influence the
                                       result, nor whether there is one
    * `rtr_pdu_check_size_eq_of_agree` the two combined: whatever lies behind the received bytes
    * `rtr_pdu_check_size_true_iff`    `= some true ↔ KnownSize raw`
    * `rtr_pdu_header_to_host_byte_order_view`, `rtr_convert_then_check_size_eq`: the translated header conversion
      produces such a buffer, and conversion followed by the check (both as translated) is `some (checkSize raw)`;
      so `hostHeader` is not a trusted definition (the C conversion leaves bytes 2, 3 of a ROUTER_KEY PDU unswapped,
      `hostHeader` swaps them always - the size check never reads them)

  The proofs do not navigate the generated term: they normalise it with simp sets (loads ↦ numbers), split on the
  type value and close the arithmetic with `grind`/`omega`; memory independence peels equal conditions off both
  sides and lets `grind` use "guarded loads agree".
  NB (Lean 4.33): `simp` with a custom discharger, `+contextual`, and `split` run without cache and are exponential
  in the depth of the generated `if … else if …` chain - they are only used after the chain has been taken apart.
-/
import RtrProofs.CLink
import RtrModel.Rtr
import RtrProofs.Chunking

namespace Rtr.CLink
open Rtr Rtr.Gen Rtr.P

/-! ## bytes, loads, byte swaps -/

/-- value of `x ++ y` for a byte `y` -/
theorem toNat_append8 {w : Nat} (x : BitVec w) (y : BitVec 8) : (x ++ y).toNat = x.toNat * 256 + y.toNat := by
  rw [BitVec.toNat_append, ← Nat.shiftLeft_add_eq_or_of_lt y.isLt, Nat.shiftLeft_eq]

/-- `__builtin_bswap32` reverses the four bytes -/
theorem bswap32_append (a b c d : BitVec 8) : C.bswap32 (d ++ c ++ b ++ a) = a ++ b ++ c ++ d := by
  unfold C.bswap32
  have h0 : BitVec.extractLsb' 0 8 (d ++ c ++ b ++ a) = a := by
    rw [BitVec.extractLsb'_append_eq_of_add_le (by decide)]; simp
  have h1 : BitVec.extractLsb' 8 8 (d ++ c ++ b ++ a) = b := by
    rw [BitVec.extractLsb'_append_eq_of_le (by decide), BitVec.extractLsb'_append_eq_of_add_le (by decide)]; simp
  have h2 : BitVec.extractLsb' 16 8 (d ++ c ++ b ++ a) = c := by
    rw [BitVec.extractLsb'_append_eq_of_le (by decide), BitVec.extractLsb'_append_eq_of_le (by decide),
      BitVec.extractLsb'_append_eq_of_add_le (by decide)]; simp
  have h3 : BitVec.extractLsb' 24 8 (d ++ c ++ b ++ a) = d := by
    rw [BitVec.extractLsb'_append_eq_of_le (by decide), BitVec.extractLsb'_append_eq_of_le (by decide),
      BitVec.extractLsb'_append_eq_of_le (by decide)]; simp
  rw [h0, h1, h2, h3]

/-- a (little-endian) 32-bit load, as a number -/
theorem load32_toNat (mem : Nat → BitVec 8) (a : Nat) :
    (C.load32 mem a).toNat =
      (((mem (a+3)).toNat * 256 + (mem (a+2)).toNat) * 256 + (mem (a+1)).toNat) * 256 + (mem a).toNat := by
  unfold C.load32; simp only [toNat_append8]

/-- `ntohl` of a 32-bit load is the big-endian reading of the four bytes -/
theorem bswap32_load32_toNat (mem : Nat → BitVec 8) (a : Nat) :
    (C.bswap32 (C.load32 mem a)).toNat =
      (((mem a).toNat * 256 + (mem (a+1)).toNat) * 256 + (mem (a+2)).toNat) * 256 + (mem (a+3)).toNat := by
  unfold C.load32; rw [bswap32_append]; simp only [toNat_append8]

/-- all elements are byte values -/
def Bytes (l : List Nat) : Prop := ∀ x ∈ l, x < 256

theorem getD_lt_of_bytes {l : List Nat} (h : Bytes l) (a : Nat) : l.getD a 0 < 256 := by
  rw [List.getD_eq_getElem?_getD]
  by_cases ha : a < l.length
  · rw [List.getElem?_eq_getElem ha]; exact h _ (List.getElem_mem ha)
  · rw [List.getElem?_eq_none (by omega)]; decide

theorem memOfList_toNat {l : List Nat} (h : Bytes l) (a : Nat) : (C.memOfList l a).toNat = l.getD a 0 := by
  unfold C.memOfList
  rw [BitVec.toNat_ofNat]; exact Nat.mod_eq_of_lt (getD_lt_of_bytes h a)

/-- `ntohl(*(uint32_t *)(buf + a))` is the model's `be32 buf a` -/
theorem bswap32_load32_memOfList {l : List Nat} (h : Bytes l) (a : Nat) :
    (C.bswap32 (C.load32 (C.memOfList l) a)).toNat = be32 l a := by
  rw [bswap32_load32_toNat]; simp only [memOfList_toNat h]; rfl

/-- a 32-bit field never exceeds 32 bits (so a 64-bit sum of a few of them cannot wrap) -/
theorem be32_lt {l : List Nat} (h : Bytes l) (a : Nat) : be32 l a < 4294967296 := by
  have := getD_lt_of_bytes h a; have := getD_lt_of_bytes h (a+1)
  have := getD_lt_of_bytes h (a+2); have := getD_lt_of_bytes h (a+3)
  unfold be32; omega

/-- two memories that agree inside the object give the same guarded loads -/
theorem load8_agree {mem mem' : Nat → BitVec 8} {msize : Nat} (h : ∀ a, a < msize → mem a = mem' a) (a : Nat)
    (ha : a + 1 ≤ msize) : C.load8 mem a = C.load8 mem' a := h a (by omega)
theorem load32_agree {mem mem' : Nat → BitVec 8} {msize : Nat} (h : ∀ a, a < msize → mem a = mem' a) (a : Nat)
    (ha : a + 4 ≤ msize) : C.load32 mem a = C.load32 mem' a := by
  unfold C.load32; rw [h a (by omega), h (a+1) (by omega), h (a+2) (by omega), h (a+3) (by omega)]

/-! ### stores -/

theorem store32_other (m : Nat → BitVec 8) (a : Nat) (v : BitVec 32) (x : Nat) (h : x < a ∨ a + 4 ≤ x) :
    C.store32 m a v x = m x := by
  unfold C.store32
  rw [if_neg (by omega), if_neg (by omega), if_neg (by omega), if_neg (by omega)]

theorem store16_other (m : Nat → BitVec 8) (a : Nat) (v : BitVec 16) (x : Nat) (h : x < a ∨ a + 2 ≤ x) :
    C.store16 m a v x = m x := by
  unfold C.store16
  rw [if_neg (by omega), if_neg (by omega)]

theorem bytes_of_32 (v : BitVec 32) :
    BitVec.extractLsb' 24 8 v ++ BitVec.extractLsb' 16 8 v ++ BitVec.extractLsb' 8 8 v ++ BitVec.extractLsb' 0 8 v = v := by
  rw [BitVec.extractLsb'_append_extractLsb'_eq_extractLsb' (by rfl),
    BitVec.extractLsb'_append_extractLsb'_eq_extractLsb' (by rfl),
    BitVec.extractLsb'_append_extractLsb'_eq_extractLsb' (by rfl)]
  simp

theorem load32_store32 (m : Nat → BitVec 8) (a : Nat) (v : BitVec 32) : C.load32 (C.store32 m a v) a = v := by
  unfold C.load32 C.store32
  simp
  exact bytes_of_32 v

/-! ## comparisons of widened values with literals, as numbers -/

/-- a sign-extended `char` equals a small non-negative literal iff the byte does -/
theorem sext8_beq_lit (x : BitVec 8) (k : Nat) (hk : k < 128) :
    (BitVec.signExtend 32 x == BitVec.ofNat 32 k) = (x.toNat == k) := by
  rw [Bool.eq_iff_iff]; simp only [beq_iff_eq]
  rw [← BitVec.toInt_inj, BitVec.toInt_signExtend_of_le (by decide), lit32_toInt k (by omega),
    BitVec.toInt_eq_toNat_cond]
  have := x.isLt
  split <;> omega

theorem lit64_beq_zext32 (k : Nat) (x : BitVec 32) (hk : k < 18446744073709551616) :
    (BitVec.ofNat 64 k == BitVec.setWidth 64 x) = (x.toNat == k) := by
  rw [Bool.eq_iff_iff]; simp only [beq_iff_eq, ← BitVec.toNat_inj, BitVec.toNat_ofNat, BitVec.toNat_setWidth]
  have := x.isLt
  omega

theorem zext32_beq_lit64 (k : Nat) (x : BitVec 32) (hk : k < 18446744073709551616) :
    (BitVec.setWidth 64 x == BitVec.ofNat 64 k) = (x.toNat == k) := by
  rw [Bool.eq_iff_iff]; simp only [beq_iff_eq, ← BitVec.toNat_inj, BitVec.toNat_ofNat, BitVec.toNat_setWidth]
  have := x.isLt
  omega

/-- a C truth value (`c ? 1 : 0`, or a comparison used as an `int`) tested against 0 -/
theorem ite_one_zero_bne (c : Prop) [Decidable c] : ((if c then 1#32 else 0#32) != 0#32) = decide c := by
  by_cases h : c <;> simp [h]

theorem zext64_toNat (x : BitVec 32) : (BitVec.setWidth 64 x).toNat = x.toNat := by
  have := x.isLt
  rw [BitVec.toNat_setWidth]; omega

theorem beq64_toNat (x y : BitVec 64) : (x == y) = (x.toNat == y.toNat) := by
  rw [Bool.eq_iff_iff]; simp [BitVec.toNat_inj]

theorem bne_toNat {w : Nat} (x y : BitVec w) : (x != y) = (x.toNat != y.toNat) := by
  rw [Bool.eq_iff_iff]; simp [BitVec.toNat_inj]

/-- side conditions `8 ≤ 12 + k` of address lemmas, for simp's own discharger -/
theorem le_lit_add (a b k : Nat) (h : a ≤ b) : (a ≤ b + k) = True := by simp; omega
theorem le_add_lit (a b k : Nat) (h : a ≤ b) : (a ≤ k + b) = True := by simp; omega

/-- both sides branch on the same condition -/
theorem ite_congr_branches {α : Sort _} (c : Prop) [Decidable c] (a a' b b' : α) (h1 : c → a = a') (h2 : ¬c → b = b') :
    ite c a b = ite c a' b' := by
  by_cases hc : c
  · simp only [hc, if_true]; exact h1 hc
  · simp only [hc, if_false]; exact h2 hc

/-! ## the receive buffer at the time of the size check -/

/-- the receive buffer when `rtr_pdu_check_size` runs: `rtr_pdu_header_to_host_byte_order` has swapped the 16-bit
    field at offset 2 and the 32-bit length at offset 4 in place (little-endian host); bytes 0, 1 and everything
    behind the header are as received -/
def hostHeader (raw : List Nat) : List Nat :=
  match raw with
  | b0 :: b1 :: b2 :: b3 :: b4 :: b5 :: b6 :: b7 :: rest => b0 :: b1 :: b3 :: b2 :: b7 :: b6 :: b5 :: b4 :: rest
  | _ => raw

theorem hostHeader_length (raw : List Nat) : (hostHeader raw).length = raw.length := by
  unfold hostHeader; split <;> simp

theorem hostHeader_bytes {raw : List Nat} (h : Bytes raw) : Bytes (hostHeader raw) := by
  unfold hostHeader; split
  · intro x hx; apply h; simp only [List.mem_cons] at hx ⊢
    rcases hx with e | e | e | e | e | e | e | e | e <;> simp [e]
  · exact h

theorem hostHeader_getD_ge (raw : List Nat) (i : Nat) (h : 8 ≤ i) : (hostHeader raw).getD i 0 = raw.getD i 0 := by
  unfold hostHeader; split
  · obtain ⟨j, rfl⟩ : ∃ j, i = j + 8 := ⟨i - 8, by omega⟩
    simp
  · rfl

theorem hostHeader_getD_0 (raw : List Nat) : (hostHeader raw).getD 0 0 = raw.getD 0 0 := by
  unfold hostHeader; split <;> rfl
theorem hostHeader_getD_1 (raw : List Nat) : (hostHeader raw).getD 1 0 = raw.getD 1 0 := by
  unfold hostHeader; split <;> rfl

/-- `pdu->len` (a plain host-order load after the header conversion) is the model's `lenOf` -/
theorem hostHeader_len {raw : List Nat} (hb : Bytes raw) (h : 8 ≤ raw.length) :
    (C.load32 (C.memOfList (hostHeader raw)) 4).toNat = lenOf raw := by
  rw [load32_toNat]; simp only [memOfList_toNat (hostHeader_bytes hb)]
  unfold hostHeader lenOf be32; split
  · simp
  · rename_i hn
    match raw, h, hn with
    | b0 :: b1 :: b2 :: b3 :: b4 :: b5 :: b6 :: b7 :: rest, _, hn => exact (hn _ _ _ _ _ _ _ _ _ rfl).elim

/-- behind the header the buffer is the received byte string -/
theorem load32_hostHeader_ge (raw : List Nat) (a : Nat) (h : 8 ≤ a) :
    C.load32 (C.memOfList (hostHeader raw)) a = C.load32 (C.memOfList raw) a := by
  unfold C.load32 C.memOfList
  rw [hostHeader_getD_ge raw a h, hostHeader_getD_ge raw (a+1) (by omega), hostHeader_getD_ge raw (a+2) (by omega),
    hostHeader_getD_ge raw (a+3) (by omega)]

/-! ## `rtr_get_pdu_type` -/

/-- `rtr_get_pdu_type(pdu)` reads the `char`-typed byte at offset 1 - SIGN-extended to the `int`-sized enum: a type
    byte ≥ 0x80 yields a negative `enum pdu_type` - and is defined exactly when the object has that byte -/
theorem rtr_get_pdu_type_eq (mem : Nat → BitVec 8) (msize pdu : Nat) :
    C.rtr_get_pdu_type mem msize pdu =
      if pdu + 2 ≤ msize then some (BitVec.signExtend 32 (mem (pdu + 1))) else none := by
  unfold C.rtr_get_pdu_type C.load8
  by_cases h : pdu + 2 ≤ msize
  · have h1 : pdu + 1 ≤ msize := by omega
    simp [h, h1]
  · simp [h]

theorem rtr_get_pdu_type_eq0 (mem : Nat → BitVec 8) (msize : Nat) (h : 1 < msize) :
    C.rtr_get_pdu_type mem msize 0 = some (BitVec.signExtend 32 (mem 1)) := by
  rw [rtr_get_pdu_type_eq]; simp only [Nat.zero_add]; rw [if_pos (by omega)]

theorem rtr_get_pdu_type_none (mem : Nat → BitVec 8) (msize : Nat) (h : msize < 2) :
    C.rtr_get_pdu_type mem msize 0 = none := by
  rw [rtr_get_pdu_type_eq]; simp only [Nat.zero_add]; rw [if_neg (by omega)]

theorem rtr_get_pdu_type_mem_indep (mem mem' : Nat → BitVec 8) (msize pdu : Nat)
    (h : ∀ a, a < msize → mem a = mem' a) :
    C.rtr_get_pdu_type mem msize pdu = C.rtr_get_pdu_type mem' msize pdu := by
  rw [rtr_get_pdu_type_eq, rtr_get_pdu_type_eq]
  by_cases hg : pdu + 2 ≤ msize
  · rw [if_pos hg, if_pos hg, h (pdu + 1) (by omega)]
  · rw [if_neg hg, if_neg hg]

/-! ## `rtr_pdu_check_size`: memory independence (arbitrary memory, object size and pointer) -/

/-- the result of `rtr_pdu_check_size` - including whether it is defined - depends only on the bytes of the object:
    every load in the C text lies behind a bounds guard that holds before the loaded value is used -/
theorem rtr_pdu_check_size_mem_indep (mem mem' : Nat → BitVec 8) (msize pdu : Nat)
    (h : ∀ a, a < msize → mem a = mem' a) :
    C.rtr_pdu_check_size mem msize pdu = C.rtr_pdu_check_size mem' msize pdu := by
  have hl8 : ∀ a, a + 1 ≤ msize → C.load8 mem a = C.load8 mem' a := load8_agree h
  have hl32 : ∀ a, a + 4 ≤ msize → C.load32 mem a = C.load32 mem' a := load32_agree h
  unfold C.rtr_pdu_check_size
  rw [rtr_get_pdu_type_mem_indep mem mem' msize pdu h]
  cases C.rtr_get_pdu_type mem' msize pdu with
  | none => rfl
  | some ty =>
    simp only []
    clear h
    -- peel the conditions that are literally the same on both sides (type dispatch, bounds guards) ...
    repeat' (first | (with_reducible rfl) | (apply ite_congr_branches <;> intro _))
    -- ... and let grind rewrite the loads under their guards in what is left
    all_goals grind

/-! ## `rtr_pdu_check_size`: functional correctness on the received bytes -/

/-- `mem` is the receive buffer of the received bytes `raw` at the time of the size check: version and type bytes
    and everything behind the 8-byte header as received, the length field readable with a plain (host-order) load.
    Nothing is said about bytes 2 and 3 (`rtr_pdu_convert_header_byte_order` swaps them for every type but
    ROUTER_KEY, whose bytes 2, 3 are two one-byte fields): the size check does not look at them. -/
structure HostView (raw : List Nat) (mem : Nat → BitVec 8) : Prop where
  ver : mem 0 = C.memOfList raw 0
  type : mem 1 = C.memOfList raw 1
  len : (C.load32 mem 4).toNat = lenOf raw
  rest : ∀ a, 8 ≤ a → mem a = C.memOfList raw a

theorem hostHeader_view {raw : List Nat} (hb : Bytes raw) (h : 8 ≤ raw.length) :
    HostView raw (C.memOfList (hostHeader raw)) where
  ver := by unfold C.memOfList; rw [hostHeader_getD_0]
  type := by unfold C.memOfList; rw [hostHeader_getD_1]
  len := hostHeader_len hb h
  rest := by intro a ha; unfold C.memOfList; rw [hostHeader_getD_ge raw a ha]

set_option linter.unusedSimpArgs false in
/-- FUNCTIONAL CORRECTNESS, general form: on every memory that is a host view of the received bytes `raw`, the object
    being the `lenOf raw ≥ 8` bytes the length field announces, the C text of `rtr_pdu_check_size` is defined and
    returns the model's `checkSize raw`. -/
theorem rtr_pdu_check_size_eq_view (raw : List Nat) (hb : ∀ x ∈ raw, x < 256) (mem : Nat → BitVec 8)
    (hv : HostView raw mem) (h8 : 8 ≤ lenOf raw) :
    C.rtr_pdu_check_size mem (lenOf raw) 0 = some (checkSize raw) := by
  have hlen := hv.len
  have hty : (mem 1).toNat = typeOf raw := by rw [hv.type, memOfList_toNat hb]; rfl
  have hver : (mem 0).toNat = verOf raw := by rw [hv.ver, memOfList_toNat hb]; rfl
  have hbe : ∀ a, 8 ≤ a → (C.bswap32 (C.load32 mem a)).toNat = be32 raw a := by
    intro a ha
    have e : C.load32 mem a = C.load32 (C.memOfList raw) a := by
      unfold C.load32
      rw [hv.rest a ha, hv.rest (a+1) (by omega), hv.rest (a+2) (by omega), hv.rest (a+3) (by omega)]
    rw [e, bswap32_load32_memOfList hb]
  have hbnd : ∀ a, be32 raw a < 4294967296 := be32_lt hb
  unfold C.rtr_pdu_check_size checkSize
  rw [rtr_get_pdu_type_eq0 _ _ (by omega)]
  -- loads, widenings and comparisons ↦ numbers (plain cached simp: the term is a deep if-chain)
  simp only [C.load8, C.b2i, ite_one_zero_bne, Nat.zero_add, Nat.reduceAdd, BitVec.reduceAdd]
  simp only [sext8_beq_lit, lit64_beq_zext32, zext32_beq_lit64, zext8_beq_lit, Nat.reduceLT, hlen, hty, hver]
  -- what is left of the 64-bit arithmetic (`min_size`) and its comparisons
  simp only [beq64_toNat, bne_toNat, BitVec.ult_eq_decide, BitVec.ule_eq_decide, BitVec.toNat_add, zext64_toNat,
    BitVec.toNat_ofNat, Nat.reduceLeDiff, le_lit_add, le_add_lit, hlen, hbe]
  generalize typeOf raw = t
  generalize verOf raw = v
  generalize lenOf raw = n at *
  clear hty hver hbe hlen hv
  -- one case per PDU type
  have ht : t = 0 ∨ t = 1 ∨ t = 2 ∨ t = 3 ∨ t = 4 ∨ t = 5 ∨ t = 6 ∨ t = 7 ∨ t = 8 ∨ t = 9 ∨ t = 10 ∨
      ∃ k, t = k + 11 := by
    by_cases h : t < 11
    · omega
    · exact Or.inr (Or.inr (Or.inr (Or.inr (Or.inr (Or.inr (Or.inr (Or.inr (Or.inr (Or.inr (Or.inr
        ⟨t - 11, by omega⟩))))))))))
  rcases ht with rfl | rfl | rfl | rfl | rfl | rfl | rfl | rfl | rfl | rfl | rfl | ⟨k, rfl⟩
  all_goals try simp [sizeof_pdu_serial_notify, sizeof_pdu_serial_query, sizeof_pdu_reset_query,
    sizeof_pdu_cache_response, sizeof_pdu_ipv4, sizeof_pdu_ipv6, sizeof_pdu_end_of_data_v0, sizeof_pdu_end_of_data_v1,
    sizeof_pdu_header, sizeof_pdu_router_key, sizeof_pdu_error, h8]
  -- the 64-bit accumulator `min_size` does not wrap: each addend is below 2^32
  all_goals try simp (disch := grind) only [Nat.mod_eq_of_lt]
  all_goals first
    | grind
    | (repeat' split) <;> first | omega | (simp_all; done) | (simp_all; omega) | grind

/-- FUNCTIONAL CORRECTNESS on the receive buffer `hostHeader raw` of a PDU whose length field says `n` bytes, exactly
    those `n` bytes belonging to the object. (Only `8 ≤ raw.length` is used of `lenOf raw ≤ raw.length`: bytes the
    list does not have read as 0 in `memOfList` and in the model alike.) -/
theorem rtr_pdu_check_size_eq (raw : List Nat) (hb : ∀ x ∈ raw, x < 256) (h8 : 8 ≤ lenOf raw)
    (hl : lenOf raw ≤ raw.length) :
    C.rtr_pdu_check_size (C.memOfList (hostHeader raw)) (lenOf raw) 0 = some (checkSize raw) :=
  rtr_pdu_check_size_eq_view raw hb _ (hostHeader_view hb (by omega)) h8

/-- MEMORY SAFETY. Under the same hypotheses the C text never leaves its defined fragment: no read outside the first
    `lenOf raw` bytes of the buffer (nor any other undefined step), whatever the content - in particular for every
    nested length of an Error Report, including values near 2^32. -/
theorem rtr_pdu_check_size_safe (raw : List Nat) (hb : ∀ x ∈ raw, x < 256) (h8 : 8 ≤ lenOf raw)
    (hl : lenOf raw ≤ raw.length) :
    C.rtr_pdu_check_size (C.memOfList (hostHeader raw)) (lenOf raw) 0 ≠ none := by
  rw [rtr_pdu_check_size_eq raw hb h8 hl]; exact Option.some_ne_none _

/-- ... and whatever lies in memory behind the received bytes: any memory that holds the buffer in its first
    `lenOf raw` bytes gives the model's answer. -/
theorem rtr_pdu_check_size_eq_of_agree (raw : List Nat) (hb : ∀ x ∈ raw, x < 256) (h8 : 8 ≤ lenOf raw)
    (hl : lenOf raw ≤ raw.length) (mem : Nat → BitVec 8)
    (hm : ∀ a, a < lenOf raw → mem a = C.memOfList (hostHeader raw) a) :
    C.rtr_pdu_check_size mem (lenOf raw) 0 = some (checkSize raw) := by
  rw [rtr_pdu_check_size_mem_indep mem _ _ 0 hm]; exact rtr_pdu_check_size_eq raw hb h8 hl

/-- the C text accepts exactly the PDUs of known type whose length field is what the type requires -/
theorem rtr_pdu_check_size_true_iff (raw : List Nat) (hb : ∀ x ∈ raw, x < 256) (h8 : 8 ≤ lenOf raw)
    (hl : lenOf raw ≤ raw.length) :
    C.rtr_pdu_check_size (C.memOfList (hostHeader raw)) (lenOf raw) 0 = some true ↔ KnownSize raw := by
  rw [rtr_pdu_check_size_eq raw hb h8 hl, Option.some.injEq]; exact checkSize_spec raw

/-! ## the header conversion in front of the size check

`rtr_receive_pdu` converts the header in place (`rtr_pdu_header_to_host_byte_order`, translated from the C text as
well) and then calls `rtr_pdu_check_size` on the same buffer. The conversion touches bytes 2..7 only, so it does not
matter that the bytes behind the header arrive after it. -/

/-- the translated header conversion is defined on every buffer of at least 8 bytes and produces a host view of the
    received bytes (for ROUTER_KEY it leaves bytes 2, 3 alone, for every other type it swaps them: `hostHeader` is
    exact except for that) -/
theorem rtr_pdu_header_to_host_byte_order_view (raw : List Nat) (hb : ∀ x ∈ raw, x < 256) (msize : Nat)
    (h8 : 8 ≤ msize) :
    ∃ mem', C.rtr_pdu_header_to_host_byte_order (C.memOfList raw) msize 0 = some mem' ∧ HostView raw mem' := by
  unfold C.rtr_pdu_header_to_host_byte_order C.rtr_pdu_convert_header_byte_order C.lrtr_convert_short
    C.lrtr_convert_long
  have g1 : 0 + 1 + 1 ≤ msize := by omega
  have g2 : 0 + 2 + 2 ≤ msize := by omega
  have g3 : 0 + 4 + 4 ≤ msize := by omega
  simp only [g1, g2, g3, decide_true, if_true, Nat.zero_add]
  have hL : ∀ m : Nat → BitVec 8, (∀ a, 4 ≤ a → m a = C.memOfList raw a) →
      (C.bswap32 (C.load32 m 4)).toNat = lenOf raw := by
    intro m hm
    have e : C.load32 m 4 = C.load32 (C.memOfList raw) 4 := by
      unfold C.load32; rw [hm 4 (by omega), hm 5 (by omega), hm 6 (by omega), hm 7 (by omega)]
    rw [e, bswap32_load32_memOfList hb]; rfl
  by_cases ht : (BitVec.setWidth 32 (C.load8 (C.memOfList raw) 1) != 9#32) = true
  · simp [ht]
    refine ⟨?_, ?_, ?_, ?_⟩
    · rw [store32_other _ _ _ _ (by omega), store16_other _ _ _ _ (by omega)]
    · rw [store32_other _ _ _ _ (by omega), store16_other _ _ _ _ (by omega)]
    · rw [load32_store32]; exact hL _ (fun a ha => store16_other _ _ _ _ (by omega))
    · intro a ha; rw [store32_other _ _ _ _ (by omega), store16_other _ _ _ _ (by omega)]
  · simp [ht]
    refine ⟨?_, ?_, ?_, ?_⟩
    · rw [store32_other _ _ _ _ (by omega)]
    · rw [store32_other _ _ _ _ (by omega)]
    · rw [load32_store32]; exact hL _ (fun a ha => rfl)
    · intro a ha; rw [store32_other _ _ _ _ (by omega)]

/-- the C text of both steps, composed: header conversion of the received bytes, then the size check on the result,
    the object being the `lenOf raw` bytes the length field announces - defined, and the model's `checkSize raw` -/
theorem rtr_convert_then_check_size_eq (raw : List Nat) (hb : ∀ x ∈ raw, x < 256) (h8 : 8 ≤ lenOf raw) :
    (C.rtr_pdu_header_to_host_byte_order (C.memOfList raw) (lenOf raw) 0).bind
      (fun mem' => C.rtr_pdu_check_size mem' (lenOf raw) 0) = some (checkSize raw) := by
  obtain ⟨mem', e, hv⟩ := rtr_pdu_header_to_host_byte_order_view raw hb (lenOf raw) h8
  rw [e]; exact rtr_pdu_check_size_eq_view raw hb mem' hv h8

/-! ## concrete instances (the hypotheses are satisfiable; the generated text runs in the kernel) -/

/-- an Error Report whose nested length is 0xFFFFFFFF: a 32-bit `min_size` would wrap to 15 and read past the buffer;
    the C text (64-bit accumulator) rejects it without reading anything behind the 16 received bytes -/
example : let raw := [1,10,0,0, 0,0,0,16, 255,255,255,255, 0,0,0,0]
    ((∀ x ∈ raw, x < 256) ∧ 8 ≤ lenOf raw ∧ lenOf raw ≤ raw.length) ∧
      C.rtr_pdu_check_size (C.memOfList (hostHeader raw)) 16 0 = some false ∧ checkSize raw = false := by decide
/-- the smallest well-formed Error Report, through both translated steps -/
example : (C.rtr_pdu_header_to_host_byte_order (C.memOfList [1,10,0,0, 0,0,0,16, 0,0,0,0, 0,0,0,0]) 16 0).bind
    (fun mem' => C.rtr_pdu_check_size mem' 16 0) = some true := by decide
/-- a type byte ≥ 0x80 becomes a negative `enum pdu_type` (sign extension of `char`) and is rejected -/
example : C.rtr_get_pdu_type (C.memOfList [1,0x8A,0,0, 0,0,0,8]) 8 0 = some 0xFFFFFF8A#32 ∧
    C.rtr_pdu_check_size (C.memOfList (hostHeader [1,0x8A,0,0, 0,0,0,8])) 8 0 = some false := by decide

end Rtr.CLink
