/-
  Fsm: invariants of the state machine (`fsmStep`, model of rtr_fsm_start) — protocol version
  (C13), session/serial carried by queries (C05), expiry and stop (C07).
-/
import RtrProofs.SyncAtomic
import RtrProofs.Receive

namespace Rtr.P

/-! ## protocol version through the receive path -/

theorem handleErrorPdu_version (c : Conn) (n : Net) (own : Nat) (raw : List Nat) :
    (handleErrorPdu c n own raw).1.version = c.version ∨
    (be16 raw 2 = 4 ∧ verOf raw < c.version ∧ verOf raw ≤ Gen.RTR_PROTOCOL_MAX_SUPPORTED_VERSION ∧
      (handleErrorPdu c n own raw).1.version = verOf raw) := by
  unfold handleErrorPdu
  simp only
  split
  · exact Or.inl (changeState_conn c n own .errNoData).1
  · split
    · rename_i h4
      split
      · rename_i hv
        right
        exact ⟨h4, hv.2.2, hv.1, (changeState_conn { c with version := verOf raw } n own .fastReconnect).1⟩
      · exact Or.inl (changeState_conn c n own .errFatal).1
    · exact Or.inl (changeState_conn c n own .errFatal).1

theorem handleErrorPdu_version_le (c : Conn) (n : Net) (own : Nat) (raw : List Nat) :
    (handleErrorPdu c n own raw).1.version ≤ c.version := by
  rcases handleErrorPdu_version c n own raw with h | h
  · rw [h]; exact Nat.le_refl _
  · rw [h.2.2.2]; exact Nat.le_of_lt h.2.1

theorem receivePdu_version_le (c : Conn) (n : Net) (own : Nat) (t : Int) :
    (receivePdu c n own t).2.1.version ≤ c.version := by
  rcases (receivePdu_conn c n own t).1 with h | h
  · rw [h]; exact Nat.le_refl _
  · rw [h.2.2, h.2.1]; exact Nat.zero_le _

theorem updatePfx_version (c : Conn) (n : Net) (t : Tbl) (raw : List Nat) :
    (updatePfx c n t raw).2.1.version = c.version := by
  unfold updatePfx
  simp only
  repeat' split
  all_goals first | rfl | exact (changeState_conn _ _ _ _).1

theorem updateKey_version (c : Conn) (n : Net) (t : Tbl) (raw : List Nat) :
    (updateKey c n t raw).2.1.version = c.version := by
  unfold updateKey
  simp only
  repeat' split
  all_goals first | rfl | exact (changeState_conn _ _ _ _).1

theorem applyPfx_version : ∀ (ps : List (List Nat)) (c : Conn) (n : Net) (t : Tbl) (done : List (List Nat)),
    (applyPfx c n t ps done).2.1.version = c.version := by
  intro ps
  induction ps with
  | nil => intro c n t done; rfl
  | cons p ps ih =>
    intro c n t done
    simp only [applyPfx]
    have h := updatePfx_version c n t p
    generalize updatePfx c n t p = r at h
    obtain ⟨ok, c', n', t'⟩ := r
    simp only at h ⊢
    split
    · rw [ih, h]
    · exact h

theorem applyKey_version : ∀ (ps : List (List Nat)) (c : Conn) (n : Net) (t : Tbl) (done : List (List Nat)),
    (applyKey c n t ps done).2.1.version = c.version := by
  intro ps
  induction ps with
  | nil => intro c n t done; rfl
  | cons p ps ih =>
    intro c n t done
    simp only [applyKey]
    have h := updateKey_version c n t p
    generalize updateKey c n t p = r at h
    obtain ⟨ok, c', n', t'⟩ := r
    simp only at h ⊢
    split
    · rw [ih, h]
    · exact h

theorem applyFail_version (u : Bool) (c : Conn) (n : Net) (t : Tbl) : (applyFail u c n t).c.version = c.version := by
  unfold applyFail
  simp only
  exact (changeState_conn _ _ _ _).1

theorem applyTables_version (c : Conn) (n : Net) (t : Tbl) (resetting : Bool) (v4 v6 keys : List (List Nat)) :
    (applyTables c n t resetting v4 v6 keys).c.version = c.version := by
  unfold applyTables
  simp only
  generalize (if resetting then ({ t with shadow := some ⟨ptSrcRemove t.pt 0, ktSrcRemove t.kt 0⟩ } : Tbl) else t) = t0
  have h4 := applyPfx_version v4 c n t0 []
  generalize applyPfx c n t0 v4 [] = r4 at h4
  obtain ⟨ok4, c4, n4, t4, d4⟩ := r4
  simp only at h4 ⊢
  split
  · generalize undoAllPfx t4 d4 = ru
    obtain ⟨un, tu⟩ := ru
    simp only
    rw [applyFail_version, h4]
  · have h6 := applyPfx_version v6 c4 n4 t4 []
    generalize applyPfx c4 n4 t4 v6 [] = r6 at h6
    obtain ⟨ok6, c6, n6, t6, d6⟩ := r6
    simp only at h6 ⊢
    split
    · generalize undoAllPfx t6 v4 = ru
      obtain ⟨un4, tu⟩ := ru
      simp only
      generalize (if un4 = true then undoAllPfx tu d6 else (false, tu)) = ru6
      obtain ⟨un6, tu6⟩ := ru6
      simp only
      rw [applyFail_version, h6, h4]
    · have hk := applyKey_version keys c6 n6 t6 []
      generalize applyKey c6 n6 t6 keys [] = rk at hk
      obtain ⟨okk, ck, nk, tk, dk⟩ := rk
      simp only at hk ⊢
      split
      · generalize undoAllPfx tk v4 = ru
        obtain ⟨un4, tu⟩ := ru
        simp only
        generalize (if un4 = true then undoAllPfx tu v6 else (false, tu)) = ru6
        obtain ⟨un6, tu6⟩ := ru6
        simp only
        generalize (if (un4 && un6) = true then undoAllKey tu6 dk else (false, tu6)) = ruk
        obtain ⟨unk, tuk⟩ := ruk
        simp only
        rw [applyFail_version, hk, h6, h4]
      · simp only; rw [hk, h6, h4]

theorem recvAndStore_version_le : ∀ (fuel : Nat) (st : St) (v4 v6 keys : List (List Nat)),
    (recvAndStore fuel st v4 v6 keys).2.1.c.version ≤ st.c.version := by
  intro fuel
  induction fuel with
  | zero => intro st v4 v6 keys; simp [recvAndStore]
  | succ fuel ih =>
    intro st v4 v6 keys
    unfold recvAndStore
    have hr := receivePdu_version_le st.c st.n st.t.own Gen.RTR_RECV_TIMEOUT
    generalize receivePdu st.c st.n st.t.own Gen.RTR_RECV_TIMEOUT = res at hr
    obtain ⟨rr, c, n⟩ := res
    simp only at hr
    have cs : ∀ (nn : Net) (s : SState), (changeState c nn st.t.own s).1.version ≤ st.c.version := fun nn s => by
      rw [(changeState_conn c nn st.t.own s).1]; exact hr
    cases rr with
    | rc code =>
      simp only
      split
      · have := cs n .errTransport
        generalize changeState c n st.t.own .errTransport = r at this
        obtain ⟨c', n'⟩ := r
        simpa [cleanup] using this
      · simpa [cleanup] using hr
    | ok raw =>
      simp only
      split
      · exact Nat.le_trans (ih _ _ _ _) hr
      · exact Nat.le_trans (ih _ _ _ _) hr
      · exact Nat.le_trans (ih _ _ _ _) hr
      · split
        · generalize sendErrorFromHost c n raw raw.length 0 (txtEodSession st.ss.session (be16 raw 2)) = se
          obtain ⟨x, n1⟩ := se
          simp only
          have := cs n1 .errFatal
          generalize changeState c n1 st.t.own .errFatal = r at this
          obtain ⟨c', n'⟩ := r
          simpa [cleanup] using this
        · simp only [cleanup, applyBuffered]
          rw [applyTables_version]
          exact hr
      · have := handleErrorPdu_version_le c n st.t.own raw
        generalize handleErrorPdu c n st.t.own raw = r at this
        obtain ⟨c', n'⟩ := r
        simp only [cleanup]
        exact Nat.le_trans this hr
      · exact Nat.le_trans (ih _ _ _ _) hr
      · generalize sendErrorFromHost c n raw 8 0 txtUnexpectedSync = se
        obtain ⟨x, n1⟩ := se
        simpa [cleanup] using hr

theorem syncFirst_version_le : ∀ (fuel : Nat) (st : St), (syncFirst fuel st).2.c.version ≤ st.c.version := by
  intro fuel
  induction fuel with
  | zero => intro st; simp [syncFirst]
  | succ fuel ih =>
    intro st
    unfold syncFirst
    have hr := receivePdu_version_le st.c st.n st.t.own Gen.RTR_RECV_TIMEOUT
    generalize receivePdu st.c st.n st.t.own Gen.RTR_RECV_TIMEOUT = res at hr
    obtain ⟨rr, c, n⟩ := res
    simp only at hr
    cases rr with
    | rc code =>
      simp only
      split
      · have := (changeState_conn { c with version := c.version - 1 } n st.t.own .fastReconnect).1
        generalize changeState { c with version := c.version - 1 } n st.t.own .fastReconnect = r at this
        obtain ⟨c', n'⟩ := r
        simp only at this ⊢
        rw [this]; omega
      · split
        · have := (changeState_conn c n st.t.own .errTransport).1
          generalize changeState c n st.t.own .errTransport = r at this
          obtain ⟨c', n'⟩ := r
          simp only at this ⊢
          rw [this]; exact hr
        · exact hr
    | ok raw =>
      simp only
      split
      · exact Nat.le_trans (ih _) hr
      · exact hr

theorem handleCacheResponse_version (c : Conn) (ss : Sess) (n : Net) (own : Nat) (raw : List Nat) :
    (handleCacheResponse c ss n own raw).2.1.version = c.version := by
  unfold handleCacheResponse
  simp only
  repeat' split
  all_goals first | rfl | exact (changeState_conn _ _ _ _).1

theorem syncG_version_le (fuel : Nat) (st : St) : (syncG fuel st).2.1.c.version ≤ st.c.version := by
  unfold syncG
  have h1 := syncFirst_version_le fuel st
  generalize syncFirst fuel st = sf at h1
  obtain ⟨r, st1⟩ := sf
  simp only at h1
  cases r with
  | none => exact h1
  | some raw =>
    simp only
    split
    · have := handleErrorPdu_version_le st1.c st1.n st1.t.own raw
      generalize handleErrorPdu st1.c st1.n st1.t.own raw = r at this
      obtain ⟨c', n'⟩ := r
      exact Nat.le_trans this h1
    · have := (changeState_conn st1.c st1.n st1.t.own .errNoIncr).1
      generalize changeState st1.c st1.n st1.t.own .errNoIncr = r at this
      obtain ⟨c', n'⟩ := r
      simp only at this ⊢
      rw [this]; exact h1
    · have hv := handleCacheResponse_version st1.c st1.ss st1.n st1.t.own raw
      generalize handleCacheResponse st1.c st1.ss st1.n st1.t.own raw = hcr at hv
      obtain ⟨okc, c2, ss2, n2⟩ := hcr
      simp only at hv ⊢
      split
      · simp only; rw [hv]; exact h1
      · have hr := recvAndStore_version_le fuel { st1 with c := c2, ss := ss2, n := n2 } [] [] []
        generalize recvAndStore fuel { st1 with c := c2, ss := ss2, n := n2 } [] [] [] = rs at hr
        obtain ⟨ok, st2, g⟩ := rs
        simp only at hr ⊢
        rw [hv] at hr
        split
        · exact Nat.le_trans hr h1
        · exact Nat.le_trans hr h1
    · generalize sendErrorFromHost st1.c st1.n raw 8 0 txtUnexpectedSync2 = se
      obtain ⟨x, n1⟩ := se
      exact h1

end Rtr.P

namespace Rtr.P

/-! ## one step of the state machine -/

theorem change_frame (st : St) (s : SState) :
    (st.change s).ss = st.ss ∧ (st.change s).t = st.t ∧ (st.change s).tm = st.tm ∧
    (st.change s).c.version = st.c.version ∧ (st.change s).n.now = st.n.now := by
  unfold St.change
  have h := changeState_conn st.c st.n st.t.own s
  have hn : (changeState st.c st.n st.t.own s).2.now = st.n.now := by
    unfold changeState; split
    · rfl
    · split <;> simp [Net.emit]
  generalize changeState st.c st.n st.t.own s = r at h hn
  obtain ⟨c, n⟩ := r
  exact ⟨rfl, rfl, rfl, h.1, hn⟩

theorem change_state (st : St) (s : SState) :
    (st.change s).c.state = s ∨ ((st.change s).c.state = st.c.state ∧ st.c.state = .shutdown) := by
  unfold St.change changeState
  by_cases h1 : st.c.state = s
  · simp [h1]
  · by_cases h2 : st.c.state = .shutdown
    · simp [h1, h2]
    · simp [h1, h2]

theorem sendSerialQuery_frame (st : St) :
    (sendSerialQuery st).2.ss = st.ss ∧ (sendSerialQuery st).2.t = st.t ∧ (sendSerialQuery st).2.tm = st.tm ∧
    (sendSerialQuery st).2.c.version = st.c.version := by
  unfold sendSerialQuery
  generalize sendPdu st.c st.n (serialQueryBytes st.c.version st.ss.session st.ss.serial) = r
  obtain ⟨ok, n⟩ := r
  simp only
  split
  · exact ⟨rfl, rfl, rfl, rfl⟩
  · have h := changeState_conn st.c n st.t.own .errTransport
    generalize changeState st.c n st.t.own .errTransport = r at h
    obtain ⟨c', n'⟩ := r
    exact ⟨rfl, rfl, rfl, h.1⟩

theorem sendResetQuery_frame (st : St) :
    (sendResetQuery st).2.ss = st.ss ∧ (sendResetQuery st).2.t = st.t ∧ (sendResetQuery st).2.tm = st.tm ∧
    (sendResetQuery st).2.c.version = st.c.version := by
  unfold sendResetQuery
  generalize sendPdu st.c st.n (resetQueryBytes st.c.version) = r
  obtain ⟨ok, n⟩ := r
  simp only
  split
  · exact ⟨rfl, rfl, rfl, rfl⟩
  · have h := changeState_conn st.c n st.t.own .errTransport
    generalize changeState st.c n st.t.own .errTransport = r at h
    obtain ⟨c', n'⟩ := r
    exact ⟨rfl, rfl, rfl, h.1⟩

theorem waitForSync_frame (st : St) :
    (waitForSync st).2.ss = st.ss ∧ (waitForSync st).2.t = st.t ∧ (waitForSync st).2.tm = st.tm ∧
    (waitForSync st).2.c.version ≤ st.c.version := by
  unfold waitForSync
  simp only
  have h := receivePdu_version_le st.c st.n st.t.own
    (if st.ss.lastUpdate + ↑st.tm.refresh - st.n.now < 0 then 0 else st.ss.lastUpdate + ↑st.tm.refresh - st.n.now)
  generalize receivePdu st.c st.n st.t.own
    (if st.ss.lastUpdate + ↑st.tm.refresh - st.n.now < 0 then 0 else st.ss.lastUpdate + ↑st.tm.refresh - st.n.now) = r at h
  obtain ⟨rr, c, n⟩ := r
  cases rr <;> exact ⟨rfl, rfl, rfl, h⟩

theorem trOpen_frame (st : St) :
    (trOpen st).2.ss = st.ss ∧ (trOpen st).2.t = st.t ∧ (trOpen st).2.tm = st.tm ∧ (trOpen st).2.c = st.c := by
  unfold trOpen
  split
  exact ⟨rfl, rfl, rfl, rfl⟩

/-- `rtr_purge_outdated_records`: nothing, or — data older than the expire interval — this socket's
    records are removed and a new session is requested -/
theorem purgeOutdated_spec (st : St) :
    (purgeOutdated st).c = st.c ∧ (purgeOutdated st).tm = st.tm ∧ (purgeOutdated st).n = st.n ∧
    ((purgeOutdated st = st ∧ ¬ (st.ss.lastUpdate ≠ 0 ∧ st.ss.lastUpdate + st.tm.expire < st.n.now)) ∨
     (st.ss.lastUpdate ≠ 0 ∧ st.ss.lastUpdate + st.tm.expire < st.n.now ∧
      (purgeOutdated st).t = st.t.purge ∧ (purgeOutdated st).ss.reqSession = true ∧
      (purgeOutdated st).ss.lastUpdate = 0 ∧ (purgeOutdated st).ss.serial = 0)) := by
  unfold purgeOutdated
  by_cases h0 : st.ss.lastUpdate = 0
  · simp [h0]
  · by_cases h1 : st.ss.lastUpdate + st.tm.expire < st.n.now
    · simp [h0, h1]
    · simp [h0, h1]

theorem purge_noOwn (t : Tbl) : NoOwn t.purge ∧ OthersSame t t.purge ∧ (TblOK t → TblOK t.purge) := by
  refine ⟨⟨fun x hx => ((mem_ptSrcRemove _ x).1 hx).2, fun x hx => ((mem_ktSrcRemove _ x).1 hx).2⟩,
    ⟨fun x hx => by simp [Tbl.purge, mem_ptSrcRemove, hx], fun x hx => by simp [Tbl.purge, mem_ktSrcRemove, hx]⟩, ?_⟩
  intro ⟨h1, h2, h3⟩
  exact ⟨h1, h2.sublist List.filter_sublist, h3.sublist List.filter_sublist⟩

/-! ### the branches of `fsmStep` as separate functions -/

def clearReceived (st : St) : St := { st with c := { st.c with hasReceived := false } }
def requestReset (st : St) : St := { st with ss := { st.ss with reqSession := true, serial := 0 } }

def stepConnecting (st : St) : St :=
  match trOpen (purgeOutdated (clearReceived st)) with
  | (rc, st) =>
    if rc = -1 then st.change .errTransport
    else if st.ss.reqSession then st.change .reset
    else
      match sendSerialQuery st with
      | (ok, st) => if ok then st.change .sync else st.change .errFatal

def stepReset (st : St) : St :=
  match sendResetQuery st with
  | (ok, st) => if ok then st.change .sync else st

def stepSync (fuel : Nat) (st : St) : St :=
  if (syncG fuel st).1 then (syncG fuel st).2.1.change .established else (syncG fuel st).2.1

def stepEstablished (st : St) : St :=
  match waitForSync st with
  | (ok, st) =>
    if ok then
      match sendSerialQuery st with
      | (ok2, st) => if ok2 then st.change .sync else st
    else st

def stepErrNoData (st : St) : St :=
  purgeOutdated (doSleep ((requestReset st).change .reset) ((requestReset st).change .reset).tm.retry)
def stepErrNoIncr (st : St) : St := purgeOutdated ((requestReset st).change .reset)
def stepErrClose (st : St) : St := doSleep ((trClose st).change .connecting) ((trClose st).change .connecting).tm.retry

theorem fsmStep_eq (fuel : Nat) (st : St) :
    fsmStep fuel st =
      match st.c.state with
      | .connecting => some (stepConnecting st)
      | .reset => some (stepReset st)
      | .sync => some (stepSync fuel st)
      | .established => some (stepEstablished st)
      | .fastReconnect => some ((trClose st).change .connecting)
      | .errNoData => some (stepErrNoData st)
      | .errNoIncr => some (stepErrNoIncr st)
      | .errTransport => some (stepErrClose st)
      | .errFatal => some (stepErrClose st)
      | .shutdown => none
      | .closed => some st := by
  unfold fsmStep stepConnecting stepReset stepSync stepEstablished stepErrNoData stepErrNoIncr stepErrClose sync
    clearReceived requestReset
  cases st.c.state <;> simp only
  all_goals (repeat' split)
  all_goals (first | rfl | simp_all)

end Rtr.P

namespace Rtr.P

/-! ## what one step guarantees -/

/-- the facts one iteration of the state machine preserves or establishes -/
structure StepOK (fuel : Nat) (st st' : St) : Prop where
  /-- C13: the version is never raised -/
  ver : st'.c.version ≤ st.c.version
  /-- tables stay sets, records of other sockets are untouched -/
  tbl : TblOK st.t → TblOK st'.t ∧ OthersSame st.t st'.t
  /-- C05: the query that will be sent next is unchanged, or becomes a Reset Query, or — a
      synchronisation just succeeded — carries the session and serial of its End of Data -/
  query : TblOK st.t → (nextQuery st'.ss = nextQuery st.ss ∨ nextQuery st'.ss = none ∨
    (st.c.state = .sync ∧ (syncG fuel st).1 = true ∧ ∃ cr b, (syncG fuel st).2.2 = some (cr, b) ∧
      be16 cr 2 = be16 b.eod 2 ∧ (st.ss.reqSession = false → be16 cr 2 = st.ss.session) ∧
      nextQuery st'.ss = some (be16 b.eod 2, be32 b.eod 8)))

theorem stepOK_frame (fuel : Nat) (st st' : St) (h1 : st'.ss = st.ss) (h2 : st'.t = st.t)
    (h3 : st'.c.version ≤ st.c.version) : StepOK fuel st st' :=
  ⟨h3, fun h => by rw [h2]; exact ⟨h, OthersSame.refl _⟩, fun _ => Or.inl (by rw [h1])⟩

theorem OthersSame.trans {a b c : Tbl} (h1 : OthersSame a b) (h2 : OthersSame b c) : OthersSame a c :=
  ⟨fun x hx => (h2.1 x hx).trans (h1.1 x hx), fun x hx => (h2.2 x hx).trans (h1.2 x hx)⟩

/-- purge + request of a new session, as done by `rtr_purge_outdated_records` -/
theorem purgeOutdated_stepOK (fuel : Nat) (st0 st : St) (h : StepOK fuel st0 st) :
    StepOK fuel st0 (purgeOutdated st) := by
  have p := purgeOutdated_spec st
  rcases p.2.2.2 with ⟨e, _⟩ | ⟨_, _, ht, hr, _, _⟩
  · rw [e]; exact h
  · refine ⟨by rw [p.1]; exact h.ver, fun hk => ?_, fun _ => Or.inr (Or.inl (by simp [nextQuery, hr]))⟩
    obtain ⟨k1, k2⟩ := h.tbl hk
    have pn := purge_noOwn st.t
    rw [ht]
    exact ⟨pn.2.2 k1, k2.trans pn.2.1⟩

theorem stepConnecting_ok (fuel : Nat) (st : St) : StepOK fuel st (stepConnecting st) := by
  unfold stepConnecting
  have base : StepOK fuel st (clearReceived st) := stepOK_frame fuel st _ rfl rfl (Nat.le_refl _)
  have p := purgeOutdated_stepOK fuel st (clearReceived st) base
  generalize purgeOutdated (clearReceived st) = st1 at p
  have o := trOpen_frame st1
  generalize trOpen st1 = ro at o
  obtain ⟨rc, st2⟩ := ro
  simp only at o ⊢
  have lift : ∀ (st3 : St), st3.ss = st2.ss → st3.t = st2.t → st3.c.version = st2.c.version → StepOK fuel st st3 := by
    intro st3 e1 e2 e3
    refine ⟨by rw [e3, o.2.2.2]; exact p.ver, fun hk => by rw [e2, o.2.1]; exact p.tbl hk, fun hk => ?_⟩
    rw [e1, o.1]; exact p.query hk
  split
  · exact lift _ (change_frame _ _).1 (change_frame _ _).2.1 (change_frame _ _).2.2.2.1
  · split
    · exact lift _ (change_frame _ _).1 (change_frame _ _).2.1 (change_frame _ _).2.2.2.1
    · have s := sendSerialQuery_frame st2
      generalize sendSerialQuery st2 = rs at s
      obtain ⟨ok, st3⟩ := rs
      simp only at s ⊢
      split
      · exact lift _ (by rw [(change_frame _ _).1, s.1]) (by rw [(change_frame _ _).2.1, s.2.1])
          (by rw [(change_frame _ _).2.2.2.1, s.2.2.2])
      · exact lift _ (by rw [(change_frame _ _).1, s.1]) (by rw [(change_frame _ _).2.1, s.2.1])
          (by rw [(change_frame _ _).2.2.2.1, s.2.2.2])

theorem stepReset_ok (fuel : Nat) (st : St) : StepOK fuel st (stepReset st) := by
  unfold stepReset
  have s := sendResetQuery_frame st
  generalize sendResetQuery st = rs at s
  obtain ⟨ok, st3⟩ := rs
  simp only at s ⊢
  split
  · exact stepOK_frame fuel st _ (by rw [(change_frame _ _).1, s.1]) (by rw [(change_frame _ _).2.1, s.2.1])
      (by rw [(change_frame _ _).2.2.2.1, s.2.2.2]; exact Nat.le_refl _)
  · exact stepOK_frame fuel st _ s.1 s.2.1 (by rw [s.2.2.2]; exact Nat.le_refl _)

theorem stepSync_ok (fuel : Nat) (st : St) (hs : st.c.state = .sync) : StepOK fuel st (stepSync fuel st) := by
  unfold stepSync
  have v := syncG_version_le fuel st
  split
  · rename_i hok
    refine ⟨by rw [(change_frame _ _).2.2.2.1]; exact v, fun hk => ?_, fun hk => ?_⟩
    · rw [(change_frame _ _).2.1]
      exact ⟨(syncG_spec fuel st hk).tblok, (syncG_spec fuel st hk).others⟩
    · obtain ⟨cr, b, hg, h1, h2, h3, _, _, _, _, h8, h9, _⟩ := (syncG_spec fuel st hk).success hok
      refine Or.inr (Or.inr ⟨hs, hok, cr, b, hg, by rw [h2, h3], h1, ?_⟩)
      rw [(change_frame _ _).1]
      unfold nextQuery
      rw [h9]; simp only [Bool.false_eq_true, if_false]
      rw [h8, ← h3]
  · rename_i hok
    have hok' : (syncG fuel st).1 = false := by simpa using hok
    refine ⟨v, fun hk => ⟨(syncG_spec fuel st hk).tblok, (syncG_spec fuel st hk).others⟩, fun hk => ?_⟩
    rcases ((syncG_spec fuel st hk).failure hok').2 with ⟨_, h⟩ | ⟨_, h⟩
    · exact Or.inl h
    · exact Or.inr (Or.inl (by simp [nextQuery, h]))

theorem stepEstablished_ok (fuel : Nat) (st : St) : StepOK fuel st (stepEstablished st) := by
  unfold stepEstablished
  have w := waitForSync_frame st
  generalize waitForSync st = rw at w
  obtain ⟨ok, st2⟩ := rw
  simp only at w ⊢
  split
  · have s := sendSerialQuery_frame st2
    generalize sendSerialQuery st2 = rs at s
    obtain ⟨ok2, st3⟩ := rs
    simp only at s ⊢
    split
    · exact stepOK_frame fuel st _ (by rw [(change_frame _ _).1, s.1, w.1]) (by rw [(change_frame _ _).2.1, s.2.1, w.2.1])
        (by rw [(change_frame _ _).2.2.2.1, s.2.2.2]; exact w.2.2.2)
    · exact stepOK_frame fuel st _ (by rw [s.1, w.1]) (by rw [s.2.1, w.2.1]) (by rw [s.2.2.2]; exact w.2.2.2)
  · exact stepOK_frame fuel st _ w.1 w.2.1 w.2.2.2

theorem requestReset_ok (fuel : Nat) (st : St) : StepOK fuel st ((requestReset st).change .reset) := by
  refine ⟨by rw [(change_frame _ _).2.2.2.1]; exact Nat.le_refl _, fun hk => by rw [(change_frame _ _).2.1]; exact ⟨hk, OthersSame.refl _⟩,
    fun _ => Or.inr (Or.inl ?_)⟩
  rw [(change_frame _ _).1]; simp [nextQuery, requestReset]

theorem doSleep_ok (fuel : Nat) (st0 st : St) (k : Nat) (h : StepOK fuel st0 st) : StepOK fuel st0 (doSleep st k) :=
  ⟨h.ver, h.tbl, h.query⟩

/-- **one step of the state machine** -/
theorem fsmStep_ok (fuel : Nat) (st st' : St) (h : fsmStep fuel st = some st') : StepOK fuel st st' := by
  rw [fsmStep_eq] at h
  cases hs : st.c.state <;> rw [hs] at h <;> simp only [Option.some.injEq] at h
  · subst h; exact stepConnecting_ok fuel st
  · subst h; exact stepEstablished_ok fuel st
  · subst h; exact stepReset_ok fuel st
  · subst h; exact stepSync_ok fuel st hs
  · subst h
    exact stepOK_frame fuel st _ (change_frame _ _).1 (change_frame _ _).2.1
      (by rw [(change_frame _ _).2.2.2.1]; exact Nat.le_refl _)
  · subst h; exact purgeOutdated_stepOK fuel st _ (doSleep_ok fuel st _ _ (requestReset_ok fuel st))
  · subst h; exact purgeOutdated_stepOK fuel st _ (requestReset_ok fuel st)
  · subst h
    exact doSleep_ok fuel st _ _ (stepOK_frame fuel st _ (change_frame _ _).1 (change_frame _ _).2.1
      (by rw [(change_frame _ _).2.2.2.1]; exact Nat.le_refl _))
  · subst h
    exact doSleep_ok fuel st _ _ (stepOK_frame fuel st _ (change_frame _ _).1 (change_frame _ _).2.1
      (by rw [(change_frame _ _).2.2.2.1]; exact Nat.le_refl _))
  · cases h
  · subst h; exact stepOK_frame fuel st _ rfl rfl (Nat.le_refl _)

end Rtr.P

namespace Rtr.P

/-! ## runs -/

/-- `st'` is reached from `st` by finitely many iterations of the state machine -/
inductive Reach (fuel : Nat) : St → St → Prop where
  | refl (st : St) : Reach fuel st st
  | step {st st1 st2 : St} : Reach fuel st st1 → fsmStep fuel st1 = some st2 → Reach fuel st st2

theorem reach_inv (fuel : Nat) {st st' : St} (h : Reach fuel st st') (ht : TblOK st.t) :
    st'.c.version ≤ st.c.version ∧ TblOK st'.t ∧ OthersSame st.t st'.t := by
  induction h with
  | refl => exact ⟨Nat.le_refl _, ht, OthersSame.refl _⟩
  | step _ hs ih =>
    have s := fsmStep_ok fuel _ _ hs
    obtain ⟨k1, k2⟩ := s.tbl ih.2.1
    exact ⟨Nat.le_trans s.ver ih.1, k1, ih.2.2.trans k2⟩

/-- `fsmRun` only visits reachable states (its last act, when the step budget is used up, is a trace line) -/
theorem fsmRun_reach : ∀ (steps fuel : Nat) (st : St), ∃ st', Reach fuel st st' ∧
    (fsmRun steps fuel st).c = st'.c ∧ (fsmRun steps fuel st).ss = st'.ss ∧ (fsmRun steps fuel st).t = st'.t ∧
    (fsmRun steps fuel st).tm = st'.tm := by
  intro steps
  induction steps with
  | zero => intro fuel st; exact ⟨st, Reach.refl st, rfl, rfl, rfl, rfl⟩
  | succ steps ih =>
    intro fuel st
    simp only [fsmRun]
    cases h : fsmStep fuel st with
    | none => exact ⟨st, Reach.refl st, rfl, rfl, rfl, rfl⟩
    | some st1 =>
      simp only
      obtain ⟨st', r, e⟩ := ih fuel st1
      refine ⟨st', ?_, e⟩
      clear e
      induction r with
      | refl => exact Reach.step (Reach.refl st) h
      | step _ hs ih' => exact Reach.step ih' hs

/-! ## stop on a running thread, restart -/

/-- the state in which `rtr_fsm_start` enters its loop: CONNECTING by direct assignment (no state callback) -/
def startState (st : St) : St := { st with c := { st.c with state := .connecting }, n := { st.n with threaded := true } }

theorem fsmStart_first (steps fuel : Nat) (st : St) (hs : st.c.state ≠ .shutdown) :
    fsmStart (steps + 1) fuel st = fsmRun steps fuel (stepConnecting (startState st)) := by
  unfold fsmStart
  rw [if_neg hs]
  show fsmRun (steps + 1) fuel (startState st) = _
  simp only [fsmRun]
  rw [fsmStep_eq]
  rfl

/-- the first iteration of a run does not look at the first-PDU flag an earlier run has left -/
theorem stepConnecting_forgets (st : St) (b : Bool) :
    stepConnecting { st with c := { st.c with hasReceived := b } } = stepConnecting st := by
  unfold stepConnecting clearReceived
  rfl

theorem stopFinish_ss (st : St) : (stopFinish st).ss.reqSession = true ∧ (stopFinish st).ss.lastUpdate = 0 ∧
    (stopFinish st).ss.serial = 0 := ⟨rfl, rfl, rfl⟩

theorem stopFinish_tbl (st : St) : (stopFinish st).t = st.t.purge := rfl

/-- first iteration after `rtr_stop` + `rtr_start`: open, then RESET (which sends the Reset Query) -/
theorem restart_step (s : St) (hr : s.ss.reqSession = true) (h0 : s.ss.lastUpdate = 0) :
    stepConnecting (startState s) =
      (if (trOpen (clearReceived (startState s))).1 = -1 then (trOpen (clearReceived (startState s))).2.change .errTransport
       else (trOpen (clearReceived (startState s))).2.change .reset) := by
  have hp : purgeOutdated (clearReceived (startState s)) = clearReceived (startState s) := by
    unfold purgeOutdated
    have : (clearReceived (startState s)).ss.lastUpdate = 0 := h0
    rw [if_pos this]
  unfold stepConnecting
  rw [hp]
  have o := trOpen_frame (clearReceived (startState s))
  generalize trOpen (clearReceived (startState s)) = ro at o
  obtain ⟨rc, st2⟩ := ro
  simp only at o ⊢
  have : st2.ss.reqSession = true := by rw [o.1]; exact hr
  rw [this]; simp

end Rtr.P
