/-
  TableSet: the public prefix-table operations (both families) refine a set of records; the
  callback log mirrors every change.
-/
import RtrProofs.TrieSet
import RtrProofs.Validate

namespace Rtr
open PfxTable

def toRec (v6 : Bool) (x : Addr × Nat × Elem) : Rec := mkRec v6 x.1 x.2.1 x.2.2

theorem trieRecs_eq (v6 : Bool) (t : Trie) : trieRecs v6 t = t.elems.map (toRec v6) := by
  simp [trieRecs, Trie.elems, List.map_flatMap, toRec, Function.comp_def]

theorem toRec_inj (v6 : Bool) (x y : Addr × Nat × Elem) (h : toRec v6 x = toRec v6 y) : x = y := by
  obtain ⟨a, n, e⟩ := x; obtain ⟨b, m, f⟩ := y
  cases e; cases f
  simp [toRec, mkRec] at h
  simp [h]

theorem toRec_of (r : Rec) : toRec r.v6 (r.addr, r.len, r.elem) = r := by
  cases r; simp [toRec, mkRec, Rec.elem]

structure TableWF (T : PfxTable) : Prop where
  w4 : WF 32 T.v4 0
  w6 : WF 128 T.t6 0

/-- a record whose prefix is well formed for its family -/
def RecOK (r : Rec) : Prop := KeyOK r.width r.addr r.len

theorem mem_trieRecs (v6 : Bool) (t : Trie) (r : Rec) :
    r ∈ trieRecs v6 t ↔ r.v6 = v6 ∧ (r.addr, r.len, r.elem) ∈ t.elems := by
  rw [trieRecs_eq, List.mem_map]
  constructor
  · rintro ⟨x, hx, rfl⟩
    obtain ⟨a, n, e⟩ := x
    cases e
    exact ⟨rfl, by simpa [toRec, mkRec, Rec.elem] using hx⟩
  · rintro ⟨h1, h2⟩
    exact ⟨_, h2, by rw [← h1]; exact toRec_of r⟩

theorem mem_recs (T : PfxTable) (r : Rec) :
    r ∈ T.recs ↔ (r.addr, r.len, r.elem) ∈ (T.root r.v6).elems := by
  unfold PfxTable.recs recs4 recs6 root
  rw [List.mem_append, mem_trieRecs, mem_trieRecs]
  cases r.v6 <;> simp

theorem recs_setRoot_perm (T : PfxTable) (v6 : Bool) (t : Trie) (X : List (Addr × Nat × Elem))
    (h : t.elems.Perm X) : (T.setRoot v6 t).recs.Perm
      (if v6 then T.recs4 ++ X.map (toRec true) else X.map (toRec false) ++ T.recs6) := by
  cases v6
  · simp only [setRoot, PfxTable.recs, recs4, recs6, Bool.false_eq_true, if_false, trieRecs_eq]
    exact List.Perm.append_right _ (h.map _)
  · simp only [setRoot, PfxTable.recs, recs4, recs6, if_true, trieRecs_eq]
    exact List.Perm.append_left _ (h.map _)

theorem recs_root_perm (T : PfxTable) (v6 : Bool) : T.recs =
    (if v6 then T.recs4 ++ (T.root v6).elems.map (toRec true) else (T.root v6).elems.map (toRec false) ++ T.recs6) := by
  cases v6 <;> simp [PfxTable.recs, recs4, recs6, root, trieRecs_eq]

theorem setRoot_WF (T : PfxTable) (v6 : Bool) (t : Trie) (h : TableWF T) (ht : WF (if v6 then 128 else 32) t 0) :
    TableWF (T.setRoot v6 t) := by
  cases v6
  · exact ⟨by simpa [setRoot] using ht, by simpa [setRoot] using h.w6⟩
  · exact ⟨by simpa [setRoot] using h.w4, by simpa [setRoot] using ht⟩

theorem root_WF (T : PfxTable) (v6 : Bool) (h : TableWF T) : WF (if v6 then 128 else 32) (T.root v6) 0 := by
  cases v6
  · simpa [root] using h.w4
  · simpa [root] using h.w6

theorem notify_recs (T : PfxTable) (b : Bool) (r : Rec) : (T.notify b r).recs = T.recs := by
  unfold notify; split <;> rfl

theorem notify_WF (T : PfxTable) (b : Bool) (r : Rec) (h : TableWF T) : TableWF (T.notify b r) := by
  unfold notify; split
  · exact ⟨h.w4, h.w6⟩
  · exact h

/-! ## add -/

structure TAddOK (T : PfxTable) (r : Rec) (res : PfxTable × PfxRc) : Prop where
  wf : TableWF res.1
  dup : r ∈ T.recs → res.2 = .duplicate ∧ res.1 = T
  ok : r ∉ T.recs → res.2 = .success ∧ res.1.recs.Perm (r :: T.recs) ∧
        res.1.log = (if T.hasCb then T.log ++ [(true, r)] else T.log) ∧ res.1.hasCb = T.hasCb

theorem setRoot_root (T : PfxTable) (v6 : Bool) : T.setRoot v6 (T.root v6) = T := by
  cases v6 <;> simp [setRoot, root]

theorem add_spec (T : PfxTable) (r : Rec) (h : TableWF T) (hr : RecOK r) : TAddOK T r (T.add r) := by
  have hw : r.width = (if r.v6 then 128 else 32) := rfl
  have spec := addTrie_spec r.width (T.root r.v6) r.addr r.len r.elem (by rw [hw]; exact root_WF T r.v6 h) hr
  unfold PfxTable.add
  generalize hres : addTrie r.width (T.root r.v6) r.addr r.len r.elem = res at spec
  obtain ⟨t', rc⟩ := res
  simp only
  have wf' : TableWF (T.setRoot r.v6 t') := setRoot_WF T r.v6 t' h (by rw [← hw]; exact spec.wf)
  rcases spec.codes with hc | hc
  · simp only at hc; subst hc
    obtain ⟨hnot, hperm⟩ := spec.ok rfl
    simp only [if_true]
    refine ⟨notify_WF _ _ _ wf', fun hin => absurd ((mem_recs T r).1 hin) hnot, fun _ => ⟨rfl, ?_, ?_, ?_⟩⟩
    · rw [notify_recs]
      refine (recs_setRoot_perm T r.v6 t' _ hperm).trans ?_
      rw [recs_root_perm T r.v6]
      cases hv : r.v6
      · simp only [Bool.false_eq_true, if_false, List.map_cons]
        have := toRec_of r; rw [hv] at this; rw [this]
        exact List.Perm.refl _
      · simp only [if_true, List.map_cons]
        have := toRec_of r; rw [hv] at this; rw [this]
        exact List.perm_middle
    · unfold notify; cases hv : r.v6 <;> cases hcb : T.hasCb <;> simp [setRoot, hv, hcb]
    · unfold notify; cases hv : r.v6 <;> cases hcb : T.hasCb <;> simp [setRoot, hv, hcb]
  · simp only at hc; subst hc
    obtain ⟨he, hin⟩ := spec.dup rfl
    simp only at he; subst he
    simp only [setRoot_root]
    refine ⟨h, fun _ => ⟨rfl, rfl⟩, fun hnot => absurd ((mem_recs T r).2 hin) hnot⟩

/-! ## remove -/

structure TRemOK (T : PfxTable) (r : Rec) (res : PfxTable × PfxRc) : Prop where
  wf : TableWF res.1
  nf : r ∉ T.recs → res.2 = .notFound ∧ res.1 = T
  ok : r ∈ T.recs → res.2 = .success ∧ T.recs.Perm (r :: res.1.recs) ∧
        res.1.log = (if T.hasCb then T.log ++ [(false, r)] else T.log) ∧ res.1.hasCb = T.hasCb

theorem remove_spec (T : PfxTable) (r : Rec) (h : TableWF T) : TRemOK T r (T.remove r) := by
  have hw : r.width = (if r.v6 then 128 else 32) := rfl
  have spec := removeTrie_spec r.width (T.root r.v6) r.addr r.len r.elem (by rw [hw]; exact root_WF T r.v6 h)
  unfold PfxTable.remove
  generalize hres : removeTrie r.width (T.root r.v6) r.addr r.len r.elem = res at spec
  obtain ⟨t', rc⟩ := res
  simp only
  have wf' : TableWF (T.setRoot r.v6 t') := setRoot_WF T r.v6 t' h (by rw [← hw]; exact spec.wf)
  rcases spec.codes with hc | hc
  · simp only at hc; subst hc
    have hperm := spec.ok rfl
    simp only [if_true]
    have hin : r ∈ T.recs := (mem_recs T r).2 (hperm.mem_iff.2 (by simp))
    refine ⟨notify_WF _ _ _ wf', fun hnot => absurd hin hnot, fun _ => ⟨rfl, ?_, ?_, ?_⟩⟩
    · rw [notify_recs]
      refine List.Perm.trans ?_ (List.Perm.cons _ (recs_setRoot_perm T r.v6 t' _ (List.Perm.refl _)).symm)
      rw [recs_root_perm T r.v6]
      cases hv : r.v6
      · simp only [Bool.false_eq_true, if_false]
        rw [hv] at hperm
        have := (hperm.map (toRec false)).append_right T.recs6
        simp only [List.map_cons] at this
        have e := toRec_of r; rw [hv] at e; rw [e] at this
        exact this
      · simp only [if_true]
        rw [hv] at hperm
        have := (hperm.map (toRec true)).append_left T.recs4
        simp only [List.map_cons] at this
        have e := toRec_of r; rw [hv] at e; rw [e] at this
        exact this.trans List.perm_middle
    · unfold notify; cases hv : r.v6 <;> cases hcb : T.hasCb <;> simp [setRoot, hv, hcb]
    · unfold notify; cases hv : r.v6 <;> cases hcb : T.hasCb <;> simp [setRoot, hv, hcb]
  · simp only at hc; subst hc
    obtain ⟨he, hnin⟩ := spec.nf rfl
    simp only at he; subst he
    simp only [setRoot_root]
    refine ⟨h, fun _ => ⟨rfl, rfl⟩, fun hin => absurd ((mem_recs T r).1 hin) hnin⟩

/-! ## notifyAll, srcRemove, free -/

theorem notifyAll_spec (b : Bool) : ∀ (rs : List Rec) (T : PfxTable),
    (T.notifyAll b rs).v4 = T.v4 ∧ (T.notifyAll b rs).t6 = T.t6 ∧ (T.notifyAll b rs).hasCb = T.hasCb ∧
    (T.notifyAll b rs).log = (if T.hasCb then T.log ++ rs.map (fun r => (b, r)) else T.log) := by
  intro rs
  induction rs with
  | nil => intro T; simp [notifyAll]
  | cons r rs ih =>
    intro T
    have := ih (T.notify b r)
    simp only [notifyAll, List.foldl_cons] at this ⊢
    obtain ⟨h1, h2, h3, h4⟩ := this
    unfold notify at h1 h2 h3 h4 ⊢
    cases hcb : T.hasCb <;> simp [hcb] at h1 h2 h3 h4 ⊢ <;> simp [h1, h2, h3, h4]

structure TSrcOK (T : PfxTable) (src : Nat) (T' : PfxTable) : Prop where
  wf : TableWF T'
  recs : T'.recs.Perm (T.recs.filter fun r => r.src != src)
  cb : T'.hasCb = T.hasCb
  log : ∃ gone : List Rec, gone.Perm (T.recs.filter fun r => r.src == src) ∧
        T'.log = (if T.hasCb then T.log ++ gone.map (fun r => (false, r)) else T.log)

theorem filter_toRec (v6 : Bool) (p : Nat → Bool) (l : List (Addr × Nat × Elem)) :
    (l.map (toRec v6)).filter (fun r => p r.src) = (l.filter (fun x => p x.2.2.src)).map (toRec v6) := by
  rw [List.filter_map]; rfl

theorem srcRemove_spec (T : PfxTable) (src : Nat) (h : TableWF T) : TSrcOK T src (T.srcRemove src) := by
  have s4 := removeId_WF 32 src T.v4 0 h.w4
  have s6 := removeId_WF 128 src T.t6 0 h.w6
  unfold PfxTable.srcRemove
  generalize h4 : removeId src T.v4 = r4 at s4
  obtain ⟨a, la⟩ := r4
  simp only
  have n1 := notifyAll_spec false (la.map fun (ad, ln, e) => mkRec false ad ln e) { T with v4 := a }
  generalize hT1 : ({ T with v4 := a } : PfxTable).notifyAll false (la.map fun (ad, ln, e) => mkRec false ad ln e) = T1 at n1
  obtain ⟨n11, n12, n13, n14⟩ := n1
  simp only at n11 n12 n13 n14
  rw [n12]
  generalize h6 : removeId src T.t6 = r6 at s6
  obtain ⟨b, lb⟩ := r6
  simp only
  have n2 := notifyAll_spec false (lb.map fun (ad, ln, e) => mkRec true ad ln e) { T1 with t6 := b }
  generalize hT2 : ({ T1 with t6 := b } : PfxTable).notifyAll false (lb.map fun (ad, ln, e) => mkRec true ad ln e) = T2 at n2
  obtain ⟨n21, n22, n23, n24⟩ := n2
  simp only at n21 n22 n23 n24
  have e4 : (la.map fun (ad, ln, e) => mkRec false ad ln e) = la.map (toRec false) := rfl
  have e6 : (lb.map fun (ad, ln, e) => mkRec true ad ln e) = lb.map (toRec true) := rfl
  refine ⟨⟨by rw [n21, n11]; exact s4.wf, by rw [n22]; exact s6.wf⟩, ?_, by rw [n23, n13], ?_⟩
  · simp only [PfxTable.recs, recs4, recs6, n21, n22, n11, trieRecs_eq, List.filter_append]
    rw [filter_toRec false (fun s => s != src), filter_toRec true (fun s => s != src)]
    exact (s4.kept.map _).append (s6.kept.map _)
  · refine ⟨la.map (toRec false) ++ lb.map (toRec true), ?_, ?_⟩
    · simp only [PfxTable.recs, recs4, recs6, trieRecs_eq, List.filter_append]
      rw [filter_toRec false (fun s => s == src), filter_toRec true (fun s => s == src)]
      exact (s4.gone.map _).append (s6.gone.map _)
    · rw [n24, n13, n14, e4, e6]
      cases T.hasCb <;> simp

end Rtr
