/-
  AllocSpki: tommy_hashlin and the router-key table under the allocator oracle.  Growing is
  optional (the table keeps its invariant when the new segment is refused); block accounting
  (entries + hash segments).
-/
import RtrProofs.AllocPfx
import RtrProofs.SpkiRefine

namespace Rtr
namespace Alloc
open SpkiTable

/-! ### how many segments a grow / shrink step adds / drops -/

section Hl
variable {α : Type}

theorem growLoop_bit : ∀ (fuel target : Nat) (h : Hashlin α), (Hashlin.growLoop fuel target h).bucketBit = h.bucketBit := by
  intro fuel
  induction fuel with
  | zero => intro target h; rfl
  | succ fuel ih =>
    intro target h
    unfold Hashlin.growLoop
    split
    · simp only
      split
      · rfl
      · rw [ih]; rfl
    · rfl

theorem growSetup_bit (h : Hashlin α) :
    (Hashlin.growSetup h).bucketBit = h.bucketBit + (if needSeg h then 1 else 0) := by
  unfold Hashlin.growSetup needSeg
  by_cases hc : h.count > h.bucketMax / 2 <;> cases hst : h.state <;> simp [hc, hst]

theorem growStep_bit (h : Hashlin α) :
    (Hashlin.growStep h).bucketBit = h.bucketBit + (if needSeg h then 1 else 0) := by
  unfold Hashlin.growStep
  simp only
  split
  · rw [growLoop_bit, growSetup_bit]
  · rw [growSetup_bit]

theorem shrinkSetup_bit (h : Hashlin α) : (Hashlin.shrinkSetup h).bucketBit = h.bucketBit := by
  unfold Hashlin.shrinkSetup
  split
  · split
    · split <;> rfl
    · rfl
  · rfl

theorem shrinkLoop_bit : ∀ (fuel target : Nat) (h : Hashlin α),
    (Hashlin.shrinkLoop fuel target h).bucketBit = h.bucketBit ∨
    (Hashlin.shrinkLoop fuel target h).bucketBit = h.bucketBit - 1 := by
  intro fuel
  induction fuel with
  | zero => intro target h; exact Or.inl rfl
  | succ fuel ih =>
    intro target h
    unfold Hashlin.shrinkLoop
    split
    · simp only
      split
      · exact Or.inr rfl
      · exact ih target (Hashlin.shrinkOne h)
    · exact Or.inl rfl

theorem shrinkStep_bit (h : Hashlin α) :
    (Hashlin.shrinkStep h).bucketBit = h.bucketBit ∨ (Hashlin.shrinkStep h).bucketBit = h.bucketBit - 1 := by
  unfold Hashlin.shrinkStep
  simp only
  split
  · have := shrinkLoop_bit (Hashlin.shrinkSetup h).split (8 * (Hashlin.shrinkSetup h).count) (Hashlin.shrinkSetup h)
    rw [shrinkSetup_bit] at this
    exact this
  · exact Or.inl (shrinkSetup_bit h)

/-- a shrink step releases exactly the segment it drops -/
theorem segActs_blocks (h h' : Hashlin α) (hb : h'.bucketBit = h.bucketBit ∨ h'.bucketBit = h.bucketBit - 1)
    (hge : hashlinBit ≤ h'.bucketBit) :
    frees (segActs h h') + hlBlocks h' = hlBlocks h ∧ shrinks (segActs h h') = 0 := by
  unfold segActs hlBlocks
  split
  · simp; omega
  · simp; omega

theorem doneActs_counts (h : Hashlin α) : frees (doneActs h) = hlBlocks h ∧ shrinks (doneActs h) = 0 := by
  unfold doneActs hlBlocks
  simp only [frees_cons_free, shrinks_cons_free]
  generalize h.bucketBit - hashlinBit = n
  have : ∀ (l : List Nat), frees (l.map fun i => Act.free .segment (2 ^ (hashlinBit + i))) = l.length ∧
      shrinks (l.map fun i => Act.free .segment (2 ^ (hashlinBit + i))) = 0 := by
    intro l
    induction l with
    | nil => simp
    | cons x xs ih => simp [ih.1, ih.2]
  obtain ⟨h1, h2⟩ := this (List.range n)
  rw [h1, h2]; simp

/-! ### tommy_hashlin_insert under the oracle -/

/-- the table right after the node has been linked and counted, before `hashlin_grow_step` -/
def linked (h : Hashlin α) (data : α) (hash : Nat) : Hashlin α :=
  { h with bucket := upd h.bucket (h.bucketPos hash) (h.bucket (h.bucketPos hash) ++ [⟨hash, data⟩]), count := h.count + 1 }

theorem insert_eq (h : Hashlin α) (data : α) (hash : Nat) : h.insert data hash = (linked h data hash).growStep := rfl

theorem hlInsertF_eq (a : A) (h : Hashlin α) (data : α) (hash : Nat) :
    hlInsertF a h data hash = growStepF a (linked h data hash) := rfl

/-- requests of `hashlin_grow_step` -/
def segReqs (h : Hashlin α) : Nat := if needSeg h then 1 else 0

structure GrowOK (a : A) (h : Hashlin α) (q : A × Hashlin α) : Prop where
  pass : ¬ a.hits (segReqs h) → q.2 = h.growStep ∧ q.1.budget = a.after (segReqs h) ∧ refusals q.1.trace = refusals a.trace
  hit : a.hits (segReqs h) → q.2 = h ∧ q.1.budget = none ∧ refusals q.1.trace = refusals a.trace + 1
  net : hashlinBit ≤ h.bucketBit → Alloc.net q.1.trace = Alloc.net a.trace + (hlBlocks q.2 - hlBlocks h : Int)
  nolibc : NoLibc a.trace → NoLibc q.1.trace

theorem growStepF_ok (a : A) (h : Hashlin α) : GrowOK a h (growStepF a h) := by
  unfold growStepF
  by_cases hn : needSeg h
  · simp only [hn, if_true]
    have q := malloc_ok a .segment h.bucketMax
    have hb := growStep_bit h
    simp only [hn, if_true] at hb
    by_cases h1 : a.hits 1
    · obtain ⟨hq, hbud, hr, hnet⟩ := q.hit h1
      simp only [hq, Bool.false_eq_true, if_false]
      refine ⟨?_, ?_, fun _ => by rw [hnet]; simp, q.nolibc⟩
      · simp only [segReqs, hn, if_true]; intro h'; exact absurd h1 h'
      · simp only [segReqs, hn, if_true]; intro _; exact ⟨by first | rfl | trivial, hbud, hr⟩
    · obtain ⟨hq, hbud, hr, hnet⟩ := q.pass h1
      simp only [hq, if_true]
      refine ⟨?_, ?_, fun hge => ?_, q.nolibc⟩
      · simp only [segReqs, hn, if_true]; intro _; exact ⟨by first | rfl | trivial, hbud, hr⟩
      · simp only [segReqs, hn, if_true]; intro h'; exact absurd h' h1
      · rw [hnet]; simp only [hlBlocks, hb]; omega
  · simp only [hn, Bool.false_eq_true, if_false]
    have hb := growStep_bit h
    simp only [hn, Bool.false_eq_true, if_false, Nat.add_zero] at hb
    refine ⟨?_, ?_, fun _ => by simp only [hlBlocks, hb]; omega, fun h' => h'⟩
    · simp only [segReqs, hn, Bool.false_eq_true, if_false]; intro _; exact ⟨by first | rfl | trivial, by rw [after_zero], by first | rfl | trivial⟩
    · simp only [segReqs, hn, Bool.false_eq_true, if_false]; intro h'; exact absurd h' (hits_zero a)

/-- **growing is optional**: linking the node without running the grow step keeps the invariant,
    and the stored nodes are the old ones plus the new one -/
theorem linked_spec [DecidableEq α] (h : Hashlin α) (iv : h.Inv) (d : α) (key : Nat) :
    (linked h d key).Inv ∧ ∀ x, (linked h d key).mult x = h.mult x + if x = ⟨key, d⟩ then 1 else 0 := by
  have w := iv.toWf
  have hp := Hashlin.bucketPos_eq_index w.num key
  have hlt := Hashlin.index_lt_valid w.num key
  have w0 : (linked h d key).Wf := by
    apply Hashlin.wf_upd_bucket w
    intro n hn
    rcases List.mem_append.mp hn with hn | hn
    · rw [hp]; exact w.filed _ hlt n (by rw [← hp]; exact hn)
    · simp at hn; subst hn; exact hp.symm
  have hsum : ∀ f : List (HNode α) → Nat, Additive f →
      sumB f (linked h d key).bucket (linked h d key).valid = sumB f h.bucket h.valid + f [⟨key, d⟩] := by
    intro f hf
    have := Hashlin.sumB_upd_pos w key (h.bucket (h.bucketPos key) ++ [⟨key, d⟩]) f
    rw [hf.append] at this
    show sumB f (upd h.bucket (h.bucketPos key) _) h.valid = _
    omega
  refine ⟨⟨w0, ?_⟩, fun x => ?_⟩
  · show h.count + 1 = _
    rw [hsum _ additive_length, iv.count_eq]; rfl
  · unfold Hashlin.mult
    rw [hsum _ (additive_count x)]
    congr 1
    by_cases hx : x = ⟨key, d⟩
    · subst hx; simp
    · have : (⟨key, d⟩ : HNode α) ≠ x := fun e => hx e.symm
      simp [hx, this]

end Hl

/-! ### spki_table_add_entry -/

/-- the table after an add whose new hash segment was refused: entry stored, no growth -/
def addNoGrow (T : SpkiTable) (r : SpkiRec) : SpkiTable :=
  ({ T with ht := linked T.ht r (spkiHash r), list := T.list ++ [r] } : SpkiTable).notify true r

/-- storing a new record through any hash-table state that holds exactly the old nodes plus the
    new one keeps the table invariant (same argument as `sinv_insert`) -/
theorem sinv_stored {T : SpkiTable} (iv : SInv T) (r : SpkiRec) (hr : r ∉ T.list) (ht' : Hashlin SpkiRec)
    (i1 : ht'.Inv) (m1 : ∀ x, ht'.mult x = T.ht.mult x + if x = ⟨spkiHash r, r⟩ then 1 else 0) :
    SInv { T with ht := ht', list := T.list ++ [r] } := by
  refine ⟨i1, ?_, fun x => ?_⟩
  · show (T.list ++ [r]).Nodup
    rw [List.nodup_append]
    refine ⟨iv.nodup, by simp, ?_⟩
    intro a ha b hb
    simp at hb; subst hb
    intro e; subst e; exact hr ha
  · show ht'.mult x = if x.key = spkiHash x.data then (T.list ++ [r]).count x.data else 0
    rw [m1 x, iv.same x, List.count_append, List.count_singleton]
    cases x with
    | mk k d =>
      by_cases hk : k = spkiHash d
      · by_cases hd : d = r
        · subst hd; subst hk; simp
        · have h1 : ¬ (r == d) = true := by simp; exact fun e => hd e.symm
          have h2 : (⟨k, d⟩ : HNode SpkiRec) ≠ ⟨spkiHash r, r⟩ := by
            intro e; injection e with _ e2; exact hd e2
          simp [hk, h1, hd]
      · have h2 : (⟨k, d⟩ : HNode SpkiRec) ≠ ⟨spkiHash r, r⟩ := by
          intro e; injection e with e1 e2; subst e2; exact hk e1
        simp [hk, h2]

theorem addNoGrow_spec {T : SpkiTable} (iv : SInv T) (r : SpkiRec) (hr : r ∉ T.list) :
    SInv (addNoGrow T r) ∧ (addNoGrow T r).list = (T.add r).1.list ∧ (addNoGrow T r).log = (T.add r).1.log ∧
    (addNoGrow T r).hasCb = (T.add r).1.hasCb := by
  obtain ⟨i1, m1⟩ := linked_spec T.ht iv.ht r (spkiHash r)
  rw [add_new iv r hr]
  refine ⟨sinv_notify (sinv_stored iv r hr _ i1 m1) _ _, ?_, ?_, ?_⟩
  · simp [addNoGrow]
  · simp [addNoGrow, notify_log]
  · simp [addNoGrow]

theorem spkiBlocks_notify (T : SpkiTable) (b : Bool) (r : SpkiRec) : spkiBlocks (T.notify b r) = spkiBlocks T := by
  simp [spkiBlocks]

/-- requests of `spki_table_add_entry`: the entry, and a hash segment if the table grows now -/
def kaddReqs (T : SpkiTable) (r : SpkiRec) : Nat :=
  if (T.ht.search (cmp r) (spkiHash r)).isSome then 1 else 1 + segReqs (linked T.ht r (spkiHash r))

/-- `spki_table_add_entry` under the oracle -/
structure KAddOK (a : A) (T : SpkiTable) (r : SpkiRec) (q : A × SpkiTable × SpkiRc) : Prop where
  pass : ¬ a.hits (kaddReqs T r) → q.2 = T.add r ∧ q.1.budget = a.after (kaddReqs T r) ∧
          refusals q.1.trace = refusals a.trace
  hit1 : a.hits 1 → q.2 = (T, .error) ∧ q.1.budget = none ∧ refusals q.1.trace = refusals a.trace + 1
  hit2 : ¬ a.hits 1 → a.hits (kaddReqs T r) → q.2 = (addNoGrow T r, .success) ∧ r ∉ T.list ∧ q.1.budget = none ∧
          refusals q.1.trace = refusals a.trace + 1
  net : SInv T → Alloc.net q.1.trace = Alloc.net a.trace + (spkiBlocks q.2.1 - spkiBlocks T : Int)
  nolibc : NoLibc a.trace → NoLibc q.1.trace

theorem kaddF_ok (a : A) (T : SpkiTable) (r : SpkiRec) (iv : SInv T) : KAddOK a T r (kaddF a T r) := by
  have q := malloc_ok a .entry 1
  unfold kaddF
  simp only
  by_cases h1 : a.hits 1
  · obtain ⟨hq, hb, hr, hn⟩ := q.hit h1
    simp only [hq, Bool.not_false, if_true]
    refine ⟨fun h => ?_, fun _ => ⟨rfl, hb, hr⟩, fun h => absurd h1 h, fun _ => by rw [hn]; simp, q.nolibc⟩
    exfalso; apply h; apply hits_mono h1; unfold kaddReqs; split <;> omega
  · obtain ⟨hq, hb, hr, hn⟩ := q.pass h1
    simp only [hq, Bool.not_true, Bool.false_eq_true, if_false]
    by_cases hdup : (T.ht.search (cmp r) (spkiHash r)).isSome
    · simp only [hdup, if_true]
      have hk : kaddReqs T r = 1 := by simp [kaddReqs, hdup]
      have hadd : T.add r = (T, .duplicate) := by simp [SpkiTable.add, hdup]
      refine ⟨fun _ => ⟨hadd.symm, by rw [hk]; exact hb, by simp [hr, Ev.refused]⟩, fun h => absurd h h1,
        fun _ h => by rw [hk] at h; exact absurd h h1, fun _ => ?_, fun h => noLibc_snoc (q.nolibc h) (by intro _ _ e; cases e)⟩
      simp [hn, Ev.delta]; omega
    · simp only [hdup, Bool.false_eq_true, if_false]
      have hrl : r ∉ T.list := fun hin => hdup ((search_iff iv r).2 hin)
      have hk : kaddReqs T r = 1 + segReqs (linked T.ht r (spkiHash r)) := by simp [kaddReqs, hdup]
      have g := growStepF_ok (a.malloc .entry 1).2 (linked T.ht r (spkiHash r))
      rw [hlInsertF_eq]
      have hh := hits_after hb h1 (segReqs (linked T.ht r (spkiHash r)))
      have hbit : hashlinBit ≤ (linked T.ht r (spkiHash r)).bucketBit := iv.ht.bit_ge
      have hadd : T.add r = (({ T with ht := T.ht.insert r (spkiHash r), list := T.list ++ [r] } : SpkiTable).notify true r, .success) :=
        add_new iv r hrl
      refine ⟨fun h => ?_, fun h => absurd h h1, fun _ h => ?_, fun _ => ?_, fun h => g.nolibc (q.nolibc h)⟩
      · rw [hk] at h ⊢
        obtain ⟨g1, g2, g3⟩ := g.pass (fun x => h (hh.1 x))
        refine ⟨?_, by rw [g2, after_after a _ 1 _ hb], by rw [g3, hr]⟩
        rw [hadd, g1, insert_eq]
      · rw [hk] at h
        obtain ⟨g1, g2, g3⟩ := g.hit (hh.2 h)
        refine ⟨?_, hrl, g2, by rw [g3, hr]⟩
        rw [g1]; rfl
      · rw [g.net hbit, hn]
        simp only [spkiBlocks_notify]
        simp only [spkiBlocks, List.length_append, List.length_singleton]
        have : hlBlocks T.ht = hlBlocks (linked T.ht r (spkiHash r)) := rfl
        rw [this]
        push_cast
        omega

/-! ### spki_table_remove_entry, spki_table_src_remove -/

theorem remove_ht_bit {T : SpkiTable} (iv : SInv T) (r : SpkiRec) :
    ((T.remove r).1.ht.bucketBit = T.ht.bucketBit ∨ (T.remove r).1.ht.bucketBit = T.ht.bucketBit - 1) ∧
    hashlinBit ≤ (T.remove r).1.ht.bucketBit := by
  by_cases hr : r ∈ T.list
  · obtain ⟨_, h2, _⟩ := remove_present_spec iv r hr
    refine ⟨?_, h2.ht.bit_ge⟩
    have hs := (search_iff iv r).mpr hr
    have hnone : ¬ (T.ht.search (cmp r) (spkiHash r)).isNone = true := by
      cases h : T.ht.search (cmp r) (spkiHash r) <;> simp_all
    have key : (T.ht.remove (cmp r) (spkiHash r)).1.bucketBit = T.ht.bucketBit ∨
        (T.ht.remove (cmp r) (spkiHash r)).1.bucketBit = T.ht.bucketBit - 1 := by
      unfold Hashlin.remove
      simp only
      split
      · exact Or.inl rfl
      · exact shrinkStep_bit _
    unfold SpkiTable.remove
    simp only [hnone, Bool.false_eq_true, if_false]
    rcases hrm : T.ht.remove (cmp r) (spkiHash r) with ⟨ht', o⟩
    rw [hrm] at key
    cases o <;> simpa using key
  · rw [remove_absent iv r hr]
    exact ⟨Or.inl rfl, iv.ht.bit_ge⟩

theorem kremActs_counts {T : SpkiTable} (iv : SInv T) (r : SpkiRec) :
    frees (kremActs T r) + spkiBlocks (T.remove r).1 = spkiBlocks T ∧ shrinks (kremActs T r) = 0 := by
  unfold kremActs
  obtain ⟨hb, hge⟩ := remove_ht_bit iv r
  by_cases hr : r ∈ T.list
  · obtain ⟨h1, _, h3, _, _⟩ := remove_present_spec iv r hr
    simp only [h1, if_true]
    obtain ⟨s1, s2⟩ := segActs_blocks T.ht (T.remove r).1.ht hb hge
    rw [frees_append, shrinks_append, s2]
    simp only [spkiBlocks, h3, List.length_erase_of_mem hr]
    have : 0 < T.list.length := List.length_pos_of_mem hr
    simp
    omega
  · rw [remove_absent iv r hr]
    simp

theorem kremoveF_result (a : A) (T : SpkiTable) (r : SpkiRec) : (kremoveF a T r).2 = T.remove r := rfl

theorem kremoveF_ok (a : A) {T : SpkiTable} (iv : SInv T) (r : SpkiRec) :
    net (kremoveF a T r).1.trace = net a.trace + (spkiBlocks (kremoveF a T r).2.1 - spkiBlocks T : Int) ∧
    (kremoveF a T r).1.budget = a.budget ∧ refusals (kremoveF a T r).1.trace = refusals a.trace ∧
    (NoLibc a.trace → NoLibc (kremoveF a T r).1.trace) := by
  have h := run_ok (kremActs T r) a
  obtain ⟨c1, c2⟩ := kremActs_counts iv r
  have p := h.pass (by rw [c2]; exact hits_zero a)
  refine ⟨?_, by show (a.run (kremActs T r)).budget = _; rw [p.1, c2, after_zero], p.2, h.nolibc⟩
  show net (a.run (kremActs T r)).trace = net a.trace + ((spkiBlocks (T.remove r).1 : Int) - spkiBlocks T)
  rw [h.net]; omega

theorem ksrcRemoveActs_counts (src : Nat) : ∀ (L : List SpkiRec) (T : SpkiTable), SInv T → L.Nodup →
    (∀ e, e ∈ L → e ∈ T.list) →
    frees (ksrcRemoveActs src L T) + spkiBlocks (srcRemoveLoop src L T) = spkiBlocks T ∧
    shrinks (ksrcRemoveActs src L T) = 0 := by
  intro L
  induction L with
  | nil => intro T _ _ _; simp [ksrcRemoveActs, srcRemoveLoop]
  | cons e rest ih =>
    intro T iv hL hsub
    obtain ⟨he, hrest⟩ := List.nodup_cons.mp hL
    by_cases hs : e.src = src
    · have hin : e ∈ T.list := hsub e (by simp)
      have hmem : T.ht.Mem (spkiNode e) := (mem_node iv _).mpr ⟨rfl, hin⟩
      obtain ⟨hi, hm⟩ := Hashlin.removeExisting_spec iv.ht (spkiNode e) hmem
      let T1 : SpkiTable := { T with list := T.list.erase e, ht := T.ht.removeExisting (spkiNode e) }
      have iv1 : SInv (T1.notify false e) := sinv_notify (sinv_erase iv e _ hi hm) _ _
      have hsub1 : ∀ x, x ∈ rest → x ∈ (T1.notify false e).list := by
        intro x hx
        rw [notify_list]
        show x ∈ T.list.erase e
        have hne : x ≠ e := fun h => he (h ▸ hx)
        rw [List.mem_erase_of_ne hne]; exact hsub x (by simp [hx])
      obtain ⟨r1, r2⟩ := ih (T1.notify false e) iv1 hrest hsub1
      have e1 : srcRemoveLoop src (e :: rest) T = srcRemoveLoop src rest (T1.notify false e) := by
        simp [srcRemoveLoop, hs, T1]
      have e2 : ksrcRemoveActs src (e :: rest) T =
          segActs T.ht T1.ht ++ [.free .entry 1] ++ ksrcRemoveActs src rest (T1.notify false e) := by
        simp [ksrcRemoveActs, hs, T1]
      have hbit : T1.ht.bucketBit = T.ht.bucketBit ∨ T1.ht.bucketBit = T.ht.bucketBit - 1 := by
        show (T.ht.removeExisting (spkiNode e)).bucketBit = _ ∨ _
        unfold Hashlin.removeExisting
        exact shrinkStep_bit _
      obtain ⟨s1, s2⟩ := segActs_blocks T.ht T1.ht hbit hi.bit_ge
      rw [e1, e2, frees_append, frees_append, shrinks_append, shrinks_append, r2, s2]
      have hb1 : spkiBlocks (T1.notify false e) + 1 + frees (segActs T.ht T1.ht) = spkiBlocks T := by
        rw [spkiBlocks_notify]
        show (T.list.erase e).length + hlBlocks T1.ht + 1 + _ = T.list.length + hlBlocks T.ht
        rw [List.length_erase_of_mem hin]
        have : 0 < T.list.length := List.length_pos_of_mem hin
        omega
      simp
      omega
    · have e1 : srcRemoveLoop src (e :: rest) T = srcRemoveLoop src rest T := by
        simp [srcRemoveLoop, hs]
      have e2 : ksrcRemoveActs src (e :: rest) T = ksrcRemoveActs src rest T := by
        simp [ksrcRemoveActs, hs]
      rw [e1, e2]
      exact ih T iv hrest (fun x hx => hsub x (by simp [hx]))

theorem ksrcRemoveF_result (a : A) (T : SpkiTable) (src : Nat) : (ksrcRemoveF a T src).2 = T.srcRemove src := rfl

theorem ksrcRemoveF_ok (a : A) {T : SpkiTable} (iv : SInv T) (src : Nat) :
    net (ksrcRemoveF a T src).1.trace = net a.trace + (spkiBlocks (ksrcRemoveF a T src).2.1 - spkiBlocks T : Int) ∧
    (ksrcRemoveF a T src).1.budget = a.budget ∧ refusals (ksrcRemoveF a T src).1.trace = refusals a.trace ∧
    (NoLibc a.trace → NoLibc (ksrcRemoveF a T src).1.trace) := by
  have h := run_ok (ksrcRemoveActs src T.list T) a
  obtain ⟨c1, c2⟩ := ksrcRemoveActs_counts src T.list T iv iv.nodup (fun _ h => h)
  have p := h.pass (by rw [c2]; exact hits_zero a)
  refine ⟨?_, by show (a.run (ksrcRemoveActs src T.list T)).budget = _; rw [p.1, c2, after_zero], p.2, h.nolibc⟩
  show net (a.run (ksrcRemoveActs src T.list T)).trace = net a.trace + ((spkiBlocks (T.srcRemove src).1 : Int) - spkiBlocks T)
  rw [h.net]
  have : (T.srcRemove src).1 = srcRemoveLoop src T.list T := rfl
  rw [this]; omega

/-! ### lookups: the result array -/

structure GrowReqsOK (a : A) (m : Nat) (q : Bool × A) : Prop where
  pass : ¬ a.hits m → q.1 = true ∧ q.2.budget = a.after m ∧ refusals q.2.trace = refusals a.trace
  hit : a.hits m → q.1 = false ∧ q.2.budget = none ∧ refusals q.2.trace = refusals a.trace + 1
  nolibc : NoLibc a.trace → NoLibc q.2.trace

theorem growReqs_ok (b : Blk) : ∀ (m cur : Nat) (a : A), GrowReqsOK a m (growReqs b m cur a) := by
  intro m
  induction m with
  | zero =>
    intro cur a
    exact ⟨fun _ => ⟨rfl, by simp [growReqs, after_zero], rfl⟩, fun h => absurd h (hits_zero a), fun h => h⟩
  | succ m ih =>
    intro cur a
    have q := realloc_ok a b cur (cur + 1)
    unfold growReqs
    simp only
    by_cases h1 : a.hits 1
    · obtain ⟨hq, hb, hr, _⟩ := q.hit h1
      simp only [hq, Bool.false_eq_true, if_false]
      exact ⟨fun h => absurd (hits_mono h1 (by omega)) h, fun _ => ⟨rfl, by simp [hb], by simp [hr]⟩,
        fun h => freeIf_noLibc (q.nolibc h) _ _⟩
    · obtain ⟨hq, hb, hr, _⟩ := q.pass h1
      simp only [hq, if_true]
      have r := ih (cur + 1) (a.realloc b cur (cur + 1)).2
      have hh := hits_after hb h1 m
      refine ⟨fun h => ?_, fun h => ?_, fun h => r.nolibc (q.nolibc h)⟩
      · have nh : ¬ (a.realloc b cur (cur + 1)).2.hits m := by
          rw [hh]; simpa [Nat.add_comm] using h
        obtain ⟨p1, p2, p3⟩ := r.pass nh
        exact ⟨p1, by rw [p2, after_after a _ 1 _ hb]; simp [Nat.add_comm], by rw [p3, hr]⟩
      · have yh : (a.realloc b cur (cur + 1)).2.hits m := by
          rw [hh]; simpa [Nat.add_comm] using h
        obtain ⟨p1, p2, p3⟩ := r.hit yh
        exact ⟨p1, p2, by rw [p3, hr]⟩

/-- granted: the caller owns one block iff something was collected; refused: nothing stays -/
theorem growReqs_net (b : Blk) : ∀ (m cur : Nat) (a : A),
    net (growReqs b m cur a).2.trace = net a.trace +
      (if (growReqs b m cur a).1 then (if cur + m = 0 then 0 else 1) - (if cur = 0 then 0 else 1 : Int)
       else - (if cur = 0 then 0 else 1 : Int)) := by
  intro m
  induction m with
  | zero => intro cur a; simp [growReqs]
  | succ m ih =>
    intro cur a
    have q := realloc_ok a b cur (cur + 1)
    unfold growReqs
    simp only
    by_cases h1 : a.hits 1
    · obtain ⟨hq, _, _, hn⟩ := q.hit h1
      simp only [hq, Bool.false_eq_true, if_false]
      rw [freeIf_net, hn]
      by_cases ha : cur = 0 <;> simp [ha] <;> omega
    · obtain ⟨hq, _, _, hn⟩ := q.pass h1
      simp only [hq, if_true]
      rw [ih, hn]
      have e1 : cur + 1 + m = cur + (m + 1) := by omega
      have hnz : cur + 1 ≠ 0 := by omega
      have htz : cur + (m + 1) ≠ 0 := by omega
      rw [e1]
      simp only [hnz, htz, if_false]
      by_cases ha : cur = 0 <;> simp only [ha, if_true, if_false] <;> split <;> omega

/-! ### spki_table_init, spki_table_free -/

theorem kfreeActs_counts (T : SpkiTable) : frees (kfreeActs T) = spkiBlocks T ∧ shrinks (kfreeActs T) = 0 := by
  unfold kfreeActs spkiBlocks
  obtain ⟨d1, d2⟩ := doneActs_counts T.ht
  rw [frees_append, shrinks_append, d1, d2]
  have : ∀ (l : List SpkiRec), frees (l.map fun _ => Act.free .entry 1) = l.length ∧
      shrinks (l.map fun _ => Act.free .entry 1) = 0 := by
    intro l
    induction l with
    | nil => simp
    | cons x xs ih => simp [ih.1, ih.2]
  obtain ⟨h1, h2⟩ := this T.list
  rw [h1, h2]; simp

theorem kfreeF_ok (a : A) (T : SpkiTable) :
    net (kfreeF a T).trace = net a.trace - spkiBlocks T ∧ (kfreeF a T).budget = a.budget ∧
    refusals (kfreeF a T).trace = refusals a.trace ∧ (NoLibc a.trace → NoLibc (kfreeF a T).trace) := by
  have h := run_ok (kfreeActs T) a
  obtain ⟨c1, c2⟩ := kfreeActs_counts T
  have p := h.pass (by rw [c2]; exact hits_zero a)
  refine ⟨by show net (a.run (kfreeActs T)).trace = _; rw [h.net, c1],
    by show (a.run (kfreeActs T)).budget = _; rw [p.1, c2, after_zero], p.2, h.nolibc⟩

theorem spkiBlocks_init (cb : Bool) : spkiBlocks (SpkiTable.init cb) = 1 := rfl

theorem kinitF_ok (a : A) (cb : Bool) :
    (¬ a.hits 1 → (kinitF a cb).2 = some (SpkiTable.init cb) ∧ (kinitF a cb).1.budget = a.after 1 ∧
        refusals (kinitF a cb).1.trace = refusals a.trace ∧ net (kinitF a cb).1.trace = net a.trace + 1) ∧
    (a.hits 1 → (kinitF a cb).2 = none ∧ (kinitF a cb).1.budget = none ∧
        refusals (kinitF a cb).1.trace = refusals a.trace + 1 ∧ net (kinitF a cb).1.trace = net a.trace) ∧
    (NoLibc a.trace → NoLibc (kinitF a cb).1.trace) := by
  have q := malloc_ok a .segment (2 ^ hashlinBit)
  unfold kinitF
  simp only
  refine ⟨fun h => ?_, fun h => ?_, ?_⟩
  · obtain ⟨hq, hb, hr, hn⟩ := q.pass h
    simp only [hq, if_true]; exact ⟨by first | rfl | trivial, hb, hr, hn⟩
  · obtain ⟨hq, hb, hr, hn⟩ := q.hit h
    simp only [hq, Bool.false_eq_true, if_false]; exact ⟨by first | rfl | trivial, hb, hr, hn⟩
  · intro h
    split <;> exact q.nolibc h

end Alloc
end Rtr
