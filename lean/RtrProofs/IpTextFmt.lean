/-
  IpTextFmt: the output of the model of `lrtr_ipv6_addr_to_str` is a well-formed render denoting the
  address, for all eight-word addresses: case analysis on the zero run chosen by the scan
  (position x length, every word symbolic), plus the two embedded-IPv4 forms.
-/
import RtrProofs.IpTextLang

namespace Rtr.IpText

/-- what the scan loop reports is a run of zero words inside the address (all 256 zero patterns) -/
theorem zeroRunB_spec : ∀ b0 b1 b2 b3 b4 b5 b6 b7 : Bool,
    (zeroRunB [b0, b1, b2, b3, b4, b5, b6, b7]).1 + (zeroRunB [b0, b1, b2, b3, b4, b5, b6, b7]).2 ≤ 8 ∧
    (List.range (zeroRunB [b0, b1, b2, b3, b4, b5, b6, b7]).2).all
      (fun d => [b0, b1, b2, b3, b4, b5, b6, b7].getD ((zeroRunB [b0, b1, b2, b3, b4, b5, b6, b7]).1 + d) false) = true := by
  decide

/-- the scan reports the *first longest* run: no run anywhere is longer, and no equally long run
    starts earlier (all 256 zero patterns; not needed for the round trip, recorded as part of the
    formatter's specification: RFC 5952 section 4.2.3) -/
theorem zeroRunB_longest : ∀ b0 b1 b2 b3 b4 b5 b6 b7 : Bool,
    (List.range 8).all (fun p => (List.range 9).all (fun l =>
      !(decide (p + l ≤ 8) && (List.range l).all (fun d => [b0, b1, b2, b3, b4, b5, b6, b7].getD (p + d) false))
      || decide (l < (zeroRunB [b0, b1, b2, b3, b4, b5, b6, b7]).2)
      || (decide (l = (zeroRunB [b0, b1, b2, b3, b4, b5, b6, b7]).2) &&
          (decide ((zeroRunB [b0, b1, b2, b3, b4, b5, b6, b7]).1 ≤ p) || decide (l = 0))))) = true := by
  decide

/-- the render of the "normal formatting" branch with the run `[bp, bp + bl)` compressed -/
def renderAt (ws : List Nat) (bp bl : Nat) : Render :=
  ⟨(ws.take bp).map hex16, true, (ws.drop (bp + bl)).map hex16, none⟩

def renderPlain (ws : List Nat) : Render := ⟨ws.map hex16, false, [], none⟩

def quadOf (x : Nat) : Nat × Nat × Nat × Nat := (x / 16777216 % 256, x / 65536 % 256, x / 256 % 256, x % 256)

def renderCompat (ws : List Nat) : Render :=
  ⟨[], true, [], some (quadOf (ws.getD 6 0 * 65536 + ws.getD 7 0))⟩

def renderMapped (ws : List Nat) : Render :=
  ⟨[], true, [['f', 'f', 'f', 'f']], some (quadOf (ws.getD 6 0 * 65536 + ws.getD 7 0))⟩

theorem dec8_len3 (n : Nat) : (dec8 n).length ≤ 3 := (dec8_length n).2
theorem hex16_len4 (n : Nat) : (hex16 n).length ≤ 4 := (hex16_length n).2

/-- what a formatted address looks like -/
def Good (ws : List Nat) (run : Nat × Nat) (r : Render) : Prop :=
  r.WF ∧ r.toString = fmt6Body ws run ∧ r.value = ws ∧ (fmt6Body ws run).length ≤ 39

macro "fmt6_case" hz:ident : tactic => `(tactic| (
  simp [List.range, List.range.loop] at $hz:ident
  refine ⟨?_, ?_, ?_, ?_⟩
  · simp [renderAt, Render.WF, Render.wfB, Render.count, Render.quadVals, *]
  · simp [renderAt, Render.toString, fmt6Body, fmtLoop, joinC, Render.quadItems, *]
  · simp [renderAt, Render.value, Render.count, Render.quadVals, groupVal_hex16, *]
  · simp [fmt6Body, fmtLoop, *] <;> omega))

set_option maxHeartbeats 1600000 in
theorem fmt6Body_render (w0 w1 w2 w3 w4 w5 w6 w7 : Nat) (h0 : w0 < 65536) (h1 : w1 < 65536) (h2 : w2 < 65536)
    (h3 : w3 < 65536) (h4 : w4 < 65536) (h5 : w5 < 65536) (h6 : w6 < 65536) (h7 : w7 < 65536)
    (bp bl : Nat) (hb : bp + bl ≤ 8)
    (hz : (List.range bl).all (fun d => ([w0, w1, w2, w3, w4, w5, w6, w7].map (· == 0)).getD (bp + d) false) = true) :
    ∃ r : Render, Good [w0, w1, w2, w3, w4, w5, w6, w7] (bp, bl) r := by
  have g0 := groupOk_hex16 h0; have g1 := groupOk_hex16 h1; have g2 := groupOk_hex16 h2
  have g3 := groupOk_hex16 h3; have g4 := groupOk_hex16 h4; have g5 := groupOk_hex16 h5
  have g6 := groupOk_hex16 h6; have g7 := groupOk_hex16 h7
  have l0 := hex16_len4 w0; have l1 := hex16_len4 w1; have l2 := hex16_len4 w2; have l3 := hex16_len4 w3
  have l4 := hex16_len4 w4; have l5 := hex16_len4 w5; have l6 := hex16_len4 w6; have l7 := hex16_len4 w7
  by_cases hsmall : bl < 2
  · -- no run worth compressing: eight groups
    refine ⟨renderPlain [w0, w1, w2, w3, w4, w5, w6, w7], ?_, ?_, ?_, ?_⟩
    · simp [renderPlain, Render.WF, Render.wfB, Render.count, Render.quadVals, *]
    · simp [renderPlain, Render.toString, fmt6Body, fmtLoop, joinC, Render.quadItems, hsmall]
    · simp [renderPlain, Render.value, Render.quadVals, groupVal_hex16, *]
    · simp [fmt6Body, fmtLoop, hsmall]; omega
  · by_cases h06 : bp = 0 ∧ bl = 6
    · -- ::a.b.c.d
      obtain ⟨rfl, rfl⟩ := h06
      simp [List.range, List.range.loop] at hz
      obtain ⟨rfl, rfl, rfl, rfl, rfl, rfl⟩ := hz
      have d1 := dec8_len3 ((w6 * 65536 + w7) / 16777216 % 256)
      have d2 := dec8_len3 ((w6 * 65536 + w7) / 65536 % 256)
      have d3 := dec8_len3 ((w6 * 65536 + w7) / 256 % 256)
      have d4 := dec8_len3 ((w6 * 65536 + w7) % 256)
      refine ⟨renderCompat [0, 0, 0, 0, 0, 0, w6, w7], ?_, ?_, ?_, ?_⟩
      · simp [renderCompat, quadOf, Render.WF, Render.wfB, Render.count, Render.quadVals, quadOk, quadWords]
        refine ⟨⟨⟨?_, ?_⟩, ?_⟩, ?_⟩ <;> exact Nat.mod_lt _ (by decide)
      · simp [renderCompat, quadOf, Render.toString, fmt6Body, joinC, Render.quadItems]
      · simp [renderCompat, quadOf, Render.value, Render.count, Render.quadVals, quadWords]
        constructor <;> omega
      · simp [fmt6Body, quadStr]; omega
    · by_cases h05 : bp = 0 ∧ bl = 5 ∧ w5 = 65535
      · -- ::ffff:a.b.c.d
        obtain ⟨rfl, rfl, rfl⟩ := h05
        simp [List.range, List.range.loop] at hz
        obtain ⟨rfl, rfl, rfl, rfl, rfl⟩ := hz
        have d1 := dec8_len3 ((w6 * 65536 + w7) / 16777216 % 256)
        have d2 := dec8_len3 ((w6 * 65536 + w7) / 65536 % 256)
        have d3 := dec8_len3 ((w6 * 65536 + w7) / 256 % 256)
        have d4 := dec8_len3 ((w6 * 65536 + w7) % 256)
        have gf : groupOk ['f', 'f', 'f', 'f'] = true := by decide
        have vf : groupVal ['f', 'f', 'f', 'f'] = 65535 := by decide
        refine ⟨renderMapped [0, 0, 0, 0, 0, 65535, w6, w7], ?_, ?_, ?_, ?_⟩
        · simp [renderMapped, quadOf, Render.WF, Render.wfB, Render.count, Render.quadVals, quadOk, quadWords, gf]
          refine ⟨⟨⟨?_, ?_⟩, ?_⟩, ?_⟩ <;> exact Nat.mod_lt _ (by decide)
        · simp [renderMapped, quadOf, Render.toString, fmt6Body, joinC, Render.quadItems]
        · simp [renderMapped, quadOf, Render.value, Render.count, Render.quadVals, quadWords, vf]
          constructor <;> omega
        · simp [fmt6Body, quadStr]; omega
      · -- compressed run
        refine ⟨renderAt [w0, w1, w2, w3, w4, w5, w6, w7] bp bl, ?_⟩
        by_cases h05' : bp = 0 ∧ bl = 5
        · obtain ⟨rfl, rfl⟩ := h05'
          have hne : ¬ w5 = 65535 := fun e => h05 ⟨rfl, rfl, e⟩
          clear h05 h06 hsmall
          fmt6_case hz
        · clear h05
          have hbl : bl = 2 ∨ bl = 3 ∨ bl = 4 ∨ bl = 5 ∨ bl = 6 ∨ bl = 7 ∨ bl = 8 := by omega
          have hbp : bp = 0 ∨ bp = 1 ∨ bp = 2 ∨ bp = 3 ∨ bp = 4 ∨ bp = 5 ∨ bp = 6 := by omega
          rcases hbl with rfl | rfl | rfl | rfl | rfl | rfl | rfl <;>
          rcases hbp with rfl | rfl | rfl | rfl | rfl | rfl | rfl <;>
          first
            | (exfalso; omega)
            | fmt6_case hz

end Rtr.IpText
