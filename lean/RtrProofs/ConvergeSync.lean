/-
  ConvergeSync: completeness of `rtr_sync` (model `syncG`): when the tape holds, fault-free and in
  any segmentation, a Cache Response, then Prefix / Router Key PDUs that are acceptable and
  applicable, then an End of Data of the same session, the synchronisation succeeds and the
  resulting state is computed explicitly.  (The converse of `syncG_spec`'s success clause.)
-/
import RtrProofs.ConvergeRecv
import RtrProofs.ConvergeTables
import RtrProofs.ConvergePdu

namespace Rtr.P

/-- a payload PDU of an answer in version `ver`: complete, well-sized, a Prefix or Router Key PDU -/
structure CvData (ver : Nat) (p : List Nat) : Prop where
  wire : CvWire ver p
  type : typeOf p = 4 ∨ typeOf p = 6 ∨ typeOf p = 9

/-- the three arrays `rtr_sync_receive_and_store_pdus` buffers the payload PDUs in -/
def cvV4 (pdus : List (List Nat)) : List (List Nat) := pdus.filter fun p => typeOf p == 4
def cvV6 (pdus : List (List Nat)) : List (List Nat) := pdus.filter fun p => typeOf p == 6
def cvKeys (pdus : List (List Nat)) : List (List Nat) := pdus.filter fun p => typeOf p == 9

theorem cv_downgraded_id (c : Conn) (raw : List Nat) (h : c.hasReceived = true) : downgraded c raw = c := by
  unfold downgraded; simp [h]

/-! ## one iteration of the receive loop -/

theorem cv_recvAndStore_v4 (fuel : Nat) (st : St) (v4 v6 keys : List (List Nat)) (raw : List Nat) (c : Conn) (n : Net)
    (h : receivePdu st.c st.n st.t.own Gen.RTR_RECV_TIMEOUT = (.ok raw, c, n)) (ht : typeOf raw = 4) :
    recvAndStore (fuel + 1) st v4 v6 keys = recvAndStore fuel { st with c := c, n := n } (v4 ++ [raw]) v6 keys := by
  rw [recvAndStore, h]
  simp only [ht]

theorem cv_recvAndStore_v6 (fuel : Nat) (st : St) (v4 v6 keys : List (List Nat)) (raw : List Nat) (c : Conn) (n : Net)
    (h : receivePdu st.c st.n st.t.own Gen.RTR_RECV_TIMEOUT = (.ok raw, c, n)) (ht : typeOf raw = 6) :
    recvAndStore (fuel + 1) st v4 v6 keys = recvAndStore fuel { st with c := c, n := n } v4 (v6 ++ [raw]) keys := by
  rw [recvAndStore, h]
  simp only [ht]

theorem cv_recvAndStore_key (fuel : Nat) (st : St) (v4 v6 keys : List (List Nat)) (raw : List Nat) (c : Conn) (n : Net)
    (h : receivePdu st.c st.n st.t.own Gen.RTR_RECV_TIMEOUT = (.ok raw, c, n)) (ht : typeOf raw = 9) :
    recvAndStore (fuel + 1) st v4 v6 keys = recvAndStore fuel { st with c := c, n := n } v4 v6 (keys ++ [raw]) := by
  rw [recvAndStore, h]
  simp only [ht]

theorem cv_recvAndStore_eod (fuel : Nat) (st : St) (v4 v6 keys : List (List Nat)) (raw : List Nat) (c : Conn) (n : Net)
    (h : receivePdu st.c st.n st.t.own Gen.RTR_RECV_TIMEOUT = (.ok raw, c, n)) (ht : typeOf raw = 7)
    (hs : be16 raw 2 = st.ss.session) :
    recvAndStore (fuel + 1) st v4 v6 keys =
      ((cleanup (applyBuffered { st with c := c, n := n } raw v4 v6 keys)).1,
       (cleanup (applyBuffered { st with c := c, n := n } raw v4 v6 keys)).2, some ⟨raw, v4, v6, keys⟩) := by
  rw [recvAndStore, h]
  simp only [ht]
  rw [if_neg (by simpa using hs)]

/-- **the receive loop is complete**: payload PDUs followed by an End of Data of the socket's session
    are all buffered (by type, in order), then the End of Data branch runs -/
theorem cv_recvAndStore_complete : ∀ (pdus : List (List Nat)) (fuel : Nat) (st : St) (v4 v6 keys : List (List Nat))
    (eod rest : List Nat), pdus.length < fuel → st.c.state ≠ .shutdown → st.c.hasReceived = true →
    (∀ p ∈ pdus, CvData st.c.version p) → CvWire st.c.version eod → typeOf eod = 7 → be16 eod 2 = st.ss.session →
    CvTape st.n (pdus.flatten ++ (eod ++ rest)) →
    ∃ n', CvTape n' rest ∧ CvRecvd st.n n' ∧
      recvAndStore fuel st v4 v6 keys =
        ((cleanup (applyBuffered { st with n := n' } eod (v4 ++ cvV4 pdus) (v6 ++ cvV6 pdus) (keys ++ cvKeys pdus))).1,
         (cleanup (applyBuffered { st with n := n' } eod (v4 ++ cvV4 pdus) (v6 ++ cvV6 pdus) (keys ++ cvKeys pdus))).2,
         some ⟨eod, v4 ++ cvV4 pdus, v6 ++ cvV6 pdus, keys ++ cvKeys pdus⟩) := by
  intro pdus
  induction pdus with
  | nil =>
    intro fuel st v4 v6 keys eod rest hf hs hr _ he ht hsess htape
    obtain ⟨f, rfl⟩ : ∃ f, fuel = f + 1 := ⟨fuel - 1, by omega⟩
    rw [List.flatten_nil, List.nil_append] at htape
    obtain ⟨n', r, t', s'⟩ := cv_receivePdu_complete st.c st.n st.t.own Gen.RTR_RECV_TIMEOUT eod rest hs htape
      he.len he.size he.max (Or.inl (by rw [cv_downgraded_id _ _ hr]; exact he.ver))
    rw [cv_downgraded_id _ _ hr] at r
    refine ⟨n', t', s', ?_⟩
    rw [cv_recvAndStore_eod f st v4 v6 keys eod st.c n' r ht hsess]
    simp only [cvV4, cvV6, cvKeys, List.filter_nil, List.append_nil]
  | cons p pdus ih =>
    intro fuel st v4 v6 keys eod rest hf hs hr hd he ht hsess htape
    obtain ⟨f, rfl⟩ : ∃ f, fuel = f + 1 := ⟨fuel - 1, by omega⟩
    have hp := hd p List.mem_cons_self
    rw [List.flatten_cons, List.append_assoc] at htape
    obtain ⟨n1, r, t1, s1⟩ := cv_receivePdu_complete st.c st.n st.t.own Gen.RTR_RECV_TIMEOUT p _ hs htape
      hp.wire.len hp.wire.size hp.wire.max (Or.inl (by rw [cv_downgraded_id _ _ hr]; exact hp.wire.ver))
    rw [cv_downgraded_id _ _ hr] at r
    have hf' : pdus.length < f := by simp only [List.length_cons] at hf; omega
    have hd' : ∀ q ∈ pdus, CvData st.c.version q := fun q hq => hd q (List.mem_cons_of_mem _ hq)
    rcases hp.type with h4 | h6 | h9
    · obtain ⟨n', t', s', e⟩ := ih f { st with c := st.c, n := n1 } (v4 ++ [p]) v6 keys eod rest hf' hs hr hd' he ht hsess t1
      refine ⟨n', t', s1.trans s', ?_⟩
      rw [cv_recvAndStore_v4 f st v4 v6 keys p st.c n1 r h4, e]
      have e4 : cvV4 (p :: pdus) = p :: cvV4 pdus := by simp [cvV4, h4]
      have e6 : cvV6 (p :: pdus) = cvV6 pdus := by simp [cvV6, h4]
      have e9 : cvKeys (p :: pdus) = cvKeys pdus := by simp [cvKeys, h4]
      rw [e4, e6, e9]
      simp only [List.append_assoc, List.cons_append, List.nil_append]
    · obtain ⟨n', t', s', e⟩ := ih f { st with c := st.c, n := n1 } v4 (v6 ++ [p]) keys eod rest hf' hs hr hd' he ht hsess t1
      refine ⟨n', t', s1.trans s', ?_⟩
      rw [cv_recvAndStore_v6 f st v4 v6 keys p st.c n1 r h6, e]
      have e4 : cvV4 (p :: pdus) = cvV4 pdus := by simp [cvV4, h6]
      have e6 : cvV6 (p :: pdus) = p :: cvV6 pdus := by simp [cvV6, h6]
      have e9 : cvKeys (p :: pdus) = cvKeys pdus := by simp [cvKeys, h6]
      rw [e4, e6, e9]
      simp only [List.append_assoc, List.cons_append, List.nil_append]
    · obtain ⟨n', t', s', e⟩ := ih f { st with c := st.c, n := n1 } v4 v6 (keys ++ [p]) eod rest hf' hs hr hd' he ht hsess t1
      refine ⟨n', t', s1.trans s', ?_⟩
      rw [cv_recvAndStore_key f st v4 v6 keys p st.c n1 r h9, e]
      have e4 : cvV4 (p :: pdus) = cvV4 pdus := by simp [cvV4, h9]
      have e6 : cvV6 (p :: pdus) = cvV6 pdus := by simp [cvV6, h9]
      have e9 : cvKeys (p :: pdus) = p :: cvKeys pdus := by simp [cvKeys, h9]
      rw [e4, e6, e9]
      simp only [List.append_assoc, List.cons_append, List.nil_append]

/-! ## the Cache Response -/

/-- the session part after an accepted Cache Response -/
def cvSessAfterCR (ss : Sess) (sess : Nat) : Sess :=
  if ss.reqSession then { (if ss.lastUpdate ≠ 0 then { ss with isResetting := true } else ss) with session := sess }
  else ss

theorem cv_handleCacheResponse (c : Conn) (ss : Sess) (n : Net) (own : Nat) (raw : List Nat)
    (hq : ss.reqSession = true ∨ ss.session = be16 raw 2) :
    handleCacheResponse c ss n own raw = (true, c, cvSessAfterCR ss (be16 raw 2), n) := by
  unfold handleCacheResponse cvSessAfterCR
  simp only
  by_cases h : ss.reqSession = true
  · rw [if_pos h, if_pos h]
  · rw [if_neg h, if_neg h]
    have : ss.session = be16 raw 2 := by
      rcases hq with hq | hq
      · exact absurd hq h
      · exact hq
    rw [if_neg (by simpa using this)]

theorem cvSessAfterCR_isResetting (ss : Sess) (sess : Nat) : (cvSessAfterCR ss sess).isResetting = resettingAfter ss := by
  unfold cvSessAfterCR resettingAfter
  by_cases h : ss.reqSession = true
  · rw [if_pos h, if_pos h]
    by_cases hl : ss.lastUpdate ≠ 0
    · rw [if_pos hl, if_pos hl]
    · rw [if_neg hl, if_neg hl]
  · rw [if_neg h, if_neg h]

theorem cvSessAfterCR_session (ss : Sess) (sess : Nat) (hq : ss.reqSession = true ∨ ss.session = sess) :
    (cvSessAfterCR ss sess).session = sess := by
  unfold cvSessAfterCR
  by_cases h : ss.reqSession = true
  · rw [if_pos h]
  · rw [if_neg h]
    rcases hq with hq | hq
    · exact absurd hq h
    · exact hq

/-! ## `rtr_sync` -/

theorem cv_syncG_of_parts (fuel : Nat) (st st1 st2 : St) (raw : List Nat) (c : Conn) (ss : Sess) (n : Net)
    (g : Option Buffered)
    (h1 : syncFirst fuel st = (some raw, st1)) (ht : typeOf raw = 3)
    (h2 : handleCacheResponse st1.c st1.ss st1.n st1.t.own raw = (true, c, ss, n))
    (h3 : recvAndStore fuel { st1 with c := c, ss := ss, n := n } [] [] [] = (true, st2, g)) :
    syncG fuel st =
      (true, { st2 with ss := { st2.ss with reqSession := false, lastUpdate := st2.n.now } }, g.map fun b => (raw, b)) := by
  unfold syncG
  rw [h1]
  simp only [ht]
  rw [h2]
  simp only [Bool.not_true, Bool.false_eq_true, if_false]
  rw [h3]
  simp only [Bool.not_true, Bool.false_eq_true, if_false]

/-- the socket state after a successful synchronisation -/
def cvSynced (st : St) (ver sess : Nat) (eod : List Nat) (pt' : List Rec) (kt' : List KeyRec) (n' : Net) : St :=
  { c := { st.c with version := ver, hasReceived := true },
    ss := { session := sess, serial := be32 eod 8, reqSession := false, lastUpdate := st.n.now, isResetting := false },
    tm := applyEodIntervals st.tm eod,
    n := n',
    t := ⟨pt', kt', none⟩ }

/-- **completeness of `rtr_sync`**.  The socket is not shut down; the answer is in the version the
    socket speaks or (first PDU of the connection, socket at version 1) in version 0; a new session
    is requested or the Cache Response carries the stored session; the payload PDUs are acceptable
    and applicable (`lsApplyAll` on the tables the update writes to: the live ones, or the copy
    without this socket's records for a reload); the tape holds exactly Cache Response, payload,
    End of Data (and possibly more bytes `rest`) without any fault, in any segmentation; the fuel
    covers the number of PDUs.  Then `rtr_sync` succeeds, and the resulting state is `cvSynced`. -/
theorem cv_syncG_complete (fuel : Nat) (st : St) (ver sess : Nat) (pdus : List (List Nat)) (eod rest : List Nat)
    (pt' : List Rec) (kt' : List KeyRec)
    (hfuel : pdus.length < fuel) (hs : st.c.state ≠ .shutdown)
    (hver : ver = st.c.version ∨ (st.c.hasReceived = false ∧ st.c.version = 1 ∧ ver = 0))
    (hsh : st.t.shadow = none) (hsess : sess < 65536)
    (hq : st.ss.reqSession = true ∨ st.ss.session = sess)
    (hdata : ∀ p ∈ pdus, CvData ver p) (heod : CvWire ver eod) (hte : typeOf eod = 7) (hes : be16 eod 2 = sess)
    (hkp : ∀ p ∈ cvV4 pdus ++ cvV6 pdus, pfxOK p) (hkk : ∀ p ∈ cvKeys pdus, keyOK p)
    (hp : lsApplyAll (baseOf st.t (resettingAfter st.ss)).pt ((cvV4 pdus ++ cvV6 pdus).map pfxOp) = some pt')
    (hkt : lsApplyAll (baseOf st.t (resettingAfter st.ss)).kt ((cvKeys pdus).map keyOp) = some kt')
    (htape : CvTape st.n (cvCacheResponse ver sess ++ (pdus.flatten ++ (eod ++ rest)))) :
    ∃ n', CvTape n' rest ∧ CvRecvd st.n n' ∧
      syncG fuel st = (true, cvSynced st ver sess eod pt' kt' n',
        some (cvCacheResponse ver sess, ⟨eod, cvV4 pdus, cvV6 pdus, cvKeys pdus⟩)) := by
  obtain ⟨f, rfl⟩ : ∃ f, fuel = f + 1 := ⟨fuel - 1, by omega⟩
  obtain ⟨hcw, hct⟩ := cv_cacheResponse_wire ver sess
  have hcs := cv_cacheResponse_session ver sess hsess
  -- the first PDU: version handling
  have hc1 : downgraded st.c (cvCacheResponse ver sess) = { st.c with version := ver, hasReceived := true } := by
    rcases hver with h | ⟨h1, h2, h3⟩
    · rw [cv_downgraded_same st.c _ (by rw [hcw.ver]; exact h), ← h]
    · rw [cv_downgraded_down st.c _ h1 h2 (by rw [hcw.ver]; exact h3) (by rw [hct]; decide), h3]
  obtain ⟨n1, r1, t1, s1⟩ := cv_receivePdu_complete st.c st.n st.t.own Gen.RTR_RECV_TIMEOUT (cvCacheResponse ver sess) _ hs htape
    hcw.len hcw.size hcw.max (Or.inl (by rw [hc1]; exact hcw.ver))
  rw [hc1] at r1
  have hsf : syncFirst (f + 1) st =
      (some (cvCacheResponse ver sess), { st with c := { st.c with version := ver, hasReceived := true }, n := n1 }) := by
    rw [syncFirst, r1]
    simp only
    rw [if_neg (by rw [hct]; decide)]
  -- the Cache Response
  have hcr := cv_handleCacheResponse { st.c with version := ver, hasReceived := true } st.ss n1 st.t.own (cvCacheResponse ver sess)
    (by rw [hcs]; exact hq)
  rw [hcs] at hcr
  -- the payload and the End of Data
  obtain ⟨n', t', s', e⟩ := cv_recvAndStore_complete pdus (f + 1)
    { st with c := { st.c with version := ver, hasReceived := true }, ss := cvSessAfterCR st.ss sess, n := n1 } [] [] [] eod rest
    hfuel hs rfl hdata heod hte (by rw [hes]; exact (cvSessAfterCR_session st.ss sess hq).symm) t1
  simp only [List.nil_append] at e
  -- the tables
  have hat := cv_applyTables_complete { st.c with version := ver, hasReceived := true } n' st.t (cvSessAfterCR st.ss sess).isResetting
    (cvV4 pdus) (cvV6 pdus) (cvKeys pdus) pt' kt' hsh
    (fun p hp => hkp p (List.mem_append_left _ hp)) (fun p hp => hkp p (List.mem_append_right _ hp)) hkk
    (by rw [cvSessAfterCR_isResetting]; exact hp) (by rw [cvSessAfterCR_isResetting]; exact hkt)
  refine ⟨n', t', s1.trans s', ?_⟩
  have hab : applyBuffered ({ st with c := { st.c with version := ver, hasReceived := true }, ss := cvSessAfterCR st.ss sess, n := n' } : St)
      eod (cvV4 pdus) (cvV6 pdus) (cvKeys pdus) =
      (true, { c := { st.c with version := ver, hasReceived := true },
               ss := { cvSessAfterCR st.ss sess with serial := be32 eod 8 },
               tm := applyEodIntervals st.tm eod, n := n', t := ⟨pt', kt', none⟩ }) := by
    unfold applyBuffered
    simp only
    rw [hat]
    simp only [if_true]
  rw [hab] at e
  have hsyn := cv_syncG_of_parts (f + 1) st _ _ (cvCacheResponse ver sess) _ _ _ _ hsf hct hcr e
  rw [hsyn]
  have hnow : n'.now = st.n.now := (s1.trans s').now
  have hsession := cvSessAfterCR_session st.ss sess hq
  simp only [cleanup, cvSynced, Option.map_some, hnow]
  rw [hsession]

end Rtr.P
