/-
  ConvergeMultiCache: a reactive cache as a function from the query it is sent to the bytes it
  answers, the script it produces for a socket over the (at most two) exchanges the socket needs,
  and the composed convergence theorem.  Final statement: RtrProps/C08c.lean `converges_eventually`.
-/
import RtrProofs.ConvergeMultiRun
import RtrProofs.ConvergeMultiEst

namespace Rtr.P

/-- a cache: protocol version, session, current serial, intervals, current data set, and the
    increments it can still serve (`diff n` = the announcements / withdrawals that lead from serial
    `n` to the current serial, if it still knows serial `n`) -/
structure CvmCache where
  ver : Nat
  sess : Nat
  serial : Nat
  iv : CvIvals
  recs : List Rec
  keys : List KeyRec
  diff : Nat → Option (List CvItem)

/-- the answer to a Reset Query: the whole data set -/
def CvmCache.resetAnswer (C : CvmCache) : List Nat := cvAnswer C.ver C.sess C.serial C.iv (cvResetItems C.recs C.keys)

/-- the increment served for a Serial Query `(session, serial)`: only for the cache's own session and a
    serial it still knows -/
def CvmCache.incr (C : CvmCache) (q : Nat × Nat) : Option (List CvItem) := if q.1 = C.sess then C.diff q.2 else none

/-- **the reactive cache**: Reset Query (`none`) ↦ the whole data set; Serial Query with the cache's
    session and a known serial ↦ the increment; any other Serial Query ↦ Cache Reset -/
def CvmCache.reply (C : CvmCache) : Option (Nat × Nat) → List Nat
  | none => C.resetAnswer
  | some q => match C.incr q with
    | some items => cvAnswer C.ver C.sess C.serial C.iv items
    | none => cvmCacheReset C.ver

/-- what the cache sends to a socket whose first query is `q`: its reply to `q`, and — if that was a
    Cache Reset, after which the socket's next query is a Reset Query — its reply to that -/
def CvmCache.script (C : CvmCache) : Option (Nat × Nat) → List Nat
  | none => C.reply none
  | some q => match C.incr q with
    | some _ => C.reply (some q)
    | none => C.reply (some q) ++ C.reply none

/-- the increment the cache serves is an increment of what the socket holds: acceptable, every
    record named once, announcements of absent and withdrawals of present records, and the socket's
    records afterwards are the cache's data set -/
structure CvmIncOK (st : St) (C : CvmCache) (items : List CvItem) : Prop where
  ok : ∀ i ∈ items, i.OK
  np : ((cvPfxOps items).map Prod.snd).Nodup
  nk : ((cvKeyOps items).map Prod.snd).Nodup
  cp : ∀ op ∈ cvPfxOps items, (op.1 = true ↔ op.2 ∉ st.t.pt)
  ck : ∀ op ∈ cvKeyOps items, (op.1 = true ↔ op.2 ∉ st.t.kt)
  /-- every record of the cache's data set is announced or was there and is not withdrawn -/
  pt1 : ∀ x ∈ C.recs, ((true, x) ∈ cvPfxOps items ∨ (x ∈ st.t.pt ∧ (false, x) ∉ cvPfxOps items))
  /-- every announced record is in the cache's data set -/
  pt2 : ∀ op ∈ cvPfxOps items, op.1 = true → op.2 ∈ C.recs
  /-- every record of this socket that is not withdrawn is in the cache's data set -/
  pt3 : ∀ x ∈ st.t.pt, x.src = 0 → (false, x) ∉ cvPfxOps items → x ∈ C.recs
  kt1 : ∀ x ∈ C.keys, ((true, x) ∈ cvKeyOps items ∨ (x ∈ st.t.kt ∧ (false, x) ∉ cvKeyOps items))
  kt2 : ∀ op ∈ cvKeyOps items, op.1 = true → op.2 ∈ C.keys
  kt3 : ∀ x ∈ st.t.kt, x.src = 0 → (false, x) ∉ cvKeyOps items → x ∈ C.keys

theorem CvmIncOK.pt {st : St} {C : CvmCache} {items : List CvItem} (h : CvmIncOK st C items) (x : Rec) (hx : x.src = 0) :
    ((true, x) ∈ cvPfxOps items ∨ (x ∈ st.t.pt ∧ (false, x) ∉ cvPfxOps items)) ↔ x ∈ C.recs := by
  constructor
  · rintro (h1 | ⟨h1, h2⟩)
    · exact h.pt2 _ h1 rfl
    · exact h.pt3 x h1 hx h2
  · exact h.pt1 x

theorem CvmIncOK.kt {st : St} {C : CvmCache} {items : List CvItem} (h : CvmIncOK st C items) (x : KeyRec) (hx : x.src = 0) :
    ((true, x) ∈ cvKeyOps items ∨ (x ∈ st.t.kt ∧ (false, x) ∉ cvKeyOps items)) ↔ x ∈ C.keys := by
  constructor
  · rintro (h1 | ⟨h1, h2⟩)
    · exact h.kt2 _ h1 rfl
    · exact h.kt3 x h1 hx h2
  · exact h.kt1 x

/-- the socket has converged on the cache: ESTABLISHED after at most `kmax` iterations and at most
    one retry interval, holding exactly the cache's data set, session and serial -/
def CvmConverged (fuel kmax : Nat) (st : St) (C : CvmCache) (rest : List Nat) : Prop :=
  ∃ k st', k ≤ kmax ∧ CvRun fuel k st st' ∧ st'.c.state = .established ∧
    (∀ x : Rec, x.src = 0 → (x ∈ st'.t.pt ↔ x ∈ C.recs)) ∧
    (∀ x : KeyRec, x.src = 0 → (x ∈ st'.t.kt ↔ x ∈ C.keys)) ∧
    OthersSame st.t st'.t ∧ TblOK st'.t ∧
    st'.ss.session = C.sess ∧ st'.ss.serial = C.serial ∧ st'.ss.reqSession = false ∧ st'.ss.lastUpdate = st'.n.now ∧
    st'.c.version = C.ver ∧ st.n.now ≤ st'.n.now ∧ st'.n.now ≤ st.n.now + st.tm.retry ∧
    FaultFree st'.n.tape ∧ tapeBytes st'.n.tape = rest

theorem CvmConverged.mono {fuel k1 k2 : Nat} {st : St} {C : CvmCache} {rest : List Nat} (h : k1 ≤ k2)
    (c : CvmConverged fuel k1 st C rest) : CvmConverged fuel k2 st C rest := by
  obtain ⟨k, st', hk, r⟩ := c
  exact ⟨k, st', Nat.le_trans hk h, r⟩

/-- from the outcome of a reload -/
theorem cvm_converged_of_done (fuel k kmax d : Nat) (st st' : St) (C : CvmCache) (rest : List Nat) (hk : k ≤ kmax)
    (hd : d = 0 ∨ d = st.tm.retry) (run : CvRun fuel k st st')
    (done : CvDone st st' C.ver C.sess C.serial C.iv d rest)
    (hrok : ∀ r ∈ C.recs, cvRecOK r) (hkok : ∀ k ∈ C.keys, cvKeyOK k)
    (mp : ∀ x, x ∈ st'.t.pt ↔ (x ∈ C.recs ∨ (x ∈ st.t.pt ∧ x.src ≠ 0)))
    (mk : ∀ x, x ∈ st'.t.kt ↔ (x ∈ C.keys ∨ (x ∈ st.t.kt ∧ x.src ≠ 0))) : CvmConverged fuel kmax st C rest := by
  have hss := done.ss
  refine ⟨k, st', hk, run, done.state, fun x hx => ?_, fun x hx => ?_, ⟨fun x hx => ?_, fun x hx => ?_⟩, done.tblok,
    by rw [hss], by rw [hss], by rw [hss], by rw [hss, done.now], done.version, ?_, ?_, done.tape.ff, done.tape.eq⟩
  · rw [mp x]; simp [hx]
  · rw [mk x]; simp [hx]
  · rw [mp x]
    have : x ∉ C.recs := fun h => hx (hrok x h).1
    simp [hx, this]
  · rw [mk x]
    have : x ∉ C.keys := fun h => hx (hkok x h).1
    simp [hx, this]
  · rw [done.now]; omega
  · rw [done.now]
    rcases hd with h | h
    · rw [h]; omega
    · rw [h]; exact Int.le_refl _

/-- the operations of acceptable items name records of this socket only -/
theorem cvm_ops_src (items : List CvItem) (hok : ∀ i ∈ items, i.OK) :
    (∀ op ∈ cvPfxOps items, op.2.src = 0) ∧ (∀ op ∈ cvKeyOps items, op.2.src = 0) := by
  refine ⟨fun op hop => ?_, fun op hop => ?_⟩
  · unfold cvPfxOps cvOps4 cvOps6 at hop
    rcases List.mem_append.1 hop with h | h
    · obtain ⟨i, hi, e⟩ := List.mem_filterMap.1 h
      cases i with
      | pfx a r =>
        have hr : cvRecOK r := hok _ hi
        simp only at e
        split at e
        · cases e
        · simp only [Option.some.injEq] at e; subst e; exact hr.1
      | key a k => cases e
    · obtain ⟨i, hi, e⟩ := List.mem_filterMap.1 h
      cases i with
      | pfx a r =>
        have hr : cvRecOK r := hok _ hi
        simp only at e
        split at e
        · simp only [Option.some.injEq] at e; subst e; exact hr.1
        · cases e
      | key a k => cases e
  · unfold cvKeyOps at hop
    obtain ⟨i, hi, e⟩ := List.mem_filterMap.1 hop
    cases i with
    | pfx a r => cases e
    | key a k =>
      have hk : cvKeyOK k := hok _ hi
      simp only [Option.some.injEq] at e; subst e; exact hk.1

/-- **convergence on a reactive cache**, from the seven states of the recovery path.  `q` is the query
    the socket sends first (C05: a function of its state).  The cache speaks the socket's version.
    At most two exchanges (a Cache Reset, if the Serial Query cannot be served, then the reload),
    at most 6 iterations, at most one retry interval. -/
theorem cvm_converges_eventually (fuel : Nat) (st : St) (C : CvmCache) (q : Option (Nat × Nat)) (rest : List Nat)
    (hq : (cvSendsReset st ∧ q = none) ∨ (cvSendsSerial st ∧ q = some (st.ss.session, st.ss.serial)))
    (hver : C.ver = st.c.version) (hv : C.ver ≤ 1) (hres : st.ss.reqSession = false → st.ss.isResetting = false)
    (ho : CvOpenOK st.n.openQ) (hs : NoFail st.n.sendQ)
    (ht : TblOK st.t) (hi : st.ss.lastUpdate = 0 → NoOwn st.t)
    (hsess : C.sess < 65536) (hserial : C.serial < 4294967296)
    (hrok : ∀ r ∈ C.recs, cvRecOK r) (hkok : ∀ k ∈ C.keys, cvKeyOK k) (hrn : C.recs.Nodup) (hkn : C.keys.Nodup)
    (hinc : ∀ items, C.incr (st.ss.session, st.ss.serial) = some items → CvmIncOK st C items ∧ items.length < fuel)
    (htape : CvTape st.n (C.script q ++ rest))
    (hfuel : C.recs.length + C.keys.length < fuel) :
    CvmConverged fuel 6 st C rest := by
  rcases hq with ⟨hsr, rfl⟩ | ⟨hss, rfl⟩
  · -- the socket sends a Reset Query
    obtain ⟨k, d, st', hk, hd, hrun, hdone, mp, mk⟩ := cv_converges_reset fuel st C.ver C.sess C.serial C.iv C.recs C.keys rest
      ho hs hsr (Or.inl hver) hv ht hi hsess hserial hrok hkok hrn hkn htape hfuel
    exact cvm_converged_of_done fuel k 6 d st st' C rest (by omega) hd hrun hdone hrok hkok mp mk
  · -- the socket sends a Serial Query
    have hreq : st.ss.reqSession = false := by
      unfold cvSendsSerial at hss
      cases hst : st.c.state <;> rw [hst] at hss <;> simp only at hss <;> exact hss.1
    cases hin : C.incr (st.ss.session, st.ss.serial) with
    | some items =>
      -- the cache serves the increment
      obtain ⟨io, ilen⟩ := hinc items hin
      have hsame : st.ss.session = C.sess := by
        unfold CvmCache.incr at hin
        by_cases h : st.ss.session = C.sess
        · exact h
        · rw [if_neg h] at hin; cases hin
      have hscript : C.script (some (st.ss.session, st.ss.serial)) = cvAnswer C.ver st.ss.session C.serial C.iv items := by
        unfold CvmCache.script CvmCache.reply
        simp only [hin]
        rw [hsame]
      rw [hscript] at htape
      obtain ⟨k, d, st', hk, hd, hrun, hdone, mp, mk⟩ := cv_converges_serial fuel st C.ver C.serial C.iv items rest
        ho hs hss (hres hreq) (Or.inl hver) hv ht (by rw [hsame]; exact hsess) hserial io.ok io.np io.nk io.cp io.ck htape ilen
      obtain ⟨sp, sk⟩ := cvm_ops_src items io.ok
      have hsss := hdone.ss
      refine ⟨k, st', by omega, hrun, hdone.state, fun x hx => ?_, fun x hx => ?_, ⟨fun x hx => ?_, fun x hx => ?_⟩, hdone.tblok,
        by rw [hsss, hsame], by rw [hsss], by rw [hsss], by rw [hsss, hdone.now], hdone.version, ?_, ?_, hdone.tape.ff, hdone.tape.eq⟩
      · rw [mp x]; exact io.pt x hx
      · rw [mk x]; exact io.kt x hx
      · rw [mp x]
        have h1 : (true, x) ∉ cvPfxOps items := fun h => hx (sp _ h)
        have h2 : (false, x) ∉ cvPfxOps items := fun h => hx (sp _ h)
        simp [h1, h2]
      · rw [mk x]
        have h1 : (true, x) ∉ cvKeyOps items := fun h => hx (sk _ h)
        have h2 : (false, x) ∉ cvKeyOps items := fun h => hx (sk _ h)
        simp [h1, h2]
      · rw [hdone.now]; omega
      · rw [hdone.now]
        rcases hd with h | h
        · rw [h]; omega
        · rw [h]; exact Int.le_refl _
    | none =>
      -- the cache refuses: Cache Reset, then the reload
      have hscript : C.script (some (st.ss.session, st.ss.serial)) = cvmCacheReset C.ver ++ C.resetAnswer := by
        unfold CvmCache.script CvmCache.reply
        simp only [hin]
      rw [hscript, List.append_assoc] at htape
      obtain ⟨k, d, st1, hk, hd, a, r1, r2⟩ := cv_to_sync_serial fuel C.ver st ho hs hss (Or.inl hver)
      have hv1 : st1.c.version = C.ver := by rw [a.mid.ver, hver]
      have htape1 : CvTape st1.n (cvmCacheReset st1.c.version ++
          (cvAnswer st1.c.version C.sess C.serial C.iv (cvResetItems C.recs C.keys) ++ rest)) := by
        rw [hv1]; exact a.mid.net.cvTape htape
      obtain ⟨st', hpath, hdone, mp, mk⟩ := cvm_converges_cache_reset fuel st1 C.sess C.serial C.iv C.recs C.keys rest a.state
        (a.mid.net.noFail hs) (by rw [hv1]; exact hv) (by rw [r2]; exact ht) (by rw [r1, r2]; exact hi)
        hsess hserial hrok hkok hrn hkn htape1 hfuel
      rw [hv1] at hdone
      have d1 := cvm_done_shift d a.mid.net.now a.mid.tm a.mid.net.noFail hdone
      refine cvm_converged_of_done fuel (k + 4) 6 d st st' C rest (by omega) hd (a.run.append hpath.run)
        (CvDone.cast (by omega) d1) hrok hkok ?_ ?_
      · intro x; rw [mp x, r2]
      · intro x; rw [mk x, r2]

/-! ## the steady state: ESTABLISHED against the reactive cache -/

/-- the socket is ESTABLISHED again at time `w` with exactly the cache's data set, after at most
    `kmax` iterations -/
def CvmConvergedAt (fuel kmax : Nat) (st : St) (C : CvmCache) (w : Int) (rest : List Nat) : Prop :=
  ∃ k st', k ≤ kmax ∧ CvRun fuel k st st' ∧ st'.c.state = .established ∧
    (∀ x : Rec, x.src = 0 → (x ∈ st'.t.pt ↔ x ∈ C.recs)) ∧
    (∀ x : KeyRec, x.src = 0 → (x ∈ st'.t.kt ↔ x ∈ C.keys)) ∧
    OthersSame st.t st'.t ∧ TblOK st'.t ∧
    st'.ss.session = C.sess ∧ st'.ss.serial = C.serial ∧ st'.ss.reqSession = false ∧ st'.ss.lastUpdate = w ∧
    st'.c.version = C.ver ∧ st'.n.now = w ∧ FaultFree st'.n.tape ∧ tapeBytes st'.n.tape = rest

/-- **ESTABLISHED, the wait has ended (Serial Notify or refresh timer), the cache is reactive**: the
    increment is applied (2 iterations), or the cache answers Cache Reset and the data set is
    reloaded (5 iterations); no time passes after the wait -/
theorem cvm_established_reactive (fuel : Nat) (st st1 : St) (w : Int) (C : CvmCache) (rest : List Nat)
    (h1 : fsmStep fuel st = some st1) (p : CvmPolled st st1 w (C.script (some (st.ss.session, st.ss.serial)) ++ rest))
    (hr : st.ss.reqSession = false) (hres : st.ss.isResetting = false)
    (hver : C.ver = st.c.version) (hv : C.ver ≤ 1) (hs : NoFail st.n.sendQ)
    (ht : TblOK st.t) (hi : st.ss.lastUpdate = 0 → NoOwn st.t)
    (hsess : C.sess < 65536) (hserial : C.serial < 4294967296)
    (hrok : ∀ r ∈ C.recs, cvRecOK r) (hkok : ∀ k ∈ C.keys, cvKeyOK k) (hrn : C.recs.Nodup) (hkn : C.keys.Nodup)
    (hinc : ∀ items, C.incr (st.ss.session, st.ss.serial) = some items → CvmIncOK st C items ∧ items.length < fuel)
    (hfuel : C.recs.length + C.keys.length < fuel) :
    CvmConvergedAt fuel 5 st C w rest := by
  cases hin : C.incr (st.ss.session, st.ss.serial) with
  | some items =>
    obtain ⟨io, ilen⟩ := hinc items hin
    have hsame : st.ss.session = C.sess := by
      unfold CvmCache.incr at hin
      by_cases h : st.ss.session = C.sess
      · exact h
      · rw [if_neg h] at hin; cases hin
    have hscript : C.script (some (st.ss.session, st.ss.serial)) = cvAnswer st.c.version st.ss.session C.serial C.iv items := by
      unfold CvmCache.script CvmCache.reply
      simp only [hin]
      rw [hsame, hver]
    rw [hscript] at p
    obtain ⟨st', h2, u⟩ := cvm_polled_update fuel st st1 w C.serial C.iv items rest p hr hres (by rw [← hver]; exact hv) ht
      (by rw [hsame]; exact hsess) hserial io.ok io.np io.nk io.cp io.ck ilen
    obtain ⟨sp, sk⟩ := cvm_ops_src items io.ok
    have hsss := u.ss
    refine ⟨2, st', by omega, .cons h1 (.one h2), u.state, fun x hx => ?_, fun x hx => ?_, ⟨fun x hx => ?_, fun x hx => ?_⟩,
      u.tblok, by rw [hsss, hsame], by rw [hsss], by rw [hsss], by rw [hsss], by rw [u.version, hver], u.now, u.tape.ff, u.tape.eq⟩
    · rw [u.pt x]; exact io.pt x hx
    · rw [u.kt x]; exact io.kt x hx
    · rw [u.pt x]
      have a1 : (true, x) ∉ cvPfxOps items := fun h => hx (sp _ h)
      have a2 : (false, x) ∉ cvPfxOps items := fun h => hx (sp _ h)
      simp [a1, a2]
    · rw [u.kt x]
      have a1 : (true, x) ∉ cvKeyOps items := fun h => hx (sk _ h)
      have a2 : (false, x) ∉ cvKeyOps items := fun h => hx (sk _ h)
      simp [a1, a2]
  | none =>
    have hscript : C.script (some (st.ss.session, st.ss.serial)) = cvmCacheReset C.ver ++ C.resetAnswer := by
      unfold CvmCache.script CvmCache.reply
      simp only [hin]
    rw [hscript, List.append_assoc] at p
    have hv1 : st1.c.version = C.ver := by rw [p.ver, hver]
    have htape1 : CvTape st1.n (cvmCacheReset st1.c.version ++
        (cvAnswer st1.c.version C.sess C.serial C.iv (cvResetItems C.recs C.keys) ++ rest)) := by
      rw [hv1]; exact p.tape
    obtain ⟨st', hpath, hdone, mp, mk⟩ := cvm_converges_cache_reset fuel st1 C.sess C.serial C.iv C.recs C.keys rest p.state
      (p.send hs) (by rw [hv1]; exact hv) (by rw [p.t]; exact ht) (by rw [p.ss, p.t]; exact hi)
      hsess hserial hrok hkok hrn hkn htape1 hfuel
    rw [hv1] at hdone
    have hsss := hdone.ss
    have hnow : st'.n.now = w := by rw [hdone.now, p.now]; simp
    refine ⟨5, st', Nat.le_refl _, .cons h1 hpath.run, hdone.state, fun x hx => ?_, fun x hx => ?_,
      ⟨fun x hx => ?_, fun x hx => ?_⟩, hdone.tblok, by rw [hsss], by rw [hsss], by rw [hsss],
      by rw [hsss, p.now]; simp, hdone.version, hnow, hdone.tape.ff, hdone.tape.eq⟩
    · rw [mp x, p.t]; simp [hx]
    · rw [mk x, p.t]; simp [hx]
    · rw [mp x, p.t]
      have : x ∉ C.recs := fun h => hx (hrok x h).1
      simp [hx, this]
    · rw [mk x, p.t]
      have : x ∉ C.keys := fun h => hx (hkok x h).1
      simp [hx, this]

end Rtr.P
