/-
  Helper lemmas for C11 / C12 (BGPsec): layout of the aligned stream vs. the RFC 8205 digest,
  the validation loop, key selection, injectivity of the digest.
-/
import RtrModel.Bgpsec

namespace Rtr.Bgpsec
open Rtr.Rfc8205

/-! ## lengths -/

@[simp] theorem be16_length (n : Nat) : (be16 n).length = 2 := rfl
@[simp] theorem be32_length (n : Nat) : (be32 n).length = 4 := rfl
@[simp] theorem pathBytes_length (p : PathSeg) : (pathBytes p).length = 6 := rfl

theorem sigBytes_length (s : SigSeg) : (sigBytes s).length = s.ski.length + 2 + s.sig.length := by
  simp [sigBytes]; omega

theorem tailBytes_length (d : Data) : (tailBytes d).length = 5 + d.nlri.bytes.length := by
  simp [tailBytes]; omega

/-! ## `align_byte_sequence` writes the RFC sequence (SIGNING, and the whole VALIDATION stream) -/

theorem alignLoop_eq_segments : ∀ (ps : List PathSeg) (ss : List SigSeg),
    ps.length = ss.length + 1 → alignLoop ps ss = segments ps ss
  | [], _, h => by simp at h
  | [p], ss, h => by
    have : ss = [] := by cases ss with
      | nil => rfl
      | cons _ _ => simp at h
    subst this
    simp [alignLoop, segments]
  | p :: p' :: ps, [], h => by simp at h
  | p :: p' :: ps, s :: ss, h => by
    have ih := alignLoop_eq_segments (p' :: ps) ss (by simpa using h)
    simp only [alignLoop, segments] at ih ⊢
    rw [ih]

/-- the SIGNING alignment is the RFC 8205 §4.2 sequence -/
theorem alignBytes_signing (d : Data) (h : d.path.length = d.sigs.length + 1) :
    alignBytes .signing d = signDigest d := by
  simp only [alignBytes, signDigest, digestOf, startSigs]
  rw [alignLoop_eq_segments _ _ h]

/-! ## the moving offset: dropping `next_offset` bytes lands on the next hop's sequence -/

/-- one step of the loop: dropping `sig_len(next) + 28` bytes removes the target AS, the next
    Signature Segment and pCount+Flags of the current Secure_Path Segment, so that the remaining
    bytes START WITH THE CURRENT SEGMENT'S AS NUMBER — which is the next hop's target AS. -/
theorem drop_step (t : Nat) (p : PathSeg) (ps : List PathSeg) (s' : SigSeg) (ss : List SigSeg) (tl : List Nat)
    (hski : s'.ski.length = 20) :
    (be32 t ++ (alignLoop (p :: ps) (s' :: ss) ++ tl)).drop (s'.sig.length + 28)
      = be32 p.asn ++ (alignLoop ps ss ++ tl) := by
  have e : be32 t ++ (alignLoop (p :: ps) (s' :: ss) ++ tl)
      = (be32 t ++ (sigBytes s' ++ [p.pcount, p.flags])) ++ (be32 p.asn ++ (alignLoop ps ss ++ tl)) := by
    simp [alignLoop, pathBytes, List.append_assoc]
  rw [e]
  apply List.drop_left'
  simp [sigBytes_length, hski]
  omega

theorem targetOf_cons_succ (t : Nat) (p : PathSeg) (ps : List PathSeg) (i : Nat) :
    targetOf t (p :: ps) (i + 1) = targetOf p.asn ps i := by
  cases i <;> simp [targetOf]

theorem offsetAt_cons_cons_succ (s s' : SigSeg) (ss : List SigSeg) (i : Nat) :
    offsetAt (s :: s' :: ss) (i + 1) = s'.sig.length + 28 + offsetAt (s' :: ss) i := by
  simp [offsetAt]

/-- general form of `align_eq_rfc`: the stream suffix at the offset of iteration `i` -/
theorem drop_offsetAt : ∀ (i : Nat) (t : Nat) (ps : List PathSeg) (s : SigSeg) (ss : List SigSeg) (tl : List Nat),
    (∀ x ∈ ss, x.ski.length = 20) → ps.length = ss.length + 1 → i ≤ ss.length →
    (be32 t ++ (alignLoop ps ss ++ tl)).drop (offsetAt (s :: ss) i)
      = be32 (targetOf t ps i) ++ (alignLoop (ps.drop i) (ss.drop i) ++ tl)
  | 0, t, ps, s, ss, tl, _, _, _ => by simp [offsetAt, targetOf]
  | i + 1, t, ps, s, ss, tl, hski, hlen, hi => by
    match ss, ps, hlen, hi, hski with
    | [], _, _, hi, _ => simp at hi
    | s' :: ss', [], hlen, _, _ => simp at hlen
    | s' :: ss', p :: ps', hlen, hi, hski =>
      rw [offsetAt_cons_cons_succ, ← List.drop_drop, drop_step t p ps' s' ss' tl (hski s' (by simp))]
      rw [drop_offsetAt i p.asn ps' s' ss' tl (fun x hx => hski x (by simp [hx])) (by simpa using hlen)
        (by simpa using hi)]
      simp [targetOf_cons_succ]

/-- `align_eq_rfc`: for every hop `i`, the suffix of the VALIDATION stream at the loop's offset
    is the RFC 8205 sequence for that hop -/
theorem align_drop_eq_digest (d : Data) (hlen : d.path.length = d.sigs.length)
    (hski : ∀ s ∈ d.sigs, s.ski.length = 20) (i : Nat) (hi : i < d.sigs.length) :
    (alignBytes .validation d).drop (offsetAt d.sigs i) = digest d i := by
  match hs : d.sigs, hi, hski with
  | [], hi, _ => simp at hi
  | s :: ss, hi, hski =>
    have hl : d.path.length = ss.length + 1 := by simpa [hs] using hlen
    simp only [alignBytes, startSigs, hs, List.drop_succ_cons, List.drop_zero]
    rw [drop_offsetAt i d.targetAs d.path s ss (tailBytes d) (fun x hx => hski x (by simp [hx])) hl
      (by simp at hi; omega)]
    simp only [digest, digestOf, targetAt, hs, List.drop_succ_cons]
    rw [alignLoop_eq_segments]
    simp only [List.length_drop]
    simp at hi
    omega

/-! ## key selection and the inner key loop -/

section loop
variable {H : Type} (hash : List Nat → H) (verify : List Nat → H → List Nat → VRes)

/-- some key of the table that counts for (`s.ski`, `p.asn`) verifies `s.sig` over the octets `dg` -/
def KeyVerifies (m : KeyMode) (T : Table) (s : SigSeg) (p : PathSeg) (dg : List Nat) : Prop :=
  ∃ k ∈ T, keyOk m s.ski p.asn k = true ∧ verify k.spki (hash dg) s.sig = .valid

theorem tryKeys_valid_iff (m : KeyMode) (h : H) (sig : List Nat) (asn : Nat) : ∀ (keys : List Key) (acc : Rc),
    tryKeys verify m h sig asn keys acc = .valid ↔
      (∃ k ∈ keys, verify k.spki h sig = .valid ∧ (m = .skiAndAs → k.asn = asn)) ∨ (keys = [] ∧ acc = .valid)
  | [], acc => by simp [tryKeys]
  | k :: ks, acc => by
    have ih := tryKeys_valid_iff m h sig asn ks
    unfold tryKeys
    cases hv : verify k.spki h sig <;> cases m <;> simp [VRes.rc, ih, hv]
    · by_cases ha : k.asn = asn <;> simp [ha]

theorem exists_search_iff (m : KeyMode) (T : Table) (ski : List Nat) (asn : Nat) (P : Key → Prop) :
    (∃ k ∈ searchBySki T ski, P k ∧ (m = .skiAndAs → k.asn = asn)) ↔ ∃ k ∈ T, keyOk m ski asn k = true ∧ P k := by
  cases m <;> simp [searchBySki, keyOk, List.mem_filter] <;> constructor <;>
    (intro ⟨k, h⟩; exact ⟨k, by grind⟩)

theorem search_ne_nil_of_keyOk (m : KeyMode) (T : Table) (ski : List Nat) (asn : Nat) (k : Key)
    (hk : k ∈ T) (hok : keyOk m ski asn k = true) : searchBySki T ski ≠ [] := by
  have : k ∈ searchBySki T ski := by
    cases m <;> simp [searchBySki, keyOk, List.mem_filter] at hok ⊢ <;> grind
  intro h; rw [h] at this; simp at this

/-- one hop of the loop: the keys found by SKI, tried in order (`retval` is `SUCCESS` when the key loop
    starts, so a lookup without result is not VALID) -/
theorem tryKeys_search_iff (m : KeyMode) (T : Table) (s : SigSeg) (p : PathSeg) (dg : List Nat) :
    tryKeys verify m (hash dg) s.sig p.asn (searchBySki T s.ski) .success = .valid ↔ KeyVerifies hash verify m T s p dg := by
  rw [tryKeys_valid_iff, KeyVerifies, ← exists_search_iff m T s.ski p.asn (fun k => verify k.spki (hash dg) s.sig = .valid)]
  simp

/-- the lookup of a hop returned nothing: that hop is not VALID, whatever the keys were a moment ago -/
theorem tryKeys_nil_not_valid (m : KeyMode) (h : H) (sig : List Nat) (asn : Nat) :
    tryKeys verify m h sig asn [] .success ≠ .valid := by
  simp [tryKeys]

/-- every hop verifies under a key found BY ITS OWN LOOKUP (`V k` for the most recent segment, `V (k+1)`
    for the next …), as a recursion over the path from the most recent segment to the origin -/
def AllOkV (m : KeyMode) (V : View) (d : Data) : Nat → Nat → List PathSeg → List SigSeg → Prop
  | k, t, p :: ps, s :: ss => KeyVerifies hash verify m (V k) s p (digestOf d t (p :: ps) ss) ∧ AllOkV m V d (k + 1) p.asn ps ss
  | _, _, _, [] => True
  | _, _, [], _ :: _ => False

/-- the same against one table -/
def AllOk (m : KeyMode) (T : Table) (d : Data) (t : Nat) (ps : List PathSeg) (ss : List SigSeg) : Prop :=
  AllOkV hash verify m (fun _ => T) d 0 t ps ss

theorem allOkV_const_aux (m : KeyMode) (T : Table) (d : Data) : ∀ (ps : List PathSeg) (ss : List SigSeg) (k k' t : Nat),
    AllOkV hash verify m (fun _ => T) d k t ps ss ↔ AllOkV hash verify m (fun _ => T) d k' t ps ss
  | p :: ps, s :: ss, k, k', t => by
    simp only [AllOkV]
    rw [allOkV_const_aux m T d ps ss (k + 1) (k' + 1) p.asn]
  | [], [], _, _, _ => by simp [AllOkV]
  | _ :: _, [], _, _, _ => by simp [AllOkV]
  | [], _ :: _, _, _, _ => by simp [AllOkV]

theorem allOkV_const (m : KeyMode) (T : Table) (d : Data) (ps : List PathSeg) (ss : List SigSeg) (k k' t : Nat) :
    AllOkV hash verify m (fun _ => T) d k t ps ss ↔ AllOkV hash verify m (fun _ => T) d k' t ps ss :=
  allOkV_const_aux hash verify m T d ps ss k k' t

theorem allOk_cons (m : KeyMode) (T : Table) (d : Data) (t : Nat) (p : PathSeg) (ps : List PathSeg) (s : SigSeg) (ss : List SigSeg) :
    AllOk hash verify m T d t (p :: ps) (s :: ss) ↔
      KeyVerifies hash verify m T s p (digestOf d t (p :: ps) ss) ∧ AllOk hash verify m T d p.asn ps ss := by
  simp only [AllOk, AllOkV]
  rw [allOkV_const hash verify m T d ps ss (0 + 1) 0 p.asn]

theorem allOk_nil (m : KeyMode) (T : Table) (d : Data) (t : Nat) (ps : List PathSeg) :
    AllOk hash verify m T d t ps [] ↔ True := by
  cases ps <;> simp [AllOk, AllOkV]

theorem allOk_nil_cons (m : KeyMode) (T : Table) (d : Data) (t : Nat) (s : SigSeg) (ss : List SigSeg) :
    AllOk hash verify m T d t [] (s :: ss) ↔ False := by
  simp [AllOk, AllOkV]

/-- The validation loop, characterised.  Invariant: the stream is `pre ++ (the RFC sequence of the
    current hop)` and `offset = pre.length`.  Consequences proved here: the loop never stops early
    with signatures left unchecked, every iteration hashes exactly the RFC sequence of its hop and
    accepts it only under a key returned by the lookup of that iteration,
    and (under `hover`) it stops right after the last Signature Segment. -/
theorem valLoopV_iff (m : KeyMode) (stop : Bool) (V : View) (d : Data) :
    ∀ (ss : List SigSeg) (s : SigSeg) (ps : List PathSeg) (k t : Nat) (pre stream : List Nat),
    (∀ x ∈ ss, x.ski.length = 20) → ps.length = ss.length + 1 →
    (stop = true ∨ d.nlri.bytes.length < 13 + ((s :: ss).getLast (by simp)).sig.length) →
    stream = pre ++ (be32 t ++ (alignLoop ps ss ++ tailBytes d)) →
    (valLoopV hash verify m stop V stream k (s :: ss) ps pre.length = .valid ↔ AllOkV hash verify m V d k t ps (s :: ss))
  | [], s, ps, k, t, pre, stream, _, hlen, hover, hst => by
    match ps, hlen with
    | [p], _ =>
      have hdrop : stream.drop pre.length = digestOf d t [p] [] := by
        rw [hst, List.drop_left]; simp [digestOf, alignLoop, segments]
      have hsl : stream.length = pre.length + 15 + d.nlri.bytes.length := by
        rw [hst]; simp [alignLoop, tailBytes_length]; omega
      have hnl : ¬ stream.length < pre.length := by omega
      simp only [List.getLast_singleton] at hover
      simp only [valLoopV, hnl, if_false, hdrop, List.head?_cons, Option.map_some, Option.getD_some, AllOkV, and_true]
      rw [← tryKeys_search_iff hash verify m (V k) s p _]
      by_cases hr : tryKeys verify m (hash (digestOf d t [p] [])) s.sig p.asn (searchBySki (V k) s.ski) .success = .valid
      · simp only [hr, if_true, iff_true]
        rcases hover with hs | hlt
        · simp [hs]
        · have : ¬ (pre.length + (s.sig.length + 28) ≤ stream.length) := by omega
          simp [this]
      · simp [hr]
  | s' :: ss', s, ps, k, t, pre, stream, hski, hlen, hover, hst => by
    match ps, hlen with
    | p :: ps', hlen =>
      have hl' : ps'.length = ss'.length + 1 := by simpa using hlen
      have hdrop : stream.drop pre.length = digestOf d t (p :: ps') (s' :: ss') := by
        rw [hst, List.drop_left, digestOf, alignLoop_eq_segments _ _ (by simpa using hlen)]
      have hnl : ¬ stream.length < pre.length := by rw [hst]; simp
      have hs'ski : s'.ski.length = 20 := hski s' (by simp)
      -- the next prefix
      let chunk := be32 t ++ (sigBytes s' ++ [p.pcount, p.flags])
      have hst' : stream = (pre ++ chunk) ++ (be32 p.asn ++ (alignLoop ps' ss' ++ tailBytes d)) := by
        rw [hst]; simp [chunk, alignLoop, pathBytes, List.append_assoc]
      have hoff : pre.length + (s'.sig.length + 28) = (pre ++ chunk).length := by
        simp [chunk, sigBytes_length, hs'ski]; omega
      have ih := valLoopV_iff m stop V d ss' s' ps' (k + 1) p.asn (pre ++ chunk) stream (fun x hx => hski x (by simp [hx])) hl'
        (by simpa [List.getLast_cons] using hover) hst'
      simp only [valLoopV, hnl, if_false, hdrop, List.head?_cons, Option.map_some, Option.getD_some, AllOkV,
        List.tail_cons]
      rw [← tryKeys_search_iff hash verify m (V k) s p _]
      by_cases hr : tryKeys verify m (hash (digestOf d t (p :: ps') (s' :: ss'))) s.sig p.asn (searchBySki (V k) s.ski) .success = .valid
      · simp only [hr, if_true, true_and]
        rw [hoff]; exact ih
      · simp [hr]

/-! ## `check_router_keys` -/

theorem checkRouterKeysV_cases (m : KeyMode) (V : View) : ∀ (ss : List SigSeg) (ps : List PathSeg) (k : Nat),
    checkRouterKeysV m V k ss ps = .success ∨ checkRouterKeysV m V k ss ps = .routerKeyNotFound
  | [], _, _ => by simp [checkRouterKeysV]
  | s :: ss, ps, k => by
    unfold checkRouterKeysV
    by_cases h : (keysFor m (V k) s.ski ((ps.head?.map (·.asn)).getD 0)).isEmpty
    · simp [h]
    · simp only [h]; exact checkRouterKeysV_cases m V ss ps.tail (k + 1)

theorem checkRouterKeys_cases (m : KeyMode) (T : Table) (ss : List SigSeg) (ps : List PathSeg) :
    checkRouterKeys m T ss ps = .success ∨ checkRouterKeys m T ss ps = .routerKeyNotFound :=
  checkRouterKeysV_cases m (fun _ => T) ss ps 0

/-- the pre-check succeeds exactly when its i-th lookup finds a key that counts for segment i -/
theorem checkRouterKeysV_success_iff (m : KeyMode) (V : View) : ∀ (ss : List SigSeg) (ps : List PathSeg) (k : Nat),
    ps.length = ss.length →
    (checkRouterKeysV m V k ss ps = .success ↔
      ∀ i s p, ss[i]? = some s → ps[i]? = some p → keysFor m (V (k + i)) s.ski p.asn ≠ [])
  | [], _, _, _ => by simp [checkRouterKeysV]
  | _ :: _, [], _, h => by simp at h
  | s :: ss, p :: ps, k, h => by
    have ih := checkRouterKeysV_success_iff m V ss ps (k + 1) (by simpa using h)
    unfold checkRouterKeysV
    simp only [List.head?_cons, Option.map_some, Option.getD_some, List.tail_cons]
    by_cases he : (keysFor m (V k) s.ski p.asn).isEmpty
    · simp only [he, if_true]
      constructor
      · intro x; cases x
      · intro hall
        have := hall 0 s p (by simp) (by simp)
        rw [List.isEmpty_iff] at he
        exact absurd he (by simpa using this)
    · simp only [he, Bool.false_eq_true, if_false]
      rw [ih]
      constructor
      · intro hall i s' p' hs hp
        cases i with
        | zero =>
          simp only [List.getElem?_cons_zero, Option.some.injEq] at hs hp
          subst hs; subst hp
          simpa [List.isEmpty_iff] using he
        | succ i =>
          simp only [List.getElem?_cons_succ] at hs hp
          have := hall i s' p' hs hp
          rwa [show k + 1 + i = k + (i + 1) by omega] at this
      · intro hall i s' p' hs hp
        have := hall (i + 1) s' p' (by simpa using hs) (by simpa using hp)
        rwa [show k + (i + 1) = k + 1 + i by omega] at this

theorem keysFor_sub_search (m : KeyMode) (T : Table) (ski : List Nat) (asn : Nat) :
    keysFor m T ski asn ≠ [] → searchBySki T ski ≠ [] := by
  intro h
  have : ∃ k, k ∈ keysFor m T ski asn := List.exists_mem_of_ne_nil _ h
  obtain ⟨k, hk⟩ := this
  simp only [keysFor, List.mem_filter] at hk
  exact search_ne_nil_of_keyOk m T ski asn k hk.1 hk.2

theorem allOk_checkRouterKeys (m : KeyMode) (T : Table) (d : Data) : ∀ (ps : List PathSeg) (ss : List SigSeg) (k k' t : Nat),
    AllOkV hash verify m (fun _ => T) d k t ps ss → checkRouterKeysV m (fun _ => T) k' ss ps = .success
  | _, [], _, _, _, _ => by simp [checkRouterKeysV]
  | [], _ :: _, _, _, _, h => by simp [AllOkV] at h
  | p :: ps, s :: ss, k, k', t, h => by
    obtain ⟨⟨key, hk, hok, _⟩, hrest⟩ := h
    unfold checkRouterKeysV
    have : ¬ (keysFor m T s.ski p.asn).isEmpty := by
      intro he
      have hm : key ∈ keysFor m T s.ski p.asn := by simp [keysFor, List.mem_filter, hk, hok]
      rw [List.isEmpty_iff] at he; rw [he] at hm; simp at hm
    simp only [List.head?_cons, Option.map_some, Option.getD_some, this, List.tail_cons]
    exact allOk_checkRouterKeys m T d ps ss (k + 1) (k' + 1) p.asn hrest

/-- `AllOkV` hop by hop: hop `i` is checked against the RFC sequence
    `digestOf … (targetOf t ps i) (ps.drop i) (ss.drop (i+1))` under a key of the table `V (k + i)` -/
theorem allOkV_iff_forall (m : KeyMode) (V : View) (d : Data) : ∀ (ps : List PathSeg) (ss : List SigSeg) (k t : Nat),
    ps.length = ss.length →
    (AllOkV hash verify m V d k t ps ss ↔ ∀ i s p, ss[i]? = some s → ps[i]? = some p →
      KeyVerifies hash verify m (V (k + i)) s p (digestOf d (targetOf t ps i) (ps.drop i) (ss.drop (i + 1))))
  | [], [], _, t, _ => by simp [AllOkV]
  | [], _ :: _, _, _, h => by simp at h
  | _ :: _, [], _, _, h => by simp at h
  | p :: ps, s :: ss, k, t, h => by
    have ih := allOkV_iff_forall m V d ps ss (k + 1) p.asn (by simpa using h)
    simp only [AllOkV, ih]
    constructor
    · rintro ⟨h0, hr⟩ i s' p' hs hp
      cases i with
      | zero =>
        simp only [List.getElem?_cons_zero, Option.some.injEq] at hs hp
        subst hs; subst hp
        simpa [targetOf] using h0
      | succ i =>
        simp only [List.getElem?_cons_succ] at hs hp
        have := hr i s' p' hs hp
        rw [show k + 1 + i = k + (i + 1) by omega] at this
        simpa [targetOf_cons_succ] using this
    · intro hall
      refine ⟨?_, ?_⟩
      · simpa [targetOf] using hall 0 s p (by simp) (by simp)
      · intro i s' p' hs hp
        have := hall (i + 1) s' p' (by simpa using hs) (by simpa using hp)
        rw [show k + (i + 1) = k + 1 + i by omega] at this
        simpa [targetOf_cons_succ] using this

theorem allOk_iff_forall (m : KeyMode) (T : Table) (d : Data) (ps : List PathSeg) (ss : List SigSeg) (t : Nat)
    (h : ps.length = ss.length) :
    (AllOk hash verify m T d t ps ss ↔ ∀ i s p, ss[i]? = some s → ps[i]? = some p →
      KeyVerifies hash verify m T s p (digestOf d (targetOf t ps i) (ps.drop i) (ss.drop (i + 1)))) :=
  allOkV_iff_forall hash verify m (fun _ => T) d ps ss 0 t h

/-- the checks `rtr_bgpsec_validate_as_path` makes before any key is looked up -/
def Supported (d : Data) : Prop :=
  d.path ≠ [] ∧ d.sigs ≠ [] ∧ d.path.length = d.sigs.length ∧ d.alg = 1 ∧ (d.nlri.afi = 1 ∨ d.nlri.afi = 2)

/-- The loop is bounded by `offset <= stream size`, not by the Signature Segment list: after the
    last segment verified it runs once more (and dereferences NULL) unless the last signature is
    longer than `nlri bytes - 13`.  True whenever `nlri_len ≤ 128` and signatures have ≥ 4 octets
    (a DER ECDSA signature has at least 8). -/
def NoOverrun (d : Data) : Prop := ∀ s, d.sigs.getLast? = some s → d.nlri.bytes.length < 13 + s.sig.length

instance (d : Data) : Decidable (Supported d) := by unfold Supported; infer_instance

instance (d : Data) : Decidable (NoOverrun d) :=
  match h : d.sigs.getLast? with
  | none => isTrue (by unfold NoOverrun; simp [h])
  | some s =>
    if hlt : d.nlri.bytes.length < 13 + s.sig.length then isTrue (by unfold NoOverrun; simp [h, hlt])
    else isFalse (by unfold NoOverrun; simp [h, hlt])

/-- the entry point against table snapshots: VALID iff the pre-checks pass, every lookup of
    `check_router_keys` finds a key, and every hop verifies under a key found by the lookup of its own
    loop iteration (numbers `n`, `n+1`, … where `n` is the number of segments) -/
theorem validateV_iff (m : KeyMode) (stop : Bool) (V : View) (d : Data) (hski : ∀ s ∈ d.sigs, s.ski.length = 20)
    (hover : stop = true ∨ NoOverrun d) :
    validateV hash verify m stop d V = .valid ↔
      Supported d ∧ checkRouterKeysV m V 0 d.sigs d.path = .success ∧
        AllOkV hash verify m V d d.sigs.length d.targetAs d.path d.sigs := by
  unfold validateV Supported
  by_cases h1 : d.path = [] ∨ d.sigs = []
  · rw [if_pos h1]
    constructor
    · intro h; cases h
    · rintro ⟨⟨hp, hs, _⟩, _⟩; rcases h1 with h | h <;> contradiction
  by_cases h2 : d.path.length ≠ d.sigs.length
  · rw [if_neg h1, if_pos h2]
    constructor
    · intro h; cases h
    · rintro ⟨⟨_, _, hl, _⟩, _⟩; contradiction
  by_cases h3 : d.alg ≠ 1
  · rw [if_neg h1, if_neg h2, if_pos h3]
    constructor
    · intro h; cases h
    · rintro ⟨⟨_, _, _, ha, _⟩, _⟩; contradiction
  by_cases h4 : d.nlri.afi ≠ 1 ∧ d.nlri.afi ≠ 2
  · rw [if_neg h1, if_neg h2, if_neg h3, if_pos h4]
    constructor
    · intro h; cases h
    · rintro ⟨⟨_, _, _, _, ha⟩, _⟩; omega
  rw [if_neg h1, if_neg h2, if_neg h3, if_neg h4]
  have hsup : (d.path ≠ [] ∧ d.sigs ≠ [] ∧ d.path.length = d.sigs.length ∧ d.alg = 1 ∧ (d.nlri.afi = 1 ∨ d.nlri.afi = 2)) := by
    refine ⟨fun h => h1 (Or.inl h), fun h => h1 (Or.inr h), by omega, by omega, by omega⟩
  rw [and_iff_right hsup]
  rcases checkRouterKeysV_cases m V d.sigs d.path 0 with hc | hc
  · simp only [hc, true_and]
    match hs : d.sigs, hski, hover with
    | [], _, _ => exact absurd hs hsup.2.1
    | s :: ss, hski, hover =>
      have hst : alignBytes .validation d = [] ++ (be32 d.targetAs ++ (alignLoop d.path ss ++ tailBytes d)) := by
        simp [alignBytes, startSigs, hs]
      have := valLoopV_iff hash verify m stop V d ss s d.path (s :: ss).length d.targetAs [] (alignBytes .validation d)
        (fun x hx => hski x (by simp [hx])) (by have := hsup.2.2.1; rw [hs] at this; simpa using this)
        (by
          rcases hover with h | hover
          · exact Or.inl h
          · unfold NoOverrun at hover
            rw [hs] at hover
            exact Or.inr (hover _ (List.getLast?_eq_some_getLast _)))
        hst
      simpa using this
  · simp only [hc]
    constructor
    · intro h; cases h
    · intro h; cases h.1

theorem validate_iff_allOk (m : KeyMode) (stop : Bool) (T : Table) (d : Data) (hski : ∀ s ∈ d.sigs, s.ski.length = 20)
    (hover : stop = true ∨ NoOverrun d) :
    validate hash verify m stop d T = .valid ↔ Supported d ∧ AllOk hash verify m T d d.targetAs d.path d.sigs := by
  unfold validate AllOk
  rw [validateV_iff hash verify m stop (fun _ => T) d hski hover,
    allOkV_const hash verify m T d d.path d.sigs d.sigs.length 0 d.targetAs]
  constructor
  · rintro ⟨a, _, c⟩; exact ⟨a, c⟩
  · rintro ⟨a, c⟩; exact ⟨a, allOk_checkRouterKeys hash verify m T d d.path d.sigs 0 0 d.targetAs c, c⟩

/-- `validate_signature`: VALID needs a strict-DER signature field AND a verifying signature -/
theorem validateSignature_valid_iff (wf : List Nat → Bool) (spki : List Nat) (h : H) (sig : List Nat) :
    validateSignature wf verify spki h sig = .valid ↔ wf sig = true ∧ verify spki h sig = .valid := by
  unfold validateSignature
  by_cases hw : wf sig = true <;> simp [hw]

end loop

/-! ## `req_stream_size` is exactly the number of bytes `align_byte_sequence` writes -/

theorem alignLoop_length : ∀ (ps : List PathSeg) (ss : List SigSeg), ss.length ≤ ps.length →
    (∀ x ∈ ss, x.ski.length = 20) →
    (alignLoop ps ss).length = (ss.map fun s => s.sig.length + 2 + 20).sum + 6 * ps.length
  | [], [], _, _ => by simp [alignLoop]
  | [], _ :: _, h, _ => by simp at h
  | p :: ps, [], _, _ => by
    have := alignLoop_length ps [] (by simp) (by simp)
    simp [alignLoop] at this ⊢; omega
  | p :: ps, s :: ss, h, hski => by
    have := alignLoop_length ps ss (by simpa using h) (fun x hx => hski x (by simp [hx]))
    simp [alignLoop, sigBytes_length, hski s (by simp)] at this ⊢; omega

theorem alignBytes_length (ty : AlignType) (d : Data) (hn : d.nlri.bytes.length = nlriB d.nlri.len)
    (hski : ∀ s ∈ d.sigs, s.ski.length = 20) (hl : (startSigs ty d.sigs).length ≤ d.path.length) :
    (alignBytes ty d).length = reqStreamSize ty d := by
  have hski' : ∀ x ∈ startSigs ty d.sigs, x.ski.length = 20 := by
    intro x hx
    cases ty
    · exact hski x (List.mem_of_mem_drop hx)
    · exact hski x hx
  simp only [alignBytes, reqStreamSize, sigSegSize, List.length_append, be32_length, tailBytes_length,
    alignLoop_length _ _ hl hski', hn]
  omega

/-! ## a missing router key is reported as such -/

theorem checkRouterKeysV_missing (m : KeyMode) (V : View) : ∀ (ss : List SigSeg) (ps : List PathSeg) (k i : Nat) (s : SigSeg) (p : PathSeg),
    ss[i]? = some s → ps[i]? = some p → keysFor m (V (k + i)) s.ski p.asn = [] →
    checkRouterKeysV m V k ss ps = .routerKeyNotFound
  | [], _, _, _, _, _, h, _, _ => by simp at h
  | _ :: _, [], _, _, _, _, _, h, _ => by simp at h
  | s0 :: ss, p0 :: ps, k, i, s, p, hs, hp, hk => by
    unfold checkRouterKeysV
    simp only [List.head?_cons, Option.map_some, Option.getD_some, List.tail_cons]
    by_cases he : (keysFor m (V k) s0.ski p0.asn).isEmpty
    · simp [he]
    · simp only [he]
      cases i with
      | zero =>
        simp only [List.getElem?_cons_zero, Option.some.injEq] at hs hp
        subst hs; subst hp
        rw [Nat.add_zero] at hk
        simp [hk] at he
      | succ i =>
        simp only [List.getElem?_cons_succ] at hs hp
        exact checkRouterKeysV_missing m V ss ps (k + 1) i s p hs hp (by rwa [show k + 1 + i = k + (i + 1) by omega])

theorem checkRouterKeys_missing (m : KeyMode) (T : Table) (ss : List SigSeg) (ps : List PathSeg) (i : Nat) (s : SigSeg) (p : PathSeg)
    (hs : ss[i]? = some s) (hp : ps[i]? = some p) (hk : keysFor m T s.ski p.asn = []) :
    checkRouterKeys m T ss ps = .routerKeyNotFound :=
  checkRouterKeysV_missing m (fun _ => T) ss ps 0 i s p hs hp hk

/-! ## injectivity of the RFC sequence (what is hashed determines every signed field) -/

def WfPath (p : PathSeg) : Prop := p.pcount < 256 ∧ p.flags < 256 ∧ p.asn < 4294967296
def WfSig (s : SigSeg) : Prop := s.ski.length = 20 ∧ s.sig.length < 65536

instance (p : PathSeg) : Decidable (WfPath p) := by unfold WfPath; infer_instance
instance (s : SigSeg) : Decidable (WfSig s) := by unfold WfSig; infer_instance

/-- the ranges the C types impose (`uint8_t`, `uint16_t`, `uint32_t`, `ski[20]`) and the NLRI buffer
    holding exactly `(nlri_len + 7) / 8` octets -/
structure WfData (d : Data) : Prop where
  alg : d.alg < 256
  afi : d.afi < 65536
  safi : d.safi < 256
  target : d.targetAs < 4294967296
  nlriLen : d.nlri.len < 256
  nlriBytes : d.nlri.bytes.length = nlriB d.nlri.len
  path : ∀ p ∈ d.path, WfPath p
  sigs : ∀ s ∈ d.sigs, WfSig s

theorem be32_inj {a b : Nat} (ha : a < 4294967296) (hb : b < 4294967296) (h : be32 a = be32 b) : a = b := by
  simp [be32] at h; omega

theorem be16_inj {a b : Nat} (ha : a < 65536) (hb : b < 65536) (h : be16 a = be16 b) : a = b := by
  simp [be16] at h; omega

theorem pathBytes_append_inj {p p' : PathSeg} {r r' : List Nat} (hp : WfPath p) (hp' : WfPath p')
    (h : pathBytes p ++ r = pathBytes p' ++ r') : p = p' ∧ r = r' := by
  obtain ⟨pc, fl, asn⟩ := p
  obtain ⟨pc', fl', asn'⟩ := p'
  simp only [WfPath] at hp hp'
  simp [pathBytes, be32] at h
  refine ⟨?_, h.2.2.2.2.2.2⟩
  have : asn = asn' := by omega
  simp [h.1, h.2.1, this]

theorem sigBytes_append_inj {s s' : SigSeg} {r r' : List Nat} (hs : WfSig s) (hs' : WfSig s')
    (h : sigBytes s ++ r = sigBytes s' ++ r') : s = s' ∧ r = r' := by
  obtain ⟨ski, sig⟩ := s
  obtain ⟨ski', sig'⟩ := s'
  simp only [WfSig] at hs hs'
  simp only [sigBytes, List.append_assoc] at h
  obtain ⟨h1, h2⟩ := List.append_inj h (by omega)
  obtain ⟨h3, h4⟩ := List.append_inj h2 (by simp)
  have hl : sig.length = sig'.length := be16_inj hs.2 hs'.2 h3
  obtain ⟨h5, h6⟩ := List.append_inj h4 hl
  exact ⟨by simp [h1, h5], h6⟩

theorem segments_append_inj : ∀ (ps ps' : List PathSeg) (ss ss' : List SigSeg) (r r' : List Nat),
    ps.length = ps'.length → ps.length = ss.length + 1 → ps'.length = ss'.length + 1 →
    (∀ p ∈ ps, WfPath p) → (∀ p ∈ ps', WfPath p) → (∀ s ∈ ss, WfSig s) → (∀ s ∈ ss', WfSig s) →
    segments ps ss ++ r = segments ps' ss' ++ r' → ps = ps' ∧ ss = ss' ∧ r = r'
  | [], _, _, _, _, _, _, h, _, _, _, _, _, _ => by simp at h
  | [p], ps', ss, ss', r, r', hl, h1, h2, wp, wp', _, _, h => by
    match ps', hl, h2, wp' with
    | [p'], _, h2, wp' =>
      have e1 : ss = [] := by cases ss <;> simp at h1 ⊢
      have e2 : ss' = [] := by cases ss' <;> simp at h2 ⊢
      subst e1; subst e2
      simp only [segments] at h
      obtain ⟨a, b⟩ := pathBytes_append_inj (wp p (by simp)) (wp' p' (by simp)) h
      simp [a, b]
  | p :: q :: ps, ps', ss, ss', r, r', hl, h1, h2, wp, wp', ws, ws', h => by
    match ps', ss, ss', hl, h1, h2, wp', ws, ws', h with
    | [], _, _, hl, _, _, _, _, _, _ => simp at hl
    | [_], _, _, hl, _, _, _, _, _, _ => simp at hl
    | _ :: _ :: _, [], _, _, h1, _, _, _, _, _ => simp at h1
    | _ :: _ :: _, _ :: _, [], _, _, h2, _, _, _, _ => simp at h2
    | p' :: q' :: ps', s :: ss, s' :: ss', hl, h1, h2, wp', ws, ws', h =>
      simp only [segments, List.append_assoc] at h
      obtain ⟨a, h⟩ := sigBytes_append_inj (ws s (by simp)) (ws' s' (by simp)) h
      obtain ⟨b, h⟩ := pathBytes_append_inj (wp p (by simp)) (wp' p' (by simp)) h
      obtain ⟨c, d, e⟩ := segments_append_inj (q :: ps) (q' :: ps') ss ss' r r' (by simpa using hl) (by simpa using h1)
        (by simpa using h2) (fun x hx => wp x (by simp [hx])) (fun x hx => wp' x (by simp [hx]))
        (fun x hx => ws x (by simp [hx])) (fun x hx => ws' x (by simp [hx])) h
      simp [a, b, c, d, e]

theorem tailBytes_inj {d d' : Data} (w : WfData d) (w' : WfData d') (h : tailBytes d = tailBytes d') :
    d.alg = d'.alg ∧ d.afi = d'.afi ∧ d.safi = d'.safi ∧ d.nlri.len = d'.nlri.len ∧ d.nlri.bytes = d'.nlri.bytes := by
  simp [tailBytes, be16] at h
  have := w.afi; have := w'.afi
  refine ⟨h.1, by omega, h.2.2.2.1, h.2.2.2.2.1, h.2.2.2.2.2⟩

/-- equal RFC sequences of the same number of segments have equal target, segments and trailer -/
theorem digestOf_inj {d d' : Data} (w : WfData d) (w' : WfData d') {t t' : Nat} (ht : t < 4294967296) (ht' : t' < 4294967296)
    {ps ps' : List PathSeg} {ss ss' : List SigSeg}
    (hl : ps.length = ps'.length) (h1 : ps.length = ss.length + 1) (h2 : ps'.length = ss'.length + 1)
    (wp : ∀ p ∈ ps, WfPath p) (wp' : ∀ p ∈ ps', WfPath p) (ws : ∀ s ∈ ss, WfSig s) (ws' : ∀ s ∈ ss', WfSig s)
    (h : digestOf d t ps ss = digestOf d' t' ps' ss') :
    t = t' ∧ ps = ps' ∧ ss = ss' ∧
      d.alg = d'.alg ∧ d.afi = d'.afi ∧ d.safi = d'.safi ∧ d.nlri.len = d'.nlri.len ∧ d.nlri.bytes = d'.nlri.bytes := by
  simp only [digestOf] at h
  obtain ⟨a, h⟩ := List.append_inj h (by simp)
  obtain ⟨b, c, e⟩ := segments_append_inj ps ps' ss ss' _ _ hl h1 h2 wp wp' ws ws' h
  exact ⟨be32_inj ht ht' a, b, c, tailBytes_inj w w' e⟩

theorem targetAt_lt (d : Data) (w : WfData d) (i : Nat) : targetAt d i < 4294967296 := by
  cases i with
  | zero => exact w.target
  | succ i =>
    simp only [targetAt, targetOf]
    cases h : d.path[i]? with
    | none => simp
    | some p =>
      have : p ∈ d.path := List.mem_of_getElem? h
      simpa using (w.path p this).2.2

end Rtr.Bgpsec
