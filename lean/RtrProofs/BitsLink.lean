/-
  BitsLink: the literal IPv4 bit code of rtrlib/lib/utils.c (`getBits32`) computes the abstract
  bit view (`bitAt`, `prefixEq`) the trie model is written against.
-/
import RtrProofs.TrieWF

namespace Rtr

theorem mask_bit (lvl i : Nat) (h : lvl ≤ 31) (_hi : i < 32) :
    ((~~~(BitVec.allOnes 32 >>> 1)) >>> lvl).getLsbD i = decide (i = 31 - lvl) := by
  simp only [BitVec.getLsbD_ushiftRight, BitVec.getLsbD_not, BitVec.getLsbD_allOnes]
  by_cases e : i = 31 - lvl
  · simp [e]; omega
  · simp [e]; omega

theorem getBits32_one (a : BitVec 32) (lvl : Nat) (h : lvl ≤ 31) :
    (getBits32 a lvl 1 == 0) = !a.getLsbD (31 - lvl) := by
  unfold getBits32
  have h' : ¬ (1 = 0 ∨ lvl > 31) := by omega
  simp only [h', if_false]
  rw [if_pos (by decide)]
  cases hb : a.getLsbD (31 - lvl)
  · simp only [Bool.not_false, beq_iff_eq]
    apply BitVec.eq_of_getLsbD_eq
    intro i hi
    rw [BitVec.getLsbD_and, mask_bit lvl i h hi]
    by_cases e : i = 31 - lvl
    · subst e; simp [hb]
    · simp [e]
  · simp only [Bool.not_true, beq_eq_false_iff_ne]
    intro e
    have := congrArg (fun x => x.getLsbD (31 - lvl)) e
    simp only [BitVec.getLsbD_and] at this
    rw [mask_bit lvl _ h (by omega), hb] at this
    simp at this

/-- `is_left_child` as compiled from the C text (IPv4) is the abstract `isLeft` at every level,
    including levels at and beyond the width -/
theorem isLeftChildC4_eq (a : Nat) (lvl : Nat) :
    isLeftChildC4 (BitVec.ofNat 32 a) lvl = isLeft 32 a lvl := by
  unfold isLeftChildC4 isLeft bitAt
  by_cases h : lvl ≤ 31
  · rw [getBits32_one _ _ h]
    have h1 : lvl < 32 := by omega
    have h2 : 31 - lvl < 32 := by omega
    simp only [h1, decide_true, Bool.true_and]
    congr 1
    rw [BitVec.getLsbD_ofNat]
    simp [h2]
  · have h1 : ¬ lvl < 32 := by omega
    simp only [h1, decide_false, Bool.false_and, Bool.not_false]
    unfold getBits32
    have h2 : (1 = 0 ∨ lvl > 31) := Or.inr (by omega)
    simp only [h2, if_true]
    decide

theorem ofNat_getLsbD (p i : Nat) (hi : i < 32) : (BitVec.ofNat 32 p).getLsbD i = p.testBit i := by
  rw [BitVec.getLsbD_ofNat]; simp [hi]

theorem mask_top (len i : Nat) (h0 : len ≠ 0) (h : len ≤ 32) (hi : i < 32) :
    ((if (len != 32) = true then ~~~(BitVec.allOnes 32 >>> len) else BitVec.allOnes 32) >>> 0).getLsbD i =
      decide (32 - len ≤ i) := by
  by_cases e : len = 32
  · subst e
    rw [if_neg (by decide)]
    rw [BitVec.getLsbD_ushiftRight, BitVec.getLsbD_allOnes]
    simp [hi]
  · have : (len != 32) = true := by simpa using e
    simp only [this, if_true, BitVec.getLsbD_ushiftRight, BitVec.getLsbD_not, BitVec.getLsbD_allOnes]
    by_cases e2 : 32 - len ≤ i
    · simp [e2, hi]; omega
    · simp [e2, hi]; omega

/-- the covering test of `trie_lookup` as compiled from the C text (IPv4) is `prefixEq` -/
theorem coversC4_eq (p q : Nat) (hp : p < 2^32) (hq : q < 2^32) (len : Nat) (h : len ≤ 32) :
    coversC4 (BitVec.ofNat 32 p) len (BitVec.ofNat 32 q) = prefixEq 32 p q len := by
  by_cases h0 : len = 0
  · subst h0
    simp [coversC4, getBits32, prefixEq, Nat.shiftRight_eq_div_pow, Nat.div_eq_of_lt hp, Nat.div_eq_of_lt hq]
  · have key : coversC4 (BitVec.ofNat 32 p) len (BitVec.ofNat 32 q) = true ↔
        ∀ i, i < 32 → 32 - len ≤ i → p.testBit i = q.testBit i := by
      unfold coversC4 getBits32
      have h' : ¬ (len = 0 ∨ 0 > 31) := by omega
      simp only [h', if_false, beq_iff_eq]
      constructor
      · intro e i hi hle
        have := congrArg (fun x => x.getLsbD i) e
        simp only [BitVec.getLsbD_and] at this
        rw [mask_top len i h0 h hi, ofNat_getLsbD p i hi, ofNat_getLsbD q i hi] at this
        simpa [hle] using this
      · intro e
        apply BitVec.eq_of_getLsbD_eq
        intro i hi
        simp only [BitVec.getLsbD_and]
        rw [mask_top len i h0 h hi, ofNat_getLsbD p i hi, ofNat_getLsbD q i hi]
        by_cases hle : 32 - len ≤ i
        · simp [hle, e i hi hle]
        · simp [hle]
    have key2 := prefixEq_iff 32 p q len h hp hq
    cases hc : coversC4 (BitVec.ofNat 32 p) len (BitVec.ofNat 32 q) <;> cases hpe : prefixEq 32 p q len <;> try rfl
    · exfalso
      have := key2.1 hpe
      have : coversC4 (BitVec.ofNat 32 p) len (BitVec.ofNat 32 q) = true := by
        rw [key]
        intro i hi hle
        have := this (31 - i) (by omega)
        rw [bitAt_lt _ _ _ (by omega), bitAt_lt _ _ _ (by omega)] at this
        have e : 32 - 1 - (31 - i) = i := by omega
        rw [e] at this; exact this
      rw [hc] at this; cases this
    · exfalso
      have k := key.1 hc
      have : prefixEq 32 p q len = true := by
        rw [key2]
        intro j hj
        rw [bitAt_lt _ _ _ (by omega), bitAt_lt _ _ _ (by omega)]
        exact k (32 - 1 - j) (by omega) (by omega)
      rw [hpe] at this; cases this

end Rtr
