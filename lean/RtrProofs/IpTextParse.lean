/-
  IpTextParse: the `while (*a)` loop of `lrtr_ipv6_str_to_addr` (model `loop`): fuel irrelevance,
  one-step equations over groups / `::` / dotted quad, the shape invariant of `words[]`, and the
  specification of the `::` expansion (`finish`).
-/
import RtrProofs.IpTextDigits

namespace Rtr.IpText

theorem scanHex_len : ∀ (s : Str) (j l v : Nat) (rest : Str), scanHex s j l = some (v, rest) → rest.length ≤ s.length := by
  intro s
  induction s with
  | nil => intro j l v rest h; simp [scanHex] at h; simp [h.2.symm]
  | cons c cs ih =>
    intro j l v rest h
    unfold scanHex at h
    cases hc : hexVal? c with
    | none => simp [hc] at h; simp [h.2.symm]
    | some k =>
      simp only [hc] at h
      split at h
      · cases h
      · have := ih _ _ _ _ h; simp; omega

/-- enough fuel is enough: the result does not depend on the amount -/
theorem loop_fuel (chk : Bool) : ∀ (f f' : Nat) (s : Str) (st : PSt), s.length < f → s.length < f' →
    loop chk f s st = loop chk f' s st := by
  intro f
  induction f with
  | zero => intro f' s st h; omega
  | succ f ih =>
    intro f' s st h h'
    cases f' with
    | zero => omega
    | succ f' =>
      cases s with
      | nil => simp [loop]
      | cons c cs =>
        simp only [List.length_cons] at h h'
        simp only [loop]
        by_cases hc : c = ':'
        · simp only [hc, if_true]
          by_cases hh : st.hfil.isSome = true
          · simp [hh]
          · simp only [hh]
            exact ih f' cs _ (by omega) (by omega)
        · simp only [hc, if_false]
          cases hs : scanHex (c :: cs) 0 0 with
          | none => rfl
          | some p =>
            obtain ⟨j, rest⟩ := p
            have hl := scanHex_len _ _ _ _ _ hs
            simp only [List.length_cons] at hl
            cases rest with
            | nil => rfl
            | cons d ds =>
              simp only [List.length_cons] at hl
              simp only
              by_cases h1 : d = ':' ∧ ds ≠ []
              · rw [if_pos h1, if_pos h1]
                by_cases h8 : st.i ≥ 8
                · simp [h8]
                · simp only [h8, if_false]
                  exact ih f' ds _ (by omega) (by omega)
              · rw [if_neg h1, if_neg h1]

/-- the loop with exactly the fuel `parse6Core` would give it -/
def run (chk : Bool) (s : Str) (st : PSt) : PRes := loop chk (s.length + 1) s st

theorem loop_eq_run (chk : Bool) (f : Nat) (s : Str) (st : PSt) (h : s.length < f) : loop chk f s st = run chk s st :=
  loop_fuel chk _ _ _ _ h (by omega)

theorem run_nil (chk : Bool) (st : PSt) : run chk [] st = finish chk st := rfl

theorem run_colon (chk : Bool) (cs : Str) (st : PSt) (h : st.hfil = none) :
    run chk (':' :: cs) st = run chk cs { st with hfil := some st.i } := by
  unfold run
  simp only [List.length_cons, loop, if_true, h, Option.isSome_none]
  exact loop_eq_run chk _ _ _ (by omega)

theorem groupOk_cons {g : Str} (h : groupOk g = true) : ∃ c cs, g = c :: cs ∧ c ≠ ':' := by
  obtain ⟨h1, _, hh⟩ := (groupOk_iff g).mp h
  cases g with
  | nil => simp at h1
  | cons c cs =>
    refine ⟨c, cs, rfl, ?_⟩
    intro hc
    have := hh c (by simp)
    rw [hc, hexVal_colon] at this
    cases this

/-- `g:` followed by more text: the group is stored and the loop goes on behind the colon -/
theorem run_group_colon (chk : Bool) {g : Str} (hg : groupOk g = true) {ds : Str} (hds : ds ≠ []) {st : PSt}
    (hi : st.i < 8) : run chk (g ++ ':' :: ds) st = run chk ds (push st (groupVal g)) := by
  obtain ⟨c, cs, rfl, hc⟩ := groupOk_cons hg
  have hs := scanHex_groupOk hg (noHexHead_colon ds)
  unfold run
  simp only [List.cons_append, List.length_cons, loop, hc, if_false]
  rw [show c :: (cs ++ ':' :: ds) = (c :: cs) ++ ':' :: ds from rfl, hs]
  simp only [hds, ne_eq, not_false_eq_true, and_self, if_true, show ¬ st.i ≥ 8 by omega, if_false]
  exact loop_eq_run chk _ _ _ (by simp; omega)

/-- a group at the very end of the text -/
theorem run_group_end (chk : Bool) {g : Str} (hg : groupOk g = true) {st : PSt} (hi : st.i < 8) :
    run chk g st = finish chk (push st (groupVal g)) := by
  obtain ⟨c, cs, rfl, hc⟩ := groupOk_cons hg
  have hs := scanHex_groupOk hg noHexHead_nil
  rw [List.append_nil] at hs
  unfold run
  simp only [List.length_cons, loop, hc, if_false, hs, show ¬ st.i ≥ 8 by omega]

theorem dec8_cons (n : Nat) (hn : n < 256) : ∃ c cs, dec8 n = c :: cs ∧ c ≠ ':' :=
  groupOk_cons (groupOk_dec8 hn)

/-- a dotted quad at the end of the text (positions allowed by the C condition) -/
theorem run_quad (chk : Bool) {q : Nat × Nat × Nat × Nat} (hq : quadOk q = true) {st : PSt}
    (hi : st.i = 6 ∨ (st.i < 6 ∧ st.hfil.isSome = true)) :
    run chk (quadStr q) st =
      finish chk (push (push st (q.1 * 256 + q.2.1)) (q.2.2.1 * 256 + q.2.2.2)) := by
  have hp := parse4_quadStr hq noDigitHead_nil
  rw [List.append_nil] at hp
  obtain ⟨a, b, c, d⟩ := q
  have hq' := hq
  simp only [quadOk, Bool.and_eq_true, decide_eq_true_eq] at hq'
  obtain ⟨⟨⟨ha, hb⟩, hc⟩, hd⟩ := hq'
  obtain ⟨x, xs, hx, hxc⟩ := dec8_cons a ha
  have hs := scanHex_groupOk (groupOk_dec8 ha) (noHexHead_dot (dec8 b ++ '.' :: (dec8 c ++ '.' :: dec8 d)))
  unfold run
  simp only [quadStr] at hp hs ⊢
  rw [hx] at hp hs ⊢
  simp only [List.cons_append, List.length_cons, loop, hxc, if_false] at hp hs ⊢
  rw [hs]
  have h2 : ¬ (('.' : Char) = ':' ∧ dec8 b ++ '.' :: (dec8 c ++ '.' :: dec8 d) ≠ []) := by
    intro h; exact absurd h.1 (by decide)
  simp only [h2, if_false, hi, and_self, if_true, hp]
  congr 2
  · congr 1; omega
  · omega

end Rtr.IpText
