/-
  IpTextParse: the `while (*a)` loop of `lrtr_ipv6_str_to_addr` (model `loop`): fuel irrelevance,
  one-step equations over groups / `::` / dotted quad, the shape invariant of `words[]`, and the
  specification of the `::` expansion (`finish`).
-/
import RtrProofs.IpTextDigits

namespace Rtr.IpText

theorem scanHex_len : ∀ (s : Str) (j l v : Nat) (rest : Str), scanHex s j l = some (v, rest) → rest.length ≤ s.length := by
  intro s
  induction s with
  | nil => intro j l v rest h; simp [scanHex] at h; simp [h.2.symm]
  | cons c cs ih =>
    intro j l v rest h
    unfold scanHex at h
    cases hc : hexVal? c with
    | none => simp [hc] at h; simp [h.2.symm]
    | some k =>
      simp only [hc] at h
      split at h
      · cases h
      · have := ih _ _ _ _ h; simp; omega

/-- enough fuel is enough: the result does not depend on the amount -/
theorem loop_fuel (chk : Bool) : ∀ (f f' : Nat) (s : Str) (st : PSt), s.length < f → s.length < f' →
    loop chk f s st = loop chk f' s st := by
  intro f
  induction f with
  | zero => intro f' s st h; omega
  | succ f ih =>
    intro f' s st h h'
    cases f' with
    | zero => omega
    | succ f' =>
      cases s with
      | nil => simp [loop]
      | cons c cs =>
        simp only [List.length_cons] at h h'
        simp only [loop]
        by_cases hc : c = ':'
        · simp only [hc, if_true]
          by_cases hh : st.hfil.isSome = true
          · simp [hh]
          · simp only [hh]
            exact ih f' cs _ (by omega) (by omega)
        · simp only [hc, if_false]
          cases hs : scanHex (c :: cs) 0 0 with
          | none => rfl
          | some p =>
            obtain ⟨j, rest⟩ := p
            have hl := scanHex_len _ _ _ _ _ hs
            simp only [List.length_cons] at hl
            cases rest with
            | nil => rfl
            | cons d ds =>
              simp only [List.length_cons] at hl
              simp only
              by_cases h1 : d = ':' ∧ ds ≠ []
              · rw [if_pos h1, if_pos h1]
                by_cases h8 : st.i ≥ 8
                · simp [h8]
                · simp only [h8, if_false]
                  exact ih f' ds _ (by omega) (by omega)
              · rw [if_neg h1, if_neg h1]

/-- the loop with exactly the fuel `parse6Core` would give it -/
def run (chk : Bool) (s : Str) (st : PSt) : PRes := loop chk (s.length + 1) s st

theorem loop_eq_run (chk : Bool) (f : Nat) (s : Str) (st : PSt) (h : s.length < f) : loop chk f s st = run chk s st :=
  loop_fuel chk _ _ _ _ h (by omega)

theorem run_nil (chk : Bool) (st : PSt) : run chk [] st = finish chk st := rfl

theorem run_colon (chk : Bool) (cs : Str) (st : PSt) (h : st.hfil = none) :
    run chk (':' :: cs) st = run chk cs { st with hfil := some st.i } := by
  unfold run
  simp only [List.length_cons, loop, if_true, h, Option.isSome_none]
  exact loop_eq_run chk _ _ _ (by omega)

theorem groupOk_cons {g : Str} (h : groupOk g = true) : ∃ c cs, g = c :: cs ∧ c ≠ ':' := by
  obtain ⟨h1, _, hh⟩ := (groupOk_iff g).mp h
  cases g with
  | nil => simp at h1
  | cons c cs =>
    refine ⟨c, cs, rfl, ?_⟩
    intro hc
    have := hh c (by simp)
    rw [hc, hexVal_colon] at this
    cases this

/-- `g:` followed by more text: the group is stored and the loop goes on behind the colon -/
theorem run_group_colon (chk : Bool) {g : Str} (hg : groupOk g = true) {ds : Str} (hds : ds ≠ []) {st : PSt}
    (hi : st.i < 8) : run chk (g ++ ':' :: ds) st = run chk ds (push st (groupVal g)) := by
  obtain ⟨c, cs, rfl, hc⟩ := groupOk_cons hg
  have hs := scanHex_groupOk hg (noHexHead_colon ds)
  unfold run
  simp only [List.cons_append, List.length_cons, loop, hc, if_false]
  rw [show c :: (cs ++ ':' :: ds) = (c :: cs) ++ ':' :: ds from rfl, hs]
  simp only [hds, ne_eq, not_false_eq_true, and_self, if_true, show ¬ st.i ≥ 8 by omega, if_false]
  exact loop_eq_run chk _ _ _ (by simp; omega)

/-- a group at the very end of the text -/
theorem run_group_end (chk : Bool) {g : Str} (hg : groupOk g = true) {st : PSt} (hi : st.i < 8) :
    run chk g st = finish chk (push st (groupVal g)) := by
  obtain ⟨c, cs, rfl, hc⟩ := groupOk_cons hg
  have hs := scanHex_groupOk hg noHexHead_nil
  rw [List.append_nil] at hs
  unfold run
  simp only [List.length_cons, loop, hc, if_false, hs, show ¬ st.i ≥ 8 by omega]

theorem dec8_cons (n : Nat) (hn : n < 256) : ∃ c cs, dec8 n = c :: cs ∧ c ≠ ':' :=
  groupOk_cons (groupOk_dec8 hn)

/-- a dotted quad at the end of the text (positions allowed by the C condition) -/
theorem run_quad (chk : Bool) {q : Nat × Nat × Nat × Nat} (hq : quadOk q = true) {st : PSt}
    (hi : st.i = 6 ∨ (st.i < 6 ∧ st.hfil.isSome = true)) :
    run chk (quadStr q) st =
      finish chk (push (push st (q.1 * 256 + q.2.1)) (q.2.2.1 * 256 + q.2.2.2)) := by
  have hp := parse4_quadStr hq noDigitHead_nil
  rw [List.append_nil] at hp
  obtain ⟨a, b, c, d⟩ := q
  have hq' := hq
  simp only [quadOk, Bool.and_eq_true, decide_eq_true_eq] at hq'
  obtain ⟨⟨⟨ha, hb⟩, hc⟩, hd⟩ := hq'
  obtain ⟨x, xs, hx, hxc⟩ := dec8_cons a ha
  have hs := scanHex_groupOk (groupOk_dec8 ha) (noHexHead_dot (dec8 b ++ '.' :: (dec8 c ++ '.' :: dec8 d)))
  unfold run
  simp only [quadStr] at hp hs ⊢
  rw [hx] at hp hs ⊢
  simp only [List.cons_append, List.length_cons, loop, hxc, if_false] at hp hs ⊢
  rw [hs]
  have h2 : ¬ (('.' : Char) = ':' ∧ dec8 b ++ '.' :: (dec8 c ++ '.' :: dec8 d) ≠ []) := by
    intro h; exact absurd h.1 (by decide)
  simp only [h2, if_false, hi, and_self, if_true, hp]
  congr 2
  · congr 1; omega
  · omega

/-! ## the `words[]` array: slots below `i` written, the rest never written -/

def blank (n : Nat) : List (Option Nat) := List.replicate n none

structure Shape (st : PSt) (vals : List Nat) : Prop where
  words : st.words = vals.map some ++ blank (8 - vals.length)
  i : st.i = vals.length
  le : vals.length ≤ 8

theorem shape_init : Shape initSt [] := ⟨rfl, rfl, by decide⟩

theorem set_written (vals : List Nat) (v : Nat) (x : Option Nat) (junk : List (Option Nat)) :
    (vals.map some ++ x :: junk).set vals.length (some v) = (vals ++ [v]).map some ++ junk := by
  induction vals with
  | nil => rfl
  | cons a as ih => simp only [List.map_cons, List.cons_append, List.length_cons, List.set_cons_succ, ih]

theorem shape_push {st : PSt} {vals : List Nat} (h : Shape st vals) (hlt : vals.length < 8) (v : Nat) :
    Shape (push st v) (vals ++ [v]) := by
  refine ⟨?_, ?_, ?_⟩
  · have e : 8 - vals.length = (8 - (vals ++ [v]).length) + 1 := by simp; omega
    simp only [push, h.words, h.i, e, blank, List.replicate_succ]
    exact set_written vals v none _
  · simp [push, h.i]
  · simp; omega

theorem push_hfil (st : PSt) (v : Nat) : (push st v).hfil = st.hfil := rfl
theorem push_i (st : PSt) (v : Nat) : (push st v).i = st.i + 1 := rfl

def pushAll (st : PSt) (vs : List Nat) : PSt := vs.foldl push st

theorem pushAll_hfil (vs : List Nat) : ∀ st : PSt, (pushAll st vs).hfil = st.hfil := by
  induction vs with
  | nil => intro st; rfl
  | cons v vs ih => intro st; simp only [pushAll, List.foldl_cons] at ih ⊢; rw [ih, push_hfil]

theorem pushAll_i (vs : List Nat) : ∀ st : PSt, (pushAll st vs).i = st.i + vs.length := by
  induction vs with
  | nil => intro st; rfl
  | cons v vs ih => intro st; simp only [pushAll, List.foldl_cons, List.length_cons] at ih ⊢; rw [ih, push_i]; omega

theorem shape_pushAll (vs : List Nat) : ∀ {st : PSt} {vals : List Nat}, Shape st vals → vals.length + vs.length ≤ 8 →
    Shape (pushAll st vs) (vals ++ vs) := by
  induction vs with
  | nil => intro st vals h _; simpa [pushAll] using h
  | cons v vs ih =>
    intro st vals h hl
    simp only [List.length_cons] at hl
    have := ih (shape_push h (by omega) v) (by simp; omega)
    simpa [pushAll] using this

/-! ## runs of groups -/

/-- every group followed by a colon -/
def colonTerm (gs : List Str) : Str := gs.flatMap (· ++ [':'])

theorem colonTerm_cons (g : Str) (gs : List Str) (t : Str) :
    colonTerm (g :: gs) ++ t = g ++ ':' :: (colonTerm gs ++ t) := by
  simp [colonTerm]

theorem joinC_snoc (gs : List Str) (t : Str) : joinC (gs ++ [t]) = colonTerm gs ++ t := by
  induction gs with
  | nil => simp [joinC, colonTerm]
  | cons g gs ih =>
    rw [colonTerm_cons, ← ih]
    cases gs with
    | nil => simp [joinC]
    | cons h r => simp [joinC]

theorem run_groups (chk : Bool) (gs : List Str) : ∀ (t : Str) (st : PSt), (∀ g ∈ gs, groupOk g = true) → t ≠ [] →
    st.i + gs.length ≤ 8 → run chk (colonTerm gs ++ t) st = run chk t (pushAll st (gs.map groupVal)) := by
  induction gs with
  | nil => intro t st _ _ _; simp [colonTerm, pushAll]
  | cons g gs ih =>
    intro t st hg ht hl
    simp only [List.length_cons] at hl
    rw [colonTerm_cons, run_group_colon chk (hg g (by simp)) (by simp [ht]) (by omega)]
    rw [ih t _ (fun g' h' => hg g' (by simp [h'])) ht (by rw [push_i]; omega)]
    simp [pushAll]

/-! ## after the loop -/

theorem readAll_written (vals : List Nat) : readAll (vals.map some) = some vals := by
  induction vals with
  | nil => rfl
  | cons a as ih => simp [readAll, ih]

/-- no `::`: accepted exactly when eight words were written (repaired code) -/
theorem finish_nogap (chk : Bool) {st : PSt} {vals : List Nat} (h : Shape st vals) (hh : st.hfil = none)
    (h8 : vals.length = 8) : finish chk st = .ok vals := by
  have hw : st.words = vals.map some := by rw [h.words, h8]; simp [blank]
  have hi : st.i = 8 := by rw [h.i, h8]
  simp [finish, hh, hi, out, hw, readAll_written]

theorem finish_nogap_short {st : PSt} (hh : st.hfil = none) (h8 : st.i ≠ 8) : finish true st = .reject := by
  simp [finish, hh, h8]

/-- `::` expansion: the words before the gap stay, the gap is filled with zeros, the words after it
    are moved to the end -/
theorem finish_gap_aux (chk : Bool) (pre post : List Nat) (h : pre.length + post.length ≤ 8) :
    finish chk ⟨pre.length + post.length, some pre.length,
        (pre ++ post).map some ++ blank (8 - (pre ++ post).length)⟩ =
      .ok (pre ++ List.replicate (8 - (pre.length + post.length)) 0 ++ post) := by
  rcases pre with _ | ⟨a0, _ | ⟨a1, _ | ⟨a2, _ | ⟨a3, _ | ⟨a4, _ | ⟨a5, _ | ⟨a6, _ | ⟨a7, _ | ⟨a8, pre⟩⟩⟩⟩⟩⟩⟩⟩⟩ <;>
  rcases post with _ | ⟨b0, _ | ⟨b1, _ | ⟨b2, _ | ⟨b3, _ | ⟨b4, _ | ⟨b5, _ | ⟨b6, _ | ⟨b7, _ | ⟨b8, post⟩⟩⟩⟩⟩⟩⟩⟩⟩ <;>
  first
    | rfl
    | (exfalso; simp only [List.length_cons, List.length_nil] at h; omega)

theorem finish_gap (chk : Bool) {st : PSt} (pre post : List Nat) (h : Shape st (pre ++ post))
    (hh : st.hfil = some pre.length) :
    finish chk st = .ok (pre ++ List.replicate (8 - (pre.length + post.length)) 0 ++ post) := by
  have hl := h.le
  simp only [List.length_append] at hl
  have := finish_gap_aux chk pre post hl
  rw [← this]
  congr 1
  obtain ⟨i, hf, w⟩ := st
  simp only at hh
  have h1 := h.i
  have h2 := h.words
  simp only [List.length_append] at h1
  simp only at h1 h2
  subst h1 hh h2
  rfl

end Rtr.IpText
