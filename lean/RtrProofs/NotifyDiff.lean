/-
  NotifyDiff: the atomic reload of the prefix table
  (`pfx_table_copy_except_socket`, `pfx_table_swap`, `pfx_table_notify_diff` of
  rtrlib/pfx/trie/trie-pfx.c, driven by `rtr_sync_receive_and_store_pdus` of
  rtrlib/rtr/packets.c) refines the set of records, and the callback log of the live table gains
  exactly the net difference.  Helper lemmas only; the property theorems are in RtrProps/C09b.
-/
import RtrProofs.TableSet

namespace Rtr
open PfxTable

/-! ## general facts about well-formed tables -/

/-- the enumeration of a well-formed table has no repeated record (same statement as
    `C02.forEach_enumerates`, restated here so that this file stays below RtrProps) -/
theorem recs_nodup (T : PfxTable) (h : TableWF T) : T.recs.Nodup := by
  unfold PfxTable.recs recs4 recs6
  rw [trieRecs_eq, trieRecs_eq, List.nodup_append]
  refine ⟨?_, ?_, ?_⟩
  · exact List.Pairwise.map _ (fun a b hab e => hab (toRec_inj false a b e)) (WF_elems_nodup 32 _ 0 h.w4)
  · exact List.Pairwise.map _ (fun a b hab e => hab (toRec_inj true a b e)) (WF_elems_nodup 128 _ 0 h.w6)
  · intro a ha b hb e
    subst e
    simp only [List.mem_map] at ha hb
    obtain ⟨x, _, hx⟩ := ha
    obtain ⟨y, _, hy⟩ := hb
    have : (toRec false x).v6 = (toRec true y).v6 := by rw [hx, hy]
    simp [toRec, mkRec] at this

/-- every record stored in a well-formed table has a well-formed prefix -/
theorem recOK_of_mem (T : PfxTable) (h : TableWF T) (r : Rec) (hr : r ∈ T.recs) : RecOK r := by
  rw [mem_recs, mem_elems_iff] at hr
  obtain ⟨c, hc, h1, h2, _⟩ := hr
  have ok := (All_iff _).1 (WF_nodeOK _ _ 0 (root_WF T r.v6 h)) c hc
  have hw : r.width = (if r.v6 then 128 else 32) := rfl
  unfold RecOK
  rw [hw, ← h1, ← h2]
  exact ⟨ok.1, ok.2.1, ok.2.2.1⟩

theorem perm_filter_of_mem_iff {l1 l2 : List Rec} (p q : Rec → Bool) (n1 : l1.Nodup) (n2 : l2.Nodup)
    (h : ∀ x, (x ∈ l1 ∧ p x = true) ↔ (x ∈ l2 ∧ q x = true)) : (l1.filter p).Perm (l2.filter q) := by
  refine (List.perm_ext_iff_of_nodup (n1.sublist List.filter_sublist) (n2.sublist List.filter_sublist)).2 ?_
  intro x
  rw [List.mem_filter, List.mem_filter]
  exact h x

theorem recs_of_roots (A B : PfxTable) (h4 : A.v4 = B.v4) (h6 : A.t6 = B.t6) : A.recs = B.recs := by
  simp [PfxTable.recs, recs4, recs6, h4, h6]

theorem WF_of_roots (A B : PfxTable) (h4 : A.v4 = B.v4) (h6 : A.t6 = B.t6) (h : TableWF B) : TableWF A :=
  ⟨by rw [h4]; exact h.w4, by rw [h6]; exact h.w6⟩

/-! ## a guarded sequence of `pfx_table_add` (the copy callback, the storing of new records) -/

/-- one callback invocation of `pfx_table_copy_cb` (guard `p` = "not from the excluded socket"):
    the accumulator is the destination and the sticky error flag -/
def addStep (p : Rec → Bool) (acc : PfxTable × Bool) (r : Rec) : PfxTable × Bool :=
  if p r then
    let (D', rc) := acc.1.add r
    (D', acc.2 || rc != .success)
  else acc

structure AddPassOK (p : Rec → Bool) (D : PfxTable) (rs : List Rec) (res : PfxTable × Bool) : Prop where
  wf : TableWF res.1
  noerr : res.2 = false
  recs : res.1.recs.Perm (rs.filter p ++ D.recs)
  cb : res.1.hasCb = D.hasCb
  log : res.1.log = (if D.hasCb then D.log ++ (rs.filter p).map (fun r => (true, r)) else D.log)

/-- adding, under a guard, pairwise distinct well-formed records none of which is present:
    every add succeeds, the destination gains exactly the guarded records -/
theorem addPass_spec (p : Rec → Bool) : ∀ (rs : List Rec) (D : PfxTable), TableWF D → rs.Nodup →
    (∀ r ∈ rs, RecOK r) → (∀ r ∈ rs, r ∉ D.recs) → AddPassOK p D rs (rs.foldl (addStep p) (D, false)) := by
  intro rs
  induction rs with
  | nil =>
    intro D h _ _ _
    refine ⟨h, rfl, by simp, rfl, by cases D.hasCb <;> simp⟩
  | cons r rs ih =>
    intro D h nd hok hnot
    rw [List.nodup_cons] at nd
    rw [List.foldl_cons]
    by_cases hp : p r = true
    · have a := add_spec D r h (hok r (by simp))
      obtain ⟨h1, h2, h3, h4⟩ := a.ok (hnot r (by simp))
      have e : addStep p (D, false) r = ((D.add r).1, false) := by
        simp [addStep, hp, h1]
      rw [e]
      have hnot' : ∀ x ∈ rs, x ∉ (D.add r).1.recs := by
        intro x hx hin
        rcases List.mem_cons.1 (h2.mem_iff.1 hin) with rfl | hin'
        · exact nd.1 hx
        · exact hnot x (List.mem_cons_of_mem _ hx) hin'
      have s := ih (D.add r).1 a.wf nd.2 (fun x hx => hok x (List.mem_cons_of_mem _ hx)) hnot'
      refine ⟨s.wf, s.noerr, ?_, by rw [s.cb, h4], ?_⟩
      · rw [List.filter_cons_of_pos hp]
        refine s.recs.trans ?_
        refine (List.Perm.append_left _ h2).trans ?_
        exact List.perm_middle
      · rw [s.log, h4, h3, List.filter_cons_of_pos hp]
        cases D.hasCb <;> simp
    · have e : addStep p (D, false) r = (D, false) := by
        simp [addStep, hp]
      rw [e]
      have s := ih D h nd.2 (fun x hx => hok x (List.mem_cons_of_mem _ hx))
        (fun x hx => hnot x (List.mem_cons_of_mem _ hx))
      have fe : (r :: rs).filter p = rs.filter p := List.filter_cons_of_neg hp
      exact ⟨s.wf, s.noerr, by rw [fe]; exact s.recs, s.cb, by rw [fe]; exact s.log⟩

/-! ## pfx_table_copy_except_socket -/

theorem copyExcept_eq (S D : PfxTable) (src : Nat) : copyExcept S D src =
    (let p1 := S.recs4.foldl (addStep (fun r => r.src != src)) (D, false)
     if p1.2 then (p1.1, .error) else
     let p2 := S.recs6.foldl (addStep (fun r => r.src != src)) (p1.1, false)
     if p2.2 then (p2.1, .error) else (p2.1, .success)) := rfl

structure CopyOK (S D : PfxTable) (src : Nat) (res : PfxTable × PfxRc) : Prop where
  rc : res.2 = .success
  wf : TableWF res.1
  recs : res.1.recs.Perm (S.recs.filter fun r => r.src != src)
  cb : res.1.hasCb = D.hasCb
  log : res.1.log = (if D.hasCb then D.log ++ (S.recs.filter fun r => r.src != src).map (fun r => (true, r)) else D.log)

/-- copying a well-formed table into an empty one succeeds (the source's records are pairwise
    distinct, so no add can answer "duplicate") and yields exactly the records of the other
    sources -/
theorem copyExcept_spec (S D : PfxTable) (src : Nat) (hS : TableWF S) (hD : TableWF D) (hE : D.recs = []) :
    CopyOK S D src (copyExcept S D src) := by
  have nd := recs_nodup S hS
  have nd' := nd
  unfold PfxTable.recs at nd'
  rw [List.nodup_append] at nd'
  obtain ⟨nd4, nd6, dis⟩ := nd'
  have ok4 : ∀ r ∈ S.recs4, RecOK r := fun r hr => recOK_of_mem S hS r (by unfold PfxTable.recs; simp [hr])
  have ok6 : ∀ r ∈ S.recs6, RecOK r := fun r hr => recOK_of_mem S hS r (by unfold PfxTable.recs; simp [hr])
  have s1 := addPass_spec (fun r => r.src != src) S.recs4 D hD nd4 ok4 (by intro r _; rw [hE]; simp)
  rw [copyExcept_eq]
  generalize S.recs4.foldl (addStep (fun r => r.src != src)) (D, false) = p1 at s1
  obtain ⟨D1, e1⟩ := p1
  have he1 : e1 = false := s1.noerr
  subst he1
  simp only [Bool.false_eq_true, if_false]
  have hnot : ∀ r ∈ S.recs6, r ∉ D1.recs := by
    intro r hr hin
    have := s1.recs.mem_iff.1 hin
    rw [hE, List.append_nil, List.mem_filter] at this
    exact dis r this.1 r hr rfl
  have s2 := addPass_spec (fun r => r.src != src) S.recs6 D1 s1.wf nd6 ok6 hnot
  generalize S.recs6.foldl (addStep (fun r => r.src != src)) (D1, false) = p2 at s2
  obtain ⟨D2, e2⟩ := p2
  have he2 : e2 = false := s2.noerr
  subst he2
  simp only [Bool.false_eq_true, if_false]
  refine ⟨rfl, s2.wf, ?_, by rw [s2.cb, s1.cb], ?_⟩
  · refine s2.recs.trans ?_
    unfold PfxTable.recs
    rw [List.filter_append]
    have := s1.recs
    rw [hE, List.append_nil] at this
    exact (List.Perm.append_left _ this).trans List.perm_append_comm
  · have h1 := s1.log
    have h2 := s2.log
    have c1 := s1.cb
    simp only at h1 h2 c1
    rw [h2, c1, h1]
    unfold PfxTable.recs
    cases D.hasCb <;> simp [List.filter_append]

/-! ## pfx_table_swap -/

theorem swap_fst (A B : PfxTable) : (swap A B).1.v4 = B.v4 ∧ (swap A B).1.t6 = B.t6 ∧
    (swap A B).1.hasCb = A.hasCb ∧ (swap A B).1.log = A.log := ⟨rfl, rfl, rfl, rfl⟩

theorem swap_snd (A B : PfxTable) : (swap A B).2.v4 = A.v4 ∧ (swap A B).2.t6 = A.t6 ∧
    (swap A B).2.hasCb = B.hasCb ∧ (swap A B).2.log = B.log := ⟨rfl, rfl, rfl, rfl⟩

/-! ## pfx_table_notify_diff -/

/-- one invocation of `pfx_table_notify_diff_cb` in the first phase (`added == true`): records
    of other sockets are skipped; a record of the socket is removed from the old table, and is
    reported as added when that removal fails -/
def ndStep (src : Nat) (st : PfxTable × PfxTable) (r : Rec) : PfxTable × PfxTable :=
  if r.src == src then
    let (O', rc) := st.2.remove r
    if rc != .success then (st.1.notify true r, O') else (st.1, O')
  else st

theorem notifyDiff_eq (N O : PfxTable) (src : Nat) : notifyDiff N O src =
    (let st2 := N.recs.foldl (ndStep src) (N, { O with hasCb := false })
     let N4 := st2.1.notifyAll false (st2.2.recs.filter fun r => r.src == src)
     (N4, { st2.2 with hasCb := O.hasCb })) := by
  unfold notifyDiff notifyAll PfxTable.recs
  simp only [List.foldl_append, List.filter_append]
  rfl

/-- the "added" records of a reload: of the socket, enumerated by the new table, absent from the old -/
def addedBy (src : Nat) (news olds : List Rec) : List Rec :=
  news.filter fun r => r.src == src && !decide (r ∈ olds)

structure NdPassOK (src : Nat) (N O : PfxTable) (rs : List Rec) (res : PfxTable × PfxTable) : Prop where
  nv4 : res.1.v4 = N.v4
  nt6 : res.1.t6 = N.t6
  ncb : res.1.hasCb = N.hasCb
  nlog : res.1.log = (if N.hasCb then N.log ++ (addedBy src rs O.recs).map (fun r => (true, r)) else N.log)
  owf : TableWF res.2
  ocb : res.2.hasCb = false
  olog : res.2.log = O.log
  omem : ∀ x, x ∈ res.2.recs ↔ (x ∈ O.recs ∧ ¬ (x.src = src ∧ x ∈ rs))

theorem notify_fields (T : PfxTable) (b : Bool) (r : Rec) :
    (T.notify b r).v4 = T.v4 ∧ (T.notify b r).t6 = T.t6 ∧ (T.notify b r).hasCb = T.hasCb ∧
    (T.notify b r).log = (if T.hasCb then T.log ++ [(b, r)] else T.log) := by
  unfold notify; cases h : T.hasCb <;> simp [h]

/-- first phase of `pfx_table_notify_diff` over a duplicate-free enumeration `rs` of the new
    table: the new table's roots are untouched, it is told "added" for exactly the enumerated
    records of `src` that the old table does not hold (in enumeration order), and the old table
    (callback disabled) loses exactly the enumerated records of `src` -/
theorem ndPass_spec (src : Nat) : ∀ (rs : List Rec) (N O : PfxTable), TableWF O → O.hasCb = false → rs.Nodup →
    NdPassOK src N O rs (rs.foldl (ndStep src) (N, O)) := by
  intro rs
  induction rs with
  | nil =>
    intro N O h hcb _
    refine ⟨rfl, rfl, rfl, by cases N.hasCb <;> simp [addedBy], h, hcb, rfl, by simp⟩
  | cons r rs ih =>
    intro N O h hcb nd
    rw [List.nodup_cons] at nd
    rw [List.foldl_cons]
    by_cases hs : (r.src == src) = true
    · have hs' : r.src = src := by simpa using hs
      have rm := remove_spec O r h
      have ndO := recs_nodup O h
      by_cases hin : r ∈ O.recs
      · obtain ⟨h1, h2, h3, h4⟩ := rm.ok hin
        have e : ndStep src (N, O) r = (N, (O.remove r).1) := by
          simp [ndStep, hs', h1]
        rw [e]
        have hcb' : (O.remove r).1.hasCb = false := by rw [h4, hcb]
        have s := ih N (O.remove r).1 rm.wf hcb' nd.2
        have rnot : r ∉ (O.remove r).1.recs := by
          have := (h2.nodup_iff.1 ndO)
          exact (List.nodup_cons.1 this).1
        have memO : ∀ x, x ∈ O.recs ↔ (x = r ∨ x ∈ (O.remove r).1.recs) := by
          intro x; rw [h2.mem_iff, List.mem_cons]
        have fe : addedBy src (r :: rs) O.recs = addedBy src rs (O.remove r).1.recs := by
          unfold addedBy
          rw [List.filter_cons_of_neg (by simp [hin])]
          apply List.filter_congr
          intro x hx
          have xne : x ≠ r := fun e => nd.1 (e ▸ hx)
          have : x ∈ O.recs ↔ x ∈ (O.remove r).1.recs := by rw [memO x]; simp [xne]
          simp [this]
        refine ⟨s.nv4, s.nt6, s.ncb, by rw [s.nlog, fe], s.owf, s.ocb, ?_, ?_⟩
        · rw [s.olog, h3, hcb]; simp
        · intro x
          rw [s.omem x, memO x, List.mem_cons]
          constructor
          · rintro ⟨hx, hn⟩
            refine ⟨Or.inr hx, ?_⟩
            rintro ⟨hsx, hx' | hx'⟩
            · exact rnot (hx' ▸ hx)
            · exact hn ⟨hsx, hx'⟩
          · rintro ⟨hx | hx, hn⟩
            · exact absurd ⟨hx ▸ hs', Or.inl hx⟩ hn
            · exact ⟨hx, fun hh => hn ⟨hh.1, Or.inr hh.2⟩⟩
      · obtain ⟨h1, h2⟩ := rm.nf hin
        have e : ndStep src (N, O) r = (N.notify true r, O) := by
          have : ndStep src (N, O) r = (N.notify true r, (O.remove r).1) := by
            simp [ndStep, hs', h1]
          rw [this, h2]
        rw [e]
        obtain ⟨f1, f2, f3, f4⟩ := notify_fields N true r
        have s := ih (N.notify true r) O h hcb nd.2
        have fe : addedBy src (r :: rs) O.recs = r :: addedBy src rs O.recs := by
          unfold addedBy
          rw [List.filter_cons_of_pos (by simp [hin, hs'])]
        refine ⟨by rw [s.nv4, f1], by rw [s.nt6, f2], by rw [s.ncb, f3], ?_, s.owf, s.ocb, s.olog, ?_⟩
        · rw [s.nlog, f3, f4, fe]
          cases N.hasCb <;> simp
        · intro x
          rw [s.omem x, List.mem_cons]
          constructor
          · rintro ⟨hx, hn⟩
            refine ⟨hx, ?_⟩
            rintro ⟨hsx, hx' | hx'⟩
            · exact hin (hx' ▸ hx)
            · exact hn ⟨hsx, hx'⟩
          · rintro ⟨hx, hn⟩
            exact ⟨hx, fun hh => hn ⟨hh.1, Or.inr hh.2⟩⟩
    · have hs' : ¬ r.src = src := by simpa using hs
      have e : ndStep src (N, O) r = (N, O) := by simp [ndStep, hs']
      rw [e]
      have s := ih N O h hcb nd.2
      have fe : addedBy src (r :: rs) O.recs = addedBy src rs O.recs := by
        unfold addedBy
        rw [List.filter_cons_of_neg (by simp [hs'])]
      refine ⟨s.nv4, s.nt6, s.ncb, by rw [s.nlog, fe], s.owf, s.ocb, s.olog, ?_⟩
      intro x
      rw [s.omem x, List.mem_cons]
      constructor
      · rintro ⟨hx, hn⟩
        refine ⟨hx, ?_⟩
        rintro ⟨hsx, hx' | hx'⟩
        · exact hs' (hx' ▸ hsx)
        · exact hn ⟨hsx, hx'⟩
      · rintro ⟨hx, hn⟩
        exact ⟨hx, fun hh => hn ⟨hh.1, Or.inr hh.2⟩⟩

structure NotifyDiffOK (N O : PfxTable) (src : Nat) (res : PfxTable × PfxTable) : Prop where
  v4 : res.1.v4 = N.v4
  t6 : res.1.t6 = N.t6
  cb : res.1.hasCb = N.hasCb
  /-- "added" entries: exactly `addedBy src N.recs O.recs`, in the enumeration order of the new
      table; then "removed" entries: a permutation of `addedBy src O.recs N.recs` -/
  log : ∃ gone : List Rec, gone.Perm (addedBy src O.recs N.recs) ∧
        res.1.log = (if N.hasCb then N.log ++ (addedBy src N.recs O.recs).map (fun r => (true, r)) ++
                        gone.map (fun r => (false, r)) else N.log)
  owf : TableWF res.2
  ocb : res.2.hasCb = O.hasCb
  olog : res.2.log = O.log
  omem : ∀ x, x ∈ res.2.recs ↔ (x ∈ O.recs ∧ ¬ (x.src = src ∧ x ∈ N.recs))

/-- `pfx_table_notify_diff(new, old, socket)` for well-formed tables -/
theorem notifyDiff_spec (N O : PfxTable) (src : Nat) (hN : TableWF N) (hO : TableWF O) :
    NotifyDiffOK N O src (notifyDiff N O src) := by
  rw [notifyDiff_eq]
  have hO0 : TableWF ({ O with hasCb := false } : PfxTable) := ⟨hO.w4, hO.w6⟩
  have s := ndPass_spec src N.recs N { O with hasCb := false } hO0 rfl (recs_nodup N hN)
  generalize N.recs.foldl (ndStep src) (N, { O with hasCb := false }) = st2 at s
  obtain ⟨N2, O2⟩ := st2
  simp only
  have eO : ({ O with hasCb := false } : PfxTable).recs = O.recs := rfl
  have na := notifyAll_spec false (O2.recs.filter fun r => r.src == src) N2
  obtain ⟨a1, a2, a3, a4⟩ := na
  have s1 := s.nv4; have s2 := s.nt6; have s3 := s.ncb; have s4 := s.nlog
  have s5 := s.owf; have s6 := s.olog; have s7 := s.omem
  simp only [eO] at s1 s2 s3 s4 s5 s6 s7
  refine ⟨by rw [a1, s1], by rw [a2, s2], by rw [a3, s3], ?_, ⟨s5.w4, s5.w6⟩, rfl, s6, s7⟩
  refine ⟨O2.recs.filter fun r => r.src == src, ?_, ?_⟩
  · unfold addedBy
    refine perm_filter_of_mem_iff _ _ (recs_nodup O2 s5) (recs_nodup O hO) ?_
    intro x
    rw [s7 x]
    constructor
    · rintro ⟨⟨hx, hn⟩, hsx⟩
      have hsx' : x.src = src := by simpa using hsx
      have : x ∉ N.recs := fun hh => hn ⟨hsx', hh⟩
      exact ⟨hx, by simp [hsx', this]⟩
    · rintro ⟨hx, hq⟩
      simp only [Bool.and_eq_true, beq_iff_eq, Bool.not_eq_true', decide_eq_false_iff_not] at hq
      exact ⟨⟨hx, fun hh => hq.2 hh.2⟩, by simp [hq.1]⟩
  · rw [a4, s3, s4]
    cases N.hasCb <;> simp

/-! ## the atomic reload of one source's records -/

/-- The reload performed by `rtr_sync_receive_and_store_pdus` on a Reset/first synchronisation,
    in model terms: a shadow table without callback; the live table's records of all other
    sources are copied into it; the new records of `src` are added; the roots are swapped; the
    difference is reported on the live table; the shadow table (now holding the old roots) is
    dropped without notification.
    Result: ((live table, old table after notify_diff), every step succeeded). -/
def reloadFull (L : PfxTable) (src : Nat) (news : List Rec) : (PfxTable × PfxTable) × Bool :=
  let S0 : PfxTable := { hasCb := false }
  let c := copyExcept L S0 src
  let a := news.foldl (addStep (fun _ => true)) (c.1, false)
  let sw := swap L a.1
  (notifyDiff sw.1 sw.2 src, c.2 == .success && !a.2)

/-- the live table after the reload -/
def reload (L : PfxTable) (src : Nat) (news : List Rec) : PfxTable := (reloadFull L src news).1.1

/-- a data set a cache server may announce for `src` in one synchronisation: well-formed records
    of that source, pairwise distinct (a repeated announcement aborts the synchronisation) -/
def NewsOK (src : Nat) (news : List Rec) : Prop := news.Nodup ∧ ∀ r ∈ news, RecOK r ∧ r.src = src

structure ReloadOK (L : PfxTable) (src : Nat) (news : List Rec) (res : (PfxTable × PfxTable) × Bool) : Prop where
  /-- the copy and every add succeeded -/
  ok : res.2 = true
  wf : TableWF res.1.1
  recs : res.1.1.recs.Perm ((L.recs.filter fun r => r.src != src) ++ news)
  cb : res.1.1.hasCb = L.hasCb
  /-- one "added" per new record not held before, then one "removed" per record of `src` held
      before and not announced again -/
  log : ∃ added gone : List Rec,
        added.Perm (news.filter fun r => !decide (r ∈ L.recs)) ∧
        gone.Perm (L.recs.filter fun r => r.src == src && !decide (r ∈ news)) ∧
        res.1.1.log = (if L.hasCb then L.log ++ added.map (fun r => (true, r)) ++ gone.map (fun r => (false, r))
                        else L.log)
  /-- the table holding the old roots never saw a callback -/
  oldlog : res.1.2.log = [] ∧ res.1.2.hasCb = false
  oldwf : TableWF res.1.2

theorem reload_spec (L : PfxTable) (src : Nat) (news : List Rec) (hL : TableWF L) (hn : NewsOK src news) :
    ReloadOK L src news (reloadFull L src news) := by
  obtain ⟨nnd, nok⟩ := hn
  dsimp only [reloadFull]
  have hS0 : TableWF ({ hasCb := false } : PfxTable) := ⟨trivial, trivial⟩
  have c := copyExcept_spec L { hasCb := false } src hL hS0 rfl
  generalize copyExcept L { hasCb := false } src = cres at c
  obtain ⟨S1, rc⟩ := cres
  have c1 := c.rc; have c2 := c.wf; have c3 := c.recs; have c4 := c.cb; have c5 := c.log
  simp only at c1 c2 c3 c4 c5
  subst c1
  have hnot : ∀ r ∈ news, r ∉ S1.recs := by
    intro r hr hin
    have := (List.mem_filter.1 (c3.mem_iff.1 hin)).2
    simp [(nok r hr).2] at this
  have a := addPass_spec (fun _ => true) news S1 c2 nnd (fun r hr => (nok r hr).1) hnot
  generalize news.foldl (addStep (fun _ => true)) (S1, false) = ares at a
  obtain ⟨S2, e2⟩ := ares
  have ft : news.filter (fun _ => true) = news := by simp
  have a1 := a.wf; have a2 := a.noerr; have a3 := a.recs; have a4 := a.cb; have a5 := a.log
  simp only [ft] at a1 a2 a3 a4 a5
  subst a2
  have sf := swap_fst L S2
  have ss := swap_snd L S2
  generalize swap L S2 = sw at sf ss
  obtain ⟨Nn, Oo⟩ := sw
  obtain ⟨w1, w2, w3, w4⟩ := sf
  obtain ⟨x1, x2, x3, x4⟩ := ss
  simp only at w1 w2 w3 w4 x1 x2 x3 x4
  have hN : TableWF Nn := WF_of_roots _ S2 w1 w2 a1
  have hO : TableWF Oo := WF_of_roots _ L x1 x2 hL
  have eN : Nn.recs = S2.recs := recs_of_roots _ _ w1 w2
  have eO : Oo.recs = L.recs := recs_of_roots _ _ x1 x2
  have d := notifyDiff_spec Nn Oo src hN hO
  generalize notifyDiff Nn Oo src = dres at d
  obtain ⟨L', O'⟩ := dres
  have d1 := d.v4; have d2 := d.t6; have d3 := d.cb; have d4 := d.log
  have d5 := d.owf; have d6 := d.ocb; have d7 := d.olog
  simp only [eN, eO, w1, w2, w3, w4, x3, x4] at d1 d2 d3 d4 d5 d6 d7
  have eL' : L'.recs = S2.recs := recs_of_roots _ _ d1 d2
  have memS2 : ∀ x, x ∈ S2.recs ↔ (x ∈ news ∨ (x ∈ L.recs ∧ x.src ≠ src)) := by
    intro x
    rw [a3.mem_iff, List.mem_append, c3.mem_iff, List.mem_filter]
    simp
  refine ⟨by simp, WF_of_roots _ S2 d1 d2 a1, ?_, d3, ?_, ⟨?_, ?_⟩, d5⟩
  · rw [eL']
    exact a3.trans ((List.Perm.append_left _ c3).trans List.perm_append_comm)
  · obtain ⟨gone, g1, g2⟩ := d4
    refine ⟨addedBy src S2.recs L.recs, gone, ?_, g1.trans ?_, ?_⟩
    · unfold addedBy
      refine perm_filter_of_mem_iff _ _ (recs_nodup S2 a1) nnd ?_
      intro x
      rw [memS2 x]
      constructor
      · rintro ⟨hx, hq⟩
        simp only [Bool.and_eq_true, beq_iff_eq, Bool.not_eq_true', decide_eq_false_iff_not] at hq
        rcases hx with hx | hx
        · exact ⟨hx, by simp [hq.2]⟩
        · exact absurd hq.1 hx.2
      · rintro ⟨hx, hq⟩
        simp only [Bool.not_eq_true', decide_eq_false_iff_not] at hq
        exact ⟨Or.inl hx, by simp [(nok x hx).2, hq]⟩
    · unfold addedBy
      apply List.Perm.of_eq
      apply List.filter_congr
      intro x hx
      by_cases hsx : x.src = src
      · have : x ∈ S2.recs ↔ x ∈ news := by
          rw [memS2 x]; simp [hsx]
        simp [this]
      · have hb : (x.src == src) = false := by simpa using hsx
        simp [hb]
    · exact g2
  · rw [d7, a5, c4]; simp only [Bool.false_eq_true, if_false]
    rw [c5]; rfl
  · rw [d6, a4, c4]

end Rtr
