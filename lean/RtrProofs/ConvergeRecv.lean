/-
  ConvergeRecv: completeness of `rtr_receive_pdu` (model `receivePdu`) — the converse direction of
  `receivePdu_conn` / `receivePdu_out`: a complete, well-formed PDU at the head of a fault-free tape
  is handed to the caller, whatever the segmentation of the tape into chunks, and exactly its bytes
  are consumed.  Used by RtrProofs/ConvergeSync.lean and RtrProps/C08b.lean.
-/
import RtrProofs.Receive
import RtrProofs.Chunking

namespace Rtr.P

/-- the tape holds exactly `bytes` (in any segmentation into non-empty chunks) and nothing else: no
    transport fault, no clock advance -/
structure CvTape (n : Net) (bytes : List Nat) : Prop where
  ff : FaultFree n.tape
  eq : tapeBytes n.tape = bytes

/-- what successful recv calls on a fault-free tape leave alone: send script, open script, kind of
    run, clock; the trace only gains lines of recv calls (nothing is sent, no state callback) -/
structure CvRecvd (n n' : Net) : Prop where
  sendQ : n'.sendQ = n.sendQ
  openQ : n'.openQ = n.openQ
  threaded : n'.threaded = n.threaded
  now : n'.now = n.now
  trace : dropRecv n'.trace = dropRecv n.trace

theorem CvRecvd.refl (n : Net) : CvRecvd n n := ⟨rfl, rfl, rfl, rfl, rfl⟩

theorem CvRecvd.trans {a b c : Net} (h1 : CvRecvd a b) (h2 : CvRecvd b c) : CvRecvd a c :=
  ⟨h2.sendQ.trans h1.sendQ, h2.openQ.trans h1.openQ, h2.threaded.trans h1.threaded, h2.now.trans h1.now,
   h2.trace.trans h1.trace⟩

/-- `tr_recv_all(len)` on a fault-free tape that holds at least `len` bytes -/
theorem cv_recvAll (n : Net) (len : Nat) (timeout : Int) (a b : List Nat) (h : CvTape n (a ++ b))
    (hl : a.length = len) :
    ∃ n', recvAll n len timeout = ((len : Int), a, n', false) ∧ CvTape n' b ∧ CvRecvd n n' := by
  have hen : len ≤ (tapeBytes n.tape).length := by rw [h.eq, List.length_append]; omega
  obtain ⟨n', h1, _, h3, h4, h5⟩ := recvAll_chunking_quiet n len timeout h.ff.quiet hen
  obtain ⟨h6, h7⟩ := h5 h.ff
  refine ⟨n', ?_, ⟨h6, ?_⟩, ⟨h4.sendQ, h4.openQ, h4.threaded, h7, h4.trace⟩⟩
  · rw [h1, h.eq, List.take_left' hl]
  · rw [h3, h.eq, List.drop_left' hl]

/-- every PDU that passes the size check is at least a header long -/
theorem cv_checkSize_ge8 (raw : List Nat) (h : checkSize raw = true) : 8 ≤ lenOf raw := by
  rcases (checkSize_spec raw).1 h with h | h | h | h | h | h | h | h | h | h | h
  all_goals (first | (rw [h.2]; decide) | (rw [h.2.2]; decide) | (rw [h.2]; omega))

/-- the live downgrade only reads the first two bytes -/
theorem cv_downgraded_congr (c : Conn) (a b : List Nat) (hv : verOf a = verOf b) (ht : typeOf a = typeOf b) :
    downgraded c a = downgraded c b := by
  unfold downgraded
  rw [hv, ht]

/-- **completeness of `rtr_receive_pdu`**: a complete PDU `raw` (its length field is its length, it
    passes the size check and is not longer than the maximum PDU length) at the head of a fault-free
    tape, carrying the version the socket speaks (after the live downgrade, if this is the first
    PDU of the connection) or being an Error Report, is returned as `.ok raw`; exactly its bytes are
    consumed; no state change, no clock advance, nothing is sent. -/
theorem cv_receivePdu_complete (c : Conn) (n : Net) (own : Nat) (timeout : Int) (raw rest : List Nat)
    (hs : c.state ≠ .shutdown) (ht : CvTape n (raw ++ rest))
    (hlen : raw.length = lenOf raw) (hcs : checkSize raw = true) (hmax : lenOf raw ≤ Gen.RTR_MAX_PDU_LEN)
    (hv : verOf raw = (downgraded c raw).version ∨ typeOf raw = 10) :
    ∃ n', receivePdu c n own timeout = (.ok raw, downgraded c raw, n') ∧ CvTape n' rest ∧ CvRecvd n n' := by
  have h8 := cv_checkSize_ge8 raw hcs
  -- header and body
  have hsplit : raw = raw.take 8 ++ raw.drop 8 := (List.take_append_drop 8 raw).symm
  have hhl : (raw.take 8).length = 8 := by rw [List.length_take]; omega
  obtain ⟨f1, f2, f3⟩ := hdr_fields (raw.take 8) (raw.drop 8) hhl
  rw [← hsplit] at f1 f2 f3
  have hbl : (raw.drop 8).length = lenOf raw - 8 := by rw [List.length_drop]; omega
  have ht1 : CvTape n (raw.take 8 ++ (raw.drop 8 ++ rest)) := by
    rw [← List.append_assoc, ← hsplit]; exact ht
  obtain ⟨n1, r1, t1, s1⟩ := cv_recvAll n 8 timeout (raw.take 8) (raw.drop 8 ++ rest) ht1 hhl
  rw [receivePdu_eq, if_neg hs, r1]
  simp only
  have hnn : ¬ (((8 : Nat) : Int) < 0) := by omega
  rw [if_neg hnn]
  have hstop : applyStop c false = c := rfl
  rw [hstop]
  unfold recvStage2
  simp only
  rw [← f1]
  have hlt : ¬ lenOf raw < 8 := by omega
  have hgt : ¬ lenOf raw > Gen.RTR_MAX_PDU_LEN := by omega
  rw [if_neg hlt, if_neg hgt]
  have hdg : downgraded c (raw.take 8) = downgraded c raw := cv_downgraded_congr c _ _ f2.symm f3.symm
  rw [hdg, ← f2, ← f3]
  have hver : ¬ (verOf raw ≠ (downgraded c raw).version ∧ typeOf raw ≠ 10) := by
    rcases hv with h | h
    · exact fun x => x.1 h
    · exact fun x => x.2 h
  rw [if_neg hver]
  unfold recvStage3
  simp only
  rw [← f1]
  have hst : (downgraded c raw).state ≠ .shutdown := by rw [(downgraded_conn c raw).2.2]; exact hs
  have hsh : ¬ (lenOf raw - 8 > 0 ∧ (downgraded c raw).state = .shutdown) := fun x => hst x.2
  rw [if_neg hsh]
  by_cases hrem : lenOf raw - 8 > 0
  · obtain ⟨n2, r2, t2, s2⟩ := cv_recvAll n1 (lenOf raw - 8) Gen.RTR_RECV_TIMEOUT (raw.drop 8) rest t1 hbl
    rw [if_pos hrem, r2]
    simp only
    have hnn2 : ¬ (((lenOf raw - 8 : Nat) : Int) < 0) := by omega
    rw [if_neg hnn2, ← hsplit, hcs]
    exact ⟨n2, rfl, t2, s1.trans s2⟩
  · rw [if_neg hrem]
    simp only
    have hd : raw.drop 8 = [] := List.eq_nil_of_length_eq_zero (by omega)
    have hraw : raw.take 8 ++ [] = raw := by rw [← hd]; exact hsplit.symm
    have hnn2 : ¬ ((0 : Int) < 0) := by omega
    rw [if_neg hnn2, hraw, hcs]
    rw [hd, List.nil_append] at t1
    exact ⟨n1, rfl, t1, s1⟩

/-- the version handling for a PDU that carries the version the socket speaks: only the
    "first PDU seen" flag is set -/
theorem cv_downgraded_same (c : Conn) (raw : List Nat) (hv : verOf raw = c.version) :
    downgraded c raw = { c with hasReceived := true } := by
  unfold downgraded
  by_cases h : c.hasReceived = true
  · obtain ⟨s, v, r⟩ := c
    simp only at h
    subst h
    rfl
  · have h' : c.hasReceived = false := by simpa using h
    have hd : ¬ (c.version = 1 ∧ verOf raw = 0 ∧ typeOf raw ≠ 10) := by
      intro x; rw [hv] at x; omega
    simp only [h', Bool.not_false, if_true]
    rw [if_neg hd]

/-- the live downgrade: first PDU of the connection, the socket speaks version 1, the PDU (not an
    Error Report) carries version 0 -/
theorem cv_downgraded_down (c : Conn) (raw : List Nat) (h1 : c.hasReceived = false) (h2 : c.version = 1)
    (h3 : verOf raw = 0) (h4 : typeOf raw ≠ 10) :
    downgraded c raw = { c with version := 0, hasReceived := true } := by
  unfold downgraded
  simp only [h1, Bool.not_false, if_true]
  rw [if_pos ⟨h2, h3, h4⟩]

end Rtr.P
