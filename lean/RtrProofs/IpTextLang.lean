/-
  IpTextLang: every well-formed render (string of the RFC 4291 text language = what the model of
  `inet_pton` accepts) is parsed by the model of `lrtr_ipv6_str_to_addr` to the address it denotes.
-/
import RtrProofs.IpTextParse

namespace Rtr.IpText

theorem snoc_cases {α : Type} (l : List α) : l = [] ∨ ∃ init last, l = init ++ [last] := by
  induction l with
  | nil => exact Or.inl rfl
  | cons a l ih =>
    right
    rcases ih with h | ⟨init, last, h⟩
    · exact ⟨[], a, by simp [h]⟩
    · exact ⟨a :: init, last, by simp [h]⟩

theorem pushAll_append (st : PSt) (a b : List Nat) : pushAll st (a ++ b) = pushAll (pushAll st a) b := by
  simp [pushAll, List.foldl_append]

theorem quadStr_ne_nil (q : Nat × Nat × Nat × Nat) : quadStr q ≠ [] := by
  obtain ⟨a, b, c, d⟩ := q
  have := dec8_ne_nil a
  simp only [quadStr]
  cases h : dec8 a with
  | nil => exact absurd h this
  | cons x xs => simp

theorem groupOk_ne_nil {g : Str} (h : groupOk g = true) : g ≠ [] := by
  obtain ⟨c, cs, rfl, _⟩ := groupOk_cons h
  simp

/-- the items after the last colon-terminated position: groups, optionally closed by a dotted quad -/
theorem run_items (chk : Bool) (r : Render) (gs : List Str) (st : PSt)
    (hg : ∀ g ∈ gs, groupOk g = true)
    (hq : ∀ q, r.quad = some q → quadOk q = true ∧
        (st.i + gs.length = 6 ∨ (st.i + gs.length < 6 ∧ st.hfil.isSome = true)))
    (hl : st.i + gs.length ≤ 8) :
    run chk (joinC (gs ++ r.quadItems)) st = finish chk (pushAll st (gs.map groupVal ++ r.quadVals)) := by
  cases hquad : r.quad with
  | none =>
    simp only [Render.quadItems, Render.quadVals, hquad, List.append_nil]
    rcases snoc_cases gs with h | ⟨init, last, h⟩
    · subst h; simp [joinC, run_nil, pushAll]
    · subst h
      have hlast := hg last (by simp)
      simp only [List.length_append, List.length_cons, List.length_nil] at hl
      rw [joinC_snoc, run_groups chk init last st (fun g h => hg g (by simp [h])) (groupOk_ne_nil hlast) (by omega)]
      rw [run_group_end chk hlast (by rw [pushAll_i]; simp; omega)]
      simp [pushAll]
  | some q =>
    obtain ⟨hqo, hpos⟩ := hq q hquad
    simp only [Render.quadItems, Render.quadVals, hquad]
    rw [joinC_snoc, run_groups chk gs (quadStr q) st hg (quadStr_ne_nil q) hl]
    rw [run_quad chk hqo (by rw [pushAll_i, pushAll_hfil]; simpa using hpos)]
    simp [pushAll, quadWords]

theorem colonTerm_start (g : Str) (gs : List Str) (t : Str) (hg : groupOk g = true) :
    ∃ c cs', c ≠ ':' ∧ colonTerm (g :: gs) ++ t = c :: cs' := by
  obtain ⟨c, cs, rfl, hc⟩ := groupOk_cons hg
  exact ⟨c, cs ++ ':' :: (colonTerm gs ++ t), hc, by rw [colonTerm_cons]; rfl⟩

theorem parse6_nocolon (chk : Bool) {c : Char} (cs : Str) (hc : c ≠ ':') :
    parse6Core chk (c :: cs) = run chk (c :: cs) initSt := by
  unfold parse6Core
  split
  · rename_i rest h; injection h with h1 _; exact absurd h1 hc
  · rfl

theorem parse6_gap0 (chk : Bool) (tail : Str) :
    parse6Core chk (':' :: ':' :: tail) = run chk tail { initSt with hfil := some 0 } := by
  show loop chk _ (':' :: tail) initSt = _
  rw [loop_eq_run chk _ _ _ (by simp), run_colon chk tail initSt rfl]
  rfl

theorem wf_unpack {r : Render} (h : r.WF) :
    (∀ g ∈ r.pre, groupOk g = true) ∧ (∀ g ∈ r.post, groupOk g = true) ∧ (∀ q, r.quad = some q → quadOk q = true) ∧
    (if r.gap then r.count ≤ 7 else r.post = [] ∧ r.count = 8) := by
  unfold Render.WF Render.wfB at h
  simp only [Bool.and_eq_true, List.all_eq_true] at h
  obtain ⟨⟨⟨h1, h2⟩, h3⟩, h4⟩ := h
  refine ⟨h1, h2, ?_, ?_⟩
  · intro q hq; simpa [hq] using h3
  · cases hg : r.gap <;> simp [hg] at h4 ⊢ <;> exact h4

theorem quadVals_length (r : Render) : r.quadVals.length = if r.quad.isSome then 2 else 0 := by
  unfold Render.quadVals
  cases r.quad <;> simp [quadWords]

/-- **every string of the language is accepted with the value it denotes**, by the repaired
    (`chk = true`) and by the original (`chk = false`) parser alike -/
theorem parse6Core_accepts (chk : Bool) (r : Render) (h : r.WF) : parse6Core chk r.toString = .ok r.value := by
  obtain ⟨hpre, hpost, hquad, hcount⟩ := wf_unpack h
  have hqv := quadVals_length r
  cases hgap : r.gap with
  | false =>
    simp only [hgap] at hcount
    obtain ⟨hp, hc⟩ := hcount
    simp only [Render.count, hp, List.length_nil, Nat.add_zero] at hc
    simp only [Render.toString, Render.value, hgap, Bool.false_eq_true, if_false]
    -- the text starts with the first group
    have hne : r.pre ≠ [] := by
      intro e; rw [e] at hc; simp at hc; rw [hqv] at hc; split at hc <;> omega
    obtain ⟨g, gs, hgs⟩ := List.exists_cons_of_ne_nil hne
    obtain ⟨c, cs, hg, hcne⟩ := groupOk_cons (hpre g (by simp [hgs]))
    have hstart : ∃ cs', joinC (r.pre ++ r.quadItems) = c :: cs' := by
      rw [hgs, hg]
      cases h' : gs ++ r.quadItems with
      | nil => exact ⟨cs, by simp [h', joinC]⟩
      | cons x xs => exact ⟨cs ++ ':' :: joinC (x :: xs), by simp [h', joinC]⟩
    obtain ⟨cs', hs'⟩ := hstart
    rw [hs', parse6_nocolon chk cs' hcne, ← hs']
    rw [run_items chk r r.pre initSt hpre ?_ (by simp [initSt]; rw [hqv] at hc; split at hc <;> omega)]
    · have hsh : Shape (pushAll initSt (r.pre.map groupVal ++ r.quadVals)) ([] ++ (r.pre.map groupVal ++ r.quadVals)) :=
        shape_pushAll _ shape_init (by simp; omega)
      rw [List.nil_append] at hsh
      exact finish_nogap chk hsh (by rw [pushAll_hfil]; rfl) (by simp; omega)
    · intro q hq
      refine ⟨hquad q hq, Or.inl ?_⟩
      rw [hqv, hq] at hc
      simp [initSt] at hc ⊢; omega
  | true =>
    simp only [hgap, if_true] at hcount
    simp only [Render.count] at hcount
    simp only [Render.toString, Render.value, hgap, if_true, Render.count]
    -- state after the groups before `::` and the `::` itself
    let st1 : PSt := { pushAll initSt (r.pre.map groupVal) with hfil := some r.pre.length }
    have hreach : parse6Core chk (joinC r.pre ++ ':' :: ':' :: joinC (r.post ++ r.quadItems)) =
        run chk (joinC (r.post ++ r.quadItems)) st1 := by
      rcases snoc_cases r.pre with he | ⟨init, last, he⟩
      · simp only [st1, he, joinC, List.nil_append, List.map_nil, List.length_nil]
        exact parse6_gap0 chk _
      · have hlast := hpre last (by simp [he])
        have hinit : ∀ g ∈ init, groupOk g = true := fun g hg => hpre g (by simp [he, hg])
        have hall : ∀ g ∈ init ++ [last], groupOk g = true := by rw [← he]; exact hpre
        -- text = colonTerm pre ++ ':' :: tail
        have e1 : joinC r.pre ++ ':' :: ':' :: joinC (r.post ++ r.quadItems) =
            colonTerm (init ++ [last]) ++ ':' :: joinC (r.post ++ r.quadItems) := by
          rw [he, joinC_snoc]; simp [colonTerm]
        rw [e1]
        -- first character
        have hstart : ∃ c cs', c ≠ ':' ∧ colonTerm (init ++ [last]) ++ ':' :: joinC (r.post ++ r.quadItems) = c :: cs' := by
          cases init with
          | nil => exact colonTerm_start last [] _ hlast
          | cons g gs => exact colonTerm_start g (gs ++ [last]) _ (hinit g (by simp))
        obtain ⟨c, cs', hcne, hs'⟩ := hstart
        rw [hs', parse6_nocolon chk cs' hcne, ← hs']
        have hlen : (init ++ [last]).length ≤ 8 := by rw [← he]; omega
        rw [run_groups chk (init ++ [last]) _ initSt hall (by simp) (by simp [initSt] at hlen ⊢; omega)]
        rw [run_colon chk _ _ (by rw [pushAll_hfil]; rfl)]
        simp only [st1, he, pushAll_i, initSt, Nat.zero_add, List.length_map]
    rw [hreach]
    have hsh1 : Shape st1 (r.pre.map groupVal) := by
      have := shape_pushAll (r.pre.map groupVal) shape_init (by simp; omega)
      rw [List.nil_append] at this
      exact ⟨this.words, this.i, this.le⟩
    have hi1 : st1.i = r.pre.length := by rw [hsh1.i]; simp
    rw [run_items chk r r.post st1 hpost ?_ (by rw [hi1]; omega)]
    · have hsh : Shape (pushAll st1 (r.post.map groupVal ++ r.quadVals))
          (r.pre.map groupVal ++ (r.post.map groupVal ++ r.quadVals)) :=
        shape_pushAll _ hsh1 (by simp; omega)
      have := finish_gap chk (r.pre.map groupVal) (r.post.map groupVal ++ r.quadVals) hsh
        (by rw [pushAll_hfil]; simp [st1])
      rw [this]
      simp [Nat.add_assoc]
    · intro q hq
      refine ⟨hquad q hq, Or.inr ⟨?_, rfl⟩⟩
      rw [hqv, hq] at hcount
      rw [hi1]; simp at hcount; omega

end Rtr.IpText
