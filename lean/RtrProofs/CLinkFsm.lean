/-
  CLinkFsm: the socket state machine of rtrlib/rtr/rtr.c as translated by tools/gen_cfuns.py
  (RtrModel/Generated/CFuns.lean, regenerated from the current source on every run):

      C.rtr_purge_outdated_records      C.rtr_fsm_start.loop1.step   (ONE iteration of the `while (1)` of rtr_fsm_start)
      C.rtr_fsm_start.loop1 / C.rtr_fsm_start                        C.rtr_stop

  Every callee that is not translated (tr_open, tr_close, rtr_send_serial_query, rtr_send_reset_query, rtr_sync,
  rtr_wait_for_sync, rtr_change_socket_state, sleep, pfx_table_src_remove, spki_table_src_remove,
  pthread_setcancelstate, pthread_cancel, pthread_join, lrtr_get_monotonic_time) is an external call through
  `C.XWorld C.S_rtr_socket`: the world's next answer is (return value, auxiliary value = the time, socket afterwards), the
  call is appended to the trace with its scalar arguments and the socket at that moment.  So the translated functions are
  the CONTROL SKELETON of the state machine as written in C, over arbitrary behaviour of the callees; the trace is the
  observable.

  Specification (hand-written, this file): `purgeSpec`, `fsmIterSpec`, `stopSpec` - small programs in do-notation over
  four primitives (`FsmOps`): read the socket, assign fields (`Assign`), perform an external call (`XOp`, typed:
  `changeState (s : FsmState)`, `sleep seconds`, `cancelState enable`, ...), `undefined`.  They are written once, for any
  monad with these primitives.  `Script` runs them on a world's answers `ext n, ext (n+1), ...` and gives an `Outcome`: the
  calls made in order, each with the socket at that moment (`ops`), the index of the next unused answer, the socket
  afterwards - or nothing where the C text has no defined behaviour (`purgeScript`, `fsmIterScript`, `stopScript`).
  RtrProofs/CLinkFsmModel.lean runs the same programs over the state of the hand-written model, with the model's
  sub-operations as callees, and proves the result equal to the model's `fsmStep` / `purgeOutdated` / `stop`.

  Link (for ALL sockets and ALL worlds):
    * `rtr_purge_outdated_records_eq`, `rtr_fsm_step_eq`, `rtr_stop_eq`, `rtr_fsm_start_eq`
    * definedness: everything is total except the purge check: `purgeDefined` - unless the clock call failed (then the sum
      is not evaluated), `last_update + expire_interval` must not overflow `time_t` (signed 64-bit):
      `purge_undefined_iff`, `fsm_step_undefined_iff`

  What the skeleton guarantees, stated about the translated functions themselves:
    * `purge_no_data`, `purge_fresh`, `purge_expired`                       (C07)
    * `fsm_connecting`, `fsm_connecting_purges_first`                       (C07, C13)
    * `fsm_connecting_query_choice`, `fsm_connecting_open_fails`, `fsm_reset_query`     (C05)
    * `fsm_error_states_retry`, `fsm_no_data_retry`, `fsm_no_incr_retry`, `fsm_fast_reconnect`, `fsm_sync`,
      `fsm_established`, `fsm_every_iteration_calls_out`, `fsm_every_iteration_consumes`, `fsm_shutdown_exits`   (C08)
    * `fsm_closed_or_invalid_idles`, `fsm_closed_or_invalid_spins`: in state CLOSED or with a `state` value outside the
      enumeration no branch of the loop matches: the iteration returns world and socket untouched, without any call, and
      the translated loop has no result for any fuel (the C loop spins)
    * `stop_purges`, `stop_not_running`                                     (C07; the order of `stop_purges` - resets after
      the join - is what seed change C05_r1 broke)
    * `example`s: kernel evaluation (`decide`) of the translated functions on concrete worlds, the whole `rtr_fsm_start`
      with its full fuel included

  Robustness: each state is a lemma of its own (`step_connecting`, ...); its proof does not navigate the generated term:
  it unfolds both sides (`script_simp`), rewrites the tests of the state value by the value (`beq_of_eq`), and splits on
  the conditions of the SPECIFICATION (result of the purge check, return values, `request_session_id`).
-/
import RtrProofs.CLink
import RtrModel.Generated.Constants

namespace Rtr.CLink
open Rtr Rtr.Gen

/-! ## specification -/

abbrev Sock := C.S_rtr_socket
abbrev Ans := C.ExtAns Sock
abbrev XW := C.XWorld Sock

/-- `enum rtr_socket_state` -/
inductive FsmState
  | connecting | established | reset | sync | fastReconnect
  | errorNoDataAvail | errorNoIncrUpdateAvail | errorFatal | errorTransport
  | shutdown | closed
deriving DecidableEq, Repr

/-- the enumerator's value -/
def FsmState.code : FsmState → Nat
  | .connecting => 0 | .established => 1 | .reset => 2 | .sync => 3 | .fastReconnect => 4
  | .errorNoDataAvail => 5 | .errorNoIncrUpdateAvail => 6 | .errorFatal => 7 | .errorTransport => 8
  | .shutdown => 9 | .closed => 10

/-- the state a value of the `state` field stands for (`none`: outside the enumeration) -/
def FsmState.ofCode (v : BitVec 32) : Option FsmState :=
  match v.toNat with
  | 0 => some .connecting | 1 => some .established | 2 => some .reset | 3 => some .sync
  | 4 => some .fastReconnect | 5 => some .errorNoDataAvail | 6 => some .errorNoIncrUpdateAvail
  | 7 => some .errorFatal | 8 => some .errorTransport | 9 => some .shutdown | 10 => some .closed
  | _ => none

/-- all states, in the order of the enumeration -/
def FsmState.all : List FsmState :=
  [.connecting, .established, .reset, .sync, .fastReconnect, .errorNoDataAvail, .errorNoIncrUpdateAvail, .errorFatal,
   .errorTransport, .shutdown, .closed]

/-- the codes are the enumerators of the source tree (RtrModel/Generated/Constants.lean, regenerated from it) -/
theorem FsmState.code_eq_enum :
    FsmState.all.map (fun st => (st.code : Int)) =
      [RTR_CONNECTING, RTR_ESTABLISHED, RTR_RESET, RTR_SYNC, RTR_FAST_RECONNECT, RTR_ERROR_NO_DATA_AVAIL,
       RTR_ERROR_NO_INCR_UPDATE_AVAIL, RTR_ERROR_FATAL, RTR_ERROR_TRANSPORT, RTR_SHUTDOWN, RTR_CLOSED] := by decide

theorem FsmState.ofCode_code (st : FsmState) : FsmState.ofCode (BitVec.ofNat 32 st.code) = some st := by
  cases st <;> rfl

/-- the external calls of the state machine -/
inductive XOp
  | open | close
  | serialQuery | resetQuery | sync | waitForSync
  | changeState (s : FsmState)
  | sleep (seconds : BitVec 32)
  | pfxSrcRemove | spkiSrcRemove
  | cancelState (enable : Bool)
  | time
  | threadCancel | threadJoin
deriving DecidableEq, Repr

def XOp.name : XOp → String
  | .open => "tr_open" | .close => "tr_close"
  | .serialQuery => "rtr_send_serial_query" | .resetQuery => "rtr_send_reset_query"
  | .sync => "rtr_sync" | .waitForSync => "rtr_wait_for_sync"
  | .changeState _ => "rtr_change_socket_state"
  | .sleep _ => "sleep"
  | .pfxSrcRemove => "pfx_table_src_remove" | .spkiSrcRemove => "spki_table_src_remove"
  | .cancelState _ => "pthread_setcancelstate"
  | .time => "lrtr_get_monotonic_time"
  | .threadCancel => "pthread_cancel" | .threadJoin => "pthread_join"

/-- the scalar arguments the world records (PTHREAD_CANCEL_ENABLE = 0, PTHREAD_CANCEL_DISABLE = 1) -/
def XOp.args : XOp → List (BitVec 64)
  | .changeState s => [BitVec.ofNat 64 s.code]
  | .sleep secs => [secs.setWidth 64]
  | .cancelState enable => [if enable then 0#64 else 1#64]
  | _ => []

/-- the callees whose effect on the socket record the state machine sees -/
def XOp.handsBackSocket : XOp → Bool
  | .serialQuery | .resetQuery | .sync | .waitForSync | .changeState _ => true
  | _ => false

def XOp.record (c : XOp × Sock) : String × List (BitVec 64) × Sock := (c.1.name, c.1.args, c.2)

/-- a C `int` return value -/
def _root_.Rtr.Gen.C.ExtAns.ret (a : Ans) : BitVec 32 := a.rc.setWidth 32

/-- -1: `RTR_ERROR`, `TR_ERROR`, failure of `lrtr_get_monotonic_time` -/
abbrev minusOne : BitVec 32 := 4294967295#32
/-- 0: `RTR_SUCCESS` -/
abbrev success : BitVec 32 := 0#32

theorem ret_codes_eq_enum : minusOne.toInt = RTR_ERROR ∧ minusOne.toInt = TR_ERROR ∧ success.toInt = RTR_SUCCESS := by decide

/-- an assignment to a field of the socket made by the state machine itself -/
inductive Assign
  | hasReceivedPdus (v : Bool)
  | requestSessionId (v : Bool)
  | serialNumber (v : BitVec 32)
  | lastUpdate (v : BitVec 64)
  | isResetting (v : Bool)
  | threadId (v : BitVec 64)
  | state (v : FsmState)
deriving DecidableEq, Repr

def Assign.apply : Assign → Sock → Sock
  | .hasReceivedPdus v, s => { s with has_received_pdus := v }
  | .requestSessionId v, s => { s with request_session_id := v }
  | .serialNumber v, s => { s with serial_number := v }
  | .lastUpdate v, s => { s with last_update := v }
  | .isResetting v, s => { s with is_resetting := v }
  | .threadId v, s => { s with thread_id := v }
  | .state v, s => { s with state := BitVec.ofNat 32 v.code }

/-- the assignments, first to last -/
def assignAll (l : List Assign) (s : Sock) : Sock := l.foldl (fun s a => a.apply s) s

/-- what the state machine is written in: read the socket, assign fields, perform an external call; `undefined` where the
    C text has no defined behaviour.  The instance `Script` below answers the calls from a world (this is what the translated
    C functions are compared with); RtrProofs/CLinkFsmModel.lean answers them with the sub-operations of the hand-written
    model. -/
class FsmOps (m : Type → Type) where
  /-- read the socket -/
  sock : m Sock
  /-- assign fields of the socket -/
  assign : List Assign → m Unit
  /-- an external call and its answer (return value, auxiliary value = the time, socket as the callee left it) -/
  ask : XOp → m Ans
  /-- the C text has no defined behaviour here -/
  undefined {α : Type} : m α

export FsmOps (sock assign ask undefined)

section spec
variable {m : Type → Type} [Monad m] [FsmOps m]

/-- an external call whose result is not looked at -/
def call (op : XOp) : m Unit := do
  let _ ← ask op
  pure ()

/-- an external call returning an `int` -/
def callRc (op : XOp) : m (BitVec 32) := do
  let a ← ask op
  pure a.ret

/-- `rtr_purge_outdated_records` -/
def purgeSpec : m Unit := do
  let s ← sock
  if s.last_update = 0#64 then
    pure ()                                       -- holds no data: no call at all
  else
    let t ← ask .time                             -- lrtr_get_monotonic_time(&cur_time)
    let clockFailed : Bool := t.ret == minusOne
    if !clockFailed && BitVec.saddOverflow s.last_update (s.expire_interval.setWidth 64) then
      undefined                                   -- last_update + expire_interval overflows time_t
    else if clockFailed || (s.last_update + s.expire_interval.setWidth 64).slt t.aux then
      call .pfxSrcRemove
      call .spkiSrcRemove
      assign [.requestSessionId true, .serialNumber 0#32, .lastUpdate 0#64, .isResetting true]
    else
      pure ()

/-- what an iteration of the loop decides -/
inductive Iter | again | exit
deriving DecidableEq, Repr

/-- the two error states: close, reconnect after a cancellable sleep of retry_interval -/
def errorRetry : m Iter := do
  call .close
  call (.changeState .connecting)
  call (.cancelState true)
  let s ← sock                                    -- as rtr_change_socket_state left it
  call (.sleep s.retry_interval)
  call (.cancelState false)
  pure .again

/-- one iteration of the `while (1)` of `rtr_fsm_start` -/
def fsmIterSpec : m Iter := do
  let s ← sock
  match FsmState.ofCode s.state with
  | some .connecting =>
    assign [.hasReceivedPdus false]
    purgeSpec
    let opened ← callRc .open
    let s ← sock
    if opened == minusOne then
      call (.changeState .errorTransport)
    else if s.request_session_id then
      call (.changeState .reset)
    else
      let sent ← callRc .serialQuery
      if sent == success then call (.changeState .sync) else call (.changeState .errorFatal)
    pure .again
  | some .reset =>
    let sent ← callRc .resetQuery
    if sent == success then call (.changeState .sync) else pure ()
    pure .again
  | some .sync =>
    let synced ← callRc .sync
    if synced == success then call (.changeState .established) else pure ()
    pure .again
  | some .established =>
    call (.cancelState true)
    let woke ← callRc .waitForSync
    call (.cancelState false)
    if woke == success then
      let sent ← callRc .serialQuery
      if sent == success then call (.changeState .sync) else pure ()
    else pure ()
    pure .again
  | some .fastReconnect =>
    call .close
    call (.changeState .connecting)
    pure .again
  | some .errorNoDataAvail =>
    assign [.requestSessionId true, .serialNumber 0#32]
    call (.changeState .reset)
    let s ← sock
    call (.sleep s.retry_interval)
    purgeSpec
    pure .again
  | some .errorNoIncrUpdateAvail =>
    assign [.requestSessionId true, .serialNumber 0#32]
    call (.changeState .reset)
    purgeSpec
    pure .again
  | some .errorTransport => errorRetry
  | some .errorFatal => errorRetry
  | some .shutdown => pure .exit
  | some .closed => pure .again                   -- no branch of the loop: it goes round without a call
  | none => pure .again                           -- likewise for a value outside the enumeration

/-- `rtr_stop` -/
def stopSpec : m Unit := do
  call (.changeState .shutdown)
  let s ← sock
  if s.thread_id != 0#64 then
    call .threadCancel
    call .threadJoin
    call .close
    assign [.requestSessionId true, .serialNumber 0#32, .lastUpdate 0#64]
    call .pfxSrcRemove
    call .spkiSrcRemove
    assign [.threadId 0#64, .state .closed]
  else
    pure ()

end spec

/-! ## the specification over a world -/

/-- what a piece of the state machine did -/
structure Outcome (α : Type) where
  val : α
  /-- the socket afterwards -/
  sock : Sock
  /-- index of the first answer of the world not consumed -/
  next : Nat
  /-- the external calls made, in order, each with the socket at the moment of the call -/
  ops : List (XOp × Sock)

/-- a piece of the state machine over a world: given the world's answers (`ext i` = answer to the i-th external call), the
    index of the next answer and the socket, it yields the calls made and the socket afterwards - or nothing where the C text
    is undefined -/
def Script (α : Type) := (Nat → Ans) → Nat → Sock → Option (Outcome α)

namespace Script
protected def pure {α} (a : α) : Script α := fun _ n s => some ⟨a, s, n, []⟩
protected def bind {α β} (m : Script α) (f : α → Script β) : Script β := fun ext n s =>
  match m ext n s with
  | none => none
  | some o =>
    match f o.val ext o.next o.sock with
    | none => none
    | some o' => some ⟨o'.val, o'.sock, o'.next, o.ops ++ o'.ops⟩
instance : Monad Script := { pure := Script.pure, bind := Script.bind }

/-- the answer to an external call is the world's next one; the socket afterwards is the callee's for the callees that hand
    it back; the call is noted with the socket at that moment -/
instance : FsmOps Script where
  sock := fun _ n s => some ⟨s, s, n, []⟩
  assign l := fun _ n s => some ⟨(), assignAll l s, n, []⟩
  ask op := fun ext n s => some ⟨ext n, if op.handsBackSocket then (ext n).st else s, n + 1, [(op, s)]⟩
  undefined := fun _ _ _ => none

def run {α} (m : Script α) (w : XW) (s : Sock) : Option (Outcome α) := m w.ext w.n s
end Script

/-- the world after the calls of an outcome -/
def Outcome.world {α} (o : Outcome α) (w : XW) : XW :=
  { ext := w.ext, n := o.next, trace := w.trace ++ o.ops.map XOp.record }

/-- the three specifications over a world -/
abbrev purgeScript : Script Unit := purgeSpec
abbrev fsmIterScript : Script Iter := fsmIterSpec
abbrev stopScript : Script Unit := stopSpec

/-- what a purge resets -/
def purgeFields (s : Sock) : Sock :=
  { s with request_session_id := true, serial_number := 0#32, last_update := 0#64, is_resetting := true }

/-! ## link -/

theorem bind_apply {α β} (m : Script α) (f : α → Script β) (ext n s) :
    (m >>= f) ext n s = Script.bind m f ext n s := rfl
theorem pure_apply {α} (a : α) (ext n s) : (pure a : Script α) ext n s = some ⟨a, s, n, []⟩ := rfl

theorem sock_apply (ext n s) : (sock : Script Sock) ext n s = some ⟨s, s, n, []⟩ := rfl
theorem assign_apply (l ext n s) : (assign l : Script Unit) ext n s = some ⟨(), assignAll l s, n, []⟩ := rfl
theorem ask_apply (op : XOp) (ext n s) :
    (ask op : Script Ans) ext n s = some ⟨ext n, if op.handsBackSocket then (ext n).st else s, n + 1, [(op, s)]⟩ := rfl
theorem undefined_apply {α} (ext n s) : (undefined : Script α) ext n s = none := rfl

theorem ite_apply_script {α} (c : Prop) [Decidable c] (a b : Script α) (ext n s) :
    (if c then a else b) ext n s = if c then a ext n s else b ext n s := by
  split <;> rfl

theorem ret_fold (a : Ans) : BitVec.setWidth 32 a.rc = a.ret := rfl

/-- unfold scripts and external calls, with the given facts -/
local syntax "script_simp" "[" Lean.Parser.Tactic.simpLemma,* "]" : tactic
local macro_rules
  | `(tactic| script_simp [$ts,*]) => `(tactic|
      simp [Script.run, bind_apply, pure_apply, sock_apply, assign_apply, ask_apply, undefined_apply, ite_apply_script,
        Script.bind, call, callRc, assignAll, Assign.apply, C.xcall, Outcome.world, XOp.record, XOp.name, XOp.args, XOp.handsBackSocket, FsmState.code, ret_fold, $ts,*])

theorem rtr_purge_outdated_records_eq (w : XW) (s : Sock) :
    C.rtr_purge_outdated_records w s = (purgeScript.run w s).map fun o => (o.sock, o.world w) := by
  unfold C.rtr_purge_outdated_records purgeScript purgeSpec
  by_cases h0 : s.last_update = 0#64
  · script_simp [h0]
  · by_cases hc : (w.ext w.n).ret = 4294967295#32
    · script_simp [h0, hc, purgeFields]
    · by_cases hov : s.last_update.saddOverflow (BitVec.setWidth 64 s.expire_interval)
      · script_simp [h0, hc, hov]
      · by_cases hexp : (s.last_update + BitVec.setWidth 64 s.expire_interval).slt (w.ext w.n).aux
        · script_simp [h0, hc, hov, hexp, purgeFields]
        · script_simp [h0, hc, hov, hexp]


/-- the result of an iteration in the shape the translated loop body returns it -/
def stepResult (w : XW) (o : Outcome Iter) : C.Step (Nat × Sock × XW) (XW × Sock) :=
  match o.val with
  | .again => .next (o.world w, o.sock)
  | .exit => .done (C.NULL, o.sock, o.world w)

theorem beq_of_eq {v a : BitVec 32} (h : v = a) (b : BitVec 32) : (v == b) = (a == b) := by rw [h]


/-- the facts a state's proof starts from -/
local syntax "state_simp" "[" Lean.Parser.Tactic.simpLemma,* "]" : tactic
local macro_rules
  | `(tactic| state_simp [$ts,*]) => `(tactic|
      script_simp [rtr_purge_outdated_records_eq, stepResult, errorRetry, $ts,*])

theorem step_connecting (w : XW) (s : Sock) (h : s.state = 0#32) :
    C.rtr_fsm_start.loop1.step w s = (fsmIterScript.run w s).map (stepResult w) := by
  have hcode : FsmState.ofCode s.state = some .connecting := by rw [h]; rfl
  unfold C.rtr_fsm_start.loop1.step fsmIterScript fsmIterSpec
  rcases hp : purgeScript w.ext w.n { s with has_received_pdus := false } with _ | o
  · state_simp [beq_of_eq h, hcode, hp]
  · by_cases hopen : (w.ext o.next).ret = 4294967295#32
    · state_simp [beq_of_eq h, hcode, hp, hopen]
    · by_cases hreq : o.sock.request_session_id = true
      · state_simp [beq_of_eq h, hcode, hp, hopen, hreq]
      · by_cases hsent : (w.ext (o.next + 1)).ret = 0#32
        · state_simp [beq_of_eq h, hcode, hp, hopen, hreq, hsent]
        · state_simp [beq_of_eq h, hcode, hp, hopen, hreq, hsent]

theorem step_reset (w : XW) (s : Sock) (h : s.state = 2#32) :
    C.rtr_fsm_start.loop1.step w s = (fsmIterScript.run w s).map (stepResult w) := by
  have hcode : FsmState.ofCode s.state = some .reset := by rw [h]; rfl
  unfold C.rtr_fsm_start.loop1.step fsmIterScript fsmIterSpec
  by_cases hsent : (w.ext w.n).ret = 0#32
  · state_simp [beq_of_eq h, hcode, hsent]
  · state_simp [beq_of_eq h, hcode, hsent]

theorem step_sync (w : XW) (s : Sock) (h : s.state = 3#32) :
    C.rtr_fsm_start.loop1.step w s = (fsmIterScript.run w s).map (stepResult w) := by
  have hcode : FsmState.ofCode s.state = some .sync := by rw [h]; rfl
  unfold C.rtr_fsm_start.loop1.step fsmIterScript fsmIterSpec
  by_cases hsync : (w.ext w.n).ret = 0#32
  · state_simp [beq_of_eq h, hcode, hsync]
  · state_simp [beq_of_eq h, hcode, hsync]

theorem step_established (w : XW) (s : Sock) (h : s.state = 1#32) :
    C.rtr_fsm_start.loop1.step w s = (fsmIterScript.run w s).map (stepResult w) := by
  have hcode : FsmState.ofCode s.state = some .established := by rw [h]; rfl
  unfold C.rtr_fsm_start.loop1.step fsmIterScript fsmIterSpec
  by_cases hwoke : (w.ext (w.n + 1)).ret = 0#32
  · by_cases hsent : (w.ext (w.n + 1 + 1 + 1)).ret = 0#32
    · state_simp [beq_of_eq h, hcode, hwoke, hsent]
    · state_simp [beq_of_eq h, hcode, hwoke, hsent]
  · state_simp [beq_of_eq h, hcode, hwoke]

theorem step_fastReconnect (w : XW) (s : Sock) (h : s.state = 4#32) :
    C.rtr_fsm_start.loop1.step w s = (fsmIterScript.run w s).map (stepResult w) := by
  have hcode : FsmState.ofCode s.state = some .fastReconnect := by rw [h]; rfl
  unfold C.rtr_fsm_start.loop1.step fsmIterScript fsmIterSpec
  state_simp [beq_of_eq h, hcode]

theorem step_errorNoDataAvail (w : XW) (s : Sock) (h : s.state = 5#32) :
    C.rtr_fsm_start.loop1.step w s = (fsmIterScript.run w s).map (stepResult w) := by
  have hcode : FsmState.ofCode s.state = some .errorNoDataAvail := by rw [h]; rfl
  unfold C.rtr_fsm_start.loop1.step fsmIterScript fsmIterSpec
  rcases hp : purgeScript w.ext (w.n + 1 + 1) (w.ext w.n).st with _ | o
  · state_simp [beq_of_eq h, hcode, hp]
  · state_simp [beq_of_eq h, hcode, hp]

theorem step_errorNoIncrUpdateAvail (w : XW) (s : Sock) (h : s.state = 6#32) :
    C.rtr_fsm_start.loop1.step w s = (fsmIterScript.run w s).map (stepResult w) := by
  have hcode : FsmState.ofCode s.state = some .errorNoIncrUpdateAvail := by rw [h]; rfl
  unfold C.rtr_fsm_start.loop1.step fsmIterScript fsmIterSpec
  rcases hp : purgeScript w.ext (w.n + 1) (w.ext w.n).st with _ | o
  · state_simp [beq_of_eq h, hcode, hp]
  · state_simp [beq_of_eq h, hcode, hp]

theorem step_errorFatal (w : XW) (s : Sock) (h : s.state = 7#32) :
    C.rtr_fsm_start.loop1.step w s = (fsmIterScript.run w s).map (stepResult w) := by
  have hcode : FsmState.ofCode s.state = some .errorFatal := by rw [h]; rfl
  unfold C.rtr_fsm_start.loop1.step fsmIterScript fsmIterSpec
  state_simp [beq_of_eq h, hcode]

theorem step_errorTransport (w : XW) (s : Sock) (h : s.state = 8#32) :
    C.rtr_fsm_start.loop1.step w s = (fsmIterScript.run w s).map (stepResult w) := by
  have hcode : FsmState.ofCode s.state = some .errorTransport := by rw [h]; rfl
  unfold C.rtr_fsm_start.loop1.step fsmIterScript fsmIterSpec
  state_simp [beq_of_eq h, hcode]

theorem step_shutdown (w : XW) (s : Sock) (h : s.state = 9#32) :
    C.rtr_fsm_start.loop1.step w s = (fsmIterScript.run w s).map (stepResult w) := by
  have hcode : FsmState.ofCode s.state = some .shutdown := by rw [h]; rfl
  unfold C.rtr_fsm_start.loop1.step fsmIterScript fsmIterSpec
  state_simp [beq_of_eq h, hcode]

theorem step_closed (w : XW) (s : Sock) (h : s.state = 10#32) :
    C.rtr_fsm_start.loop1.step w s = (fsmIterScript.run w s).map (stepResult w) := by
  have hcode : FsmState.ofCode s.state = some .closed := by rw [h]; rfl
  unfold C.rtr_fsm_start.loop1.step fsmIterScript fsmIterSpec
  state_simp [beq_of_eq h, hcode]


/-! ### all states -/

theorem state_cases (v : BitVec 32) :
    v = 0#32 ∨ v = 1#32 ∨ v = 2#32 ∨ v = 3#32 ∨ v = 4#32 ∨ v = 5#32 ∨ v = 6#32 ∨ v = 7#32 ∨ v = 8#32 ∨ v = 9#32 ∨
      v = 10#32 ∨ 10 < v.toNat := by
  by_cases hv : 10 < v.toNat
  · simp [hv]
  · have hc : v.toNat = 0 ∨ v.toNat = 1 ∨ v.toNat = 2 ∨ v.toNat = 3 ∨ v.toNat = 4 ∨ v.toNat = 5 ∨ v.toNat = 6 ∨
        v.toNat = 7 ∨ v.toNat = 8 ∨ v.toNat = 9 ∨ v.toNat = 10 := by omega
    have key : ∀ k : Nat, k < 2 ^ 32 → v.toNat = k → v = BitVec.ofNat 32 k := fun k hk e =>
      BitVec.eq_of_toNat_eq (by rw [e, BitVec.toNat_ofNat, Nat.mod_eq_of_lt hk])
    rcases hc with e | e | e | e | e | e | e | e | e | e | e <;> simp [key _ (by decide) e]

/-- a state value outside the enumeration fails every test of the loop -/
theorem beq_lit_of_invalid {v : BitVec 32} (hv : 10 < v.toNat) (k : Nat) (hk : k ≤ 10) : (v == BitVec.ofNat 32 k) = false := by
  rw [beq_eq_false_iff_ne]
  intro e
  rw [e, BitVec.toNat_ofNat, Nat.mod_eq_of_lt (by omega)] at hv
  omega

theorem ofCode_of_invalid {v : BitVec 32} (hv : 10 < v.toNat) : FsmState.ofCode v = none := by
  unfold FsmState.ofCode
  split <;> first | rfl | omega

theorem step_invalid (w : XW) (s : Sock) (h : 10 < s.state.toNat) :
    C.rtr_fsm_start.loop1.step w s = (fsmIterScript.run w s).map (stepResult w) := by
  have hcode := ofCode_of_invalid h
  unfold C.rtr_fsm_start.loop1.step fsmIterScript fsmIterSpec
  script_simp [beq_lit_of_invalid h, hcode, stepResult]

/-- ONE ITERATION of the `while (1)` of `rtr_fsm_start`, as translated, is the specification - for every socket and every
    world.  Undefined exactly where a purge check it contains is. -/
theorem rtr_fsm_step_eq (w : XW) (s : Sock) :
    C.rtr_fsm_start.loop1.step w s = (fsmIterScript.run w s).map (stepResult w) := by
  rcases state_cases s.state with h | h | h | h | h | h | h | h | h | h | h | h
  · exact step_connecting w s h
  · exact step_established w s h
  · exact step_reset w s h
  · exact step_sync w s h
  · exact step_fastReconnect w s h
  · exact step_errorNoDataAvail w s h
  · exact step_errorNoIncrUpdateAvail w s h
  · exact step_errorFatal w s h
  · exact step_errorTransport w s h
  · exact step_shutdown w s h
  · exact step_closed w s h
  · exact step_invalid w s h

/-- `rtr_stop` as translated is the specification; it is total -/
theorem rtr_stop_eq (w : XW) (s : Sock) :
    C.rtr_stop w s = (stopScript.run w s).map fun o => (o.sock, o.world w) := by
  unfold C.rtr_stop stopScript stopSpec
  by_cases ht : (w.ext w.n).st.thread_id = 0#64
  · script_simp [ht]
  · script_simp [ht]

/-! ## what the skeleton guarantees (stated about the translated functions) -/

/-- the world after the given calls (each with the socket handed over) have been answered -/
def worldAfter (w : XW) (calls : List (XOp × Sock)) : XW :=
  { ext := w.ext, n := w.n + calls.length, trace := w.trace ++ calls.map XOp.record }

/-- the purge condition, given the world's answer to the clock reading: the clock failed, or
    last_update + expire_interval < now (signed 64-bit comparison) -/
def purgeDue (s : Sock) (clock : Ans) : Bool :=
  clock.ret == minusOne || (s.last_update + s.expire_interval.setWidth 64).slt clock.aux

/-- THE definedness condition of the purge check: unless the clock failed (then the sum is not evaluated),
    `last_update + expire_interval` must not overflow `time_t` (signed 64-bit) -/
def purgeDefined (s : Sock) (clock : Ans) : Prop :=
  clock.ret = minusOne ∨ BitVec.saddOverflow s.last_update (s.expire_interval.setWidth 64) = false

instance (s : Sock) (clock : Ans) : Decidable (purgeDefined s clock) := by unfold purgeDefined; infer_instance

/-- the possible outcomes of the purge specification -/
theorem purgeSpec_cases (ext : Nat → Ans) (n : Nat) (s : Sock) :
    purgeScript ext n s =
      if s.last_update = 0#64 then some ⟨(), s, n, []⟩
      else if ¬ purgeDefined s (ext n) then none
      else if purgeDue s (ext n) then
        some ⟨(), purgeFields s, n + 3, [(.time, s), (.pfxSrcRemove, s), (.spkiSrcRemove, s)]⟩
      else some ⟨(), s, n + 1, [(.time, s)]⟩ := by
  unfold purgeScript purgeSpec purgeDefined purgeDue
  by_cases h0 : s.last_update = 0#64
  · script_simp [h0]
  · by_cases hc : (ext n).ret = 4294967295#32
    · script_simp [h0, hc, purgeFields]
    · by_cases hov : s.last_update.saddOverflow (BitVec.setWidth 64 s.expire_interval)
      · script_simp [h0, hc, hov]
      · by_cases hexp : (s.last_update + BitVec.setWidth 64 s.expire_interval).slt (ext n).aux
        · script_simp [h0, hc, hov, hexp, purgeFields]
        · script_simp [h0, hc, hov, hexp]

/-- no data held: nothing happens, not even a clock reading -/
theorem purge_no_data (w : XW) (s : Sock) (h0 : s.last_update = 0#64) :
    C.rtr_purge_outdated_records w s = some (s, w) := by
  rw [rtr_purge_outdated_records_eq, Script.run, purgeSpec_cases]
  simp [h0, Outcome.world]

/-- data held and the purge condition holds: clock reading, both `src_remove` calls, the four fields reset -/
theorem purge_expired (w : XW) (s : Sock) (h0 : s.last_update ≠ 0#64) (hdef : purgeDefined s (w.ext w.n))
    (hdue : purgeDue s (w.ext w.n) = true) :
    C.rtr_purge_outdated_records w s =
      some ({ s with request_session_id := true, serial_number := 0#32, last_update := 0#64, is_resetting := true },
            worldAfter w [(.time, s), (.pfxSrcRemove, s), (.spkiSrcRemove, s)]) := by
  rw [rtr_purge_outdated_records_eq, Script.run, purgeSpec_cases]
  simp [h0, hdef, hdue, Outcome.world, worldAfter, purgeFields]

/-- data held and the purge condition does not hold: the clock reading is the only call, the socket is unchanged -/
theorem purge_fresh (w : XW) (s : Sock) (h0 : s.last_update ≠ 0#64) (hdef : purgeDefined s (w.ext w.n))
    (hdue : purgeDue s (w.ext w.n) = false) :
    C.rtr_purge_outdated_records w s = some (s, worldAfter w [(.time, s)]) := by
  rw [rtr_purge_outdated_records_eq, Script.run, purgeSpec_cases]
  simp [h0, hdef, hdue, Outcome.world, worldAfter]

/-- the only undefined case -/
theorem purge_undefined_iff (w : XW) (s : Sock) :
    C.rtr_purge_outdated_records w s = none ↔ s.last_update ≠ 0#64 ∧ ¬ purgeDefined s (w.ext w.n) := by
  rw [rtr_purge_outdated_records_eq, Script.run, purgeSpec_cases]
  by_cases h0 : s.last_update = 0#64
  · simp [h0]
  · by_cases hdef : purgeDefined s (w.ext w.n)
    · by_cases hdue : purgeDue s (w.ext w.n) = true <;> simp [h0, hdef, hdue]
    · simp [h0, hdef]


theorem worldAfter_nil (w : XW) : worldAfter w [] = w := by
  simp [worldAfter]

theorem worldAfter_append (w : XW) (a b : List (XOp × Sock)) : worldAfter (worldAfter w a) b = worldAfter w (a ++ b) := by
  simp [worldAfter, Nat.add_assoc]

theorem outcome_world_eq {α} (o : Outcome α) (w : XW) (h : o.next = w.n + o.ops.length) : o.world w = worldAfter w o.ops := by
  simp [Outcome.world, worldAfter, h]

/-- a purge check that returns: the world afterwards is the world after its calls - none, the clock reading, or the
    clock reading and the two removals -; the socket is unchanged or purged -/
theorem purge_result {w : XW} {s s1 : Sock} {w1 : XW} (hp : C.rtr_purge_outdated_records w s = some (s1, w1)) :
    (s1 = s ∧ w1 = w) ∨ (s1 = s ∧ w1 = worldAfter w [(.time, s)]) ∨
      (s1 = purgeFields s ∧ w1 = worldAfter w [(.time, s), (.pfxSrcRemove, s), (.spkiSrcRemove, s)]) := by
  rw [rtr_purge_outdated_records_eq, Script.run, purgeSpec_cases] at hp
  by_cases h0 : s.last_update = 0#64
  · simp [h0, Outcome.world] at hp
    obtain ⟨rfl, rfl⟩ := hp
    exact Or.inl ⟨rfl, rfl⟩
  · by_cases hdef : purgeDefined s (w.ext w.n)
    · by_cases hdue : purgeDue s (w.ext w.n) = true
      · simp [h0, hdef, hdue, Outcome.world] at hp
        simp [← hp, worldAfter]
      · simp [h0, hdef, hdue, Outcome.world] at hp
        simp [← hp, worldAfter]
    · simp [h0, hdef] at hp


/-- finishing move of the corollaries: the specification side unfolded, the call counts added up -/
local syntax "spec_simp" "[" Lean.Parser.Tactic.simpLemma,* "]" : tactic
local macro_rules
  | `(tactic| spec_simp [$ts,*]) => `(tactic|
      script_simp [stepResult, errorRetry, worldAfter, Nat.add_assoc, $ts,*])

/-- CONNECTING (C07, C13, C05): an iteration clears `has_received_pdus`, runs the purge check on that socket, and only then -
    in the world and with the socket the purge check left - calls `tr_open`; the rest is decided by the result of
    `tr_open`, the socket's `request_session_id` AFTER the purge check and the result of the Serial Query -/
theorem fsm_connecting (w : XW) (s : Sock) (h : s.state = 0#32) :
    C.rtr_fsm_start.loop1.step w s =
      match C.rtr_purge_outdated_records w { s with has_received_pdus := false } with
      | none => none
      | some (s1, w1) =>
        let opened := w1.ext w1.n
        let q := w1.ext (w1.n + 1)
        some (.next (
          if opened.ret = minusOne then
            (worldAfter w1 [(.open, s1), (.changeState .errorTransport, s1)], q.st)
          else if s1.request_session_id then
            (worldAfter w1 [(.open, s1), (.changeState .reset, s1)], q.st)
          else
            (worldAfter w1 [(.open, s1), (.serialQuery, s1),
                            (.changeState (if q.ret = success then .sync else .errorFatal), q.st)],
             (w1.ext (w1.n + 2)).st))) := by
  have hcode : FsmState.ofCode s.state = some .connecting := by rw [h]; rfl
  rw [rtr_fsm_step_eq, rtr_purge_outdated_records_eq]
  unfold fsmIterScript fsmIterSpec
  rcases hp : purgeScript w.ext w.n { s with has_received_pdus := false } with _ | o
  · spec_simp [hcode, hp]
  · by_cases hopen : (w.ext o.next).ret = 4294967295#32
    · spec_simp [hcode, hp, hopen]
    · by_cases hreq : o.sock.request_session_id = true
      · spec_simp [hcode, hp, hopen, hreq]
      · by_cases hsent : (w.ext (o.next + 1)).ret = 0#32
        · spec_simp [hcode, hp, hopen, hreq, hsent]
        · spec_simp [hcode, hp, hopen, hreq, hsent]


/-- C07, C13: whatever an iteration in CONNECTING returns, it first cleared `has_received_pdus` and ran the purge check
    (`purgeCalls`: nothing, the clock reading, or the clock reading and the two removals - see `purge_expired`,
    `purge_fresh`, `purge_no_data`), and the FIRST call after those is `tr_open`, with the socket the purge check left -/
theorem fsm_connecting_purges_first (w : XW) (s : Sock) (r) (h : s.state = 0#32)
    (hr : C.rtr_fsm_start.loop1.step w s = some r) :
    ∃ s1 w1 purgeCalls rest s2,
      C.rtr_purge_outdated_records w { s with has_received_pdus := false } = some (s1, w1) ∧
      w1 = worldAfter w purgeCalls ∧
      (∀ c ∈ purgeCalls, c = (.time, { s with has_received_pdus := false }) ∨
          c = (.pfxSrcRemove, { s with has_received_pdus := false }) ∨
          c = (.spkiSrcRemove, { s with has_received_pdus := false })) ∧
      s1.has_received_pdus = false ∧
      r = .next (worldAfter w (purgeCalls ++ (.open, s1) :: rest), s2) := by
  rw [fsm_connecting w s h] at hr
  rcases hp : C.rtr_purge_outdated_records w { s with has_received_pdus := false } with _ | ⟨s1, w1⟩
  · simp [hp] at hr
  · simp only [hp, Option.some.injEq] at hr
    have hw : ∃ purgeCalls, w1 = worldAfter w purgeCalls ∧
        (∀ c ∈ purgeCalls, c = (.time, { s with has_received_pdus := false }) ∨
          c = (.pfxSrcRemove, { s with has_received_pdus := false }) ∨
          c = (.spkiSrcRemove, { s with has_received_pdus := false })) ∧ s1.has_received_pdus = false := by
      rcases purge_result hp with ⟨e1, e2⟩ | ⟨e1, e2⟩ | ⟨e1, e2⟩
      · exact ⟨[], by rw [e2, worldAfter_nil], by simp, by rw [e1]⟩
      · exact ⟨_, e2, by simp, by rw [e1]⟩
      · exact ⟨_, e2, by simp, by rw [e1]; rfl⟩
    obtain ⟨purgeCalls, e2, hcalls, hrp⟩ := hw
    refine ⟨s1, w1, purgeCalls, ?_⟩
    subst e2
    subst hr
    split
    · exact ⟨_, _, rfl, rfl, hcalls, hrp, by rw [worldAfter_append]⟩
    · split
      · exact ⟨_, _, rfl, rfl, hcalls, hrp, by rw [worldAfter_append]⟩
      · exact ⟨_, _, rfl, rfl, hcalls, hrp, by rw [worldAfter_append]⟩

/-- C05: after a successful `tr_open` the query is chosen by `request_session_id` as the purge check left it:
    `true`: the only further call is `rtr_change_socket_state(RESET)` - no Serial Query is sent;
    `false`: `rtr_send_serial_query`, then the change to SYNC if it succeeded, to ERROR_FATAL if not -/
theorem fsm_connecting_query_choice (w : XW) (s s1 : Sock) (w1 : XW) (h : s.state = 0#32)
    (hp : C.rtr_purge_outdated_records w { s with has_received_pdus := false } = some (s1, w1))
    (hopen : (w1.ext w1.n).ret ≠ minusOne) :
    (s1.request_session_id = true →
      C.rtr_fsm_start.loop1.step w s =
        some (.next (worldAfter w1 [(.open, s1), (.changeState .reset, s1)], (w1.ext (w1.n + 1)).st))) ∧
    (s1.request_session_id = false →
      C.rtr_fsm_start.loop1.step w s =
        some (.next (worldAfter w1 [(.open, s1), (.serialQuery, s1),
                        (.changeState (if (w1.ext (w1.n + 1)).ret = success then .sync else .errorFatal),
                          (w1.ext (w1.n + 1)).st)],
                     (w1.ext (w1.n + 2)).st))) := by
  rw [fsm_connecting w s h, hp]
  constructor <;> intro hreq <;> simp [hopen, hreq]

/-- a failed `tr_open`: the only further call is the change to ERROR_TRANSPORT -/
theorem fsm_connecting_open_fails (w : XW) (s s1 : Sock) (w1 : XW) (h : s.state = 0#32)
    (hp : C.rtr_purge_outdated_records w { s with has_received_pdus := false } = some (s1, w1))
    (hopen : (w1.ext w1.n).ret = minusOne) :
    C.rtr_fsm_start.loop1.step w s =
      some (.next (worldAfter w1 [(.open, s1), (.changeState .errorTransport, s1)], (w1.ext (w1.n + 1)).st)) := by
  rw [fsm_connecting w s h, hp]
  simp [hopen]

/-- C05: RESET sends a Reset Query; SYNC is entered only if that succeeded (otherwise the socket is as the callee left it) -/
theorem fsm_reset_query (w : XW) (s : Sock) (h : s.state = 2#32) :
    C.rtr_fsm_start.loop1.step w s =
      some (.next (
        if (w.ext w.n).ret = success then
          (worldAfter w [(.resetQuery, s), (.changeState .sync, (w.ext w.n).st)], (w.ext (w.n + 1)).st)
        else (worldAfter w [(.resetQuery, s)], (w.ext w.n).st))) := by
  have hcode : FsmState.ofCode s.state = some .reset := by rw [h]; rfl
  rw [rtr_fsm_step_eq]
  unfold fsmIterScript fsmIterSpec
  by_cases hsent : (w.ext w.n).ret = 0#32
  · spec_simp [hcode, hsent]
  · spec_simp [hcode, hsent]

/-- SYNC: `rtr_sync`; ESTABLISHED is entered only if it succeeded -/
theorem fsm_sync (w : XW) (s : Sock) (h : s.state = 3#32) :
    C.rtr_fsm_start.loop1.step w s =
      some (.next (
        if (w.ext w.n).ret = success then
          (worldAfter w [(.sync, s), (.changeState .established, (w.ext w.n).st)], (w.ext (w.n + 1)).st)
        else (worldAfter w [(.sync, s)], (w.ext w.n).st))) := by
  have hcode : FsmState.ofCode s.state = some .sync := by rw [h]; rfl
  rw [rtr_fsm_step_eq]
  unfold fsmIterScript fsmIterSpec
  by_cases hsync : (w.ext w.n).ret = 0#32
  · spec_simp [hcode, hsync]
  · spec_simp [hcode, hsync]

/-- ESTABLISHED: the wait (cancellable), then - only if it succeeded - a Serial Query, then - only if that succeeded - SYNC -/
theorem fsm_established (w : XW) (s : Sock) (h : s.state = 1#32) :
    C.rtr_fsm_start.loop1.step w s =
      some (.next (
        let s1 := (w.ext (w.n + 1)).st
        let wait := [(XOp.cancelState true, s), (XOp.waitForSync, s), (XOp.cancelState false, s1)]
        if (w.ext (w.n + 1)).ret = success then
          if (w.ext (w.n + 3)).ret = success then
            (worldAfter w (wait ++ [(.serialQuery, s1), (.changeState .sync, (w.ext (w.n + 3)).st)]), (w.ext (w.n + 4)).st)
          else (worldAfter w (wait ++ [(.serialQuery, s1)]), (w.ext (w.n + 3)).st)
        else (worldAfter w wait, s1))) := by
  have hcode : FsmState.ofCode s.state = some .established := by rw [h]; rfl
  rw [rtr_fsm_step_eq]
  unfold fsmIterScript fsmIterSpec
  by_cases hwoke : (w.ext (w.n + 1)).ret = 0#32
  · by_cases hsent : (w.ext (w.n + 3)).ret = 0#32
    · spec_simp [hcode, hwoke, hsent]
    · spec_simp [hcode, hwoke, hsent]
  · spec_simp [hcode, hwoke]

/-- C08: an iteration in ERROR_TRANSPORT or ERROR_FATAL performs exactly: `tr_close`, `rtr_change_socket_state(CONNECTING)`,
    cancellation enabled, `sleep(retry_interval)` - of the socket as the state change left it -, cancellation disabled -/
theorem fsm_error_states_retry (w : XW) (s : Sock) (h : s.state = 8#32 ∨ s.state = 7#32) :
    C.rtr_fsm_start.loop1.step w s =
      some (.next (
        let s1 := (w.ext (w.n + 1)).st
        (worldAfter w [(.close, s), (.changeState .connecting, s), (.cancelState true, s1),
                       (.sleep s1.retry_interval, s1), (.cancelState false, s1)], s1))) := by
  rw [rtr_fsm_step_eq]
  unfold fsmIterScript fsmIterSpec
  rcases h with h | h
  · have hcode : FsmState.ofCode s.state = some .errorTransport := by rw [h]; rfl
    spec_simp [hcode]
  · have hcode : FsmState.ofCode s.state = some .errorFatal := by rw [h]; rfl
    spec_simp [hcode]

/-- C08, C05: ERROR_NO_DATA_AVAIL: `request_session_id := true`, `serial_number := 0`, change to RESET, `sleep(retry_interval)`
    (of the socket as the state change left it), then the purge check -/
theorem fsm_no_data_retry (w : XW) (s : Sock) (h : s.state = 5#32) :
    C.rtr_fsm_start.loop1.step w s =
      let s0 : Sock := { s with request_session_id := true, serial_number := 0#32 }
      let s1 := (w.ext w.n).st
      (C.rtr_purge_outdated_records (worldAfter w [(.changeState .reset, s0), (.sleep s1.retry_interval, s1)]) s1).map
        fun (s2, w2) => .next (w2, s2) := by
  have hcode : FsmState.ofCode s.state = some .errorNoDataAvail := by rw [h]; rfl
  rw [rtr_fsm_step_eq]
  simp only [rtr_purge_outdated_records_eq]
  unfold fsmIterScript fsmIterSpec
  rcases hp : purgeScript w.ext (w.n + 2) (w.ext w.n).st with _ | o
  · spec_simp [hcode, hp]
  · spec_simp [hcode, hp]

/-- C08, C05: ERROR_NO_INCR_UPDATE_AVAIL: the same without the sleep -/
theorem fsm_no_incr_retry (w : XW) (s : Sock) (h : s.state = 6#32) :
    C.rtr_fsm_start.loop1.step w s =
      let s0 : Sock := { s with request_session_id := true, serial_number := 0#32 }
      let s1 := (w.ext w.n).st
      (C.rtr_purge_outdated_records (worldAfter w [(.changeState .reset, s0)]) s1).map
        fun (s2, w2) => .next (w2, s2) := by
  have hcode : FsmState.ofCode s.state = some .errorNoIncrUpdateAvail := by rw [h]; rfl
  rw [rtr_fsm_step_eq]
  simp only [rtr_purge_outdated_records_eq]
  unfold fsmIterScript fsmIterSpec
  rcases hp : purgeScript w.ext (w.n + 1) (w.ext w.n).st with _ | o
  · spec_simp [hcode, hp]
  · spec_simp [hcode, hp]

/-- C08: FAST_RECONNECT: `tr_close`, change to CONNECTING, no sleep -/
theorem fsm_fast_reconnect (w : XW) (s : Sock) (h : s.state = 4#32) :
    C.rtr_fsm_start.loop1.step w s =
      some (.next (worldAfter w [(.close, s), (.changeState .connecting, s)], (w.ext (w.n + 1)).st)) := by
  have hcode : FsmState.ofCode s.state = some .fastReconnect := by rw [h]; rfl
  rw [rtr_fsm_step_eq]
  unfold fsmIterScript fsmIterSpec
  spec_simp [hcode]

/-- SHUTDOWN ends the loop (`pthread_exit`) without a call -/
theorem fsm_shutdown_exits (w : XW) (s : Sock) (h : s.state = 9#32) :
    C.rtr_fsm_start.loop1.step w s = some (.done (C.NULL, s, w)) := by
  have hcode : FsmState.ofCode s.state = some .shutdown := by rw [h]; rfl
  rw [rtr_fsm_step_eq]
  unfold fsmIterScript fsmIterSpec
  spec_simp [hcode]

/-- CLOSED, or a value outside the enumeration: no branch of the loop matches - the iteration returns the world and the socket
    untouched, WITHOUT any call -/
theorem fsm_closed_or_invalid_idles (w : XW) (s : Sock) (h : 10 ≤ s.state.toNat) :
    C.rtr_fsm_start.loop1.step w s = some (.next (w, s)) := by
  rw [rtr_fsm_step_eq]
  unfold fsmIterScript fsmIterSpec
  rcases Nat.lt_or_ge 10 s.state.toNat with h1 | h1
  · have hcode := ofCode_of_invalid h1
    spec_simp [hcode]
  · have h2 : s.state = 10#32 := BitVec.eq_of_toNat_eq (by simp; omega)
    have hcode : FsmState.ofCode s.state = some .closed := by rw [h2]; rfl
    spec_simp [hcode]

/-- ... so the translated loop never returns from there: whatever the fuel (the C loop spins) -/
theorem fsm_closed_or_invalid_spins (fuel : Nat) (w : XW) (s : Sock) (h : 10 ≤ s.state.toNat) :
    C.rtr_fsm_start.loop1 fuel w s = none := by
  induction fuel with
  | zero => rfl
  | succ k ih => rw [C.rtr_fsm_start.loop1, fsm_closed_or_invalid_idles w s h]; exact ih


/-- a purge check that returns leaves the world after some (possibly no) calls -/
theorem purge_world {w : XW} {s s1 : Sock} {w1 : XW} (hp : C.rtr_purge_outdated_records w s = some (s1, w1)) :
    ∃ calls, w1 = worldAfter w calls := by
  rcases purge_result hp with ⟨_, e⟩ | ⟨_, e⟩ | ⟨_, e⟩
  · exact ⟨[], by rw [e, worldAfter_nil]⟩
  · exact ⟨_, e⟩
  · exact ⟨_, e⟩

/-- C08: the machine cannot go round without going through the transport, the clock or a callee: every iteration in one of
    the states CONNECTING .. ERROR_TRANSPORT that asks for another iteration has made at least one external call
    (SHUTDOWN ends the loop: `fsm_shutdown_exits`; CLOSED and values outside the enumeration DO go round without a call:
    `fsm_closed_or_invalid_idles`) -/
theorem fsm_every_iteration_calls_out (w w' : XW) (s s' : Sock) (hs : s.state.toNat < 10)
    (hr : C.rtr_fsm_start.loop1.step w s = some (.next (w', s'))) :
    ∃ c calls, w' = worldAfter w (c :: calls) := by
  rcases state_cases s.state with h | h | h | h | h | h | h | h | h | h | h | h
  · obtain ⟨s1, w1, purgeCalls, rest, s2, _, _, _, _, e⟩ := fsm_connecting_purges_first w s _ h hr
    simp only [C.Step.next.injEq, Prod.mk.injEq] at e
    rcases purgeCalls with _ | ⟨c, cs⟩
    · exact ⟨_, _, e.1⟩
    · exact ⟨c, cs ++ (.open, s1) :: rest, e.1⟩
  · rw [fsm_established w s h] at hr
    simp only [Option.some.injEq, C.Step.next.injEq] at hr
    split at hr
    · split at hr <;> exact ⟨_, _, (Prod.mk.inj hr).1.symm⟩
    · exact ⟨_, _, (Prod.mk.inj hr).1.symm⟩
  · rw [fsm_reset_query w s h] at hr
    simp only [Option.some.injEq, C.Step.next.injEq] at hr
    split at hr <;> exact ⟨_, _, (Prod.mk.inj hr).1.symm⟩
  · rw [fsm_sync w s h] at hr
    simp only [Option.some.injEq, C.Step.next.injEq] at hr
    split at hr <;> exact ⟨_, _, (Prod.mk.inj hr).1.symm⟩
  · rw [fsm_fast_reconnect w s h] at hr
    simp only [Option.some.injEq, C.Step.next.injEq] at hr
    exact ⟨_, _, (Prod.mk.inj hr).1.symm⟩
  · rw [fsm_no_data_retry w s h] at hr
    simp only [Option.map_eq_some_iff] at hr
    obtain ⟨⟨s2, w2⟩, hp, e⟩ := hr
    simp only [C.Step.next.injEq, Prod.mk.injEq] at e
    obtain ⟨calls, e2⟩ := purge_world hp
    rw [worldAfter_append] at e2
    exact ⟨_, _, e.1.symm.trans e2⟩
  · rw [fsm_no_incr_retry w s h] at hr
    simp only [Option.map_eq_some_iff] at hr
    obtain ⟨⟨s2, w2⟩, hp, e⟩ := hr
    simp only [C.Step.next.injEq, Prod.mk.injEq] at e
    obtain ⟨calls, e2⟩ := purge_world hp
    rw [worldAfter_append] at e2
    exact ⟨_, _, e.1.symm.trans e2⟩
  · rw [fsm_error_states_retry w s (Or.inr h)] at hr
    simp only [Option.some.injEq, C.Step.next.injEq] at hr
    exact ⟨_, _, (Prod.mk.inj hr).1.symm⟩
  · rw [fsm_error_states_retry w s (Or.inl h)] at hr
    simp only [Option.some.injEq, C.Step.next.injEq] at hr
    exact ⟨_, _, (Prod.mk.inj hr).1.symm⟩
  · rw [fsm_shutdown_exits w s h] at hr
    simp at hr
  · rw [h] at hs; exact absurd hs (by decide)
  · omega

/-- ... in particular it has consumed at least one answer of the world, and the trace has grown -/
theorem fsm_every_iteration_consumes (w w' : XW) (s s' : Sock) (hs : s.state.toNat < 10)
    (hr : C.rtr_fsm_start.loop1.step w s = some (.next (w', s'))) :
    w.n < w'.n ∧ w.trace.length < w'.trace.length := by
  obtain ⟨c, calls, e⟩ := fsm_every_iteration_calls_out w w' s s' hs hr
  subst e
  simp [worldAfter]

/-- C07: `rtr_stop` of a socket whose thread runs (`thread_id ≠ 0` after the state change): change to SHUTDOWN, `pthread_cancel`,
    `pthread_join`, `tr_close` - all with the socket as the state change left it -, THEN `request_session_id := true`,
    `serial_number := 0`, `last_update := 0`, and with that socket both `src_remove` calls; it ends with `thread_id = 0` and
    state CLOSED.  (The socket recorded at `pthread_cancel` / `pthread_join` is the one before the resets: the resets come
    after the join.) -/
theorem stop_purges (w : XW) (s : Sock) (ht : (w.ext w.n).st.thread_id ≠ 0#64) :
    C.rtr_stop w s =
      let s1 := (w.ext w.n).st
      let s2 : Sock := { s1 with request_session_id := true, serial_number := 0#32, last_update := 0#64 }
      some ({ s2 with thread_id := 0#64, state := 10#32 },
            worldAfter w [(.changeState .shutdown, s), (.threadCancel, s1), (.threadJoin, s1), (.close, s1),
                          (.pfxSrcRemove, s2), (.spkiSrcRemove, s2)]) := by
  rw [rtr_stop_eq]
  unfold stopScript stopSpec
  spec_simp [ht]

/-- `rtr_stop` of a socket that is not running: only the state change happens -/
theorem stop_not_running (w : XW) (s : Sock) (ht : (w.ext w.n).st.thread_id = 0#64) :
    C.rtr_stop w s = some ((w.ext w.n).st, worldAfter w [(.changeState .shutdown, s)]) := by
  rw [rtr_stop_eq]
  unfold stopScript stopSpec
  spec_simp [ht]


/-- where an iteration is undefined: exactly where the purge check it contains is (CONNECTING: at the start;
    ERROR_NO_DATA_AVAIL: after the state change and the sleep; ERROR_NO_INCR_UPDATE_AVAIL: after the state change) -/
theorem fsm_step_undefined_iff (w : XW) (s : Sock) :
    C.rtr_fsm_start.loop1.step w s = none ↔
      (s.state = 0#32 ∧ s.last_update ≠ 0#64 ∧ ¬ purgeDefined s (w.ext w.n)) ∨
      (s.state = 5#32 ∧ (w.ext w.n).st.last_update ≠ 0#64 ∧ ¬ purgeDefined (w.ext w.n).st (w.ext (w.n + 2))) ∨
      (s.state = 6#32 ∧ (w.ext w.n).st.last_update ≠ 0#64 ∧ ¬ purgeDefined (w.ext w.n).st (w.ext (w.n + 1))) := by
  rcases state_cases s.state with h | h | h | h | h | h | h | h | h | h | h | h
  · rw [fsm_connecting w s h]
    rcases hp : C.rtr_purge_outdated_records w { s with has_received_pdus := false } with _ | ⟨s1, w1⟩
    · have := (purge_undefined_iff w _).1 hp
      simpa [h, purgeDefined] using this
    · have : ¬ C.rtr_purge_outdated_records w { s with has_received_pdus := false } = none := by simp [hp]
      rw [purge_undefined_iff] at this
      simpa [h, purgeDefined] using this
  · simp [fsm_established w s h, h]
  · simp [fsm_reset_query w s h, h]
  · simp [fsm_sync w s h, h]
  · simp [fsm_fast_reconnect w s h, h]
  · simp [fsm_no_data_retry w s h, h, purge_undefined_iff, worldAfter]
  · simp [fsm_no_incr_retry w s h, h, purge_undefined_iff, worldAfter]
  · simp [fsm_error_states_retry w s (Or.inr h), h]
  · simp [fsm_error_states_retry w s (Or.inl h), h]
  · simp [fsm_shutdown_exits w s h, h]
  · simp [fsm_closed_or_invalid_idles w s (by rw [h]; decide), h]
  · have h0 : s.state ≠ 0#32 := fun e => by rw [e] at h; exact absurd h (by decide)
    have h5 : s.state ≠ 5#32 := fun e => by rw [e] at h; exact absurd h (by decide)
    have h6 : s.state ≠ 6#32 := fun e => by rw [e] at h; exact absurd h (by decide)
    simp [fsm_closed_or_invalid_idles w s (by omega), h0, h5, h6]

/-- `rtr_fsm_start`: nothing if the socket is already shut down; otherwise cancellation is disabled, the state set to
    CONNECTING, and the loop entered -/
theorem rtr_fsm_start_eq (w : XW) (s : Sock) :
    C.rtr_fsm_start w s =
      if s.state = 9#32 then some (C.NULL, s, w)
      else C.rtr_fsm_start.loop1 C.FUEL (worldAfter w [(.cancelState false, s)]) { s with state := 0#32 } := by
  unfold C.rtr_fsm_start
  by_cases h : s.state = 9#32
  · simp [h]
  · simp [h, C.xcall, worldAfter, XOp.record, XOp.name, XOp.args]

/-! ## the translated functions run (kernel evaluation; non-vacuity) -/

/-- a world that gives the listed answers, in order -/
def mkXWorld (answers : List Ans) : XW := { ext := fun i => answers.getD i { rc := 0#64, aux := 0#64, st := C.S_rtr_socket.zero } }

/-- an answer: return value, auxiliary value, socket handed back -/
def ans (rc : Int) (st : Sock := C.S_rtr_socket.zero) (aux : Nat := 0) : Ans :=
  { rc := BitVec.ofInt 64 rc, aux := BitVec.ofNat 64 aux, st := st }

/-- a socket with session, in the given state -/
def sockIn (state : Nat) (lastUpdate : Nat := 100) (requestSession : Bool := false) : Sock :=
  { C.S_rtr_socket.zero with
      state := BitVec.ofNat 32 state, last_update := BitVec.ofNat 64 lastUpdate, expire_interval := 600#32,
      retry_interval := 30#32, refresh_interval := 300#32, session_id := 7#32, serial_number := 42#32, version := 1#32,
      request_session_id := requestSession, thread_id := 5#64 }

/-- what one looks at: does the loop go on, the calls (name, arguments), answers consumed, the socket afterwards -/
def obsStep (r : Option (C.Step (Nat × Sock × XW) (XW × Sock))) : Option (Bool × List (String × List (BitVec 64)) × Nat × Sock) :=
  r.map fun
    | .next (w, s) => (true, w.trace.map (fun c => (c.1, c.2.1)), w.n, s)
    | .done (_, s, w) => (false, w.trace.map (fun c => (c.1, c.2.1)), w.n, s)

def obsSockWorld (r : Option (Sock × XW)) : Option (List (String × List (BitVec 64)) × Nat × Sock) :=
  r.map fun (s, w) => (w.trace.map (fun c => (c.1, c.2.1)), w.n, s)

/-- CONNECTING, data of time 100, expire interval 600, clock 1000: expired - clock, both removals, `tr_open`, and RESET
    (not a Serial Query, although the socket had a session) -/
example : obsStep (C.rtr_fsm_start.loop1.step
      (mkXWorld [ans 0 (aux := 1000), ans 0, ans 0, ans 0, ans 0 (sockIn 2 0 true)]) (sockIn 0))
    = some (true, [("lrtr_get_monotonic_time", []), ("pfx_table_src_remove", []), ("spki_table_src_remove", []),
                   ("tr_open", []), ("rtr_change_socket_state", [2#64])], 5, sockIn 2 0 true) := by decide


/-- ... and `tr_open` (the 4th call) saw the purged socket: `request_session_id` set, serial 0, `last_update` 0 -/
example : ((C.rtr_fsm_start.loop1.step
      (mkXWorld [ans 0 (aux := 1000), ans 0, ans 0, ans 0, ans 0 (sockIn 2 0 true)]) (sockIn 0)).map fun
        | .next (w, _) => w.trace.map fun c => (c.1, c.2.2.request_session_id, c.2.2.serial_number, c.2.2.last_update)
        | .done _ => [])
    = some [("lrtr_get_monotonic_time", false, 42#32, 100#64), ("pfx_table_src_remove", false, 42#32, 100#64),
            ("spki_table_src_remove", false, 42#32, 100#64), ("tr_open", true, 0#32, 0#64),
            ("rtr_change_socket_state", true, 0#32, 0#64)] := by decide

/-- the same socket, clock 500: fresh - the clock reading is the only call of the purge check; then `tr_open`, a Serial
    Query, SYNC -/
example : obsStep (C.rtr_fsm_start.loop1.step
      (mkXWorld [ans 0 (aux := 500), ans 0, ans 0 (sockIn 0), ans 0 (sockIn 3)]) (sockIn 0))
    = some (true, [("lrtr_get_monotonic_time", []), ("tr_open", []), ("rtr_send_serial_query", []),
                   ("rtr_change_socket_state", [3#64])], 4, sockIn 3) := by decide

/-- the Serial Query fails: ERROR_FATAL -/
example : obsStep (C.rtr_fsm_start.loop1.step
      (mkXWorld [ans 0 (aux := 500), ans 0, ans (-1) (sockIn 0), ans 0 (sockIn 7)]) (sockIn 0))
    = some (true, [("lrtr_get_monotonic_time", []), ("tr_open", []), ("rtr_send_serial_query", []),
                   ("rtr_change_socket_state", [7#64])], 4, sockIn 7) := by decide

/-- the boundary: last_update + expire_interval = now is NOT expired (strict comparison) -/
example : obsSockWorld (C.rtr_purge_outdated_records (mkXWorld [ans 0 (aux := 700)]) (sockIn 0))
    = some ([("lrtr_get_monotonic_time", [])], 1, sockIn 0) := by decide
example : obsSockWorld (C.rtr_purge_outdated_records (mkXWorld [ans 0 (aux := 701)]) (sockIn 0))
    = some ([("lrtr_get_monotonic_time", []), ("pfx_table_src_remove", []), ("spki_table_src_remove", [])], 3,
            { sockIn 0 0 true with serial_number := 0#32, is_resetting := true }) := by decide

/-- a failing clock purges -/
example : obsSockWorld (C.rtr_purge_outdated_records (mkXWorld [ans (-1) (aux := 0)]) (sockIn 0))
    = some ([("lrtr_get_monotonic_time", []), ("pfx_table_src_remove", []), ("spki_table_src_remove", [])], 3,
            { sockIn 0 0 true with serial_number := 0#32, is_resetting := true }) := by decide

/-- no data: no call -/
example : obsSockWorld (C.rtr_purge_outdated_records (mkXWorld []) (sockIn 0 0)) = some ([], 0, sockIn 0 0) := by decide

/-- the undefined case: last_update = 2^63 - 1 (the sum overflows `time_t`) - unless the clock fails -/
example : obsSockWorld (C.rtr_purge_outdated_records (mkXWorld [ans 0 (aux := 1000)]) (sockIn 0 (2 ^ 63 - 1))) = none := by decide
example : (obsSockWorld (C.rtr_purge_outdated_records (mkXWorld [ans (-1)]) (sockIn 0 (2 ^ 63 - 1)))).isSome = true := by decide
example : ¬ purgeDefined (sockIn 0 (2 ^ 63 - 1)) (ans 0 (aux := 1000)) := by decide
example : purgeDefined (sockIn 0) (ans 0 (aux := 1000)) ∧ purgeDue (sockIn 0) (ans 0 (aux := 1000)) = true := by decide

/-- ERROR_TRANSPORT: close, CONNECTING, cancellable sleep of the retry interval the state change left (77, not 30) -/
example : obsStep (C.rtr_fsm_start.loop1.step
      (mkXWorld [ans 0, ans 0 { sockIn 0 with retry_interval := 77#32 }]) (sockIn 8))
    = some (true, [("tr_close", []), ("rtr_change_socket_state", [0#64]), ("pthread_setcancelstate", [0#64]),
                   ("sleep", [77#64]), ("pthread_setcancelstate", [1#64])], 5,
            { sockIn 0 with retry_interval := 77#32 }) := by decide

/-- ERROR_NO_DATA_AVAIL: RESET, sleep, purge check (here: expired) -/
example : obsStep (C.rtr_fsm_start.loop1.step
      (mkXWorld [ans 0 (sockIn 2), ans 0, ans 0 (aux := 1000)]) (sockIn 5))
    = some (true, [("rtr_change_socket_state", [2#64]), ("sleep", [30#64]), ("lrtr_get_monotonic_time", []),
                   ("pfx_table_src_remove", []), ("spki_table_src_remove", [])], 5,
            { sockIn 2 0 true with serial_number := 0#32, is_resetting := true }) := by decide

/-- SHUTDOWN leaves the loop; CLOSED and 11 go round without a call -/
example : obsStep (C.rtr_fsm_start.loop1.step (mkXWorld []) (sockIn 9)) = some (false, [], 0, sockIn 9) := by decide
example : obsStep (C.rtr_fsm_start.loop1.step (mkXWorld []) (sockIn 10)) = some (true, [], 0, sockIn 10) := by decide
example : obsStep (C.rtr_fsm_start.loop1.step (mkXWorld []) (sockIn 11)) = some (true, [], 0, sockIn 11) := by decide

/-- `rtr_stop` of a running socket: the sockets recorded at the calls show the order (resets after the join) -/
example : ((C.rtr_stop (mkXWorld [ans 0 (sockIn 9)]) (sockIn 1)).map fun r =>
      (r.2.trace.map fun c => (c.1, c.2.2.last_update, c.2.2.request_session_id), r.1.state, r.1.thread_id, r.1.last_update))
    = some ([("rtr_change_socket_state", 100#64, false), ("pthread_cancel", 100#64, false),
             ("pthread_join", 100#64, false), ("tr_close", 100#64, false),
             ("pfx_table_src_remove", 0#64, true), ("spki_table_src_remove", 0#64, true)],
            10#32, 0#64, 0#64) := by decide

/-- ... of a socket that is not running: only the state change -/
example : obsSockWorld (C.rtr_stop (mkXWorld [ans 0 { sockIn 9 with thread_id := 0#64 }]) (sockIn 1))
    = some ([("rtr_change_socket_state", [9#64])], 1, { sockIn 9 with thread_id := 0#64 }) := by decide

/-- the whole translated `rtr_fsm_start` with its full fuel: CONNECTING (no data: no purge call) - RESET - SYNC -
    ESTABLISHED - the wait is interrupted by a shutdown - exit -/
example : (C.rtr_fsm_start
      (mkXWorld [ans 0, ans 0, ans 0 (sockIn 2 0 true), ans 0 (sockIn 2 0 true), ans 0 (sockIn 3 0 true), ans 0 (sockIn 3 50),
                 ans 0 (sockIn 1 50), ans 0, ans (-1) (sockIn 9 50), ans 0]) (sockIn 10 0 true)).map
      (fun (_, s, w) => (w.trace.map (fun c => (c.1, c.2.1)), w.n, s))
    = some ([("pthread_setcancelstate", [1#64]), ("tr_open", []), ("rtr_change_socket_state", [2#64]),
             ("rtr_send_reset_query", []), ("rtr_change_socket_state", [3#64]), ("rtr_sync", []),
             ("rtr_change_socket_state", [1#64]), ("pthread_setcancelstate", [0#64]), ("rtr_wait_for_sync", []),
             ("pthread_setcancelstate", [1#64])], 10, sockIn 9 50) := by decide

end Rtr.CLink
