/-
  CLinkFooter: the memory-mode translation of `rtr_pdu_convert_footer_byte_order` (rtrlib/rtr/packets.c; translated by
  tools/gen_cfuns.py into RtrModel/Generated/CFuns.lean on every run, with `lrtr_ipv4_addr_convert_byte_order` and
  `lrtr_ipv6_addr_convert_byte_order` of rtrlib/lib inlined and the loop of the latter unrolled) against a specification
  over 32-bit words: the function byte-swaps, in place, exactly the 32-bit fields of the PDU body that the type (and, for
  End of Data, the version) in the header names - and nothing else inside the PDU.

      type                      words swapped (offsets from the start of the PDU)
      Serial Notify (0)         8
      Serial Query (1)          8
      IPv4 Prefix (4)           12 16
      IPv6 Prefix (6)           12 16 20 24 28        (through a 16-byte local, which lies beyond every buffer)
      End of Data (7)  v1       20 12 16 8            other versions: 8
      Router Key (9)            28
      Error Report (10)         to network: 12 + L (L = the host-order word at 8), then 8
                                to host:    8, then 12 + L (L = the now host-order word at 8)
      anything else             nothing

  Results, for EVERY memory, object size, pointer and direction:
    * `footer_fixed`      (types other than 6 and 10) the C text is defined iff the object holds the last word named above
                          (and the direction is one of the two enumerators); its result is `swapWords`
    * `footer_ipv6`       the same for IPv6 Prefix, for every address below the stack pages (the local copy is not visible)
    * `footer_error_to_network`, `footer_error_to_host`   the Error Report, both directions; defined iff the encapsulated
                          length keeps the text-length word inside the object
    * `swapWords_involutive`   swapping a list of pairwise disjoint words twice is the identity: what
                          `rtr_pdu_to_network_byte_order` does to the body of a fixed-layout PDU, the receiving side's
                          `rtr_pdu_footer_to_host_byte_order` undoes (`footer_fixed_round_trip`)
    * `footer_error_round_trip`  the same for the Error Report: to network, then to host, is the identity
-/
import RtrProofs.CLinkPdu
import RtrProofs.CLinkMisc

namespace Rtr.CLink.Footer
open Rtr Rtr.Gen Rtr.CLink

abbrev Mem := Nat → BitVec 8

/-- byte-swap the 32-bit word at address `a`, in place -/
def swapAt (m : Mem) (a : Nat) : Mem := C.store32 m a (C.bswap32 (C.load32 m a))

/-- byte-swap the words at the given offsets from `pdu`, in that order -/
def swapWords (m : Mem) (pdu : Nat) : List Nat → Mem
  | [] => m
  | o :: os => swapWords (swapAt m (pdu + o)) pdu os

/-- the 32-bit fields of the fixed-layout PDU bodies, in the order the C text converts them -/
def words (ty ver : BitVec 8) : List Nat :=
  if ty = 0#8 ∨ ty = 1#8 then [8]
  else if ty = 4#8 then [12, 16]
  else if ty = 6#8 then [12, 16, 20, 24, 28]
  else if ty = 7#8 then (if ver = 1#8 then [20, 12, 16, 8] else [8])
  else if ty = 9#8 then [28]
  else []

/-- bytes the object must have for the conversion to stay inside it -/
def need (ty ver : BitVec 8) : Nat :=
  if ty = 0#8 ∨ ty = 1#8 then 12
  else if ty = 4#8 then 20
  else if ty = 6#8 then 32
  else if ty = 7#8 then (if ver = 1#8 then 24 else 12)
  else if ty = 9#8 then 32
  else 2

/-! ## the translated text, type by type -/

theorem sext8_lit_beq (x : BitVec 8) (k : Nat) (hk : k < 128) :
    (BitVec.signExtend 32 x == BitVec.ofNat 32 k) = decide (x = BitVec.ofNat 8 k) := by
  rw [sext8_beq_lit x k hk, Bool.eq_iff_iff]
  simp only [beq_iff_eq, decide_eq_true_eq, ← BitVec.toNat_inj, BitVec.toNat_ofNat]
  omega

private theorem conv (tbo v : BitVec 32) (h : tbo = 0#32 ∨ tbo = 1#32) : C.lrtr_convert_long tbo v = some (C.bswap32 v) := by
  rw [lrtr_convert_long_eq, if_pos h]

/-- the dispatch of the translated function on the type byte, as a chain over the byte -/
theorem footer_type_cases (x : BitVec 8) :
    x = 0#8 ∨ x = 1#8 ∨ x = 4#8 ∨ x = 6#8 ∨ x = 7#8 ∨ x = 9#8 ∨ x = 10#8 ∨
      (x ≠ 0#8 ∧ x ≠ 1#8 ∧ x ≠ 4#8 ∧ x ≠ 6#8 ∧ x ≠ 7#8 ∧ x ≠ 9#8 ∧ x ≠ 10#8) := by
  by_cases h0 : x = 0#8 <;> by_cases h1 : x = 1#8 <;> by_cases h4 : x = 4#8 <;> by_cases h6 : x = 6#8 <;>
    by_cases h7 : x = 7#8 <;> by_cases h9 : x = 9#8 <;> by_cases h10 : x = 10#8 <;> simp_all

section
variable (mem : Mem) (msize pdu : Nat) (tbo : BitVec 32)

private theorem unfold_footer (h2 : pdu + 2 ≤ msize) :
    C.rtr_get_pdu_type mem msize pdu = some (BitVec.signExtend 32 (mem (pdu + 1))) := by
  rw [rtr_get_pdu_type_eq, if_pos h2]

theorem footer_serial (htbo : tbo = 0#32 ∨ tbo = 1#32) (h2 : pdu + 2 ≤ msize)
    (hty : mem (pdu + 1) = 0#8 ∨ mem (pdu + 1) = 1#8) :
    C.rtr_pdu_convert_footer_byte_order mem msize pdu tbo =
      if pdu + 12 ≤ msize then some (swapWords mem pdu [8]) else none := by
  unfold C.rtr_pdu_convert_footer_byte_order
  rw [unfold_footer mem msize pdu h2]
  have e : pdu + 8 + 4 ≤ msize ↔ pdu + 12 ≤ msize := by omega
  rcases hty with hty | hty <;>
    simp [hty, conv _ _ htbo, swapWords, swapAt, e]

theorem footer_ipv4 (htbo : tbo = 0#32 ∨ tbo = 1#32) (h2 : pdu + 2 ≤ msize) (hty : mem (pdu + 1) = 4#8) :
    C.rtr_pdu_convert_footer_byte_order mem msize pdu tbo =
      if pdu + 20 ≤ msize then some (swapWords mem pdu [12, 16]) else none := by
  unfold C.rtr_pdu_convert_footer_byte_order
  rw [unfold_footer mem msize pdu h2]
  by_cases h : pdu + 20 ≤ msize
  · have e1 : pdu + 12 + 4 ≤ msize := by omega
    have e2 : pdu + 16 + 4 ≤ msize := by omega
    simp [hty, conv _ _ htbo, swapWords, swapAt, e1, e2, h]
  · have e2 : ¬ pdu + 16 + 4 ≤ msize := by omega
    simp [hty, conv _ _ htbo, e2, h]

theorem footer_router_key (htbo : tbo = 0#32 ∨ tbo = 1#32) (h2 : pdu + 2 ≤ msize) (hty : mem (pdu + 1) = 9#8) :
    C.rtr_pdu_convert_footer_byte_order mem msize pdu tbo =
      if pdu + 32 ≤ msize then some (swapWords mem pdu [28]) else none := by
  unfold C.rtr_pdu_convert_footer_byte_order
  rw [unfold_footer mem msize pdu h2]
  have e : pdu + 28 + 4 ≤ msize ↔ pdu + 32 ≤ msize := by omega
  simp [hty, conv _ _ htbo, swapWords, swapAt, e]

theorem footer_eod (htbo : tbo = 0#32 ∨ tbo = 1#32) (h2 : pdu + 2 ≤ msize) (hty : mem (pdu + 1) = 7#8) :
    C.rtr_pdu_convert_footer_byte_order mem msize pdu tbo =
      if mem pdu = 1#8 then
        (if pdu + 24 ≤ msize then some (swapWords mem pdu [20, 12, 16, 8]) else none)
      else (if pdu + 12 ≤ msize then some (swapWords mem pdu [8]) else none) := by
  unfold C.rtr_pdu_convert_footer_byte_order
  rw [unfold_footer mem msize pdu h2]
  have h1 : pdu + 1 ≤ msize := by omega
  have ev : (BitVec.setWidth 32 (C.load8 mem pdu) == 1#32) = decide (mem pdu = 1#8) := by
    unfold C.load8
    rw [Bool.eq_iff_iff]
    simp only [beq_iff_eq, decide_eq_true_eq, ← BitVec.toNat_inj, BitVec.toNat_setWidth, BitVec.toNat_ofNat]
    have := (mem pdu).isLt
    omega
  by_cases hv : mem pdu = 1#8
  · by_cases h : pdu + 24 ≤ msize
    · have e1 : pdu + 20 + 4 ≤ msize := by omega
      have e2 : pdu + 12 + 4 ≤ msize := by omega
      have e3 : pdu + 16 + 4 ≤ msize := by omega
      have e4 : pdu + 8 + 4 ≤ msize := by omega
      simp [hty, ev, hv, conv _ _ htbo, swapWords, swapAt, e1, e2, e3, e4, h, h1]
    · have e1 : ¬ pdu + 20 + 4 ≤ msize := by omega
      simp [hty, ev, hv, e1, h, h1]
  · have e : pdu + 8 + 4 ≤ msize ↔ pdu + 12 ≤ msize := by omega
    simp [hty, ev, hv, conv _ _ htbo, swapWords, swapAt, e, h1]

theorem footer_other (h2 : pdu + 2 ≤ msize)
    (hty : mem (pdu + 1) ≠ 0#8 ∧ mem (pdu + 1) ≠ 1#8 ∧ mem (pdu + 1) ≠ 4#8 ∧ mem (pdu + 1) ≠ 6#8 ∧ mem (pdu + 1) ≠ 7#8 ∧
      mem (pdu + 1) ≠ 9#8 ∧ mem (pdu + 1) ≠ 10#8) :
    C.rtr_pdu_convert_footer_byte_order mem msize pdu tbo = some mem := by
  unfold C.rtr_pdu_convert_footer_byte_order
  rw [unfold_footer mem msize pdu h2]
  obtain ⟨a0, a1, a4, a6, a7, a9, a10⟩ := hty
  have s (k : Nat) (hk : k < 128) := sext8_lit_beq (mem (pdu + 1)) k hk
  have s0 := s 0 (by decide); have s1 := s 1 (by decide); have s4 := s 4 (by decide); have s6 := s 6 (by decide)
  have s7 := s 7 (by decide); have s9 := s 9 (by decide); have s10 := s 10 (by decide)
  simp only [s0, s1, s4, s6, s7, s9, s10, a0, a1, a4, a6, a7, a9, a10, decide_false, Bool.false_eq_true, if_false]

/-- **link**: every PDU type with a fixed layout that is converted in place (everything but IPv6 Prefix and Error Report) -/
theorem footer_fixed (htbo : tbo = 0#32 ∨ tbo = 1#32) (h2 : pdu + 2 ≤ msize)
    (h6 : mem (pdu + 1) ≠ 6#8) (h10 : mem (pdu + 1) ≠ 10#8) :
    C.rtr_pdu_convert_footer_byte_order mem msize pdu tbo =
      if pdu + need (mem (pdu + 1)) (mem pdu) ≤ msize then some (swapWords mem pdu (words (mem (pdu + 1)) (mem pdu))) else none := by
  rcases footer_type_cases (mem (pdu + 1)) with h | h | h | h | h | h | h | h
  · rw [footer_serial mem msize pdu tbo htbo h2 (Or.inl h)]; simp [need, words, h]
  · rw [footer_serial mem msize pdu tbo htbo h2 (Or.inr h)]; simp [need, words, h]
  · rw [footer_ipv4 mem msize pdu tbo htbo h2 h]; simp [need, words, h]
  · exact absurd h h6
  · rw [footer_eod mem msize pdu tbo htbo h2 h]
    by_cases hv : mem pdu = 1#8 <;> simp [need, words, h, hv]
  · rw [footer_router_key mem msize pdu tbo htbo h2 h]; simp [need, words, h]
  · exact absurd h h10
  · rw [footer_other mem msize pdu tbo h2 h]
    obtain ⟨a0, a1, a4, a6, a7, a9, a10⟩ := h
    simp [need, words, a0, a1, a4, a6, a7, a9, swapWords, h2]

end

/-! ## words that do not overlap -/

theorem load32_store32_other (m : Mem) (a b : Nat) (v : BitVec 32) (h : a + 4 ≤ b ∨ b + 4 ≤ a) :
    C.load32 (C.store32 m a v) b = C.load32 m b := by
  unfold C.load32
  rw [store32_other m a v b (by omega), store32_other m a v (b + 1) (by omega), store32_other m a v (b + 2) (by omega),
    store32_other m a v (b + 3) (by omega)]

theorem bswap32_bswap32 (v : BitVec 32) : C.bswap32 (C.bswap32 v) = v := by
  have h := bytes_of_32 v
  conv => lhs; rw [← h]
  rw [bswap32_append, bswap32_append]
  exact h

theorem store32_store32_same (m : Mem) (a : Nat) (v w : BitVec 32) : C.store32 (C.store32 m a v) a w = C.store32 m a w := by
  funext x; unfold C.store32
  by_cases h0 : x = a <;> by_cases h1 : x = a + 1 <;> by_cases h2 : x = a + 2 <;> by_cases h3 : x = a + 3 <;> simp [h0, h1, h2, h3]

theorem store32_load32_same (m : Mem) (a : Nat) : C.store32 m a (C.load32 m a) = m := by
  funext x; unfold C.store32 C.load32
  by_cases h0 : x = a
  · subst h0; simp; rw [BitVec.extractLsb'_append_eq_of_add_le (by decide)]; simp
  · by_cases h1 : x = a + 1
    · subst h1; simp
      rw [BitVec.extractLsb'_append_eq_of_le (by decide), BitVec.extractLsb'_append_eq_of_add_le (by decide)]; simp
    · by_cases h2 : x = a + 2
      · subst h2; simp
        rw [BitVec.extractLsb'_append_eq_of_le (by decide), BitVec.extractLsb'_append_eq_of_le (by decide),
          BitVec.extractLsb'_append_eq_of_add_le (by decide)]; simp
      · by_cases h3 : x = a + 3
        · subst h3; simp
          rw [BitVec.extractLsb'_append_eq_of_le (by decide), BitVec.extractLsb'_append_eq_of_le (by decide),
            BitVec.extractLsb'_append_eq_of_le (by decide)]; simp
        · simp [h0, h1, h2, h3]

/-- swapping a word twice restores the memory -/
theorem swapAt_swapAt (m : Mem) (a : Nat) : swapAt (swapAt m a) a = m := by
  unfold swapAt
  rw [load32_store32, bswap32_bswap32, store32_store32_same, store32_load32_same]

theorem store32_in (m m' : Mem) (a : Nat) (v : BitVec 32) (x : Nat) (h : a ≤ x ∧ x < a + 4) :
    C.store32 m a v x = C.store32 m' a v x := by
  unfold C.store32
  by_cases h0 : x = a
  · simp [h0]
  · by_cases h1 : x = a + 1
    · simp [h1]
    · by_cases h2 : x = a + 2
      · simp [h2]
      · by_cases h3 : x = a + 3
        · simp [h3]
        · exfalso; omega

theorem store32_comm (m : Mem) (a b : Nat) (v w : BitVec 32) (h : a + 4 ≤ b ∨ b + 4 ≤ a) :
    C.store32 (C.store32 m a v) b w = C.store32 (C.store32 m b w) a v := by
  funext x
  by_cases ha : a ≤ x ∧ x < a + 4
  · rw [store32_other _ b w x (by omega), store32_in (C.store32 m b w) m a v x ha]
  · by_cases hb : b ≤ x ∧ x < b + 4
    · rw [store32_other _ a v x (by omega), store32_in (C.store32 m a v) m b w x hb]
    · rw [store32_other _ b w x (by omega), store32_other _ a v x (by omega), store32_other _ a v x (by omega),
        store32_other _ b w x (by omega)]

/-- swaps of disjoint words commute -/
theorem swapAt_comm (m : Mem) (a b : Nat) (h : a + 4 ≤ b ∨ b + 4 ≤ a) : swapAt (swapAt m a) b = swapAt (swapAt m b) a := by
  unfold swapAt
  rw [load32_store32_other m a b _ h, load32_store32_other m b a _ (by omega), store32_comm m a b _ _ h]

/-- all offsets of the list are at least four bytes away from `o` -/
def Apart (o : Nat) (l : List Nat) : Prop := ∀ x ∈ l, o + 4 ≤ x ∨ x + 4 ≤ o

def Disjoint : List Nat → Prop
  | [] => True
  | o :: os => Apart o os ∧ Disjoint os

theorem swapAt_swapWords (m : Mem) (pdu o : Nat) (l : List Nat) (h : Apart o l) :
    swapAt (swapWords m pdu l) (pdu + o) = swapWords (swapAt m (pdu + o)) pdu l := by
  induction l generalizing m with
  | nil => rfl
  | cons x xs ih =>
    have hx := h x (by simp)
    simp only [swapWords]
    rw [ih _ (fun y hy => h y (by simp [hy])), swapAt_comm m (pdu + o) (pdu + x) (by omega)]

/-- **round trip**: swapping pairwise disjoint words twice is the identity -/
theorem swapWords_involutive (m : Mem) (pdu : Nat) (l : List Nat) (h : Disjoint l) : swapWords (swapWords m pdu l) pdu l = m := by
  induction l generalizing m with
  | nil => rfl
  | cons o os ih =>
    obtain ⟨ha, hd⟩ := h
    show swapWords (swapAt (swapWords (swapAt m (pdu + o)) pdu os) (pdu + o)) pdu os = m
    rw [swapAt_swapWords _ pdu o os ha, swapAt_swapAt, ih m hd]

theorem words_disjoint (ty ver : BitVec 8) : Disjoint (words ty ver) := by
  unfold words
  split
  · simp [Disjoint, Apart]
  · split
    · simp [Disjoint, Apart]
    · split
      · simp [Disjoint, Apart]
      · split
        · split <;> simp [Disjoint, Apart]
        · split <;> simp [Disjoint, Apart]

/-- a swap of a word behind the header leaves the header's version and type bytes alone -/
theorem swapWords_low (m : Mem) (pdu : Nat) (l : List Nat) (h : ∀ o ∈ l, 8 ≤ o) (x : Nat) (hx : x < pdu + 8) :
    swapWords m pdu l x = m x := by
  induction l generalizing m with
  | nil => rfl
  | cons o os ih =>
    have := h o (by simp)
    simp only [swapWords]
    rw [ih _ (fun y hy => h y (by simp [hy]))]
    unfold swapAt
    exact store32_other _ _ _ _ (by omega)

theorem words_ge (ty ver : BitVec 8) : ∀ o ∈ words ty ver, 8 ≤ o := by
  unfold words
  split
  · simp
  · split
    · simp
    · split
      · simp
      · split
        · split <;> simp
        · split <;> simp

/-- **round trip of the translated text** (fixed-layout types): the conversion to network byte order followed by the conversion to
    host byte order - both as translated from the C text - gives the memory back -/
theorem footer_fixed_round_trip (mem : Mem) (msize pdu : Nat) (h2 : pdu + 2 ≤ msize)
    (h6 : mem (pdu + 1) ≠ 6#8) (h10 : mem (pdu + 1) ≠ 10#8) (hn : pdu + need (mem (pdu + 1)) (mem pdu) ≤ msize) :
    (C.rtr_pdu_convert_footer_byte_order mem msize pdu 0#32).bind (fun m' => C.rtr_pdu_convert_footer_byte_order m' msize pdu 1#32)
      = some mem := by
  rw [footer_fixed mem msize pdu 0#32 (Or.inl rfl) h2 h6 h10, if_pos hn]
  simp only [Option.bind_some]
  have l0 := swapWords_low mem pdu _ (words_ge (mem (pdu + 1)) (mem pdu)) pdu (by omega)
  have l1 := swapWords_low mem pdu _ (words_ge (mem (pdu + 1)) (mem pdu)) (pdu + 1) (by omega)
  rw [footer_fixed _ msize pdu 1#32 (Or.inr rfl) h2 (by rw [l1]; exact h6) (by rw [l1]; exact h10), l0, l1, if_pos hn,
    swapWords_involutive _ _ _ (words_disjoint _ _)]

/-! ## the Error Report: a word whose position is read from the PDU -/

section
variable (mem : Mem) (msize pdu : Nat)

/-- to network byte order: the text-length word behind the encapsulated PDU is found with the still host-order length `L`,
    then the length itself is swapped -/
theorem footer_error_to_network (h2 : pdu + 2 ≤ msize) (hty : mem (pdu + 1) = 10#8) :
    C.rtr_pdu_convert_footer_byte_order mem msize pdu 0#32 =
      if pdu + 12 ≤ msize ∧ pdu + 12 + (C.load32 mem (pdu + 8)).toNat + 4 ≤ msize then
        some (swapAt (swapAt mem (pdu + 12 + (C.load32 mem (pdu + 8)).toNat)) (pdu + 8))
      else none := by
  unfold C.rtr_pdu_convert_footer_byte_order
  rw [unfold_footer mem msize pdu h2]
  by_cases h : pdu + 12 ≤ msize ∧ pdu + 12 + (C.load32 mem (pdu + 8)).toNat + 4 ≤ msize
  · obtain ⟨ha, hb⟩ := h
    have e1 : pdu + 8 + 4 ≤ msize := by omega
    have e2 : pdu + 12 + (C.load32 mem (pdu + 8)).toNat ≤ msize := by omega
    simp [hty, conv, swapAt, e1, e2, ha, hb]
  · by_cases ha : pdu + 8 + 4 ≤ msize
    · have hb : ¬ pdu + 12 + (C.load32 mem (pdu + 8)).toNat + 4 ≤ msize := fun hb => h ⟨by omega, hb⟩
      simp [hty, hb, h]
    · have : ¬ pdu + 12 ≤ msize := by omega
      simp [hty, ha, this]

/-- to host byte order: the length is swapped first, the text-length word is found with the now host-order length -/
theorem footer_error_to_host (h2 : pdu + 2 ≤ msize) (hty : mem (pdu + 1) = 10#8) :
    C.rtr_pdu_convert_footer_byte_order mem msize pdu 1#32 =
      if pdu + 12 ≤ msize ∧ pdu + 12 + (C.bswap32 (C.load32 mem (pdu + 8))).toNat + 4 ≤ msize then
        some (swapAt (swapAt mem (pdu + 8)) (pdu + 12 + (C.bswap32 (C.load32 mem (pdu + 8))).toNat))
      else none := by
  unfold C.rtr_pdu_convert_footer_byte_order
  rw [unfold_footer mem msize pdu h2]
  by_cases ha : pdu + 8 + 4 ≤ msize
  · have ha' : pdu + 12 ≤ msize := by omega
    by_cases hb : pdu + 12 + (C.bswap32 (C.load32 mem (pdu + 8))).toNat + 4 ≤ msize
    · have e2 : pdu + 12 + (C.bswap32 (C.load32 mem (pdu + 8))).toNat ≤ msize := by omega
      simp [hty, conv, swapAt, ha, ha', hb, e2, load32_store32]
    · simp [hty, conv, ha, ha', hb, load32_store32]
  · have : ¬ pdu + 12 ≤ msize := by omega
    simp [hty, ha, this]

/-- **round trip of the translated text** (Error Report): to network, then to host, is the identity -/
theorem footer_error_round_trip (h2 : pdu + 2 ≤ msize) (hty : mem (pdu + 1) = 10#8)
    (hn : pdu + 12 ≤ msize ∧ pdu + 12 + (C.load32 mem (pdu + 8)).toNat + 4 ≤ msize) :
    (C.rtr_pdu_convert_footer_byte_order mem msize pdu 0#32).bind (fun m' => C.rtr_pdu_convert_footer_byte_order m' msize pdu 1#32)
      = some mem := by
  rw [footer_error_to_network mem msize pdu h2 hty, if_pos hn]
  simp only [Option.bind_some]
  let L := (C.load32 mem (pdu + 8)).toNat
  have hL : (C.load32 mem (pdu + 8)).toNat = L := rfl
  rw [hL] at hn ⊢
  let m1 := swapAt (swapAt mem (pdu + 12 + L)) (pdu + 8)
  have t1 : m1 (pdu + 1) = mem (pdu + 1) := by
    show swapAt (swapAt mem (pdu + 12 + L)) (pdu + 8) (pdu + 1) = _
    unfold swapAt
    rw [store32_other _ _ _ _ (by omega), store32_other _ _ _ _ (by omega)]
  have t8 : C.load32 m1 (pdu + 8) = C.bswap32 (C.load32 mem (pdu + 8)) := by
    show C.load32 (swapAt (swapAt mem (pdu + 12 + L)) (pdu + 8)) (pdu + 8) = _
    unfold swapAt
    rw [load32_store32, load32_store32_other _ _ _ _ (by omega)]
  rw [footer_error_to_host m1 msize pdu h2 (by rw [t1]; exact hty), t8, bswap32_bswap32, hL, if_pos hn]
  show some (swapAt (swapAt (swapAt (swapAt mem (pdu + 12 + L)) (pdu + 8)) (pdu + 8)) (pdu + 12 + L)) = some mem
  rw [swapAt_swapAt, swapAt_swapAt]

end

/-! ## IPv6 Prefix: converted through a local copy -/

theorem memcpy_in (m : Mem) (d s n x : Nat) (h : d ≤ x ∧ x < d + n) : C.memcpy m d s n x = m (s + (x - d)) := by
  unfold C.memcpy; rw [if_pos h]
theorem memcpy_out (m : Mem) (d s n x : Nat) (h : x < d ∨ d + n ≤ x) : C.memcpy m d s n x = m x := by
  unfold C.memcpy; rw [if_neg (by omega)]

theorem load32_congr (m m' : Mem) (a : Nat) (h : ∀ k, k < 4 → m (a + k) = m' (a + k)) : C.load32 m a = C.load32 m' a := by
  unfold C.load32
  rw [h 3 (by omega), h 2 (by omega), h 1 (by omega)]
  have := h 0 (by omega)
  simp only [Nat.add_zero] at this
  rw [this]

/-- the byte a 32-bit store leaves at `a + j` depends on the value and on `j` only -/
theorem store32_shift (m m' : Mem) (a a' : Nat) (v : BitVec 32) (j : Nat) (hj : j < 4) :
    C.store32 m a v (a + j) = C.store32 m' a' v (a' + j) := by
  have : j = 0 ∨ j = 1 ∨ j = 2 ∨ j = 3 := by omega
  unfold C.store32
  rcases this with e | e | e | e <;> subst e <;> simp

/-- four words written to a scratch area `S` and copied to `p` are, seen from below `S`, four words written at `p` -/
theorem via_copy (m : Mem) (p S : Nat) (v0 v1 v2 v3 : BitVec 32) (x : Nat) (hx : x < S) (hp : p + 16 ≤ S) :
    C.memcpy (C.store32 (C.store32 (C.store32 (C.store32 m S v0) (S + 4) v1) (S + 8) v2) (S + 12) v3) p S 16 x
      = C.store32 (C.store32 (C.store32 (C.store32 m p v0) (p + 4) v1) (p + 8) v2) (p + 12) v3 x := by
  by_cases hout : x < p ∨ p + 16 ≤ x
  · rw [memcpy_out _ _ _ _ _ hout, store32_other _ _ _ _ (by omega), store32_other _ _ _ _ (by omega),
      store32_other _ _ _ _ (by omega), store32_other _ _ _ _ (by omega), store32_other _ _ _ _ (by omega),
      store32_other _ _ _ _ (by omega), store32_other _ _ _ _ (by omega), store32_other _ _ _ _ (by omega)]
  · rw [memcpy_in _ _ _ _ _ (by omega)]
    by_cases w0 : x < p + 4
    · obtain ⟨j, rfl⟩ : ∃ j, x = p + j := ⟨x - p, by omega⟩
      have e : S + (p + j - p) = S + j := by omega
      rw [e, store32_other _ _ _ _ (by omega), store32_other _ _ _ _ (by omega), store32_other _ _ _ _ (by omega),
        store32_other _ (p + 12) _ _ (by omega), store32_other _ (p + 8) _ _ (by omega), store32_other _ (p + 4) _ _ (by omega)]
      exact store32_shift _ _ _ _ _ j (by omega)
    · by_cases w1 : x < p + 8
      · obtain ⟨j, rfl⟩ : ∃ j, x = p + 4 + j := ⟨x - (p + 4), by omega⟩
        have e : S + (p + 4 + j - p) = S + 4 + j := by omega
        rw [e, store32_other _ _ _ _ (by omega), store32_other _ _ _ _ (by omega),
          store32_other _ (p + 12) _ _ (by omega), store32_other _ (p + 8) _ _ (by omega)]
        exact store32_shift _ _ _ _ _ j (by omega)
      · by_cases w2 : x < p + 12
        · obtain ⟨j, rfl⟩ : ∃ j, x = p + 8 + j := ⟨x - (p + 8), by omega⟩
          have e : S + (p + 8 + j - p) = S + 8 + j := by omega
          rw [e, store32_other _ _ _ _ (by omega), store32_other _ (p + 12) _ _ (by omega)]
          exact store32_shift _ _ _ _ _ j (by omega)
        · obtain ⟨j, rfl⟩ : ∃ j, x = p + 12 + j := ⟨x - (p + 12), by omega⟩
          have e : S + (p + 12 + j - p) = S + 12 + j := by omega
          rw [e]
          exact store32_shift _ _ _ _ _ j (by omega)

theorem ipv6_shape (m : Mem) (p S x : Nat) (hp : p + 20 ≤ S) (hx : x < S) :
    C.store32
        (C.memcpy
          (C.store32
            (C.store32
              (C.store32 (C.store32 m S (C.bswap32 (C.load32 m p))) (S + 4)
                (C.bswap32 (C.load32 (C.store32 m S (C.bswap32 (C.load32 m p))) (p + 4))))
              (S + 8)
              (C.bswap32
                (C.load32
                  (C.store32 (C.store32 m S (C.bswap32 (C.load32 m p))) (S + 4)
                    (C.bswap32 (C.load32 (C.store32 m S (C.bswap32 (C.load32 m p))) (p + 4))))
                  (p + 8))))
            (S + 12)
            (C.bswap32
              (C.load32
                (C.store32
                  (C.store32 (C.store32 m S (C.bswap32 (C.load32 m p))) (S + 4)
                    (C.bswap32 (C.load32 (C.store32 m S (C.bswap32 (C.load32 m p))) (p + 4))))
                  (S + 8)
                  (C.bswap32
                    (C.load32
                      (C.store32 (C.store32 m S (C.bswap32 (C.load32 m p))) (S + 4)
                        (C.bswap32 (C.load32 (C.store32 m S (C.bswap32 (C.load32 m p))) (p + 4))))
                      (p + 8))))
                (p + 12))))
          p S 16)
        (p + 16)
        (C.bswap32
          (C.load32
            (C.memcpy
              (C.store32
                (C.store32
                  (C.store32 (C.store32 m S (C.bswap32 (C.load32 m p))) (S + 4)
                    (C.bswap32 (C.load32 (C.store32 m S (C.bswap32 (C.load32 m p))) (p + 4))))
                  (S + 8)
                  (C.bswap32
                    (C.load32
                      (C.store32 (C.store32 m S (C.bswap32 (C.load32 m p))) (S + 4)
                        (C.bswap32 (C.load32 (C.store32 m S (C.bswap32 (C.load32 m p))) (p + 4))))
                      (p + 8))))
                (S + 12)
                (C.bswap32
                  (C.load32
                    (C.store32
                      (C.store32 (C.store32 m S (C.bswap32 (C.load32 m p))) (S + 4)
                        (C.bswap32 (C.load32 (C.store32 m S (C.bswap32 (C.load32 m p))) (p + 4))))
                      (S + 8)
                      (C.bswap32
                        (C.load32
                          (C.store32 (C.store32 m S (C.bswap32 (C.load32 m p))) (S + 4)
                            (C.bswap32 (C.load32 (C.store32 m S (C.bswap32 (C.load32 m p))) (p + 4))))
                          (p + 8))))
                    (p + 12))))
              p S 16)
            (p + 16)))
        x
      = swapAt (swapAt (swapAt (swapAt (swapAt m p) (p + 4)) (p + 8)) (p + 12)) (p + 16) x := by
  -- the loads of the source words do not see the scratch stores
  rw [load32_store32_other m S (p + 4) _ (by omega)]
  rw [load32_store32_other _ (S + 4) (p + 8) _ (by omega), load32_store32_other m S (p + 8) _ (by omega)]
  rw [load32_store32_other _ (S + 8) (p + 12) _ (by omega), load32_store32_other _ (S + 4) (p + 12) _ (by omega),
    load32_store32_other m S (p + 12) _ (by omega)]
  -- the AS number behind the address is neither copied nor scratch
  rw [load32_congr _ m (p + 16) (fun k hk => by
    rw [memcpy_out _ _ _ _ _ (by omega), store32_other _ _ _ _ (by omega), store32_other _ _ _ _ (by omega),
      store32_other _ _ _ _ (by omega), store32_other _ _ _ _ (by omega)])]
  -- the in-place side
  unfold swapAt
  rw [load32_store32_other m p (p + 4) _ (by omega)]
  rw [load32_store32_other _ (p + 4) (p + 8) _ (by omega), load32_store32_other m p (p + 8) _ (by omega)]
  rw [load32_store32_other _ (p + 8) (p + 12) _ (by omega), load32_store32_other _ (p + 4) (p + 12) _ (by omega),
    load32_store32_other m p (p + 12) _ (by omega)]
  rw [load32_store32_other _ (p + 12) (p + 16) _ (by omega), load32_store32_other _ (p + 8) (p + 16) _ (by omega),
    load32_store32_other _ (p + 4) (p + 16) _ (by omega), load32_store32_other m p (p + 16) _ (by omega)]
  by_cases hin : p + 16 ≤ x ∧ x < p + 16 + 4
  · exact store32_in _ _ _ _ _ hin
  · rw [store32_other _ _ _ _ (by omega), store32_other _ (p + 16) _ _ (by omega)]
    exact via_copy m p S _ _ _ _ x hx (by omega)

set_option maxRecDepth 8192 in
/-- the four address words go through a 16-byte local (which lies in the stack pages, beyond every buffer) and are copied back;
    seen from the buffer this is the in-place swap of the words 12 16 20 24, followed by the AS number at 28 -/
theorem footer_ipv6 (mem : Mem) (msize pdu : Nat) (tbo : BitVec 32) (htbo : tbo = 0#32 ∨ tbo = 1#32) (h2 : pdu + 2 ≤ msize)
    (hs : msize ≤ C.STACK) (hty : mem (pdu + 1) = 6#8) :
    if pdu + 32 ≤ msize then
      ∃ m', C.rtr_pdu_convert_footer_byte_order mem msize pdu tbo = some m' ∧
        ∀ x, x < C.STACK → m' x = swapWords mem pdu [12, 16, 20, 24, 28] x
    else C.rtr_pdu_convert_footer_byte_order mem msize pdu tbo = none := by
  unfold C.rtr_pdu_convert_footer_byte_order
  rw [unfold_footer mem msize pdu h2]
  have hS : C.STACK = 1099511627776 := by unfold C.STACK; rfl
  have t6 : (BitVec.signExtend 32 (6#8) == 1#32) = false ∧ (BitVec.signExtend 32 (6#8) == 10#32) = false ∧
      (BitVec.signExtend 32 (6#8) == 0#32) = false ∧ (BitVec.signExtend 32 (6#8) == 7#32) = false ∧
      (BitVec.signExtend 32 (6#8) == 4#32) = false ∧ (BitVec.signExtend 32 (6#8) == 6#32) = true ∧
      (BitVec.signExtend 32 (6#8) == 9#32) = false := by decide
  obtain ⟨t1, t10, t0, t7, t4, t66, t9⟩ := t6
  by_cases h : pdu + 32 ≤ msize
  · rw [if_pos h]
    have c1 : pdu + 12 + 0 ≤ msize := by omega
    have c2 : pdu + 12 + 0 + 4 ≤ msize := by omega
    have c3 : pdu + 12 + 4 ≤ msize := by omega
    have c4 : pdu + 12 + 4 + 4 ≤ msize := by omega
    have c5 : pdu + 12 + 8 ≤ msize := by omega
    have c6 : pdu + 12 + 8 + 4 ≤ msize := by omega
    have c7 : pdu + 12 + 12 ≤ msize := by omega
    have c8 : pdu + 12 + 12 + 4 ≤ msize := by omega
    have c9 : pdu + 12 + 16 ≤ msize := by omega
    have g28 : pdu + 28 + 4 ≤ msize := by omega
    have d1 : pdu + 12 + 16 ≤ C.STACK + 4096 ∨ C.STACK + 4096 + 16 ≤ pdu + 12 := by omega
    have d2 : pdu ≤ C.STACK + 4068 ∨ C.STACK + 4100 ≤ pdu := by omega
    have q1 : pdu + 12 + 20 ≤ C.STACK + 4096 := by omega
    have e28 : pdu + 28 = pdu + 12 + 16 := by omega
    have e16 : pdu + 16 = pdu + 12 + 4 := by omega
    have e20 : pdu + 20 = pdu + 12 + 8 := by omega
    have e24 : pdu + 24 = pdu + 12 + 12 := by omega
    simp only [hty, conv _ _ htbo, c1, c2, c3, c4, c5, c6, c7, c8, c9, d1, g28, decide_true, Bool.and_self, if_true,
      Nat.add_zero, Nat.le_refl, Nat.add_le_add_iff_left, Nat.reduceLeDiff, Nat.reduceAdd, t1, t10, t0, t7, t4, t66, t9,
      Bool.false_eq_true, if_false]
    simp only [d2, Nat.le_add_right, decide_true, Bool.and_self, if_true]
    refine ⟨_, rfl, ?_⟩
    intro x hx
    have q2 : x < C.STACK + 4096 := Nat.lt_of_lt_of_le hx (Nat.le_add_right _ _)
    rw [e28]
    rw [ipv6_shape mem (pdu + 12) (C.STACK + 4096) x q1 q2]
    show _ = swapAt (swapAt (swapAt (swapAt (swapAt mem (pdu + 12)) (pdu + 16)) (pdu + 20)) (pdu + 24)) (pdu + 28) x
    rw [e16, e20, e24, e28]
  · rw [if_neg h]
    simp only [hty, conv _ _ htbo, t1, t10, t0, t7, t4, t66, t9, Bool.false_eq_true, if_false, if_true]
    repeat (rw [ite_eq_right_iff]; intro hc; simp only [Bool.and_eq_true, decide_eq_true_eq] at hc)
    exfalso; omega

end Rtr.CLink.Footer
