/-
  SyncAtomic: the whole of `rtr_sync` (model `syncG`) is atomic with respect to the tables and
  the session state: on success the buffered PDUs have been applied in order, on failure the
  tables are as before (with the same next query) or this socket's records are gone and a new
  session is requested.  Records of other sockets are never touched.
-/
import RtrProofs.SyncTables

namespace Rtr.P

/-! ## the table part on the live tables -/

/-- the tables the buffered PDUs are applied to: the live ones, or (reload) a copy without this
    socket's records -/
def baseOf (t : Tbl) (resetting : Bool) : Upd :=
  if resetting then ⟨ptSrcRemove t.pt 0, ktSrcRemove t.kt 0⟩ else ⟨t.pt, t.kt⟩

def NoOwn (t : Tbl) : Prop := (∀ x ∈ t.pt, x.src ≠ 0) ∧ (∀ x ∈ t.kt, x.src ≠ 0)

def OthersSame (t t' : Tbl) : Prop :=
  (∀ x : Rec, x.src ≠ 0 → (x ∈ t'.pt ↔ x ∈ t.pt)) ∧ (∀ x : KeyRec, x.src ≠ 0 → (x ∈ t'.kt ↔ x ∈ t.kt))

def TblSame (t t' : Tbl) : Prop := SameSet t'.pt t.pt ∧ SameSet t'.kt t.kt

def TblOK (t : Tbl) : Prop := t.shadow = none ∧ t.pt.Nodup ∧ t.kt.Nodup

structure TablesAtomic (t : Tbl) (resetting : Bool) (v4 v6 keys : List (List Nat)) (r : ApplyRes) : Prop where
  nodup : r.t.pt.Nodup ∧ r.t.kt.Nodup
  others : OthersSame t r.t
  success : r.ok = true → r.t.shadow = none ∧
    lsApplyAll (baseOf t resetting).pt ((v4 ++ v6).map pfxOp) = some r.t.pt ∧
    lsApplyAll (baseOf t resetting).kt (keys.map keyOp) = some r.t.kt ∧
    (∀ p ∈ v4 ++ v6, pfxOK p) ∧ (∀ p ∈ keys, keyOK p)
  restored : r.ok = false → r.purged = false → TblSame t r.t
  purged : r.ok = false → r.purged = true → NoOwn r.t

theorem mem_ptSrcRemove (l : List Rec) (x : Rec) : x ∈ ptSrcRemove l 0 ↔ x ∈ l ∧ x.src ≠ 0 := by
  simp [ptSrcRemove]
theorem mem_ktSrcRemove (l : List KeyRec) (x : KeyRec) : x ∈ ktSrcRemove l 0 ↔ x ∈ l ∧ x.src ≠ 0 := by
  simp [ktSrcRemove]

theorem applyTables_atomic (c : Conn) (n : Net) (t : Tbl) (resetting : Bool) (v4 v6 keys : List (List Nat))
    (ht : TblOK t) : TablesAtomic t resetting v4 v6 keys (applyTables c n t resetting v4 v6 keys) := by
  obtain ⟨hs, hp, hk⟩ := ht
  have L := applyTables_lift c n t resetting v4 v6 keys
  simp only at L
  obtain ⟨l1, l2, l3⟩ := L
  cases resetting
  · -- incremental update: the live tables are the update tables
    simp only [Bool.false_eq_true, if_false] at l1 l2 l3
    have hu : t.upd = ⟨t.pt, t.kt⟩ := by simp [Tbl.upd, hs]
    rw [hu] at l1 l2 l3
    have A := applyTablesU_atomic ⟨t.pt, t.kt⟩ v4 v6 keys hp hk
    generalize applyTablesU ⟨t.pt, t.kt⟩ v4 v6 keys = R at *
    have hset : t.setUpd R.u = ⟨R.u.pt, R.u.kt, none⟩ := by
      obtain ⟨pt, kt, sh⟩ := t; simp only at hs; subst hs; simp [Tbl.setUpd]
    unfold liftRes at l3
    rw [hset] at l3
    have base : baseOf t false = ⟨t.pt, t.kt⟩ := by simp [baseOf]
    cases hok : R.ok
    · rw [hok] at l1 l2 l3
      simp only [Bool.false_eq_true, if_false, Bool.not_false, Bool.true_and] at l2 l3
      cases hun : R.undone
      · rw [hun] at l2 l3
        simp only [Bool.false_eq_true, if_false, Bool.not_false] at l2 l3
        refine ⟨?_, ?_, (fun h => absurd h (by rw [l1]; simp)), (fun _ h => absurd h (by rw [l2]; simp)), fun _ _ => ?_⟩
        · rw [l3]; simp only [Tbl.purge]
          exact ⟨(A.pres.1 hp).sublist List.filter_sublist, (A.pres.2.1 hk).sublist List.filter_sublist⟩
        · rw [l3]; simp only [Tbl.purge]
          refine ⟨fun x hx => ?_, fun x hx => ?_⟩
          · rw [mem_ptSrcRemove]; simp only [hx, ne_eq, not_false_eq_true, and_true]; exact A.pres.2.2.1 x hx
          · rw [mem_ktSrcRemove]; simp only [hx, ne_eq, not_false_eq_true, and_true]; exact A.pres.2.2.2 x hx
        · rw [l3]; simp only [Tbl.purge]
          exact ⟨fun x hx => ((mem_ptSrcRemove _ x).1 hx).2, fun x hx => ((mem_ktSrcRemove _ x).1 hx).2⟩
      · rw [hun] at l2 l3
        simp only [if_true, Bool.not_true] at l2 l3
        have rs := A.restored hok hun
        refine ⟨?_, ?_, (fun h => absurd h (by rw [l1]; simp)), fun _ _ => ?_, (fun _ h => absurd h (by rw [l2]; simp))⟩
        · rw [l3]; exact ⟨A.pres.1 hp, A.pres.2.1 hk⟩
        · rw [l3]; exact ⟨fun x hx => A.pres.2.2.1 x hx, fun x hx => A.pres.2.2.2 x hx⟩
        · rw [l3]; exact rs
    · rw [hok] at l1 l2 l3
      simp only [if_true, Tbl.swapIn] at l3
      have sc := A.success hok
      refine ⟨?_, ?_, fun _ => ?_, (fun h => absurd h (by rw [l1]; simp)), (fun h => absurd h (by rw [l1]; simp))⟩
      · rw [l3]; exact ⟨A.pres.1 hp, A.pres.2.1 hk⟩
      · rw [l3]; exact ⟨fun x hx => A.pres.2.2.1 x hx, fun x hx => A.pres.2.2.2 x hx⟩
      · rw [l3, base]; exact ⟨rfl, sc.1, sc.2.1, sc.2.2.1, sc.2.2.2⟩
  · -- reload: shadow tables
    simp only [if_true] at l1 l2 l3
    have hu : ({ t with shadow := some ⟨ptSrcRemove t.pt 0, ktSrcRemove t.kt 0⟩ } : Tbl).upd =
        ⟨ptSrcRemove t.pt 0, ktSrcRemove t.kt 0⟩ := by simp [Tbl.upd]
    rw [hu] at l1 l2 l3
    have np : (ptSrcRemove t.pt 0).Nodup := hp.sublist List.filter_sublist
    have nk : (ktSrcRemove t.kt 0).Nodup := hk.sublist List.filter_sublist
    have A := applyTablesU_atomic ⟨ptSrcRemove t.pt 0, ktSrcRemove t.kt 0⟩ v4 v6 keys np nk
    generalize applyTablesU ⟨ptSrcRemove t.pt 0, ktSrcRemove t.kt 0⟩ v4 v6 keys = R at *
    have hset : ({ t with shadow := some ⟨ptSrcRemove t.pt 0, ktSrcRemove t.kt 0⟩ } : Tbl).setUpd R.u =
        { t with shadow := some R.u } := by simp [Tbl.setUpd]
    unfold liftRes at l3
    rw [hset] at l3
    have base : baseOf t true = ⟨ptSrcRemove t.pt 0, ktSrcRemove t.kt 0⟩ := by simp [baseOf]
    have oth : OthersSame t ⟨R.u.pt, R.u.kt, none⟩ := by
      refine ⟨fun x hx => ?_, fun x hx => ?_⟩
      · rw [A.pres.2.2.1 x hx, mem_ptSrcRemove]; simp [hx]
      · rw [A.pres.2.2.2 x hx, mem_ktSrcRemove]; simp [hx]
    cases hok : R.ok
    · rw [hok] at l1 l2 l3
      simp only [Bool.false_eq_true, if_false, Bool.not_false, Bool.true_and] at l2 l3
      cases hun : R.undone
      · rw [hun] at l2 l3
        simp only [Bool.false_eq_true, if_false, Bool.not_false] at l2 l3
        refine ⟨?_, ?_, (fun h => absurd h (by rw [l1]; simp)), (fun _ h => absurd h (by rw [l2]; simp)), fun _ _ => ?_⟩
        · rw [l3]; simp only [Tbl.purge]; exact ⟨np, nk⟩
        · rw [l3]; simp only [Tbl.purge]
          exact ⟨fun x hx => by rw [mem_ptSrcRemove]; simp [hx], fun x hx => by rw [mem_ktSrcRemove]; simp [hx]⟩
        · rw [l3]; simp only [Tbl.purge]
          exact ⟨fun x hx => ((mem_ptSrcRemove _ x).1 hx).2, fun x hx => ((mem_ktSrcRemove _ x).1 hx).2⟩
      · rw [hun] at l2 l3
        simp only [if_true, Bool.not_true] at l2 l3
        refine ⟨?_, ?_, (fun h => absurd h (by rw [l1]; simp)), fun _ _ => ?_, (fun _ h => absurd h (by rw [l2]; simp))⟩
        · rw [l3]; exact ⟨hp, hk⟩
        · rw [l3]; exact ⟨fun _ _ => Iff.rfl, fun _ _ => Iff.rfl⟩
        · rw [l3]; exact ⟨SameSet.refl _, SameSet.refl _⟩
    · rw [hok] at l1 l2 l3
      simp only [if_true, Tbl.swapIn] at l3
      have sc := A.success hok
      refine ⟨?_, ?_, fun _ => ?_, (fun h => absurd h (by rw [l1]; simp)), (fun h => absurd h (by rw [l1]; simp))⟩
      · rw [l3]; exact ⟨A.pres.1 np, A.pres.2.1 nk⟩
      · rw [l3]; exact oth
      · rw [l3, base]; exact ⟨rfl, sc.1, sc.2.1, sc.2.2.1, sc.2.2.2⟩

end Rtr.P

namespace Rtr.P

/-! ## rtr_sync_receive_and_store_pdus and rtr_sync -/

/-- the query the socket sends next: `none` = Reset Query, `some (session, serial)` = Serial Query -/
def nextQuery (ss : Sess) : Option (Nat × Nat) := if ss.reqSession then none else some (ss.session, ss.serial)

structure RSpec (t : Tbl) (ss : Sess) (ok : Bool) (t' : Tbl) (ss' : Sess) (g : Option Buffered) : Prop where
  tblok : TblOK t'
  others : OthersSame t t'
  sess : ss'.session = ss.session ∧ ss'.lastUpdate = ss.lastUpdate
  success : ok = true → ∃ b, g = some b ∧ be16 b.eod 2 = ss.session ∧
    lsApplyAll (baseOf t ss.isResetting).pt ((b.v4 ++ b.v6).map pfxOp) = some t'.pt ∧
    lsApplyAll (baseOf t ss.isResetting).kt (b.keys.map keyOp) = some t'.kt ∧
    (∀ p ∈ b.v4 ++ b.v6, pfxOK p) ∧ (∀ p ∈ b.keys, keyOK p) ∧
    ss'.serial = be32 b.eod 8 ∧ ss'.reqSession = ss.reqSession
  failure : ok = false → ss'.serial = ss.serial ∧
    ((TblSame t t' ∧ ss'.reqSession = ss.reqSession) ∨ (NoOwn t' ∧ ss'.reqSession = true))

theorem OthersSame.refl (t : Tbl) : OthersSame t t := ⟨fun _ _ => Iff.rfl, fun _ _ => Iff.rfl⟩
theorem TblSame.refl (t : Tbl) : TblSame t t := ⟨SameSet.refl _, SameSet.refl _⟩

/-- a failure that leaves tables and session untouched (apart from `cleanup`) -/
theorem rspec_unchanged (t : Tbl) (ss : Sess) (ht : TblOK t) (t' : Tbl) (ss' : Sess)
    (h1 : t'.pt = t.pt ∧ t'.kt = t.kt ∧ t'.shadow = none)
    (h2 : ss'.session = ss.session ∧ ss'.lastUpdate = ss.lastUpdate ∧ ss'.serial = ss.serial ∧ ss'.reqSession = ss.reqSession) :
    RSpec t ss false t' ss' none := by
  obtain ⟨e1, e2, e3⟩ := h1
  refine ⟨⟨e3, by rw [e1]; exact ht.2.1, by rw [e2]; exact ht.2.2⟩, ⟨fun x _ => by rw [e1], fun x _ => by rw [e2]⟩,
    ⟨h2.1, h2.2.1⟩, (fun h => nomatch h), fun _ => ⟨h2.2.2.1, Or.inl ⟨⟨fun x => by rw [e1], fun x => by rw [e2]⟩, h2.2.2.2⟩⟩⟩

theorem applyBuffered_spec (st : St) (eod : List Nat) (v4 v6 keys : List (List Nat)) (ht : TblOK st.t)
    (hs : be16 eod 2 = st.ss.session) :
    RSpec st.t st.ss (cleanup (applyBuffered st eod v4 v6 keys)).1 (cleanup (applyBuffered st eod v4 v6 keys)).2.t
      (cleanup (applyBuffered st eod v4 v6 keys)).2.ss (some ⟨eod, v4, v6, keys⟩) := by
  have A := applyTables_atomic st.c st.n st.t st.ss.isResetting v4 v6 keys ht
  unfold cleanup applyBuffered
  simp only
  generalize applyTables st.c st.n st.t st.ss.isResetting v4 v6 keys = r at A
  refine ⟨⟨rfl, A.nodup.1, A.nodup.2⟩, A.others, ?_, ?_, ?_⟩
  · cases r.ok <;> cases r.purged <;> simp
  · intro hok
    obtain ⟨_, a1, a2, a3, a4⟩ := A.success hok
    refine ⟨_, rfl, hs, a1, a2, a3, a4, ?_, ?_⟩ <;> simp [hok]
  · intro hok
    cases hpu : r.purged
    · refine ⟨by simp [hok, hpu], Or.inl ⟨A.restored hok hpu, by simp [hok, hpu]⟩⟩
    · refine ⟨by simp [hok, hpu], Or.inr ⟨A.purged hok hpu, by simp [hok, hpu]⟩⟩

theorem recvAndStore_spec : ∀ (fuel : Nat) (st : St) (v4 v6 keys : List (List Nat)), TblOK st.t →
    RSpec st.t st.ss (recvAndStore fuel st v4 v6 keys).1 (recvAndStore fuel st v4 v6 keys).2.1.t
      (recvAndStore fuel st v4 v6 keys).2.1.ss (recvAndStore fuel st v4 v6 keys).2.2 ∧
    ((recvAndStore fuel st v4 v6 keys).1 = true → ∃ b, (recvAndStore fuel st v4 v6 keys).2.2 = some b ∧
      (∃ x, b.v4 = v4 ++ x) ∧ (∃ x, b.v6 = v6 ++ x) ∧ (∃ x, b.keys = keys ++ x)) := by
  intro fuel
  induction fuel with
  | zero =>
    intro st v4 v6 keys ht
    simp only [recvAndStore]
    exact ⟨rspec_unchanged st.t st.ss ht st.t st.ss ⟨rfl, rfl, ht.1⟩ ⟨rfl, rfl, rfl, rfl⟩, fun h => nomatch h⟩
  | succ fuel ih =>
    intro st v4 v6 keys ht
    have unch : ∀ (c : Conn) (n : Net),
        RSpec st.t st.ss false (cleanup (false, { st with c := c, n := n })).2.t (cleanup (false, { st with c := c, n := n })).2.ss none :=
      fun c n => rspec_unchanged st.t st.ss ht _ _ ⟨rfl, rfl, rfl⟩ ⟨rfl, rfl, rfl, rfl⟩
    unfold recvAndStore
    generalize receivePdu st.c st.n st.t.own Gen.RTR_RECV_TIMEOUT = res
    obtain ⟨rr, c, n⟩ := res
    cases rr with
    | rc code =>
      simp only
      split
      · generalize changeState c n st.t.own .errTransport = cs
        obtain ⟨c', n'⟩ := cs
        exact ⟨unch c' n', fun h => nomatch h⟩
      · exact ⟨unch c n, fun h => nomatch h⟩
    | ok raw =>
      simp only
      split
      · have := ih { st with c := c, n := n } (v4 ++ [raw]) v6 keys ht
        refine ⟨this.1, fun h => ?_⟩
        obtain ⟨b, h1, ⟨x, hx⟩, h3, h4⟩ := this.2 h
        exact ⟨b, h1, ⟨[raw] ++ x, by rw [hx]; simp⟩, h3, h4⟩
      · have := ih { st with c := c, n := n } v4 (v6 ++ [raw]) keys ht
        refine ⟨this.1, fun h => ?_⟩
        obtain ⟨b, h1, h2, ⟨x, hx⟩, h4⟩ := this.2 h
        exact ⟨b, h1, h2, ⟨[raw] ++ x, by rw [hx]; simp⟩, h4⟩
      · have := ih { st with c := c, n := n } v4 v6 (keys ++ [raw]) ht
        refine ⟨this.1, fun h => ?_⟩
        obtain ⟨b, h1, h2, h3, ⟨x, hx⟩⟩ := this.2 h
        exact ⟨b, h1, h2, h3, ⟨[raw] ++ x, by rw [hx]; simp⟩⟩
      · -- End of Data
        split
        · generalize sendErrorFromHost c n raw raw.length 0 (txtEodSession st.ss.session (be16 raw 2)) = se
          obtain ⟨_, n1⟩ := se
          simp only
          generalize changeState c n1 st.t.own .errFatal = cs
          obtain ⟨c', n'⟩ := cs
          exact ⟨unch c' n', fun h => nomatch h⟩
        · rename_i hsess
          have hs : be16 raw 2 = st.ss.session := by simpa using hsess
          have := applyBuffered_spec { st with c := c, n := n } raw v4 v6 keys ht hs
          exact ⟨this, fun _ => ⟨_, rfl, ⟨[], by simp⟩, ⟨[], by simp⟩, ⟨[], by simp⟩⟩⟩
      · generalize handleErrorPdu c n st.t.own raw = he
        obtain ⟨c', n'⟩ := he
        exact ⟨unch c' n', fun h => nomatch h⟩
      · exact ih { st with c := c, n := n } v4 v6 keys ht
      · generalize sendErrorFromHost c n raw 8 0 txtUnexpectedSync = se
        obtain ⟨_, n1⟩ := se
        exact ⟨unch c n1, fun h => nomatch h⟩

end Rtr.P

namespace Rtr.P

theorem syncFirst_frame : ∀ (fuel : Nat) (st : St),
    (syncFirst fuel st).2.t = st.t ∧ (syncFirst fuel st).2.ss = st.ss ∧ (syncFirst fuel st).2.tm = st.tm := by
  intro fuel
  induction fuel with
  | zero => intro st; simp [syncFirst]
  | succ fuel ih =>
    intro st
    unfold syncFirst
    generalize receivePdu st.c st.n st.t.own Gen.RTR_RECV_TIMEOUT = res
    obtain ⟨rr, c, n⟩ := res
    cases rr with
    | rc code =>
      simp only
      split
      · generalize changeState { c with version := c.version - 1 } n st.t.own .fastReconnect = cs
        obtain ⟨c', n'⟩ := cs; simp
      · split
        · generalize changeState c n st.t.own .errTransport = cs
          obtain ⟨c', n'⟩ := cs; simp
        · simp
    | ok raw =>
      simp only
      split
      · exact ih { st with c := c, n := n }
      · simp

/-- whether the exchange that starts with Cache Response `cr` is a reload onto shadow tables -/
def resettingAfter (ss : Sess) : Bool :=
  if ss.reqSession then (if ss.lastUpdate ≠ 0 then true else ss.isResetting) else ss.isResetting

structure SyncOK (st : St) (ok : Bool) (st' : St) (g : Option (List Nat × Buffered)) : Prop where
  tblok : TblOK st'.t
  others : OthersSame st.t st'.t
  success : ok = true → ∃ cr b, g = some (cr, b) ∧
    (st.ss.reqSession = false → be16 cr 2 = st.ss.session) ∧
    be16 cr 2 = st'.ss.session ∧ be16 b.eod 2 = st'.ss.session ∧
    lsApplyAll (baseOf st.t (resettingAfter st.ss)).pt ((b.v4 ++ b.v6).map pfxOp) = some st'.t.pt ∧
    lsApplyAll (baseOf st.t (resettingAfter st.ss)).kt (b.keys.map keyOp) = some st'.t.kt ∧
    (∀ p ∈ b.v4 ++ b.v6, pfxOK p) ∧ (∀ p ∈ b.keys, keyOK p) ∧
    st'.ss.serial = be32 b.eod 8 ∧ st'.ss.reqSession = false ∧ st'.ss.lastUpdate = st'.n.now
  failure : ok = false → st'.ss.lastUpdate = st.ss.lastUpdate ∧
    ((TblSame st.t st'.t ∧ nextQuery st'.ss = nextQuery st.ss) ∨ (NoOwn st'.t ∧ st'.ss.reqSession = true))

theorem syncOK_unchanged (st st' : St) (ht : TblOK st.t) (h1 : st'.t = st.t) (h2 : st'.ss = st.ss) :
    SyncOK st false st' none :=
  ⟨by rw [h1]; exact ht, by rw [h1]; exact OthersSame.refl _, (fun h => nomatch h),
   fun _ => ⟨by rw [h2], Or.inl ⟨by rw [h1]; exact TblSame.refl _, by rw [h2]⟩⟩⟩

/-- what `rtr_handle_cache_response_pdu` does to the session part -/
theorem handleCacheResponse_spec (c : Conn) (ss : Sess) (n : Net) (own : Nat) (raw : List Nat) :
    let r := handleCacheResponse c ss n own raw
    (r.1 = false → r.2.2.1 = ss ∧ ss.reqSession = false ∧ ss.session ≠ be16 raw 2) ∧
    (r.1 = true → r.2.2.1.session = be16 raw 2 ∧ r.2.2.1.serial = ss.serial ∧ r.2.2.1.reqSession = ss.reqSession ∧
      r.2.2.1.lastUpdate = ss.lastUpdate ∧ r.2.2.1.isResetting = resettingAfter ss ∧
      (ss.reqSession = false → ss.session = be16 raw 2)) := by
  intro r
  have hr : r = handleCacheResponse c ss n own raw := rfl
  unfold handleCacheResponse at hr
  simp only at hr
  by_cases hreq : ss.reqSession = true
  · rw [if_pos hreq] at hr
    have hres : resettingAfter ss = (if ss.lastUpdate ≠ 0 then true else ss.isResetting) := by
      unfold resettingAfter; rw [if_pos hreq]
    rw [hr, hres]
    refine ⟨(fun h => nomatch h), fun _ => ?_⟩
    by_cases hl : ss.lastUpdate ≠ 0
    · simp [hl, hreq]
    · simp [hl, hreq]
  · have hreq' : ss.reqSession = false := by simpa using hreq
    rw [if_neg hreq] at hr
    have hres : resettingAfter ss = ss.isResetting := by unfold resettingAfter; rw [if_neg hreq]
    by_cases hne : ss.session ≠ be16 raw 2
    · rw [if_pos hne] at hr
      generalize sendErrorFromHost c n [] 0 0 txtWrongSession = se at hr
      obtain ⟨x, n1⟩ := se
      simp only at hr
      generalize changeState c n1 own .errFatal = cs at hr
      obtain ⟨c', n'⟩ := cs
      simp only at hr
      rw [hr]
      exact ⟨fun _ => ⟨rfl, hreq', hne⟩, (fun h => nomatch h)⟩
    · rw [if_neg hne] at hr
      have he' : ss.session = be16 raw 2 := by simpa using hne
      rw [hr]
      exact ⟨(fun h => nomatch h), fun _ => ⟨he', rfl, rfl, rfl, hres.symm, fun _ => he'⟩⟩

theorem syncG_spec (fuel : Nat) (st : St) (ht : TblOK st.t) :
    SyncOK st (syncG fuel st).1 (syncG fuel st).2.1 (syncG fuel st).2.2 := by
  unfold syncG
  have F := syncFirst_frame fuel st
  generalize syncFirst fuel st = sf at F
  obtain ⟨r, st1⟩ := sf
  simp only at F
  obtain ⟨f1, f2, f3⟩ := F
  cases r with
  | none => exact syncOK_unchanged st st1 ht f1 f2
  | some raw =>
    simp only
    split
    · generalize handleErrorPdu st1.c st1.n st1.t.own raw = he
      obtain ⟨c', n'⟩ := he
      exact syncOK_unchanged st _ ht f1 f2
    · generalize changeState st1.c st1.n st1.t.own .errNoIncr = cs
      obtain ⟨c', n'⟩ := cs
      exact syncOK_unchanged st _ ht f1 f2
    · -- Cache Response
      have H := handleCacheResponse_spec st1.c st1.ss st1.n st1.t.own raw
      simp only at H
      generalize handleCacheResponse st1.c st1.ss st1.n st1.t.own raw = hcr at H
      obtain ⟨okc, c2, ss2, n2⟩ := hcr
      simp only at H ⊢
      obtain ⟨Hf, Ht⟩ := H
      cases okc
      · simp only [Bool.not_false, if_true]
        obtain ⟨e, _, _⟩ := Hf rfl
        exact syncOK_unchanged st _ ht f1 (by simp only; rw [e, f2])
      · simp only [Bool.not_true, Bool.false_eq_true, if_false]
        obtain ⟨hsess, hserial, hreq, hlu, hres, hsame⟩ := Ht rfl
        rw [f2] at hserial hreq hlu hres hsame
        have R := recvAndStore_spec fuel { st1 with c := c2, ss := ss2, n := n2 } [] [] [] (by show TblOK st1.t; rw [f1]; exact ht)
        generalize recvAndStore fuel { st1 with c := c2, ss := ss2, n := n2 } [] [] [] = rs at R
        obtain ⟨ok, st2, g⟩ := rs
        simp only at R
        obtain ⟨R, _⟩ := R
        rw [f1] at R
        cases ok
        · simp only [Bool.not_false, if_true]
          obtain ⟨hser, hcase⟩ := R.failure rfl
          refine ⟨R.tblok, R.others, (fun h => nomatch h), fun _ => ⟨by rw [R.sess.2, hlu], ?_⟩⟩
          rcases hcase with ⟨h1, h2⟩ | ⟨h1, h2⟩
          · refine Or.inl ⟨h1, ?_⟩
            unfold nextQuery
            rw [h2, hreq, hser, hserial, R.sess.1, hsess]
            cases hr : st.ss.reqSession
            · simp [hsame hr]
            · simp
          · exact Or.inr ⟨h1, h2⟩
        · simp only [Bool.not_true, Bool.false_eq_true, if_false]
          obtain ⟨b, hg, he, a1, a2, a3, a4, a5, a6⟩ := R.success rfl
          refine ⟨R.tblok, R.others, fun _ => ?_, (fun h => nomatch h)⟩
          refine ⟨raw, b, by simp [hg], ?_, ?_, ?_, ?_, ?_, a3, a4, ?_, rfl, rfl⟩
          · intro h; exact (hsame h).symm
          · show be16 raw 2 = st2.ss.session
            rw [R.sess.1, hsess]
          · show be16 b.eod 2 = st2.ss.session
            rw [R.sess.1, he]
          · rw [← hres]; exact a1
          · rw [← hres]; exact a2
          · show st2.ss.serial = be32 b.eod 8
            exact a5
    · generalize sendErrorFromHost st1.c st1.n raw 8 0 txtUnexpectedSync2 = se
      obtain ⟨_, n1⟩ := se
      exact syncOK_unchanged st _ ht f1 f2

end Rtr.P
